#!/bin/sh
# tools/seedcheck.sh <seed worktree> <Cxx> <name> : confirm a seeded change (tests pass, demo fails with / passes without),
# keep it under seeded/<name>/ and run the property's quick check against it.
WT="$1"; PROP="$2"; NAME="$3"
HERE="$(cd "$(dirname "$0")/.." && pwd)"
cd "$WT" || exit 2
git diff -- gunicorn > /tmp/seed-$NAME.diff
[ -s /tmp/seed-$NAME.diff ] || { echo "no source change"; exit 2; }
T=$(/venv/bin/python -m pytest -q -p no:cacheprovider 2>&1 | tail -1); rm -f coverage.xml
PYTHONPATH="$WT" timeout 300 /venv/bin/python demo_seed.py > /tmp/seed-$NAME.with.txt 2>&1; W=$?
# (git stash is shared by all worktrees of a repository: revert and re-apply the patch instead)
git apply -R /tmp/seed-$NAME.diff
PYTHONPATH="$WT" timeout 300 /venv/bin/python demo_seed.py > /tmp/seed-$NAME.without.txt 2>&1; WO=$?
git apply /tmp/seed-$NAME.diff
echo "tests: $T | demo with change: exit $W | without: exit $WO"
mkdir -p "$HERE/seeded/$NAME"
cp /tmp/seed-$NAME.diff "$HERE/seeded/$NAME/patch.diff"; cp demo_seed.py "$HERE/seeded/$NAME/demo_seed.py"
[ -f SEED_NOTES.md ] && cp SEED_NOTES.md "$HERE/seeded/$NAME/SEED_NOTES.md"
cd "$HERE" && tools/mutrun.sh "$HERE/seeded/$NAME/patch.diff" "$PROP" > /tmp/seed-$NAME.check.txt 2>&1; RC=$?
grep -E "VIOLATION|^  \(|KNOWN-FINDING" /tmp/seed-$NAME.check.txt | cut -c1-260 | head -6
echo "check rc=$RC"
python3 - "$NAME" "$PROP" "$T" "$W" "$WO" "$RC" <<'PY'
import json,sys,re
name,prop,t,w,wo,rc=sys.argv[1:7]
out=open('/tmp/seed-%s.check.txt'%name).read()
viol=[l for l in out.splitlines() if l.startswith('VIOLATION')]
meta={"property":prop,"name":name,"tests_with_change":t,"demo_exit_with_change":int(w),"demo_exit_without_change":int(wo),
 "check_cmd":"tools/mutrun.sh seeded/%s/patch.diff %s quick"%(name,prop),"check_exit":int(rc),
 "violation_lines":viol[:3],"concrete_replay": any('no-failing-input-found' not in l for l in viol),
 "confirmed": ("260 passed" in t and int(w)!=0 and int(wo)==0)}
json.dump(meta,open('/verif/seeded/%s/meta.json'%name,'w'),indent=1)
print(json.dumps({k:meta[k] for k in ("confirmed","check_exit","concrete_replay")}))
PY
