#!/bin/sh
# tools/covrun.sh <Cxx...> : run quick checks under coverage.py (in-process gunicorn code only) to see which lines of
# gunicorn no check executes.  Development aid; results in .build/cov/.
HERE="$(cd "$(dirname "$0")/.." && pwd)"
export VERIF_REPO=/repo PYTHONPATH="/repo:$HERE/harness" PYTHONHASHSEED=0 PYTHONDONTWRITEBYTECODE=1 GUNICORN_VERIF=1 VERIF_EVIDENCE_DIR="$HERE/.build/cov/evidence"
unset GUNICORN_CMD_ARGS
cd "$HERE"
printf '%s\n' "$@" | xargs -P 4 -I{} sh -c "COVERAGE_FILE=$HERE/.build/cov/.coverage.{} /venv/bin/python -m coverage run --source=/repo/gunicorn --concurrency=thread harness/main.py {} quick > .build/cov/{}.txt 2>&1; echo {} rc=\$?"
