#!/bin/sh
# usage: tools/mutrun.sh <patch.diff> <Cxx> [tier]   -- apply a patch to a scratch worktree of /repo, run the check on it
PATCH="$(realpath "$1")"; PROP="$2"; TIER="${3:-quick}"
W="$(mktemp -d /tmp/gvmut.XXXXXX)"; rmdir "$W"
git -C /repo worktree add --detach "$W" HEAD >/dev/null 2>&1 || exit 3
( cd "$W" && git apply "$PATCH" ) || { git -C /repo worktree remove --force "$W"; echo "PATCH FAILED"; exit 3; }
HERE="$(cd "$(dirname "$0")/.." && pwd)"
cd "$HERE" && VERIF_REPO="$W" ./check "$PROP" "$TIER"
RC=$?
git -C /repo worktree remove --force "$W"
KEY="$(python3 -c "import hashlib,sys;print(hashlib.sha1(sys.argv[1].encode()).hexdigest()[:10])" "$W")"
mkdir -p "$HERE/.build/mut-evidence" && rm -rf "$HERE/.build/mut-evidence/$KEY" && mv "$HERE/.build/$KEY/evidence" "$HERE/.build/mut-evidence/$KEY" 2>/dev/null && echo "evidence of this run kept in $HERE/.build/mut-evidence/$KEY"
rm -rf "$HERE/.build/$(python3 -c "import hashlib,sys;print(hashlib.sha1(sys.argv[1].encode()).hexdigest()[:10])" "$W")"
echo "mutrun rc=$RC"
exit $RC
