#!/bin/sh
# tools/thorough_all.sh [props...] : run the thorough tier of every (given) property on the unchanged tree, two at a time
HERE="$(cd "$(dirname "$0")/.." && pwd)"; mkdir -p "$HERE/.build/thorough"
PROPS="${@:-C17 C16 C20 C12 C09 C02 C05 C18 C19 C08 C15 C13 C03 C11 C10 C04 C14 C07 C06 C01}"
printf '%s\n' $PROPS | xargs -P 2 -I{} sh -c "cd $HERE && /usr/bin/time -f '{} wall=%es' ./check {} thorough > .build/thorough/{}.txt 2>&1; echo {} rc=\$? \$(grep -c '^VIOLATION' .build/thorough/{}.txt) violations \$(tail -1 .build/thorough/{}.txt)"
