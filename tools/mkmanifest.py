#!/usr/bin/env python3
"""Assemble MANIFEST.json from meta/Cxx.json (one file per claimed property)."""
import json
from pathlib import Path

V = Path(__file__).resolve().parent.parent
props = [json.loads(l) for l in (V / "properties.jsonl").read_text().splitlines() if l.strip()]
checks, na = [], []
pending = json.loads((V / "meta" / "_not_applicable.json").read_text()) if (V / "meta" / "_not_applicable.json").exists() else {}
for p in props:
    pid = p["id"]
    mf = V / "meta" / (pid + ".json")
    if not mf.exists():
        na.append({"property_id": pid, "reason": pending.get(pid, "check not built yet in this round (planned: DESIGN.md section 6); nothing is claimed for it")})
        continue
    m = json.loads(mf.read_text())
    checks.append({
        "property_id": pid,
        "quick_cmd": "./check %s quick" % pid,
        "thorough_cmd": "./check %s thorough" % pid,
        "evidence_file": "/verif/evidence/%s.json" % pid,
        "replay_cmd_template": "./check %s --replay {path}" % pid,
        "engine": "coq-model+correspondence",
        "level_claimed": {"category": "proof", "text": m["level_text"], "design_ref": m.get("design_ref", "DESIGN.md section 6")},
        "level_note": m["level_note"],
        "technique": m["technique"],
    })
man = {
    "version": 1,
    "setup_cmd": "./check --setup",
    "hooks": {
        "guard": "GUNICORN_VERIF",
        "enable": "no source hooks: the harness substitutes sockets, os/time/selectors functions and executors from its own process; GUNICORN_VERIF=1 is exported by ./check but nothing in /repo reads it",
        "baseline_off_cmd": "cd /repo && /venv/bin/python -m pytest -ra -q -p no:cacheprovider --timeout=900 --continue-on-collection-errors",
        "source_commits": [],
        "add_only": True,
    },
    "engines": [{
        "name": "coq-model+correspondence", "path": "/verif/check",
        "serves_properties": [c["property_id"] for c in checks],
        "kind_free_text": "Rocq/Coq 8.16.1 theorems over hand-written executable Gallina models (coq/theories), tables regenerated from /repo on every run (harness/gen), models tied to the code by a differential correspondence run evaluated with vm_compute inside Coq, plus a property oracle on the real implementation for the failing-input search",
    }],
    "checks": checks,
    "not_applicable": na,
    "notes": "Single entry point ./check <id> quick|thorough. VERIF_SEED seeds the only PRNG; VERIF_REPO (default /repo) selects the tree under test. KNOWN_FINDINGS.txt lists recorded genuine defects. See DESIGN.md.",
}
(V / "MANIFEST.json").write_text(json.dumps(man, indent=1) + "\n")
print("claimed:", [c["property_id"] for c in checks])
