#!/usr/bin/env python3
"""tools/automut.py gen|run|report - mechanical mutants of gunicorn as a sensitivity sweep of the checks (development aid).

gen     writes one patch per mutant to .build/automut/patches/<id>.diff (+ index.json): comparison flips, boundary shifts,
        and/or swaps, dropped `not`, constants +-1, dropped simple statements - in the files the properties are anchored in.
run N   N workers: each takes a mutant, applies it to its own scratch worktree of /repo under /tmp, runs gunicorn's test-suite
        (a mutant the suite kills is of no interest), then the quick checks of the properties mapped to the file, and records
        which check reported a VIOLATION (concrete / no-failing-input-found) in .build/automut/results/<id>.json.
report  table of survivors (mutants that pass the suite AND every mapped check): candidates for gaps - or equivalent mutants.

Nothing here is part of the registered checks."""
import ast
import hashlib
import json
import os
import random
import subprocess
import sys
import tempfile
from concurrent.futures import ThreadPoolExecutor

V = os.path.dirname(os.path.dirname(os.path.abspath(__file__)))
OUT = os.path.join(V, ".build", "automut")
REPO = "/repo"

FILES = {
    "gunicorn/http/message.py": ["C01", "C06", "C12", "C08", "C15"],
    "gunicorn/http/body.py": ["C07", "C06", "C01", "C12"],
    "gunicorn/http/parser.py": ["C07", "C06", "C01"],
    "gunicorn/http/unreader.py": ["C06", "C07"],
    "gunicorn/http/wsgi.py": ["C02", "C09", "C15", "C08", "C19"],
    "gunicorn/arbiter.py": ["C03", "C04", "C10", "C11", "C14"],
    "gunicorn/pidfile.py": ["C17", "C14"],
    "gunicorn/workers/base.py": ["C05", "C18", "C11", "C04"],
    "gunicorn/workers/sync.py": ["C05", "C18", "C11", "C04"],
    "gunicorn/workers/gthread.py": ["C13", "C05", "C18", "C08", "C04"],
    "gunicorn/workers/base_async.py": ["C05", "C18", "C08", "C19", "C04", "C02"],
    "gunicorn/workers/workertmp.py": ["C11", "C20"],
    "gunicorn/glogging.py": ["C19"],
    "gunicorn/util.py": ["C20", "C05", "C15", "C02"],
    "gunicorn/sock.py": ["C14", "C20"],
    "gunicorn/app/base.py": ["C16"],
    "gunicorn/config.py": ["C16", "C20"],
}
SKIP_FUNCS = {"__repr__", "__str__", "usage", "print_", "daemonize", "import_app", "load_class", "_called_with_wrong_args",
              "warn", "make_fail_app", "getcwd", "seed", "check_is_writable", "to_bytestring", "has_fileno", "http_date",
              "closerange", "get_arity", "split_request_uri", "bytes_to_str", "reraise", "unlink", "positive_int"}

CMP = {ast.Eq: ast.NotEq, ast.NotEq: ast.Eq, ast.Lt: ast.LtE, ast.LtE: ast.Lt, ast.Gt: ast.GtE, ast.GtE: ast.Gt,
       ast.Is: ast.IsNot, ast.IsNot: ast.Is, ast.In: ast.NotIn, ast.NotIn: ast.In}


def mutants_of(path, src):
    """yield (kind, lineno, new_source)"""
    tree = ast.parse(src)
    lines = src.splitlines(True)

    def seg(node):
        return ast.get_source_segment(src, node)

    def replace(node, text):
        # single-line nodes only: keeps the patches small and readable
        if node.lineno != node.end_lineno:
            return None
        l = lines[node.lineno - 1]
        new = l[:node.col_offset] + text + l[node.end_col_offset:]
        if new == l:
            return None
        return "".join(lines[:node.lineno - 1] + [new] + lines[node.lineno:])

    funcs = []
    for n in ast.walk(tree):
        if isinstance(n, (ast.FunctionDef, ast.AsyncFunctionDef)) and n.name not in SKIP_FUNCS:
            funcs.append(n)
    seen = set()
    for f in funcs:
        for n in ast.walk(f):
            key = (type(n).__name__, getattr(n, "lineno", 0), getattr(n, "col_offset", 0))
            if key in seen:
                continue
            seen.add(key)
            if isinstance(n, ast.Compare) and len(n.ops) == 1 and type(n.ops[0]) in CMP:
                left, right = seg(n.left), seg(n.comparators[0])
                if left is None or right is None:
                    continue
                opnew = CMP[type(n.ops[0])]
                sym = {ast.Eq: "==", ast.NotEq: "!=", ast.Lt: "<", ast.LtE: "<=", ast.Gt: ">", ast.GtE: ">=", ast.Is: "is",
                       ast.IsNot: "is not", ast.In: "in", ast.NotIn: "not in"}[opnew]
                r = replace(n, "%s %s %s" % (left, sym, right))
                if r:
                    yield ("cmp", n.lineno, r)
            elif isinstance(n, ast.BoolOp) and n.lineno == n.end_lineno:
                parts = [seg(v) for v in n.values]
                if all(parts):
                    sym = " or " if isinstance(n.op, ast.And) else " and "
                    r = replace(n, "(" + sym.join(parts) + ")")
                    if r:
                        yield ("boolop", n.lineno, r)
            elif isinstance(n, ast.UnaryOp) and isinstance(n.op, ast.Not):
                inner = seg(n.operand)
                if inner:
                    r = replace(n, "(" + inner + ")")
                    if r:
                        yield ("not", n.lineno, r)
            elif isinstance(n, ast.Constant) and isinstance(n.value, int) and not isinstance(n.value, bool) and 0 <= n.value <= 8192:
                for d in ((1,) if n.value == 0 else (1, -1)):
                    r = replace(n, str(n.value + d))
                    if r:
                        yield ("const%+d" % d, n.lineno, r)
            elif isinstance(n, ast.If) and n.test.lineno == n.test.end_lineno and not isinstance(n.test, ast.Constant):
                t = seg(n.test)
                if t:
                    for val in ("True", "False"):
                        r = replace(n.test, val)
                        if r:
                            yield ("if-" + val, n.lineno, r)
            elif isinstance(n, (ast.Expr, ast.Assign, ast.AugAssign)) and n.lineno == n.end_lineno and not isinstance(getattr(n, "value", None), ast.Constant):
                # drop a simple statement (replace by pass) - not docstrings, not logging
                s = seg(n) or ""
                if s.lstrip().startswith(("self.log.", "log.", "self.cfg.", "print", "warnings.")):
                    continue
                l = lines[n.lineno - 1]
                new = l[:n.col_offset] + "pass" + l[n.end_col_offset:]
                yield ("drop", n.lineno, "".join(lines[:n.lineno - 1] + [new] + lines[n.lineno:]))


def gen(per_file, seed):
    only = os.environ.get("AUTOMUT_FILES")
    if only:
        for k in list(FILES):
            if not any(k.endswith(x) for x in only.split(",")):
                del FILES[k]
    os.makedirs(os.path.join(OUT, "patches"), exist_ok=True)
    rng = random.Random(seed)
    index = []
    for rel, props in FILES.items():
        src = open(os.path.join(REPO, rel)).read()
        ms = list(mutants_of(rel, src))
        rng.shuffle(ms)
        kept = 0
        for kind, line, new in ms:
            try:
                compile(new, rel, "exec")
            except SyntaxError:
                continue
            mid = hashlib.sha1((rel + new).encode()).hexdigest()[:10]
            import difflib
            patch = "".join(difflib.unified_diff(src.splitlines(True), new.splitlines(True), "a/" + rel, "b/" + rel))
            with open(os.path.join(OUT, "patches", mid + ".diff"), "w") as fh:
                fh.write(patch)
            index.append({"id": mid, "file": rel, "line": line, "kind": kind, "props": props,
                          "text": new.splitlines()[line - 1].strip()[:120], "was": src.splitlines()[line - 1].strip()[:120]})
            kept += 1
            if kept >= per_file:
                break
    with open(os.path.join(OUT, "index.json"), "w") as fh:
        json.dump(index, fh, indent=1)
    print("generated %d mutants" % len(index))


def run_one(m):
    res_path = os.path.join(OUT, "results", m["id"] + ".json")
    if os.path.exists(res_path):
        return json.load(open(res_path))
    w = tempfile.mkdtemp(prefix="gvauto.", dir="/tmp")
    os.rmdir(w)
    res = dict(m)
    try:
        subprocess.run(["git", "-C", REPO, "worktree", "add", "--detach", w, "HEAD"], capture_output=True, check=True)
        a = subprocess.run(["git", "apply", os.path.join(OUT, "patches", m["id"] + ".diff")], cwd=w, capture_output=True)
        if a.returncode != 0:
            res["status"] = "patch-failed"
            return res
        t = subprocess.run(["/venv/bin/python", "-m", "pytest", "-q", "-x", "-p", "no:cacheprovider", "--no-cov"], cwd=w,
                           capture_output=True, text=True, timeout=120)
        if "passed" not in t.stdout.splitlines()[-1] or "failed" in t.stdout.splitlines()[-1] or t.returncode != 0:
            res["status"] = "killed-by-tests"
            return res
        res["status"] = "survived-tests"
        res["checks"] = {}
        env = dict(os.environ, VERIF_REPO=w, VERIF_NO_COQCHK="1", VERIF_NCPU="4")
        for p in m["props"]:
            try:
                c = subprocess.run([os.path.join(V, "check"), p, "quick"], cwd=V, env=env, capture_output=True, text=True, timeout=700)
                viol = [l for l in c.stdout.splitlines() if l.startswith("VIOLATION")]
                detail = [l.strip() for l in c.stdout.splitlines() if l.startswith("  (")]
                res["checks"][p] = {"exit": c.returncode, "violations": len(viol),
                                    "concrete": any("no-failing-input-found" not in l for l in viol),
                                    "first": (detail[0][:200] if detail else "")}
            except subprocess.TimeoutExpired:
                res["checks"][p] = {"exit": -1, "violations": 0, "concrete": False, "first": "timeout"}
            if res["checks"][p]["violations"]:
                break                       # one check that reports it is enough
        res["caught"] = any(c["violations"] for c in res["checks"].values())
        return res
    except Exception as e:
        res["status"] = "error: %r" % (e,)
        return res
    finally:
        subprocess.run(["git", "-C", REPO, "worktree", "remove", "--force", w], capture_output=True)
        key = hashlib.sha1(os.path.realpath(w).encode()).hexdigest()[:10]
        subprocess.run(["rm", "-rf", os.path.join(V, ".build", key)])
        os.makedirs(os.path.join(OUT, "results"), exist_ok=True)
        with open(res_path, "w") as fh:
            json.dump(res, fh, indent=1)


def run(nworkers, limit=None):
    index = json.load(open(os.path.join(OUT, "index.json")))
    if limit:
        index = index[:limit]
    from concurrent.futures import as_completed
    with ThreadPoolExecutor(nworkers) as ex:
        for fut in as_completed([ex.submit(run_one, m) for m in index]):
            r = fut.result()
            tag = r.get("status")
            if tag == "survived-tests":
                tag = "CAUGHT" if r.get("caught") else "SURVIVED-ALL"
            print("%-16s %s %s:%d [%s] %s" % (tag, r["id"], r["file"], r["line"], r["kind"], r["text"][:70]), flush=True)


def report():
    rs = []
    d = os.path.join(OUT, "results")
    for f in sorted(os.listdir(d)):
        rs.append(json.load(open(os.path.join(d, f))))
    by = {}
    for r in rs:
        tag = r.get("status")
        if tag == "survived-tests":
            tag = "caught" if r.get("caught") else "SURVIVED"
        by.setdefault(tag, []).append(r)
    for k, v in by.items():
        print("%-18s %d" % (k, len(v)))
    print()
    for r in sorted(by.get("SURVIVED", []), key=lambda r: (r["file"], r["line"])):
        print("%s %s:%d [%s]\n      was: %s\n      now: %s" % (r["id"], r["file"], r["line"], r["kind"], r["was"], r["text"]))


if __name__ == "__main__":
    cmd = sys.argv[1]
    if cmd == "gen":
        gen(int(sys.argv[2]) if len(sys.argv) > 2 else 12, int(sys.argv[3]) if len(sys.argv) > 3 else 1)
    elif cmd == "run":
        run(int(sys.argv[2]) if len(sys.argv) > 2 else 6, int(sys.argv[3]) if len(sys.argv) > 3 else None)
    else:
        report()
