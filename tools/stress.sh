#!/bin/sh
# tools/stress.sh <seeds> <props...> : run quick checks repeatedly (different seeds) on the unchanged tree, 3 properties at a time, to look for flaky alarms
SEEDS="$1"; shift
HERE="$(cd "$(dirname "$0")/.." && pwd)"; mkdir -p "$HERE/.build/stress"
for s in $SEEDS; do
  printf '%s\n' "$@" | xargs -P 3 -I{} sh -c "cd $HERE && VERIF_SEED=$s ./check {} quick > .build/stress/{}-$s.txt 2>&1; echo {} seed=$s rc=\$? \$(grep -c '^VIOLATION' .build/stress/{}-$s.txt) violations"
done
