#!/usr/bin/env python3
"""mkmut.py <out.diff> <file relative to repo> <old> <new> [<file> <old> <new> ...]: write a patch replacing
the unique occurrence of <old> by <new> (\\n in arguments = newline)."""
import difflib, sys
out = sys.argv[1]
args = sys.argv[2:]
patch = ""
for k in range(0, len(args), 3):
    f, old, new = args[k], args[k+1].replace("\\n", "\n"), args[k+2].replace("\\n", "\n")
    s = open("/repo/" + f).read()
    if s.count(old) != 1:
        sys.exit("pattern occurs %d times in %s" % (s.count(old), f))
    t = s.replace(old, new)
    patch += "".join(difflib.unified_diff(s.splitlines(True), t.splitlines(True), "a/" + f, "b/" + f))
open(out, "w").write(patch)
