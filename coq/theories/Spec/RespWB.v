(* "Well-behaved application" (DESIGN.md section 5) as a decidable predicate over the programs of
   Model/Response.v, and what such an application is expected to put on the wire.  Definitions only.
   Character classes are the RFC ones of Spec/RespSpec.v (not the regenerated tables).

     status        3DIGIT SP reason-phrase, code >= 200
     headers       token ":" field-content; at most one Content-Length and it is 1*DIGIT (after OWS stripping);
                   no "Connection: upgrade" (hijacking the connection is outside PEP 3333)
     program       start_response(status, headers) once - possibly followed, before any output, by further calls
                   with exc_info that replace it - then write() calls / yielded items, then either the end of
                   the iterable or a file wrapper (block size > 0); no exception
     body          empty for HEAD / 204 / 304; at least Content-Length bytes when a length is declared
 *)
From Coq Require Import List NArith ZArith Bool.
From GV Require Import Base.Enc Model.RespStr Model.Response Spec.RespSpec.
Import ListNotations.
Local Open Scope N_scope.

Definition wb_status (s : str) : option (N * bytes) :=
  match s with
  | d1 :: d2 :: d3 :: sp :: reason =>
    if is_digit d1 && is_digit d2 && is_digit d3 && (sp =? 32) && forallb is_field_char reason
    then let code := 100 * digit_val d1 + 10 * digit_val d2 + digit_val d3 in
         if 200 <=? code then Some (code, reason) else None
    else None
  | _ => None
  end.

Definition hname_lower (h : str * str) : bytes := map RespSpec.lower_c (fst h).
Definition hvalue (h : str * str) : bytes := strip_ows (snd h).
Definition is_cl (h : str * str) : bool := beq (hname_lower h) n_content_length.
Definition nonempty {A} (l : list A) : bool := match l with [] => false | _ => true end.
Definition v_upgrade : bytes := [117; 112; 103; 114; 97; 100; 101].

Definition wb_header (h : str * str) : bool :=
  nonempty (fst h) && forallb is_tchar (fst h) && forallb is_field_char (snd h)
  && negb (beq (hname_lower h) n_connection && beq (map RespSpec.lower_c (hvalue h)) v_upgrade)
  && (if is_cl h then nonempty (hvalue h) && forallb is_digit (hvalue h) else true).

Definition wb_headers (hs : list (str * str)) : bool :=
  forallb wb_header hs && Nat.leb (length (filter is_cl hs)) 1.

Definition declared_length (hs : list (str * str)) : option N :=
  match filter is_cl hs with
  | h :: _ => parse_dec (hvalue h)
  | [] => None
  end.

Definition wb_call (s : str) (h : list (str * str)) : bool :=
  (match wb_status s with Some _ => true | None => false end) && wb_headers h.

(* the write() calls / yielded items, if the rest of the program consists of nothing else *)
Fixpoint writes_of (acts : list action) : option (list bytes) :=
  match acts with
  | [] => Some []
  | Write d :: t => option_map (cons d) (writes_of t)
  | StartResponse _ _ _ :: _ => None
  end.

(* further start_response calls with exc_info before any output replace the current one *)
Fixpoint wb_prog (acts : list action) (cur : str * list (str * str)) : option ((str * list (str * str)) * list bytes) :=
  match acts with
  | StartResponse s h true :: t => if wb_call s h then wb_prog t (s, h) else None
  | _ => option_map (pair cur) (writes_of acts)
  end.

Definition wb_acts (acts : list action) : option ((str * list (str * str)) * list bytes) :=
  match acts with
  | StartResponse s h false :: t => if wb_call s h then wb_prog t (s, h) else None
  | _ => None
  end.

(* what the file wrapper yields: the file from the position of the file object *)
Definition file_rest (f : filespec) : bytes := skipn (N.to_nat (f_offset f)) (f_content f).

Definition app_output (writes : list bytes) (e : ending) : option bytes :=
  match e with
  | EndDone => Some (concat writes)
  | EndFile f => if 0 <? f_blksize f then Some (concat writes ++ file_rest f) else None
  | EndRaise => None
  end.

Record wb_view := { v_status : str; v_code : N; v_reason : bytes; v_headers : list (str * str);
                    v_writes : list bytes; v_output : bytes }.

Definition view (a : app) : option wb_view :=
  match wb_acts (a_acts a) with
  | Some ((s, h), ws) =>
    match wb_status s, app_output ws (a_end a) with
    | Some (code, reason), Some out =>
      Some {| v_status := s; v_code := code; v_reason := reason; v_headers := h; v_writes := ws; v_output := out |}
    | _, _ => None
    end
  | None => None
  end.

Definition well_behaved (rq : reqinfo) (a : app) : bool :=
  match view a with
  | Some v =>
    if no_body (rq_method rq) (v_code v) then Nat.eqb (length (v_output v)) 0
    else match declared_length (v_headers v) with
         | Some n => Nat.leb (N.to_nat n) (length (v_output v))
         | None => true
         end
  | None => false
  end.

(* the body a client must decode: the application's output, cut to the declared length *)
Definition expected_body (rq : reqinfo) (v : wb_view) : bytes :=
  if no_body (rq_method rq) (v_code v) then []
  else match declared_length (v_headers v) with
       | Some n => firstn (N.to_nat n) (v_output v)
       | None => v_output v
       end.
