(* The ideal reader behind a Body: a byte string that is still to come and what happens after it -
   a clean end (then [after] is what the next request is parsed from, [trailers] what was announced)
   or an error that a read needing more will raise.  The Body code of Model/Parser.v is generic in
   its reader, so it runs over this one too; Spec/FileSpec.v says what it then computes. *)
From Coq Require Import List NArith ZArith Bool.
From GV Require Import Base.Bytes Base.Scan Base.PyStr Model.Parser.
Import ListNotations.
Local Open Scope N_scope.

Inductive term :=
| TEof (after : bytes) (trailers : list header)
| TErr (e : perr).

Notation istate := (bytes * term)%type.

Definition i_rd (n : N) (s : istate) : (bytes + perr) * istate :=
  match snd s with
  | TEof _ _ => (inl (takeN n (fst s)), (dropN n (fst s), snd s))
  | TErr e => if n <=? blen (fst s) then (inl (takeN n (fst s)), (dropN n (fst s), snd s)) else (inr e, s)
  end.
Definition i_fuel (s : istate) : nat := S (length (fst s)).

(* binary file semantics over a byte string (io.BytesIO): the reference for C07 *)
Definition file_read (size : option Z) (f : bytes) : bytes * bytes :=
  let n := getsize size in (takeN n f, dropN n f).
Definition line_len (f : bytes) : N :=
  match find_char 10 f with Some i => N.of_nat (S i) | None => blen f end.
Definition file_readline (size : option Z) (f : bytes) : bytes * bytes :=
  let n := N.min (getsize size) (line_len f) in (takeN n f, dropN n f).
Definition file_readlines (f : bytes) : list bytes * bytes := (split_lines f, []).
Definition file_next (f : bytes) : option bytes * bytes :=
  match f with [] => (None, []) | _ => let '(l, r) := file_readline None f in (Some l, r) end.

(* a read program over a binary file: the reference behaviour of wsgi.input (C07) *)
Definition file_call (cl : call) (f : bytes) : callres * bytes :=
  match cl with
  | Read s => (RBytes (fst (file_read s f)), snd (file_read s f))
  | Readline s => (RBytes (fst (file_readline s f)), snd (file_readline s f))
  | Readlines => (RLines (split_lines f), [])
  | Next => match f with
            | [] => (RStopIter, [])
            | _ => (RBytes (fst (file_readline None f)), snd (file_readline None f))
            end
  end.
Fixpoint file_run (cls : list call) (f : bytes) : list Z * bytes :=
  match cls with
  | [] => ([], f)
  | cl :: t => let '(r, f') := file_call cl f in
               let '(o, f'') := file_run t f' in (enc_callres r ++ o, f'')
  end.
