(* A small strict reader for a complete HTTP/1.x response that is framed by Content-Length, used as the
   independent specification of "one well-formed error response" (C05).  It accepts exactly
       "HTTP/1." DIGIT SP 3DIGIT SP reason CRLF  *( name ":" OWS value CRLF )  CRLF  body
   with no bare CR or LF anywhere in the head, a canonical three-digit status code, non-empty field names
   without whitespace, no Transfer-Encoding, exactly one Content-Length (1*DIGIT) whose value is the length
   of everything that follows the blank line.  Definitions only. *)
From Coq Require Import List NArith Bool.
From GV Require Import Base.Dec.
Import ListNotations.
Local Open Scope N_scope.

Fixpoint list_eqb (a b : list N) : bool :=
  match a, b with
  | [], [] => true
  | x :: s, y :: t => (x =? y) && list_eqb s t
  | _, _ => false
  end.

(* text up to the first CRLF; a bare CR or LF before it is refused *)
Fixpoint split_crlf (l : list N) : option (list N * list N) :=
  match l with
  | [] => None
  | c :: t =>
      if c =? 13 then match t with
                      | d :: t' => if d =? 10 then Some ([], t') else None
                      | [] => None
                      end
      else if c =? 10 then None
      else match split_crlf t with
           | Some (a, b) => Some (c :: a, b)
           | None => None
           end
  end.

Fixpoint split_on (c : N) (l : list N) : option (list N * list N) :=
  match l with
  | [] => None
  | x :: t => if x =? c then Some ([], t)
              else match split_on c t with Some (a, b) => Some (x :: a, b) | None => None end
  end.

Fixpoint strip_prefix (p l : list N) : option (list N) :=
  match p, l with
  | [], _ => Some l
  | x :: p', y :: l' => if x =? y then strip_prefix p' l' else None
  | _ :: _, [] => None
  end.

Definition http1 : list N := [72;84;84;80;47;49;46].       (* "HTTP/1." *)

(* status-line -> (code, reason) *)
Definition parse_status_line (l : list N) : option (N * list N) :=
  match strip_prefix http1 l with
  | Some (v :: sp :: rest) =>
      if is_digit v && (sp =? 32) then
        match split_on 32 rest with
        | Some (ct, reason) =>
            match parse_digits ct with
            | Some code => if (100 <=? code) && (code <=? 999) && list_eqb ct (dec code) then Some (code, reason) else None
            | None => None
            end
        | None => None
        end
      else None
  | _ => None
  end.

Definition is_ows (c : N) : bool := (c =? 32) || (c =? 9).
Fixpoint lstrip_ows (l : list N) : list N :=
  match l with c :: t => if is_ows c then lstrip_ows t else l | [] => [] end.
Definition rstrip_ows (l : list N) : list N := rev (lstrip_ows (rev l)).
Definition lower (c : N) : N := if (65 <=? c) && (c <=? 90) then c + 32 else c.

(* field-line -> (lower-cased name, value) *)
Definition parse_field (l : list N) : option (list N * list N) :=
  match split_on 58 l with
  | Some (name, v) =>
      match name with
      | [] => None
      | _ => if forallb (fun c => (33 <=? c) && (c <=? 126)) name
             then Some (map lower name, rstrip_ows (lstrip_ows v)) else None
      end
  | None => None
  end.

Fixpoint read_fields (fuel : nat) (l : list N) : option (list (list N * list N) * list N) :=
  match fuel with
  | O => None
  | S f =>
      match split_crlf l with
      | None => None
      | Some ([], rest) => Some ([], rest)
      | Some (line, rest) =>
          match parse_field line with
          | None => None
          | Some fld => match read_fields f rest with
                        | Some (fs, body) => Some (fld :: fs, body)
                        | None => None
                        end
          end
      end
  end.

Definition values_of (name : list N) (fs : list (list N * list N)) : list (list N) :=
  map snd (filter (fun f => list_eqb (fst f) name) fs).

Definition n_content_length : list N := [99;111;110;116;101;110;116;45;108;101;110;103;116;104].
Definition n_transfer_encoding : list N := [116;114;97;110;115;102;101;114;45;101;110;99;111;100;105;110;103].
Definition n_connection : list N := [99;111;110;110;101;99;116;105;111;110].
Definition v_close : list N := [99;108;111;115;101].

Record eresp := { e_status : N; e_reason : list N; e_fields : list (list N * list N); e_body : list N }.

Definition decode (l : list N) : option eresp :=
  match split_crlf l with
  | None => None
  | Some (sl, rest) =>
      match parse_status_line sl with
      | None => None
      | Some (st, reason) =>
          match read_fields (S (length rest)) rest with
          | None => None
          | Some (flds, body) =>
              match values_of n_transfer_encoding flds, values_of n_content_length flds with
              | [], [v] =>
                  match parse_digits v with
                  | Some n => if n =? N.of_nat (length body)
                              then Some {| e_status := st; e_reason := reason; e_fields := flds; e_body := body |}
                              else None
                  | None => None
                  end
              | _, _ => None
              end
          end
      end
  end.

(* `Connection: close` is announced (the only Connection field has the single option close) *)
Definition says_close (r : eresp) : bool :=
  match values_of n_connection (e_fields r) with
  | [v] => list_eqb (map lower v) v_close
  | _ => false
  end.
