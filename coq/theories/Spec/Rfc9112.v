(* The framing rules of RFC 9112 section 6 as a declarative function of the header list:
   which reader a message gets, or that it is ambiguous / malformed (None).
   Independent of the control flow of Message.set_body_reader; compared on every run with the strict
   reader harness/rfc9112.py. *)
From Coq Require Import List NArith ZArith Bool Arith.
From GV Require Import Base.Bytes Base.PyStr Model.Parser.
Import ListNotations.
Local Open Scope N_scope.

Definition values_of (name : bytes) (hs : list header) : list bytes :=
  map snd (filter (fun h => beq (fst h) name) hs).
Definition codings (hs : list header) : list bytes :=
  flat_map (fun v => map (strip is_ows) (split_char 44 v)) (values_of n_te hs).
Definition is_chunked (v : bytes) : bool := match classify v with CChunked => true | _ => false end.
Definition known (v : bytes) : bool := match classify v with CUnknown => false | _ => true end.
Definition count_chunked (cs : list bytes) : nat := length (filter is_chunked cs).
Definition version_lt_11 (v : N * N) : bool := (fst v =? 0) || ((fst v =? 1) && (snd v =? 0)).

Definition rfc_framing (hs : list header) (ver : N * N) : option framing :=
  let cs := codings hs in
  let cls := values_of n_cl hs in
  if negb (forallb known cs) then None                                   (* unknown / non-token coding *)
  else match count_chunked cs with
       | O => match cls with                                             (* no chunked: Content-Length or nothing *)
              | [] => Some (FLength 0)
              | [v] => if all_digits v && (blen v <=? max_str_digits) then Some (FLength (dec_value v)) else None
              | _ => None                                                (* repeated Content-Length *)
              end
       | 1%nat => if is_chunked (last cs []) && negb (version_lt_11 ver) && Nat.eqb (length cls) 0
                  then Some FChunked else None                           (* chunked last, HTTP/1.1+, no Content-Length *)
       | _ => None                                                       (* chunked repeated *)
       end.

Definition enc_framing (f : option framing) : list Z :=
  match f with None => [0%Z] | Some FChunked => [1%Z] | Some (FLength n) => [2%Z; Z.of_N n] end.

(* the classes of malformed framing named by the property, as predicates on the header list *)
Definition cl_with_chunked (hs : list header) : Prop := count_chunked (codings hs) = 1%nat /\ values_of n_cl hs <> [].
Definition repeated_cl (hs : list header) : Prop := (2 <= length (values_of n_cl hs))%nat.
Definition non_digit_cl (hs : list header) : Prop := exists v, values_of n_cl hs = [v] /\ all_digits v = false.
Definition chunked_not_last (hs : list header) : Prop := count_chunked (codings hs) = 1%nat /\ is_chunked (last (codings hs) []) = false.
Definition chunked_repeated (hs : list header) : Prop := (2 <= count_chunked (codings hs))%nat.
Definition unknown_coding (hs : list header) : Prop := exists v, In v (codings hs) /\ known v = false.
Definition chunked_on_http10 (hs : list header) (ver : N * N) : Prop := count_chunked (codings hs) = 1%nat /\ version_lt_11 ver = true.
