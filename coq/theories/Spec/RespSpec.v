(* An independent, strict HTTP/1.1 response reader (RFC 9112 sections 4, 5, 6, 7.1; RFC 9110 5.5, 5.6.2).
   It shares no definition with Model/Response.v and uses none of the regenerated tables: its
   character classes are written out here from the RFC grammar.

     status-line = "HTTP/" DIGIT "." DIGIT SP 3DIGIT SP [ reason-phrase ] CRLF
     field-line  = token ":" OWS field-value OWS CRLF          (no obs-fold, no bare CR / LF, no NUL / CTL)
     framing     : no body for HEAD / 1xx / 204 / 304;
                   else Transfer-Encoding: must be the single coding "chunked", no Content-Length beside it,
                        HTTP/1.1 or later: chunked body = *( 1*HEXDIG CRLF data CRLF ) "0" CRLF CRLF
                        (no chunk extensions, no trailer section: the server under test never sends any);
                   else a single Content-Length = 1*DIGIT: exactly that many bytes (fewer = incomplete = no parse);
                   else everything up to the end of the connection.
   Result: status code, reason, fields, decoded body, the bytes after the response, and whether the
   response was self-delimiting (its end does not depend on the connection being closed).

   harness/lib_resp.py contains a line-by-line Python twin (py_decode) used as the wire oracle; the twin
   is cross-checked against this definition by vm_compute on real wires in every run. *)
From Coq Require Import List NArith Bool.
Import ListNotations.
Local Open Scope N_scope.

Definition bytes := list N.

Record response := {
  p_major : N; p_minor : N;
  p_code : N;
  p_reason : bytes;
  p_fields : list (bytes * bytes);
  p_body : bytes;
  p_leftover : bytes;
  p_self_delimiting : bool
}.

Definition is_digit (c : N) : bool := (48 <=? c) && (c <=? 57).
Definition is_alpha (c : N) : bool := ((65 <=? c) && (c <=? 90)) || ((97 <=? c) && (c <=? 122)).
(* tchar = "!" / "#" / "$" / "%" / "&" / "'" / "*" / "+" / "-" / "." / "^" / "_" / "`" / "|" / "~" / DIGIT / ALPHA *)
Definition is_tchar (c : N) : bool :=
  is_digit c || is_alpha c ||
  existsb (N.eqb c) [33; 35; 36; 37; 38; 39; 42; 43; 45; 46; 94; 95; 96; 124; 126].
(* field-vchar / obs-text / SP / HTAB *)
Definition is_field_char (c : N) : bool :=
  (c =? 9) || ((32 <=? c) && (c <=? 126)) || ((128 <=? c) && (c <=? 255)).
Definition is_ows (c : N) : bool := (c =? 32) || (c =? 9).

Fixpoint beq (a b : bytes) : bool :=
  match a, b with
  | [], [] => true
  | x :: a', y :: b' => (x =? y) && beq a' b'
  | _, _ => false
  end.

(* one line, terminated by CRLF; a bare CR, a bare LF or a NUL before it makes the message unreadable *)
Fixpoint read_line (l : bytes) : option (bytes * bytes) :=
  match l with
  | [] => None
  | c :: t =>
    if c =? 13 then
      match t with
      | d :: r => if d =? 10 then Some ([], r) else None
      | [] => None
      end
    else if (c =? 10) || (c =? 0) then None
    else match read_line t with
         | Some (a, r) => Some (c :: a, r)
         | None => None
         end
  end.

Definition digit_val (c : N) : N := c - 48.

(* "HTTP/" DIGIT "." DIGIT SP 3DIGIT SP reason *)
Definition parse_status_line (l : bytes) : option (N * N * N * bytes) :=
  match l with
  | cH :: cT :: cT' :: cP :: cs :: ma :: dot :: mi :: sp1 :: d1 :: d2 :: d3 :: sp2 :: reason =>
    if (cH =? 72) && (cT =? 84) && (cT' =? 84) && (cP =? 80) && (cs =? 47) && (dot =? 46) && (sp1 =? 32) && (sp2 =? 32)
       && is_digit ma && is_digit mi && is_digit d1 && is_digit d2 && is_digit d3 && forallb is_field_char reason
    then Some (digit_val ma, digit_val mi, 100 * digit_val d1 + 10 * digit_val d2 + digit_val d3, reason)
    else None
  | _ => None
  end.

Fixpoint lstrip_ows (l : bytes) : bytes :=
  match l with c :: t => if is_ows c then lstrip_ows t else l | [] => [] end.
Definition strip_ows (l : bytes) : bytes := rev (lstrip_ows (rev (lstrip_ows l))).

(* split at the first ":" *)
Fixpoint split_colon (l : bytes) : option (bytes * bytes) :=
  match l with
  | [] => None
  | c :: t => if c =? 58 then Some ([], t)
              else match split_colon t with Some (a, r) => Some (c :: a, r) | None => None end
  end.

Definition parse_field (l : bytes) : option (bytes * bytes) :=
  match split_colon l with
  | Some (name, v) =>
    match name with
    | [] => None
    | _ => if forallb is_tchar name && forallb is_field_char v then Some (name, strip_ows v) else None
    end
  | None => None
  end.

(* field lines up to the empty line *)
Fixpoint read_fields (fuel : nat) (l : bytes) : option (list (bytes * bytes) * bytes) :=
  match fuel with
  | O => None
  | S f =>
    match read_line l with
    | None => None
    | Some ([], rest) => Some ([], rest)
    | Some (line, rest) =>
      match parse_field line with
      | None => None
      | Some fld => match read_fields f rest with
                    | Some (flds, rest') => Some (fld :: flds, rest')
                    | None => None
                    end
      end
    end
  end.

(* the head as raw lines (no interpretation): lines up to the first empty line; a line with a bare CR, a bare
   LF or a NUL is unreadable *)
Fixpoint head_lines (fuel : nat) (l : bytes) : option (list bytes * bytes) :=
  match fuel with
  | O => None
  | S f =>
    match read_line l with
    | None => None
    | Some ([], rest) => Some ([], rest)
    | Some (line, rest) =>
      match head_lines f rest with
      | Some (lines, rest') => Some (line :: lines, rest')
      | None => None
      end
    end
  end.

Definition lower_c (c : N) : N := if (65 <=? c) && (c <=? 90) then c + 32 else c.
Definition field_values (lname : bytes) (flds : list (bytes * bytes)) : list bytes :=
  map snd (filter (fun f => beq (map lower_c (fst f)) lname) flds).

Definition n_content_length : bytes := [99; 111; 110; 116; 101; 110; 116; 45; 108; 101; 110; 103; 116; 104].
Definition n_transfer_encoding : bytes := [116; 114; 97; 110; 115; 102; 101; 114; 45; 101; 110; 99; 111; 100; 105; 110; 103].
Definition n_connection : bytes := [99; 111; 110; 110; 101; 99; 116; 105; 111; 110].
Definition v_chunked : bytes := [99; 104; 117; 110; 107; 101; 100].
Definition v_keep_alive : bytes := [107; 101; 101; 112; 45; 97; 108; 105; 118; 101].
Definition v_close : bytes := [99; 108; 111; 115; 101].
Definition m_HEAD : bytes := [72; 69; 65; 68].

Fixpoint dec_value (a : N) (l : bytes) : option N :=
  match l with
  | [] => Some a
  | c :: t => if is_digit c then dec_value (a * 10 + digit_val c) t else None
  end.
Definition parse_dec (l : bytes) : option N := match l with [] => None | _ => dec_value 0 l end.

Definition hexval (c : N) : option N :=
  if (48 <=? c) && (c <=? 57) then Some (c - 48)
  else if (65 <=? c) && (c <=? 70) then Some (c - 55)
  else if (97 <=? c) && (c <=? 102) then Some (c - 87) else None.
Fixpoint hex_value (a : N) (l : bytes) : option N :=
  match l with
  | [] => Some a
  | c :: t => match hexval c with Some v => hex_value (a * 16 + v) t | None => None end
  end.
Definition parse_hex (l : bytes) : option N := match l with [] => None | _ => hex_value 0 l end.

(* exactly n bytes, or nothing *)
Definition take_exact (n : N) (l : bytes) : option (bytes * bytes) :=
  let k := N.to_nat n in
  if Nat.leb k (length l) then Some (firstn k l, skipn k l) else None.

(* chunked-body = *chunk last-chunk CRLF  (no extensions, no trailers) *)
Fixpoint read_chunks (fuel : nat) (l : bytes) : option (bytes * bytes) :=
  match fuel with
  | O => None
  | S f =>
    match read_line l with
    | None => None
    | Some (szline, rest) =>
      match parse_hex szline with
      | None => None
      | Some n =>
        if n =? 0 then
          match read_line rest with
          | Some ([], rest') => Some ([], rest')
          | _ => None
          end
        else
        match take_exact n rest with
        | None => None
        | Some (data, rest1) =>
          match rest1 with
          | c1 :: c2 :: rest2 =>
            if (c1 =? 13) && (c2 =? 10) then
              match read_chunks f rest2 with
              | Some (body, lft) => Some (data ++ body, lft)
              | None => None
              end
            else None
          | _ => None
          end
        end
      end
    end
  end.

Definition no_body (meth : bytes) (code : N) : bool :=
  beq meth m_HEAD || (code <? 200) || (code =? 204) || (code =? 304).

Definition decode (meth : bytes) (wire : bytes) : option response :=
  match read_line wire with
  | None => None
  | Some (sl, rest) =>
    match parse_status_line sl with
    | None => None
    | Some (ma, mi, code, reason) =>
      match read_fields (S (length rest)) rest with
      | None => None
      | Some (flds, rest) =>
        let mk body lft sd := Some {| p_major := ma; p_minor := mi; p_code := code; p_reason := reason;
                                       p_fields := flds; p_body := body; p_leftover := lft; p_self_delimiting := sd |} in
        if no_body meth code then mk [] rest true
        else
          match field_values n_transfer_encoding flds, field_values n_content_length flds with
          | [], [] => mk rest [] false
          | [], [v] =>
            match parse_dec v with
            | None => None
            | Some n => match take_exact n rest with
                        | Some (body, lft) => mk body lft true
                        | None => None
                        end
            end
          | [te], [] =>
            if beq (map lower_c te) v_chunked && negb ((ma =? 0) || ((ma =? 1) && (mi =? 0)))
            then match read_chunks (S (length rest)) rest with
                 | Some (body, lft) => mk body lft true
                 | None => None
                 end
            else None
          | _, _ => None
          end
      end
    end
  end.

(* a whole connection: one response per request method, each starting where the previous one ended;
   nothing may follow a response that is not self-delimiting, and nothing may be left at the end *)
Fixpoint decode_stream (meths : list bytes) (wire : bytes) : option (list response) :=
  match meths with
  | [] => match wire with [] => Some [] | _ => None end
  | m :: ms =>
    match decode m wire with
    | None => None
    | Some r =>
      match decode_stream ms (p_leftover r) with
      | Some rs => Some (r :: rs)
      | None => None
      end
    end
  end.

(* the client asked for the connection to be closed after this request (RFC 9112 9.3, 9.6):
   a "close" connection option, or HTTP/1.0 (or older) without "keep-alive" *)
Fixpoint split_commas_aux (cur : bytes) (l : bytes) : list bytes :=
  match l with
  | [] => [rev cur]
  | c :: t => if c =? 44 then rev cur :: split_commas_aux [] t else split_commas_aux (c :: cur) t
  end.
Definition split_commas (l : bytes) : list bytes := split_commas_aux [] l.
Definition options_of (vals : list bytes) : list bytes :=
  flat_map (fun v => map strip_ows (split_commas (map lower_c v))) vals.
Definition has_option (o : bytes) (vals : list bytes) : bool := existsb (beq o) (options_of vals).
Definition client_wants_close (major minor : N) (conn_values : list bytes) : bool :=
  has_option v_close conn_values
  || (((major =? 0) || ((major =? 1) && (minor =? 0))) && negb (has_option v_keep_alive conn_values)).

(* the response announces a persistent connection *)
Definition announces_keepalive (r : response) : bool :=
  existsb (fun v => beq (map lower_c v) v_keep_alive) (field_values n_connection (p_fields r))
  && negb (existsb (fun v => beq (map lower_c v) v_close) (field_values n_connection (p_fields r))).
