(* A strict reader for a complete chunked body as gunicorn writes it (no extensions, no trailers):
     *( 1*HEXDIG CRLF chunk-data CRLF )  "0" CRLF CRLF      and nothing after it.
   Independent specification of "the body bytes on the wire" for chunked responses (C19).  Definitions only. *)
From Coq Require Import List NArith Bool.
From GV Require Import Spec.ErrResp.
Import ListNotations.
Local Open Scope N_scope.

Definition hexval (c : N) : option N :=
  if (48 <=? c) && (c <=? 57) then Some (c - 48)
  else if (65 <=? c) && (c <=? 70) then Some (c - 55)
  else if (97 <=? c) && (c <=? 102) then Some (c - 87) else None.

Fixpoint hex_decode_from (a : N) (l : list N) : option N :=
  match l with
  | [] => Some a
  | c :: t => match hexval c with Some v => hex_decode_from (a * 16 + v) t | None => None end
  end.
Definition hex_decode (l : list N) : option N := match l with [] => None | _ => hex_decode_from 0 l end.

(* chunk-size line: 1*HEXDIG CRLF *)
Definition read_size (l : list N) : option (N * list N) :=
  match split_on 13 l with
  | Some (hex, 10 :: rest) => match hex_decode hex with Some n => Some (n, rest) | None => None end
  | _ => None
  end.

Fixpoint dechunk_go (fuel : nat) (l : list N) : option (list N) :=
  match fuel with
  | O => None
  | S f =>
      match read_size l with
      | None => None
      | Some (n, rest) =>
          if n =? 0 then match rest with [13; 10] => Some [] | _ => None end
          else
            let k := N.to_nat n in
            let data := firstn k rest in
            if Nat.ltb (length data) k then None
            else match skipn k rest with
                 | 13 :: 10 :: rest' => match dechunk_go f rest' with Some b => Some (data ++ b) | None => None end
                 | _ => None
                 end
      end
  end.
Definition dechunk (l : list N) : option (list N) := dechunk_go (S (length l)) l.
