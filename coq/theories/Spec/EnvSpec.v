(* Reference mapping from the raw bytes of a request head to the CGI / WSGI variables
   (RFC 3875 section 4.1, PEP 3333 "environ Variables"), over RFC 9112 message syntax and RFC 3986
   generic URI syntax.  Written from the RFCs, not from gunicorn: single left-to-right scans, no
   find/split/min arithmetic.  Definitions only.

   head     = request-line CRLF *( field-line CRLF ) CRLF                       (RFC 9112 2.1)
   line     = method SP request-target SP HTTP-version                          (RFC 9112 3)
   target   = [ scheme ":" ] [ "//" authority ] path [ "?" query ] [ "#" fragment ]   (RFC 3986 3 / app. B)
              except that a target beginning with "//" is an origin-form absolute-path with an empty
              first segment (RFC 9112 3.2.1), not a network-path reference
   field    = field-name ":" OWS field-value OWS                                 (RFC 9112 5)
   REQUEST_METHOD = method; SERVER_PROTOCOL = HTTP-version; QUERY_STRING = query, not decoded;
   SCRIPT_NAME ++ PATH_INFO = the path with every "%" HEXDIG HEXDIG replaced by that octet, one latin-1
   character per octet (PEP 3333 "Unicode issues");
   HTTP_<NAME> = the values of the fields of that name, in order, joined by "," (RFC 3875 4.1.18),
   NAME = field-name upper-cased with "-" replaced by "_"; Content-Type / Content-Length go to
   CONTENT_TYPE / CONTENT_LENGTH instead. *)
From Coq Require Import List NArith ZArith Bool.
From GV Require Import Base.Enc Model.EnvStr.
Import ListNotations.
Local Open Scope N_scope.

(* longest prefix free of [stop] characters, and the rest *)
Fixpoint span (stop : N -> bool) (l : bytes) : bytes * bytes :=
  match l with
  | [] => ([], [])
  | x :: t => if stop x then ([], l) else let (a, b) := span stop t in (x :: a, b)
  end.

Definition sp_request_line (line : bytes) : option (bytes * bytes * bytes) :=
  let (m, r) := span (N.eqb 32) line in
  match r with
  | _ :: r1 => let (t, r2) := span (N.eqb 32) r1 in
               match r2 with _ :: v => Some (m, t, v) | [] => None end
  | [] => None
  end.

Definition sp_alpha (c : N) : bool := ((65 <=? c) && (c <=? 90)) || ((97 <=? c) && (c <=? 122)).
Definition sp_digit (c : N) : bool := (48 <=? c) && (c <=? 57).
Definition sp_scheme_char (c : N) : bool := sp_alpha c || sp_digit c || (c =? 43) || (c =? 45) || (c =? 46).
Definition sp_delim (c : N) : bool := (c =? 47) || (c =? 63) || (c =? 35).        (* "/" "?" "#" *)

Record target := { t_scheme : option bytes; t_authority : option bytes;
                   t_path : bytes; t_query : bytes; t_fragment : bytes }.

(* path [ "?" query ] [ "#" fragment ] *)
Definition sp_pqf (r : bytes) : bytes * bytes * bytes :=
  let (path, r1) := span (fun c => (c =? 63) || (c =? 35)) r in
  let (query, r2) := match r1 with
                     | c :: q => if c =? 63 then span (N.eqb 35) q else ([], r1)
                     | [] => ([], [])
                     end in
  let frag := match r2 with _ :: f => f | [] => [] end in
  (path, query, frag).

(* scheme = ALPHA *( ALPHA / DIGIT / "+" / "-" / "." ), followed by ":" *)
Definition sp_scheme (t : bytes) : option (bytes * bytes) :=
  let (s, r) := span (fun c => negb (sp_scheme_char c)) t in
  match s, r with
  | c0 :: _, c :: r' => if sp_alpha c0 && (c =? 58) then Some (s, r') else None
  | _, _ => None
  end.

Definition sp_target (t : bytes) : target :=
  let plain (sch : option bytes) (r : bytes) :=
    let '(p, q, f) := sp_pqf r in
    {| t_scheme := sch; t_authority := None; t_path := p; t_query := q; t_fragment := f |} in
  if starts_with [47; 47] t then plain None t
  else match sp_scheme t with
       | Some (s, r) =>
           if starts_with [47; 47] r then
             let (a, r2) := span sp_delim (skipn 2 r) in
             let '(p, q, f) := sp_pqf r2 in
             {| t_scheme := Some s; t_authority := Some a; t_path := p; t_query := q; t_fragment := f |}
           else plain (Some s) r
       | None => plain None t
       end.

Definition sp_hex (c : N) : option N :=
  if sp_digit c then Some (c - 48)
  else if (65 <=? c) && (c <=? 70) then Some (c - 55)
  else if (97 <=? c) && (c <=? 102) then Some (c - 87)
  else None.

(* "%" HEXDIG HEXDIG -> the octet; everything else (a stray "%" included) stands for itself *)
Fixpoint pct_decode (l : bytes) : bytes :=
  match l with
  | [] => []
  | c :: tl =>
      if c =? 37 then
        match tl with
        | a :: b :: t => match sp_hex a, sp_hex b with
                         | Some x, Some y => (x * 16 + y) :: pct_decode t
                         | _, _ => 37 :: pct_decode tl
                         end
        | _ => 37 :: pct_decode tl
        end
      else c :: pct_decode tl
  end.

Definition sp_field (line : bytes) : option (bytes * bytes) :=
  let (n, r) := span (N.eqb 58) line in
  match r with
  | _ :: v => Some (n, strip is_sp_tab v)
  | [] => None
  end.
Fixpoint sp_fields (lines : list bytes) : option (list (bytes * bytes)) :=
  match lines with
  | [] => Some []
  | l :: t => match sp_field l, sp_fields t with
              | Some f, Some fs => Some (f :: fs)
              | _, _ => None
              end
  end.

Definition sp_upper_c (c : N) : N := if (97 <=? c) && (c <=? 122) then c - 32 else c.
Definition sp_upper (s : bytes) : bytes := map sp_upper_c s.
(* RFC 3875 4.1.18 *)
Definition sp_http_key (name : bytes) : bytes :=
  s_HTTP_ ++ map (fun c => if c =? 45 then 95 else c) (sp_upper name).
Definition sp_env_key (name : bytes) : bytes :=
  if beq (sp_upper name) s_CONTENT_TYPE_h then s_CONTENT_TYPE
  else if beq (sp_upper name) s_CONTENT_LENGTH_h then s_CONTENT_LENGTH
  else sp_http_key name.

Record sreq := { s_method : bytes; s_target : bytes; s_protocol : bytes; s_fields : list (bytes * bytes) }.

(* the head of the first message in [data] *)
Definition sp_request (data : bytes) : option sreq :=
  match cut_crlf data with
  | None => None
  | Some (line, r) =>
      match sp_request_line line with
      | None => None
      | Some (m, t, v) =>
          let flines := if starts_with [13; 10] r then Some []
                        else match cut_crlf2 r with Some (block, _) => Some (split_crlf block) | None => None end in
          match flines with
          | None => None
          | Some ls => match sp_fields ls with
                       | Some fs => Some {| s_method := m; s_target := t; s_protocol := v; s_fields := fs |}
                       | None => None
                       end
          end
      end
  end.

(* the values a variable is made of: the fields that map to it and that the gateway presents
   ([present] is the gateway's policy on upper-cased field names - which names a gateway forwards is the
   subject of C08, not of this mapping) *)
Definition sp_values (present : bytes -> bool) (fs : list (bytes * bytes)) (k : bytes) : list bytes :=
  map snd (filter (fun f => present (sp_upper (fst f)) && beq (sp_env_key (fst f)) k) fs).
Definition sp_var (present : bytes -> bool) (fs : list (bytes * bytes)) (k : bytes) : option bytes :=
  match sp_values present fs k with
  | [] => None
  | vs => Some (join [44] vs)
  end.

(* observation used to tie the Python twin (the ref_ functions of harness/lib_env.py) to these definitions *)
Definition spec_target_obs (t : bytes) : list Z :=
  let r := sp_target t in
  enc_opt enc_bytes (t_authority r) ++ enc_bytes (t_path r) ++ enc_bytes (t_query r) ++ enc_bytes (t_fragment r)
  ++ enc_bytes (pct_decode (t_path r)).
Definition spec_fields_obs (data : bytes) : list Z :=
  match sp_request data with
  | None => [0%Z]
  | Some q =>
      1%Z :: enc_bytes (s_method q) ++ enc_bytes (s_target q) ++ enc_bytes (s_protocol q) ++
      enc_list (fun f => enc_bytes (sp_env_key (fst f)) ++ enc_bytes (snd f)) (s_fields q)
  end.
