(* The chunked reader, part 3: ChunkedReader.read behaves like the ideal reader over the bytes that
   [decodes] assigns to the stream - for every segmentation.  Discharges the hypotheses of
   Proof/ParserRun.v. *)
From Coq Require Import List NArith ZArith Bool Lia Arith.
From GV Require Import Base.Bytes Base.Scan Base.PyStr Gen.GenParser Model.Parser Spec.IdealBody
     Proof.TakeDrop Proof.BodyIdeal Proof.ParserHead Proof.ChunkedSteps Proof.ChunkedDecode Proof.ParserRun Proof.HeadGrammar.
Import ListNotations.
Local Open Scope N_scope.

Inductive gterm := GTStop (p : unreader) (tr : option (list header)) | GTRaise (e : perr).

(* the generator run to its end: all pieces concatenated, and how it ends *)
Fixpoint gen_run (c : cfg) (fuel : nat) (g : gstate) (p : unreader) : option (bytes * gterm) :=
  match fuel with
  | O => None
  | S f => match gen_next c g p with
           | GYield piece g' p' => option_map (fun r => (piece ++ fst r, snd r)) (gen_run c f g' p')
           | GStop p' tr => Some ([], GTStop p' tr)
           | GRaise e _ => Some ([], GTRaise e)
           end
  end.

Lemma gen_run_mono c : forall f g p r, gen_run c f g p = Some r -> forall f', (f <= f')%nat -> gen_run c f' g p = Some r.
Proof.
  induction f as [|f IH]; intros g p r H f' Hf; [discriminate|]. destruct f' as [|f']; [lia|]. cbn [gen_run] in *.
  destruct (gen_next c g p) as [piece g' p'|p' tr|e p']; try exact H.
  destruct (gen_run c f g' p') as [r'|] eqn:E; [|discriminate]. rewrite (IH _ _ _ E f') by lia. exact H.
Qed.
Lemma gen_run_det c f1 f2 g p r1 r2 : gen_run c f1 g p = Some r1 -> gen_run c f2 g p = Some r2 -> r1 = r2.
Proof.
  intros H1 H2. pose proof (gen_run_mono c _ _ _ _ H1 (Nat.max f1 f2) ltac:(lia)) as A.
  pose proof (gen_run_mono c _ _ _ _ H2 (Nat.max f1 f2) ltac:(lia)) as B. congruence.
Qed.
Lemma gen_run_enough c : forall f g p, NE p -> ginv g -> (gmeasure g p < 2 * f)%nat -> gen_run c f g p <> None.
Proof.
  induction f as [|f IH]; intros g p Hne Hg Hm; [lia|]. cbn [gen_run].
  pose proof (gen_next_sound c g p Hne Hg) as Hs.
  destruct (gen_next c g p) as [piece g' p'|p' tr|e p']; try discriminate.
  destruct Hs as (N1 & G1 & _ & M1). specialize (IH g' p' N1 G1 ltac:(lia)).
  destruct (gen_run c f g' p'); [discriminate|congruence].
Qed.

Definition dconv (t : gterm) : dterm :=
  match t with GTStop p tr => DStop (u_abs p) tr | GTRaise e => DRaise e end.
Lemma gen_run_sound c : forall f g p D T, NE p -> ginv g -> gen_run c f g p = Some (D, T) ->
    decodes c (abs_g g p) D (dconv T) /\ match T with GTStop q _ => NE q | _ => True end.
Proof.
  induction f as [|f IH]; intros g p D T Hne Hg H; [discriminate|]. cbn [gen_run] in H.
  pose proof (gen_next_sound c g p Hne Hg) as Hs.
  destruct (gen_next c g p) as [piece g' p'|p' tr|e p'].
  - destruct Hs as (N1 & G1 & Hd & _). destruct (gen_run c f g' p') as [[D' T']|] eqn:E; [|discriminate].
    injection H as <- <-. destruct (IH _ _ _ _ N1 G1 E) as [H1 H2]. cbn [fst snd]. split; [apply Hd; exact H1|exact H2].
  - injection H as <- <-. destruct Hs as [N1 Hd]. split; [exact Hd|exact N1].
  - injection H as <- <-. split; [exact Hs|exact I].
Qed.

(* decoded bytes never outnumber the raw bytes they come from *)
Definition graw (g : gstate) (p : unreader) : nat :=
  (length (u_abs p) + match g with GAfterLast n rest => length (dropN n rest) | _ => 0 end)%nat.
Lemma gen_enter_raw n rest p :
  match gen_enter n rest p with
  | GYield piece g' p' => (length piece + graw g' p' <= length rest + length (u_abs p))%nat
  | _ => True
  end.
Proof.
  unfold gen_enter. destruct (blen rest <? n).
  - unfold graw. lia.
  - unfold graw. pose proof (takeN_dropN n rest) as H. apply (f_equal (@length N)) in H. rewrite app_length in H. lia.
Qed.
Lemma gen_next_raw c g p : NE p ->
  match gen_next c g p with
  | GYield piece g' p' => (length piece + graw g' p' <= graw g p)%nat
  | _ => True
  end.
Proof.
  intros Hne. destruct g as [|l|size rest|]; cbn [gen_next]; try exact I.
  - pose proof (size_outcome_sound c [] p Hne) as Hs. destruct (parse_chunk_size c [] p) as [n r p'|p' tr|e q]; try exact I.
    destruct Hs as (_ & _ & _ & _ & L2 & _). pose proof (gen_enter_raw n r p') as He.
    destruct (gen_enter n r p'); try exact I. unfold graw at 2. cbn [length] in L2. lia.
  - destruct p as [|ch t]; cbn [u_read]; [exact I|]. destruct ch as [|b ch]; [exact I|].
    pose proof (gen_enter_raw l (b :: ch) t) as He. destruct (gen_enter l (b :: ch) t); try exact I.
    unfold graw at 2. unfold u_abs in *. cbn [concat]. rewrite app_length. lia.
  - destruct (fill2 (dropN size rest) p) as [rest' p'] eqn:Ef.
    destruct (fill2_spec _ _ _ _ Hne Ef) as (Hab & N1 & H2 & L0).
    destruct (negb (beq (firstn 2 rest') CRLF)); [exact I|].
    pose proof (size_outcome_sound c (skipn 2 rest') p' N1) as Hs.
    destruct (parse_chunk_size c (skipn 2 rest') p') as [n r q|q tr|e q]; try exact I.
    destruct Hs as (_ & _ & _ & _ & L2 & _). pose proof (gen_enter_raw n r q) as He.
    destruct (gen_enter n r q); try exact I. unfold graw at 2.
    apply (f_equal (@length N)) in Hab. rewrite !app_length in Hab. rewrite skipn_length in L2. unfold u_abs in *. lia.
Qed.
Lemma gen_run_raw c : forall f g p D T, NE p -> ginv g -> gen_run c f g p = Some (D, T) -> (length D <= graw g p)%nat.
Proof.
  induction f as [|f IH]; intros g p D T Hne Hg H; [discriminate|]. cbn [gen_run] in H.
  pose proof (gen_next_sound c g p Hne Hg) as Hs. pose proof (gen_next_raw c g p Hne) as Hr.
  destruct (gen_next c g p) as [piece g' p'|p' tr|e p'].
  - destruct Hs as (N1 & G1 & _ & _). destruct (gen_run c f g' p') as [[D' T']|] eqn:E; [|discriminate].
    injection H as <- <-. specialize (IH _ _ _ _ N1 G1 E). cbn [fst]. rewrite app_length. lia.
  - injection H as <- <-. cbn. lia.
  - injection H as <- <-. cbn. lia.
Qed.

(* ---- cr_pull -------------------------------------------------------------------------------- *)
Lemma cr_pull_spec c : forall fuel size g buf p tr0 D T F,
    NE p -> ginv g -> (gmeasure g p < 2 * fuel)%nat -> gen_run c F g p = Some (D, T) ->
    match cr_pull c fuel size g buf p tr0 with
    | (r', p', tr', None) =>
        (cactive r' = true /\ size <= blen (cbuf r') /\ NE p' /\ ginv (cg r') /\ tr' = tr0 /\
         exists D1 D2, D = D1 ++ D2 /\ cbuf r' = buf ++ D1 /\ gen_run c F (cg r') p' = Some (D2, T))
        \/
        (cactive r' = false /\ cg r' = GDead /\ cbuf r' = buf ++ D /\ blen (buf ++ D) < size /\
         exists q trq, T = GTStop q trq /\ p' = q /\ NE q /\ tr' = match trq with Some t => Some t | None => tr0 end)
    | (r', p', tr', Some e) => T = GTRaise e /\ blen (buf ++ D) < size
    end.
Proof.
  induction fuel as [|fuel IH]; intros size g buf p tr0 D T F Hne Hg Hm HF; [lia|]. cbn [cr_pull].
  destruct (size <=? blen buf) eqn:Es.
  - apply N.leb_le in Es. left. cbn [cactive cbuf cg]. repeat split; auto.
    exists [], D. rewrite app_nil_r. auto.
  - apply N.leb_gt in Es. destruct F as [|F]; [discriminate|]. cbn [gen_run] in HF.
    pose proof (gen_next_sound c g p Hne Hg) as Hs.
    destruct (gen_next c g p) as [piece g' p'|p' tr|e p'].
    + destruct Hs as (N1 & G1 & _ & M1).
      destruct (gen_run c F g' p') as [[D' T']|] eqn:E; [|discriminate]. injection HF as <- <-. cbn [fst snd].
      specialize (IH size g' (buf ++ piece) p' tr0 D' T' F N1 G1 ltac:(lia) E).
      destruct (cr_pull c fuel size g' (buf ++ piece) p' tr0) as [[[r' q] tr'] [e|]].
      * destruct IH as [-> Hl]. split; [reflexivity|]. rewrite app_assoc. exact Hl.
      * destruct IH as [(A1 & A2 & A3 & A4 & A5 & D1 & D2 & B1 & B2 & B3)|(A1 & A2 & A3 & A4 & q' & trq & B1 & B2 & B3 & B4)].
        -- left. split; [exact A1|]. split; [exact A2|]. split; [exact A3|]. split; [exact A4|]. split; [exact A5|].
           exists (piece ++ D1), D2. split; [rewrite B1, app_assoc; reflexivity|]. split; [rewrite B2, app_assoc; reflexivity|].
           apply (gen_run_mono c _ _ _ _ B3). lia.
        -- right. split; [exact A1|]. split; [exact A2|]. split; [rewrite A3, app_assoc; reflexivity|].
           split; [rewrite app_assoc; exact A4|]. exists q', trq. auto.
    + injection HF as <- <-. destruct Hs as [N1 _]. right. cbn [cactive cg cbuf]. rewrite app_nil_r.
      repeat split; auto. exists p', tr. repeat split; auto.
    + injection HF as <- <-. rewrite app_nil_r. auto.
Qed.

(* ---- the instance ------------------------------------------------------------------------------ *)
Definition tconv (t : gterm) (tr : list header) : term :=
  match t with
  | GTStop p tr' => TEof (u_abs p) (match tr' with Some x => x | None => tr end)
  | GTRaise e => TErr e
  end.

Section Inst.
  Variable c : cfg.

  Definition cr_alpha (k : conn) : bytes * term :=
    match c_reader k with
    | RChunked r =>
        if cactive r then
          match gen_run c (gen_fuel (cg r) (c_unreader k)) (cg r) (c_unreader k) with
          | Some (D, T) => (cbuf r ++ D, tconv T (c_trailers k))
          | None => ([], TErr EOutOfFuel)
          end
        else (cbuf r, TEof (u_abs (c_unreader k)) (c_trailers k))
    | RLength _ => ([], TErr EOutOfFuel)
    end.
  Definition cr_inv (k : conn) : Prop :=
    exists r, c_reader k = RChunked r /\ NE (c_unreader k) /\ ginv (cg r).

  Lemma gen_fuel_measure g p : (gmeasure g p < 2 * gen_fuel g p)%nat.
  Proof. unfold gmeasure, gen_fuel, u_abs. lia. Qed.

  Lemma gen_run_total g p : NE p -> ginv g -> exists D T, gen_run c (gen_fuel g p) g p = Some (D, T).
  Proof.
    intros Hne Hg. pose proof (gen_run_enough c (gen_fuel g p) g p Hne Hg (gen_fuel_measure g p)) as H.
    destruct (gen_run c (gen_fuel g p) g p) as [[D T]|]; [eauto|congruence].
  Qed.

  (* all the ways ChunkedReader.read(n), n > 0, can go *)
  Lemma cr_read_cases n k r : c_reader k = RChunked r -> NE (c_unreader k) -> ginv (cg r) -> 0 < n ->
    let '(res, r', p', tr') := cr_read c n r (c_unreader k) in
    let k' := {| c_reader := RChunked r'; c_unreader := p';
                 c_trailers := match tr' with Some t => t | None => c_trailers k end |} in
    match res with
    | inl d => cr_inv k' /\ i_rd n (cr_alpha k) = (inl d, cr_alpha k') /\ (d = [] -> final_of cr_alpha k')
    | inr e => fst (i_rd n (cr_alpha k)) = inr e
    end.
  Proof.
    intros Hr Hne Hg Hn. unfold cr_read. replace (n =? 0) with false by (symmetry; apply N.eqb_neq; lia).
    destruct (cactive r) eqn:Eact.
    - destruct (gen_run_total (cg r) (c_unreader k) Hne Hg) as (D & T & HF).
      assert (Ha0 : cr_alpha k = (cbuf r ++ D, tconv T (c_trailers k))) by (unfold cr_alpha; rewrite Hr, Eact, HF; reflexivity).
      pose proof (cr_pull_spec c (gen_fuel (cg r) (c_unreader k)) n (cg r) (cbuf r) (c_unreader k) None D T _ Hne Hg
                               (gen_fuel_measure _ _) HF) as Hp.
      destruct (cr_pull c _ n (cg r) (cbuf r) (c_unreader k) None) as [[[r1 p1] tr1] [e|]].
      + destruct Hp as [-> Hl]. rewrite Ha0. unfold i_rd. cbn [fst snd tconv].
        replace (n <=? blen (cbuf r ++ D)) with false by (symmetry; apply N.leb_gt; exact Hl). reflexivity.
      + destruct Hp as [(A1 & A2 & A3 & A4 & -> & D1 & D2 & B1 & B2 & B3)|(A1 & A2 & A3 & A4 & q & trq & -> & -> & B3 & ->)].
        * (* enough data buffered, generator still live *)
          set (k' := {| c_reader := RChunked {| cg := cg r1; cactive := cactive r1; cbuf := dropN n (cbuf r1) |};
                        c_unreader := p1; c_trailers := c_trailers k |}).
          assert (Hinv : cr_inv k') by (eexists; cbn [k' c_reader c_unreader cg]; auto).
          split; [exact Hinv|]. split.
          -- assert (Ha : cr_alpha k' = (dropN n (cbuf r1) ++ D2, tconv T (c_trailers k))).
             { unfold cr_alpha. cbn [k' c_reader c_unreader c_trailers cactive cg cbuf]. rewrite A1.
               destruct (gen_run_total (cg r1) p1 A3 A4) as (D2' & T' & HF').
               rewrite HF'. pose proof (gen_run_det c _ _ _ _ _ _ HF' B3) as Heq. injection Heq as -> ->. reflexivity. }
             rewrite Ha, Ha0. subst D. rewrite B2 in *. rewrite app_assoc.
             assert (Hok : i_rd n ((cbuf r ++ D1) ++ D2, tconv T (c_trailers k)) =
                           (inl (takeN n ((cbuf r ++ D1) ++ D2)), (dropN n ((cbuf r ++ D1) ++ D2), tconv T (c_trailers k)))).
             { unfold i_rd. cbn [fst snd]. destruct (tconv T (c_trailers k)); [reflexivity|].
               replace (n <=? blen ((cbuf r ++ D1) ++ D2)) with true by (symmetry; apply N.leb_le; rewrite blen_app; lia). reflexivity. }
             rewrite Hok. rewrite takeN_app_l, dropN_app_l by exact A2. reflexivity.
          -- intros Hnil. exfalso. apply (f_equal blen) in Hnil. rewrite blen_takeN in Hnil. change (blen []) with 0 in Hnil. lia.
        * (* the generator returned: end of the body *)
          set (k' := {| c_reader := RChunked {| cg := cg r1; cactive := cactive r1; cbuf := dropN n (cbuf r1) |};
                        c_unreader := q; c_trailers := match match trq with Some t => Some t | None => None end with
                                                         | Some t => t | None => c_trailers k end |}).
          assert (Hinv : cr_inv k').
          { eexists. cbn [k' c_reader c_unreader cg]. rewrite A2. repeat split; auto. }
          assert (Htr : c_trailers k' = match trq with Some x => x | None => c_trailers k end) by (cbn [k' c_trailers]; destruct trq; reflexivity).
          assert (Ha : cr_alpha k' = (dropN n (cbuf r ++ D), TEof (u_abs q) (c_trailers k'))).
          { unfold cr_alpha. cbn [k' c_reader c_unreader cactive cbuf]. rewrite A1, A3. reflexivity. }
          split; [exact Hinv|]. split.
          -- rewrite Ha, Ha0, Htr. cbn [tconv]. rewrite i_rd_eof. rewrite A3. reflexivity.
          -- intros Hnil. split; [exact B3|]. exists (u_abs q), (c_trailers k'). rewrite Ha. split; [|split; reflexivity].
             rewrite A3 in Hnil. apply takeN_nil_iff in Hnil; [|exact Hn]. rewrite Hnil, dropN_nil. reflexivity.
    - (* the generator has already returned *)
      assert (Ha0 : cr_alpha k = (cbuf r, TEof (u_abs (c_unreader k)) (c_trailers k))) by (unfold cr_alpha; rewrite Hr, Eact; reflexivity).
      set (k' := {| c_reader := RChunked {| cg := cg r; cactive := cactive r; cbuf := dropN n (cbuf r) |};
                    c_unreader := c_unreader k; c_trailers := c_trailers k |}).
      assert (Hinv : cr_inv k') by (eexists; cbn [k' c_reader c_unreader cg]; auto).
      assert (Ha : cr_alpha k' = (dropN n (cbuf r), TEof (u_abs (c_unreader k)) (c_trailers k))).
      { unfold cr_alpha. cbn [k' c_reader c_unreader c_trailers cactive cbuf]. rewrite Eact. reflexivity. }
      split; [exact Hinv|]. split.
      + rewrite Ha, Ha0, i_rd_eof. reflexivity.
      + intros Hnil. split; [exact Hne|]. exists (u_abs (c_unreader k)), (c_trailers k). rewrite Ha. split; [|split; reflexivity].
        apply takeN_nil_iff in Hnil; [|exact Hn]. rewrite Hnil, dropN_nil. reflexivity.
  Qed.

  Lemma cr_inv_chunked : forall k, cr_inv k -> exists r, c_reader k = RChunked r.
  Proof. intros k (r & H & _). eauto. Qed.

  Theorem cr_sim : forall n k, cr_inv k -> 0 < n ->
      match reader_read c n k with
      | (inl d, k') => cr_inv k' /\ i_rd n (cr_alpha k) = (inl d, cr_alpha k')
      | (inr e, k') => fst (i_rd n (cr_alpha k)) = inr e
      end.
  Proof.
    intros n k (r & Hr & Hne & Hg) Hn. pose proof (cr_read_cases n k r Hr Hne Hg Hn) as H.
    unfold reader_read. rewrite Hr. destruct (cr_read c n r (c_unreader k)) as [[[res r'] p'] tr'].
    destruct res as [d|e]; [destruct H as (H1 & H2 & _); auto|exact H].
  Qed.

  Theorem cr_final : forall n k k', cr_inv k -> 0 < n -> reader_read c n k = (inl [], k') -> final_of cr_alpha k'.
  Proof.
    intros n k k' (r & Hr & Hne & Hg) Hn H. pose proof (cr_read_cases n k r Hr Hne Hg Hn) as Hc.
    unfold reader_read in H. rewrite Hr in H. destruct (cr_read c n r (c_unreader k)) as [[[res r'] p'] tr'].
    injection H as -> <-. destruct Hc as (_ & _ & Hf). apply Hf. reflexivity.
  Qed.

  Theorem cr_fuel_ok : forall k, cr_inv k -> (length (fst (cr_alpha k)) < remaining_upper k)%nat.
  Proof.
    intros k (r & Hr & Hne & Hg). unfold cr_alpha, remaining_upper. rewrite Hr. destruct (cactive r).
    - destruct (gen_run_total (cg r) (c_unreader k) Hne Hg) as (D & T & HF). rewrite HF. cbn [fst]. rewrite app_length.
      pose proof (gen_run_raw c _ _ _ _ _ Hne Hg HF) as Hraw. unfold graw in Hraw.
      destruct (cg r) as [| |size rest|]; try lia.
      pose proof (blen_dropN size rest) as Hd. unfold blen in Hd. lia.
    - cbn [fst]. lia.
  Qed.

  Theorem cr_init : forall p, NE p ->
      cr_inv (chunked_init p) /\ cr_alpha (chunked_init p) = cr_alpha (chunked_init (whole (u_abs p))).
  Proof.
    intros p Hne. split; [eexists; cbn; repeat split; auto; exact I|].
    unfold cr_alpha, chunked_init. cbn [c_reader c_unreader c_trailers cactive cg cbuf].
    destruct (gen_run_total GStart p Hne I) as (D1 & T1 & H1).
    destruct (gen_run_total GStart (whole (u_abs p)) (NE_whole _) I) as (D2 & T2 & H2).
    rewrite H1, H2.
    destruct (gen_run_sound c _ GStart p D1 T1 Hne I H1) as [S1 _]. destruct (gen_run_sound c _ GStart (whole (u_abs p)) D2 T2 (NE_whole _) I H2) as [S2 _].
    cbn [abs_g] in S1, S2. rewrite whole_abs in S2.
    destruct (decodes_fun c _ _ _ S1 _ _ S2) as [-> HT]. cbn [app]. f_equal.
    destruct T1 as [q1 t1|e1]; destruct T2 as [q2 t2|e2]; cbn [dconv tconv] in *;
      [injection HT as E1 E2; rewrite E1, E2; reflexivity|discriminate HT|discriminate HT|injection HT as ->; reflexivity].
  Qed.
End Inst.

(* ---- the connection-level theorem, closed ---------------------------------------------------- *)
Theorem run_segmentation_independent : forall c x progs p,
    NE p -> run c x progs p = run c x progs (whole (u_abs p)).
Proof.
  intros c. exact (run_indep c (cr_inv) (cr_alpha c) cr_inv_chunked (cr_sim c) (cr_fuel_ok c) (cr_init c) (cr_final c)).
Qed.

(* ---- the chunked reader never answers EOutOfFuel: the fuel of every loop of the model is sufficient ---- *)
Lemma parse_trailers_no_oof c data p : parse_trailers c data p <> inr EOutOfFuel.
Proof.
  unfold parse_trailers. destruct (scan _ _ data p) as [i d q| |d]; try discriminate.
  destruct (prefixb CRLF d); [discriminate|]. destruct (cap_post _ 4 i); [discriminate|].
  pose proof (parse_headers_never_out_of_fuel c true false (firstn i d)) as H.
  destruct (parse_headers c true false (firstn i d)) as [[hs h]|e]; [discriminate|]. congruence.
Qed.
Lemma parse_chunk_size_no_oof c data p q : parse_chunk_size c data p <> CSErr EOutOfFuel q.
Proof.
  unfold parse_chunk_size. destruct (scan _ _ data p) as [i d r| |d]; try discriminate.
  destruct (cap_post _ 2 i); [discriminate|].
  destruct (mem 13 _ || mem 10 _); [discriminate|]. destruct (negb (hexdigits_ok _)); [discriminate|].
  destruct (match find_char 59 (firstn i d) with Some j => _ | None => _ end) as [|z s]; [discriminate|].
  destruct (hex_value (z :: s) =? 0); [|discriminate].
  pose proof (parse_trailers_no_oof c (skipn (i + 2) d) r) as H.
  destruct (parse_trailers c (skipn (i + 2) d) r) as [[a b]|e]; [discriminate|]. congruence.
Qed.
Lemma gen_enter_not_raise n rest p e q : gen_enter n rest p <> GRaise e q.
Proof. unfold gen_enter. destruct (blen rest <? n); discriminate. Qed.
Lemma gen_next_no_oof c g p q : gen_next c g p <> GRaise EOutOfFuel q.
Proof.
  destruct g as [|l|size rest|]; cbn [gen_next]; try discriminate.
  - pose proof (parse_chunk_size_no_oof c [] p) as H. destruct (parse_chunk_size c [] p) as [n r p'|p' tr|e p'];
      [apply gen_enter_not_raise|discriminate|]. intros [= -> ->]. apply (H q). reflexivity.
  - destruct (u_read p) as [[|b d] p']; [discriminate|apply gen_enter_not_raise].
  - destruct (fill2 (dropN size rest) p) as [rest' p'].
    destruct (negb (beq (firstn 2 rest') CRLF)); [discriminate|].
    pose proof (parse_chunk_size_no_oof c (skipn 2 rest') p') as H.
    destruct (parse_chunk_size c (skipn 2 rest') p') as [n r p''|p'' tr|e p''];
      [apply gen_enter_not_raise|discriminate|]. intros [= -> ->]. apply (H q). reflexivity.
Qed.
Lemma gen_run_no_oof c : forall f g p D, gen_run c f g p <> Some (D, GTRaise EOutOfFuel).
Proof.
  induction f as [|f IH]; intros g p D; cbn [gen_run]; [discriminate|].
  pose proof (gen_next_no_oof c g p) as Hn.
  destruct (gen_next c g p) as [piece g' p'|p' tr|e p'].
  - specialize (IH g' p'). destruct (gen_run c f g' p') as [[D' T']|]; [|discriminate]. cbn.
    intros [= _ ->]. apply (IH D'). reflexivity.
  - discriminate.
  - intros [= _ ->]. apply (Hn p'). reflexivity.
Qed.

Theorem chunked_read_never_out_of_fuel : forall c n k, cr_inv k -> 0 < n -> fst (reader_read c n k) <> inr EOutOfFuel.
Proof.
  intros c n k (r & Hr & Hne & Hg) Hn. unfold reader_read. rewrite Hr.
  unfold cr_read. replace (n =? 0) with false by (symmetry; apply N.eqb_neq; lia).
  destruct (cactive r) eqn:Eact.
  - destruct (gen_run_total c (cg r) (c_unreader k) Hne Hg) as (D & T & HF).
    pose proof (cr_pull_spec c (gen_fuel (cg r) (c_unreader k)) n (cg r) (cbuf r) (c_unreader k) None D T _ Hne Hg
                             (gen_fuel_measure _ _) HF) as Hp.
    destruct (cr_pull c _ n (cg r) (cbuf r) (c_unreader k) None) as [[[r1 p1] tr1] [e|]]; cbn [fst]; [|discriminate].
    destruct Hp as [-> _]. intros [= ->]. eapply gen_run_no_oof. exact HF.
  - cbn [fst]. discriminate.
Qed.
