(* Table lemmas: facts about the tables regenerated from the tree under test (Gen/GenResponse.v), proved by
   complete enumeration (vm_compute over the 256 latin-1 code points / the finite lists).  A change of
   TOKEN_RE, HEADER_VALUE_RE, util.hop_headers or gunicorn.SERVER that breaks one of these facts makes this
   file fail to compile. *)
From Coq Require Import List NArith ZArith Bool Lia Arith ZifyBool.
From GV Require Import Base.Enc Model.RespStr Gen.GenResponse Model.Response Spec.RespSpec Proof.RespStrProofs.
Import ListNotations.
Local Open Scope N_scope.

Definition latin1 : list N := map N.of_nat (seq 0 256).

Lemma in_latin1 c : c < 256 -> In c latin1.
Proof.
  intros H. unfold latin1. rewrite <- (N2Nat.id c). apply in_map. apply in_seq. lia.
Qed.

(* every member of both classes is a latin-1 code point *)
Lemma token_chars_lt256 : forallb (fun c => c <? 256) token_chars = true.
Proof. vm_compute. reflexivity. Qed.
Lemma value_chars_lt256 : forallb (fun c => c <? 256) value_chars = true.
Proof. vm_compute. reflexivity. Qed.

(* the token class is exactly RFC 9110 tchar *)
Lemma token_table_256 : forallb (fun c => Bool.eqb (is_tchar c) (memN c token_chars)) latin1 = true.
Proof. vm_compute. reflexivity. Qed.
(* the value class is exactly HTAB / SP / VCHAR / obs-text: in particular no CR, LF, NUL or other control *)
Lemma value_table_256 : forallb (fun c => Bool.eqb (is_field_char c) (memN c value_chars)) latin1 = true.
Proof. vm_compute. reflexivity. Qed.

Lemma mem_ge256_false l c : forallb (fun c => c <? 256) l = true -> 256 <= c -> memN c l = false.
Proof.
  intros Hl Hc. destruct (memN c l) eqn:E; [|reflexivity]. apply memN_In in E.
  rewrite forallb_forall in Hl. specialize (Hl c E). apply N.ltb_lt in Hl. lia.
Qed.

Lemma tchar_table c : memN c token_chars = is_tchar c.
Proof.
  destruct (N.lt_ge_cases c 256) as [H|H].
  - pose proof token_table_256 as T. rewrite forallb_forall in T. specialize (T c (in_latin1 c H)).
    apply eqb_prop in T. symmetry. exact T.
  - rewrite (mem_ge256_false _ c token_chars_lt256 H). symmetry.
    unfold is_tchar, RespSpec.is_digit, is_alpha. cbn [existsb]. lia.
Qed.

Lemma field_char_table c : memN c value_chars = is_field_char c.
Proof.
  destruct (N.lt_ge_cases c 256) as [H|H].
  - pose proof value_table_256 as T. rewrite forallb_forall in T. specialize (T c (in_latin1 c H)).
    apply eqb_prop in T. symmetry. exact T.
  - rewrite (mem_ge256_false _ c value_chars_lt256 H). symmetry.
    unfold is_field_char. lia.
Qed.

Lemma forallb_ext' {A} (f g : A -> bool) l : (forall x, f x = g x) -> forallb f l = forallb g l.
Proof. intros H. induction l as [|x t IH]; cbn; [reflexivity|]. rewrite H, IH. reflexivity. Qed.

Lemma is_token_spec s : is_token s = match s with [] => false | _ => forallb is_tchar s end.
Proof.
  unfold is_token. destruct s as [|c t]; [reflexivity|].
  apply forallb_ext'. intros x. apply tchar_table.
Qed.
Lemma is_value_spec s : is_value s = forallb is_field_char s.
Proof. unfold is_value. apply forallb_ext'. intros x. apply field_char_table. Qed.

(* consequences used by the theorems *)
Lemma field_char_lt256 c : is_field_char c = true -> c <? 256 = true.
Proof.
  rewrite <- field_char_table. intros H. apply memN_In in H.
  pose proof value_chars_lt256 as T. rewrite forallb_forall in T. exact (T c H).
Qed.
Lemma tchar_lt256 c : is_tchar c = true -> c <? 256 = true.
Proof.
  rewrite <- tchar_table. intros H. apply memN_In in H.
  pose proof token_chars_lt256 as T. rewrite forallb_forall in T. exact (T c H).
Qed.
Lemma tchar_field_char c : is_tchar c = true -> is_field_char c = true.
Proof.
  intros H. pose proof (tchar_lt256 c H) as L. apply N.ltb_lt in L.
  assert (T : forallb (fun c => implb (is_tchar c) (is_field_char c)) latin1 = true) by (vm_compute; reflexivity).
  rewrite forallb_forall in T. specialize (T c (in_latin1 c L)). rewrite H in T. exact T.
Qed.
(* token characters are ASCII and none of them is white space: lower() and strip() behave as modelled *)
Lemma tchar_not_space c : is_tchar c = true -> py_space c = false.
Proof.
  intros H. pose proof (tchar_lt256 c H) as L. apply N.ltb_lt in L.
  assert (T : forallb (fun c => implb (is_tchar c) (negb (py_space c) && (c <? 128))) latin1 = true) by (vm_compute; reflexivity).
  rewrite forallb_forall in T. specialize (T c (in_latin1 c L)). rewrite H in T. cbn in T.
  apply andb_prop in T as [T _]. apply negb_true_iff in T. exact T.
Qed.
Lemma tchar_lower c : is_tchar c = true -> is_tchar (RespStr.lower_c c) = true.
Proof.
  intros H. pose proof (tchar_lt256 c H) as L. apply N.ltb_lt in L.
  assert (T : forallb (fun c => implb (is_tchar c) (is_tchar (RespStr.lower_c c))) latin1 = true) by (vm_compute; reflexivity).
  rewrite forallb_forall in T. specialize (T c (in_latin1 c L)). rewrite H in T. exact T.
Qed.

(* the hop-by-hop set contains every RFC 9110 7.6.1 connection-specific field name (+ keep-alive, upgrade) *)
Definition rfc_hop : list (list N) :=
  [ s_connection; s_keep_alive; s_transfer_encoding; s_upgrade;
    [116; 101] (* te *); [116; 114; 97; 105; 108; 101; 114; 115] (* trailers *);
    [112; 114; 111; 120; 121; 45; 97; 117; 116; 104; 101; 110; 116; 105; 99; 97; 116; 101] (* proxy-authenticate *);
    [112; 114; 111; 120; 121; 45; 97; 117; 116; 104; 111; 114; 105; 122; 97; 116; 105; 111; 110] (* proxy-authorization *) ].
Lemma rfc_hop_in_hop_headers : forallb (fun h => mem_str h hop_headers) rfc_hop = true.
Proof. vm_compute. reflexivity. Qed.
Lemma content_length_not_hop : mem_str s_content_length hop_headers = false.
Proof. vm_compute. reflexivity. Qed.
(* hop names are lower-case tokens (so that lower(name) in hop_headers is the only way to match) *)
Lemma hop_headers_are_tokens : forallb (fun h => is_token h && list_eqb (lower h) h) hop_headers = true.
Proof. vm_compute. reflexivity. Qed.

Lemma server_name_ok : forallb is_field_char server_name = true /\ no_edge is_sp_tab server_name.
Proof. split; [vm_compute; reflexivity|split; vm_compute; reflexivity]. Qed.
