(* C04 - the master side of a shutdown: invariants of Model/Shutdown.v over every schedule *)
From Coq Require Import List ZArith Bool Lia.
From GV Require Import Gen.GenArbiter Gen.GenShutdown Model.Shutdown Proof.ShutdownBase.
Import ListNotations.
Local Open Scope Z_scope.

(* ================================================================================================ *)
(* 1. structure: every running worker stays tracked until it is killed                              *)
(* ================================================================================================ *)

Definition pc_ok (p : pc) : Prop :=
  match p with
  | PSnap sg (KDone _) | PKill _ sg (KDone _) => sg = SIGKILL
  | _ => True
  end.

Definition kill_set (s : st) : Prop :=
  match cur s with
  | PKill todo _ (KDone _) => forall k, In k (kids s) -> worker_running k = true -> In (k_pid k) todo
  | PExited _ => forall k, In k (kids s) -> worker_running k = false
  | _ => True
  end.

Record SInv (s : st) : Prop := mkSInv {
  i_nodup : NoDup (map k_pid (kids s));
  i_cov : covered s;
  i_pc : pc_ok (cur s);
  i_ks : kill_set s
}.

Lemma not_running_false : forall k, (worker_running k = true -> False) -> worker_running k = false.
Proof. intros. destruct (worker_running k); auto. exfalso; auto. Qed.

Lemma enter_stop_sinv : forall c s g a, SInv s -> SInv (enter_stop c s g a).
Proof.
  intros c s g a [N C P K]. unfold enter_stop, close_listeners. constructor; simpl; auto.
  unfold kill_set. simpl. auto.
Qed.

Lemma finish_stop_sinv : forall c s a, SInv s -> (forall k, In k (kids s) -> worker_running k = false) ->
  SInv (finish_stop c s a).
Proof.
  intros c s a H Hn. destruct a; simpl.
  - apply enter_stop_sinv; auto.
  - destruct H as [N C P K]. destruct (pidconf c); constructor; simpl; auto; unfold kill_set; simpl; auto.
Qed.

Lemma kill_next_sinv : forall c s l sg k,
  NoDup (map k_pid (kids s)) -> covered s -> pc_ok (PKill l sg k) ->
  (match k with KDone _ => forall x, In x (kids s) -> worker_running x = true -> In (k_pid x) l | _ => True end) ->
  SInv (kill_next c (set_pc s (PKill l sg k)) l sg k).
Proof.
  intros c s l sg k N C P K. unfold kill_next. destruct l as [|p l].
  - destruct k as [limit a|a].
    + constructor; simpl; auto; unfold kill_set; simpl; auto.
    + apply finish_stop_sinv.
      * constructor; simpl; auto; unfold kill_set; simpl; auto.
      * simpl. intros x Hx. apply not_running_false. intros Hr. apply (K x Hx Hr).
  - constructor; simpl; auto; unfold kill_set; simpl; destruct k; auto.
Qed.

Lemma kill_next_pc : forall c s l sg k x, kill_next c (set_pc s x) l sg k = kill_next c s l sg k.
Proof.
  intros. unfold kill_next. destruct l; [destruct k; [reflexivity|]|reflexivity].
  destruct a; simpl; [reflexivity|]. destruct (pidconf c); reflexivity.
Qed.

Lemma master_sinv : forall c s, SInv s -> SInv (master c s).
Proof.
  intros c s H. pose proof H as [N C P K]. unfold master. destruct (cur s) eqn:E.
  - (* PDispatch *)
    destruct (sg =? SIGTERM); [apply enter_stop_sinv; auto|].
    destruct ((sg =? SIGINT) || (sg =? SIGQUIT)); [apply enter_stop_sinv; auto|auto].
  - (* PSnap *)
    rewrite <- (kill_next_pc c s (ws s) sg k (PKill (ws s) sg k)). apply kill_next_sinv; auto; destruct k; auto.
  - (* PKill *)
    unfold kill_set in K. rewrite E in K.
    destruct todo as [|p l].
    + rewrite <- (kill_next_pc c s [] sg k (PKill [] sg k)). apply kill_next_sinv; auto; destruct k; auto.
    + rewrite <- (kill_next_pc c _ l sg k (PKill l sg k)).
      unfold kill_worker. destruct (kill_in (kids s) p sg) eqn:KI.
      * apply kill_in_some in KI. subst l0. apply kill_next_sinv; simpl.
        -- rewrite map_sig_kid_pids. auto.
        -- intros x Hx Hr. simpl in *. apply in_map_iff in Hx. destruct Hx as [c0 [Hc Hin]]. subst x.
           rewrite sig_kid_pid. apply sig_kid_running in Hr. destruct Hr as [Hr _]. apply C; auto.
        -- exact P.
        -- destruct k; auto. simpl in P. subst sg.
           intros x Hx Hr. apply in_map_iff in Hx. destruct Hx as [c0 [Hc Hin]]. subst x.
           rewrite sig_kid_pid. apply sig_kid_running in Hr. destruct Hr as [Hr Hp].
           destruct (K c0 Hin Hr) as [Q|Q]; auto. exfalso. apply Hp; auto.
      * apply kill_in_none in KI. apply kill_next_sinv; simpl; auto.
        -- intros x Hx Hr. simpl in *. apply remove_z_In. split; [apply C; auto|].
           intro Q. apply KI. rewrite <- Q. apply in_map; auto.
        -- destruct k; auto. intros x Hx Hr. destruct (K x Hx Hr) as [Q|Q]; auto.
           exfalso. apply KI. rewrite Q. apply in_map; auto.
  - (* PWait *)
    destruct (negb (Nat.eqb (length (ws s)) 0) && (wall s <? limit)); constructor; simpl; auto; unfold kill_set; simpl; auto.
  - (* PNap *)
    constructor; simpl; auto; unfold kill_set; simpl; auto.
  - auto.
  - auto.
Qed.

(* ---- the SIGCHLD handler ------------------------------------------------------------------------------- *)
Lemma reap_cur : forall fuel s s' r, reap fuel s = (s', r) -> cur s' = cur s.
Proof.
  induction fuel; simpl; intros s s' r H; [inversion H; auto|].
  destruct (first_zombie (kids s)) as [[z rest]|]; [|inversion H; auto].
  simpl in H. destruct (reexec s =? k_pid z).
  - apply IHfuel in H. simpl in H. auto.
  - destruct ((Z.shiftr (k_status z) 8 =? worker_boot_error) && raises _); [inversion H; auto|].
    destruct ((Z.shiftr (k_status z) 8 =? app_load_error) && raises _); [inversion H; auto|].
    apply IHfuel in H. simpl in H. auto.
Qed.

Lemma kill_set_kids : forall s s', cur s' = cur s -> (forall k, In k (kids s') -> In k (kids s)) -> kill_set s -> kill_set s'.
Proof.
  unfold kill_set. intros s s' E H K. rewrite E. destruct (cur s); auto.
  destruct k; auto.
Qed.

Lemma reap_one_sinv : forall s z rest, first_zombie (kids s) = Some (z, rest) -> SInv s ->
  SInv (set_kids s rest) /\ SInv (set_ws (set_kids s rest) (remove_z (k_pid z) (ws s))).
Proof.
  intros s z rest F [N C P K].
  destruct (first_zombie_spec _ _ _ F) as [Z [l1 [l2 [A B]]]].
  assert (Hsub : forall k, In k rest -> In k (kids s)).
  { intros k Hk. rewrite A. subst rest. apply in_app_or in Hk. apply in_or_app. destruct Hk; [left|right; right]; auto. }
  rewrite A in N. destruct (NoDup_map_remove _ _ _ N) as [N1 N2]. rewrite <- B in N1, N2.
  split; constructor; simpl.
  - exact N1.
  - intros k Hk Hr. simpl in *. apply C; auto.
  - exact P.
  - apply (kill_set_kids s); auto.
  - exact N1.
  - intros k Hk Hr. simpl in *. apply remove_z_In. split; [apply C; auto|].
    intro Q. apply N2. rewrite <- Q. apply in_map; auto.
  - exact P.
  - apply (kill_set_kids s); auto.
Qed.

Lemma reap_sinv : forall fuel s s' r, reap fuel s = (s', r) -> SInv s -> SInv s'.
Proof.
  induction fuel; simpl; intros s s' r H I; [inversion H; subst; auto|].
  destruct (first_zombie (kids s)) as [[z rest]|] eqn:F; [|inversion H; subst; auto].
  destruct (reap_one_sinv _ _ _ F I) as [I1 I2].
  simpl in H. destruct (reexec s =? k_pid z).
  - eapply IHfuel; eauto. destruct I1 as [N C P K]. constructor; auto.
  - destruct ((Z.shiftr (k_status z) 8 =? worker_boot_error) && raises _); [inversion H; subst; auto|].
    destruct ((Z.shiftr (k_status z) 8 =? app_load_error) && raises _); [inversion H; subst; auto|].
    eapply IHfuel; eauto.
Qed.

Lemma chld_sinv : forall c s, SInv s -> SInv (chld c s).
Proof.
  intros c s I. unfold chld. destruct (master_gone (cur s)); auto.
  destruct (reap (S (length (kids s))) s) as [s1 r] eqn:R.
  pose proof (reap_sinv _ _ _ _ R I) as I1. destruct r; auto.
  destruct (in_final_stop (cur s1)).
  - destruct I1 as [N C P K]. constructor; simpl; auto; unfold kill_set; simpl; auto.
  - apply enter_stop_sinv; auto.
Qed.

Lemma step_sinv : forall c s l, SInv s -> SInv (step c s l).
Proof.
  intros c s l I. destruct l; simpl.
  - apply master_sinv; auto.
  - apply chld_sinv; auto.
  - destruct I as [N C P K]. constructor; simpl; auto.
    + rewrite exit_kid_pids. auto.
    + intros k Hk Hr. simpl in *. apply C; auto. eapply exit_kid_running; eauto.
    + unfold kill_set in *. simpl. destruct (cur s); auto.
      * destruct k; auto. intros x Hx Hr. apply K; auto. eapply exit_kid_running; eauto.
      * intros x Hx. apply not_running_false. intros Hr. pose proof (exit_kid_running _ _ _ _ Hx Hr) as Q.
        rewrite (K x Q) in Hr. discriminate.
  - destruct (0 <=? dt); auto. destruct I as [N C P K]. constructor; simpl; auto.
Qed.

Lemma run_sinv : forall c ls s, SInv s -> SInv (run c s ls).
Proof. induction ls; simpl; intros; auto. apply IHls. apply step_sinv; auto. Qed.

Lemma dispatch_sinv : forall s sg, cur s = PDispatch sg -> NoDup (map k_pid (kids s)) -> covered s -> SInv s.
Proof. intros. constructor; auto; unfold kill_set; rewrite H; simpl; auto. Qed.

(* no worker process survives the master *)
Theorem no_worker_left : forall c s0 sg ls status,
  cur s0 = PDispatch sg -> NoDup (map k_pid (kids s0)) -> covered s0 ->
  cur (run c s0 ls) = PExited status ->
  forall k, In k (kids (run c s0 ls)) -> worker_running k = false.
Proof.
  intros c s0 sg ls status E N C X. pose proof (run_sinv c ls s0 (dispatch_sinv _ _ E N C)) as [_ _ _ K].
  unfold kill_set in K. rewrite X in K. exact K.
Qed.

(* ================================================================================================ *)
(* 2. files, time, the moment of the SIGKILLs                                                       *)
(* ================================================================================================ *)

Definition unix_ids (s0 : st) : list Z := map l_id (filter l_unix (lst s0)).
Definition unlinked_fs (s0 : st) : list Z := filter (fun x => negb (zmem x (unix_ids s0))) (sockfs s0).
Definition own (s : st) : Z := wall s - slack s.           (* the master's own clock: time not spent in Tick *)
Definition nap := stop_nap_ticks.
Definition more (c : cfg) (a : after) : Z := match a with AHalt => grace c + nap | AExit _ => 0 end.
Definition budget (c : cfg) (s0 : st) (sg : Z) : Z :=
  own s0 + (grace c + nap) * (if sg =? SIGTERM then 1 else 2).

(* files after the first close_sockets *)
Definition files_post (c : cfg) (s0 s : st) : Prop :=
  lst s = [] /\ closed s = closed s0 ++ map l_id (lst s0) /\
  (sockfs s = sockfs s0 \/ sockfs s = unlinked_fs s0) /\
  (reexec s0 = 0 -> mpid s0 = 0 -> systemd c = false -> reuse c = false -> sockfs s = unlinked_fs s0) /\
  (mpid s0 <> 0 \/ systemd c = true \/ reuse c = true -> sockfs s = sockfs s0).

Definition wait_ok (c : cfg) (s0 : st) (sg : Z) (s : st) (limit : Z) (a : after) : Prop :=
  limit = wlim s /\ wall s0 + grace c <= wlim s /\ limit - slack s <= olim s /\ olim s + nap + more c a <= budget c s0 sg.

Definition B2 (c : cfg) (s0 : st) (sg : Z) (p : pc) (s : st) : Prop :=
  match p with
  | PDispatch sg' =>
      sg' = sg /\ lst s = lst s0 /\ closed s = closed s0 /\ sockfs s = sockfs s0 /\ pidfs s = pidfs s0 /\ own s = own s0
  | PSnap sg' (KWait limit a) =>
      files_post c s0 s /\ pidfs s = pidfs s0 /\ wait_ok c s0 sg s limit a /\ own s <= olim s + nap /\ (sg' = SIGTERM \/ sg' = SIGQUIT)
  | PKill _ sg' (KWait limit a) =>
      files_post c s0 s /\ pidfs s = pidfs s0 /\ wait_ok c s0 sg s limit a /\ own s <= olim s + nap /\ (sg' = SIGTERM \/ sg' = SIGQUIT)
  | PWait limit a =>
      files_post c s0 s /\ pidfs s = pidfs s0 /\ wait_ok c s0 sg s limit a /\ own s <= olim s + nap
  | PNap limit a =>
      files_post c s0 s /\ pidfs s = pidfs s0 /\ wait_ok c s0 sg s limit a /\ own s < olim s
  | PSnap _ (KDone a) =>
      files_post c s0 s /\ pidfs s = pidfs s0 /\ own s + more c a <= budget c s0 sg /\
      (ws s = [] \/ wlim s <= wall s) /\ wall s0 + grace c <= wlim s
  | PKill todo _ (KDone a) =>
      files_post c s0 s /\ pidfs s = pidfs s0 /\ own s + more c a <= budget c s0 sg /\
      (todo = [] \/ wlim s <= wall s) /\ wall s0 + grace c <= wlim s
  | PExited _ =>
      files_post c s0 s /\ pidfs s = (if pidconf c then false else pidfs s0) /\ own s <= budget c s0 sg
  | PCrashed => files_post c s0 s /\ pidfs s = pidfs s0
  end.

Record Inv2 (c : cfg) (s0 : st) (sg : Z) (s : st) : Prop := mkInv2 {
  j_mpid : mpid s = mpid s0;
  j_rx : reexec s = reexec s0 \/ reexec s = 0;
  j_wall : wall s0 <= wall s;
  j_b : B2 c s0 sg (cur s) s
}.

Lemma filter_all_true : forall (A : Type) (f : A -> bool) l, (forall x, In x l -> f x = true) -> filter f l = l.
Proof. induction l; simpl; intros; auto. rewrite H by auto. f_equal. apply IHl. auto. Qed.

Section WithCfg.
Variable c : cfg.
Variable s0 : st.
Variable sg : Z.
Hypothesis Hg : 0 <= grace c.
Hypothesis Hn : 0 <= nap.

(* close_sockets on an empty LISTENERS changes nothing *)
Lemma close_listeners_nil : forall s, lst s = [] ->
  sockfs (close_listeners c s) = sockfs s /\ closed (close_listeners c s) = closed s /\ lst (close_listeners c s) = [].
Proof.
  intros s L. unfold close_listeners. simpl. rewrite L. simpl. rewrite app_nil_r. repeat split.
  destruct (unlink_flag c s); auto. apply filter_all_true. auto.
Qed.

Lemma files_post_close : forall s, files_post c s0 s -> files_post c s0 (close_listeners c s).
Proof.
  intros s [L [Cl [S1 [S2 S3]]]]. destruct (close_listeners_nil s L) as [A [B C]].
  unfold files_post. rewrite A, B, C. repeat split; auto.
Qed.

Lemma files_dispatch_close : forall s,
  lst s = lst s0 -> closed s = closed s0 -> sockfs s = sockfs s0 -> mpid s = mpid s0 -> (reexec s = reexec s0 \/ reexec s = 0) ->
  files_post c s0 (close_listeners c s).
Proof.
  intros s L Cl S M R. unfold close_listeners, files_post. simpl. rewrite L, Cl, S. fold (unix_ids s0). fold (unlinked_fs s0).
  split; auto. split; auto. split; [destruct (unlink_flag c s); auto|]. split.
  - intros R0 M0 Sd Ru. unfold unlink_flag. rewrite M, M0, Sd, Ru. destruct R as [R|R]; rewrite R; try rewrite R0; reflexivity.
  - intros H. unfold unlink_flag. rewrite M. destruct H as [H|[H|H]].
    + apply Z.eqb_neq in H. rewrite H. rewrite andb_false_r. reflexivity.
    + rewrite H. simpl. rewrite andb_false_r. reflexivity.
    + rewrite H. simpl. rewrite andb_false_r. reflexivity.
Qed.

(* entering a stop() whose limit fits the budget *)
Lemma enter_stop_b2 : forall s g a,
  files_post c s0 (close_listeners c s) -> pidfs s = pidfs s0 -> wall s0 <= wall s ->
  own s + grace c + nap + more c a <= budget c s0 sg ->
  B2 c s0 sg (cur (enter_stop c s g a)) (enter_stop c s g a).
Proof.
  intros s g a F P W Bd. unfold enter_stop. simpl. unfold B2.
  split; [exact F|]. split; [exact P|]. unfold wait_ok, own in *. simpl. repeat split; try lia.
  destruct g; auto.
Qed.

Lemma kill_worker_frame : forall s p sg',
  let s' := kill_worker s p sg' in
  lst s' = lst s /\ reexec s' = reexec s /\ mpid s' = mpid s /\ cur s' = cur s /\ wall s' = wall s /\ sockfs s' = sockfs s /\
  pidfs s' = pidfs s /\ closed s' = closed s /\ slack s' = slack s /\ wlim s' = wlim s /\ olim s' = olim s.
Proof. intros. unfold s', kill_worker. destruct (kill_in (kids s) p sg'); simpl; repeat split. Qed.

Lemma kill_worker_ws_nil : forall s p sg', ws s = [] -> ws (kill_worker s p sg') = [].
Proof. intros. unfold kill_worker. destruct (kill_in (kids s) p sg'); simpl; auto. rewrite H. reflexivity. Qed.

(* B2 only looks at fields that kill_worker leaves alone (except ws) *)
Lemma b2_frame : forall p s s',
  lst s' = lst s -> wall s' = wall s -> sockfs s' = sockfs s -> pidfs s' = pidfs s -> closed s' = closed s ->
  slack s' = slack s -> wlim s' = wlim s -> olim s' = olim s -> (ws s = [] -> ws s' = []) ->
  B2 c s0 sg p s -> B2 c s0 sg p s'.
Proof.
  intros p s s' L W S P Cl Sl Wl Ol Ws H.
  assert (FP : files_post c s0 s -> files_post c s0 s').
  { unfold files_post. rewrite L, Cl, S. auto. }
  unfold B2, wait_ok, own in *. destruct p; try (destruct k); rewrite ?L, ?W, ?S, ?P, ?Cl, ?Sl, ?Wl, ?Ol; intuition.
Qed.

Lemma finish_stop_inv2 : forall s a,
  mpid s = mpid s0 -> (reexec s = reexec s0 \/ reexec s = 0) -> wall s0 <= wall s ->
  files_post c s0 s -> pidfs s = pidfs s0 -> own s + more c a <= budget c s0 sg ->
  Inv2 c s0 sg (finish_stop c s a).
Proof.
  intros s a M R W F P Bd. destruct a; simpl.
  - constructor; try (unfold enter_stop, close_listeners; simpl; auto; fail).
    apply enter_stop_b2; auto. apply files_post_close; auto. simpl in *. lia.
  - constructor; try (destruct (pidconf c); simpl; auto; fail).
    destruct (pidconf c) eqn:Pc; simpl; unfold B2; rewrite ?Pc; simpl in *; (split; [exact F|split; [auto|unfold own in *; simpl; lia]]).
Qed.

Lemma kill_next_inv2 : forall s l sg' k,
  mpid s = mpid s0 -> (reexec s = reexec s0 \/ reexec s = 0) -> wall s0 <= wall s ->
  B2 c s0 sg (PKill l sg' k) s ->
  Inv2 c s0 sg (kill_next c s l sg' k).
Proof.
  intros s l sg' k M R W B. unfold kill_next. destruct l as [|p l].
  - destruct k as [limit a|a].
    + constructor; simpl; auto. simpl in B. tauto.
    + simpl in B. apply finish_stop_inv2; tauto.
  - constructor; simpl; auto.
Qed.

Lemma master_inv2 : forall s, Inv2 c s0 sg s -> Inv2 c s0 sg (master c s).
Proof.
  intros s [M R W B]. assert (Hn' : 0 <= stop_nap_ticks) by exact Hn. unfold master. destruct (cur s) eqn:E.
  - (* PDispatch *)
    simpl in B. destruct B as [Es [L [Cl [S [P O]]]]]. subst sg0.
    assert (F : files_post c s0 (close_listeners c s)) by (apply files_dispatch_close; auto).
    destruct (sg =? SIGTERM) eqn:T.
    + constructor; try (unfold enter_stop, close_listeners; simpl; auto; fail).
      apply enter_stop_b2; auto. unfold budget. rewrite T. simpl. lia.
    + destruct ((sg =? SIGINT) || (sg =? SIGQUIT)).
      * constructor; try (unfold enter_stop, close_listeners; simpl; auto; fail).
        apply enter_stop_b2; auto. unfold budget. rewrite T. simpl. lia.
      * constructor; auto. rewrite E. simpl. repeat split; auto.
  - (* PSnap *)
    apply kill_next_inv2; auto; simpl in *; destruct k; auto.
  - (* PKill *)
    destruct todo as [|p l].
    + apply kill_next_inv2; auto.
    + pose proof (kill_worker_frame s p sg0) as Fr. simpl in Fr.
      destruct Fr as [F1 [F2 [F3 [F4 [F5 [F6 [F7 [F8 [F9 [F10 F11]]]]]]]]]].
      apply kill_next_inv2.
      * rewrite F3. auto.
      * rewrite F2. auto.
      * rewrite F5. auto.
      * apply (b2_frame (PKill l sg0 k) s); auto.
        -- apply kill_worker_ws_nil.
        -- simpl in *. destruct k; auto. destruct B as [F [P [Bd [[Z|Z] Wl]]]]; [discriminate|]. split; [exact F|]. split; [exact P|]. split; [exact Bd|]. split; auto.
  - (* PWait *)
    simpl in B. destruct B as [F [P [[Wl [Wg [Wo Wb]]] O]]].
    destruct (negb (Nat.eqb (length (ws s)) 0) && (wall s <? limit)) eqn:Cd.
    + constructor; simpl; auto. apply andb_true_iff in Cd. destruct Cd as [_ Cd]. apply Z.ltb_lt in Cd.
      split; [exact F|]. split; [exact P|]. split; [unfold wait_ok; auto|]. unfold own. simpl. lia.
    + constructor; simpl; auto.
      split; [exact F|]. split; [exact P|]. split; [unfold own in *; simpl; lia|]. split; [|lia].
      apply andb_false_iff in Cd. destruct Cd as [Cd|Cd].
      * left. apply negb_false_iff in Cd. apply Nat.eqb_eq in Cd. destruct (ws s); [auto|discriminate].
      * right. apply Z.ltb_ge in Cd. lia.
  - (* PNap *)
    simpl in B. destruct B as [F [P [[Wl [Wg [Wo Wb]]] O]]].
    constructor; simpl; auto; [lia|].
    split; [exact F|]. split; [exact P|]. split; [unfold wait_ok; simpl; auto|]. unfold own in *. simpl. fold nap. lia.
  - constructor; auto. rewrite E. auto.
  - constructor; auto. rewrite E. auto.
Qed.

(* ---- the SIGCHLD handler ---- *)
Lemma reap_frame : forall fuel s s' r, reap fuel s = (s', r) ->
  lst s' = lst s /\ mpid s' = mpid s /\ cur s' = cur s /\ wall s' = wall s /\ sockfs s' = sockfs s /\
  pidfs s' = pidfs s /\ closed s' = closed s /\ slack s' = slack s /\ wlim s' = wlim s /\ olim s' = olim s /\
  (reexec s' = reexec s \/ reexec s' = 0) /\ (ws s = [] -> ws s' = []).
Proof.
  induction fuel; simpl; intros s s' r H; [inversion H; subst; repeat split; auto|].
  destruct (first_zombie (kids s)) as [[z rest]|]; [|inversion H; subst; repeat split; auto].
  simpl in H. destruct (reexec s =? k_pid z).
  - apply IHfuel in H. simpl in H.
    destruct H as [F1 [F3 [F4 [F5 [F6 [F7 [F8 [F9 [F10 [F11 [F2 F12]]]]]]]]]]]. repeat split; auto.
    destruct F2; auto.
  - destruct ((Z.shiftr (k_status z) 8 =? worker_boot_error) && raises _); [inversion H; subst; simpl; repeat split; auto|].
    destruct ((Z.shiftr (k_status z) 8 =? app_load_error) && raises _); [inversion H; subst; simpl; repeat split; auto|].
    apply IHfuel in H. simpl in H.
    destruct H as [F1 [F3 [F4 [F5 [F6 [F7 [F8 [F9 [F10 [F11 [F2 F12]]]]]]]]]]]. repeat split; auto.
    intros Q. apply F12. rewrite Q. reflexivity.
Qed.

Lemma chld_inv2 : forall s, Inv2 c s0 sg s -> Inv2 c s0 sg (chld c s).
Proof.
  intros s I. assert (Hn' : 0 <= stop_nap_ticks) by exact Hn. unfold chld. destruct (master_gone (cur s)) eqn:MG; auto.
  destruct (reap (S (length (kids s))) s) as [s1 r] eqn:Rp.
  destruct (reap_frame _ _ _ _ Rp) as [F1 [F3 [F4 [F5 [F6 [F7 [F8 [F9 [F10 [F11 [F2 F12]]]]]]]]]]].
  destruct I as [M R W B].
  assert (R1 : reexec s1 = reexec s0 \/ reexec s1 = 0).
  { destruct F2 as [Q|Q]; rewrite Q; auto. }
  assert (B1 : B2 c s0 sg (cur s) s1) by (apply (b2_frame (cur s) s); auto).
  destruct r as [code|].
  - rewrite F4. destruct (in_final_stop (cur s)) eqn:Fin.
    + constructor; simpl; try congruence.
      destruct (cur s); simpl in Fin; try discriminate; try (destruct k); simpl in B1; tauto.
    + constructor; try (unfold enter_stop, close_listeners; simpl; auto; congruence).
      destruct (cur s) eqn:E; simpl in Fin, MG, B1; try discriminate.
      * destruct B1 as [Es [L [Cl [S [P O]]]]].
        apply enter_stop_b2; try congruence.
        -- apply files_dispatch_close; congruence.
        -- unfold budget. simpl. destruct (sg =? SIGTERM); lia.
      * destruct k; simpl in Fin; destruct a; try discriminate; simpl in B1.
        -- destruct B1 as [F [P [[Wl [Wg [Wo Wb]]] [O _]]]]. apply enter_stop_b2; try congruence.
           ++ apply files_post_close; auto.
           ++ simpl in *. lia.
        -- destruct B1 as [F [P [Bd _]]]. apply enter_stop_b2; try congruence.
           ++ apply files_post_close; auto.
           ++ simpl in *. lia.
      * destruct k; simpl in Fin; destruct a; try discriminate; simpl in B1.
        -- destruct B1 as [F [P [[Wl [Wg [Wo Wb]]] [O _]]]]. apply enter_stop_b2; try congruence.
           ++ apply files_post_close; auto.
           ++ simpl in *. lia.
        -- destruct B1 as [F [P [Bd _]]]. apply enter_stop_b2; try congruence.
           ++ apply files_post_close; auto.
           ++ simpl in *. lia.
      * destruct a; try discriminate; simpl in B1.
        destruct B1 as [F [P [[Wl [Wg [Wo Wb]]] O]]]. apply enter_stop_b2; try congruence.
        -- apply files_post_close; auto.
        -- simpl in *. lia.
      * destruct a; try discriminate; simpl in B1.
        destruct B1 as [F [P [[Wl [Wg [Wo Wb]]] O]]]. apply enter_stop_b2; try congruence.
        -- apply files_post_close; auto.
        -- simpl in *. lia.
  - constructor; try congruence; rewrite F4; exact B1.
Qed.

Lemma step_inv2 : forall s l, Inv2 c s0 sg s -> Inv2 c s0 sg (step c s l).
Proof.
  intros s l I. destruct l; simpl.
  - apply master_inv2; auto.
  - apply chld_inv2; auto.
  - destruct I as [M R W B]. constructor; simpl; auto; apply (b2_frame (cur s) s); auto.
  - destruct (0 <=? dt) eqn:D; auto. apply Z.leb_le in D. destruct I as [M R W B]. constructor; simpl; auto; [lia|].
    unfold B2, wait_ok, files_post, own in *. destruct (cur s); try (destruct k); simpl; intuition; try lia.
Qed.

Lemma run_inv2 : forall ls s, Inv2 c s0 sg s -> Inv2 c s0 sg (run c s ls).
Proof. induction ls; simpl; intros; auto. apply IHls. apply step_inv2; auto. Qed.

Lemma dispatch_inv2 : cur s0 = PDispatch sg -> Inv2 c s0 sg s0.
Proof. intros E. constructor; auto; [lia|]. rewrite E. simpl. repeat split; auto. Qed.

End WithCfg.

(* ---- consequences ------------------------------------------------------------------------------------------ *)
Lemma unlinked_fs_spec : forall s0 x, In x (unix_ids s0) -> ~ In x (unlinked_fs s0).
Proof.
  intros s0 x H Q. unfold unlinked_fs in Q. apply filter_In in Q. destruct Q as [_ Q].
  apply negb_true_iff in Q. apply zmem_In in H. congruence.
Qed.

Lemma sig_distinct : SIGTERM <> SIGKILL /\ SIGQUIT <> SIGKILL.
Proof. split; intro H; vm_compute in H; discriminate. Qed.

Theorem end_state_files : forall c s0 sg ls status,
  cur s0 = PDispatch sg -> 0 <= grace c -> 0 <= nap ->
  cur (run c s0 ls) = PExited status ->
  let s := run c s0 ls in
  lst s = [] /\ closed s = closed s0 ++ map l_id (lst s0) /\
  (pidconf c = true -> pidfs s = false) /\
  (reexec s0 = 0 -> mpid s0 = 0 -> systemd c = false -> reuse c = false ->
     forall l, In l (lst s0) -> l_unix l = true -> ~ In (l_id l) (sockfs s)) /\
  (mpid s0 <> 0 \/ systemd c = true \/ reuse c = true -> sockfs s = sockfs s0).
Proof.
  intros c s0 sg ls status E Hg Hn X s.
  pose proof (run_inv2 c s0 sg Hg Hn ls s0 (dispatch_inv2 c s0 sg E)) as [M R W B].
  fold s in B. unfold s in *. rewrite X in B. simpl in B. destruct B as [[L [Cl [S1 [S2 S3]]]] [P O]].
  repeat split; auto.
  - intros Pc. rewrite P, Pc. reflexivity.
  - intros R0 M0 Sd Ru l Hl Hu. rewrite (S2 R0 M0 Sd Ru). apply unlinked_fs_spec.
    unfold unix_ids. apply in_map. apply filter_In. auto.
Qed.

(* the pid file survives only a crash *)
Theorem exit_time : forall c s0 sg ls status,
  cur s0 = PDispatch sg -> 0 <= grace c -> 0 <= nap ->
  cur (run c s0 ls) = PExited status ->
  let s := run c s0 ls in
  wall s <= wall s0 + (grace c + nap) * (if sg =? SIGTERM then 1 else 2) + (slack s - slack s0).
Proof.
  intros c s0 sg ls status E Hg Hn X s.
  pose proof (run_inv2 c s0 sg Hg Hn ls s0 (dispatch_inv2 c s0 sg E)) as [M R W B].
  fold s in B. unfold s in *. rewrite X in B. simpl in B. destruct B as [_ [_ O]].
  unfold own, budget in O. unfold own in O. lia.
Qed.

(* whenever the master is about to send a SIGKILL, graceful_timeout has passed since the dispatch of the signal *)
Theorem kill_not_before_limit : forall c s0 sg ls p l k,
  cur s0 = PDispatch sg -> 0 <= grace c -> 0 <= nap ->
  cur (run c s0 ls) = PKill (p :: l) SIGKILL k ->
  wall s0 + grace c <= wall (run c s0 ls).
Proof.
  intros c s0 sg ls p l k E Hg Hn X.
  pose proof (run_inv2 c s0 sg Hg Hn ls s0 (dispatch_inv2 c s0 sg E)) as [M R W B].
  rewrite X in B. simpl in B. destruct k.
  - destruct B as [_ [_ [_ [_ [Q|Q]]]]]; exfalso; destruct sig_distinct as [A1 A2]; congruence.
  - destruct B as [_ [_ [_ [[Q|Q] Wl]]]]; [discriminate|lia].
Qed.

(* ================================================================================================ *)
(* 3. exit status                                                                                   *)
(* ================================================================================================ *)

Definition aok (a : after) : Prop := a = AHalt \/ a = AExit 0.
Definition pc_status (p : pc) : Prop :=
  match p with
  | PSnap _ k | PKill _ _ k => aok (kcont_after k)
  | PWait _ a | PNap _ a => aok a
  | PExited status => status = 0
  | PCrashed => False
  | PDispatch _ => True
  end.
Definition Inv3 (s : st) : Prop :=
  (forall k, In k (kids s) -> boot_code (k_status k) = false) /\ pc_status (cur s).

Lemma boot_code_kill : boot_code SIGKILL = false.
Proof. vm_compute. reflexivity. Qed.

Lemma enter_stop_inv3 : forall c s g, (forall k, In k (kids s) -> boot_code (k_status k) = false) ->
  Inv3 (enter_stop c s g (AExit 0)) /\ Inv3 (enter_stop c s g AHalt).
Proof. intros c s g K. unfold Inv3, enter_stop, close_listeners. simpl. repeat split; auto; unfold aok; auto. Qed.

Lemma kill_next_inv3 : forall c s l sg k, (forall x, In x (kids s) -> boot_code (k_status x) = false) -> aok (kcont_after k) ->
  Inv3 (kill_next c s l sg k).
Proof.
  intros c s l sg k K A. unfold kill_next. destruct l.
  - destruct k; simpl in *.
    + split; simpl; auto.
    + destruct A as [A|A]; subst a; simpl.
      * apply enter_stop_inv3. simpl; auto.
      * destruct (pidconf c); split; simpl; auto.
  - split; simpl; auto.
Qed.

Lemma master_inv3 : forall c s, Inv3 s -> Inv3 (master c s).
Proof.
  intros c s [K P]. unfold master. destruct (cur s) eqn:E; simpl in P.
  - destruct (sg =? SIGTERM); [apply enter_stop_inv3; auto|].
    destruct ((sg =? SIGINT) || (sg =? SIGQUIT)); [apply enter_stop_inv3; auto|].
    split; auto. rewrite E. exact I.
  - apply kill_next_inv3; auto.
  - destruct todo; [apply kill_next_inv3; auto|].
    apply kill_next_inv3; auto. unfold kill_worker. destruct (kill_in (kids s) z sg) eqn:KI; simpl; auto.
    apply kill_in_some in KI. subst l. intros x Hx. apply in_map_iff in Hx. destruct Hx as [c0 [Hc Hin]]. subst x.
    apply sig_kid_status; auto; apply boot_code_kill.
  - destruct (negb (Nat.eqb (length (ws s)) 0) && (wall s <? limit)); split; simpl; auto.
  - split; simpl; auto.
  - split; auto. rewrite E. auto.
  - contradiction.
Qed.

Lemma reap_no_boot : forall fuel s s' r, (forall k, In k (kids s) -> boot_code (k_status k) = false) ->
  reap fuel s = (s', r) -> r = None /\ (forall k, In k (kids s') -> boot_code (k_status k) = false).
Proof.
  induction fuel; simpl; intros s s' r K H; [inversion H; subst; auto|].
  destruct (first_zombie (kids s)) as [[z rest]|] eqn:F; [|inversion H; subst; auto].
  destruct (first_zombie_spec _ _ _ F) as [Z [l1 [l2 [A B]]]].
  assert (Kz : boot_code (k_status z) = false) by (apply K; rewrite A; apply in_or_app; right; left; auto).
  assert (Kr : forall k, In k rest -> boot_code (k_status k) = false).
  { intros k Hk. apply K. rewrite A. subst rest. apply in_app_or in Hk. apply in_or_app. destruct Hk; [left|right; right]; auto. }
  simpl in H. destruct (reexec s =? k_pid z).
  - eapply IHfuel; [|exact H]. simpl. exact Kr.
  - unfold boot_code in Kz. apply orb_false_iff in Kz. destruct Kz as [K1 K2]. rewrite K1, K2 in H.
    eapply IHfuel; [|exact H]. simpl. exact Kr.
Qed.

Lemma chld_inv3 : forall c s, Inv3 s -> Inv3 (chld c s).
Proof.
  intros c s [K P]. unfold chld. destruct (master_gone (cur s)); [split; auto|].
  destruct (reap (S (length (kids s))) s) as [s1 r] eqn:R.
  destruct (reap_no_boot _ _ _ _ K R) as [Rn K1]. subst r.
  split; auto. rewrite (reap_cur _ _ _ _ R). auto.
Qed.

Theorem exit_status_zero : forall c ls s,
  Inv3 s -> (forall p status, In (Exit p status) ls -> boot_code status = false) ->
  Inv3 (run c s ls).
Proof.
  induction ls as [|l t IH]; simpl; intros s I H; auto.
  apply IH; [|intros; eapply H; eauto].
  destruct l; simpl.
  - apply master_inv3; auto.
  - apply chld_inv3; auto.
  - destruct I as [K P]. split; simpl; auto. intros k Hk. unfold exit_kid in Hk. apply in_map_iff in Hk.
    destruct Hk as [c0 [Hc Hin]]. destruct ((k_pid c0 =? p) && negb (k_zomb c0)); subst k; simpl; auto.
    apply (H p status). left. reflexivity.
  - destruct (0 <=? dt); auto.
Qed.

Corollary graceful_exit_status : forall c s0 sg ls,
  cur s0 = PDispatch sg -> no_boot_failure s0 ls ->
  cur (run c s0 ls) <> PCrashed /\ (forall status, cur (run c s0 ls) = PExited status -> status = 0).
Proof.
  intros c s0 sg ls E [K H].
  assert (I : Inv3 (run c s0 ls)).
  { apply exit_status_zero; auto. split; auto. rewrite E. exact I. }
  destruct I as [_ P]. split.
  - intro Q. rewrite Q in P. exact P.
  - intros status Q. rewrite Q in P. exact P.
Qed.
