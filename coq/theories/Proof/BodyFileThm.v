(* C07 assembled: for both framings, every read program over wsgi.input computes what the same program
   computes over a binary file holding exactly the framed body; the drain leaves the unreader exactly
   at the first byte after the body. *)
From Coq Require Import List NArith ZArith Bool Lia Arith.
From GV Require Import Base.Bytes Base.Scan Base.PyStr Gen.GenParser Model.Parser Spec.IdealBody
     Proof.TakeDrop Proof.BodyIdeal Proof.BodySim Proof.LengthReader Proof.ParserHead Proof.ChunkedSteps
     Proof.ChunkedDecode Proof.ParserRun Proof.ChunkedReader.
Import ListNotations.
Local Open Scope N_scope.

Definition inv_c (c : cfg) : conn -> Prop := inv cr_inv.
Definition alpha_c (c : cfg) : conn -> bytes * term := alpha (cr_alpha c).

Lemma sim_c c : forall n k, inv_c c k -> 0 < n ->
    match reader_read c n k with
    | (inl d, k') => inv_c c k' /\ i_rd n (alpha_c c k) = (inl d, alpha_c c k')
    | (inr e, k') => fst (i_rd n (alpha_c c k)) = inr e
    end.
Proof. exact (sim c cr_inv (cr_alpha c) (cr_sim c)). Qed.
Lemma fuel_ok_c c : forall k, inv_c c k -> (length (fst (alpha_c c k)) < remaining_upper k)%nat.
Proof. exact (fuel_ok cr_inv (cr_alpha c) (cr_fuel_ok c)). Qed.
Lemma final_c c : forall n k k', inv_c c k -> 0 < n -> reader_read c n k = (inl [], k') -> final_of (alpha_c c) k'.
Proof. exact (final c cr_inv (cr_alpha c) cr_inv_chunked (cr_sim c) (cr_fuel_ok c) (cr_init c) (cr_final c)). Qed.

Theorem body_program_is_file : forall c prog k rem after tr,
    inv_c c k -> alpha_c c k = (rem, TEof after tr) -> blen rem <= maxsize ->
    exists b' k' rem',
      run_calls (reader_read c) remaining_upper prog ([], k) = (fst (file_run prog rem), (b', k'), None)
      /\ inv_c c k' /\ alpha_c c k' = (rem', TEof after tr) /\ b' ++ rem' = snd (file_run prog rem).
Proof.
  intros c prog k rem after tr Hinv Ha Hsz.
  pose proof (run_calls_sim conn (reader_read c) remaining_upper (alpha_c c) (inv_c c) (sim_c c) (fuel_ok_c c) prog [] k Hinv) as Hs.
  rewrite Ha in Hs.
  destruct (i_run_calls_is_file prog [] rem after tr Hsz) as (b2 & r2 & H1 & H2). cbn [app] in *.
  rewrite H1 in Hs.
  destruct (run_calls (reader_read c) remaining_upper prog ([], k)) as [[o [b1 s1]] [e|]]; cbn [run_rel] in Hs.
  - destruct Hs as [x Hs]. discriminate.
  - destruct Hs as [Hi Hs]. injection Hs as <- <- Hal. exists b2, s1, r2. auto.
Qed.

Lemma i_drain_none : forall fuel buf rem a tr x,
    drain i_rd i_fuel fuel (buf, (rem, TEof a tr)) = (x, None) -> x = ([], ([], TEof a tr)).
Proof.
  induction fuel as [|fuel IH]; intros buf rem a tr x H; cbn [drain] in H; [discriminate|].
  destruct (i_read_is_file 1024 (Some 8192%Z) buf rem a tr ltac:(lia)) as (b' & r' & H1 & H2).
  unfold body_read in H. rewrite H1 in H. unfold file_read in *. cbn [fst snd getsize] in *.
  change (if (8192 <? 0)%Z then maxsize else Z.to_N 8192) with 8192 in *.
  destruct (takeN 8192 (buf ++ rem)) as [|y d] eqn:Ed.
  - injection H as <-. apply takeN_nil_iff in Ed; [|lia]. rewrite Ed, dropN_nil in H2.
    apply app_eq_nil in H2 as [-> ->]. reflexivity.
  - eapply IH. exact H.
Qed.

Theorem drain_reaches_after : forall c k rem after tr fuel b b'' k'',
    inv_c c k -> alpha_c c k = (rem, TEof after tr) ->
    drain (reader_read c) remaining_upper fuel (b, k) = ((b'', k''), None) ->
    b'' = [] /\ u_abs (c_unreader k'') = after /\ c_trailers k'' = tr /\ NE (c_unreader k'').
Proof.
  intros c k rem after tr fuel b b'' k'' Hinv Ha H.
  pose proof (drain_sim conn (reader_read c) remaining_upper (alpha_c c) (inv_c c) (sim_c c) (fuel_ok_c c) fuel b k Hinv) as Hs.
  pose proof (drain_final conn (reader_read c) remaining_upper (alpha_c c) (inv_c c) (sim_c c) (fuel_ok_c c)
                          (final_of (alpha_c c)) (final_c c) fuel b k b'' k'' Hinv H) as Hf.
  rewrite H in Hs. cbn [drain_rel] in Hs. destruct Hs as [Hi Hs]. rewrite Ha in Hs.
  apply i_drain_none in Hs. injection Hs as -> Hal.
  destruct Hf as (Hne & a2 & tr2 & Q & U & T). rewrite Hal in Q. injection Q as <- <-. auto.
Qed.

(* what the two framings denote *)
Theorem alpha_length : forall c n p tr, NE p ->
    let k := {| c_reader := RLength n; c_unreader := p; c_trailers := tr |} in
    inv_c c k /\ alpha_c c k = (takeN n (u_abs p), TEof (dropN n (u_abs p)) tr).
Proof. intros c n p tr Hne. split; [split; [eexists; reflexivity|exact Hne]|reflexivity]. Qed.

Theorem alpha_chunked : forall c p D after tr, NE p ->
    decodes c (AStart (u_abs p)) D (DStop after tr) ->
    inv_c c (chunked_init p) /\
    alpha_c c (chunked_init p) = (D, TEof after (match tr with Some t => t | None => [] end)).
Proof.
  intros c p D after tr Hne Hd. destruct (cr_init c p Hne) as [Hi _]. split; [exact Hi|].
  unfold alpha_c, alpha, chunked_init, cr_alpha. cbn [c_reader c_unreader c_trailers cactive cg cbuf].
  destruct (gen_run_total c GStart p Hne I) as (D1 & T1 & H1). rewrite H1.
  destruct (gen_run_sound c _ GStart p D1 T1 Hne I H1) as [S1 _]. cbn [abs_g] in S1.
  destruct (decodes_fun c _ _ _ S1 _ _ Hd) as [-> HT]. cbn [app]. f_equal.
  destruct T1 as [q1 t1|e1]; cbn [dconv tconv] in *; [injection HT as <- <-; reflexivity|discriminate HT].
Qed.

(* a malformed or truncated chunked body never looks like a clean end of file: some read raises *)
Theorem alpha_chunked_err : forall c p D e, NE p ->
    decodes c (AStart (u_abs p)) D (DRaise e) ->
    alpha_c c (chunked_init p) = (D, TErr e).
Proof.
  intros c p D e Hne Hd.
  unfold alpha_c, alpha, chunked_init, cr_alpha. cbn [c_reader c_unreader c_trailers cactive cg cbuf].
  destruct (gen_run_total c GStart p Hne I) as (D1 & T1 & H1). rewrite H1.
  destruct (gen_run_sound c _ GStart p D1 T1 Hne I H1) as [S1 _]. cbn [abs_g] in S1.
  destruct (decodes_fun c _ _ _ S1 _ _ Hd) as [-> HT]. cbn [app]. f_equal.
  destruct T1 as [q1 t1|e1]; cbn [dconv tconv] in *; [discriminate HT|injection HT as ->; reflexivity].
Qed.
