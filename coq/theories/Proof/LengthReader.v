(* LengthReader behaves like the ideal reader over  takeN len (stream) , ending cleanly with the rest
   of the stream left for the next request - for every segmentation of the stream. *)
From Coq Require Import List NArith ZArith Bool Lia Arith.
From GV Require Import Base.Bytes Base.Scan Base.PyStr Model.Parser Spec.IdealBody Proof.TakeDrop Proof.BodyIdeal.
Import ListNotations.
Local Open Scope N_scope.

Lemma takeN_eq n l : takeN n l = firstn (N.to_nat n) l.
Proof.
  unfold takeN. destruct (N.le_gt_cases n (blen l)) as [H|H].
  - replace (N.min n (blen l)) with n by lia. reflexivity.
  - replace (N.min n (blen l)) with (blen l) by lia. unfold blen in *. rewrite Nat2N.id, firstn_all.
    symmetry. apply firstn_all2. lia.
Qed.
Lemma dropN_eq n l : dropN n l = skipn (N.to_nat n) l.
Proof.
  unfold dropN. destruct (N.le_gt_cases n (blen l)) as [H|H].
  - replace (N.min n (blen l)) with n by lia. reflexivity.
  - replace (N.min n (blen l)) with (blen l) by lia. unfold blen in *. rewrite Nat2N.id, skipn_all.
    symmetry. apply skipn_all2. lia.
Qed.
Lemma takeN_dropN_swap a b l : b <= a -> takeN (a - b) (dropN b l) = dropN b (takeN a l).
Proof.
  intros H. rewrite !takeN_eq, !dropN_eq. rewrite firstn_skipn_comm. f_equal. f_equal. lia.
Qed.

Lemma lr_fill_spec : forall p size buf buf' p',
    NE p -> lr_fill size buf p = (buf', p') ->
    buf' ++ concat p' = buf ++ concat p /\ NE p' /\ (size <= blen buf' \/ p' = []).
Proof.
  induction p as [|ch t IH]; intros size buf buf' p' Hne H; cbn [lr_fill] in H.
  - injection H as <- <-. cbn. rewrite app_nil_r. repeat split; auto.
  - destruct (size <=? blen (buf ++ ch)) eqn:E.
    + injection H as <- <-. apply N.leb_le in E. cbn [concat]. rewrite app_assoc. repeat split; auto. eapply NE_tl; exact Hne.
    + apply IH in H; [|eapply NE_tl; exact Hne]. destruct H as (H1 & H2 & H3). cbn [concat]. rewrite H1, <- app_assoc. auto.
Qed.

Theorem lr_read_spec : forall n len p d len' p',
    NE p -> 0 < n -> lr_read n len p = (d, len', p') ->
    d = takeN (N.min len n) (concat p) /\ concat p' = dropN (N.min len n) (concat p) /\ len' = len - N.min len n /\ NE p'.
Proof.
  intros n len p d len' p' Hne Hn H. unfold lr_read in H.
  destruct (N.min len n =? 0) eqn:E0.
  - apply N.eqb_eq in E0. injection H as <- <- <-. rewrite E0, takeN_0, dropN_0, N.sub_0_r. auto.
  - apply N.eqb_neq in E0. destruct (lr_fill (N.min len n) [] p) as [buf q] eqn:Ef.
    injection H as <- <- <-. destruct (lr_fill_spec _ _ _ _ _ Hne Ef) as (H1 & H2 & H3). cbn [app] in H1.
    rewrite u_unread_abs. unfold u_abs. rewrite <- H1. split; [|split; [|split; [reflexivity|apply NE_unread; exact H2]]].
    + destruct H3 as [H3| ->]; [rewrite takeN_app_l by exact H3; reflexivity|cbn; rewrite app_nil_r; reflexivity].
    + destruct H3 as [H3| ->]; [rewrite dropN_app_l by exact H3; reflexivity|cbn; rewrite !app_nil_r; reflexivity].
Qed.

(* ---- the instance ------------------------------------------------------------------------------ *)
Definition lr_inv (k : conn) : Prop := (exists len, c_reader k = RLength len) /\ NE (c_unreader k).
Definition lr_alpha (k : conn) : bytes * term :=
  match c_reader k with
  | RLength len => (takeN len (u_abs (c_unreader k)), TEof (dropN len (u_abs (c_unreader k))) (c_trailers k))
  | RChunked _ => ([], TErr EOutOfFuel)
  end.

Theorem lr_sim : forall c n k, lr_inv k -> 0 < n ->
    match reader_read c n k with
    | (inl d, k') => lr_inv k' /\ i_rd n (lr_alpha k) = (inl d, lr_alpha k')
    | (inr e, k') => fst (i_rd n (lr_alpha k)) = inr e
    end.
Proof.
  intros c n k [[len Hr] Hne] Hn. unfold reader_read, lr_alpha. rewrite Hr.
  destruct (lr_read n len (c_unreader k)) as [[d len'] p'] eqn:E.
  destruct (lr_read_spec _ _ _ _ _ _ Hne Hn E) as (Hd & Hp & Hl & Hne').
  split; [split; [eexists; reflexivity|exact Hne']|]. cbn [c_reader c_unreader c_trailers].
  rewrite i_rd_eof. unfold u_abs in *. rewrite Hp, Hd, Hl. f_equal; [f_equal|].
  - rewrite takeN_takeN. f_equal. lia.
  - set (m := N.min len n). f_equal.
    + destruct (N.le_gt_cases n len) as [H|H].
      * replace m with n by lia. symmetry. apply takeN_dropN_swap. exact H.
      * replace m with len by lia. rewrite N.sub_diag, takeN_0. apply dropN_all. rewrite blen_takeN. lia.
    + f_equal. rewrite dropN_dropN. f_equal. lia.
Qed.

Lemma lr_fuel_ok : forall k, lr_inv k -> (length (fst (lr_alpha k)) < remaining_upper k)%nat.
Proof.
  intros k [[len Hr] _]. unfold lr_alpha, remaining_upper. rewrite Hr. cbn [fst].
  pose proof (blen_takeN len (u_abs (c_unreader k))) as H. unfold blen in H. lia.
Qed.
