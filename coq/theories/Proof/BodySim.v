(* Simulation: the Body code over any reader that behaves like the ideal reader (through an
   abstraction function) computes what the Body code over the ideal reader computes. *)
From Coq Require Import List NArith ZArith Bool Lia Arith.
From GV Require Import Base.Bytes Base.Scan Base.PyStr Model.Parser Spec.IdealBody Proof.TakeDrop Proof.BodyIdeal.
Import ListNotations.
Local Open Scope N_scope.

(* fuel independence of readline over the ideal reader *)
Lemma i_rl_fuel : forall f1 f2 blk size data acc rem t,
    0 < blk -> 0 < size -> (length rem < f1)%nat -> (length rem < f2)%nat ->
    readline_loop i_rd blk f1 size data acc (rem, t) = readline_loop i_rd blk f2 size data acc (rem, t).
Proof.
  induction f1 as [|f1 IH]; intros f2 blk size data acc rem t Hb Hs H1 H2; [lia|].
  destruct f2 as [|f2]; [lia|]. cbn [readline_loop].
  destruct (nl_cut size data) eqn:Ec; [|reflexivity].
  set (m := N.min blk (size - blen data)).
  assert (Hsz : blen data < size).
  { unfold nl_cut in Ec. destruct (find_char 10 (takeN size data)); [discriminate|].
    destruct (size <=? blen data) eqn:El; [apply N.leb_le in El; lia|apply N.leb_gt in El; exact El]. }
  assert (Hm : 0 < m) by (unfold m; lia).
  assert (Hstep : forall d, d = takeN m rem ->
     match d with [] => ((acc ++ data, ([], (dropN m rem, t))), None)
               | _ => readline_loop i_rd blk f1 (size - blen data) d (acc ++ data) (dropN m rem, t) end =
     match d with [] => ((acc ++ data, ([], (dropN m rem, t))), None)
               | _ => readline_loop i_rd blk f2 (size - blen data) d (acc ++ data) (dropN m rem, t) end).
  { intros d Hd. destruct d as [|x d]; [reflexivity|].
    assert (Hne : rem <> []) by (intros ->; rewrite takeN_nil in Hd; discriminate).
    pose proof (length_dropN_lt m rem Hm Hne). apply IH; [exact Hb|lia|lia|lia]. }
  unfold i_rd at 1 3. cbn [fst snd]. destruct t as [a tr|e].
  - apply Hstep. reflexivity.
  - destruct (m <=? blen rem); [apply Hstep; reflexivity|reflexivity].
Qed.

Lemma i_read_shrinks : forall blk size buf rem t d buf' rem' t',
    0 < blk -> body_read_blk i_rd i_fuel blk size (buf, (rem, t)) = (inl d, (buf', (rem', t'))) ->
    t' = t /\ d ++ buf' ++ rem' = buf ++ rem.
Proof.
  intros blk size buf rem t d buf' rem' t' Hb H. unfold body_read_blk in H. cbn [fst snd] in H.
  destruct (getsize size =? 0); [injection H as <- <- <- <-; auto|].
  destruct (getsize size <? blen buf).
  - injection H as <- <- <- <-. split; [reflexivity|]. rewrite app_assoc, takeN_dropN. reflexivity.
  - assert (Hgen : forall fuel sz b r bb rr tt err, body_fill i_rd blk fuel sz b (r, t) = ((bb, (rr, tt)), err) -> tt = t /\ bb ++ rr = b ++ r).
    { induction fuel as [|fuel IH]; intros sz b r bb rr tt err Hf; cbn [body_fill] in Hf.
      - injection Hf as <- <- <- <-. auto.
      - destruct (sz <=? blen b); [injection Hf as <- <- <- <-; auto|].
        unfold i_rd in Hf. cbn [fst snd] in Hf.
        assert (Hs : forall dd, dd = takeN blk r ->
                 match dd with [] => ((b, (dropN blk r, t)), None) | _ => body_fill i_rd blk fuel sz (b ++ dd) (dropN blk r, t) end = ((bb, (rr, tt)), err) ->
                 tt = t /\ bb ++ rr = b ++ r).
        { intros dd Hdd Hm. destruct dd as [|x dd].
          - injection Hm as <- <- <- <-. split; [reflexivity|]. symmetry in Hdd. apply takeN_nil_iff in Hdd; [|exact Hb]. subst r. rewrite dropN_nil. reflexivity.
          - apply IH in Hm as [-> Hm]. split; [reflexivity|]. rewrite Hm, <- app_assoc, Hdd, takeN_dropN. reflexivity. }
        destruct t as [a tr|e].
        + eapply Hs; [reflexivity|exact Hf].
        + destruct (blk <=? blen r); [eapply Hs; [reflexivity|exact Hf]|]. injection Hf as <- <- <- <-. auto. }
    destruct (body_fill i_rd blk (i_fuel (rem, t)) (getsize size) buf (rem, t)) as [[bb [rr tt]] [e|]] eqn:Ef; [discriminate H|].
    injection H as <- <- <- <-. apply Hgen in Ef as [-> Ef]. split; [reflexivity|].
    rewrite app_assoc, takeN_dropN. exact Ef.
Qed.

Lemma i_drain_fuel : forall f1 f2 buf rem t,
    (length (buf ++ rem) < f1)%nat -> (length (buf ++ rem) < f2)%nat ->
    drain i_rd i_fuel f1 (buf, (rem, t)) = drain i_rd i_fuel f2 (buf, (rem, t)).
Proof.
  induction f1 as [|f1 IH]; intros f2 buf rem t H1 H2; [lia|]. destruct f2 as [|f2]; [lia|]. cbn [drain].
  unfold body_read.
  destruct (body_read_blk i_rd i_fuel 1024 (Some 8192%Z) (buf, (rem, t))) as [[d|e] [b' [r' t']]] eqn:E; [|reflexivity].
  destruct d as [|x d]; [reflexivity|].
  destruct (i_read_shrinks 1024 _ _ _ _ _ _ _ _ ltac:(lia) E) as [-> Hs].
  assert (length (b' ++ r') < length (buf ++ rem))%nat.
  { rewrite <- Hs. rewrite (app_length (x :: d)). cbn [length]. lia. }
  apply IH; lia.
Qed.

Section Sim.
  Variable S1 : Type.
  Variable rd1 : N -> S1 -> (bytes + perr) * S1.
  Variable f1 : S1 -> nat.
  Variable alpha : S1 -> bytes * term.
  Variable Inv : S1 -> Prop.
  Hypothesis sim : forall n s, Inv s -> 0 < n ->
      match rd1 n s with
      | (inl d, s') => Inv s' /\ i_rd n (alpha s) = (inl d, alpha s')
      | (inr e, s') => fst (i_rd n (alpha s)) = inr e
      end.
  Hypothesis fuel_ok : forall s, Inv s -> (length (fst (alpha s)) < f1 s)%nat.

  Definition fill_rel (r1 : (bytes * S1) * option perr) (r2 : (bytes * (bytes * term)) * option perr) : Prop :=
    match r1 with
    | ((b, s'), None) => Inv s' /\ r2 = ((b, alpha s'), None)
    | ((b, s'), Some e) => exists s2, r2 = ((b, s2), Some e)
    end.

  Lemma fill_sim : forall fuel blk size buf s, Inv s -> 0 < blk ->
      fill_rel (body_fill rd1 blk fuel size buf s) (body_fill i_rd blk fuel size buf (alpha s)).
  Proof.
    induction fuel as [|fuel IH]; intros blk size buf s Hinv Hb; cbn [body_fill fill_rel].
    - eauto.
    - destruct (size <=? blen buf); [cbn; auto|].
      pose proof (sim blk s Hinv Hb) as Hs. destruct (rd1 blk s) as [[d|e] s1].
      + destruct Hs as [Hinv1 Hs]. rewrite Hs. destruct d as [|x d]; [cbn; auto|]. apply IH; assumption.
      + destruct (i_rd blk (alpha s)) as [r2 s2]. cbn [fst] in Hs. subst r2. cbn. eauto.
  Qed.

  (* results of one Body operation: equal data / equal exception; on success the states correspond *)
  Definition res_rel (r1 : (bytes + perr) * (bytes * S1)) (r2 : (bytes + perr) * (bytes * (bytes * term))) : Prop :=
    match r1 with
    | (inl d, (b, s')) => Inv s' /\ r2 = (inl d, (b, alpha s'))
    | (inr e, _) => fst r2 = inr e
    end.

  Lemma read_sim : forall blk size b s, Inv s -> 0 < blk ->
      res_rel (body_read_blk rd1 f1 blk size (b, s)) (body_read_blk i_rd i_fuel blk size (b, alpha s)).
  Proof.
    intros blk size b s Hinv Hb. unfold body_read_blk. cbn [fst snd].
    destruct (getsize size =? 0); [cbn; auto|].
    destruct (getsize size <? blen b); [cbn; auto|].
    pose proof (fill_sim (f1 s) blk (getsize size) b s Hinv Hb) as Hf.
    destruct (alpha s) as [rem t] eqn:Ea.
    rewrite (i_fill_fuel (i_fuel (rem, t)) (f1 s) blk (getsize size) b rem t Hb) by
        (try (unfold i_fuel; cbn; lia); pose proof (fuel_ok s Hinv) as Hk; rewrite Ea in Hk; exact Hk).
    destruct (body_fill rd1 blk (f1 s) (getsize size) b s) as [[b1 s1] [e|]]; cbn [fill_rel] in Hf.
    - destruct Hf as [s2 ->]. reflexivity.
    - destruct Hf as [Hi ->]. cbn. auto.
  Qed.

  Definition rl_rel (r1 : (bytes * (bytes * S1)) * option perr) (r2 : (bytes * (bytes * (bytes * term))) * option perr) : Prop :=
    match r1 with
    | ((o, (b, s')), None) => Inv s' /\ r2 = ((o, (b, alpha s')), None)
    | ((o, _), Some e) => exists x, r2 = (x, Some e)
    end.
  Lemma rl_sim : forall fuel blk size data acc s, Inv s -> 0 < blk -> 0 < size ->
      rl_rel (readline_loop rd1 blk fuel size data acc s) (readline_loop i_rd blk fuel size data acc (alpha s)).
  Proof.
    induction fuel as [|fuel IH]; intros blk size data acc s Hinv Hb Hs; cbn [readline_loop rl_rel].
    - eauto.
    - destruct (nl_cut size data) eqn:Ec; [|cbn; auto].
      assert (Hsz : blen data < size).
      { unfold nl_cut in Ec. destruct (find_char 10 (takeN size data)); [discriminate|].
        destruct (size <=? blen data) eqn:El; [apply N.leb_le in El; lia|apply N.leb_gt in El; exact El]. }
      assert (Hm : 0 < N.min blk (size - blen data)) by lia.
      pose proof (sim _ s Hinv Hm) as Hsim. destruct (rd1 (N.min blk (size - blen data)) s) as [[d|e] s1].
      + destruct Hsim as [Hinv1 Hsim]. rewrite Hsim. destruct d as [|x d]; [cbn; auto|]. apply IH; [assumption|assumption|lia].
      + destruct (i_rd _ (alpha s)) as [r2 s2]. cbn [fst] in Hsim. subst r2. cbn. eauto.
  Qed.

  Lemma readline_sim : forall blk size b s, Inv s -> 0 < blk ->
      res_rel (body_readline_blk rd1 f1 blk size (b, s)) (body_readline_blk i_rd i_fuel blk size (b, alpha s)).
  Proof.
    intros blk size b s Hinv Hb. unfold body_readline_blk. cbn [fst snd].
    destruct (getsize size =? 0) eqn:E0; [cbn; auto|]. apply N.eqb_neq in E0.
    pose proof (rl_sim (f1 s) blk (getsize size) b [] s Hinv Hb ltac:(lia)) as Hf.
    destruct (alpha s) as [rem t] eqn:Ea.
    rewrite (i_rl_fuel (i_fuel (rem, t)) (f1 s) blk (getsize size) b [] rem t Hb ltac:(lia)) by
        (try (unfold i_fuel; cbn; lia); pose proof (fuel_ok s Hinv) as Hk; rewrite Ea in Hk; exact Hk).
    destruct (readline_loop rd1 blk (f1 s) (getsize size) b [] s) as [[o [b1 s1]] [e|]]; cbn [rl_rel] in Hf.
    - destruct Hf as [[x1 x2] ->]. reflexivity.
    - destruct Hf as [Hi ->]. cbn. auto.
  Qed.

  Definition call_rel (r1 : callres * (bytes * S1)) (r2 : callres * (bytes * (bytes * term))) : Prop :=
    match r1 with
    | (RExc e, _) => fst r2 = RExc e
    | (r, (b, s')) => Inv s' /\ r2 = (r, (b, alpha s'))
    end.
  Lemma do_call_sim : forall cl b s, Inv s ->
      call_rel (do_call rd1 f1 cl (b, s)) (do_call i_rd i_fuel cl (b, alpha s)).
  Proof.
    intros cl b s Hinv. destruct cl as [sz|sz| |]; cbn [do_call].
    - pose proof (read_sim 1024 sz b s Hinv ltac:(lia)) as H. unfold body_read.
      destruct (body_read_blk rd1 f1 1024 sz (b, s)) as [[d|e] [b1 s1]]; cbn [res_rel] in H.
      + destruct H as [Hi ->]. cbn. auto.
      + destruct (body_read_blk i_rd i_fuel 1024 sz (b, alpha s)) as [r2 x]. cbn [fst] in H. subst r2. reflexivity.
    - pose proof (readline_sim 1024 sz b s Hinv ltac:(lia)) as H. unfold body_readline.
      destruct (body_readline_blk rd1 f1 1024 sz (b, s)) as [[d|e] [b1 s1]]; cbn [res_rel] in H.
      + destruct H as [Hi ->]. cbn. auto.
      + destruct (body_readline_blk i_rd i_fuel 1024 sz (b, alpha s)) as [r2 x]. cbn [fst] in H. subst r2. reflexivity.
    - pose proof (read_sim 1024 None b s Hinv ltac:(lia)) as H. unfold body_read.
      destruct (body_read_blk rd1 f1 1024 None (b, s)) as [[d|e] [b1 s1]]; cbn [res_rel] in H.
      + destruct H as [Hi ->]. cbn. auto.
      + destruct (body_read_blk i_rd i_fuel 1024 None (b, alpha s)) as [r2 x]. cbn [fst] in H. subst r2. reflexivity.
    - pose proof (readline_sim 1024 None b s Hinv ltac:(lia)) as H. unfold body_readline.
      destruct (body_readline_blk rd1 f1 1024 None (b, s)) as [[d|e] [b1 s1]]; cbn [res_rel] in H.
      + destruct H as [Hi ->]. destruct d; cbn; auto.
      + destruct (body_readline_blk i_rd i_fuel 1024 None (b, alpha s)) as [r2 x]. cbn [fst] in H. subst r2. reflexivity.
  Qed.

  (* whole read programs: same output; on completion without exception the states correspond *)
  Definition run_rel (r1 : list Z * (bytes * S1) * option perr) (r2 : list Z * (bytes * (bytes * term)) * option perr) : Prop :=
    match r1 with
    | (o, (b, s'), None) => Inv s' /\ r2 = (o, (b, alpha s'), None)
    | (o, _, Some e) => exists x, r2 = (o, x, Some e)
    end.
  Lemma run_calls_sim : forall prog b s, Inv s ->
      run_rel (run_calls rd1 f1 prog (b, s)) (run_calls i_rd i_fuel prog (b, alpha s)).
  Proof.
    induction prog as [|cl t IH]; intros b s Hinv; cbn [run_calls run_rel]; [auto|].
    pose proof (do_call_sim cl b s Hinv) as H.
    destruct (do_call rd1 f1 cl (b, s)) as [r [b1 s1]].
    destruct r as [d|l| |e]; cbn [call_rel] in H;
      try (destruct H as [Hi ->]; specialize (IH b1 s1 Hi);
           destruct (run_calls rd1 f1 t (b1, s1)) as [[o [b2 s2]] [e|]]; cbn [run_rel] in IH;
           [destruct IH as [x ->]; cbn; eauto | destruct IH as [Hi2 ->]; cbn; auto]).
    destruct (do_call i_rd i_fuel cl (b, alpha s)) as [r2 x]. cbn [fst] in H. subst r2. cbn. eauto.
  Qed.

  Definition drain_rel (r1 : (bytes * S1) * option perr) (r2 : (bytes * (bytes * term)) * option perr) : Prop :=
    match r1 with
    | ((b, s'), None) => Inv s' /\ r2 = ((b, alpha s'), None)
    | (_, Some e) => snd r2 = Some e
    end.
  Lemma drain_sim : forall fuel b s, Inv s ->
      drain_rel (drain rd1 f1 fuel (b, s)) (drain i_rd i_fuel fuel (b, alpha s)).
  Proof.
    induction fuel as [|fuel IH]; intros b s Hinv; cbn [drain drain_rel]; [reflexivity|].
    pose proof (read_sim 1024 (Some 8192%Z) b s Hinv ltac:(lia)) as H. unfold body_read.
    destruct (body_read_blk rd1 f1 1024 (Some 8192%Z) (b, s)) as [[d|e] [b1 s1]]; cbn [res_rel] in H.
    - destruct H as [Hi ->]. destruct d as [|x d]; [cbn; auto|]. apply IH. exact Hi.
    - destruct (body_read_blk i_rd i_fuel 1024 (Some 8192%Z) (b, alpha s)) as [r2 x]. cbn [fst] in H. subst r2. reflexivity.
  Qed.

  (* a read that returned b"" leaves the reader in a state where its end has been observed *)
  Variable Final : S1 -> Prop.
  Hypothesis rd_nil_final : forall n s s', Inv s -> 0 < n -> rd1 n s = (inl [], s') -> Final s'.

  Lemma fill_nil_final : forall fuel blk size s b' s',
      Inv s -> 0 < blk -> 0 < size ->
      body_fill rd1 blk fuel size [] s = ((b', s'), None) -> b' = [] -> Final s'.
  Proof.
    intros fuel blk size s b' s' Hinv Hb Hs H Hnil. destruct fuel as [|fuel]; cbn [body_fill] in H; [discriminate|].
    replace (size <=? blen []) with false in H by (symmetry; apply N.leb_gt; cbn; lia).
    destruct (rd1 blk s) as [[d|e] s1] eqn:Er; [|discriminate].
    destruct d as [|x d].
    - injection H as <- <-. exact (rd_nil_final blk s s1 Hinv Hb Er).
    - exfalso. subst b'.
      assert (Hgrow : forall f sz b s0 bb ss err, body_fill rd1 blk f sz b s0 = ((bb, ss), err) -> (length b <= length bb)%nat).
      { induction f as [|f IHf]; intros sz b s0 bb ss err Hf; cbn [body_fill] in Hf; [injection Hf as <- <- <-; lia|].
        destruct (sz <=? blen b); [injection Hf as <- <- <-; lia|].
        destruct (rd1 blk s0) as [[dd|ee] s2]; [|injection Hf as <- <- <-; lia].
        destruct dd; [injection Hf as <- <- <-; lia|]. apply IHf in Hf. rewrite app_length in Hf. lia. }
      apply Hgrow in H. cbn in H. lia.
  Qed.

  Lemma read_nil_final : forall blk size b s b' s',
      Inv s -> 0 < blk -> 0 < getsize size ->
      body_read_blk rd1 f1 blk size (b, s) = (inl [], (b', s')) -> Final s'.
  Proof.
    intros blk size b s b' s' Hinv Hb Hs H. unfold body_read_blk in H. cbn [fst snd] in H.
    replace (getsize size =? 0) with false in H by (symmetry; apply N.eqb_neq; lia).
    destruct (getsize size <? blen b) eqn:El.
    - apply N.ltb_lt in El. exfalso. injection H as H _ _. apply (f_equal blen) in H. rewrite blen_takeN in H. change (blen []) with 0 in H. lia.
    - apply N.ltb_ge in El.
      destruct (body_fill rd1 blk (f1 s) (getsize size) b s) as [[bb ss] [e|]] eqn:Ef; [discriminate|].
      injection H as H <- <-.
      assert (Hbb : bb = []).
      { apply (f_equal blen) in H. rewrite blen_takeN in H. change (blen []) with 0 in H. apply blen_zero. lia. }
      assert (Hb0 : b = []).
      { assert (Hgrow : forall f sz b0 s0 bb0 ss0 err, body_fill rd1 blk f sz b0 s0 = ((bb0, ss0), err) -> (length b0 <= length bb0)%nat).
        { induction f as [|f IHf]; intros sz b0 s0 bb0 ss0 err Hf; cbn [body_fill] in Hf; [injection Hf as <- <- <-; lia|].
          destruct (sz <=? blen b0); [injection Hf as <- <- <-; lia|].
          destruct (rd1 blk s0) as [[dd|ee] s2]; [|injection Hf as <- <- <-; lia].
          destruct dd; [injection Hf as <- <- <-; lia|]. apply IHf in Hf. rewrite app_length in Hf. lia. }
        apply Hgrow in Ef. subst bb. destruct b; [reflexivity|cbn in Ef; lia]. }
      subst b. eapply (fill_nil_final (f1 s) blk (getsize size) s bb); [exact Hinv|exact Hb|exact Hs|exact Ef|exact Hbb].
  Qed.

  Lemma drain_final : forall fuel b s b' s', Inv s ->
      drain rd1 f1 fuel (b, s) = ((b', s'), None) -> Final s'.
  Proof.
    induction fuel as [|fuel IH]; intros b s b' s' Hinv H; cbn [drain] in H; [discriminate|].
    pose proof (read_sim 1024 (Some 8192%Z) b s Hinv ltac:(lia)) as Hr. unfold body_read in H.
    destruct (body_read_blk rd1 f1 1024 (Some 8192%Z) (b, s)) as [[d|e] [b1 s1]] eqn:E; [|discriminate].
    cbn [res_rel] in Hr. destruct Hr as [Hi _]. destruct d as [|x d].
    - injection H as <- <-. eapply read_nil_final; [exact Hinv| | |exact E]; cbn; lia.
    - eapply IH; eassumption.
  Qed.
End Sim.
