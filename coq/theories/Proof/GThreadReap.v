(* The keep-alive reaper runs in EVERY iteration of the thread worker's main loop - also in one whose select() returned
   events: from poller.select with any admissible event list that does not concern the oldest idle connection, the main
   thread alone reaches futures.wait with that connection still at the head of _keep, and the reaper then closes it. *)
From Coq Require Import List ZArith Bool Arith Lia.
From GV Require Import Base.Enc Model.GThread Proof.GThreadProofs.
Import ListNotations.
Local Open Scope Z_scope.

Definition head_kept (c:nat) (s:state) : Prop := exists rest, keep s = c :: rest.
Definition tmo_is (c:nat) (t:Z) (s:state) : Prop := exists x, getc s c = Some x /\ tmo x = t.

Lemma remove1_head_other : forall c c' rest, c' <> c -> remove1 c' (c :: rest) = c :: remove1 c' rest.
Proof. intros. simpl. destruct (Nat.eqb_spec c' c); congruence. Qed.

Lemma tmo_is_updc_st : forall c h v t s, tmo_is c t s -> tmo_is c t (updc h (set_st v) s).
Proof.
  intros c h v t s [x [Hx Ht]]. unfold tmo_is. rewrite getc_updc. destruct (Nat.eqb_spec h c).
  - subst h. rewrite Hx. simpl. eexists. split. reflexivity. exact Ht.
  - eauto.
Qed.

(* the callbacks of one select() round, none of them for connection c: the loop arrives at futures.wait, c still first in _keep *)
Lemma quiet_events_keep_head : forall g c t evs s, Inv g s -> mpc s = dispatch evs -> ev_nodup evs = true ->
  ~ In (EvRd c) evs -> (forall c', In (EvRd c') evs -> In c' (regd s)) -> head_kept c s -> tmo_is c t s ->
  exists n s', run g s (repeat m_ n) = Some s' /\ mpc s' = MWait /\ head_kept c s' /\ tmo_is c t s'
               /\ orphan s' = orphan s /\ clock s' = clock s.
Proof.
  induction evs as [|e r IH]; intros s HI Hpc Hnd Hno Hreg Hk Ht.
  - exists 0%nat, s. simpl. repeat split; auto.
  - simpl in Hnd. apply andb_true_iff in Hnd. destruct Hnd as [Hnm Hnd]. apply negb_true_iff in Hnm.
    assert (Hno' : ~ In (EvRd c) r) by (intro; apply Hno; right; auto).
    destruct e as [l|c'].
    + (* an accept event *)
      simpl in Hpc.
      assert (Hreg' : forall c', In (EvRd c') r -> In c' (regd s)) by (intros; apply Hreg; right; auto).
      destruct (backlog s) as [|h b] eqn:Hb.
      * assert (S1 : main_step g s [] false = Some (set_mpc (dispatch r) s)).
        { unfold main_step. rewrite Hpc, Hb. reflexivity. }
        destruct (IH (set_mpc (dispatch r) s)) as [n [s' [R [M [K [T [O C]]]]]]]; auto.
        -- apply (step_inv g s m_). auto. exact S1.
        -- exists (S n), s'. split.
           change (repeat m_ (S n)) with (m_ :: repeat m_ n). rewrite run_m, S1. exact R.
           repeat split; auto.
      * assert (Hh : stl (conns s) h = Some CPending).
        { unfold Inv in HI. apply (i_backlog _ _ _ _ _ _ _ _ HI). rewrite Hb. left; auto. }
        assert (Hhr : mem h (regd s) = false).
        { apply mem_false. intro Hm. unfold Inv in HI. apply (i_regd _ _ _ _ _ _ _ _ HI) in Hm. rewrite Hh in Hm.
          destruct Hm as [?|[?|?]]; discriminate. }
        set (s1 := set_mpc (MAccReg h r) (set_nr (nr_conns s + 1) (set_backlog b (updc h (set_st CNew) s)))).
        assert (S1 : main_step g s [] false = Some s1).
        { unfold main_step. rewrite Hpc, Hb. reflexivity. }
        set (s2 := set_mpc (dispatch r) (set_regd (regd s1 ++ [h]) s1)).
        assert (S2 : main_step g s1 [] false = Some s2).
        { unfold main_step. simpl mpc. cbv iota. simpl regd. rewrite Hhr. reflexivity. }
        assert (I1 : Inv g s1) by (apply (step_inv g s m_); auto).
        assert (I2 : Inv g s2) by (apply (step_inv g s1 m_); auto).
        destruct (IH s2) as [n [s' [R [M [K [T [O C]]]]]]]; auto.
        -- simpl. intros c' H'. apply in_or_app. left. auto.
        -- pose proof (tmo_is_updc_st c h CNew t s Ht) as [x' [Hx' Ht']]. exists x'. split; auto.
        -- exists (S (S n)), s'. split.
           change (repeat m_ (S (S n))) with (m_ :: m_ :: repeat m_ n). rewrite (run_two _ _ _ _ _ S1 S2). exact R.
           repeat split; auto.
    + (* a readable event of another connection *)
      simpl in Hpc.
      assert (Hne : c' <> c) by (intro; subst c'; apply Hno; left; reflexivity).
      assert (Hr' : In c' (regd s)) by (apply Hreg; left; auto).
      assert (Hm : mem c' (regd s) = true) by (apply mem_In; auto).
      destruct (main_step g s [] false) as [s1|] eqn:S1.
      2:{ exfalso. unfold main_step in S1. rewrite Hpc in S1. unfold rd_step in S1. rewrite Hm in S1. simpl in S1.
          destruct (getc s c'); try discriminate. destruct (inited c0 && negb (mem c' (keep s))); discriminate. }
      assert (I1 : Inv g s1) by (apply (step_inv g s m_); auto).
      assert (P1 : mpc s1 = dispatch r /\ head_kept c s1 /\ tmo_is c t s1 /\ orphan s1 = orphan s /\ clock s1 = clock s
                   /\ (forall k, k <> c' -> In k (regd s) -> In k (regd s1))).
      { unfold main_step in S1. rewrite Hpc in S1. unfold rd_step in S1. rewrite Hm in S1. simpl negb in S1. cbv iota in S1.
        assert (Hx' : getc s c' <> None).
        { unfold Inv in HI. apply (i_regd _ _ _ _ _ _ _ _ HI) in Hr'. unfold stl, getc in *.
          destruct (nth_error (conns s) c'); try congruence. destruct Hr' as [?|[?|?]]; discriminate. }
        destruct (getc s c') as [x1|] eqn:Hx1; try congruence.
        destruct Hk as [rest Hk]. destruct Ht as [x [Hx Htx]].
        destruct (inited x1 && negb (mem c' (keep s))).
        - inv_some. simpl. split; auto. split. exists rest; exact Hk. split. exists x; auto.
          split; auto. split; auto. intros; apply remove1_other; auto.
        - inv_some. destruct (inited x1); simpl.
          + split; auto. split. exists (remove1 c' rest). rewrite Hk. apply remove1_head_other; auto.
            split. exists x. split; auto. unfold getc in *. simpl. rewrite nth_upd_ne; auto.
            split; auto. split; auto. intros; apply remove1_other; auto.
          + split; auto. split. exists rest; exact Hk.
            split. exists x. split; auto. unfold getc in *. simpl. rewrite nth_upd_ne; auto.
            split; auto. split; auto. intros; apply remove1_other; auto. }
      destruct P1 as [M1 [K1 [T1 [O1 [C1 RR]]]]].
      destruct (IH s1) as [n [s' [R [M [K [T [O C]]]]]]]; auto.
      * intros k Hk'. apply RR. intro; subst k. apply ev_mem_rd in Hk'. congruence. apply Hreg. right; auto.
      * exists (S n), s'. split.
        change (repeat m_ (S n)) with (m_ :: repeat m_ n). rewrite run_m, S1. exact R.
        repeat split; auto; congruence.
Qed.

(* Busy or not, one iteration closes the oldest idle connection once its keep-alive time has passed. *)
Theorem busy_iteration_reaps : forall g s evs c, reachable g s -> mpc s = MSel -> evs_ok g s evs = true ->
  ~ In (EvRd c) evs -> orphan s = false -> head_kept c s ->
  (exists x, getc s c = Some x /\ tmo x <= clock s) ->
  exists n s', run g s (LMain evs false :: repeat m_ n) = Some s' /\ exists x', getc s' c = Some x' /\ st x' = CClosed.
Proof.
  intros g s evs c R Hpc Hok Hno Hor Hk [x [Hx Hle]]. pose proof (reachable_inv _ _ R) as HI.
  assert (S0 : step g s (LMain evs false) = Some (set_mpc (dispatch evs) s)).
  { simpl. unfold main_step. rewrite Hpc, Hok. reflexivity. }
  pose proof Hok as Hok'. unfold evs_ok in Hok'. apply andb_true_iff in Hok'. destruct Hok' as [Hall Hnd].
  destruct (quiet_events_keep_head g c (tmo x) evs (set_mpc (dispatch evs) s)) as [n [s1 [Rn [M [[rest K] [[x1 [Hx1 T1]] [O C]]]]]]]; auto.
  - apply (step_inv g s (LMain evs false)); auto.
  - intros c' H'. rewrite forallb_forall in Hall. apply Hall in H'. simpl in H'. apply mem_In. auto.
  - exists x. auto.
  - simpl in O, C.
    destruct (keepalive_expires g s1 c [] rest) as [s' [R' X]]; auto.
    + congruence.
    + intros k [E|[]]. subst k. exists x1. split; auto. lia.
    + assert (R0 : run g s (LMain evs false :: repeat m_ n) = Some s1).
      { change (run g s (LMain evs false :: repeat m_ n))
          with (obind (step g s (LMain evs false)) (fun s0 => run g s0 (repeat m_ n))).
        rewrite S0. exact Rn. }
      exists (n + (1 + 2 * (length (@nil nat) + 1)))%nat, s'. split; auto.
      rewrite repeat_app.
      change (LMain evs false :: repeat m_ n ++ repeat m_ (1 + 2 * (length (@nil nat) + 1)))
        with ((LMain evs false :: repeat m_ n) ++ repeat m_ (1 + 2 * (length (@nil nat) + 1))).
      rewrite run_app, R0. exact R'.
Qed.
