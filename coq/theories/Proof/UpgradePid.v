(* C14 - the pid files: every live master holds the file it names, nobody touches the file of a live master *)
From Coq Require Import List ZArith Bool Lia.
From GV Require Import Gen.GenUpgrade Model.Upgrade Proof.UpgradeInv.
Import ListNotations.
Local Open Scope Z_scope.
Local Opaque reload_names_dot2.

Definition holds (s : st) (m : master) : Prop :=
  m_alive m = true ->
  fs_get s (m_pname m) = Some (m_pid m) /\ m_pown m = true /\
  (forall n, fs_get s n = Some (m_pid m) -> n = m_pname m) /\
  (m_pname m = PDot2 -> m_mpid m <> 0).

Record PF (s : st) : Prop := mkPF {
  pf_a : holds s (ma s);
  pf_b : holds s (mb s);
  pf_bound : forall n q, fs_get s n = Some q -> q < next_pid s
}.

Definition pname_eq_dec : forall a b : pname, {a = b} + {a <> b}.
Proof. decide equality. Defined.

(* ---- the little file system ------------------------------------------------------------------------------------------ *)
Lemma fs_get_put_same : forall s n v, fs_get (fs_put s n v) n = v.
Proof. intros. destruct n; reflexivity. Qed.
Lemma fs_get_put_other : forall s n n' v, n' <> n -> fs_get (fs_put s n v) n' = fs_get s n'.
Proof. intros. destruct n, n'; try reflexivity; congruence. Qed.
Lemma fs_get_putm : forall s x m n, fs_get (put s x m) n = fs_get s n.
Proof. intros. destruct x, n; reflexivity. Qed.
Lemma fs_get_set_sock : forall s b n, fs_get (set_sock s b) n = fs_get s n.
Proof. intros. destruct n; reflexivity. Qed.
Lemma fs_get_set_exec : forall s a b n, fs_get (set_exec s a b) n = fs_get s n.
Proof. intros. destruct n; reflexivity. Qed.

Lemma alive_pid_ext : forall s s' p, ma s' = ma s -> mb s' = mb s -> alive_pid s' p = alive_pid s p.
Proof. intros. unfold alive_pid. rewrite H, H0. reflexivity. Qed.

(* a master record whose pid-file fields are unchanged still holds *)
Lemma holds_ext : forall s s' m m', (forall n, fs_get s' n = fs_get s n) ->
  m_alive m' = m_alive m -> m_pid m' = m_pid m -> m_pname m' = m_pname m -> m_pown m' = m_pown m ->
  (m_pname m = PDot2 -> m_mpid m <> 0 -> m_mpid m' <> 0) ->
  holds s m -> holds s' m'.
Proof.
  intros s s' m m' F A P N O Mp H Al. rewrite A in Al. destruct (H Al) as [H1 [H2 [H3 H4]]].
  rewrite N, P, O. repeat split; auto; try (rewrite F; auto; fail); try (intros n Hn; rewrite F in Hn; auto; fail).
Qed.

(* Pidfile.unlink of one master does not disturb another one *)
Lemma unlink_other : forall s m o, m_pid m <> m_pid o -> holds s o -> holds (pf_unlink s m) o.
Proof.
  intros s m o Ne H Al. destruct (H Al) as [H1 [H2 [H3 H4]]].
  unfold pf_unlink. destruct (m_pown m); [|repeat split; auto].
  destruct (fs_get s (m_pname m)) as [q|] eqn:G; [|repeat split; auto].
  destruct (q =? m_pid m) eqn:E; [|repeat split; auto]. apply Z.eqb_eq in E. subst q.
  assert (Nn : m_pname o <> m_pname m) by (intro Q; rewrite Q in H1; congruence).
  repeat split; auto.
  - rewrite fs_get_put_other; auto.
  - intros n Hn. destruct (pname_eq_dec n (m_pname m)) as [Q|Q].
    + subst n. rewrite fs_get_put_same in Hn. discriminate.
    + rewrite fs_get_put_other in Hn; auto.
Qed.

Lemma unlink_bound : forall s m n q, (forall n q, fs_get s n = Some q -> q < next_pid s) ->
  fs_get (pf_unlink s m) n = Some q -> q < next_pid (pf_unlink s m).
Proof.
  intros s m n q B H. destruct (pf_unlink_masters s m) as [_ [_ N]]. rewrite N.
  unfold pf_unlink in H. destruct (m_pown m); [|eauto].
  destruct (fs_get s (m_pname m)) as [q'|] eqn:G; [|eauto].
  destruct (q' =? m_pid m); [|eauto].
  destruct (pname_eq_dec n (m_pname m)) as [Q|Q].
  - subst n. rewrite fs_get_put_same in H. discriminate.
  - rewrite fs_get_put_other in H; eauto.
Qed.

(* after its own unlink, no file holds the master's pid *)
Lemma unlink_self : forall s m, holds s m -> m_alive m = true -> forall n, fs_get (pf_unlink s m) n <> Some (m_pid m).
Proof.
  intros s m H Al n. destruct (H Al) as [H1 [H2 [H3 H4]]].
  unfold pf_unlink. rewrite H2, H1. rewrite Z.eqb_refl.
  destruct (pname_eq_dec n (m_pname m)) as [Q|Q].
  - subst n. rewrite fs_get_put_same. discriminate.
  - rewrite fs_get_put_other by auto. intro Hn. apply Q. auto.
Qed.

(* Pidfile.create by one master does not disturb a live other one *)
Lemma create_other : forall s me n s' o, pf_create s me n = Some s' -> me <> m_pid o ->
  (m_alive o = true -> alive_pid s (m_pid o) = true) -> holds s o -> holds s' o.
Proof.
  intros s me n s' o Cr Ne Alv H Al. destruct (H Al) as [H1 [H2 [H3 H4]]].
  unfold pf_create in Cr.
  assert (Nn : n <> m_pname o).
  { intro Q. subst n. rewrite H1 in Cr. rewrite (Alv Al) in Cr. destruct (m_pid o =? me) eqn:E; [apply Z.eqb_eq in E; congruence|discriminate]. }
  assert (Same : s' = s \/ s' = fs_put s n (Some me)).
  { destruct (fs_get s n) as [q|]; [destruct (alive_pid s q); [destruct (q =? me); inversion Cr; auto|inversion Cr; auto]|inversion Cr; auto]. }
  destruct Same as [Q|Q]; subst s'; [repeat split; auto|].
  repeat split; auto.
  - rewrite fs_get_put_other; auto.
  - intros n' Hn. destruct (pname_eq_dec n' n) as [E|E].
    + subst n'. rewrite fs_get_put_same in Hn. congruence.
    + rewrite fs_get_put_other in Hn; auto.
Qed.

Lemma create_bound : forall s me n s', pf_create s me n = Some s' -> me < next_pid s ->
  (forall n q, fs_get s n = Some q -> q < next_pid s) -> forall n' q, fs_get s' n' = Some q -> q < next_pid s'.
Proof.
  intros s me n s' Cr Lt B n' q H. destruct (pf_create_masters _ _ _ _ Cr) as [_ [_ N]]. rewrite N.
  unfold pf_create in Cr.
  assert (Same : s' = s \/ s' = fs_put s n (Some me)).
  { destruct (fs_get s n) as [q'|]; [destruct (alive_pid s q'); [destruct (q' =? me); inversion Cr; auto|inversion Cr; auto]|inversion Cr; auto]. }
  destruct Same as [Q|Q]; subst s'; [eauto|].
  destruct (pname_eq_dec n' n) as [E|E].
  - subst n'. rewrite fs_get_put_same in H. inversion H; subst; auto.
  - rewrite fs_get_put_other in H; eauto.
Qed.

(* a master that creates its file in a state where no file holds its pid then holds exactly that file *)
Lemma create_self : forall s me n s', pf_create s me n = Some s' -> (forall n', fs_get s n' <> Some me) ->
  fs_get s' n = Some me /\ (forall n', fs_get s' n' = Some me -> n' = n) /\ pf_create_owns s me n = true.
Proof.
  intros s me n s' Cr No. unfold pf_create in Cr. unfold pf_create_owns.
  destruct (fs_get s n) as [q|] eqn:G.
  - assert (Qn : q <> me) by (intro; subst q; apply (No n); auto).
    assert (E : (q =? me) = false) by (apply Z.eqb_neq; auto). rewrite E in *. rewrite andb_false_r.
    destruct (alive_pid s q); [discriminate|]. inversion Cr; subst s'. repeat split; auto.
    + apply fs_get_put_same.
    + intros n' Hn. destruct (pname_eq_dec n' n); auto. rewrite fs_get_put_other in Hn; auto. exfalso. apply (No n'); auto.
  - inversion Cr; subst s'. repeat split; auto.
    + apply fs_get_put_same.
    + intros n' Hn. destruct (pname_eq_dec n' n); auto. rewrite fs_get_put_other in Hn; auto. exfalso. apply (No n'); auto.
Qed.

(* when only live other pids can block a create, and the other master is dead, create succeeds *)
Lemma create_succeeds : forall s me n, (forall q, alive_pid s q = true -> q = me) -> (forall n', fs_get s n' <> Some me) ->
  exists s', pf_create s me n = Some s'.
Proof.
  intros s me n Only No. unfold pf_create. destruct (fs_get s n) as [q|] eqn:G; [|eauto].
  destruct (alive_pid s q) eqn:A; [|eauto]. exfalso. apply (No n). rewrite G. f_equal. auto.
Qed.

(* ---- preservation ------------------------------------------------------------------------------------------------ *)
Definition bounded (s : st) : Prop := forall n q, fs_get s n = Some q -> q < next_pid s.

Lemma get_put_same : forall s x m, get (put s x m) x = m.
Proof. intros. destruct x; reflexivity. Qed.
Lemma get_put_other : forall s x m, get (put s x m) (other x) = get s (other x).
Proof. intros. destruct x; reflexivity. Qed.
Lemma next_pid_put : forall s x m, next_pid (put s x m) = next_pid s.
Proof. intros. destruct x; reflexivity. Qed.

(* PF in terms of slots *)
Lemma pf_slots : forall s x, holds s (get s x) -> holds s (get s (other x)) -> bounded s -> PF s.
Proof. intros s x Hx Ho B. destruct x; simpl in *; constructor; auto. Qed.
Lemma pf_get : forall s x, PF s -> holds s (get s x).
Proof. intros s x [Ha Hb _]. destruct x; auto. Qed.

Lemma holds_dead : forall s m, m_alive m = false -> holds s m.
Proof. intros s m D Al. congruence. Qed.

Lemma do_exit_pf : forall c s x status, pidconf c = true ->
  m_pid (get s x) <> m_pid (get s (other x)) -> holds s (get s (other x)) -> bounded s ->
  PF (do_exit c s x status).
Proof.
  intros c s x status Pc Ne Ho B. unfold do_exit. rewrite Pc.
  set (s1 := if unlink_flag c (get s x) && unixb c then set_sock s false else s).
  assert (F1 : forall n, fs_get s1 n = fs_get s n).
  { intros n. unfold s1. destruct (unlink_flag c (get s x) && unixb c); auto; apply fs_get_set_sock. }
  assert (N1 : next_pid s1 = next_pid s).
  { unfold s1. destruct (unlink_flag c (get s x) && unixb c); reflexivity. }
  assert (Ho1 : holds s1 (get s (other x))).
  { apply (holds_ext s s1 (get s (other x)) (get s (other x))); auto. }
  assert (B1 : bounded s1).
  { intros n q H. rewrite F1 in H. rewrite N1. eauto. }
  apply (pf_slots _ x).
  - rewrite get_put_same. apply holds_dead. reflexivity.
  - rewrite get_put_other.
    assert (G0 : get s1 (other x) = get s (other x)).
    { unfold s1. destruct (unlink_flag c (get s x) && unixb c); destruct x; reflexivity. }
    assert (G : get (pf_unlink s1 (get s x)) (other x) = get s (other x)).
    { destruct (pf_unlink_masters s1 (get s x)) as [EA [EB _]]. rewrite <- G0. destruct x; simpl; auto. }
    rewrite G.
    apply (holds_ext (pf_unlink s1 (get s x)) _ (get s (other x)) (get s (other x))); auto.
    + intros n. apply fs_get_putm.
    + apply unlink_other; auto.
  - intros n q H. rewrite fs_get_putm in H. rewrite next_pid_put. eapply unlink_bound; eauto.
Qed.

(* the pid-file part of reload() and of maybe_promote_master: unlink own file, create the configured name *)
Lemma rename_pf : forall c s x m1 tgt, pidconf c = true -> WF s -> PF s -> m_alive (get s x) = true ->
  m_pid m1 = m_pid (get s x) -> m_alive m1 = true -> (tgt = PDot2 -> m_mpid m1 <> 0) ->
  PF (match pf_create (pf_unlink s (get s x)) (m_pid (get s x)) tgt with
      | Some s2 => put s2 x (set_m_pf m1 tgt (pf_create_owns (pf_unlink s (get s x)) (m_pid (get s x)) tgt))
      | None => crash c (put (pf_unlink s (get s x)) x (set_m_pf m1 tgt false)) x
      end).
Proof.
  intros c s x m1 tgt Pc W P Al Pid Al1 Tg.
  assert (Ne : m_pid (get s x) <> m_pid (get s (other x))) by (destruct W as [_ _ H3 _ _ _]; destruct x; simpl; auto).
  pose proof (pf_get s x P) as Hx. pose proof (pf_get s (other x) P) as Ho. destruct P as [_ _ B].
  destruct (pf_unlink_masters s (get s x)) as [U1 [U2 U3]].
  set (s1 := pf_unlink s (get s x)) in *.
  assert (Ho1 : holds s1 (get s (other x))) by (apply unlink_other; auto).
  assert (B1 : bounded s1) by (intros n q H; eapply unlink_bound; eauto).
  assert (G1 : get s1 (other x) = get s (other x)) by (destruct x; simpl; auto).
  destruct (pf_create s1 (m_pid (get s x)) tgt) as [s2|] eqn:Cr.
  - destruct (pf_create_masters _ _ _ _ Cr) as [EA [EB EN]].
    destruct (create_self _ _ _ _ Cr (unlink_self s (get s x) Hx Al)) as [C1 [C2 C3]].
    apply (pf_slots _ x).
    + rewrite get_put_same. intros _. cbn [m_pname m_pid m_pown m_mpid set_m_pf]. rewrite Pid. rewrite fs_get_putm. repeat split; auto.
      * intros n Hn. rewrite fs_get_putm in Hn. auto.
    + rewrite get_put_other.
      assert (G2 : get s2 (other x) = get s (other x)) by (destruct x; simpl in *; congruence).
      rewrite G2.
      apply (holds_ext s2 _ (get s (other x)) (get s (other x))); auto.
      * intros n. apply fs_get_putm.
      * apply (create_other s1 (m_pid (get s x)) tgt s2 (get s (other x)) Cr Ne); [|exact Ho1].
        intros Ao. rewrite (alive_pid_ext s s1) by auto.
        unfold alive_pid. destruct x; simpl in *; rewrite Ao, Z.eqb_refl; simpl; auto using orb_true_r.
    + intros n q H. rewrite fs_get_putm in H. rewrite next_pid_put. eapply create_bound; eauto.
      rewrite U3. destruct W as [Ha Hb _ _ _ _]. destruct x; simpl; lia.
  - unfold crash. apply do_exit_pf; auto.
    + rewrite get_put_same, get_put_other. simpl. rewrite Pid. rewrite G1. auto.
    + rewrite get_put_other. rewrite G1.
      apply (holds_ext s1 _ (get s (other x)) (get s (other x))); auto. intros n. apply fs_get_putm.
    + intros n q H. rewrite fs_get_putm in H. rewrite next_pid_put. eauto.
Qed.

Lemma step_pf : forall c s e, pidconf c = true -> WF s -> PF s -> PF (step c s e).
Proof.
  intros c s e Pc W P. pose proof W as [Wa Wb Wne [A1 _] [B1 _] _].
  destruct e as [x|x|x|x|x|x|x code]; unfold step.
  - (* USR2 *)
    destruct (negb (m_alive (get s x))) eqn:Al; auto.
    destruct (negb (m_reexec (get s x) =? 0)) eqn:Rx; auto.
    destruct (negb (m_mpid (get s x) =? 0)) eqn:Mp; auto.
    destruct (m_alive (get s (other x))) eqn:Ao; auto.
    apply negb_false_iff in Al. apply negb_false_iff in Mp. apply Z.eqb_eq in Mp.
    pose proof (pf_get s x P) as Hx. destruct P as [_ _ B].
    unfold start_child. cbv zeta. rewrite Pc.
    set (child := next_pid s).
    set (mx := set_m_reexec (get s x) child).
    rewrite !next_pid_put. fold child.
    set (s0 := set_exec (put s x mx) (child + 1) (execs (put s x mx) + 1)).
    set (m0 := mkM child true 0 0 (m_pid (get s x)) PDot2 false (cworkers c)).
    assert (F0 : forall n, fs_get (put s0 (other x) m0) n = fs_get s n).
    { intros n. rewrite fs_get_putm. unfold s0. rewrite fs_get_set_exec. apply fs_get_putm. }
    assert (Px : 0 < m_pid (get s x) < child) by (destruct x; simpl in *; unfold child; split; try lia; auto).
    assert (Hx0 : holds (put s0 (other x) m0) mx).
    { apply (holds_ext s _ (get s x) mx); auto. }
    assert (B0 : bounded (put s0 (other x) m0)).
    { intros n q H. rewrite F0 in H. apply B in H. destruct x; simpl; unfold child; lia. }
    destruct (pf_create (put s0 (other x) m0) child PDot2) as [s2|] eqn:Cr.
    + destruct (pf_create_masters _ _ _ _ Cr) as [EA [EB EN]].
      assert (No : forall n', fs_get (put s0 (other x) m0) n' <> Some child).
      { intros n' H. rewrite F0 in H. apply B in H. unfold child in H. lia. }
      destruct (create_self _ _ _ _ Cr No) as [C1 [C2 C3]].
      apply (pf_slots _ (other x)).
      * rewrite get_put_same. intros _. cbn [m_pname m_pid m_pown m_mpid set_m_pf m0]. rewrite fs_get_putm. repeat split; auto.
        -- intros n Hn. rewrite fs_get_putm in Hn. auto.
        -- intros _. lia.
      * rewrite get_put_other. replace (other (other x)) with x by (destruct x; reflexivity).
        assert (G2 : get s2 x = mx) by (destruct x; simpl in *; congruence).
        rewrite G2.
        apply (holds_ext s2 _ mx mx); auto.
        -- intros n. apply fs_get_putm.
        -- assert (Nc : child <> m_pid mx) by (unfold mx; simpl; lia).
           apply (create_other _ child PDot2 s2 mx Cr Nc); [|exact Hx0].
           intros _. unfold alive_pid. destruct x; simpl in *; rewrite Al, Z.eqb_refl; simpl; auto using orb_true_r.
      * intros n q H. rewrite fs_get_putm in H. rewrite next_pid_put. eapply create_bound; eauto.
        destruct x; simpl; unfold child; lia.
    + apply (pf_slots _ (other x)).
      * rewrite get_put_same. apply holds_dead. reflexivity.
      * rewrite get_put_other. replace (other (other x)) with x by (destruct x; reflexivity).
        assert (G2 : get s0 x = mx) by (destruct x; reflexivity).
        rewrite G2. apply (holds_ext (put s0 (other x) m0) _ mx mx); auto.
        intros n. rewrite !fs_get_putm. reflexivity.
      * intros n q H. rewrite fs_get_putm in H. rewrite next_pid_put.
        unfold s0 in *. rewrite fs_get_set_exec, fs_get_putm in H. apply B in H. simpl. unfold child. lia.
  - (* Stop *)
    destruct (m_alive (get s x)) eqn:Al; auto.
    apply do_exit_pf; auto.
    + destruct x; simpl; auto.
    + apply pf_get; auto.
    + destruct P; auto.
  - (* NoticeChild *)
    destruct (m_alive (get s x) && negb (m_reexec (get s x) =? 0) && negb (alive_pid s (m_reexec (get s x)))); auto.
    pose proof (pf_get s x P) as Hx. pose proof (pf_get s (other x) P) as Ho. destruct P as [_ _ B].
    apply (pf_slots _ x).
    + rewrite get_put_same. apply (holds_ext s _ (get s x) _); auto. intros n. apply fs_get_putm.
    + rewrite get_put_other. apply (holds_ext s _ (get s (other x)) _); auto. intros n. apply fs_get_putm.
    + intros n q H. rewrite fs_get_putm in H. rewrite next_pid_put. eauto.
  - (* NoticeParent *)
    destruct (m_alive (get s x) && negb (m_mpid (get s x) =? 0) && negb (alive_pid s (m_mpid (get s x)))) eqn:Cd; auto.
    apply andb_true_iff in Cd. destruct Cd as [Cd _]. apply andb_true_iff in Cd. destruct Cd as [Al _].
    rewrite Pc. apply rename_pf; auto. intros Q; discriminate.
  - (* HUP *)
    destruct (negb (m_alive (get s x))) eqn:Al; auto. apply negb_false_iff in Al.
    rewrite Pc. cbv zeta. apply rename_pf; auto.
    simpl. destruct (reload_names_dot2 && negb (m_mpid (get s x) =? 0)) eqn:E; [|intros Q; discriminate].
    intros _. apply andb_true_iff in E. destruct E as [_ E]. apply negb_true_iff in E. apply Z.eqb_neq in E. auto.
  - (* WINCH *)
    destruct (m_alive (get s x) && daemon c); auto.
    pose proof (pf_get s x P) as Hx. pose proof (pf_get s (other x) P) as Ho. destruct P as [_ _ B].
    apply (pf_slots _ x).
    + rewrite get_put_same. apply (holds_ext s _ (get s x) _); auto. intros n. apply fs_get_putm.
    + rewrite get_put_other. apply (holds_ext s _ (get s (other x)) _); auto. intros n. apply fs_get_putm.
    + intros n q H. rewrite fs_get_putm in H. rewrite next_pid_put. eauto.
  - (* Halt *)
    destruct (m_alive (get s x)) eqn:Al; auto.
    apply do_exit_pf; auto.
    + destruct x; simpl; auto.
    + apply pf_get; auto.
    + destruct P; auto.
Qed.

Lemma init_pf : forall c, pidconf c = true -> PF (init c).
Proof.
  intros c Pc. unfold init. rewrite Pc. constructor; simpl.
  - intros _. simpl. repeat split; auto.
    + intros n H. destruct n; simpl in H; [reflexivity|discriminate].
    + intros Q. discriminate.
  - apply holds_dead. reflexivity.
  - intros n q H. destruct n; simpl in H; inversion H; lia.
Qed.

Lemma run_pf : forall c es s, pidconf c = true -> WF s -> PF s -> PF (run c s es) /\ WF (run c s es).
Proof.
  induction es; simpl; intros s Pc W P; auto. apply IHes; auto.
  - apply step_wf; auto.
  - apply step_pf; auto.
Qed.
