(* The safety invariant of Model/Arbiter.v: holds initially and is preserved by every label, hence in
   every state reachable by any schedule (any history, any position of the SIGCHLD handler). *)
From Coq Require Import List ZArith Bool Lia.
From GV Require Import Gen.GenArbiter Model.Arbiter Proof.ArbiterBase.
Import ListNotations.
Local Open Scope Z_scope.

Definition pending_age (p : pc) : list Z := match p with PFork a _ _ | PRegister _ a _ _ => [a] | _ => [] end.
Definition pending_hb (p : pc) : list Z := match p with PFork _ h _ | PRegister _ _ h _ => [h] | _ => [] end.
Definition pending_reg (p : pc) : list Z := match p with PRegister q _ _ _ => [q] | _ => [] end.
Definition pending_master (p : pc) : list Z := match p with PSetReexec q => [q] | _ => [] end.
Definition forking_master (p : pc) : bool := match p with PForkMaster | PSetReexec _ => true | _ => false end.
Definition pc_after (p : pc) : list after :=
  match p with
  | PKillAllSnap _ (KAWait _ a) | PKillAllSnap _ (KADone a) | PKillAll _ _ (KAWait _ a) | PKillAll _ _ (KADone a)
  | PStopWait _ a | PStopNap _ a => [a]
  | PExited status => [AExit status]
  | _ => []
  end.

(* the master is in its main loop (not inside a stop(), not gone) *)
Definition serving (p : pc) : bool :=
  match p with
  | PKillAllSnap _ KALoop | PKillAll _ _ KALoop => true
  | PKillAllSnap _ _ | PKillAll _ _ _ | PStopWait _ _ | PStopNap _ _ | PExited _ | PCrashed => false
  | _ => true
  end.

Definition status_ok (x : Z) : Prop := x = 0 \/ x = worker_boot_error \/ x = app_load_error.
Definition after_ok (a : after) : Prop := match a with AExit x => status_ok x | AHalt => True end.

Record InvAt (p : pc) (s : st) : Prop := {
  i_ages : incr (map w_age (workers s) ++ pending_age p);
  i_wage : Forall (fun a => a <= wage s) (map w_age (workers s) ++ pending_age p);
  i_pids : incr (pids (workers s) ++ pending_reg p);
  i_fresh : Forall (fun q => 0 < q < next_pid s) (pids (workers s) ++ pending_reg p ++ pending_master p);
  i_kids : incr (kpids (kids s));
  i_kfresh : Forall (fun q => 0 < q < next_pid s) (kpids (kids s));
  i_reexec : 0 <= reexec s < next_pid s;
  i_fm : forking_master p = true -> reexec s = 0;
  i_track : serving p = true -> forall c, In c (kids s) ->
            if c_master c then reexec s = c_pid c \/ In (c_pid c) (pending_master p)
            else In (c_pid c) (pids (workers s) ++ pending_reg p);
  i_nonneg : 0 <= num s /\ 0 <= cfgw s /\ 0 <= disk_w s /\ 0 <= timeout s /\ 0 <= disk_t s /\ 0 <= nap s;
  i_after : Forall after_ok (pc_after p);
  i_hb : Forall (fun h => h <= mono s) (map w_hb (workers s) ++ pending_hb p);
  i_queue : Z.of_nat (length (sigq s)) <= sig_queue_max /\ Forall (fun sg => zmem sg queued_signals = true) (sigq s)
}.

Definition Inv (s : st) : Prop := InvAt (cur s) s.

(* ---- changing the pc only ---------------------------------------------------------------------- *)
Lemma invat_set_pc : forall p s x, InvAt p s -> InvAt p (set_pc s x).
Proof. intros p s x H. destruct H. constructor; simpl; auto. Qed.

Lemma invat_same : forall p p' s, InvAt p s ->
  pending_age p' = pending_age p -> pending_hb p' = pending_hb p -> pending_reg p' = pending_reg p ->
  pending_master p' = pending_master p -> (forking_master p' = true -> forking_master p = true) ->
  (serving p' = true -> serving p = true) -> Forall after_ok (pc_after p') -> InvAt p' s.
Proof.
  intros p p' s H E1 E2 E3 E4 E5 E6 E7. destruct H. constructor; auto; rewrite ?E1, ?E2, ?E3, ?E4; auto.
  intros Hs c Hc. specialize (i_track0 (E6 Hs) c Hc). auto.
Qed.

Lemma incr_app_l : forall l1 l2, incr (l1 ++ l2) -> incr (l1 ++ []).
Proof. intros. rewrite app_nil_r. apply incr_app in H. tauto. Qed.
Lemma Forall_app_l : forall (A : Type) (P : A -> Prop) l1 l2, Forall P (l1 ++ l2) -> Forall P (l1 ++ []).
Proof. intros. rewrite app_nil_r. apply Forall_app in H. tauto. Qed.

(* entering a stop(): nothing pending any more, tracking no longer claimed *)
Lemma invat_stop : forall p p' s, InvAt p s ->
  pending_age p' = [] -> pending_hb p' = [] -> pending_reg p' = [] -> pending_master p' = [] ->
  forking_master p' = false -> serving p' = false -> Forall after_ok (pc_after p') -> InvAt p' s.
Proof.
  intros p p' s H E1 E2 E3 E4 E5 E6 E7. destruct H. constructor; auto; rewrite ?E1, ?E2, ?E3, ?E4.
  - eapply incr_app_l; eauto.
  - eapply Forall_app_l; eauto.
  - eapply incr_app_l; eauto.
  - simpl. eapply Forall_app_l; eauto.
  - rewrite E5. discriminate.
  - rewrite E6. discriminate.
  - eapply Forall_app_l; eauto.
Qed.

(* ---- operations that do not look at the pc ---------------------------------------------------- *)
Lemma Forall_sub : forall (A : Type) (P : A -> Prop) l l', (forall x, In x l' -> In x l) -> Forall P l -> Forall P l'.
Proof. intros. rewrite Forall_forall in *. auto. Qed.

Lemma incr_sub_app : forall l l' t, incr (l ++ t) -> incr l' -> (forall x, In x l' -> In x l) -> incr (l' ++ t).
Proof.
  intros. apply incr_app in H. apply incr_app. destruct H as [H2 [H3 H4]]. repeat split; auto.
Qed.

Lemma invat_remove : forall p s q, InvAt p s ->
  (serving p = true -> forall c, In c (kids s) -> c_pid c <> q) ->
  InvAt p (set_workers s (remove_wk q (workers s))).
Proof.
  intros p s q H Hq. destruct H. constructor; simpl; auto.
  - eapply incr_sub_app; eauto. apply incr_map_remove. apply incr_app in i_ages0. tauto.
    apply ages_remove_sub.
  - eapply Forall_sub; [|eauto]. intros x Hx. apply in_app_iff in Hx. apply in_app_iff.
    destruct Hx; auto. left. eapply ages_remove_sub; eauto.
  - eapply incr_sub_app; eauto. apply incr_map_remove. apply incr_app in i_pids0. tauto.
    intros x Hx. apply in_pids_remove in Hx. tauto.
  - eapply Forall_sub; [|exact i_fresh0]. intros x Hx. apply in_app_iff in Hx. apply in_app_iff.
    destruct Hx; auto. left. apply in_pids_remove in H. tauto.
  - intros Hs c Hc. specialize (i_track0 Hs c Hc). destruct (c_master c); auto.
    apply in_app_iff in i_track0. apply in_app_iff. destruct i_track0; auto. left.
    apply in_pids_remove. split; auto; try (eapply Hq; eauto).
  - eapply Forall_sub; [|eauto]. intros x Hx. apply in_app_iff in Hx. apply in_app_iff.
    destruct Hx; auto. left. apply in_map_iff in H. destruct H as [w [<- Hw]]. apply in_map. apply in_remove_wk in Hw. tauto.
Qed.

Lemma invat_kids : forall p s k, InvAt p s -> kpids k = kpids (kids s) ->
  (forall c', In c' k -> exists c, In c (kids s) /\ c_pid c = c_pid c' /\ c_master c = c_master c') ->
  InvAt p (set_kids s k).
Proof.
  intros p s k H E Hk. destruct H. constructor; simpl; auto; try (rewrite E; auto).
  intros Hs c' Hc'. destruct (Hk c' Hc') as [c [H1 [H2 H3]]].
  specialize (i_track0 Hs c H1). rewrite <- H2, <- H3. auto.
Qed.

Lemma invat_set_sent : forall p s x, InvAt p s -> InvAt p (set_sent s x).
Proof. intros p s x H. destruct H. constructor; simpl; auto. Qed.

Lemma invat_kill_worker : forall p s q sg, InvAt p s -> InvAt p (kill_worker s q sg).
Proof.
  intros p s q sg H. unfold kill_worker. destruct (kill_in (kids s) q sg) as [[k d]|] eqn:K.
  - assert (InvAt p (set_kids s k)).
    { apply invat_kids; auto. eapply kill_in_pids; eauto.
      intros c' Hc'. destruct (kill_in_child _ _ _ _ _ _ K Hc') as [c [H1 [H2 [H3 [H4 H5]]]]]. exists c. auto. }
    destruct d; auto. apply invat_set_sent. auto.
  - apply invat_remove; auto. intros _ c Hc E. apply kill_in_none in K. apply K. subst q. apply in_map. auto.
Qed.

Lemma invat_advance : forall p s dt, InvAt p s -> 0 <= dt -> InvAt p (advance s dt).
Proof.
  intros p s dt H Hd. destruct H. constructor; simpl; auto.
  eapply Forall_impl; [|eauto]. simpl. intros. lia.
Qed.

Lemma invat_set_woken : forall p s x, InvAt p s -> InvAt p (set_woken s x).
Proof. intros p s x H. destruct H. constructor; simpl; auto. Qed.
Lemma invat_set_hctx : forall p s x, InvAt p s -> InvAt p (set_hctx s x).
Proof. intros p s x H. destruct H. constructor; simpl; auto. Qed.
Lemma invat_set_orphan : forall p s x, InvAt p s -> InvAt p (set_orphan s x).
Proof. intros p s x H. destruct H. constructor; simpl; auto. Qed.
Lemma invat_set_master_pid : forall p s x, InvAt p s -> InvAt p (set_master_pid s x).
Proof. intros p s x H. destruct H. constructor; simpl; auto. Qed.
Lemma invat_set_listeners : forall p s x y, InvAt p s -> InvAt p (set_listeners s x y).
Proof. intros p s x y H. destruct H. constructor; simpl; auto. Qed.
Lemma invat_set_num : forall p s x, InvAt p s -> 0 <= x -> InvAt p (set_num s x).
Proof. intros p s x H Hx. destruct H. constructor; simpl; auto. tauto. Qed.
Lemma invat_set_cfg : forall p s t w, InvAt p s -> 0 <= t -> 0 <= w -> InvAt p (set_cfg s t w).
Proof. intros p s t w H Ht Hw. destruct H. constructor; simpl; auto. tauto. Qed.
Lemma invat_set_disk : forall p s w t, InvAt p s -> 0 <= w -> 0 <= t -> InvAt p (set_disk s w t).
Proof. intros p s w t H Ht Hw. destruct H. constructor; simpl; auto. tauto. Qed.

Lemma invat_set_aborted : forall p s q, InvAt p s -> InvAt p (set_workers s (set_aborted q (workers s))).
Proof.
  intros p s q H. destruct H. constructor; simpl; auto; try rewrite ages_set_aborted; try rewrite pids_set_aborted; auto.
  replace (map w_hb (set_aborted q (workers s))) with (map w_hb (workers s)); auto.
  clear. induction (workers s); simpl; auto. destruct (w_pid a =? q); simpl; f_equal; auto.
Qed.

Lemma invat_set_hb : forall p s q, InvAt p s -> InvAt p (set_workers s (set_hb q (mono s) (workers s))).
Proof.
  intros p s q H. destruct H. constructor; simpl; auto; try rewrite ages_set_hb; try rewrite pids_set_hb; auto.
  apply Forall_app in i_hb0. apply Forall_app. destruct i_hb0 as [H1 H2]. split; auto.
  clear - H1. induction (workers s); simpl; auto. inversion H1; subst.
  destruct (w_pid a =? q); simpl; constructor; auto. lia.
Qed.

Lemma invat_set_sigq_tail : forall p s sg q, InvAt p s -> sigq s = sg :: q -> InvAt p (set_sigq s q).
Proof.
  intros p s sg q H E. destruct H. constructor; simpl; auto. rewrite E in i_queue0. simpl length in i_queue0.
  destruct i_queue0 as [H1 H2]. inversion H2; subst. split; auto. lia.
Qed.

(* ---- the loop skeleton -------------------------------------------------------------------------- *)
Ltac plain := (reflexivity || assumption || (simpl; auto; fail) || (intros; simpl in *; congruence)).

Lemma inv_to_loop : forall p s, InvAt p s ->
  pending_age p = [] -> pending_hb p = [] -> pending_reg p = [] -> pending_master p = [] -> serving p = true ->
  Inv (to_loop s).
Proof.
  intros p s H E1 E2 E3 E4 E5. unfold to_loop, Inv.
  set (s1 := if hctx s then set_hctx (set_woken s true) false else s).
  assert (H1 : InvAt p s1). { unfold s1. destruct (hctx s); auto. apply invat_set_hctx, invat_set_woken. auto. }
  apply invat_set_pc. simpl.
  destruct (master_pid s1 =? 0); eapply invat_same; eauto; simpl; auto; try discriminate.
Qed.

Lemma inv_simple : forall p p' s, InvAt p s ->
  pending_age p = [] -> pending_hb p = [] -> pending_reg p = [] -> pending_master p = [] -> serving p = true ->
  pending_age p' = [] -> pending_hb p' = [] -> pending_reg p' = [] -> pending_master p' = [] ->
  forking_master p' = false -> Forall after_ok (pc_after p') ->
  Inv (set_pc s p').
Proof.
  intros. unfold Inv. simpl. apply invat_set_pc. eapply invat_same; eauto; try congruence.
Qed.

Lemma inv_begin_spawn : forall p s k, InvAt p s ->
  pending_age p = [] -> pending_hb p = [] -> pending_reg p = [] -> pending_master p = [] -> serving p = true ->
  Inv (begin_spawn s k).
Proof.
  intros p s k H E1 E2 E3 E4 E5. unfold begin_spawn, Inv. simpl. apply invat_set_pc.
  destruct H. rewrite ?E1, ?E2, ?E3, ?E4, ?app_nil_r in *. constructor; simpl; rewrite ?app_nil_r; auto.
  all: try solve [apply incr_snoc; auto; intros a Ha; rewrite Forall_forall in i_wage0; apply i_wage0 in Ha; lia].
  all: try solve [apply Forall_app; split; [eapply Forall_impl; [|eauto]; simpl; intros; lia | constructor; auto; lia]].
  all: try discriminate.
  intros _ c Hc. specialize (i_track0 E5 c Hc). rewrite ?app_nil_r in i_track0. destruct (c_master c); auto.
Qed.

Lemma inv_enter_stop : forall p s g a, InvAt p s -> after_ok a -> Inv (enter_stop s g a).
Proof.
  intros p s g a H Ha. unfold enter_stop, Inv.
  set (s1 := if lopen s then set_listeners s false ((reexec s =? 0) && (master_pid s =? 0)) else s).
  assert (H1 : InvAt p s1). { unfold s1. destruct (lopen s); auto. apply invat_set_listeners. auto. }
  simpl. apply invat_set_pc. eapply invat_stop; eauto; simpl; auto.
Qed.

Lemma inv_finish_stop : forall p s a, InvAt p s -> after_ok a -> Inv (finish_stop s a).
Proof.
  intros. destruct a; simpl.
  - unfold Inv. simpl. apply invat_set_pc. eapply invat_stop; eauto; simpl; auto.
  - eapply inv_enter_stop; eauto. simpl. left. auto.
Qed.

Lemma inv_murder_next : forall p s todo, InvAt p s ->
  pending_age p = [] -> pending_hb p = [] -> pending_reg p = [] -> pending_master p = [] -> serving p = true ->
  Inv (murder_next s todo).
Proof. intros. unfold murder_next. destruct todo; eapply inv_simple; eauto; simpl; auto. Qed.

Lemma inv_manage_kill_next : forall p s v, InvAt p s ->
  pending_age p = [] -> pending_hb p = [] -> pending_reg p = [] -> pending_master p = [] -> serving p = true ->
  Inv (manage_kill_next s v).
Proof. intros. unfold manage_kill_next. destruct v. eapply inv_to_loop; eauto. eapply inv_simple; eauto; simpl; auto. Qed.

Lemma inv_killall_next : forall s l sg k x y, InvAt (PKillAll x y k) s -> Inv (killall_next s l sg k).
Proof.
  intros s l sg k x y H. unfold killall_next. destruct l.
  - destruct k.
    + eapply inv_to_loop; eauto.
    + unfold Inv. simpl. apply invat_set_pc. destruct H. constructor; simpl in *; auto.
    + eapply (inv_finish_stop (PKillAll x y (KADone a))); auto.
      destruct H. simpl in i_after0. inversion i_after0; auto.
  - unfold Inv. simpl. apply invat_set_pc. destruct H. destruct k; constructor; simpl in *; auto.
Qed.

Lemma invat_killall_of_snap : forall s sg k x y, InvAt (PKillAllSnap sg k) s -> InvAt (PKillAll x y k) s.
Proof. intros. destruct H. destruct k; constructor; simpl in *; auto. Qed.

(* ---- fork and registration -------------------------------------------------------------------- *)
Lemma inv_fork_worker : forall s age hb k, InvAt (PFork age hb k) s ->
  Inv (let (s1, q) := do_fork s false in set_pc s1 (PRegister q age hb k)).
Proof.
  intros s age hb k H. unfold do_fork, Inv. simpl. destruct H. simpl in *. rewrite ?app_nil_r in *.
  constructor; simpl; rewrite ?app_nil_r; auto.
  - apply incr_snoc; auto. intros a Ha. rewrite Forall_forall in i_fresh0. apply i_fresh0 in Ha. lia.
  - apply Forall_app. split. eapply Forall_impl; [|exact i_fresh0]. simpl; intros; lia. constructor; auto. lia.
  - unfold kpids. rewrite map_app. simpl. apply incr_snoc; auto. intros a Ha. rewrite Forall_forall in i_kfresh0.
    apply i_kfresh0 in Ha. lia.
  - unfold kpids. rewrite map_app. apply Forall_app. split. eapply Forall_impl; [|eauto]. simpl; intros; lia.
    constructor; auto. simpl. lia.
  - lia.
  - intros _ c Hc. apply in_app_iff in Hc. destruct Hc as [Hc|[<-|[]]].
    + specialize (i_track0 eq_refl c Hc). destruct (c_master c); auto. apply in_app_iff; auto.
    + simpl. apply in_app_iff. right. left. auto.
Qed.

Lemma invat_register : forall s q age hb k, InvAt (PRegister q age hb k) s ->
  InvAt PManageLen (set_workers s (workers s ++ [mkWk q age false hb])).
Proof.
  intros s q age hb k H. destruct H. simpl in *.
  constructor; simpl; unfold pids in *; rewrite ?map_app, ?app_nil_r; simpl; auto.
Qed.

Lemma inv_after_register : forall s k, InvAt PManageLen s -> Inv (after_register s k).
Proof.
  intros s k H. destruct k as [n|[|n]]; simpl.
  - eapply inv_simple; eauto; simpl; auto.
  - eapply inv_simple; eauto; simpl; auto.
  - eapply inv_begin_spawn; eauto.
Qed.

Lemma inv_fork_master : forall s, InvAt PForkMaster s ->
  Inv (let (s1, q) := do_fork s true in set_pc s1 (PSetReexec q)).
Proof.
  intros s H. unfold do_fork, Inv. simpl. destruct H. simpl in *. rewrite ?app_nil_r in *.
  constructor; simpl; rewrite ?app_nil_r; auto.
  - apply Forall_app. split. eapply Forall_impl; [|exact i_fresh0]. simpl; intros; lia. constructor; auto. lia.
  - unfold kpids. rewrite map_app. simpl. apply incr_snoc; auto. intros a Ha. rewrite Forall_forall in i_kfresh0.
    apply i_kfresh0 in Ha. lia.
  - unfold kpids. rewrite map_app. apply Forall_app. split. eapply Forall_impl; [|eauto]. simpl; intros; lia.
    constructor; auto. simpl. lia.
  - lia.
  - intros _ c Hc. apply in_app_iff in Hc. destruct Hc as [Hc|[<-|[]]].
    + specialize (i_track0 eq_refl c Hc). destruct (c_master c); auto. destruct i_track0 as [?|[]]; auto.
    + simpl. auto.
Qed.

Lemma invat_set_reexec : forall s q, InvAt (PSetReexec q) s -> InvAt PManageLen (set_reexec s q).
Proof.
  intros s q H. destruct H. simpl in *. rewrite ?app_nil_r in *.
  constructor; simpl; rewrite ?app_nil_r; auto.
  - apply Forall_app in i_fresh0. tauto.
  - apply Forall_app in i_fresh0. destruct i_fresh0 as [_ Hq]. inversion Hq; subst. split; auto.
    lia. lia.
  - discriminate.
  - intros _ c Hc. specialize (i_track0 eq_refl c Hc). destruct (c_master c); auto.
    destruct i_track0 as [E|[E|[]]]; auto. rewrite (i_fm0 eq_refl) in E.
    rewrite Forall_forall in i_kfresh0. assert (0 < c_pid c < next_pid s). apply i_kfresh0. apply in_map. auto. lia.
Qed.

(* ---- the signal handlers of the main loop ------------------------------------------------------- *)
Lemma inv_dispatch : forall s sg, InvAt PSigq s -> Inv (dispatch s sg).
Proof.
  intros s sg H. unfold dispatch.
  assert (H0 : InvAt PSigq (set_hctx s true)) by (apply invat_set_hctx; auto).
  clear H. generalize dependent (set_hctx s true). clear s. intros s0 H0.
  assert (Hn : 0 <= num s0 /\ 0 <= disk_w s0 /\ 0 <= disk_t s0) by (destruct H0; tauto).
  destruct (sg =? SIGHUP).
  { set (s1 := set_num (set_cfg s0 (disk_t s0) (disk_w s0)) (disk_w s0)).
    assert (H1 : InvAt PSigq s1). { unfold s1. apply invat_set_num; try tauto. apply invat_set_cfg; tauto. }
    destruct (Z.to_nat (cfgw s1)).
    - eapply inv_simple; eauto; simpl; auto.
    - eapply inv_begin_spawn; eauto. }
  destruct (sg =? SIGTERM). { eapply inv_enter_stop; eauto. simpl. left; auto. }
  destruct ((sg =? SIGINT) || (sg =? SIGQUIT)). { eapply inv_enter_stop; eauto. simpl. auto. }
  destruct (sg =? SIGTTIN).
  { eapply inv_simple with (p := PSigq); simpl; auto. apply invat_set_num; auto. lia. }
  destruct (sg =? SIGTTOU).
  { destruct (num s0 <=? 1) eqn:E. eapply inv_to_loop; eauto.
    rewrite Z.leb_gt in E. eapply inv_simple with (p := PSigq); simpl; auto. apply invat_set_num; auto. lia. }
  destruct (sg =? SIGUSR1). { eapply inv_simple; eauto; simpl; auto. }
  destruct (sg =? SIGUSR2).
  { destruct (negb (reexec s0 =? 0) || negb (master_pid s0 =? 0)) eqn:E. eapply inv_to_loop; eauto.
    apply orb_false_iff in E. destruct E as [E _]. rewrite negb_false_iff, Z.eqb_eq in E.
    unfold Inv. simpl. apply invat_set_pc. destruct H0. constructor; simpl in *; auto. }
  eapply inv_to_loop; eauto.
Qed.

(* ---- one master step ------------------------------------------------------------------------------ *)
Ltac pend := simpl; auto.

Lemma inv_master : forall s, Inv s -> Inv (master s).
Proof.
  intros s H. unfold Inv in H. unfold master. destruct (cur s) eqn:PC.
  - (* PSigq *) destruct (sigq s) eqn:Q.
    + eapply inv_simple; eauto; pend.
    + apply inv_dispatch. eapply invat_set_sigq_tail; eauto.
  - (* PSelect *)
    set (s1 := if woken s then set_woken s false else advance s select_ticks).
    assert (H1 : InvAt PSelect s1).
    { unfold s1. destruct (woken s). apply invat_set_woken; auto. apply invat_advance; auto. vm_compute. discriminate. }
    destruct (timeout s1 =? 0); eapply inv_simple; eauto; pend.
  - (* PMurderSnap *) eapply inv_murder_next; eauto.
  - (* PMurderCheck *) destruct todo as [|q todo]. eapply inv_simple; eauto; pend.
    destruct (find_wk q (workers s)). 2: eapply inv_murder_next; eauto.
    destruct (mono s - w_hb w <=? timeout s * tps). eapply inv_murder_next; eauto.
    destruct (w_aborted w). eapply inv_simple; eauto; pend.
    eapply inv_simple with (p := PMurderCheck (q :: todo)); pend. apply invat_set_aborted; auto.
  - (* PMurderKill *) eapply inv_murder_next with (p := PMurderKill p sg todo); pend. apply invat_kill_worker; auto.
  - (* PManageLen *) destruct (wlen s <? num s); eapply inv_simple; eauto; pend.
  - (* PSpawnCount *) destruct (num s - wlen s <=? 0). eapply inv_simple; eauto; pend. eapply inv_begin_spawn; eauto.
  - (* PFork *) apply inv_fork_worker; auto.
  - (* PRegister *) apply inv_after_register. eapply invat_register; eauto.
  - (* PNap *)
    assert (H1 : InvAt (PNap n) (advance s (nap s))).
    { apply invat_advance; auto. destruct H; tauto. }
    destruct n. eapply inv_simple; eauto; pend. eapply inv_begin_spawn; eauto.
  - (* PManageSort *) eapply inv_manage_kill_next; eauto.
  - (* PManageKill *) destruct victims as [|q v]. eapply inv_to_loop; eauto.
    eapply inv_manage_kill_next with (p := PManageKill (q :: v)); pend. apply invat_kill_worker; auto.
  - (* PKillAllSnap *) eapply inv_killall_next with (x := []) (y := 0). eapply invat_killall_of_snap; eauto.
  - (* PKillAll *) destruct pids as [|q l]. eapply inv_killall_next; eauto.
    eapply inv_killall_next. apply invat_kill_worker. eauto.
  - (* PStopWait *)
    destruct (negb (wlen s =? 0) && (wall s <? limit)); unfold Inv; simpl; apply invat_set_pc;
      destruct H; constructor; simpl in *; auto.
  - (* PStopNap *)
    unfold Inv; simpl. apply invat_set_pc. apply invat_advance. 2: (vm_compute; discriminate).
    destruct H; constructor; simpl in *; auto.
  - (* PForkMaster *) apply inv_fork_master; auto.
  - (* PSetReexec *) eapply inv_to_loop with (p := PManageLen); pend. apply invat_set_reexec; auto.
  - (* PPromote *)
    eapply inv_simple with (p := PPromote); pend.
    destruct (negb (master_pid s =? 0) && orphan s); auto. apply invat_set_master_pid; auto.
  - (* PExited *) unfold Inv. rewrite PC. auto.
  - (* PCrashed *) unfold Inv. rewrite PC. auto.
Qed.

(* ---- the SIGCHLD handler --------------------------------------------------------------------------- *)
Lemma first_zombie_rest : forall l z rest, first_zombie l = Some (z, rest) -> incr (kpids l) ->
  incr (kpids rest) /\ (forall c, In c rest -> In c l /\ c_pid c <> c_pid z) /\ In z l.
Proof.
  intros l z rest H Hi. apply first_zombie_some in H. destruct H as [_ [l1 [l2 [-> [-> _]]]]].
  unfold kpids in *. rewrite map_app in *. simpl in Hi. apply incr_app in Hi. destruct Hi as [H1 [[H2 H3] H4]].
  split; [|split].
  - apply incr_app. repeat split; auto. intros a b Ha Hb. apply H4; simpl; auto.
  - intros c Hc. apply in_app_iff in Hc. split. apply in_app_iff. simpl. tauto.
    destruct Hc as [Hc|Hc].
    + specialize (H4 (c_pid c) (c_pid z) (in_map _ _ _ Hc)). simpl in H4. specialize (H4 (or_introl eq_refl)). lia.
    + rewrite Forall_forall in H2. specialize (H2 (c_pid c) (in_map _ _ _ Hc)). lia.
  - apply in_app_iff. simpl. auto.
Qed.

Lemma invat_kids_sub : forall p s k, InvAt p s -> (forall c, In c k -> In c (kids s)) -> incr (kpids k) ->
  InvAt p (set_kids s k).
Proof.
  intros p s k H Hs Hi. destruct H. constructor; simpl; auto.
  - rewrite Forall_forall in *. intros x Hx. apply in_map_iff in Hx. destruct Hx as [c [<- Hc]].
    apply i_kfresh0. apply in_map. auto.
  - intros Hv c Hc. apply i_track0; auto.
Qed.

Lemma invat_clear_reexec : forall p s z, InvAt p s -> reexec s = z ->
  (forall c, In c (kids s) -> c_pid c <> z) -> InvAt p (set_reexec s 0).
Proof.
  intros p s z H E Hz. destruct H. constructor; simpl; auto. lia.
  intros Hs c Hc. specialize (i_track0 Hs c Hc). destruct (c_master c); auto.
  destruct i_track0 as [E2|?]; auto. exfalso. eapply Hz; eauto. congruence.
Qed.

Definition halt_code (r : option Z) : Prop := r = None \/ r = Some worker_boot_error \/ r = Some app_load_error.

Lemma invat_reap : forall f p s s' r, InvAt p s -> reap f s = (s', r) -> InvAt p s' /\ halt_code r /\ cur s' = cur s.
Proof.
  induction f; simpl; intros p s s' r H R.
  - inversion R; subst. unfold halt_code. auto.
  - destruct (first_zombie (kids s)) as [[z rest]|] eqn:F.
    2: { inversion R; subst. unfold halt_code. auto. }
    destruct (first_zombie_rest _ _ _ F (i_kids _ _ H)) as [Hi [Hsub Hz]].
    assert (H1 : InvAt p (set_kids s rest)). { apply invat_kids_sub; auto. intros c Hc. apply Hsub. auto. }
    simpl in R. destruct (reexec s =? c_pid z) eqn:E.
    + rewrite Z.eqb_eq in E. apply IHf with (p := p) in R. simpl in R. auto.
      eapply invat_clear_reexec with (z := c_pid z); eauto. simpl. intros c Hc. apply Hsub. auto.
    + destruct ((Z.shiftr (status_of z) 8 =? worker_boot_error) && raises _).
      { inversion R; subst. unfold halt_code. auto. }
      destruct ((Z.shiftr (status_of z) 8 =? app_load_error) && raises _).
      { inversion R; subst. unfold halt_code. auto. }
      apply IHf with (p := p) in R. simpl in R. auto.
      apply (invat_remove p (set_kids s rest)); auto. simpl. intros _ c Hc. apply Hsub. auto.
Qed.

Lemma inv_chld : forall s, Inv s -> Inv (chld s).
Proof.
  intros s H. unfold chld. destruct (master_gone (cur s)); auto.
  destruct (reap (S (length (kids s))) s) as [s1 r] eqn:R.
  destruct (invat_reap _ _ _ _ _ H R) as [H1 [Hr Hc]]. rewrite <- Hc in H1.
  destruct r as [code|].
  - assert (Hok : status_ok code). { destruct Hr as [Hr|[Hr|Hr]]; inversion Hr; unfold status_ok; auto. }
    destruct (in_final_stop (cur s1)).
    + unfold Inv. simpl. apply invat_set_pc. eapply invat_stop; eauto; simpl; auto.
    + eapply inv_enter_stop; eauto.
  - unfold Inv. simpl. apply invat_set_woken. auto.
Qed.

(* ---- the other labels -------------------------------------------------------------------------------- *)
Lemma inv_exit : forall s q status, Inv s -> Inv (set_kids s (exit_child q status (kids s))).
Proof.
  intros. unfold Inv. simpl. apply invat_kids; auto. apply exit_child_pids.
  intros c' Hc'. destruct (exit_child_in _ _ _ _ Hc') as [c [H1 [H2 [H3 H4]]]]. exists c. repeat split; auto.
Qed.

Lemma inv_sig : forall s sg, Inv s -> Inv (step s (Sig sg)).
Proof.
  intros s sg H. unfold step. destruct (master_gone (cur s)); auto.
  destruct (zmem sg queued_signals) eqn:Z; [|exact H].
  destruct (Z.of_nat (length (sigq s)) <? sig_queue_max) eqn:L; [|exact H].
  rewrite Z.ltb_lt in L. unfold Inv. cbn [andb cur set_woken set_sigq]. apply invat_set_woken.
  destruct H. constructor; cbn [workers wage next_pid kids reexec num cfgw disk_w timeout disk_t nap mono sigq set_sigq]; auto.
  rewrite app_length. cbn [length]. split. lia.
  apply Forall_app. split; try tauto. constructor; auto.
Qed.

Lemma inv_notify : forall s q, Inv s -> Inv (notify s q).
Proof.
  intros s q H. unfold notify. destruct (find_kid q (kids s)); auto.
  destruct (is_running c && negb (c_master c)); auto.
  assert (H1 : InvAt (cur s) (set_workers s (set_hb q (mono s) (workers s)))) by (apply invat_set_hb; auto).
  simpl. destruct (cur s) eqn:PC; try (unfold Inv; simpl; rewrite PC; exact H1).
  destruct (p =? q); try (unfold Inv; simpl; rewrite PC; exact H1).
  unfold Inv. simpl. apply invat_set_pc. destruct H1. constructor; simpl in *; auto.
  apply Forall_app in i_hb0. apply Forall_app. split; try tauto. constructor; auto. lia.
Qed.

Lemma invat_map_hb : forall p s f,
  (forall w, w_pid (f w) = w_pid w /\ w_age (f w) = w_age w /\ (w_hb (f w) = w_hb w \/ w_hb (f w) = mono s)) ->
  InvAt p s -> InvAt p (set_workers s (map f (workers s))).
Proof.
  intros p s f Hf H.
  assert (E1 : map w_age (map f (workers s)) = map w_age (workers s)).
  { rewrite map_map. apply map_ext. intros w. destruct (Hf w) as [_ [E _]]. auto. }
  assert (E2 : pids (map f (workers s)) = pids (workers s)).
  { unfold pids. rewrite map_map. apply map_ext. intros w. destruct (Hf w) as [E _]. auto. }
  destruct H. constructor; simpl; rewrite ?E1, ?E2; auto.
  apply Forall_app in i_hb0. apply Forall_app. destruct i_hb0 as [H1 H2]. split; auto.
  rewrite Forall_forall in *. intros x Hx. rewrite map_map in Hx. apply in_map_iff in Hx. destruct Hx as [w [<- Hw]].
  destruct (Hf w) as [_ [_ [E|E]]]; rewrite E; try lia. apply H1. apply in_map. auto.
Qed.

Lemma invat_set_hb_at : forall p s q t, InvAt p s -> t <= mono s -> InvAt p (set_workers s (set_hb q t (workers s))).
Proof.
  intros p s q t H Ht. destruct H. constructor; simpl; auto; try rewrite ages_set_hb; try rewrite pids_set_hb; auto.
  apply Forall_app in i_hb0. apply Forall_app. destruct i_hb0 as [H1 H2]. split; auto.
  clear - H1 Ht. induction (workers s); simpl; auto. inversion H1; subst.
  destruct (w_pid a =? q); simpl; constructor; auto.
Qed.

Lemma inv_notify_at : forall s q t, Inv s -> Inv (notify_at s q t).
Proof.
  intros s q t H. unfold notify_at. destruct (find_kid q (kids s)); auto.
  destruct (is_running c && negb (c_master c) && (t <=? mono s)) eqn:E; auto.
  apply andb_true_iff in E. destruct E as [_ E]. apply Z.leb_le in E.
  assert (H1 : InvAt (cur s) (set_workers s (set_hb q t (workers s)))) by (apply invat_set_hb_at; auto).
  simpl. destruct (cur s) eqn:PC; try (unfold Inv; simpl; rewrite PC; exact H1).
  destruct (p =? q); try (unfold Inv; simpl; rewrite PC; exact H1).
  unfold Inv. simpl. apply invat_set_pc. destruct H1. constructor; simpl in *; auto.
  apply Forall_app in i_hb0. apply Forall_app. split; try tauto. constructor; auto.
Qed.

Lemma inv_notify_all : forall s, Inv s -> Inv (notify_all s).
Proof.
  intros s H.
  pose (f := fun w : wk => if live_pid (kids s) (w_pid w) then mkWk (w_pid w) (w_age w) (w_aborted w) (mono s) else w).
  assert (H1 : InvAt (cur s) (set_workers s (map f (workers s)))).
  { apply invat_map_hb; auto. intros w. unfold f. destruct (live_pid (kids s) (w_pid w)); simpl; auto. }
  unfold notify_all. fold f. cbn [cur set_workers kids mono].
  destruct (cur s) eqn:PC; try (unfold Inv; cbn [cur set_workers]; rewrite PC; exact H1).
  destruct (live_pid (kids s) p); try (unfold Inv; cbn [cur set_workers]; rewrite PC; exact H1).
  unfold Inv. cbn [cur set_pc]. apply invat_set_pc. destruct H1. constructor; simpl in *; auto.
  apply Forall_app in i_hb0. apply Forall_app. split; try tauto. constructor; auto. lia.
Qed.

Lemma inv_exit_told : forall s, Inv s -> Inv (exit_told s).
Proof.
  intros s H. unfold Inv, exit_told. cbn [cur set_kids]. apply invat_kids; auto.
  - unfold kpids. rewrite map_map. apply map_ext. intros c. destruct (told c); auto.
  - intros c' Hc'. apply in_map_iff in Hc'. destruct Hc' as [c [E Hc]]. exists c. split; auto.
    destruct (told c); subst; simpl; repeat split; auto.
Qed.

Theorem inv_step : forall s l, Inv s -> Inv (step s l).
Proof.
  intros s l H. destruct l.
  - apply inv_master; auto.
  - apply inv_chld; auto.
  - apply inv_exit; auto.
  - apply inv_sig; auto.
  - simpl. destruct (0 <=? dt) eqn:E; auto. unfold Inv. simpl. apply invat_advance; auto. apply Z.leb_le; auto.
  - apply inv_notify; auto.
  - simpl. destruct ((0 <=? w) && (0 <=? t)) eqn:E; auto. apply andb_true_iff in E. destruct E as [E1 E2].
    unfold Inv. simpl. apply invat_set_disk; auto; apply Z.leb_le; auto.
  - unfold Inv. simpl. apply invat_set_orphan; auto.
  - apply inv_exit_told; auto.
  - apply inv_notify_all; auto.
  - apply inv_notify_at; auto.
Qed.

Theorem inv_run : forall ls s, Inv s -> Inv (run s ls).
Proof. induction ls; simpl; intros; auto. apply IHls. apply inv_step. auto. Qed.

Lemma inv_init : forall w t g napt mpid, 0 <= w -> 0 <= t -> 0 <= napt -> Inv (init w t g napt mpid).
Proof.
  intros. unfold Inv, init. constructor; simpl; auto; try lia.
  split. vm_compute. discriminate. constructor.
Qed.

Definition valid_cfg (w t napt : Z) : Prop := 0 <= w /\ 0 <= t /\ 0 <= napt.
Definition reachable (s : st) : Prop :=
  exists w t g napt mpid ls, valid_cfg w t napt /\ s = run (init w t g napt mpid) ls.

Theorem inv_reachable : forall s, reachable s -> Inv s.
Proof.
  intros s [w [t [g [napt [mpid [ls [[H1 [H2 H3]] ->]]]]]]]. apply inv_run. apply inv_init; auto.
Qed.
