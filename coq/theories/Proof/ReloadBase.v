(* C10 - list lemmas for Model/Reload.v: the age order of WORKERS, the victims of manage_workers *)
From Coq Require Import List ZArith Bool Lia.
From GV Require Import Gen.GenArbiter Model.Reload.
Import ListNotations.
Local Open Scope Z_scope.

Fixpoint sorted (l : list wk) : Prop :=
  match l with
  | [] => True
  | x :: t => (forall y, In y t -> w_age x < w_age y) /\ sorted t
  end.

Lemma sorted_app_one : forall l w, sorted l -> (forall y, In y l -> w_age y < w_age w) -> sorted (l ++ [w]).
Proof.
  induction l as [|x t IH]; simpl; intros w S H.
  - split; auto. intros y [].
  - destruct S as [S1 S2]. split.
    + intros y Hy. apply in_app_or in Hy. destruct Hy as [Hy|[Hy|[]]]; auto. subst y. apply H. auto.
    + apply IH; auto.
Qed.

Lemma sorted_filter : forall f l, sorted l -> sorted (filter f l).
Proof.
  induction l as [|x t IH]; simpl; intros S; auto. destruct S as [S1 S2].
  destruct (f x); simpl; auto. split; auto. intros y Hy. apply filter_In in Hy. apply S1. tauto.
Qed.

Lemma insert_smallest : forall x t, (forall y, In y t -> w_age x < w_age y) -> insert_by_age x t = x :: t.
Proof.
  intros x t H. destruct t as [|y t']; simpl; auto.
  assert (w_age x < w_age y) by (apply H; simpl; auto).
  assert (E : (w_age x <? w_age y) = true) by (apply Z.ltb_lt; auto). rewrite E. reflexivity.
Qed.

(* sorted(WORKERS.items(), key=age) of a dict whose insertion order is the age order *)
Lemma sort_sorted_id : forall l, sorted l -> sort_by_age l = l.
Proof.
  induction l as [|x t IH]; simpl; intros S; auto. destruct S as [S1 S2].
  change (sort_by_age (x :: t)) with (insert_by_age x (sort_by_age t)). rewrite IH; auto. apply insert_smallest; auto.
Qed.

(* the workers that are not younger than a form a prefix *)
Lemma old_prefix : forall a l, sorted l ->
  firstn (length (filter (fun w => negb (a <? w_age w)) l)) l = filter (fun w => negb (a <? w_age w)) l.
Proof.
  induction l as [|x t IH]; simpl; intros S; auto. destruct S as [S1 S2].
  destruct (a <? w_age x) eqn:E; simpl.
  - (* x is young: so is everything after it *)
    apply Z.ltb_lt in E.
    assert (F : filter (fun w => negb (a <? w_age w)) t = []).
    { clear IH. induction t as [|y t' IH']; simpl; auto.
      assert (w_age x < w_age y) by (apply S1; simpl; auto).
      assert (Ey : (a <? w_age y) = true) by (apply Z.ltb_lt; lia). rewrite Ey. simpl.
      apply IH'.
      - intros z Hz. apply S1. simpl. auto.
      - destruct S2; auto. }
    rewrite F. reflexivity.
  - f_equal. apply IH; auto.
Qed.

Lemma filter_length_split : forall (A : Type) (f : A -> bool) l,
  (length (filter f l) + length (filter (fun x => negb (f x)) l) = length l)%nat.
Proof. induction l; simpl; auto. destruct (f a); simpl; lia. Qed.

Lemma filter_length_le' : forall (A : Type) (f : A -> bool) l, (length (filter f l) <= length l)%nat.
Proof. induction l; simpl; auto. destruct (f a); simpl; lia. Qed.

Lemma filter_all_true' : forall (A : Type) (f : A -> bool) l, (forall x, In x l -> f x = true) -> filter f l = l.
Proof. induction l; simpl; intros; auto. rewrite H by auto. f_equal. apply IHl. auto. Qed.

Lemma NoDup_app_one : forall (l : list Z) x, NoDup l -> ~ In x l -> NoDup (l ++ [x]).
Proof.
  induction l as [|y t IH]; simpl; intros x N H.
  - constructor; auto.
  - inversion N; subst. constructor.
    + intros Q. apply in_app_or in Q. destruct Q as [Q|[Q|[]]]; auto.
    + apply IH; auto.
Qed.

Lemma remove_wk_In : forall p x l, In x (remove_wk p l) <-> In x l /\ w_pid x <> p.
Proof. unfold remove_wk; intros. rewrite filter_In. rewrite negb_true_iff, Z.eqb_neq. tauto. Qed.

Lemma filter_filter_comm : forall (A : Type) (f g : A -> bool) l, filter f (filter g l) = filter g (filter f l).
Proof. induction l; simpl; auto. destruct (g a) eqn:G; destruct (f a) eqn:F; simpl; rewrite ?G, ?F; congruence. Qed.

(* ---- the kernel -------------------------------------------------------------------------------------------------- *)
Lemma sig_kid_pid : forall p sg c, k_pid (sig_kid p sg c) = k_pid c.
Proof. intros. unfold sig_kid. destruct ((k_pid c =? p) && negb (k_zomb c)); reflexivity. Qed.

Lemma sig_kid_other : forall p sg c, k_pid c <> p -> sig_kid p sg c = c.
Proof. intros. unfold sig_kid. apply Z.eqb_neq in H. rewrite H. reflexivity. Qed.

Lemma kill_in_none : forall l p sg, kill_in l p sg = None -> ~ In p (map k_pid l).
Proof.
  unfold kill_in; intros l p sg H Hin. destruct (existsb (fun c => k_pid c =? p) l) eqn:E; [discriminate|].
  apply in_map_iff in Hin. destruct Hin as [c [Hp Hc]].
  assert (existsb (fun c => k_pid c =? p) l = true).
  { apply existsb_exists. exists c. split; auto. apply Z.eqb_eq; auto. }
  congruence.
Qed.

Lemma kill_in_some : forall l p sg l', kill_in l p sg = Some l' -> l' = map (sig_kid p sg) l.
Proof. unfold kill_in; intros. destruct (existsb _ l); inversion H; reflexivity. Qed.

Lemma first_zombie_spec : forall l z r, first_zombie l = Some (z, r) ->
  k_zomb z = true /\ exists l1 l2, l = l1 ++ z :: l2 /\ r = l1 ++ l2.
Proof.
  induction l as [|c t IH]; simpl; intros z r H; [discriminate|].
  destruct (k_zomb c) eqn:Z.
  - inversion H; subst. split; auto. exists [], r. auto.
  - destruct (first_zombie t) as [[z' t']|] eqn:F; [|discriminate]. inversion H; subst; clear H.
    destruct (IH _ _ eq_refl) as [A [l1 [l2 [B C]]]]. split; auto.
    exists (c :: l1), l2. subst. auto.
Qed.
