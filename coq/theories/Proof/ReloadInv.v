(* C10 - the generation invariant of Model/Reload.v, for every schedule in which workers only die when told to *)
From Coq Require Import List ZArith Bool Lia.
From GV Require Import Gen.GenArbiter Model.Reload Proof.ReloadBase.
Import ListNotations.
Local Open Scope Z_scope.

Definition isnew (a : Z) (w : wk) : bool := a <? w_age w.
Definition isold (a : Z) (w : wk) : bool := negb (a <? w_age w).
Definition cnew (s : st) : Z := Z.of_nat (length (filter (isnew (hup_age s)) (workers s))).

(* the process of worker pid p is running and was not told to stop *)
Definition fitk (p : Z) (c : kid) : bool := (k_pid c =? p) && negb (k_zomb c) && negb (told c).
Definition fit (ks : list kid) (p : Z) : Prop := exists k, In k ks /\ fitk p k = true.

Lemma retired_unfit : forall s w, retired s w = negb (existsb (fitk (w_pid w)) (kids s)).
Proof. reflexivity. Qed.

Lemma fit_not_retired : forall s w, fit (kids s) (w_pid w) -> retired s w = false.
Proof.
  intros s w [k [Hk F]]. rewrite retired_unfit. apply negb_false_iff. apply existsb_exists. exists k. auto.
Qed.

Lemma not_retired_fit : forall s w, retired s w = false -> fit (kids s) (w_pid w).
Proof.
  intros s w H. rewrite retired_unfit in H. apply negb_false_iff in H. apply existsb_exists in H. exact H.
Qed.

Lemma fitk_pid : forall p c, fitk p c = true -> k_pid c = p /\ k_zomb c = false /\ told c = false.
Proof.
  unfold fitk. intros p c H. apply andb_true_iff in H. destruct H as [H T]. apply andb_true_iff in H. destruct H as [P Z].
  apply Z.eqb_eq in P. apply negb_true_iff in Z. apply negb_true_iff in T. auto.
Qed.

(* ---- how the kernel operations treat fit / unfit ---------------------------------------------------------------------- *)
(* an operation that maps kids one by one, keeps pids and never makes a child fit again *)
Definition shrinking (f : kid -> kid) : Prop := forall c p, fitk p (f c) = true -> fitk p c = true.

Lemma unfit_map : forall f ks p, shrinking f -> existsb (fitk p) (map f ks) = true -> existsb (fitk p) ks = true.
Proof.
  intros f ks p Sh H. apply existsb_exists in H. destruct H as [c' [Hin F]]. apply in_map_iff in Hin.
  destruct Hin as [c [E Hc]]. subst c'. apply existsb_exists. exists c. split; auto.
Qed.

Lemma sig_kid_shrinking : forall q sg, shrinking (sig_kid q sg).
Proof.
  intros q sg c p H. unfold sig_kid in H. destruct ((k_pid c =? q) && negb (k_zomb c)) eqn:E; auto.
  apply fitk_pid in H. simpl in H. destruct H as [P [Z T]]. unfold fitk. rewrite P, Z.eqb_refl. simpl.
  apply andb_true_iff in E. destruct E as [_ E]. rewrite E. simpl.
  unfold told in *. simpl in T. apply orb_false_iff in T. destruct T as [_ T]. rewrite T. reflexivity.
Qed.

Lemma exit_told_shrinking : forall q, shrinking (fun c => if (k_pid c =? q) && negb (k_zomb c) && told c then mkKid (k_pid c) true 0 (k_sigs c) else c).
Proof.
  intros q c p H. destruct ((k_pid c =? q) && negb (k_zomb c) && told c); auto.
  apply fitk_pid in H. simpl in H. destruct H as [_ [Z _]]. discriminate.
Qed.

(* SIGTERM to q leaves the fit children other than q alone; so does the exit of a told child *)
Lemma fit_sig_kid : forall ks p q sg, p <> q -> fit ks p -> fit (map (sig_kid q sg) ks) p.
Proof.
  intros ks p q sg Ne [k [Hk F]]. exists k. split; auto. apply in_map_iff. exists k. split; auto.
  apply sig_kid_other. destruct (fitk_pid _ _ F) as [P _]. congruence.
Qed.

Lemma fit_exit_told : forall ks p q, fit ks p -> fit (exit_told_kid q ks) p.
Proof.
  intros ks p q [k [Hk F]]. exists k. split; auto. unfold exit_told_kid. apply in_map_iff. exists k. split; auto.
  destruct (fitk_pid _ _ F) as [_ [_ T]]. rewrite T. rewrite andb_false_r. reflexivity.
Qed.

Lemma fit_app : forall ks p c, fit ks p -> fit (ks ++ [c]) p.
Proof. intros ks p c [k [Hk F]]. exists k. split; auto. apply in_or_app. auto. Qed.

Lemma fit_remove_zombie : forall l1 l2 z p, k_zomb z = true -> fit (l1 ++ z :: l2) p -> fit (l1 ++ l2) p.
Proof.
  intros l1 l2 z p Z [k [Hk F]]. exists k. split; auto.
  apply in_app_or in Hk. apply in_or_app. destruct Hk as [Hk|[Hk|Hk]]; auto.
  subst k. destruct (fitk_pid _ _ F) as [_ [Zk _]]. congruence.
Qed.

Lemma unfit_sublist : forall l1 l2 z p, existsb (fitk p) (l1 ++ l2) = true -> existsb (fitk p) (l1 ++ z :: l2) = true.
Proof.
  intros. apply existsb_exists in H. destruct H as [k [Hk F]]. apply existsb_exists. exists k. split; auto.
  apply in_app_or in Hk. apply in_or_app. destruct Hk; auto. right. right. auto.
Qed.

Lemma unfit_app_fresh : forall ks c p, k_pid c <> p -> existsb (fitk p) (ks ++ [c]) = existsb (fitk p) ks.
Proof.
  intros. rewrite existsb_app. simpl. unfold fitk at 2. apply Z.eqb_neq in H. rewrite H. simpl. rewrite orb_false_r. reflexivity.
Qed.

(* ---- counting the new generation ------------------------------------------------------------------------------------------ *)
Lemma cnew_le_wlen : forall s, cnew s <= wlen s.
Proof. intros. unfold cnew, wlen. pose proof (filter_length_le' _ (isnew (hup_age s)) (workers s)). lia. Qed.

Lemma filter_remove_new : forall a p l, (forall w, In w l -> isnew a w = true -> w_pid w <> p) ->
  filter (isnew a) (remove_wk p l) = filter (isnew a) l.
Proof.
  intros a p l H. unfold remove_wk. rewrite filter_filter_comm.
  apply filter_all_true'. intros w Hw. apply filter_In in Hw. destruct Hw as [Hw Hn].
  apply negb_true_iff. apply Z.eqb_neq. auto.
Qed.

(* ================================================================================================ *)
(* the invariant                                                                                    *)
(* ================================================================================================ *)
Definition pc_inv (s : st) : Prop :=
  match cur s with
  | PSigq | PSelect =>
      cnew s = num s /\ (forall w, In w (workers s) -> isold (hup_age s) w = true -> retired s w = true)
  | PManageLen | PSpawnCount | PManageSort => cnew s = num s
  | PManageKill v =>
      cnew s = num s /\
      (forall w, In w (workers s) -> isold (hup_age s) w = true -> retired s w = false -> In (w_pid w) v) /\
      (forall w, In w (workers s) -> isnew (hup_age s) w = true -> ~ In (w_pid w) v)
  | PFork age (KReload n) =>
      age = wage s /\ cnew s + Z.of_nat n + 1 = num s /\ (forall w, In w (workers s) -> w_age w < age) /\ hup_age s < age
  | PRegister p age (KReload n) =>
      age = wage s /\ cnew s + Z.of_nat n + 1 = num s /\ (forall w, In w (workers s) -> w_age w < age) /\ hup_age s < age /\
      fit (kids s) p /\ p < next_pid s /\ ~ In p (pids (workers s))
  | PFork _ (KSpawn _) | PRegister _ _ (KSpawn _) | PNap _ => False
  end.

Record GInv (s : st) : Prop := mkG {
  g_sorted : sorted (workers s);
  g_ages : forall w, In w (workers s) -> w_age w <= wage s;
  g_hup : hup_age s <= wage s;
  g_kpids : NoDup (map k_pid (kids s));
  g_kbound : forall k, In k (kids s) -> k_pid k < next_pid s;
  g_wbound : forall w, In w (workers s) -> w_pid w < next_pid s;
  g_new_fit : forall w, In w (workers s) -> isnew (hup_age s) w = true -> fit (kids s) (w_pid w);
  g_new_cfg : forall w, In w (workers s) -> isnew (hup_age s) w = true -> w_cfg w = cfgid s /\ w_lsn w = lsn s;
  g_cfg : 0 <= disk_w s /\ 0 <= num s;     (* num s = cfgw s: Proof/ReloadCount.v (it needs a reload to have happened when TTIN / TTOU came first) *)
  g_pc : pc_inv s;
  g_wpids : NoDup (pids (workers s));
  g_sigq : forall sg, In sg (sigq s) -> sg = SIGHUP     (* no TTIN / TTOU under way: those schedules are Proof/ReloadSafe.v's *)
}.

(* pc_inv only reads workers, kids, num, wage, hup_age, next_pid *)
Lemma pc_inv_kids : forall s ks,
  (forall p, fit (kids s) p -> fit ks p) ->
  (forall p, existsb (fitk p) ks = true -> existsb (fitk p) (kids s) = true) ->
  pc_inv s -> pc_inv (set_kids s ks).
Proof.
  intros s ks F U H. unfold pc_inv in *. simpl. destruct (cur s); auto.
  - destruct H as [H1 H2]. split; auto. intros w Hw Ho. specialize (H2 w Hw Ho).
    rewrite retired_unfit in *. simpl. apply negb_true_iff in H2. apply negb_true_iff.
    destruct (existsb (fitk (w_pid w)) ks) eqn:E; auto. rewrite (U _ E) in H2. discriminate.
  - destruct H as [H1 H2]. split; auto. intros w Hw Ho. specialize (H2 w Hw Ho).
    rewrite retired_unfit in *. simpl. apply negb_true_iff in H2. apply negb_true_iff.
    destruct (existsb (fitk (w_pid w)) ks) eqn:E; auto. rewrite (U _ E) in H2. discriminate.
  - destruct k; auto. destruct H as [A [B [C [D [E [G I]]]]]]. repeat split; auto.
  - destruct H as [H1 [H2 H3]]. split; auto. split; auto. intros w Hw Ho Hr. apply H2; auto.
    rewrite retired_unfit in *. simpl in Hr. apply negb_false_iff in Hr. apply negb_false_iff. apply U. auto.
Qed.

(* ---- environment labels ------------------------------------------------------------------------------------------------- *)
Lemma exit_told_pids : forall p l, map k_pid (exit_told_kid p l) = map k_pid l.
Proof.
  intros. unfold exit_told_kid. rewrite map_map. apply map_ext. intros c.
  destruct ((k_pid c =? p) && negb (k_zomb c) && told c); reflexivity.
Qed.

Lemma step_exit_told : forall s p, GInv s -> GInv (step s (ExitTold p)).
Proof.
  intros s p [S A H K KB WB NF NC CF PC WP SQ]. simpl. constructor; simpl; auto.
  - rewrite exit_told_pids. auto.
  - intros k Hk. unfold exit_told_kid in Hk. apply in_map_iff in Hk. destruct Hk as [c [E Hc]].
    destruct ((k_pid c =? p) && negb (k_zomb c) && told c); subst k; simpl; auto.
  - intros w Hw Hn. apply fit_exit_told. auto.
  - apply pc_inv_kids; auto.
    + intros q. apply fit_exit_told.
    + intros q. unfold exit_told_kid. apply unfit_map. apply exit_told_shrinking.
Qed.

Lemma step_hup : forall s, GInv s -> GInv (step s Hup).
Proof.
  intros s G. simpl. unfold queue_sig. destruct (Z.of_nat (length (sigq s)) <? sig_queue_max); auto.
  destruct G as [S A H K KB WB NF NC CF PC WP SQ]. constructor; simpl; auto.
  intros sg Hsg. apply in_app_or in Hsg. destruct Hsg as [Hsg|[Hsg|[]]]; auto.
Qed.

Lemma step_edit : forall s w a, GInv s -> GInv (step s (Edit w a)).
Proof.
  intros s w a G. simpl. destruct (0 <=? w) eqn:E; auto. apply Z.leb_le in E.
  destruct G as [S A H K KB WB NF NC [C2 C3] PC WP SQ]. constructor; simpl; auto.
Qed.

Lemma nodup_pids_remove : forall p l, NoDup (pids l) -> NoDup (pids (remove_wk p l)).
Proof.
  intros p l. unfold pids, remove_wk. induction l as [|x t IH]; simpl; intros H; auto.
  inversion H; subst. destruct (negb (w_pid x =? p)); simpl; auto. constructor; auto.
  intros Q. apply H2. apply in_map_iff in Q. destruct Q as [w [E Hw]]. apply filter_In in Hw. apply in_map_iff. exists w. tauto.
Qed.

(* ---- the SIGCHLD handler ----------------------------------------------------------------------------------------------------- *)
Lemma NoDup_map_remove : forall (l1 l2 : list kid) z,
  NoDup (map k_pid (l1 ++ z :: l2)) -> NoDup (map k_pid (l1 ++ l2)) /\ ~ In (k_pid z) (map k_pid (l1 ++ l2)).
Proof.
  intros. rewrite map_app in *. simpl in H. split.
  - eapply NoDup_remove_1; eauto.
  - eapply NoDup_remove_2; eauto.
Qed.

Lemma fit_in_pids : forall ks p, fit ks p -> In p (map k_pid ks).
Proof. intros ks p [k [Hk F]]. destruct (fitk_pid _ _ F) as [P _]. rewrite <- P. apply in_map. auto. Qed.

Lemma reap_one : forall s z rest, first_zombie (kids s) = Some (z, rest) -> GInv s ->
  GInv (set_workers (set_kids s rest) (remove_wk (k_pid z) (workers s))).
Proof.
  intros s z rest F [S A H K KB WB NF NC CF PC WP SQ].
  destruct (first_zombie_spec _ _ _ F) as [Z [l1 [l2 [E1 E2]]]].
  rewrite E1 in K. destruct (NoDup_map_remove _ _ _ K) as [K1 K2]. rewrite <- E2 in K1, K2.
  assert (Sub : forall k, In k rest -> In k (kids s)).
  { intros k Hk. rewrite E1. subst rest. apply in_app_or in Hk. apply in_or_app. destruct Hk; [left|right; right]; auto. }
  assert (Fit : forall p, fit (kids s) p -> fit rest p).
  { intros p Hp. rewrite E1 in Hp. subst rest. eapply fit_remove_zombie; eauto. }
  assert (Unfit : forall p, existsb (fitk p) rest = true -> existsb (fitk p) (kids s) = true).
  { intros p Hp. rewrite E1. subst rest. apply unfit_sublist. auto. }
  assert (NewNe : forall w, In w (workers s) -> isnew (hup_age s) w = true -> w_pid w <> k_pid z).
  { intros w Hw Hn Q. apply K2. rewrite <- Q. apply fit_in_pids. apply Fit. apply NF; auto. }
  assert (Cn : filter (isnew (hup_age s)) (remove_wk (k_pid z) (workers s)) = filter (isnew (hup_age s)) (workers s)).
  { apply filter_remove_new. auto. }
  constructor; simpl; auto.
  - apply sorted_filter. auto.
  - intros w Hw. apply remove_wk_In in Hw. apply A. tauto.
  - intros w Hw. apply remove_wk_In in Hw. apply WB. tauto.
  - intros w Hw Hn. apply remove_wk_In in Hw. apply Fit. apply NF; tauto.
  - intros w Hw Hn. apply remove_wk_In in Hw. apply NC; tauto.
  - unfold pc_inv in *. simpl. unfold cnew in *. simpl. rewrite Cn. destruct (cur s); auto.
    + destruct PC as [P1 P2]. split; auto. intros w Hw Ho. apply remove_wk_In in Hw. destruct Hw as [Hw _].
      specialize (P2 w Hw Ho). rewrite retired_unfit in *. simpl. apply negb_true_iff in P2. apply negb_true_iff.
      destruct (existsb (fitk (w_pid w)) rest) eqn:E; auto. rewrite (Unfit _ E) in P2. discriminate.
    + destruct PC as [P1 P2]. split; auto. intros w Hw Ho. apply remove_wk_In in Hw. destruct Hw as [Hw _].
      specialize (P2 w Hw Ho). rewrite retired_unfit in *. simpl. apply negb_true_iff in P2. apply negb_true_iff.
      destruct (existsb (fitk (w_pid w)) rest) eqn:E; auto. rewrite (Unfit _ E) in P2. discriminate.
    + destruct k; auto. destruct PC as [P1 [P2 [P3 P4]]]. repeat split; auto.
      intros w Hw. apply remove_wk_In in Hw. apply P3. tauto.
    + destruct k; auto. destruct PC as [P1 [P2 [P3 [P4 [P5 [P6 P7]]]]]]. repeat split; auto.
      * intros w Hw. apply remove_wk_In in Hw. apply P3. tauto.
      * intros Q. apply P7. unfold pids in *. apply in_map_iff in Q. destruct Q as [w [E Hw]]. apply remove_wk_In in Hw.
        apply in_map_iff. exists w. tauto.
    + destruct PC as [P1 [P2 P3]]. split; auto. split.
      * intros w Hw Ho Hr. apply remove_wk_In in Hw. destruct Hw as [Hw _]. apply P2; auto.
        rewrite retired_unfit in *. simpl in Hr. apply negb_false_iff in Hr. apply negb_false_iff. apply Unfit. auto.
      * intros w Hw Hn. apply remove_wk_In in Hw. apply P3; tauto.
  - apply nodup_pids_remove. auto.
Qed.

Lemma reap_ginv : forall fuel s, GInv s -> GInv (reap fuel s).
Proof.
  induction fuel; simpl; intros s G; auto.
  destruct (first_zombie (kids s)) as [[z rest]|] eqn:F; auto.
  apply IHfuel. apply reap_one; auto.
Qed.

Lemma step_chld : forall s, GInv s -> GInv (step s Chld).
Proof. intros. simpl. unfold chld. apply reap_ginv. auto. Qed.

(* ---- the master's own steps ------------------------------------------------------------------------------------------------ *)
Lemma no_new_after_hup : forall s, (forall w, In w (workers s) -> w_age w <= wage s) ->
  filter (isnew (wage s)) (workers s) = [].
Proof.
  intros s A. induction (workers s) as [|x t IH]; simpl; auto.
  assert (E : isnew (wage s) x = false).
  { unfold isnew. apply Z.ltb_ge. apply A. simpl. auto. }
  rewrite E. apply IH. intros w Hw. apply A. simpl. auto.
Qed.

Lemma olds_are_prefix : forall s, sorted (workers s) -> cnew s = num s ->
  firstn (Z.to_nat (wlen s - num s)) (sort_by_age (workers s)) = filter (isold (hup_age s)) (workers s).
Proof.
  intros s S C. rewrite sort_sorted_id by auto.
  assert (L : Z.to_nat (wlen s - num s) = length (filter (isold (hup_age s)) (workers s))).
  { unfold cnew, wlen in *. pose proof (filter_length_split _ (isnew (hup_age s)) (workers s)) as Q.
    unfold isold. unfold isnew in *. lia. }
  rewrite L. unfold isold. apply old_prefix. auto.
Qed.

Lemma fork_step : forall s age n, GInv s -> cur s = PFork age (KReload n) ->
  GInv (set_pc (set_fork s (kids s ++ [mkKid (next_pid s) false 0 []]) (next_pid s + 1)) (PRegister (next_pid s) age (KReload n))).
Proof.
  intros s age n [S A H K KB WB NF NC CF PC WP SQ] E. unfold pc_inv in PC. rewrite E in PC. destruct PC as [P1 [P2 [P3 P4]]].
  constructor; simpl; auto.
  - rewrite map_app. simpl. apply NoDup_app_one; auto. intros Q. apply in_map_iff in Q. destruct Q as [k [Ek Hk]].
    pose proof (KB k Hk). lia.
  - intros k Hk. apply in_app_or in Hk. destruct Hk as [Hk|[Hk|[]]]; [pose proof (KB k Hk); lia|subst k; simpl; lia].
  - intros w Hw. pose proof (WB w Hw). lia.
  - intros w Hw Hn. apply fit_app. auto.
  - unfold pc_inv. simpl. unfold cnew in *. simpl. repeat split; auto; try lia.
    + exists (mkKid (next_pid s) false 0 []). split; [apply in_or_app; right; simpl; auto|].
      unfold fitk. simpl. rewrite Z.eqb_refl. reflexivity.
    + intros Q. unfold pids in Q. apply in_map_iff in Q. destruct Q as [w [Ew Hw]]. pose proof (WB w Hw). lia.
Qed.

Lemma filter_app_one : forall (f : wk -> bool) l x, filter f (l ++ [x]) = filter f l ++ (if f x then [x] else []).
Proof. intros. rewrite filter_app. simpl. destruct (f x); reflexivity. Qed.

Lemma register_step : forall s p age n, GInv s -> cur s = PRegister p age (KReload n) ->
  GInv (after_register (set_workers s (workers s ++ [mkWk p age (cfgid s) (lsn s)])) (KReload n)).
Proof.
  intros s p age n [S A H K KB WB NF NC CF PC WP SQ] E. unfold pc_inv in PC. rewrite E in PC.
  destruct PC as [P1 [P2 [P3 [P4 [P5 [P6 P7]]]]]].
  set (nw := mkWk p age (cfgid s) (lsn s)).
  assert (New : isnew (hup_age s) nw = true) by (unfold isnew; simpl; apply Z.ltb_lt; auto).
  assert (Cn : Z.of_nat (length (filter (isnew (hup_age s)) (workers s ++ [nw]))) = cnew s + 1).
  { rewrite filter_app_one, New, app_length. simpl. unfold cnew. lia. }
  assert (Base : sorted (workers s ++ [nw]) /\ (forall w, In w (workers s ++ [nw]) -> w_age w <= wage s) /\
                 (forall w, In w (workers s ++ [nw]) -> w_pid w < next_pid s) /\
                 (forall w, In w (workers s ++ [nw]) -> isnew (hup_age s) w = true -> fit (kids s) (w_pid w)) /\
                 (forall w, In w (workers s ++ [nw]) -> isnew (hup_age s) w = true -> w_cfg w = cfgid s /\ w_lsn w = lsn s) /\
                 NoDup (pids (workers s ++ [nw]))).
  { repeat split.
    - apply sorted_app_one; auto.
    - intros w Hw. apply in_app_or in Hw. destruct Hw as [Hw|[Hw|[]]]; [auto|subst w; simpl; lia].
    - intros w Hw. apply in_app_or in Hw. destruct Hw as [Hw|[Hw|[]]]; [auto|subst w; simpl; lia].
    - intros w Hw Hn. apply in_app_or in Hw. destruct Hw as [Hw|[Hw|[]]]; [auto|subst w; simpl; auto].
    - apply in_app_or in H0. destruct H0 as [Hw|[Hw|[]]]; [apply NC; auto|subst w; reflexivity].
    - apply in_app_or in H0. destruct H0 as [Hw|[Hw|[]]]; [apply NC; auto|subst w; reflexivity].
    - unfold pids. rewrite map_app. simpl. apply NoDup_app_one; auto. }
  destruct Base as [B1 [B2 [B3 [B4 [B5 B6]]]]].
  unfold after_register. destruct n as [|n'].
  - constructor; simpl; auto. unfold pc_inv. simpl. unfold cnew. simpl. lia.
  - unfold begin_spawn. constructor; simpl; auto.
    + intros w Hw. pose proof (B2 w Hw). lia.
    + lia.
    + unfold pc_inv. simpl. unfold cnew. simpl. repeat split; try lia.
      intros w Hw. pose proof (B2 w Hw). lia.
Qed.

Lemma reload_step : forall s q, GInv s -> cur s = PSigq -> sigq s = SIGHUP :: q ->
  GInv (dispatch (set_sigq s q) SIGHUP).
Proof.
  intros s q [So A H K KB WB NF NC [C2 C3] PC WP SQ] E Q.
  unfold dispatch. rewrite Z.eqb_refl.
  assert (NoNew : filter (isnew (wage s)) (workers s) = []) by (apply no_new_after_hup; auto).
  assert (Vac : forall w, In w (workers s) -> isnew (wage s) w = true -> False).
  { intros w Hw Hn. assert (In w (filter (isnew (wage s)) (workers s))) by (apply filter_In; auto). rewrite NoNew in H0. auto. }
  unfold reload. simpl.
  destruct (Z.to_nat (disk_w s)) as [|n] eqn:N.
  - assert (disk_w s = 0) by lia.
    constructor; simpl; auto; try lia.
    + intros w Hw Hn. exfalso. eauto.
    + intros w Hw Hn. exfalso. eauto.
    + unfold pc_inv. simpl. unfold cnew. simpl. rewrite NoNew. simpl. lia.
    + intros sg Hsg. apply SQ. rewrite Q. right. exact Hsg.
  - assert (disk_w s = Z.of_nat (S n)) by lia.
    unfold begin_spawn. simpl. constructor; simpl; auto; try lia.
    + intros w Hw. pose proof (A w Hw). lia.
    + intros w Hw Hn. exfalso. eauto.
    + intros w Hw Hn. exfalso. eauto.
    + unfold pc_inv. simpl. unfold cnew. simpl. rewrite NoNew. simpl. repeat split; try lia.
      intros w Hw. pose proof (A w Hw). lia.
    + intros sg Hsg. apply SQ. rewrite Q. right. exact Hsg.
Qed.

Lemma pids_filter_in : forall (f : wk -> bool) l w, In w l -> f w = true -> In (w_pid w) (pids (filter f l)).
Proof. intros. unfold pids. apply in_map. apply filter_In. auto. Qed.

Lemma sort_step : forall s, GInv s -> cur s = PManageSort ->
  GInv (manage_kill_next s (pids (firstn (Z.to_nat (wlen s - num s)) (sort_by_age (workers s))))).
Proof.
  intros s G E. pose proof G as [S A H K KB WB NF NC CF PC WP SQ]. unfold pc_inv in PC. rewrite E in PC.
  rewrite olds_are_prefix by auto.
  assert (F1 : forall w, In w (workers s) -> isold (hup_age s) w = true -> In (w_pid w) (pids (filter (isold (hup_age s)) (workers s)))).
  { intros w Hw Ho. apply pids_filter_in; auto. }
  assert (F2 : forall w, In w (workers s) -> isnew (hup_age s) w = true -> ~ In (w_pid w) (pids (filter (isold (hup_age s)) (workers s)))).
  { intros w Hw Hn Q. unfold pids in Q. apply in_map_iff in Q. destruct Q as [o [Eo Ho]]. apply filter_In in Ho. destruct Ho as [Ho1 Ho2].
    (* two workers with the same pid are the same worker *)
    assert (o = w).
    { clear -WP Hw Ho1 Eo. unfold pids in WP. induction (workers s) as [|x t IH]; simpl in *; [contradiction|].
      inversion WP; subst. destruct Hw as [Hw|Hw]; destruct Ho1 as [Ho|Ho]; try congruence.
      - subst x. exfalso. apply H1. rewrite <- Eo. apply in_map. auto.
      - subst x. exfalso. apply H1. rewrite Eo. apply in_map. auto.
      - auto. }
    subst o. unfold isold, isnew in *. rewrite Hn in Ho2. discriminate. }
  unfold manage_kill_next. destruct (pids (filter (isold (hup_age s)) (workers s))) as [|p v] eqn:V.
  - (* nobody to retire: there is no old worker at all *)
    unfold to_loop. constructor; simpl; auto. unfold pc_inv. simpl. split; auto.
    intros w Hw Ho. exfalso. apply (F1 w Hw Ho).
  - constructor; simpl; auto. unfold pc_inv. simpl. split; auto. split.
    + intros w Hw Ho _. apply (F1 w Hw Ho).
    + intros w Hw Hn. apply (F2 w Hw Hn).
Qed.

(* SIGTERM to p: afterwards no child with pid p is fit *)
Lemma sig_kid_unfit : forall ks p c, In c (map (sig_kid p SIGTERM) ks) -> fitk p c = false.
Proof.
  intros ks p c Hc. apply in_map_iff in Hc. destruct Hc as [c0 [E _]]. subst c. unfold sig_kid.
  destruct ((k_pid c0 =? p) && negb (k_zomb c0)) eqn:C.
  - unfold fitk, told. cbn [k_pid k_zomb k_sigs existsb]. rewrite (Z.eqb_refl SIGTERM). simpl. rewrite ?andb_false_r. reflexivity.
  - unfold fitk. apply andb_false_iff in C. destruct C as [C|C]; rewrite C; simpl; auto. rewrite andb_false_r. reflexivity.
Qed.

Lemma kill_step : forall s p v, GInv s -> cur s = PManageKill (p :: v) ->
  GInv (manage_kill_next (kill_worker s p SIGTERM) v).
Proof.
  intros s p v G E. pose proof G as [S A H K KB WB NF NC CF PC WP SQ]. unfold pc_inv in PC. rewrite E in PC.
  destruct PC as [P1 [P2 P3]].
  assert (NewNe : forall w, In w (workers s) -> isnew (hup_age s) w = true -> w_pid w <> p).
  { intros w Hw Hn Q. apply (P3 w Hw Hn). rewrite Q. simpl. auto. }
  unfold kill_worker. destruct (kill_in (kids s) p SIGTERM) as [ks|] eqn:KI.
  - apply kill_in_some in KI. subst ks.
    assert (Fit : forall w, In w (workers s) -> isnew (hup_age s) w = true -> fit (map (sig_kid p SIGTERM) (kids s)) (w_pid w)).
    { intros w Hw Hn. apply fit_sig_kid; auto. }
    assert (Unfit : forall q, existsb (fitk q) (map (sig_kid p SIGTERM) (kids s)) = true -> existsb (fitk q) (kids s) = true /\ q <> p).
    { intros q Hq. split; [eapply unfit_map; eauto; apply sig_kid_shrinking|].
      intros Q. subst q. apply existsb_exists in Hq. destruct Hq as [c [Hc Fc]]. rewrite (sig_kid_unfit _ _ _ Hc) in Fc. discriminate. }
    assert (Old : forall w, In w (workers s) -> isold (hup_age s) w = true ->
                  retired (set_kids s (map (sig_kid p SIGTERM) (kids s))) w = false -> In (w_pid w) v).
    { intros w Hw Ho Hr. rewrite retired_unfit in Hr. simpl in Hr. apply negb_false_iff in Hr. destruct (Unfit _ Hr) as [U1 U2].
      assert (In (w_pid w) (p :: v)) by (apply P2; auto; rewrite retired_unfit; apply negb_false_iff; auto).
      simpl in H0. destruct H0; [congruence|auto]. }
    unfold manage_kill_next. destruct v as [|p' v'].
    + unfold to_loop. constructor; simpl; auto.
      * rewrite map_map. erewrite map_ext; [exact K|]. intros c. apply sig_kid_pid.
      * intros k Hk. apply in_map_iff in Hk. destruct Hk as [c [Ec Hc]]. subst k. rewrite sig_kid_pid. auto.
      * unfold pc_inv. simpl. split; auto. intros w Hw Ho.
        destruct (retired (set_kids s (map (sig_kid p SIGTERM) (kids s))) w) eqn:R; auto. exfalso. apply (Old w Hw Ho R).
    + constructor; simpl; auto.
      * rewrite map_map. erewrite map_ext; [exact K|]. intros c. apply sig_kid_pid.
      * intros k Hk. apply in_map_iff in Hk. destruct Hk as [c [Ec Hc]]. subst k. rewrite sig_kid_pid. auto.
      * unfold pc_inv. simpl. split; auto. split; auto.
        intros w Hw Hn Q. apply (P3 w Hw Hn). simpl. auto.
  - (* ESRCH: WORKERS.pop(pid) *)
    apply kill_in_none in KI.
    assert (Cn : filter (isnew (hup_age s)) (remove_wk p (workers s)) = filter (isnew (hup_age s)) (workers s)).
    { apply filter_remove_new. auto. }
    assert (Base : sorted (remove_wk p (workers s)) /\ NoDup (pids (remove_wk p (workers s)))).
    { split; [apply sorted_filter; auto|apply nodup_pids_remove; auto]. }
    destruct Base as [B1 B2].
    unfold manage_kill_next. destruct v as [|p' v'].
    + unfold to_loop. constructor; simpl; auto.
      * intros w Hw. apply remove_wk_In in Hw. apply A; tauto.
      * intros w Hw. apply remove_wk_In in Hw. apply WB; tauto.
      * intros w Hw Hn. apply remove_wk_In in Hw. apply NF; tauto.
      * intros w Hw Hn. apply remove_wk_In in Hw. apply NC; tauto.
      * unfold pc_inv. simpl. unfold cnew in *. simpl. rewrite Cn. split; auto.
        intros w Hw Ho. apply remove_wk_In in Hw. destruct Hw as [Hw Np].
        destruct (retired s w) eqn:R; auto. exfalso.
        assert (In (w_pid w) [p]) by (apply P2; auto). simpl in H0. destruct H0; [congruence|auto].
    + constructor; simpl; auto.
      * intros w Hw. apply remove_wk_In in Hw. apply A; tauto.
      * intros w Hw. apply remove_wk_In in Hw. apply WB; tauto.
      * intros w Hw Hn. apply remove_wk_In in Hw. apply NF; tauto.
      * intros w Hw Hn. apply remove_wk_In in Hw. apply NC; tauto.
      * unfold pc_inv. simpl. unfold cnew in *. simpl. rewrite Cn. split; auto. split.
        -- intros w Hw Ho Hr. apply remove_wk_In in Hw. destruct Hw as [Hw Np].
           assert (In (w_pid w) (p :: p' :: v')) by (apply P2; auto). simpl in H0. destruct H0; [congruence|auto].
        -- intros w Hw Hn Q. apply remove_wk_In in Hw. apply (P3 w); try tauto. simpl. auto.
Qed.

Lemma ginv_set_pc : forall s p', GInv s -> pc_inv (set_pc s p') -> GInv (set_pc s p').
Proof. intros s p' [So A H K KB WB NF NC CF PC WP SQ] P. constructor; simpl; auto. Qed.

Lemma ginv_set_sigq : forall s q, (forall sg, In sg q -> sg = SIGHUP) -> GInv s -> GInv (set_sigq s q).
Proof. intros s q Hq [So A H K KB WB NF NC CF PC WP SQ]. constructor; simpl; auto. Qed.

Lemma master_ginv : forall s, GInv s -> GInv (master s).
Proof.
  intros s G. pose proof G as [So A H K KB WB NF NC CF PC WP SQ]. unfold master. unfold pc_inv in PC.
  destruct (cur s) eqn:E.
  - (* PSigq *)
    destruct (sigq s) as [|sg q] eqn:Q.
    + apply ginv_set_pc; auto; unfold pc_inv; simpl; exact PC.
    + destruct (sg =? SIGHUP) eqn:Hs.
      * apply Z.eqb_eq in Hs. subst sg. apply reload_step; auto.
      * exfalso. rewrite (SQ sg (or_introl eq_refl)) in Hs. rewrite Z.eqb_refl in Hs. discriminate.
  - apply ginv_set_pc; auto; unfold pc_inv; simpl; tauto.
  - destruct (wlen s <? num s); apply ginv_set_pc; auto; unfold pc_inv; simpl; exact PC.
  - destruct (num s - wlen s <=? 0) eqn:N.
    + apply ginv_set_pc; auto; unfold pc_inv; simpl; exact PC.
    + exfalso. apply Z.leb_gt in N. pose proof (cnew_le_wlen s). lia.
  - destruct k; [contradiction|]. apply fork_step; auto.
  - destruct k; [contradiction|]. apply register_step; auto.
  - contradiction.
  - apply sort_step; auto.
  - destruct victims as [|p v].
    + unfold to_loop. apply ginv_set_pc; auto. unfold pc_inv. simpl. destruct PC as [P1 [P2 P3]]. split; auto.
      intros w Hw Ho. destruct (retired s w) eqn:R; auto. exfalso. apply (P2 w Hw Ho R).
    + apply kill_step; auto.
Qed.

(* schedules in which a worker only dies when it was told to *)
Fixpoint told_only (ls : list label) : bool :=
  match ls with
  | [] => true
  | Exit _ _ :: _ => false
  | Ttin :: _ | Ttou :: _ => false      (* the pool is not resized while reloads are under way: Proof/ReloadSafe.v has those *)
  | _ :: t => told_only t
  end.

Lemma run_ginv : forall ls s, told_only ls = true -> GInv s -> GInv (run s ls).
Proof.
  induction ls as [|l t IH]; simpl; intros s T G; auto.
  destruct l; try discriminate; apply IH; auto.
  - apply master_ginv; auto.
  - apply step_chld; auto.
  - apply step_exit_told; auto.
  - apply step_hup; auto.
  - apply step_edit; auto.
Qed.

(* ---- the booted pool ----------------------------------------------------------------------------------------------------------- *)
Lemma boot_workers_spec : forall n l w, In w (boot_workers n l) ->
  exists k, (k < n)%nat /\ w = mkWk (100 + Z.of_nat k) (Z.of_nat k + 1) 0 l.
Proof.
  induction n; simpl; intros l w H; [contradiction|].
  apply in_app_or in H. destruct H as [H|[H|[]]].
  - destruct (IHn l w H) as [k [Hk E]]. exists k. split; auto.
  - exists n. split; auto.
Qed.

Lemma boot_kids_spec : forall n c, In c (boot_kids n) -> exists k, (k < n)%nat /\ c = mkKid (100 + Z.of_nat k) false 0 [].
Proof.
  induction n; simpl; intros c H; [contradiction|].
  apply in_app_or in H. destruct H as [H|[H|[]]].
  - destruct (IHn c H) as [k [Hk E]]. exists k. split; auto.
  - exists n. split; auto.
Qed.

Lemma boot_kids_in : forall n k, (k < n)%nat -> In (mkKid (100 + Z.of_nat k) false 0 []) (boot_kids n).
Proof.
  induction n; simpl; intros k H; [lia|]. apply in_or_app.
  destruct (Nat.eq_dec k n); [subst; right; simpl; auto|left; apply IHn; lia].
Qed.

Lemma boot_sorted : forall n l, sorted (boot_workers n l).
Proof.
  induction n; simpl; intros l; auto. apply sorted_app_one; auto.
  intros y Hy. destruct (boot_workers_spec _ _ _ Hy) as [k [Hk E]]. subst y. simpl. lia.
Qed.

Lemma boot_pids_nodup : forall n l, NoDup (pids (boot_workers n l)).
Proof.
  induction n; intros l; [constructor|]. cbn [boot_workers]. unfold pids. rewrite map_app. cbn [map w_pid].
  apply NoDup_app_one; [apply IHn|].
  intros Q. apply in_map_iff in Q. destruct Q as [w [E Hw]]. destruct (boot_workers_spec _ _ _ Hw) as [k [Hk E2]]. subst w.
  cbn [w_pid] in E. lia.
Qed.

Lemma boot_kpids_nodup : forall n, NoDup (map k_pid (boot_kids n)).
Proof.
  induction n; [constructor|]. cbn [boot_kids]. rewrite map_app. cbn [map k_pid]. apply NoDup_app_one; auto.
  intros Q. apply in_map_iff in Q. destruct Q as [c [E Hc]]. destruct (boot_kids_spec _ _ Hc) as [k [Hk E2]]. subst c.
  cbn [k_pid] in E. lia.
Qed.

Lemma boot_length : forall n l, length (boot_workers n l) = n.
Proof. induction n; simpl; intros; auto. rewrite app_length. simpl. rewrite IHn. lia. Qed.

Lemma init_is_resized : forall n a, init n a = init_resized n (Z.of_nat n) a.
Proof. reflexivity. Qed.

Lemma init_resized_ginv : forall n cw a, 0 <= cw -> GInv (init_resized n cw a).
Proof.
  intros n cw a Hcw. unfold init_resized. constructor; cbn -[Z.add Z.of_nat Z.ltb Z.leb].
  - apply boot_sorted.
  - intros w Hw. destruct (boot_workers_spec _ _ _ Hw) as [k [Hk E]]. subst w. cbn -[Z.add Z.of_nat Z.ltb Z.leb]. lia.
  - lia.
  - apply boot_kpids_nodup.
  - intros c Hc. destruct (boot_kids_spec _ _ Hc) as [k [Hk E]]. subst c. cbn -[Z.add Z.of_nat Z.ltb Z.leb]. lia.
  - intros w Hw. destruct (boot_workers_spec _ _ _ Hw) as [k [Hk E]]. subst w. cbn -[Z.add Z.of_nat Z.ltb Z.leb]. lia.
  - intros w Hw _. destruct (boot_workers_spec _ _ _ Hw) as [k [Hk E]]. subst w. cbn -[Z.add Z.of_nat Z.ltb Z.leb].
    exists (mkKid (100 + Z.of_nat k) false 0 []). split; [apply boot_kids_in; auto|].
    unfold fitk. cbn -[Z.add Z.of_nat Z.ltb Z.leb]. rewrite Z.eqb_refl. reflexivity.
  - intros w Hw _. destruct (boot_workers_spec _ _ _ Hw) as [k [Hk E]]. subst w. cbn -[Z.add Z.of_nat Z.ltb Z.leb]. auto.
  - repeat split; lia.
  - unfold pc_inv. cbn -[Z.add Z.of_nat Z.ltb Z.leb]. unfold cnew. cbn -[Z.add Z.of_nat Z.ltb Z.leb]. split.
    + rewrite filter_all_true'; [rewrite boot_length; reflexivity|].
      intros w Hw. destruct (boot_workers_spec _ _ _ Hw) as [k [Hk E]]. subst w. unfold isnew. cbn -[Z.add Z.of_nat Z.ltb Z.leb]. apply Z.ltb_lt. lia.
    + intros w Hw Ho. destruct (boot_workers_spec _ _ _ Hw) as [k [Hk E]]. subst w. unfold isold, isnew in Ho. cbn -[Z.add Z.of_nat Z.ltb Z.leb] in Ho.
      apply negb_true_iff in Ho. apply Z.ltb_ge in Ho. lia.
  - apply boot_pids_nodup.
  - intros sg [].
Qed.

Lemma init_ginv : forall n a, GInv (init n a).
Proof. intros n a. rewrite init_is_resized. apply init_resized_ginv. lia. Qed.
