(* C10 - the generation invariant of Model/Reload.v, for every schedule in which workers only die when told to *)
From Coq Require Import List ZArith Bool Lia.
From GV Require Import Gen.GenArbiter Model.Reload Proof.ReloadBase.
Import ListNotations.
Local Open Scope Z_scope.

Definition isnew (a : Z) (w : wk) : bool := a <? w_age w.
Definition isold (a : Z) (w : wk) : bool := negb (a <? w_age w).
Definition cnew (s : st) : Z := Z.of_nat (length (filter (isnew (hup_age s)) (workers s))).

(* the process of worker pid p is running and was not told to stop *)
Definition fitk (p : Z) (c : kid) : bool := (k_pid c =? p) && negb (k_zomb c) && negb (told c).
Definition fit (ks : list kid) (p : Z) : Prop := exists k, In k ks /\ fitk p k = true.

Lemma retired_unfit : forall s w, retired s w = negb (existsb (fitk (w_pid w)) (kids s)).
Proof. reflexivity. Qed.

Lemma fit_not_retired : forall s w, fit (kids s) (w_pid w) -> retired s w = false.
Proof.
  intros s w [k [Hk F]]. rewrite retired_unfit. apply negb_false_iff. apply existsb_exists. exists k. auto.
Qed.

Lemma not_retired_fit : forall s w, retired s w = false -> fit (kids s) (w_pid w).
Proof.
  intros s w H. rewrite retired_unfit in H. apply negb_false_iff in H. apply existsb_exists in H. exact H.
Qed.

Lemma fitk_pid : forall p c, fitk p c = true -> k_pid c = p /\ k_zomb c = false /\ told c = false.
Proof.
  unfold fitk. intros p c H. apply andb_true_iff in H. destruct H as [H T]. apply andb_true_iff in H. destruct H as [P Z].
  apply Z.eqb_eq in P. apply negb_true_iff in Z. apply negb_true_iff in T. auto.
Qed.

(* ---- how the kernel operations treat fit / unfit ---------------------------------------------------------------------- *)
(* an operation that maps kids one by one, keeps pids and never makes a child fit again *)
Definition shrinking (f : kid -> kid) : Prop := forall c p, fitk p (f c) = true -> fitk p c = true.

Lemma unfit_map : forall f ks p, shrinking f -> existsb (fitk p) (map f ks) = true -> existsb (fitk p) ks = true.
Proof.
  intros f ks p Sh H. apply existsb_exists in H. destruct H as [c' [Hin F]]. apply in_map_iff in Hin.
  destruct Hin as [c [E Hc]]. subst c'. apply existsb_exists. exists c. split; auto.
Qed.

Lemma sig_kid_shrinking : forall q sg, shrinking (sig_kid q sg).
Proof.
  intros q sg c p H. unfold sig_kid in H. destruct ((k_pid c =? q) && negb (k_zomb c)) eqn:E; auto.
  apply fitk_pid in H. simpl in H. destruct H as [P [Z T]]. unfold fitk. rewrite P, Z.eqb_refl. simpl.
  apply andb_true_iff in E. destruct E as [_ E]. rewrite E. simpl.
  unfold told in *. simpl in T. apply orb_false_iff in T. destruct T as [_ T]. rewrite T. reflexivity.
Qed.

Lemma exit_told_shrinking : forall q, shrinking (fun c => if (k_pid c =? q) && negb (k_zomb c) && told c then mkKid (k_pid c) true 0 (k_sigs c) else c).
Proof.
  intros q c p H. destruct ((k_pid c =? q) && negb (k_zomb c) && told c); auto.
  apply fitk_pid in H. simpl in H. destruct H as [_ [Z _]]. discriminate.
Qed.

(* SIGTERM to q leaves the fit children other than q alone; so does the exit of a told child *)
Lemma fit_sig_kid : forall ks p q sg, p <> q -> fit ks p -> fit (map (sig_kid q sg) ks) p.
Proof.
  intros ks p q sg Ne [k [Hk F]]. exists k. split; auto. apply in_map_iff. exists k. split; auto.
  apply sig_kid_other. destruct (fitk_pid _ _ F) as [P _]. congruence.
Qed.

Lemma fit_exit_told : forall ks p q, fit ks p -> fit (exit_told_kid q ks) p.
Proof.
  intros ks p q [k [Hk F]]. exists k. split; auto. unfold exit_told_kid. apply in_map_iff. exists k. split; auto.
  destruct (fitk_pid _ _ F) as [_ [_ T]]. rewrite T. rewrite andb_false_r. reflexivity.
Qed.

Lemma fit_app : forall ks p c, fit ks p -> fit (ks ++ [c]) p.
Proof. intros ks p c [k [Hk F]]. exists k. split; auto. apply in_or_app. auto. Qed.

Lemma fit_remove_zombie : forall l1 l2 z p, k_zomb z = true -> fit (l1 ++ z :: l2) p -> fit (l1 ++ l2) p.
Proof.
  intros l1 l2 z p Z [k [Hk F]]. exists k. split; auto.
  apply in_app_or in Hk. apply in_or_app. destruct Hk as [Hk|[Hk|Hk]]; auto.
  subst k. destruct (fitk_pid _ _ F) as [_ [Zk _]]. congruence.
Qed.

Lemma unfit_sublist : forall l1 l2 z p, existsb (fitk p) (l1 ++ l2) = true -> existsb (fitk p) (l1 ++ z :: l2) = true.
Proof.
  intros. apply existsb_exists in H. destruct H as [k [Hk F]]. apply existsb_exists. exists k. split; auto.
  apply in_app_or in Hk. apply in_or_app. destruct Hk; auto. right. right. auto.
Qed.

Lemma unfit_app_fresh : forall ks c p, k_pid c <> p -> existsb (fitk p) (ks ++ [c]) = existsb (fitk p) ks.
Proof.
  intros. rewrite existsb_app. simpl. unfold fitk at 2. apply Z.eqb_neq in H. rewrite H. simpl. rewrite orb_false_r. reflexivity.
Qed.

(* ---- counting the new generation ------------------------------------------------------------------------------------------ *)
Lemma cnew_le_wlen : forall s, cnew s <= wlen s.
Proof. intros. unfold cnew, wlen. pose proof (filter_length_le' _ (isnew (hup_age s)) (workers s)). lia. Qed.

Lemma filter_remove_new : forall a p l, (forall w, In w l -> isnew a w = true -> w_pid w <> p) ->
  filter (isnew a) (remove_wk p l) = filter (isnew a) l.
Proof.
  intros a p l H. unfold remove_wk. rewrite filter_filter_comm.
  apply filter_all_true'. intros w Hw. apply filter_In in Hw. destruct Hw as [Hw Hn].
  apply negb_true_iff. apply Z.eqb_neq. auto.
Qed.
