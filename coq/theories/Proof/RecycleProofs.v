(* C18: recycling at max_requests.  Proofs about Model/Recycle.v and the counter block of Model/Handle.v. *)
From Coq Require Import List NArith ZArith Bool Lia.
From GV Require Import Base.Enc Base.Dec Gen.GenErrors Model.Handle Model.Recycle Proof.HandleProofs Proof.ConnProofs.
Import ListNotations.
Local Open Scope N_scope.

(* ---------------------------------------------------------------------------------------------- *)
(* the counter block                                                                                *)
(* ---------------------------------------------------------------------------------------------- *)
Lemma count_request_dead w c st : w_alive st = false ->
  w_alive (fst (count_request w c st)) = false /\ snd (count_request w c st) = true.
Proof.
  intros H. unfold count_request. rewrite H.
  destruct (c_max c <=? w_nr st + 1); destruct w; cbn; split; try reflexivity; rewrite ?orb_true_r; reflexivity.
Qed.

Lemma st_after_alive_false c st n : w_alive st = false -> w_alive (st_after c st n) = false.
Proof. intros H. unfold st_after. destruct (n =? 0); [exact H|]. cbn. rewrite H. reflexivity. Qed.

Lemma st_after_alive c st n : w_alive st = true -> w_nr (st_after c st n) < c_max c -> w_alive (st_after c st n) = true.
Proof.
  intros H. unfold st_after. destruct (n =? 0); [intros _; exact H|]. cbn. intros L. rewrite H. apply N.ltb_lt. exact L.
Qed.

Lemma st_after_nr c st n : w_nr (st_after c st n) = w_nr st + n.
Proof. unfold st_after. destruct (n =? 0) eqn:E; [apply N.eqb_eq in E; subst; lia|reflexivity]. Qed.

Lemma st_after_alive_iff c st n : n <> 0 ->
  w_alive (st_after c st n) = w_alive st && (w_nr st + n <? c_max c).
Proof. intros H. unfold st_after. apply N.eqb_neq in H. rewrite H. reflexivity. Qed.

(* ---------------------------------------------------------------------------------------------- *)
(* a request handled when the worker is no longer alive ends its connection                          *)
(* ---------------------------------------------------------------------------------------------- *)
Lemma serve_must c h r0 a fs logged x r fs1 body :
  serve c h r0 a fs = (logged, x, r, fs1, body) -> r_must_close r = r_must_close r0.
Proof. intros H. destruct (serve_acct _ _ _ _ _ _ _ _ _ _ H) as (A & _). apply (ac_must _ _ _ _ A). Qed.

Lemma forced_request_ends w c st h a fs hr st1 fs1 evs :
  snd (count_request w c st) = true ->
  handle_request w c st h a fs = (hr, st1, fs1, evs) ->
  (w <> WAsync /\ hr = HRet false) \/ exists e, hr = HExn e.
Proof.
  intros Hf H.
  destruct (handle_request_inv _ _ _ _ _ _ _ _ _ _ H) as
      [(e & -> & _)|(e0 & fs0 & logged & x & r & fsb & body & lad & _ & _ & _ & Es & _ & Hl)].
  - right. exists e. reflexivity.
  - pose proof (serve_must _ _ _ _ _ _ _ _ _ _ Es) as Hm. cbn in Hm. rewrite Hf in Hm.
    assert (Lad : forall e, hr_ladder w r e fsb = (hr, fs1, lad) -> exists e', hr = HExn e').
    { intros e HL. destruct (hr_ladder_inv _ _ _ _ _ _ _ HL) as [(-> & _)|(-> & _)]; eexists; reflexivity. }
    destruct x as [e|]; [right; eapply Lad; exact Hl|].
    unfold hr_after, should_close in Hl. rewrite Hm in Hl. cbn [orb] in Hl.
    destruct w; destruct Hl as (-> & _); [left; split; [discriminate|reflexivity]|left; split; [discriminate|reflexivity]|right; eexists; reflexivity].
Qed.

Lemma dead_request_done w c st p apps fs : w_alive st = false ->
  exists x st1 fs1 evs, one_request w c st p apps fs = Done x st1 fs1 evs.
Proof.
  intros Hd. unfold one_request. destruct p as [h|e|].
  - destruct (next_app apps) as [a apps'].
    destruct (handle_request w c st h a fs) as [[[hr st'] fs'] ev'] eqn:E.
    destruct (forced_request_ends _ _ _ _ _ _ _ _ _ _ (proj2 (count_request_dead w c st Hd)) E) as [[Hw ->]|[e ->]].
    + destruct w; [| |contradiction]; cbn [andb]; do 4 eexists; reflexivity.
    + destruct (top_ladder w true e fs') as [[x2 fs2] e2]. do 4 eexists; reflexivity.
  - destruct (top_ladder w false e fs) as [[x2 fs2] e2]. do 4 eexists; reflexivity.
  - destruct w; [|do 4 eexists; reflexivity|destruct (c_keepalive c); [do 4 eexists; reflexivity|]];
      destruct (top_ladder _ false exn_generic fs) as [[x2 fs2] e2]; do 4 eexists; reflexivity.
Qed.

Lemma one_request_napps w c st p apps fs :
  match one_request w c st p apps fs with
  | Done _ _ _ evs | Cont _ _ _ evs => (count_apps evs <= 1)%nat
  end.
Proof.
  change count_apps with (count is_app).
  destruct (one_request w c st p apps fs) as [x st1 fs1 evs|st1 apps1 fs1 evs] eqn:E.
  - pose proof (one_request_state w c st p apps fs) as S. rewrite E in S.
    (* via the shape of a finished request *)
    unfold one_request in E. destruct p as [h|e|].
    + destruct (next_app apps) as [a apps'].
      destruct (handle_request w c st h a fs) as [[[hr st'] fs'] ev'] eqn:EH.
      destruct (handle_request_facts _ _ _ _ _ _ _ _ _ _ EH) as (_ & Hcnt & _ & _).
      assert (Hc : (count is_app ev' <= 1)%nat) by (destruct Hcnt as [(-> & _)|(-> & _)]; lia).
      assert (N1 : forall l, count is_app (EvHead :: l) = count is_app l) by reflexivity.
      destruct hr as [ka|e].
      * destruct w; [|destruct (ka && w_alive st')|destruct (c_keepalive c)]; try discriminate;
          injection E as <- <- <- <-; rewrite N1; exact Hc.
      * destruct (top_ladder w true e fs') as [[x2 fs2] e2] eqn:ET. injection E as <- <- <- <-.
        rewrite N1, count_app. destruct (top_ladder_inv _ _ _ _ _ _ _ ET) as (T & _). rewrite (count_tail_apps _ T). lia.
    + destruct (top_ladder w false e fs) as [[x2 fs2] e2] eqn:ET. injection E as <- <- <- <-.
      destruct (top_ladder_inv _ _ _ _ _ _ _ ET) as (T & _).
      change (count is_app (EvPRaise (x_cls e) :: e2)) with (count is_app e2). rewrite (count_tail_apps _ T). lia.
    + assert (G : forall fsx, (let '(x, fs1, e1) := top_ladder w false exn_generic fsx in Done x st fs1 (EvNone :: e1)) = Done x st1 fs1 evs ->
                  (count is_app evs <= 1)%nat).
      { intros fsx. destruct (top_ladder w false exn_generic fsx) as [[x2 fs2] e2] eqn:ET. intros H. injection H as <- <- <- <-.
        destruct (top_ladder_inv _ _ _ _ _ _ _ ET) as (T & _).
        change (count is_app (EvNone :: e2)) with (count is_app e2). rewrite (count_tail_apps _ T). lia. }
      destruct w; [apply (G fs); exact E| |destruct (c_keepalive c); [|apply (G fs); exact E]];
        injection E as <- <- <- <-; cbn; lia.
  - destruct (one_request_cont _ _ _ _ _ _ _ _ _ _ E) as (h & hrevs & k & _ & -> & _ & Hc & Hk & _).
    change (count is_app (EvHead :: hrevs ++ k)) with (count is_app (hrevs ++ k)). rewrite count_app.
    destruct Hk as [->| ->]; cbn; lia.
Qed.

(* ---------------------------------------------------------------------------------------------- *)
(* the worker-level invariant                                                                       *)
(* ---------------------------------------------------------------------------------------------- *)
Lemma nopen_set_nth : forall l i k k', nth_error l i = Some k ->
  (nopen (set_nth i k' l) + (if k_open k then 1 else 0) = nopen l + (if k_open k' then 1 else 0))%nat.
Proof.
  unfold nopen. induction l as [|y t IH]; intros i k k' H; destruct i as [|i]; cbn in H; try discriminate.
  - injection H as ->. cbn. destruct (k_open k), (k_open k'); cbn; lia.
  - cbn. specialize (IH _ _ k' H). destruct (k_open y); cbn; lia.
Qed.

Lemma nopen_close l i k : nth_error l i = Some k -> k_open k = true -> (nopen (set_nth i closed_conn l) + 1 = nopen l)%nat.
Proof. intros H Ho. pose proof (nopen_set_nth _ _ _ closed_conn H) as Hn. rewrite Ho in Hn. change (k_open closed_conn) with false in Hn. cbv beta iota in Hn. lia. Qed.

Lemma nopen_keep l i k k' : nth_error l i = Some k -> k_open k = true -> k_open k' = true -> nopen (set_nth i k' l) = nopen l.
Proof. intros H Ho Ho'. pose proof (nopen_set_nth _ _ _ k' H) as Hn. rewrite Ho, Ho' in Hn. cbv beta iota in Hn. lia. Qed.

Lemma nopen_app l x : nopen (l ++ [x]) = (nopen l + (if k_open x then 1 else 0))%nat.
Proof. unfold nopen. rewrite filter_app, app_length. cbn. destruct (k_open x); reflexivity. Qed.

Definition winv (g : world) : Prop :=
  match g_dead_open g with
  | None => w_alive (g_st g) = true /\ g_after g = 0%nat
  | Some n => w_alive (g_st g) = false /\ (g_after g + nopen (g_conns g) <= n)%nat
  end.

Lemma wstep_inv w c g s : winv g -> winv (wstep w c g s).
Proof.
  intros I. unfold wstep. destruct s as [ps apps fs|i].
  - destruct (w_alive (g_st g)) eqn:Ea; [|exact I].
    unfold winv in *. cbn. destruct (g_dead_open g) as [n|].
    + destruct I as [I1 _]. congruence.
    + exact I.
  - destruct (nth_error (g_conns g) i) as [k|] eqn:En; [|exact I].
    destruct (k_open k) eqn:Eo; [|exact I]. cbn [negb].
    destruct (k_ps k) as [|p ps'].
    + unfold winv in *. cbn [g_dead_open g_st g_after g_conns]. pose proof (nopen_close _ _ _ En Eo) as Hn.
      destruct (g_dead_open g) as [n|]; [|exact I]. destruct I as [I1 I2]. split; [exact I1|lia].
    + pose proof (one_request_napps w c (g_st g) p (k_apps k) (k_fs k)) as Hc.
      pose proof (one_request_state w c (g_st g) p (k_apps k) (k_fs k)) as Hs.
      destruct (w_alive (g_st g)) eqn:Ea.
      * (* the worker was alive when the step started *)
        unfold winv in I. destruct (g_dead_open g) as [n|] eqn:Ed; [destruct I; congruence|]. destruct I as [_ I2].
        destruct (one_request w c (g_st g) p (k_apps k) (k_fs k)) as [x st1 fs1 evs|st1 apps1 fs1 evs];
          unfold winv; cbn [g_dead_open g_st g_after g_conns andb]; destruct (w_alive st1) eqn:E1; cbn [negb]; (split; [reflexivity|]); lia.
      * destruct (dead_request_done w c (g_st g) p (k_apps k) (k_fs k) Ea) as (x & st1 & fs1 & evs & E). rewrite E in *.
        unfold winv in *. cbn [g_dead_open g_st g_after g_conns]. destruct (g_dead_open g) as [n|]; [|destruct I; congruence].
        destruct I as [_ I2]. split; [rewrite Hs; apply st_after_alive_false; exact Ea|].
        pose proof (nopen_close _ _ _ En Eo) as Hn. lia.
Qed.

Lemma wrun_inv w c l : forall g, winv g -> winv (wrun w c g l).
Proof. unfold wrun. induction l as [|s t IH]; intros g I; [exact I|]. cbn. apply IH. apply wstep_inv. exact I. Qed.

(* after the limit: at most one more application entry per connection that was open at that moment, and
   no new connection *)
Theorem recycle_bound w c st l : w_alive st = true ->
  let g := wrun w c (world0 st) l in
  match g_dead_open g with
  | Some n => w_alive (g_st g) = false /\ (g_after g <= n)%nat
  | None => w_alive (g_st g) = true /\ g_after g = 0%nat
  end.
Proof.
  intros Ha. cbn zeta. assert (I : winv (world0 st)) by (split; [exact Ha|reflexivity]).
  apply (wrun_inv w c l) in I. unfold winv in I. destruct (g_dead_open _); [|exact I]. destruct I as [I1 I2]. split; [exact I1|lia].
Qed.

Lemma wstep_no_accept_when_dead w c g ps apps fs : w_alive (g_st g) = false -> wstep w c g (SAccept ps apps fs) = g.
Proof. intros H. cbn. rewrite H. reflexivity. Qed.

(* the counters of the worker only move through st_after *)
Lemma wstep_state w c g s : exists n, g_st (wstep w c g s) = st_after c (g_st g) n.
Proof.
  unfold wstep. destruct s as [ps apps fs|i].
  - exists 0. destruct (w_alive (g_st g)); reflexivity.
  - destruct (nth_error (g_conns g) i) as [k|]; [|exists 0; reflexivity].
    destruct (negb (k_open k)); [exists 0; reflexivity|]. destruct (k_ps k) as [|p ps']; [exists 0; reflexivity|].
    pose proof (one_request_state w c (g_st g) p (k_apps k) (k_fs k)) as Hs.
    destruct (one_request w c (g_st g) p (k_apps k) (k_fs k)) as [x st1 fs1 evs|st1 apps1 fs1 evs]; cbn; eexists; exact Hs.
Qed.

Lemma wrun_state w c l : forall g, exists n, g_st (wrun w c g l) = st_after c (g_st g) n.
Proof.
  unfold wrun. induction l as [|s t IH]; intros g; [exists 0; reflexivity|]. cbn.
  destruct (wstep_state w c g s) as [n1 H1]. destruct (IH (wstep w c g s)) as [n2 H2].
  exists (n1 + n2). rewrite H2, H1. apply st_after_add.
Qed.

(* with max_requests unset the limit is sys.maxsize: a worker that has handled fewer requests than that is
   alive - whatever the schedule *)
Theorem never_recycled_below_limit w c st l : w_alive st = true ->
  let g := wrun w c (world0 st) l in w_nr (g_st g) < c_max c -> w_alive (g_st g) = true.
Proof.
  intros Ha. cbn zeta. destruct (wrun_state w c l (world0 st)) as [n H]. rewrite H. cbn [world0 g_st].
  apply st_after_alive. exact Ha.
Qed.

Corollary never_recycled_when_unset w c st l pick : w_alive st = true ->
  c_max c = effective_max 0 pick ->
  let g := wrun w c (world0 st) l in w_nr (g_st g) < 9223372036854775807 -> w_alive (g_st g) = true.
Proof.
  intros Ha Hm. cbn zeta. intros Hn. apply never_recycled_below_limit; [exact Ha|]. rewrite Hm. exact Hn.
Qed.

(* the worker goes down exactly when the counter reaches the limit *)
Theorem recycled_at_limit w c st l : w_alive st = true ->
  let g := wrun w c (world0 st) l in w_nr st < w_nr (g_st g) -> c_max c <= w_nr (g_st g) -> w_alive (g_st g) = false.
Proof.
  intros Ha. cbn zeta. destruct (wrun_state w c l (world0 st)) as [n H]. rewrite H. cbn [world0 g_st].
  rewrite st_after_nr. intros H1 H2. rewrite st_after_alive_iff by lia. rewrite Ha. cbn. apply N.ltb_ge. exact H2.
Qed.

(* ---------------------------------------------------------------------------------------------- *)
(* the sync worker: one connection at a time                                                        *)
(* ---------------------------------------------------------------------------------------------- *)
Lemma sync_conn_state c st ps apps fs :
  let o := connection WSync c st ps apps fs in
  o_escaped o = None -> exists n, n <= 1 /\ o_st o = st_after c st n.
Proof.
  cbn zeta. intros He. pose proof (connection_state WSync c st ps apps fs (or_introl He)) as S. cbn zeta in S.
  exists (napps (o_trace (connection WSync c st ps apps fs))). split; [|exact S].
  (* at most one request per connection *)
  unfold connection. destruct (conn_loop WSync c st (match ps with [] => [] | p :: _ => [p] end) apps fs) as [[[x st1] fs1] e1] eqn:E.
  unfold finish, final_close. cbn [o_trace]. destruct (pop fs1) as [f t]. rewrite napps_close.
  destruct ps as [|p ps]; cbn [conn_loop] in E.
  - destruct (top_ladder WSync false exn_nomoredata fs) as [[x2 fs2] e2] eqn:ET. injection E as <- <- <- <-.
    change (napps (EvPRaise E_NoMoreData :: e2)) with (napps e2). rewrite (top_ladder_napps _ _ _ _ _ _ _ ET). lia.
  - pose proof (one_request_napps WSync c st p apps fs) as Hc.
    destruct (one_request WSync c st p apps fs) as [x0 st0 fs0 e0|st0 apps0 fs0 e0] eqn:E1.
    + injection E as <- <- <- <-. unfold napps. change (count is_app e0) with (count_apps e0). lia.
    + exfalso. destruct (one_request_cont _ _ _ _ _ _ _ _ _ _ E1) as (h & hrevs & k & -> & _).
      unfold one_request in E1. destruct (next_app apps). destruct (handle_request WSync c st h a fs) as [[[hr s'] f'] e'].
      destruct hr; [discriminate|]. destruct (top_ladder WSync true e f'); destruct p; discriminate.
Qed.

(* a sync worker whose counter starts below the limit never handles more than max_requests requests, and
   it stops taking connections with the one whose request reached the limit *)
Theorem sync_recycle : forall conns c st, w_alive st = true -> w_nr st < c_max c ->
  Forall (fun o => o_escaped o = None) (sync_life c st conns) ->
  Forall (fun o => w_nr (o_st o) <= c_max c) (sync_life c st conns)
  /\ (forall pre o post, sync_life c st conns = pre ++ o :: post -> post <> [] -> w_alive (o_st o) = true /\ w_nr (o_st o) < c_max c).
Proof.
  induction conns as [|[[ps apps] fs] t IH]; intros c st Ha Hn He.
  - split; [constructor|]. intros pre o post H. destruct pre; discriminate.
  - cbn [sync_life] in *. rewrite Ha in *. cbn zeta in *. set (o := connection WSync c st ps apps fs) in *.
    inversion He as [|? ? He1 He2]; subst.
    destruct (sync_conn_state c st ps apps fs He1) as (n & Hn1 & Hs). fold o in Hs.
    assert (Hnr : w_nr (o_st o) <= c_max c) by (rewrite Hs, st_after_nr; lia).
    destruct (w_alive (o_st o)) eqn:Eal.
    + assert (Hlt : w_nr (o_st o) < c_max c).
      { rewrite Hs in Eal |- *. rewrite st_after_nr. destruct (N.eq_dec n 0) as [->|Hz]; [lia|].
        rewrite st_after_alive_iff in Eal by exact Hz. apply andb_prop in Eal as [_ E2]. apply N.ltb_lt in E2. exact E2. }
      destruct (IH c (o_st o) Eal Hlt He2) as [IH1 IH2]. split; [constructor; assumption|].
      intros pre o' post H Hp. destruct pre as [|x pre]; cbn in H; injection H as <- H.
      * split; assumption.
      * eapply IH2; eassumption.
    + assert (Hnil : sync_life c (o_st o) t = []) by (destruct t as [|[[? ?] ?] ?]; cbn [sync_life]; [reflexivity|rewrite Eal; reflexivity]).
      rewrite Hnil in *. split; [constructor; [exact Hnr|constructor]|].
      intros pre o' post H Hp. destruct pre as [|x pre]; cbn in H; injection H as <- H.
      * subst post. contradiction.
      * destruct pre; discriminate.
Qed.
