(* C04 - lemmas about the primitive operations of Model/Shutdown.v (master side) *)
From Coq Require Import List ZArith Bool Lia.
From GV Require Import Gen.GenArbiter Gen.GenShutdown Model.Shutdown.
Import ListNotations.
Local Open Scope Z_scope.

Lemma zmem_In : forall z l, zmem z l = true <-> In z l.
Proof.
  unfold zmem; intros; rewrite existsb_exists; split.
  - intros [x [H1 H2]]. apply Z.eqb_eq in H2. subst; auto.
  - intros H; exists z; split; auto. apply Z.eqb_refl.
Qed.

Lemma remove_z_In : forall p x l, In x (remove_z p l) <-> In x l /\ x <> p.
Proof.
  unfold remove_z; intros. rewrite filter_In. rewrite negb_true_iff, Z.eqb_neq. tauto.
Qed.

Lemma filter_length_le' : forall (A : Type) (f : A -> bool) l, (length (filter f l) <= length l)%nat.
Proof. induction l; simpl; auto. destruct (f a); simpl; lia. Qed.

Lemma remove_z_length : forall p l, (length (remove_z p l) <= length l)%nat.
Proof. intros. unfold remove_z. apply filter_length_le'. Qed.

(* ---- signalling a child ----------------------------------------------------------------------------- *)
Lemma sig_kid_pid : forall p sg c, k_pid (sig_kid p sg c) = k_pid c.
Proof. intros. unfold sig_kid. destruct ((k_pid c =? p) && negb (k_zomb c)); reflexivity. Qed.

Lemma sig_kid_master : forall p sg c, k_master (sig_kid p sg c) = k_master c.
Proof. intros. unfold sig_kid. destruct ((k_pid c =? p) && negb (k_zomb c)); reflexivity. Qed.

Lemma map_sig_kid_pids : forall p sg l, map k_pid (map (sig_kid p sg) l) = map k_pid l.
Proof. intros. rewrite map_map. apply map_ext. intros. apply sig_kid_pid. Qed.

Lemma sig_kid_running : forall p sg c, worker_running (sig_kid p sg c) = true ->
  worker_running c = true /\ (sg = SIGKILL -> k_pid c <> p).
Proof.
  intros p sg c H. unfold sig_kid in H. destruct ((k_pid c =? p) && negb (k_zomb c)) eqn:C.
  - apply andb_true_iff in C. destruct C as [C1 C2]. apply negb_true_iff in C2.
    unfold worker_running, running in *. simpl in H. rewrite C2. simpl.
    destruct (sg =? SIGKILL) eqn:S; simpl in H; [discriminate|]. split; auto.
    intros ->. rewrite Z.eqb_refl in S. discriminate.
  - split; auto. intros _ Hp. apply andb_false_iff in C. destruct C as [C|C].
    + apply Z.eqb_neq in C. auto.
    + apply negb_false_iff in C. unfold worker_running, running in H. rewrite C in H. discriminate.
Qed.

Lemma sig_kid_zombie : forall p sg c, k_zomb c = true -> sig_kid p sg c = c.
Proof. intros. unfold sig_kid. rewrite H. rewrite andb_false_r. reflexivity. Qed.

Lemma sig_kid_status : forall p sg c, boot_code (k_status c) = false -> boot_code SIGKILL = false ->
  boot_code (k_status (sig_kid p sg c)) = false.
Proof.
  intros. unfold sig_kid. destruct ((k_pid c =? p) && negb (k_zomb c)); auto. simpl.
  destruct (sg =? SIGKILL); auto.
Qed.

Lemma kill_in_none : forall l p sg, kill_in l p sg = None -> ~ In p (map k_pid l).
Proof.
  unfold kill_in; intros l p sg H Hin. destruct (existsb (fun c => k_pid c =? p) l) eqn:E; [discriminate|].
  apply in_map_iff in Hin. destruct Hin as [c [Hp Hc]].
  assert (existsb (fun c => k_pid c =? p) l = true).
  { apply existsb_exists. exists c. split; auto. apply Z.eqb_eq; auto. }
  congruence.
Qed.

Lemma kill_in_some : forall l p sg l', kill_in l p sg = Some l' -> l' = map (sig_kid p sg) l.
Proof. unfold kill_in; intros. destruct (existsb _ l); inversion H; reflexivity. Qed.

(* ---- waitpid ------------------------------------------------------------------------------------------- *)
Lemma first_zombie_spec : forall l z r, first_zombie l = Some (z, r) ->
  k_zomb z = true /\ exists l1 l2, l = l1 ++ z :: l2 /\ r = l1 ++ l2.
Proof.
  induction l as [|c t IH]; simpl; intros z r H; [discriminate|].
  destruct (k_zomb c) eqn:Z.
  - inversion H; subst. split; auto. exists [], r. auto.
  - destruct (first_zombie t) as [[z' t']|] eqn:F; [|discriminate]. inversion H; subst; clear H.
    destruct (IH _ _ eq_refl) as [A [l1 [l2 [B C]]]]. split; auto.
    exists (c :: l1), l2. subst. auto.
Qed.

Lemma first_zombie_none : forall l, first_zombie l = None -> forall k, In k l -> k_zomb k = false.
Proof.
  induction l as [|c t IH]; simpl; intros H k Hin; [contradiction|].
  destruct (k_zomb c) eqn:Z; [discriminate|].
  destruct (first_zombie t) as [[z' t']|] eqn:F; [discriminate|].
  destruct Hin; [subst; auto|auto].
Qed.

Lemma first_zombie_length : forall l z r, first_zombie l = Some (z, r) -> length l = S (length r).
Proof.
  intros. destruct (first_zombie_spec _ _ _ H) as [_ [l1 [l2 [A B]]]]. subst.
  rewrite !app_length. simpl. lia.
Qed.

Lemma NoDup_map_remove : forall (l1 l2 : list kid) z,
  NoDup (map k_pid (l1 ++ z :: l2)) -> NoDup (map k_pid (l1 ++ l2)) /\ ~ In (k_pid z) (map k_pid (l1 ++ l2)).
Proof.
  intros. rewrite map_app in *. simpl in H. split.
  - eapply NoDup_remove_1; eauto.
  - eapply NoDup_remove_2; eauto.
Qed.

(* ---- exits ------------------------------------------------------------------------------------------------ *)
Lemma exit_kid_pids : forall p st l, map k_pid (exit_kid p st l) = map k_pid l.
Proof.
  intros. unfold exit_kid. rewrite map_map. apply map_ext. intros c.
  destruct ((k_pid c =? p) && negb (k_zomb c)); reflexivity.
Qed.

Lemma exit_kid_running : forall p st l k, In k (exit_kid p st l) -> worker_running k = true -> In k l.
Proof.
  intros p st l k Hin Hr. unfold exit_kid in Hin. apply in_map_iff in Hin. destruct Hin as [c [Hc Hin]].
  destruct ((k_pid c =? p) && negb (k_zomb c)); subst; auto.
  unfold worker_running, running in Hr. simpl in Hr. discriminate.
Qed.
