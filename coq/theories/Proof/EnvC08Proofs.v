(* Proofs for C08: the header-name policy, the allow-list gates and the PROXY carry. *)
From Coq Require Import List NArith ZArith Bool Lia Arith.
From GV Require Import Base.Enc Base.Dec Gen.GenEnv Model.EnvStr Model.Environ Spec.EnvSpec Proof.EnvStrProofs.
Import ListNotations.
Local Open Scope N_scope.

(* ---- environ dictionary ------------------------------------------------------------------------------- *)
Lemma env_get_set k k' v e : env_get k (env_set k' v e) = if beq k k' then Some v else env_get k e.
Proof.
  unfold env_get. induction e as [|[k2 v2] e IH]; cbn.
  - destruct (beq k k'); reflexivity.
  - destruct (beq k' k2) eqn:E.
    + apply beq_eq in E. subst k2. cbn. destruct (beq k k'); reflexivity.
    + cbn. destruct (beq k k2) eqn:E2.
      * apply beq_eq in E2. subst k2. rewrite beq_sym in E. rewrite E. reflexivity.
      * exact IH.
Qed.

Lemma env_get_set_other k k' v e : beq k k' = false -> env_get k (env_set k' v e) = env_get k e.
Proof. intros H. rewrite env_get_set, H. reflexivity. Qed.
Lemma env_get_set_same k v e : env_get k (env_set k v e) = Some v.
Proof. rewrite env_get_set, beq_refl. reflexivity. Qed.

(* read a concrete key back through a stack of env_set with concrete keys *)
Ltac env_norm :=
  repeat (rewrite env_get_set;
          match goal with
          | |- context[beq ?a ?b] => let v := eval vm_compute in (beq a b) in change (beq a b) with v
          end; cbv iota).

(* ---- inversion of one step of parse_headers --------------------------------------------------------------- *)
Section Groups.
Variables (c : cfg) (sec : list (bytes * bytes)) (fwd : list bytes) (lf fsz : N).

Definition g_name (curr : bytes) : bytes :=
  let name0 := fst (cut1 58 curr) in
  upper (if strip_header_spaces c then rstrip is_sp_tab name0 else name0).
Definition g_value (curr : bytes) (conts : list bytes) : bytes :=
  match snd (cut1 58 curr) with
  | Some value0 => join [32] (strip is_sp_tab value0 :: map (strip is_sp_tab) conts)
  | None => []
  end.

Lemma parse_groups_cons curr conts rest nf sh https hs h :
  parse_groups c sec fwd lf fsz ((curr, conts) :: rest) nf sh https = HOk hs h ->
  exists value0 sh' https',
    snd (cut1 58 curr) = Some value0 /\ fst (cut1 58 curr) <> [] /\
    is_token (if strip_header_spaces c then rstrip is_sp_tab (fst (cut1 58 curr)) else fst (cut1 58 curr)) = true /\
    (conts <> [] -> permit_obsolete_folding c = true) /\
    existsb (fun ch => nmem ch value_badchars) (g_value curr conts) = false /\
    scheme_step sec (g_name curr) (g_value curr conts) sh https = Some (sh', https') /\
    ((underscore_policy c fwd (g_name curr) = Keep /\
      exists hs', hs = (g_name curr, g_value curr conts) :: hs' /\
                  parse_groups c sec fwd lf fsz rest (nf + 1) sh' https' = HOk hs' h)
     \/ (underscore_policy c fwd (g_name curr) = Skip /\
         parse_groups c sec fwd lf fsz rest (nf + 1) sh' https' = HOk hs h)).
Proof.
  unfold g_name, g_value. cbn [parse_groups].
  destruct (lf <=? nf); [discriminate|].
  destruct (cut1 58 curr) as [name0 o].
  destruct name0 as [|n0 name0']; [destruct o; discriminate|].
  destruct o as [value0|]; [|discriminate].
  cbn [fst snd].
  set (name1 := if strip_header_spaces c then rstrip is_sp_tab (n0 :: name0') else n0 :: name0').
  destruct (is_token name1) eqn:Etok; [|discriminate]. cbn [negb].
  set (folded := match conts with [] => false | _ :: _ => true end).
  destruct (folded && negb (permit_obsolete_folding c)) eqn:Efold; [discriminate|].
  set (over := _ && (0 <? fsz)).
  destruct (folded && over); [discriminate|].
  set (value := join [32] _).
  destruct (existsb (fun ch => nmem ch value_badchars) value) eqn:Ebad; [discriminate|].
  destruct over; [discriminate|].
  destruct (scheme_step sec (upper name1) value sh https) as [[sh' https']|] eqn:Esch; [|discriminate].
  intros H. exists value0, sh', https'.
  repeat split; try assumption; try discriminate.
  - intros Hc. subst folded. destruct conts; [congruence|]. cbn in Efold.
    destruct (permit_obsolete_folding c); [reflexivity|discriminate].
  - destruct (underscore_policy c fwd (upper name1)) eqn:Epol; [| |discriminate].
    + left. split; [reflexivity|].
      destruct (parse_groups c sec fwd lf fsz rest (nf + 1) sh' https') as [e|hs' h'] eqn:Er; [discriminate|].
      inversion H. subst. exists hs'. split; reflexivity.
    + right. split; [reflexivity|exact H].
Qed.

(* every stored name passed the underscore policy *)
Lemma parse_groups_kept : forall gs nf sh https hs h,
  parse_groups c sec fwd lf fsz gs nf sh https = HOk hs h ->
  Forall (fun nv => underscore_policy c fwd (fst nv) = Keep) hs.
Proof.
  induction gs as [|[curr conts] rest IH]; intros nf sh https hs h H.
  - cbn in H. inversion H. constructor.
  - apply parse_groups_cons in H as (v0 & sh' & https' & _ & _ & _ & _ & _ & _ & [[Hk (hs' & -> & Hr)]|[_ Hr]]).
    + constructor; [exact Hk|]. eapply IH. exact Hr.
    + eapply IH. exact Hr.
Qed.
End Groups.

(* without secure-scheme headers in force the scheme never moves *)
Lemma parse_groups_nosec c fwd lf fsz : forall gs nf sh https hs h,
  parse_groups c [] fwd lf fsz gs nf sh https = HOk hs h -> h = https.
Proof.
  induction gs as [|[curr conts] rest IH]; intros nf sh https hs h H.
  - cbn in H. inversion H. reflexivity.
  - apply parse_groups_cons in H as (v0 & sh' & https' & _ & _ & _ & _ & _ & Hs & Hr).
    cbn in Hs. inversion Hs. subst.
    destruct Hr as [[_ (hs' & _ & Hr)]|[_ Hr]]; eapply IH; exact Hr.
Qed.

Lemma policy_keep c fwd n :
  underscore_policy c fwd n = Keep -> header_map c <> Dangerous ->
  has_underscore n = false \/ (bmem n fwd || bmem s_star fwd) = true.
Proof.
  unfold underscore_policy. destruct (has_underscore n); [|auto].
  destruct (bmem n fwd || bmem s_star fwd); [auto|].
  destruct (header_map c); try discriminate. congruence.
Qed.

(* "-" -> "_" is injective on names without "_" *)
Lemma replace_dash_inj : forall a b,
  nmem 95 a = false -> nmem 95 b = false -> replace_c 45 95 a = replace_c 45 95 b -> a = b.
Proof.
  unfold replace_c, nmem.
  induction a as [|x a IH]; intros [|y b] Ha Hb H; cbn [map existsb] in *; try discriminate; [reflexivity|].
  apply orb_false_iff in Ha as [Ha1 Ha2]. apply orb_false_iff in Hb as [Hb1 Hb2].
  injection H as H1 H2. f_equal; [|apply IH; assumption].
  apply N.eqb_neq in Ha1, Hb1.
  destruct (x =? 45) eqn:Ex; destruct (y =? 45) eqn:Ey;
    try apply N.eqb_eq in Ex; try apply N.eqb_eq in Ey; subst; try reflexivity; congruence.
Qed.

Lemma env_key_inj a b :
  has_underscore a = false -> has_underscore b = false -> env_key a = env_key b -> a = b.
Proof.
  unfold env_key, has_underscore. intros Ha Hb.
  destruct (beq a s_CONTENT_TYPE_h) eqn:A1; destruct (beq b s_CONTENT_TYPE_h) eqn:B1;
    try (apply beq_eq in A1); try (apply beq_eq in B1); subst; try reflexivity.
  - destruct (beq b s_CONTENT_LENGTH_h); [discriminate|]. unfold http_key. discriminate.
  - destruct (beq a s_CONTENT_LENGTH_h); [discriminate|]. unfold http_key. discriminate.
  - destruct (beq a s_CONTENT_LENGTH_h) eqn:A2; destruct (beq b s_CONTENT_LENGTH_h) eqn:B2;
      try (apply beq_eq in A2); try (apply beq_eq in B2); subst; try reflexivity;
      unfold http_key; try discriminate.
    intros H. apply app_inv_head in H. apply replace_dash_inj; assumption.
Qed.

(* C08 (a) *)
Theorem names_do_not_collide_proof : forall c p lines hs https,
  header_map c <> Dangerous ->
  parse_headers c p lines = HOk hs https ->
  forall n1 v1 n2 v2, In (n1, v1) hs -> In (n2, v2) hs -> n1 <> n2 -> env_key n1 = env_key n2 ->
    trusted_fwd c p = true /\ (listed c n1 = true \/ listed c n2 = true).
Proof.
  intros c p lines hs https Hm H n1 v1 n2 v2 I1 I2 Hne Hk.
  unfold parse_headers in H. apply parse_groups_kept in H. rewrite Forall_forall in H.
  pose proof (H _ I1) as K1. pose proof (H _ I2) as K2. cbn [fst] in K1, K2.
  apply policy_keep in K1; [|exact Hm]. apply policy_keep in K2; [|exact Hm].
  destruct (trusted_fwd c p).
  - split; [reflexivity|]. unfold listed.
    destruct K1 as [U1|L1]; [|left; exact L1]. destruct K2 as [U2|L2]; [|right; exact L2].
    exfalso. apply Hne. apply env_key_inj; assumption.
  - exfalso. cbn in K1, K2.
    destruct K1 as [U1|L1]; [|discriminate]. destruct K2 as [U2|L2]; [|discriminate].
    apply Hne. apply env_key_inj; assumption.
Qed.

(* ---- what an untrusted peer's headers can do ----------------------------------------------------------- *)
Lemma untrusted_headers c p lines hs https :
  trusted_fwd c p = false -> header_map c <> Dangerous ->
  parse_headers c p lines = HOk hs https ->
  https = is_ssl c /\ Forall (fun nv => has_underscore (fst nv) = false) hs.
Proof.
  intros Ht Hm H. unfold parse_headers in H. rewrite Ht in H. split.
  - eapply parse_groups_nosec. exact H.
  - apply parse_groups_kept in H. eapply Forall_impl; [|exact H].
    intros [n v] K. cbn [fst] in *. apply policy_keep in K; [|exact Hm].
    destruct K as [K|K]; [exact K|discriminate].
Qed.

Lemma hdr_step_script hon e sn n v :
  has_underscore n = false \/ hon = false -> snd (hdr_step hon (e, sn) (n, v)) = sn.
Proof.
  intros H. unfold hdr_step.
  destruct (beq n s_CONTENT_TYPE_h); [reflexivity|]. destruct (beq n s_CONTENT_LENGTH_h); [reflexivity|].
  destruct (beq n s_SCRIPT_NAME) eqn:E; [|reflexivity].
  destruct H as [H| ->]; [|reflexivity].
  apply beq_eq in E. subst. discriminate.
Qed.

Lemma fold_hdr_script hon : forall hs e sn,
  Forall (fun nv => has_underscore (fst nv) = false) hs \/ hon = false ->
  snd (fold_left (hdr_step hon) hs (e, sn)) = sn.
Proof.
  induction hs as [|[n v] hs IH]; intros e sn H; [reflexivity|].
  cbn [fold_left].
  assert (H1 : has_underscore n = false \/ hon = false).
  { destruct H as [H|H]; [left; inversion H; assumption|right; exact H]. }
  pose proof (hdr_step_script hon e sn n v H1) as Hs.
  destruct (hdr_step hon (e, sn) (n, v)) as [e' sn'] eqn:E. cbn in Hs. subst sn'. apply IH.
  destruct H as [H|H]; [left; inversion H; assumption|right; exact H].
Qed.

(* the keys set after the header loop, read back *)
Lemma wsgi_create_tail c r p e :
  wsgi_create c r p = inr e ->
  exists env1 sn pi,
    fold_left (hdr_step (honours_script_name c p)) (r_headers r)
      ([(s_REQUEST_METHOD, r_method r); (s_QUERY_STRING, r_query r); (s_RAW_URI, r_uri r);
        (s_SERVER_PROTOCOL, protocol_text (r_version r))], os_script_name c) = (env1, sn) /\
    r_path r = sn ++ pi /\
    env_get s_url_scheme e = Some (if r_https r then s_https else s_http) /\
    env_get s_SCRIPT_NAME e = Some sn /\
    env_get s_PATH_INFO e = Some (unquote pi) /\
    env_get s_REMOTE_ADDR e = Some (match r_ppi r with Some i => pp_client_addr i | None => peer_host p end) /\
    (forall i, r_ppi r = Some i -> env_get s_REMOTE_PORT e = Some (dec (pp_client_port i))) /\
    (forall k, beq k s_url_scheme = false -> beq k s_REMOTE_ADDR = false -> beq k s_REMOTE_PORT = false ->
               beq k s_PATH_INFO = false -> beq k s_SCRIPT_NAME = false -> beq k s_PROXY_PROTOCOL = false ->
               beq k s_PROXY_ADDR = false -> beq k s_PROXY_PORT = false -> env_get k e = env_get k env1).
Proof.
  unfold wsgi_create.
  destruct (fold_left (hdr_step (honours_script_name c p)) (r_headers r) _) as [env1 sn] eqn:Ef.
  set (env2 := env_set s_url_scheme _ env1).
  set (env3 := match p with PStr s => _ | PTuple h port => _ end).
  set (pinfo := match sn with [] => Some (r_path r) | _ => _ end).
  destruct pinfo as [pi|] eqn:Epi; [|discriminate].
  intros H. inversion H as [He]. clear H.
  exists env1, sn, pi. split; [reflexivity|].
  assert (Hpath : r_path r = sn ++ pi).
  { subst pinfo. destruct sn as [|s0 sn'].
    - inversion Epi. reflexivity.
    - destruct (starts_with (s0 :: sn') (r_path r)) eqn:Es; [|discriminate].
      inversion Epi. apply starts_with_app. exact Es. }
  split; [exact Hpath|].
  assert (G3 : forall k, beq k s_url_scheme = false -> beq k s_REMOTE_ADDR = false -> beq k s_REMOTE_PORT = false ->
                         env_get k env3 = env_get k env1).
  { intros k K1 K2 K3. subst env3 env2. destruct p as [h port|s].
    - rewrite !env_get_set, K3, K2, K1. reflexivity.
    - rewrite !env_get_set, K2, K1. reflexivity. }
  assert (A3 : env_get s_REMOTE_ADDR env3 = Some (peer_host p)).
  { subst env3. destruct p as [h port|s]; cbn [peer_host].
    - rewrite env_get_set_other by reflexivity. apply env_get_set_same.
    - apply env_get_set_same. }
  assert (S3 : env_get s_url_scheme env3 = Some (if r_https r then s_https else s_http)).
  { subst env3 env2. destruct p as [h port|s].
    - rewrite !env_get_set_other by reflexivity. apply env_get_set_same.
    - rewrite env_get_set_other by reflexivity. apply env_get_set_same. }
  subst e.
  destruct (r_ppi r) as [i|] eqn:Eppi.
  - unfold proxy_environ. repeat split.
    + env_norm. exact S3.
    + env_norm. reflexivity.
    + env_norm. reflexivity.
    + env_norm. reflexivity.
    + intros i' Hi. inversion Hi. subst i'. env_norm. reflexivity.
    + intros k K1 K2 K3 K4 K5 K6 K7 K8.
      rewrite !env_get_set, K8, K7, K3, K2, K6, K5, K4. apply G3; assumption.
  - repeat split.
    + env_norm. exact S3.
    + env_norm. reflexivity.
    + env_norm. reflexivity.
    + env_norm. exact A3.
    + intros i' Hi. discriminate.
    + intros k K1 K2 K3 K4 K5 K6 K7 K8. rewrite !env_get_set, K5, K4. apply G3; assumption.
Qed.

(* ---- Request.parse: what an accepted request was made of -------------------------------------------------- *)
Section World.
Variables (inet4_ok inet6_ok : bytes -> inet_res) (netloc_ok : bytes -> bool).
Notation parse_request := (parse_request inet4_ok inet6_ok netloc_ok).
Notation parse_after_line := (parse_after_line netloc_ok).
Notation parse_request_line := (parse_request_line netloc_ok).
Notation parse_proxy_line := (parse_proxy_line inet4_ok inet6_ok).
Notation conn_loop := (conn_loop inet4_ok inet6_ok netloc_ok).
Notation conn_run := (conn_run inet4_ok inet6_ok netloc_ok).

(* the block of header lines a request head carries after its request line *)
Definition header_lines (rbuf : bytes) : option (list bytes * bytes) :=
  if starts_with [13; 10] rbuf then Some ([], skipn 2 rbuf)
  else match cut_crlf2 rbuf with Some (block, rest) => Some (split_crlf block, rest) | None => None end.

Lemma parse_after_line_inv c p ppi line rbuf r rest :
  parse_after_line c p ppi line rbuf = PAccept r rest ->
  exists q lines,
    parse_request_line c line = inr q /\
    header_lines rbuf = Some (lines, rest) /\
    r_method r = q_method q /\ r_uri r = q_uri q /\ r_path r = u_path (q_parts q) /\
    r_query r = u_query (q_parts q) /\ r_version r = q_version q /\ r_ppi r = ppi /\
    (lines = [] /\ r_headers r = [] /\ r_https r = is_ssl c
     \/ lines <> [] /\ parse_headers c p lines = HOk (r_headers r) (r_https r)) /\
    (exists bk mc, set_body_reader (r_headers r) (q_version q) = inr (bk, mc) /\ r_body r = bk /\ r_must_close r = mc).
Proof.
  unfold parse_after_line, header_lines.
  destruct (parse_request_line c line) as [e|q] eqn:Eq; [discriminate|].
  destruct (starts_with [13; 10] rbuf) eqn:Es.
  - destruct (set_body_reader [] (q_version q)) as [e|[bk mc]] eqn:Eb; [discriminate|].
    intros H. inversion H. subst. exists q, []. cbn.
    repeat split; try reflexivity. { left. repeat split. } exists bk, mc. repeat split. exact Eb.
  - destruct (cut_crlf2 rbuf) as [[block rest']|] eqn:Ec.
    + destruct (max_buffer_headers c <? blen block + 4); [discriminate|].
      destruct (parse_headers c p (split_crlf block)) as [e|hs https] eqn:Eh; [discriminate|].
      destruct (set_body_reader hs (q_version q)) as [e|[bk mc]] eqn:Eb; [discriminate|].
      intros H. inversion H. subst. exists q, (split_crlf block). cbn.
      repeat split; try reflexivity.
      { right. split; [apply split_crlf_nonempty|exact Eh]. }
      exists bk, mc. repeat split. exact Eb.
    + destruct (max_buffer_headers c <=? blen rbuf); discriminate.
Qed.

(* the request line of the message that starts [data]: the first line, or the second when the first
   one was taken as a PROXY line *)
Definition proxy_line_taken (c : cfg) (reqno : N) (data : bytes) : bool :=
  match cut_crlf data with
  | Some (line, _) => proxy_protocol c && (reqno =? 1) && starts_with s_PROXY line
  | None => false
  end.
Definition http_part (c : cfg) (reqno : N) (data : bytes) : bytes :=
  if proxy_line_taken c reqno data then match cut_crlf data with Some (_, rb) => rb | None => data end else data.

Lemma read_line_inv lim data line rbuf :
  read_line lim data = RLLine line rbuf -> cut_crlf data = Some (line, rbuf).
Proof.
  unfold read_line. destruct (cut_crlf data) as [[l r]|].
  - destruct ((lim <? blen l) && (0 <? lim)); [discriminate|]. intros H. inversion H. reflexivity.
  - destruct ((lim + 2 <? blen data) && (0 <? lim)); discriminate.
Qed.

Lemma parse_request_inv c p reqno data r rest :
  parse_request c p reqno data = PAccept r rest ->
  exists line rbuf,
    cut_crlf (http_part c reqno data) = Some (line, rbuf) /\
    parse_after_line c p (r_ppi r) line rbuf = PAccept r rest /\
    (forall i, r_ppi r = Some i ->
       proxy_protocol c = true /\ reqno = 1 /\ proxy_allowed c p = true /\
       exists pl rb, cut_crlf data = Some (pl, rb) /\ starts_with s_PROXY pl = true /\ parse_proxy_line pl = PLOk i) /\
    (r_ppi r = None -> proxy_line_taken c reqno data = false).
Proof.
  unfold parse_request, http_part, proxy_line_taken.
  destruct data as [|d0 data']; [discriminate|]. set (data := d0 :: data').
  destruct (read_line (eff_limit_line c) data) as [line rbuf| |e] eqn:Er; try discriminate.
  apply read_line_inv in Er. rewrite Er.
  destruct (proxy_protocol c && (reqno =? 1) && starts_with s_PROXY line) eqn:Eg.
  - destruct (negb (proxy_allowed c p)) eqn:Ea; [discriminate|].
    destruct (parse_proxy_line line) as [info| |] eqn:Ep; [|discriminate|discriminate].
    destruct (read_line (eff_limit_line c) rbuf) as [line2 rbuf2| |e] eqn:Er2; try discriminate.
    apply read_line_inv in Er2. intros H.
    assert (Hppi : r_ppi r = Some info).
    { apply parse_after_line_inv in H as (q & lines & _ & _ & _ & _ & _ & _ & _ & Hp & _). exact Hp. }
    exists line2, rbuf2. rewrite Hppi. repeat split; try assumption.
    + apply andb_prop in Eg as [Eg _]. apply andb_prop in Eg as [Eg _]. exact Eg.
    + apply andb_prop in Eg as [Eg _]. apply andb_prop in Eg as [_ Eg]. apply N.eqb_eq. exact Eg.
    + apply negb_false_iff. exact Ea.
    + inversion H0. subst i. exists line, rbuf. apply andb_prop in Eg as [_ Eg]. auto.
    + discriminate.
  - intros H.
    assert (Hppi : r_ppi r = None).
    { apply parse_after_line_inv in H as (q & lines & _ & _ & _ & _ & _ & _ & _ & Hp & _). exact Hp. }
    exists line, rbuf. rewrite Hppi. repeat split; try assumption; discriminate.
Qed.

(* C08 (b) *)
Theorem untrusted_peer_cannot_assert_proof : forall c p reqno data r rest i e,
  trusted_fwd c p = false -> header_map c <> Dangerous ->
  parse_request c p reqno data = PAccept r rest ->
  wsgi_create c (set_ppi r i) p = inr e ->
  exists line rbuf q,
    cut_crlf (http_part c reqno data) = Some (line, rbuf) /\ parse_request_line c line = inr q /\
    env_get s_url_scheme e = Some (if is_ssl c then s_https else s_http) /\
    env_get s_SCRIPT_NAME e = Some (os_script_name c) /\
    exists pi, u_path (q_parts q) = os_script_name c ++ pi /\ env_get s_PATH_INFO e = Some (unquote pi).
Proof.
  intros c p reqno data r rest i e Ht Hm Hp Hw.
  apply parse_request_inv in Hp as (line & rbuf & Hl & Ha & _ & _).
  apply parse_after_line_inv in Ha as (q & lines & Hq & _ & _ & _ & Hpath & _ & _ & _ & Hh & _).
  exists line, rbuf, q. split; [exact Hl|]. split; [exact Hq|].
  assert (Hu : r_https r = is_ssl c /\ Forall (fun nv => has_underscore (fst nv) = false) (r_headers r)).
  { destruct Hh as [(_ & -> & ->)|(_ & Hh)]; [split; [reflexivity|constructor]|].
    eapply untrusted_headers; eassumption. }
  destruct Hu as [Hs Hn].
  apply wsgi_create_tail in Hw as (env1 & sn & pi & Hf & Hpa & H1 & H2 & H3 & _).
  cbn [set_ppi r_headers r_https r_path r_method r_query r_uri r_version] in *.
  match type of Hf with fold_left _ _ (?e0, _) = _ =>
    pose proof (fold_hdr_script (honours_script_name c p) (r_headers r) e0 (os_script_name c) (or_introl Hn)) as Hsn end.
  assert (Hsn' : snd (env1, sn) = os_script_name c) by (rewrite <- Hf; exact Hsn).
  cbn in Hsn'. subst sn.
  rewrite Hs in H1. repeat split; try assumption.
  exists pi. rewrite <- Hpath. split; assumption.
Qed.

(* on a tree where wsgi.create checks the gate itself, the script name is out of an untrusted peer's
   reach in every header-map mode *)
Theorem untrusted_script_name_any_mode_proof : forall c p reqno data r rest i e,
  script_name_needs_trust = true -> trusted_fwd c p = false ->
  parse_request c p reqno data = PAccept r rest ->
  wsgi_create c (set_ppi r i) p = inr e ->
  env_get s_SCRIPT_NAME e = Some (os_script_name c) /\
  exists pi, r_path r = os_script_name c ++ pi /\ env_get s_PATH_INFO e = Some (unquote pi).
Proof.
  intros c p reqno data r rest i e Hflag Ht _ Hw.
  apply wsgi_create_tail in Hw as (env1 & sn & pi & Hf & Hpa & _ & H2 & H3 & _).
  cbn [set_ppi r_headers r_https r_path r_method r_query r_uri r_version] in *.
  assert (Hh : honours_script_name c p = false).
  { unfold honours_script_name. rewrite Ht, Hflag. reflexivity. }
  match type of Hf with fold_left _ _ (?e0, _) = _ =>
    pose proof (fold_hdr_script (honours_script_name c p) (r_headers r) e0 (os_script_name c) (or_intror Hh)) as Hsn end.
  assert (Hsn' : snd (env1, sn) = os_script_name c) by (rewrite <- Hf; exact Hsn).
  cbn in Hsn'. subst sn. split; [exact H2|]. exists pi. split; assumption.
Qed.

(* ---- PROXY line gate and carry ------------------------------------------------------------------------------- *)
(* the facts that make a PROXY declaration legitimate for this connection *)
Definition proxy_gate (c : cfg) (p : peer) (data : bytes) (i : proxy_info) : Prop :=
  proxy_protocol c = true /\ proxy_allowed c p = true /\
  exists pl rb, cut_crlf data = Some (pl, rb) /\ starts_with s_PROXY pl = true /\ parse_proxy_line pl = PLOk i.

Lemma carry_step_inv c w r carry r' carry' :
  carry_step c w r carry = (r', carry') ->
  (r_ppi r' = r_ppi r \/ (r_ppi r = None /\ r_ppi r' = carry)) /\
  (carry' = carry \/ carry' = r_ppi r /\ r_ppi r <> None) /\
  r' = set_ppi r (r_ppi r').
Proof.
  assert (Hid : forall x, x = set_ppi x (r_ppi x)) by (intros []; reflexivity).
  assert (Hsome : forall i, r_ppi r = Some i ->
            (r_ppi r = r_ppi r \/ (r_ppi r = None /\ r_ppi r = carry)) /\
            (Some i = carry \/ Some i = r_ppi r /\ r_ppi r <> None) /\ r = set_ppi r (r_ppi r)).
  { intros i E. split; [left; reflexivity|]. split; [right; split; [symmetry; exact E|congruence]|apply Hid]. }
  assert (Hnone : r_ppi r = None ->
            (r_ppi (set_ppi r carry) = r_ppi r \/ (r_ppi r = None /\ r_ppi (set_ppi r carry) = carry)) /\
            (carry = carry \/ carry = r_ppi r /\ r_ppi r <> None) /\
            set_ppi r carry = set_ppi r (r_ppi (set_ppi r carry))).
  { intros E. split; [right; split; [exact E|reflexivity]|]. split; [left; reflexivity|reflexivity]. }
  assert (Hsame : (r_ppi r = r_ppi r \/ (r_ppi r = None /\ r_ppi r = carry)) /\
            (carry = carry \/ carry = r_ppi r /\ r_ppi r <> None) /\ r = set_ppi r (r_ppi r)).
  { split; [left; reflexivity|]. split; [left; reflexivity|apply Hid]. }
  unfold carry_step. destruct w.
  - intros H. inversion H. subst. exact Hsame.
  - destruct (r_ppi r) as [i|] eqn:E; intros H; inversion H; subst.
    + rewrite E. apply (Hsome i eq_refl).
    + apply Hnone. reflexivity.
  - destruct (keepalive c =? 0).
    + intros H. inversion H. subst. exact Hsame.
    + destruct (r_ppi r) as [i|] eqn:E; intros H; inversion H; subst.
      * rewrite E. apply (Hsome i eq_refl).
      * apply Hnone. reflexivity.
Qed.

Lemma conn_loop_gate c w p data0 :
  forall fuel reqno carry data e,
    1 <= reqno -> (reqno = 1 -> data = data0) ->
    (forall i, carry = Some i -> proxy_gate c p data0 i) ->
    In (REnv e) (conn_loop fuel c w p reqno carry data) ->
    env_get s_REMOTE_ADDR e = Some (peer_host p) \/
    exists i, proxy_gate c p data0 i /\ env_get s_REMOTE_ADDR e = Some (pp_client_addr i)
              /\ env_get s_REMOTE_PORT e = Some (dec (pp_client_port i)).
Proof.
  induction fuel as [|f IH]; intros reqno carry data e Hr H0 Hc Hin; cbn [Environ.conn_loop] in Hin.
  - destruct Hin as [Hin|[]]. discriminate.
  - destruct (parse_request c p reqno data) as [|ex|r rest] eqn:Ep.
    + destruct Hin.
    + destruct Hin as [Hin|[]]. discriminate.
    + destruct (carry_step c w r carry) as [r' carry'] eqn:Ecs.
      apply carry_step_inv in Ecs as (Hppi & Hcar & Hr').
      apply parse_request_inv in Ep as (line & rbuf & _ & _ & Hsome & _).
      assert (Hg : forall i, r_ppi r = Some i -> proxy_gate c p data0 i).
      { intros i Hi. destruct (Hsome i Hi) as (G1 & G2 & G3 & G4). specialize (H0 G2). subst data.
        split; [exact G1|]. split; [exact G3|exact G4]. }
      assert (Hg' : forall i, r_ppi r' = Some i -> proxy_gate c p data0 i).
      { intros i Hi. destruct Hppi as [E|[E1 E2]].
        - apply Hg. congruence.
        - apply Hc. congruence. }
      destruct (wsgi_create c r' p) as [ex|env] eqn:Ew.
      * destruct Hin as [Hin|[]]. discriminate.
      * destruct Hin as [Hin|Hin].
        -- inversion Hin. subst env.
           apply wsgi_create_tail in Ew as (_ & _ & _ & _ & _ & _ & _ & _ & Ha & Hport & _).
           destruct (r_ppi r') as [i|] eqn:Ei; [|left; exact Ha].
           right. exists i. split; [apply Hg'; reflexivity|]. split; [exact Ha|]. apply Hport. reflexivity.
        -- destruct (continues c w r); [|destruct Hin].
           destruct (r_body r); [|destruct Hin as [Hin|[]]; discriminate].
           eapply IH; [| |  |exact Hin]; try lia.
           intros i Hi. destruct Hcar as [->|[-> _]]; [apply Hc; exact Hi|apply Hg; exact Hi].
Qed.

(* C08 (c) *)
Theorem proxy_line_gate_proof : forall c w p data e,
  In (REnv e) (conn_run c w p data) ->
  env_get s_REMOTE_ADDR e <> Some (peer_host p) ->
  exists i, proxy_gate c p data i /\ env_get s_REMOTE_ADDR e = Some (pp_client_addr i).
Proof.
  intros c w p data e Hin Hne. unfold Environ.conn_run in Hin.
  eapply (conn_loop_gate c w p data) in Hin; try lia; try reflexivity.
  - destruct Hin as [H|(i & G & A & _)]; [contradiction|]. exists i. split; assumption.
  - intros i Hi. discriminate.
Qed.

(* C08 (d): once the first request of the connection carried a PROXY declaration, every request sees it *)
Lemma conn_loop_sticks c w p i0 :
  forall fuel reqno carry data e,
    1 <= reqno ->
    (reqno = 1 -> exists r rest, parse_request c p 1 data = PAccept r rest /\ r_ppi r = Some i0) ->
    (reqno <> 1 -> carry = Some i0 /\ w <> WSync /\ (w = WAsync -> (keepalive c =? 0) = false)) ->
    In (REnv e) (conn_loop fuel c w p reqno carry data) ->
    env_get s_REMOTE_ADDR e = Some (pp_client_addr i0) /\ env_get s_REMOTE_PORT e = Some (dec (pp_client_port i0)).
Proof.
  induction fuel as [|f IH]; intros reqno carry data e Hr H1 Hn Hin; cbn [Environ.conn_loop] in Hin.
  - destruct Hin as [Hin|[]]. discriminate.
  - destruct (parse_request c p reqno data) as [|ex|r rest] eqn:Ep.
    + destruct Hin.
    + destruct Hin as [Hin|[]]. discriminate.
    + destruct (carry_step c w r carry) as [r' carry'] eqn:Ecs.
      assert (Hboth : r_ppi r' = Some i0 /\ (continues c w r = true -> carry' = Some i0)).
      { destruct (N.eq_dec reqno 1) as [E1|E1].
        - subst reqno. destruct (H1 eq_refl) as (r1 & rest1 & Hp1 & Hi1). rewrite Ep in Hp1. inversion Hp1. subst r1 rest1.
          unfold carry_step in Ecs. destruct w.
          + inversion Ecs. subst. split; [exact Hi1|]. cbn. discriminate.
          + rewrite Hi1 in Ecs. inversion Ecs. subst. auto.
          + unfold continues. destruct (keepalive c =? 0) eqn:Ek.
            * inversion Ecs. subst. split; [exact Hi1|]. apply N.eqb_eq in Ek. rewrite Ek. cbn. discriminate.
            * rewrite Hi1 in Ecs. inversion Ecs. subst. auto.
        - destruct (Hn E1) as (Hc & Hw & Hk). subst carry.
          apply parse_request_inv in Ep as (_ & _ & _ & _ & Hsome & _).
          assert (Hnone : r_ppi r = None).
          { destruct (r_ppi r) as [i|] eqn:Ei; [|reflexivity]. destruct (Hsome i eq_refl) as (_ & G & _). contradiction. }
          unfold carry_step in Ecs. destruct w; [contradiction| |].
          + rewrite Hnone in Ecs. inversion Ecs. subst. cbn. auto.
          + rewrite (Hk eq_refl), Hnone in Ecs. inversion Ecs. subst. cbn. auto. }
      destruct Hboth as [Hppi Hcarry].
      destruct (wsgi_create c r' p) as [ex|env] eqn:Ew.
      * destruct Hin as [Hin|[]]. discriminate.
      * destruct Hin as [Hin|Hin].
        -- inversion Hin. subst env.
           apply wsgi_create_tail in Ew as (_ & _ & _ & _ & _ & _ & _ & _ & Ha & Hport & _).
           rewrite Hppi in Ha. split; [exact Ha|]. apply Hport. exact Hppi.
        -- destruct (continues c w r) eqn:Ec; [|destruct Hin].
           destruct (r_body r); [|destruct Hin as [Hin|[]]; discriminate].
           eapply IH; [| | |exact Hin]; try lia.
           intros _. split; [apply Hcarry; reflexivity|].
           unfold continues in Ec. destruct w; [discriminate| |].
           ++ split; [discriminate|discriminate].
           ++ split; [discriminate|]. intros _. apply andb_prop in Ec as [Ec _].
              apply N.ltb_lt in Ec. apply N.eqb_neq. lia.
Qed.

Theorem proxy_addr_sticks_proof : forall c w p data r rest i e,
  parse_request c p 1 data = PAccept r rest -> r_ppi r = Some i ->
  In (REnv e) (conn_run c w p data) ->
  env_get s_REMOTE_ADDR e = Some (pp_client_addr i) /\ env_get s_REMOTE_PORT e = Some (dec (pp_client_port i)).
Proof.
  intros c w p data r rest i e Hp Hi Hin. unfold Environ.conn_run in Hin.
  eapply (conn_loop_sticks c w p i) in Hin.
  - exact Hin.
  - lia.
  - intros _. exists r, rest. split; assumption.
  - intros H. contradiction.
Qed.

(* the gate is not only necessary: a PROXY line that passes it is what request 1 carries *)
Theorem proxy_line_is_applied_proof : forall c p data pl rb i r rest,
  proxy_protocol c = true -> cut_crlf data = Some (pl, rb) -> starts_with s_PROXY pl = true ->
  parse_proxy_line pl = PLOk i ->
  parse_request c p 1 data = PAccept r rest -> r_ppi r = Some i.
Proof.
  intros c p data pl rb i r rest Hpp Hcut Hst Hline Hp.
  apply parse_request_inv in Hp as (_ & _ & _ & _ & Hsome & Hnone).
  destruct (r_ppi r) as [i'|] eqn:E.
  - destruct (Hsome i' eq_refl) as (_ & _ & _ & pl' & rb' & Hcut' & _ & Hline').
    rewrite Hcut in Hcut'. inversion Hcut'. subst pl' rb'. congruence.
  - specialize (Hnone eq_refl). unfold proxy_line_taken in Hnone. rewrite Hcut, Hpp, Hst in Hnone. discriminate.
Qed.

(* ---- the fuel of conn_run is enough -------------------------------------------------------------------------- *)
Lemma parse_after_line_len c p ppi line rbuf r rest :
  parse_after_line c p ppi line rbuf = PAccept r rest -> (length rest <= length rbuf)%nat.
Proof.
  intros H. apply parse_after_line_inv in H as (q & lines & _ & Hh & _). unfold header_lines in Hh.
  destruct (starts_with [13; 10] rbuf).
  - injection Hh as _ <-. apply (skipn_length_le 2 rbuf).
  - destruct (cut_crlf2 rbuf) as [[b r']|] eqn:E; [|discriminate]. inversion Hh. subst.
    apply cut_crlf2_len in E. lia.
Qed.

Lemma parse_request_len c p reqno data r rest :
  parse_request c p reqno data = PAccept r rest -> (length rest < length data)%nat.
Proof.
  intros H. apply parse_request_inv in H as (line & rbuf & Hl & Ha & _ & _).
  apply parse_after_line_len in Ha. unfold http_part in Hl.
  destruct (proxy_line_taken c reqno data) eqn:Et.
  - unfold proxy_line_taken in Et. destruct (cut_crlf data) as [[pl rb]|] eqn:E; [|discriminate].
    apply cut_crlf_len in E. apply cut_crlf_len in Hl. lia.
  - apply cut_crlf_len in Hl. lia.
Qed.

Lemma conn_loop_fuel c w p : forall fuel reqno carry data,
  (length data < fuel)%nat -> ~ In ROutOfFuel (conn_loop fuel c w p reqno carry data).
Proof.
  induction fuel as [|f IH]; intros reqno carry data Hl; [lia|]. cbn [Environ.conn_loop].
  destruct (parse_request c p reqno data) as [|ex|r rest] eqn:Ep.
  - intros [].
  - intros [H|[]]. discriminate.
  - destruct (carry_step c w r carry) as [r' carry'].
    destruct (wsgi_create c r' p).
    + intros [H|[]]. discriminate.
    + intros [H|H]; [discriminate|].
      destruct (continues c w r); [|destruct H].
      destruct (r_body r); [|destruct H as [H|[]]; discriminate].
      apply parse_request_len in Ep. revert H. apply IH.
      pose proof (skipn_length_le (N.to_nat n) rest). lia.
Qed.

Theorem conn_run_never_out_of_fuel c w p data : ~ In ROutOfFuel (conn_run c w p data).
Proof. unfold Environ.conn_run. apply conn_loop_fuel. lia. Qed.

End World.
