(* C01 / C07 joined: from an accepted request head (any segmentation) to what wsgi.input will deliver and
   where the next request starts - both as the strict RFC 9112 reading of the stream assigns them. *)
From Coq Require Import List NArith ZArith Bool Lia Arith.
From GV Require Import Base.Bytes Base.Scan Base.PyStr Gen.GenParser Model.Parser Spec.IdealBody Spec.Rfc9112
     Proof.TakeDrop Proof.BodyIdeal Proof.BodySim Proof.LengthReader Proof.ParserHead Proof.ChunkedSteps
     Proof.ChunkedDecode Proof.ChunkedGrammar Proof.ParserRun Proof.ChunkedReader Proof.BodyFileThm
     Proof.HeadGrammar Proof.HeadSound.
Import ListNotations.
Local Open Scope N_scope.

Lemma init_conn_chunked r p : r_framing r = FChunked -> snd (init_conn r p) = chunked_init p.
Proof. intros H. unfold init_conn, chunked_init. rewrite H. reflexivity. Qed.
Lemma init_conn_length r p n : r_framing r = FLength n ->
  snd (init_conn r p) = {| c_reader := RLength n; c_unreader := p; c_trailers := [] |}.
Proof. intros H. unfold init_conn. rewrite H. reflexivity. Qed.

(* what the body of an accepted request denotes, in terms of the stream behind its head *)
Definition body_denotes (c : cfg) (r : request) (s : bytes) (v : bytes * term) : Prop :=
  match r_framing r with
  | FLength len => v = (takeN len s, TEof (dropN len s) [])          (* the next len bytes; the rest follows *)
  | FChunked => forall D T, decodes c (AStart s) D T ->
      match T with
      | DStop after tr => v = (D, TEof after (match tr with Some t => t | None => [] end))
                          /\ (rfc_chunked s D after \/ after = [])     (* exactly the RFC 9112 7.1 reading *)
      | DRaise e => v = (D, TErr e)                                   (* malformed / truncated: some read raises e *)
      end
  end.

Theorem accepted_request_end_to_end : forall c x n p r p1,
    NE p -> safe_cfg c -> parse_request c x n p = inl (r, p1) ->
    let k := snd (init_conn r p1) in
    strict_head c (u_abs p) r (u_abs p1)                (* the head is a strict RFC head of the stream *)
    /\ inv_c c k                                         (* the Body theorems of C07 apply to this state *)
    /\ body_denotes c r (u_abs p1) (alpha_c c k).
Proof.
  intros c x n p r p1 Hne Hsafe H k.
  pose proof (parse_request_NE _ _ _ _ _ _ Hne H) as N1.
  split; [eapply accepted_head_is_strict_any_segmentation; eassumption|].
  unfold body_denotes, k. destruct (r_framing r) as [|len] eqn:Ef.
  - rewrite (init_conn_chunked _ _ Ef). destruct (cr_init c p1 N1) as [Hi _]. split; [exact Hi|].
    intros D T Hd. destruct T as [after tr|e].
    + destruct (alpha_chunked c p1 D after tr N1 Hd) as [_ Ha]. split; [exact Ha|].
      eapply chunked_body_is_rfc. exact Hd.
    + apply alpha_chunked_err; assumption.
  - rewrite (init_conn_length _ _ _ Ef). destruct (alpha_length c len p1 [] N1) as [Hi Ha]. split; [exact Hi|exact Ha].
Qed.

(* the drain of Parser.__next__ always completes on a cleanly ending body, with the fuel run_conn gives it *)
Theorem drain_completes : forall c k rem after tr b,
    inv_c c k -> alpha_c c k = (rem, TEof after tr) ->
    exists k', drain (reader_read c) remaining_upper (S (length b + remaining_upper k)) (b, k) = (([], k'), None)
               /\ u_abs (c_unreader k') = after /\ c_trailers k' = tr /\ NE (c_unreader k').
Proof.
  intros c k rem after tr b Hinv Ha.
  pose proof (drain_sim conn (reader_read c) remaining_upper (alpha_c c) (inv_c c) (sim_c c) (fuel_ok_c c)
                        (S (length b + remaining_upper k)) b k Hinv) as Hs.
  rewrite Ha in Hs.
  assert (Hf : (length (b ++ rem) < S (length b + remaining_upper k))%nat).
  { pose proof (fuel_ok_c c k Hinv) as Hk. rewrite Ha in Hk. cbn [fst] in Hk. rewrite app_length. lia. }
  rewrite (i_drain_eof _ b rem after tr Hf) in Hs.
  destruct (drain (reader_read c) remaining_upper (S (length b + remaining_upper k)) (b, k)) as [[b' k'] [e|]] eqn:Ed;
    cbn [drain_rel] in Hs; [discriminate Hs|].
  destruct (drain_reaches_after c k rem after tr _ b b' k' Hinv Ha Ed) as (Hb & H2 & H3 & H4). subst b'.
  exists k'. auto.
Qed.
