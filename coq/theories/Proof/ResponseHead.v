(* C09 side of the response model: what start_response accepts, what it stores, and what reaches the wire
   as the response head - for EVERY program (list of start_response / write actions, any ending), every
   request and every worker wrapper.  Invariant proofs by induction over the program. *)
From Coq Require Import List NArith ZArith Bool Lia Arith.
From GV Require Import Base.Enc Base.Dec Model.RespStr Gen.GenResponse Model.Response Spec.RespSpec Proof.RespStrProofs Proof.RespTables.
Import ListNotations.
Local Open Scope N_scope.

Ltac break_if := match goal with |- context[if ?b then _ else _] => destruct b eqn:? end.
Ltac break_match := match goal with |- context[match ?x with _ => _ end] => destruct x eqn:? end.

(* ---- what start_response stores ------------------------------------------------------------------- *)
Definition valid_hdr (h : str * str) : Prop := is_token (fst h) = true /\ is_value (snd h) = true.

(* the line(s) process_headers keeps for one accepted header *)
Definition fwd1 (h : str * str) : list (str * str) :=
  let v := strip_sp_tab (snd h) in
  let ln := lower (fst h) in
  if list_eqb ln s_content_length then [(fst h, v)]
  else if is_hoppish (fst h) then
    if list_eqb ln s_connection then []
    else if list_eqb ln s_upgrade then (if list_eqb (lower v) s_websocket then [(fst h, v)] else [])
    else []
  else [(fst h, v)].
Definition forwarded (hdrs : list (str * str)) : list (str * str) := flat_map fwd1 hdrs.

(* fields of the state that process_headers / start_response never touch *)
Definition same_io (st st' : rstate) : Prop :=
  r_wire st' = r_wire st /\ r_headers_sent st' = r_headers_sent st /\ r_sent st' = r_sent st /\ r_must_close st' = r_must_close st.

Lemma same_io_refl st : same_io st st.
Proof. repeat split. Qed.
Lemma same_io_trans a b c : same_io a b -> same_io b c -> same_io a c.
Proof. unfold same_io. intuition congruence. Qed.

Lemma process_headers_io : forall hdrs st, same_io st (fst (process_headers st hdrs)).
Proof.
  induction hdrs as [|[n v] t IH]; intros st; cbn [process_headers]; [apply same_io_refl|].
  repeat (break_if || break_match); cbn [fst]; try apply same_io_refl;
    (eapply same_io_trans; [|apply IH]); repeat split.
Qed.

Lemma process_headers_status : forall hdrs st,
  r_status (fst (process_headers st hdrs)) = r_status st /\ r_code (fst (process_headers st hdrs)) = r_code st
  /\ r_chunked (fst (process_headers st hdrs)) = r_chunked st.
Proof.
  induction hdrs as [|[n v] t IH]; intros st; cbn [process_headers]; [auto|].
  repeat (break_if || break_match); cbn [fst]; auto;
    match goal with |- context[process_headers ?s t] => destruct (IH s) as [H1 [H2 H3]]; rewrite H1, H2, H3; auto end.
Qed.

Lemma process_headers_ok : forall hdrs st st',
  process_headers st hdrs = (st', None) ->
  Forall valid_hdr hdrs /\ r_headers st' = r_headers st ++ forwarded hdrs.
Proof.
  induction hdrs as [|[n v] t IH]; intros st st' H; cbn [process_headers] in H.
  - inversion H; subst. cbn. rewrite app_nil_r. auto.
  - destruct (is_token n) eqn:En; cbn [negb] in H; [|discriminate].
    destruct (is_value v) eqn:Ev; cbn [negb] in H; [|discriminate].
    assert (Hv : valid_hdr (n, v)) by (split; assumption).
    unfold forwarded. cbn [flat_map]. unfold fwd1 at 1. cbn [fst snd].
    destruct (list_eqb (lower n) s_content_length) eqn:Ecl.
    + destruct (py_int (strip_sp_tab v)) eqn:Ei; [|discriminate].
      apply IH in H as [HF HH]. split; [constructor; assumption|]. rewrite HH. cbn. rewrite <- app_assoc. reflexivity.
    + destruct (is_hoppish n) eqn:Eh.
      * destruct (list_eqb (lower n) s_connection) eqn:Ec.
        { apply IH in H as [HF HH]. split; [constructor; assumption|]. rewrite HH.
          destruct (list_eqb (lower (strip_sp_tab v)) s_upgrade); reflexivity. }
        destruct (list_eqb (lower n) s_upgrade) eqn:Eu.
        { apply IH in H as [HF HH]. split; [constructor; assumption|]. rewrite HH.
          destruct (list_eqb (lower (strip_sp_tab v)) s_websocket); cbn; [rewrite <- app_assoc|]; reflexivity. }
        apply IH in H as [HF HH]. split; [constructor; assumption|]. rewrite HH. reflexivity.
      * apply IH in H as [HF HH]. split; [constructor; assumption|]. rewrite HH. cbn. rewrite <- app_assoc. reflexivity.
Qed.

(* a header with bad text makes process_headers raise, whatever else is in the list *)
Lemma process_headers_bad : forall hdrs st, Exists (fun h => is_token (fst h) = false \/ is_value (snd h) = false) hdrs ->
  snd (process_headers st hdrs) <> None.
Proof.
  induction hdrs as [|[n v] t IH]; intros st H; [inversion H|].
  cbn [process_headers].
  destruct (is_token n) eqn:En; cbn [negb]; [|cbn; discriminate].
  destruct (is_value v) eqn:Ev; cbn [negb]; [|cbn; discriminate].
  inversion H as [? ? [Hb|Hb]|? ? Hb]; subst; cbn [fst snd] in *; try congruence.
  repeat (break_if || break_match); cbn [snd]; try discriminate; apply IH; exact Hb.
Qed.

(* ---- start_response --------------------------------------------------------------------------------- *)
Lemma start_response_body_io rq st s h : same_io st (fst (start_response_body rq st s h)).
Proof.
  unfold start_response_body.
  destruct (is_value s); cbn [negb]; [|apply same_io_refl].
  destruct (first_word s); [|repeat split].
  match goal with |- context[process_headers ?x h] => pose proof (process_headers_io h x) as Hio; destruct (process_headers x h) as [st1 [e|]] end;
    cbn [fst] in *.
  - eapply same_io_trans; [|exact Hio]. repeat split.
  - destruct (is_chunked rq st1); cbn [fst]; (eapply same_io_trans; [|eapply same_io_trans; [exact Hio|]]); repeat split.
Qed.

Lemma start_response_io rq st s h e : same_io st (fst (start_response rq st s h e)).
Proof.
  unfold start_response. destruct e.
  - destruct (status_truthy (r_status st) && r_headers_sent st); [apply same_io_refl|].
    eapply same_io_trans; [|apply start_response_body_io]. repeat split.
  - destruct (r_status st); [apply same_io_refl|apply start_response_body_io].
Qed.

(* an accepted call: the status text and every header passed validation, and the state now holds exactly
   that status and the forwarded lines of that call (on top of what the headers list held before) *)
Lemma start_response_body_accepted rq st s h st' :
  start_response_body rq st s h = (st', None) ->
  is_value s = true /\ Forall valid_hdr h /\ r_status st' = Some s /\ r_headers st' = r_headers st ++ forwarded h.
Proof.
  unfold start_response_body. intros H.
  destruct (is_value s) eqn:Es; cbn [negb] in H; [|discriminate].
  destruct (first_word s) as [w|]; [|discriminate].
  match type of H with context[process_headers ?x h] => set (st1 := x) in *; destruct (process_headers st1 h) as [st2 [e|]] eqn:Ep end;
    [discriminate|].
  destruct (process_headers_status h st1) as [Hs _]. rewrite Ep in Hs. cbn [fst] in Hs.
  apply process_headers_ok in Ep as [HF HH].
  destruct (is_chunked rq st2); [|discriminate]. inversion H; subst. cbn.
  repeat split; auto.
Qed.

Lemma start_response_accepted rq st s h e st' :
  start_response rq st s h e = (st', None) ->
  (r_status st = None -> r_headers st = []) ->
  is_value s = true /\ Forall valid_hdr h /\ r_status st' = Some s /\ r_headers st' = forwarded h.
Proof.
  unfold start_response. intros H Hinv. destruct e.
  - destruct (status_truthy (r_status st) && r_headers_sent st); [discriminate|].
    apply start_response_body_accepted in H. cbn in H. exact H.
  - destruct (r_status st) eqn:Est; [discriminate|].
    apply start_response_body_accepted in H. rewrite (Hinv eq_refl) in H. exact H.
Qed.

(* text the property says must be refused: judged with RFC character classes, not with the tables *)
Definition has_ctl (s : str) : bool := existsb (fun c => (c =? 13) || (c =? 10) || (c =? 0)) s.
Definition rfc_token (s : str) : bool := match s with [] => false | _ => forallb is_tchar s end.
Definition bad_header (h : str * str) : Prop :=
  rfc_token (fst h) = false \/ has_ctl (fst h) = true \/ has_ctl (snd h) = true
  \/ existsb (fun c => 256 <=? c) (fst h ++ snd h) = true.
Definition bad_text (s : str) (hdrs : list (str * str)) : Prop :=
  has_ctl s = true \/ existsb (fun c => 256 <=? c) s = true \/ Exists bad_header hdrs.

Lemma has_ctl_not_value s : has_ctl s = true -> is_value s = false.
Proof.
  rewrite is_value_spec. unfold has_ctl. intros H. apply existsb_exists in H as [c [Hin Hc]].
  destruct (forallb is_field_char s) eqn:E; [|reflexivity]. rewrite forallb_forall in E. specialize (E c Hin).
  apply field_char_line_char in E. unfold line_char in E.
  destruct (c =? 13), (c =? 10), (c =? 0); cbn in *; congruence.
Qed.
Lemma above_latin1_not_value s : existsb (fun c => 256 <=? c) s = true -> is_value s = false.
Proof.
  rewrite is_value_spec. intros H. apply existsb_exists in H as [c [Hin Hc]].
  destruct (forallb is_field_char s) eqn:E; [|reflexivity]. rewrite forallb_forall in E. specialize (E c Hin).
  apply field_char_lt256 in E. apply N.leb_le in Hc. apply N.ltb_lt in E. lia.
Qed.
Lemma value_is_token_chars s : is_token s = true -> is_value s = true.
Proof.
  rewrite is_token_spec, is_value_spec. destruct s as [|c t]; [discriminate|]. apply forallb_impl. exact tchar_field_char.
Qed.

Lemma bad_header_rejected h : bad_header h -> is_token (fst h) = false \/ is_value (snd h) = false.
Proof.
  destruct h as [n v]. cbn [fst snd]. unfold bad_header. cbn [fst snd]. intros [H|[H|[H|H]]].
  - left. rewrite is_token_spec. exact H.
  - left. destruct (is_token n) eqn:E; [|reflexivity]. apply value_is_token_chars in E.
    rewrite (has_ctl_not_value n H) in E. discriminate.
  - right. apply has_ctl_not_value. exact H.
  - rewrite existsb_app in H. apply orb_prop in H as [H|H].
    + left. destruct (is_token n) eqn:E; [|reflexivity]. apply value_is_token_chars in E.
      rewrite (above_latin1_not_value n H) in E. discriminate.
    + right. apply above_latin1_not_value. exact H.
Qed.

Lemma start_response_refuses rq st s h e : bad_text s h ->
  snd (start_response rq st s h e) <> None /\ same_io st (fst (start_response rq st s h e)).
Proof.
  intros Hb. split; [|apply start_response_io].
  assert (Hbody : forall st0, snd (start_response_body rq st0 s h) <> None).
  { intros st0. unfold start_response_body.
    destruct Hb as [Hb|[Hb|Hb]].
    - rewrite (has_ctl_not_value s Hb). cbn. discriminate.
    - rewrite (above_latin1_not_value s Hb). cbn. discriminate.
    - destruct (is_value s); cbn [negb]; [|cbn; discriminate].
      destruct (first_word s); [|cbn; discriminate].
      match goal with |- context[process_headers ?x h] => pose proof (process_headers_bad h x) as Hp; destruct (process_headers x h) as [st1 [e1|]] end.
      + cbn. discriminate.
      + exfalso. apply Hp; [|reflexivity]. eapply Exists_impl; [|exact Hb]. intros a. apply bad_header_rejected. }
  unfold start_response. destruct e.
  - destruct (status_truthy (r_status st) && r_headers_sent st); [cbn; discriminate|apply Hbody].
  - destruct (r_status st); [cbn; discriminate|apply Hbody].
Qed.

(* ---- the head on the wire --------------------------------------------------------------------------------- *)
Definition conn_tokens : list str := [s_close; s_keep_alive; s_upgrade].

Definition head_fields (date c : str) (te : bool) (hs : list (str * str)) : list (str * str) :=
  [(s_Server_name, server_name); (s_Date_name, date); (s_Connection_name, c)]
  ++ (if te then [(s_TE_name, s_chunked)] else []) ++ hs.

Definition status_line_text (rq : reqinfo) (s : option str) : str :=
  s_HTTP ++ dec (rq_major rq) ++ [46] ++ dec (rq_minor rq) ++ [32] ++ status_text s.

Definition head_bytes (rq : reqinfo) (date c : str) (te : bool) (s : option str) (hs : list (str * str)) : bytes :=
  status_line_text rq s ++ [13; 10] ++ fields_bytes (head_fields date c te hs) ++ [13; 10].

Lemma fmt_header_field_line h : fmt_header h = field_line h ++ [13; 10].
Proof. unfold fmt_header, field_line, s_colon_sp, crlf. rewrite <- !app_assoc. reflexivity. Qed.

Lemma concat_fmt hs : concat (map fmt_header hs) = fields_bytes hs.
Proof.
  unfold fields_bytes. induction hs as [|h t IH]; [reflexivity|]. cbn [map concat]. rewrite IH, fmt_header_field_line. reflexivity.
Qed.

Lemma fields_bytes_app a b : fields_bytes (a ++ b) = fields_bytes a ++ fields_bytes b.
Proof. unfold fields_bytes. rewrite map_app, concat_app. reflexivity. Qed.

Lemma head_form (rq : reqinfo) (date c : str) (ch : bool) (s : option str) (hs : list (str * str)) :
  concat (([status_line rq s; fmt_header (s_Server_name, server_name); fmt_header (s_Date_name, date);
            fmt_header (s_Connection_name, c)] ++ (if ch then [fmt_header (s_TE_name, s_chunked)] else []))
          ++ map fmt_header hs) ++ crlf
  = head_bytes rq date c ch s hs.
Proof.
  change [status_line rq s; fmt_header (s_Server_name, server_name); fmt_header (s_Date_name, date); fmt_header (s_Connection_name, c)]
    with (status_line rq s :: map fmt_header [(s_Server_name, server_name); (s_Date_name, date); (s_Connection_name, c)]).
  replace (if ch then [fmt_header (s_TE_name, s_chunked)] else []) with (map fmt_header (if ch then [(s_TE_name, s_chunked)] else []))
    by (destruct ch; reflexivity).
  cbn [List.app]. rewrite <- !map_app. cbn [concat]. rewrite concat_fmt.
  unfold head_bytes, head_fields, status_line, status_line_text, crlf. rewrite <- !app_assoc. reflexivity.
Qed.

Lemma send_headers_cases rq date st :
  (r_headers_sent st = true /\ send_headers rq date st = (st, None))
  \/ (r_headers_sent st = false /\ exists e, send_headers rq date st = (st, Some e))
  \/ (r_headers_sent st = false /\ exists c, In c conn_tokens /\
        (r_upgrade st = false -> should_close rq st = inl (list_eqb c s_close)) /\
        (r_upgrade st = true -> c = s_upgrade) /\
        send_headers rq date st =
          (set_headers_sent (sock_send st (head_bytes rq date c (r_chunked st) (r_status st) (r_headers st))) true, None)).
Proof.
  unfold send_headers. destruct (r_headers_sent st) eqn:Es; [left; auto|right].
  unfold default_headers.
  pose proof (fun c => head_form rq date c (r_chunked st) (r_status st) (r_headers st)) as Hform.
  destruct (r_upgrade st) eqn:Eu.
  - rewrite Hform. destruct (latin1_ok _); [right|left; split; eauto].
    split; [reflexivity|]. exists s_upgrade. split; [cbn; auto|]. split; [discriminate|]. split; [reflexivity|]. reflexivity.
  - destruct (should_close rq st) as [[|]|e] eqn:Esc.
    + rewrite Hform. destruct (latin1_ok _); [right|left; split; eauto].
      split; [reflexivity|]. exists s_close. split; [cbn; auto|]. split; [reflexivity|]. split; [discriminate|reflexivity].
    + rewrite Hform. destruct (latin1_ok _); [right|left; split; eauto].
      split; [reflexivity|]. exists s_keep_alive. split; [cbn; auto|]. split; [reflexivity|]. split; [discriminate|reflexivity].
    + left. split; eauto.
Qed.

(* ---- the invariant ------------------------------------------------------------------------------------------- *)
Section Inv.
  Variable rq : reqinfo.
  Variable date : str.
  Variable acts : list action.          (* the whole program *)

  (* status / header lines held by a Response: nothing yet, or those of an accepted call of the program *)
  Definition clean_eff (s : option str) (hs : list (str * str)) : Prop :=
    (s = None /\ hs = [])
    \/ (exists s0 h e, In (StartResponse s0 h e) acts /\ s = Some s0 /\ is_value s0 = true /\ Forall valid_hdr h /\ hs = forwarded h).

  Definition cur_ok (st : rstate) : Prop := clean_eff (r_status st) (r_headers st).

  Definition wire_ok (st : rstate) : Prop :=
    if r_headers_sent st
    then exists c te s hs body, In c conn_tokens /\ clean_eff s hs /\ r_wire st = head_bytes rq date c te s hs ++ body
    else r_wire st = [].

  Lemma wire_ok_same_io st st' : same_io st st' -> wire_ok st -> wire_ok st'.
  Proof. intros [H1 [H2 _]]. unfold wire_ok. rewrite H1, H2. auto. Qed.

  Lemma wire_ok_send st x : r_headers_sent st = true -> wire_ok st -> wire_ok (sock_send st x).
  Proof.
    unfold wire_ok. cbn. intros ->. intros [c [te [s [hs [body [Hc [He Hw]]]]]]].
    exists c, te, s, hs, (body ++ x). rewrite Hw, app_assoc. auto.
  Qed.

  (* send_headers keeps both parts of the invariant, in every outcome *)
  Lemma send_headers_inv st st' r : send_headers rq date st = (st', r) -> cur_ok st -> wire_ok st ->
    cur_ok st' /\ wire_ok st' /\ (r = None -> r_headers_sent st' = true)
    /\ r_status st' = r_status st /\ r_headers st' = r_headers st.
  Proof.
    intros H Hc Hw.
    destruct (send_headers_cases rq date st) as [[Hs E]|[[Hs [e E]]|[Hs [c [Hin [_ [_ E]]]]]]]; rewrite E in H; inversion H; subst; clear H.
    - auto.
    - repeat split; auto; try discriminate.
    - repeat split; auto. unfold wire_ok. cbn. unfold wire_ok in Hw. rewrite Hs in Hw. rewrite Hw. cbn.
      exists c, (r_chunked st), (r_status st), (r_headers st), []. rewrite app_nil_r. auto.
  Qed.

  Definition body_inv (st : rstate) : Prop := cur_ok st /\ wire_ok st.
  (* a body operation: keeps the invariant in every outcome, leaves status / headers alone, and when it
     does not raise the head has been sent *)
  Definition body_post (st st' : rstate) (noexn : bool) : Prop :=
    body_inv st' /\ r_status st' = r_status st /\ r_headers st' = r_headers st /\ (noexn = true -> r_headers_sent st' = true).

  Lemma util_write_inv st data ch : r_headers_sent st = true -> body_inv st ->
    body_inv (util_write st data ch) /\ r_headers_sent (util_write st data ch) = true
    /\ r_status (util_write st data ch) = r_status st /\ r_headers (util_write st data ch) = r_headers st.
  Proof.
    intros Hs [Hc Hw]. unfold util_write. destruct ch; (split; [split; [exact Hc|apply wire_ok_send; assumption]|auto]).
  Qed.

  Lemma set_sent_inv st z : body_inv st -> body_inv (set_sent st z).
  Proof. intros [Hc Hw]. split; [exact Hc|exact Hw]. Qed.

  Lemma resp_write_inv st x st' r : resp_write rq date st x = (st', r) -> body_inv st ->
    body_post st st' (match r with None => true | Some _ => false end).
  Proof.
    unfold resp_write. intros H [Hc Hw].
    destruct (send_headers rq date st) as [st1 r1] eqn:Es.
    destruct (send_headers_inv st st1 r1 Es Hc Hw) as [Hc1 [Hw1 [Hs1 [Est Ehd]]]].
    destruct r1 as [e|].
    - inversion H; subst. repeat split; auto; try discriminate.
    - specialize (Hs1 eq_refl).
      assert (Hgo : forall tosend arg st2 r2,
        (if r_chunked st1 && (tosend =? 0)%Z then (st1, @None exn)
         else (util_write (set_sent st1 (r_sent st1 + tosend)%Z) arg (r_chunked st1), @None exn)) = (st2, r2) ->
        body_post st st2 (match r2 with None => true | Some _ => false end)).
      { intros tosend arg st2 r2 Hg. destruct (r_chunked st1 && (tosend =? 0)%Z).
        - inversion Hg; subst. repeat split; auto.
        - inversion Hg; subst.
          destruct (util_write_inv (set_sent st1 (r_sent st1 + tosend)%Z) arg (r_chunked st1) Hs1 (set_sent_inv _ _ (conj Hc1 Hw1)))
            as [Hb [Hs2 [E1 E2]]].
          repeat split; try apply Hb; try (rewrite E1; exact Est); try (rewrite E2; exact Ehd); auto. }
      destruct (r_length st1) as [len|].
      + destruct (len <=? r_sent st1)%Z.
        * inversion H; subst. repeat split; auto.
        * eapply Hgo. exact H.
      + eapply Hgo. exact H.
  Qed.

  Lemma body_post_trans a b c n1 n2 : body_post a b n1 -> body_post b c n2 -> body_post a c n2.
  Proof. unfold body_post. intuition congruence. Qed.

  Lemma write_all_inv : forall items st st' r, write_all rq date st items = (st', r) -> body_inv st ->
    body_inv st' /\ r_status st' = r_status st /\ r_headers st' = r_headers st
    /\ (r = None -> r_headers_sent st = true \/ items <> [] -> r_headers_sent st' = true).
  Proof.
    induction items as [|x t IH]; intros st st' r H Hb; cbn [write_all] in H.
    - inversion H; subst. repeat split; try apply Hb. intros _ [Hs|Hs]; [exact Hs|congruence].
    - destruct (resp_write rq date st x) as [st1 r1] eqn:Ew.
      pose proof (resp_write_inv st x st1 r1 Ew Hb) as [Hb1 [E1 [E2 Hs1]]].
      destruct r1 as [e|].
      + inversion H; subst. repeat split; try apply Hb1; auto. discriminate.
      + specialize (Hs1 eq_refl). destruct (IH st1 st' r H Hb1) as [Hb2 [E3 [E4 Hs2]]].
        repeat split; try apply Hb2; try congruence. intros Hr _. apply Hs2; auto.
  Qed.

  (* "the head is out and status / headers are those of st0" is stable under socket writes and sent updates *)
  Definition flowing (st0 st : rstate) : Prop :=
    body_inv st /\ r_headers_sent st = true /\ r_status st = r_status st0 /\ r_headers st = r_headers st0.
  Lemma flowing_send st0 st x : flowing st0 st -> flowing st0 (sock_send st x).
  Proof. intros [[Hc Hw] [Hs [E1 E2]]]. repeat split; auto. apply wire_ok_send; assumption. Qed.
  Lemma flowing_sent st0 st z : flowing st0 st -> flowing st0 (set_sent st z).
  Proof. intros [[Hc Hw] [Hs [E1 E2]]]. repeat split; auto. Qed.

  Lemma resp_sendfile_inv sf st f st' r : resp_sendfile rq date sf st f = (st', r) -> body_inv st ->
    body_inv st' /\ r_status st' = r_status st /\ r_headers st' = r_headers st
    /\ (r = inl true -> r_headers_sent st' = true) /\ (r = inl false -> st' = st).
  Proof.
    unfold resp_sendfile. intros H Hb.
    destruct sf; cbn [negb] in H; [|inversion H; subst; repeat split; try apply Hb; auto; discriminate].
    destruct (f_has_fileno f); cbn [negb] in H; [|inversion H; subst; repeat split; try apply Hb; auto; discriminate].
    destruct (send_headers rq date st) as [st1 r1] eqn:Es.
    destruct Hb as [Hc Hw].
    destruct (send_headers_inv st st1 r1 Es Hc Hw) as [Hc1 [Hw1 [Hs1 [Est Ehd]]]].
    destruct r1 as [e|].
    - inversion H; subst. repeat split; auto; discriminate.
    - specialize (Hs1 eq_refl).
      assert (F1 : flowing st st1) by (repeat split; auto).
      match type of H with (if ?b then _ else _) = _ => destruct b end.
      + destruct (is_chunked rq st1) as [c1|e1] eqn:Ec1.
        * match type of H with context[is_chunked rq ?s] => set (st2 := s) in * end.
          assert (F2 : flowing st st2).
          { subst st2. apply flowing_sent, flowing_send. destruct c1; [apply flowing_send|]; exact F1. }
          destruct (is_chunked rq st2) as [c2|e2].
          -- inversion H; subst.
             assert (F3 : flowing st (if c2 then sock_send st2 crlf else st2)) by (destruct c2; [apply flowing_send|]; exact F2).
             destruct F3 as [Hb3 [Hs3 [E1 E2]]]. repeat split; auto; try apply Hb3; discriminate.
          -- inversion H; subst. destruct F2 as [Hb2 [Hs2 [E1 E2]]]. repeat split; auto; try apply Hb2; discriminate.
        * inversion H; subst. repeat split; auto; discriminate.
      + inversion H; subst. repeat split; auto; discriminate.
  Qed.

  Lemma resp_write_file_inv sf st f st' r : resp_write_file rq date sf st f = (st', r) -> body_inv st ->
    body_inv st' /\ r_status st' = r_status st /\ r_headers st' = r_headers st.
  Proof.
    unfold resp_write_file. intros H Hb.
    destruct (resp_sendfile rq date sf st f) as [st1 r1] eqn:Es.
    destruct (resp_sendfile_inv sf st f st1 r1 Es Hb) as [Hb1 [E1 [E2 [Hs1 Hs2]]]].
    destruct r1 as [[|]|e].
    - inversion H; subst. auto.
    - destruct (write_all_inv _ _ _ _ H Hb1) as [Hb2 [E3 [E4 _]]]. repeat split; try apply Hb2; congruence.
    - inversion H; subst. auto.
  Qed.

  Lemma resp_close_inv st st' r : resp_close rq date st = (st', r) -> body_inv st ->
    body_inv st' /\ r_status st' = r_status st /\ r_headers st' = r_headers st /\ (r = None -> r_headers_sent st' = true).
  Proof.
    unfold resp_close. intros H [Hc Hw].
    destruct (send_headers rq date st) as [st1 r1] eqn:Es.
    destruct (send_headers_inv st st1 r1 Es Hc Hw) as [Hc1 [Hw1 [Hs1 [Est Ehd]]]].
    destruct r1 as [e|].
    - inversion H; subst. repeat split; auto; try discriminate.
    - specialize (Hs1 eq_refl). destruct (r_chunked st1); inversion H; subst; repeat split; auto.
      apply wire_ok_send; assumption.
  Qed.

  (* start_response: the wire part always survives; after an accepted call the state holds that call *)
  Lemma start_response_inv st s h e st' r : In (StartResponse s h e) acts ->
    start_response rq st s h e = (st', r) -> body_inv st ->
    wire_ok st' /\ (r = None -> cur_ok st').
  Proof.
    intros Hin H [Hc Hw]. split.
    - eapply wire_ok_same_io; [|exact Hw]. pose proof (start_response_io rq st s h e) as Hio. rewrite H in Hio. exact Hio.
    - intros ->. apply start_response_accepted in H.
      + destruct H as [Hs [HF [E1 E2]]]. right. exists s, h, e. auto.
      + intros Hn. destruct Hc as [[_ Hh]|[s0 [h0 [e0 [_ [Hs0 _]]]]]]; [exact Hh|congruence].
  Qed.

  Lemma run_acts_inv : forall l st st' r, incl l acts -> run_acts rq date st l = (st', r) -> body_inv st ->
    wire_ok st' /\ (r = None -> cur_ok st').
  Proof.
    induction l as [|a t IH]; intros st st' r Hincl H Hb; cbn [run_acts] in H.
    - inversion H; subst. destruct Hb. auto.
    - assert (Ha : In a acts) by (apply Hincl; left; reflexivity).
      assert (Ht : incl t acts) by (intros x Hx; apply Hincl; right; exact Hx).
      destruct a as [s h e|d].
      + destruct (start_response rq st s h e) as [st1 r1] eqn:Es.
        destruct (start_response_inv st s h e st1 r1 Ha Es Hb) as [Hw1 Hc1].
        destruct r1 as [ex|].
        * inversion H; subst. split; [exact Hw1|discriminate].
        * eapply IH; [exact Ht|exact H|split; auto].
      + destruct (resp_write rq date st d) as [st1 r1] eqn:Ew.
        destruct (resp_write_inv st d st1 r1 Ew Hb) as [Hb1 _].
        destruct r1 as [ex|].
        * inversion H; subst. split; [apply Hb1|discriminate].
        * eapply IH; [exact Ht|exact H|exact Hb1].
  Qed.
End Inv.

Lemma init_inv rq date acts mc : body_inv rq date acts (set_must_close init_resp mc).
Proof. split; [left; auto|reflexivity]. Qed.

(* every byte sequence a request can produce starts with a head made of clean lines of an accepted call *)
Lemma run_app_wire_ok rq date sf mc a st r :
  run_app rq date sf (set_must_close init_resp mc) a = (st, r) -> wire_ok rq date (a_acts a) st.
Proof.
  unfold run_app. intros H.
  destruct (run_acts rq date (set_must_close init_resp mc) (a_acts a)) as [st1 r1] eqn:Er.
  destruct (run_acts_inv rq date (a_acts a) (a_acts a) _ st1 r1 (incl_refl _) Er (init_inv rq date (a_acts a) mc)) as [Hw1 Hc1].
  destruct r1 as [e|]; [inversion H; subst; exact Hw1|].
  specialize (Hc1 eq_refl).
  destruct (a_end a) as [|f|].
  - destruct (resp_close_inv rq date (a_acts a) st1 st r H (conj Hc1 Hw1)) as [[_ Hw] _]. exact Hw.
  - destruct (resp_write_file rq date sf st1 f) as [st2 r2] eqn:Ef.
    destruct (resp_write_file_inv rq date (a_acts a) sf st1 f st2 r2 Ef (conj Hc1 Hw1)) as [Hb2 _].
    destruct r2 as [e|]; [inversion H; subst; apply Hb2|].
    destruct (resp_close_inv rq date (a_acts a) st2 st r H Hb2) as [[_ Hw] _]. exact Hw.
  - inversion H; subst. exact Hw1.
Qed.

Lemma serve_wire w ws date rq a :
  exists st r, run_app rq date (w_sendfile (bump ws)) (set_must_close init_resp (forced_close w (bump ws))) a = (st, r)
               /\ o_wire (fst (serve w ws date rq a)) = r_wire st
               /\ o_headers_sent (fst (serve w ws date rq a)) = r_headers_sent st
               /\ (r_headers_sent st = false -> forall e, r = Some e -> o_ended (fst (serve w ws date rq a)) = Propagated e).
Proof.
  unfold serve.
  destruct (run_app rq date (w_sendfile (bump ws)) (set_must_close init_resp (forced_close w (bump ws))) a) as [st r] eqn:E.
  exists st, r. split; [reflexivity|].
  destruct r as [e|].
  - cbn. repeat split. intros Hs e0 He. inversion He; subst. rewrite Hs. reflexivity.
  - destruct w; cbn; try (repeat split; intros; discriminate);
      destruct (should_close rq st) as [b|e]; cbn; repeat split; intros; discriminate.
Qed.

(* ---- clean lines -------------------------------------------------------------------------------------------------- *)
Definition date_ok (date : str) : Prop := forallb is_field_char date = true /\ no_edge is_sp_tab date.
Definition wf_req (rq : reqinfo) : Prop := rq_major rq < 10 /\ rq_minor rq < 10.

Lemma strip_no_edge v : no_edge is_sp_tab (strip_sp_tab v).
Proof. apply strip_by_no_edge. Qed.

Lemma fwd1_good h : valid_hdr h -> Forall good_field (fwd1 h).
Proof.
  destruct h as [n v]. intros [Hn Hv]. cbn [fst snd] in *.
  assert (G : good_field (n, strip_sp_tab v)).
  { rewrite is_token_spec in Hn. rewrite is_value_spec in Hv. destruct n as [|c t]; [discriminate|].
    repeat split; cbn [fst snd]; [discriminate|exact Hn| |apply strip_no_edge| apply strip_no_edge].
    apply strip_by_forallb. exact Hv. }
  unfold fwd1. cbn [fst snd]. repeat break_if; auto.
Qed.
Lemma forwarded_good h : Forall valid_hdr h -> Forall good_field (forwarded h).
Proof.
  unfold forwarded. induction 1 as [|x l Hx Hl IH]; cbn; [constructor|]. apply Forall_app. split; [apply fwd1_good; exact Hx|exact IH].
Qed.

Lemma const_fields_good date c te : date_ok date -> In c conn_tokens -> Forall good_field (head_fields date c te []).
Proof.
  intros [Hd1 Hd2] Hc. unfold head_fields. rewrite app_nil_r.
  destruct server_name_ok as [Hs1 Hs2].
  assert (Gc : good_field (s_Connection_name, c)).
  { cbn in Hc. destruct Hc as [<-|[<-|[<-|[]]]]; repeat split; cbn; try reflexivity; discriminate. }
  assert (Gs : good_field (s_Server_name, server_name)) by (split; [discriminate|split; [reflexivity|split; assumption]]).
  assert (Gd : good_field (s_Date_name, date)) by (split; [discriminate|split; [reflexivity|split; assumption]]).
  assert (Gt : good_field (s_TE_name, s_chunked)) by (split; [discriminate|split; [reflexivity|split; [reflexivity|split; exact I || reflexivity]]]).
  destruct te; cbn [List.app]; repeat (constructor; [assumption|]); constructor.
Qed.

Lemma head_fields_good date c te hs : date_ok date -> In c conn_tokens -> Forall good_field hs ->
  Forall good_field (head_fields date c te hs).
Proof.
  intros Hd Hc Hh. pose proof (const_fields_good date c te Hd Hc) as G. unfold head_fields in *. rewrite app_nil_r in G.
  rewrite app_assoc. apply Forall_app. split; assumption.
Qed.

Lemma dec_line_char n : forallb line_char (dec n) = true.
Proof.
  eapply forallb_impl; [|apply dec_all_digits]. intros c H. unfold Dec.is_digit in H. unfold line_char.
  apply andb_prop in H as [H1 H2]. apply N.leb_le in H1, H2.
  repeat (apply andb_true_intro; split); apply negb_true_iff, N.eqb_neq; lia.
Qed.

Lemma status_line_clean rq s : (match s with Some t => is_value t = true | None => True end) ->
  status_line_text rq s <> [] /\ forallb line_char (status_line_text rq s) = true.
Proof.
  intros Hs. unfold status_line_text. split; [discriminate|].
  rewrite !forallb_app, !dec_line_char. cbn [forallb]. change (forallb line_char s_HTTP) with true.
  change (line_char 46) with true. change (line_char 32) with true. cbn [andb].
  destruct s as [t|]; cbn [status_text]; [|reflexivity].
  rewrite is_value_spec in Hs. eapply forallb_impl; [|exact Hs]. exact field_char_line_char.
Qed.

Lemma clean_eff_parts acts s hs : clean_eff acts s hs ->
  (match s with Some t => is_value t = true | None => True end) /\ Forall good_field hs.
Proof.
  intros [[-> ->]|[s0 [h [e [_ [-> [Hv [HF ->]]]]]]]]; [split; [exact I|constructor]|].
  split; [exact Hv|apply forwarded_good; exact HF].
Qed.

Lemma fields_bytes_lines flds : fields_bytes flds = concat (map (fun l => l ++ [13; 10]) (map field_line flds)).
Proof. unfold fields_bytes. rewrite map_map. reflexivity. Qed.

Lemma head_lines_of_head rq date c te s hs body acts :
  date_ok date -> In c conn_tokens -> clean_eff acts s hs ->
  head_lines (S (length (head_bytes rq date c te s hs ++ body))) (head_bytes rq date c te s hs ++ body)
  = Some (status_line_text rq s :: map field_line (head_fields date c te hs), body).
Proof.
  intros Hd Hc He. destruct (clean_eff_parts acts s hs He) as [Hs Hh].
  pose proof (head_fields_good date c te hs Hd Hc Hh) as Hg.
  set (lines := status_line_text rq s :: map field_line (head_fields date c te hs)).
  assert (Hb : head_bytes rq date c te s hs ++ body = concat (map (fun l => l ++ [13; 10]) lines) ++ 13 :: 10 :: body).
  { unfold head_bytes, lines. cbn [map concat]. rewrite fields_bytes_lines, <- !app_assoc. reflexivity. }
  rewrite Hb. apply head_lines_block.
  - unfold lines. constructor; [apply status_line_clean; exact Hs|].
    apply Forall_forall. intros l Hl. apply in_map_iff in Hl as [f [<- Hf]]. rewrite Forall_forall in Hg. specialize (Hg f Hf).
    split; [apply field_line_nonempty; exact Hg|apply field_line_chars; exact Hg].
  - rewrite <- Hb. unfold lines. cbn [length]. rewrite app_length. unfold head_bytes. rewrite !app_length. rewrite fields_bytes_lines.
    apply Nat.lt_succ_r. etransitivity; [|apply Nat.le_add_r]. cbn [length].
    assert (forall (ls : list (list N)), (length ls <= length (concat (map (fun l => l ++ [13%N; 10%N]) ls)))%nat).
    { induction ls as [|x t IH]; cbn; [lia|]. rewrite !app_length. cbn. lia. }
    specialize (H (map field_line (head_fields date c te hs))). lia.
Qed.

(* ---- forwarded, stated without the branch structure of process_headers ------------------------------------------------ *)
Definition keeps (h : str * str) : bool :=
  negb (is_hoppish (fst h))
  || (list_eqb (lower (fst h)) s_upgrade && list_eqb (lower (strip_sp_tab (snd h))) s_websocket).

Lemma lower_token_strip n : is_token n = true -> strip_by py_space (lower n) = lower n.
Proof.
  rewrite is_token_spec. intros H. destruct n as [|c t]; [discriminate|].
  apply strip_by_id. assert (Hl : forallb (fun c => negb (py_space c)) (lower (c :: t)) = true).
  { unfold lower. rewrite forallb_forall. intros x Hx. apply in_map_iff in Hx as [y [<- Hy]].
    rewrite forallb_forall in H. specialize (H y Hy). apply tchar_lower in H. rewrite (tchar_not_space _ H). reflexivity. }
  split.
  - cbn [lower map] in *. cbn [forallb] in Hl. apply andb_prop in Hl as [Hl _]. apply negb_true_iff in Hl. exact Hl.
  - rewrite <- forallb_rev' in Hl. destruct (rev (lower (c :: t))) as [|x r]; [exact I|].
    cbn [forallb] in Hl. apply andb_prop in Hl as [Hl _]. apply negb_true_iff in Hl. exact Hl.
Qed.

Lemma fwd1_keeps h : valid_hdr h -> fwd1 h = if keeps h then [(fst h, strip_sp_tab (snd h))] else [].
Proof.
  destruct h as [n v]. intros [Hn _]. cbn [fst snd] in *. unfold fwd1, keeps. cbn [fst snd].
  destruct (list_eqb (lower n) s_content_length) eqn:Ecl.
  - apply list_eqb_eq in Ecl. unfold is_hoppish. rewrite (lower_token_strip n Hn), Ecl, content_length_not_hop. reflexivity.
  - destruct (is_hoppish n) eqn:Eh; cbn [negb orb]; [|reflexivity].
    destruct (list_eqb (lower n) s_connection) eqn:Ec.
    + apply list_eqb_eq in Ec. rewrite Ec. reflexivity.
    + destruct (list_eqb (lower n) s_upgrade); cbn [andb]; [|reflexivity].
      destruct (list_eqb (lower (strip_sp_tab v)) s_websocket); reflexivity.
Qed.

Lemma forwarded_filter h : Forall valid_hdr h ->
  forwarded h = map (fun x => (fst x, strip_sp_tab (snd x))) (filter keeps h).
Proof.
  unfold forwarded. induction 1 as [|x l Hx Hl IH]; [reflexivity|]. cbn [flat_map filter]. rewrite IH, (fwd1_keeps x Hx).
  destruct (keeps x); reflexivity.
Qed.

(* ---- programs containing a call that must be refused ---------------------------------------------------------------------- *)
Lemma run_acts_app rq date : forall l1 l2 st,
  run_acts rq date st (l1 ++ l2) =
  match run_acts rq date st l1 with
  | (st1, Some e) => (st1, Some e)
  | (st1, None) => run_acts rq date st1 l2
  end.
Proof.
  induction l1 as [|a t IH]; intros l2 st; [reflexivity|]. cbn [List.app run_acts].
  destruct a as [s h e|d].
  - destruct (start_response rq st s h e) as [st1 [ex|]]; [reflexivity|apply IH].
  - destruct (resp_write rq date st d) as [st1 [ex|]]; [reflexivity|apply IH].
Qed.

(* nothing is sent by a refused call, nor after it *)
Lemma refused_call_sends_nothing rq date st pre s h e post st' r :
  bad_text s h -> run_acts rq date st (pre ++ StartResponse s h e :: post) = (st', r) ->
  r <> None /\ r_wire st' = r_wire (fst (run_acts rq date st pre)) /\ r_headers_sent st' = r_headers_sent (fst (run_acts rq date st pre)).
Proof.
  intros Hb H. rewrite run_acts_app in H. destruct (run_acts rq date st pre) as [st1 [ex|]]; cbn [fst].
  - inversion H; subst. split; [discriminate|auto].
  - cbn [run_acts] in H. destruct (start_response_refuses rq st1 s h e Hb) as [Hr [Hw [Hs _]]].
    destruct (start_response rq st1 s h e) as [st2 [ex|]]; cbn [fst snd] in *; [|congruence].
    inversion H; subst. split; [discriminate|auto].
Qed.

Definition is_sr (a : action) : bool := match a with StartResponse _ _ _ => true | Write _ => false end.

Lemma only_calls_send_nothing rq date : forall l st, forallb is_sr l = true ->
  same_io st (fst (run_acts rq date st l)).
Proof.
  induction l as [|a t IH]; intros st H; [apply same_io_refl|]. cbn [forallb] in H. apply andb_prop in H as [Ha Ht].
  destruct a as [s h e|d]; [|discriminate]. cbn [run_acts].
  pose proof (start_response_io rq st s h e) as Hio.
  destruct (start_response rq st s h e) as [st1 [ex|]]; cbn [fst] in *; [exact Hio|].
  eapply same_io_trans; [exact Hio|apply IH; exact Ht].
Qed.

Lemma serve_refuses w ws date rq pre s h e post en :
  bad_text s h -> forallb is_sr pre = true ->
  let o := fst (serve w ws date rq {| a_acts := pre ++ StartResponse s h e :: post; a_end := en |}) in
  o_wire o = [] /\ o_headers_sent o = false /\ exists x, o_ended o = Propagated x.
Proof.
  intros Hb Hpre o. subst o.
  destruct (serve_wire w ws date rq {| a_acts := pre ++ StartResponse s h e :: post; a_end := en |}) as [st [r [Hrun [Hw [Hs Hp]]]]].
  unfold run_app in Hrun. cbn [a_acts a_end] in Hrun.
  destruct (run_acts rq date (set_must_close init_resp (forced_close w (bump ws))) (pre ++ StartResponse s h e :: post)) as [st1 r1] eqn:Er.
  destruct (refused_call_sends_nothing _ _ _ _ _ _ _ _ _ _ Hb Er) as [Hr [Hw1 Hs1]].
  destruct (only_calls_send_nothing rq date pre (set_must_close init_resp (forced_close w (bump ws))) Hpre) as [Hio1 [Hio2 _]].
  rewrite Hio1 in Hw1. rewrite Hio2 in Hs1. cbn in Hw1, Hs1.
  destruct r1 as [ex|]; [|congruence]. inversion Hrun; subst.
  rewrite Hw, Hs, Hw1, Hs1. split; [reflexivity|split; [reflexivity|]]. exists ex. apply Hp; [exact Hs1|reflexivity].
Qed.

(* ---- the head of every response --------------------------------------------------------------------------------------------- *)
Lemma serve_head w ws date rq a : date_ok date ->
  let o := fst (serve w ws date rq a) in
  o_wire o <> [] ->
  exists c te s hs body,
    In c conn_tokens /\ clean_eff (a_acts a) s hs /\
    head_lines (S (length (o_wire o))) (o_wire o)
    = Some (status_line_text rq s :: map field_line (head_fields date c te hs), body).
Proof.
  intros Hd o Hne. subst o.
  destruct (serve_wire w ws date rq a) as [st [r [Hrun [Hw _]]]].
  pose proof (run_app_wire_ok _ _ _ _ _ _ _ Hrun) as Hok. unfold wire_ok in Hok.
  rewrite Hw in *. destruct (r_headers_sent st); [|congruence].
  destruct Hok as [c [te [s [hs [body [Hc [He Ew]]]]]]].
  exists c, te, s, hs, body. split; [exact Hc|split; [exact He|]].
  rewrite Ew. eapply head_lines_of_head; eassumption.
Qed.
