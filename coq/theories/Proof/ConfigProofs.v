(* Proofs about Model/Config.v (C16): sources as assignment lists, the merge as a fold of Setting.set,
   "the last assignment wins", resolution of names under a well-formed table, factorisation of
   Application.load_config into "gather what every source mentions" and "merge". *)
From Coq Require Import List NArith ZArith Bool Arith Lia.
From GV Require Import Base.Enc Base.Dec Model.Config.
Import ListNotations.

(* ------------------------------------------------------------------------------------------- *)
(* strings, upd                                                                                   *)
(* ------------------------------------------------------------------------------------------- *)
Lemma str_eqb_eq a b : str_eqb a b = true <-> a = b.
Proof.
  revert b; induction a as [|x a IH]; destruct b as [|y b]; cbn; split; try easy.
  - intros H. apply andb_prop in H as [H1 H2]. apply N.eqb_eq in H1. apply IH in H2. congruence.
  - intros H. inversion H; subst. rewrite N.eqb_refl. cbn. apply IH. reflexivity.
Qed.

Lemma str_eqb_refl a : str_eqb a a = true.
Proof. apply str_eqb_eq. reflexivity. Qed.

Lemma upd_length {A} i (x : A) l : length (upd i x l) = length l.
Proof. revert i; induction l as [|h t IH]; intros [|i]; cbn; auto. Qed.

Lemma nth_error_upd_same {A} i (x : A) l : i < length l -> nth_error (upd i x l) i = Some x.
Proof. revert i; induction l as [|h t IH]; intros [|i] H; cbn in *; try lia; auto. apply IH. lia. Qed.

Lemma nth_error_upd_other {A} i j (x : A) l : i <> j -> nth_error (upd i x l) j = nth_error l j.
Proof.
  revert i j; induction l as [|h t IH]; intros [|i] [|j] H; cbn; auto; try congruence;
    try (apply IH; congruence).
Qed.

Lemma nth_upd_same {A} i (x d : A) l : i < length l -> nth i (upd i x l) d = x.
Proof. revert i; induction l as [|h t IH]; intros [|i] H; cbn in *; try lia; auto. apply IH. lia. Qed.

Lemma nth_upd_other {A} i j (x d : A) l : i <> j -> nth j (upd i x l) d = nth j l d.
Proof.
  revert i j; induction l as [|h t IH]; intros [|i] [|j] H; cbn; auto; try congruence;
    try (apply IH; congruence).
Qed.

(* ------------------------------------------------------------------------------------------- *)
(* well-formedness of the settings table (checked by computation on the regenerated table)       *)
(* ------------------------------------------------------------------------------------------- *)
Fixpoint nodupb (l : list str) : bool :=
  match l with
  | [] => true
  | x :: t => negb (existsb (str_eqb x) t) && nodupb t
  end.

Definition names (tbl : list setting) : list str := map s_name tbl.
Definition all_flags (extra : list str) (tbl : list setting) : list str := extra ++ flat_map s_flags tbl.
Definition flag_shape (f : str) : bool := match f with 45%N :: _ :: _ => true | _ => false end.
Definition n_args : str := [97;114;103;115]%N.
Definition is_some {A} (o : option A) : bool := match o with Some _ => true | None => false end.

Definition wf_table (extra : list str) (tbl : list setting) : bool :=
  (* every setting has its own name, and Config.set(k.lower()) reaches the setting named k *)
  nodupb (names tbl)
  && forallb (fun s => str_eqb (lower (s_name s)) (s_name s)) tbl
  (* an option that is not given leaves None in the namespace: only a given option "mentions" *)
  && forallb (fun s => is_rnone (s_argdefault s)) tbl
  (* a given option never leaves None: store_const/store_true/store_false carry a non-None constant *)
  && forallb (fun s => match s_action s with AStoreConst => negb (is_rnone (s_const s)) | _ => true end) tbl
  (* option strings are distinct (argparse refuses to build the parser otherwise) and look like options *)
  && nodupb (all_flags extra tbl)
  && forallb flag_shape (all_flags extra tbl)
  (* the positional is called "args"; the settings the loader itself consults exist *)
  && negb (existsb (str_eqb n_args) (names tbl))
  && is_some (find_idx tbl n_config) && is_some (find_idx tbl n_wsgi_app)
  && is_some (find_idx tbl n_default_proc_name) && is_some (find_idx tbl n_paste).

(* ------------------------------------------------------------------------------------------- *)
(* find_idx                                                                                       *)
(* ------------------------------------------------------------------------------------------- *)
Lemma find_idx_from_sound n tbl k i :
  find_idx_from n tbl k = Some i -> exists s, n <= i /\ nth_error tbl (i - n) = Some s /\ s_name s = k.
Proof.
  revert n; induction tbl as [|s t IH]; intros n H; cbn in H; [discriminate|].
  destruct (str_eqb (s_name s) k) eqn:E.
  - inversion H; subst. exists s. rewrite Nat.sub_diag. split; [lia|]. split; [reflexivity|]. apply str_eqb_eq. exact E.
  - apply IH in H as (s' & Hle & Hn & Hk). exists s'. split; [lia|]. split; [|exact Hk].
    replace (i - n) with (S (i - S n)) by lia. exact Hn.
Qed.

Lemma find_idx_sound tbl k i : find_idx tbl k = Some i -> exists s, nth_error tbl i = Some s /\ s_name s = k.
Proof.
  unfold find_idx. intros H. apply find_idx_from_sound in H as (s & _ & Hn & Hk).
  rewrite Nat.sub_0_r in Hn. eauto.
Qed.

Lemma existsb_str_false x l : existsb (str_eqb x) l = false -> ~ In x l.
Proof.
  induction l as [|y t IH]; cbn; [tauto|]. intros H [E|E].
  - subst. rewrite str_eqb_refl in H. discriminate.
  - apply orb_false_elim in H as [_ H]. exact (IH H E).
Qed.

Lemma nodupb_NoDup l : nodupb l = true -> NoDup l.
Proof.
  induction l as [|x t IH]; cbn; [constructor|]. intros H. apply andb_prop in H as [H1 H2].
  constructor; [|auto]. apply existsb_str_false. destruct (existsb (str_eqb x) t); [discriminate|reflexivity].
Qed.

Lemma find_idx_from_complete n tbl i s :
  NoDup (names tbl) -> nth_error tbl i = Some s -> find_idx_from n tbl (s_name s) = Some (n + i).
Proof.
  revert n i; induction tbl as [|h t IH]; intros n i Hnd Hn; [destruct i; discriminate|].
  cbn. destruct i as [|i]; cbn in Hn.
  - inversion Hn; subst. rewrite str_eqb_refl. f_equal. lia.
  - cbn in Hnd. inversion Hnd as [|? ? Hnotin Hnd']; subst.
    destruct (str_eqb (s_name h) (s_name s)) eqn:E.
    + apply str_eqb_eq in E. exfalso. apply Hnotin. rewrite E. unfold names. apply in_map.
      eapply nth_error_In. exact Hn.
    + rewrite (IH (S n) i Hnd' Hn). f_equal. lia.
Qed.

Lemma find_idx_complete tbl i s :
  NoDup (names tbl) -> nth_error tbl i = Some s -> find_idx tbl (s_name s) = Some i.
Proof. intros H1 H2. unfold find_idx. rewrite (find_idx_from_complete 0 tbl i s H1 H2). reflexivity. Qed.

(* ------------------------------------------------------------------------------------------- *)
(* the merge: a fold of Setting.set over (setting index, raw value) assignments                   *)
(* ------------------------------------------------------------------------------------------- *)
Definition assigns := list (nat * raw).

(* the raw value of the last assignment to setting i *)
Fixpoint last_assign (i : nat) (l : assigns) : option raw :=
  match l with
  | [] => None
  | (j, r) :: t => match last_assign i t with
                   | Some r' => Some r'
                   | None => if Nat.eqb i j then Some r else None
                   end
  end.

Lemma last_assign_app i a b :
  last_assign i (a ++ b) = match last_assign i b with Some r => Some r | None => last_assign i a end.
Proof.
  induction a as [|[j r] t IH]; cbn.
  - destruct (last_assign i b); reflexivity.
  - rewrite IH. destruct (last_assign i b); reflexivity.
Qed.

Lemma last_assign_none_iff i l : last_assign i l = None <-> ~ In i (map fst l).
Proof.
  induction l as [|[j r] t IH]; cbn; [tauto|].
  destruct (last_assign i t) eqn:E.
  - split; [discriminate|]. intros H. exfalso. apply H. right.
    destruct (in_dec Nat.eq_dec i (map fst t)) as [Hin|Hn]; [exact Hin|]. apply IH in Hn. discriminate.
  - destruct (Nat.eqb i j) eqn:Eij.
    + apply Nat.eqb_eq in Eij. subst. split; [discriminate|]. intros H. exfalso. apply H. left. reflexivity.
    + apply Nat.eqb_neq in Eij. split; [|reflexivity]. intros _ [H|H]; [congruence|]. apply IH in H; auto.
Qed.

Lemma last_assign_in i l r : last_assign i l = Some r -> In (i, r) l.
Proof.
  induction l as [|[j r'] t IH]; cbn; [discriminate|].
  destruct (last_assign i t) eqn:E.
  - intros H. inversion H; subst. right. apply IH. reflexivity.
  - destruct (Nat.eqb i j) eqn:Eij; [|discriminate]. apply Nat.eqb_eq in Eij. intros H. inversion H; subst. left. reflexivity.
Qed.

Section Merge.
  Variable value : Type.
  Variable vnone : value.
  Variable is_none : value -> bool.
  Variable validate : nat -> raw -> option value.
  Variable extra : list str.
  Variable tbl : list setting.

  Notation config := (list value).
  Notation set_idx := (set_idx value validate).
  Notation set_name := (set_name value validate tbl).
  Notation run_dict := (run_dict value validate tbl).
  Notation run_file := (run_file value validate tbl).
  Notation run_ns := (run_ns value validate tbl).
  Notation initial_config := (initial_config value vnone validate tbl).
  Notation load := (load value vnone is_none validate extra tbl).

  Fixpoint run_sets (c : config) (l : assigns) : option config :=
    match l with
    | [] => Some c
    | (i, r) :: t => match set_idx c i r with Some c' => run_sets c' t | None => None end
    end.

  Lemma set_idx_length c i r c' : set_idx c i r = Some c' -> length c' = length c.
  Proof.
    unfold Config.set_idx. destruct (i <? length c); [|discriminate]. destruct (validate i r); [|discriminate].
    intros H. inversion H. apply upd_length.
  Qed.

  Lemma set_idx_inv c i r c' :
    set_idx c i r = Some c' -> exists v, i < length c /\ validate i r = Some v /\ c' = upd i v c.
  Proof.
    unfold Config.set_idx. destruct (i <? length c) eqn:E; [|discriminate]. apply Nat.ltb_lt in E.
    destruct (validate i r) as [v|]; [|discriminate]. intros H. inversion H. eauto.
  Qed.

  Lemma run_sets_length c l c' : run_sets c l = Some c' -> length c' = length c.
  Proof.
    revert c; induction l as [|[i r] t IH]; intros c H; cbn in H.
    - inversion H. reflexivity.
    - destruct (set_idx c i r) as [c1|] eqn:E; [|discriminate]. rewrite (IH _ H). eapply set_idx_length. exact E.
  Qed.

  Lemma run_sets_app c a b :
    run_sets c (a ++ b) = match run_sets c a with Some c' => run_sets c' b | None => None end.
  Proof.
    revert c; induction a as [|[i r] t IH]; intros c; cbn; [reflexivity|].
    destruct (set_idx c i r); [apply IH|reflexivity].
  Qed.

  (* THE LAST ASSIGNMENT WINS: after a successful merge every setting holds the validated raw value of the
     last assignment to it, and a setting that is not assigned keeps its value *)
  Lemma run_sets_value c l c' i :
    run_sets c l = Some c' ->
    nth_error c' i = match last_assign i l with Some r => validate i r | None => nth_error c i end.
  Proof.
    revert c; induction l as [|[j r] t IH]; intros c H; cbn in H.
    - inversion H. reflexivity.
    - destruct (set_idx c j r) as [c1|] eqn:E; [|discriminate].
      rewrite (IH _ H). cbn [last_assign]. destruct (last_assign i t); [reflexivity|].
      apply set_idx_inv in E as (v & Hlt & Hv & ->).
      destruct (Nat.eqb i j) eqn:Eij.
      + apply Nat.eqb_eq in Eij. subst. rewrite Hv. apply nth_error_upd_same. exact Hlt.
      + apply Nat.eqb_neq in Eij. apply nth_error_upd_other. congruence.
  Qed.

  (* every assignment of a successful merge was accepted by its validator *)
  Lemma run_sets_all_valid c l c' :
    run_sets c l = Some c' -> forall i r, In (i, r) l -> i < length c /\ validate i r <> None.
  Proof.
    revert c; induction l as [|[j r'] t IH]; intros c H i r Hin; [destruct Hin|].
    cbn in H. destruct (set_idx c j r') as [c1|] eqn:E; [|discriminate].
    destruct Hin as [Heq|Hin].
    - inversion Heq; subst. apply set_idx_inv in E as (v & Hlt & Hv & _). split; [exact Hlt|congruence].
    - destruct (IH _ H i r Hin) as [H1 H2]. split; [|exact H2]. erewrite <- set_idx_length; eauto.
  Qed.

  (* ... and nothing but a rejected value (or an index outside the table) stops a merge *)
  Lemma run_sets_total c l :
    (forall i r, In (i, r) l -> i < length c /\ validate i r <> None) -> exists c', run_sets c l = Some c'.
  Proof.
    revert c; induction l as [|[j r] t IH]; intros c H; cbn; [eauto|].
    destruct (H j r (or_introl eq_refl)) as [Hlt Hv].
    unfold Config.set_idx. apply Nat.ltb_lt in Hlt. rewrite Hlt. destruct (validate j r) as [v|] eqn:Ev; [|congruence].
    apply IH. intros i r' Hin. rewrite upd_length. apply H. right. exact Hin.
  Qed.

  Lemma run_sets_invalid c l i r :
    In (i, r) l -> validate i r = None -> run_sets c l = None.
  Proof.
    intros Hin Hv. destruct (run_sets c l) as [c'|] eqn:E; [|reflexivity].
    exfalso. destruct (run_sets_all_valid _ _ _ E _ _ Hin) as [_ H]. exact (H Hv).
  Qed.

  (* --------------------------------------------------------------------------------------- *)
  (* named assignments resolve to indices                                                     *)
  (* --------------------------------------------------------------------------------------- *)
  Hypothesis Hnd : NoDup (names tbl).
  Hypothesis Hlower : forall s, In s tbl -> lower (s_name s) = s_name s.

  (* the framework dict: keys are lower-cased, an unknown key is an error *)
  Fixpoint resolve_dict (l : items) : option assigns :=
    match l with
    | [] => Some []
    | (k, r) :: t => match find_idx tbl (lower k), resolve_dict t with
                     | Some i, Some a => Some ((i, r) :: a)
                     | _, _ => None
                     end
    end.

  Lemma run_dict_resolve c l c' :
    run_dict c l = Some c' -> exists a, resolve_dict l = Some a /\ run_sets c a = Some c'.
  Proof.
    revert c; induction l as [|[k r] t IH]; intros c H; cbn in H.
    - inversion H. exists []. split; reflexivity.
    - unfold Config.set_name in H. destruct (find_idx tbl (lower k)) as [i|] eqn:Ef; [|discriminate].
      destruct (set_idx c i r) as [c1|] eqn:Es; [|discriminate].
      apply IH in H as (a & Ha & Hr). exists ((i, r) :: a). cbn. rewrite Ef, Ha. split; [reflexivity|].
      rewrite Es. exact Hr.
  Qed.

  Lemma run_dict_resolved c l a : resolve_dict l = Some a -> run_dict c l = run_sets c a.
  Proof.
    revert c a; induction l as [|[k r] t IH]; intros c a H; cbn in H.
    - inversion H. reflexivity.
    - destruct (find_idx tbl (lower k)) as [i|] eqn:Ef; [|discriminate].
      destruct (resolve_dict t) as [a'|] eqn:Ea; [|discriminate]. inversion H; subst.
      cbn. unfold Config.set_name. rewrite Ef. destruct (set_idx c i r); [|reflexivity]. apply IH. reflexivity.
  Qed.

  (* the configuration file: names that are not settings are ignored *)
  Fixpoint resolve_file (l : items) : assigns :=
    match l with
    | [] => []
    | (k, r) :: t => match find_idx tbl k with
                     | Some i => (i, r) :: resolve_file t
                     | None => resolve_file t
                     end
    end.

  Lemma find_idx_lower k i : find_idx tbl k = Some i -> find_idx tbl (lower k) = Some i.
  Proof.
    intros H. destruct (find_idx_sound _ _ _ H) as (s & Hn & Hk).
    rewrite <- Hk, (Hlower s (nth_error_In _ _ Hn)), Hk. exact H.
  Qed.

  Lemma run_file_resolved c l : run_file c l = run_sets c (resolve_file l).
  Proof.
    revert c; induction l as [|[k r] t IH]; intros c; cbn; [reflexivity|].
    destruct (find_idx tbl k) as [i|] eqn:Ef; [|apply IH].
    unfold Config.set_name. rewrite (find_idx_lower _ _ Ef). cbn. destruct (set_idx c i r); [apply IH|reflexivity].
  Qed.

  (* a namespace: exactly the options that were given (value is not None) are applied *)
  Fixpoint ns_assigns_from (i : nat) (l : list setting) (ns : list raw) : assigns :=
    match l, ns with
    | _ :: t, r :: ns' => if is_rnone r then ns_assigns_from (S i) t ns' else (i, r) :: ns_assigns_from (S i) t ns'
    | _, _ => []
    end.
  Definition ns_assigns (ns : list raw) : assigns := ns_assigns_from 0 tbl ns.

  Lemma resolve_ns_items pre l ns :
    tbl = pre ++ l -> resolve_dict (ns_items l ns) = Some (ns_assigns_from (length pre) l ns).
  Proof.
    revert pre ns; induction l as [|s t IH]; intros pre ns Ht; [destruct ns; reflexivity|].
    destruct ns as [|r ns']; [reflexivity|]. cbn.
    assert (Ht' : tbl = (pre ++ [s]) ++ t) by (rewrite <- app_assoc; exact Ht).
    specialize (IH (pre ++ [s]) ns' Ht'). rewrite app_length in IH. cbn in IH. rewrite Nat.add_1_r in IH.
    destruct (is_rnone r); [exact IH|].
    cbn. assert (Hin : In s tbl) by (rewrite Ht; apply in_or_app; right; left; reflexivity).
    rewrite (Hlower s Hin).
    assert (Hn : nth_error tbl (length pre) = Some s).
    { rewrite Ht, nth_error_app2 by lia. rewrite Nat.sub_diag. reflexivity. }
    rewrite (find_idx_complete _ _ _ Hnd Hn), IH. reflexivity.
  Qed.

  Lemma run_ns_resolved c ns : run_ns c ns = run_sets c (ns_assigns ns).
  Proof.
    unfold Config.run_ns. apply run_dict_resolved. apply (resolve_ns_items [] tbl ns). reflexivity.
  Qed.

  Lemma last_assign_ns_below i k l ns : i < k -> last_assign i (ns_assigns_from k l ns) = None.
  Proof.
    revert k ns; induction l as [|s t IH]; intros k ns Hi; [destruct ns; reflexivity|].
    destruct ns as [|r ns']; [reflexivity|]. cbn [ns_assigns_from].
    assert (Hrec : last_assign i (ns_assigns_from (S k) t ns') = None) by (apply IH; lia).
    destruct (is_rnone r); [exact Hrec|]. cbn [last_assign]. rewrite Hrec.
    assert (E : Nat.eqb i k = false) by (apply Nat.eqb_neq; lia). rewrite E. reflexivity.
  Qed.

  Lemma last_assign_ns_from k j l ns :
    last_assign (k + j) (ns_assigns_from k l ns) =
    match nth_error l j, nth_error ns j with
    | Some _, Some r => if is_rnone r then None else Some r
    | _, _ => None
    end.
  Proof.
    revert k j ns; induction l as [|s t IH]; intros k j ns.
    - destruct ns; cbn; destruct j; reflexivity.
    - destruct ns as [|r ns'].
      + cbn. destruct (nth_error (s :: t) j); destruct j; reflexivity.
      + cbn [ns_assigns_from]. destruct j as [|j'].
        * cbn [nth_error]. rewrite Nat.add_0_r.
          assert (Hrec : last_assign k (ns_assigns_from (S k) t ns') = None) by (apply last_assign_ns_below; lia).
          destruct (is_rnone r); [exact Hrec|]. cbn [last_assign]. rewrite Hrec, Nat.eqb_refl. reflexivity.
        * cbn [nth_error]. replace (k + S j') with (S k + j') by lia.
          destruct (is_rnone r); [apply IH|]. cbn [last_assign]. rewrite IH.
          destruct (nth_error t j'), (nth_error ns' j') as [r'|]; try (destruct (is_rnone r')); try reflexivity;
            (assert (E : Nat.eqb (S k + j') k = false) by (apply Nat.eqb_neq; lia); rewrite E; reflexivity).
  Qed.

  (* what a namespace mentions: exactly its non-None slots *)
  Lemma last_assign_ns i ns :
    i < length tbl -> length ns = length tbl ->
    last_assign i (ns_assigns ns) = if is_rnone (nth i ns RNone) then None else Some (nth i ns RNone).
  Proof.
    intros Hi Hl. unfold ns_assigns. change i with (0 + i) at 1. rewrite last_assign_ns_from.
    destruct (nth_error tbl i) eqn:E1; [|apply nth_error_None in E1; lia].
    destruct (nth_error ns i) as [r|] eqn:E2; [|apply nth_error_None in E2; lia].
    rewrite (nth_error_nth _ _ RNone E2). reflexivity.
  Qed.
End Merge.

(* ------------------------------------------------------------------------------------------- *)
(* what the well-formed table gives                                                               *)
(* ------------------------------------------------------------------------------------------- *)
Lemma wf_parts extra tbl :
  wf_table extra tbl = true ->
  NoDup (names tbl)
  /\ (forall s, In s tbl -> lower (s_name s) = s_name s)
  /\ (forall s, In s tbl -> s_argdefault s = RNone)
  /\ (forall s, In s tbl -> s_action s = AStoreConst -> s_const s <> RNone)
  /\ (exists i, find_idx tbl n_wsgi_app = Some i)
  /\ (exists i, find_idx tbl n_default_proc_name = Some i).
Proof.
  unfold wf_table. intros H.
  apply andb_prop in H as [H Hpaste]. apply andb_prop in H as [H Hdpn]. apply andb_prop in H as [H Hwsgi].
  apply andb_prop in H as [H Hcfg]. apply andb_prop in H as [H Hargs]. apply andb_prop in H as [H Hshape].
  apply andb_prop in H as [H Hflags]. apply andb_prop in H as [H Hconst]. apply andb_prop in H as [H Hargd].
  apply andb_prop in H as [Hnames Hlow].
  split; [apply nodupb_NoDup; assumption|].
  split. { intros s Hs. apply str_eqb_eq. eapply forallb_forall in Hlow; eauto. }
  split. { intros s Hs. eapply forallb_forall in Hargd; eauto. cbn in Hargd. destruct (s_argdefault s); try discriminate. reflexivity. }
  split. { intros s Hs Ha. eapply forallb_forall in Hconst; eauto. cbn in Hconst. rewrite Ha in Hconst.
           destruct (s_const s); try discriminate; congruence. }
  split.
  - destruct (find_idx tbl n_wsgi_app); [eauto|discriminate].
  - destruct (find_idx tbl n_default_proc_name); [eauto|discriminate].
Qed.

(* ------------------------------------------------------------------------------------------- *)
(* Application.load_config = gather what each source mentions, then merge in order of authority  *)
(* ------------------------------------------------------------------------------------------- *)
Record sources := {
  src_fw : assigns;        (* framework: init()'s own set of default_proc_name, then the dict it returns *)
  src_file : assigns;      (* the selected configuration file *)
  src_env : assigns;       (* GUNICORN_CMD_ARGS *)
  src_cli : assigns        (* the command line *)
}.
Definition all_assigns (S : sources) : assigns := src_fw S ++ src_file S ++ src_env S ++ src_cli S.

Record gathered := { g_src : sources; g_pos : list str }.

Section LoadProofs.
  Variable value : Type.
  Variable vnone : value.
  Variable is_none : value -> bool.
  Variable validate : nat -> raw -> option value.
  Variable extra : list str.
  Variable tbl : list setting.
  Hypothesis Hwf : wf_table extra tbl = true.

  Notation config := (Config.config value).
  Notation initial_config := (initial_config value vnone validate tbl).
  Notation load := (load value vnone is_none validate extra tbl).
  Notation run_sets := (run_sets value validate).

  Definition init_assigns (pos : list str) : option assigns :=
    match pos with
    | a :: _ => match find_idx tbl n_default_proc_name with Some i => Some [(i, RStr a)] | None => None end
    | [] => Some []
    end.

  Definition file_assigns_of (fc : file_choice) : option assigns :=
    match fc with
    | FMissing => None
    | FNone => Some []
    | FItems l => Some (resolve_file tbl l)
    end.

  (* everything the front ends decide, without touching any setting: what each source mentions *)
  Definition gather (inp : input) : option gathered :=
    if negb (in_model inp) then None else
    match argparse extra tbl (i_argv inp) with
    | POk ns pos =>
        if truthy (ns_get tbl ns n_paste) then None else
        match init_assigns pos, resolve_dict tbl (i_dict inp), parse_env extra tbl (i_env inp) with
        | Some a0, Some d, Some (POk ens _) =>
            match file_assigns_of (select_file tbl inp ns ens) with
            | Some f => Some {| g_src := {| src_fw := a0 ++ d; src_file := f;
                                            src_env := ns_assigns tbl ens; src_cli := ns_assigns tbl ns |};
                                g_pos := pos |}
            | None => None
            end
        | _, _, _ => None
        end
    | _ => None
    end.

  (* WSGIApplication.load_config: an application must be named *)
  Definition final (c : config) (pos : list str) : outcome value :=
    match pos with
    | a :: _ => Loaded value c (UriArg a)
    | [] => match find_idx tbl n_wsgi_app with
            | None => OutOfModel value
            | Some i => match nth_error c i with
                        | Some v => if is_none v then ExitConfig value else Loaded value c UriCfg
                        | None => OutOfModel value
                        end
            end
    end.

  Lemma Hnd : NoDup (names tbl).
  Proof. exact (proj1 (wf_parts _ _ Hwf)). Qed.
  Lemma Hlower : forall s, In s tbl -> lower (s_name s) = s_name s.
  Proof. exact (proj1 (proj2 (wf_parts _ _ Hwf))). Qed.

  Lemma init_step_eq (c0 : config) pos a0 :
    init_assigns pos = Some a0 ->
    match pos with
    | a :: _ => set_name value validate tbl c0 n_default_proc_name (RStr a)
    | [] => Some c0
    end = run_sets c0 a0.
  Proof.
    unfold init_assigns. destruct pos as [|a t].
    - intros H. inversion H. reflexivity.
    - unfold set_name. destruct (find_idx tbl n_default_proc_name) as [i|]; [|discriminate].
      intros H. inversion H. cbn. destruct (set_idx value validate c0 i (RStr a)); reflexivity.
  Qed.

  Lemma file_step_eq (c : config) fc f :
    file_assigns_of fc = Some f ->
    match fc with
    | FMissing => None
    | FNone => Some c
    | FItems l => run_file value validate tbl c l
    end = run_sets c f.
  Proof.
    destruct fc as [| |l]; cbn; intros H; inversion H; [reflexivity|].
    apply run_file_resolved. exact Hlower.
  Qed.

  (* FACTORISATION: when the front ends succeed, loading is the merge of the four assignment lists in the
     order framework < file < GUNICORN_CMD_ARGS < command line over the built-in defaults *)
  Theorem load_eq inp G :
    gather inp = Some G ->
    load inp = match initial_config with
               | None => ExitConfig value
               | Some c0 => match run_sets c0 (all_assigns (g_src G)) with
                            | None => ExitConfig value
                            | Some c => final c (g_pos G)
                            end
               end.
  Proof.
    unfold gather. destruct (negb (in_model inp)) eqn:Em; [discriminate|].
    destruct (argparse extra tbl (i_argv inp)) as [ns pos| | |] eqn:Ea; try discriminate.
    destruct (truthy (ns_get tbl ns n_paste)) eqn:Ep; [discriminate|].
    destruct (init_assigns pos) as [a0|] eqn:Ei; [|discriminate].
    destruct (resolve_dict tbl (i_dict inp)) as [d|] eqn:Ed; [|discriminate].
    destruct (parse_env extra tbl (i_env inp)) as [[ens epos| | |]|] eqn:Ee; try discriminate.
    destruct (file_assigns_of (select_file tbl inp ns ens)) as [f|] eqn:Ef; [|discriminate].
    intros H. inversion H; subst G; clear H. cbn [g_src g_pos all_assigns src_fw src_file src_env src_cli].
    unfold Config.load. rewrite Em. cbv beta iota.
    destruct initial_config as [c0|]; [|reflexivity].
    rewrite Ea. cbv beta iota. rewrite Ep. cbv beta iota. rewrite Ee.
    unfold all_assigns. cbn [src_fw src_file src_env src_cli].
    rewrite (init_step_eq c0 pos a0 Ei).
    rewrite <- !app_assoc. rewrite run_sets_app.
    destruct (run_sets c0 a0) as [c1|]; [|reflexivity].
    rewrite (run_dict_resolved value validate tbl c1 _ _ Ed). rewrite run_sets_app.
    destruct (run_sets c1 d) as [c2|]; [|reflexivity].
    rewrite (file_step_eq c2 _ f Ef). rewrite run_sets_app.
    destruct (run_sets c2 f) as [c3|]; [|reflexivity].
    rewrite (run_ns_resolved value validate tbl Hnd Hlower c3 ens). rewrite run_sets_app.
    destruct (run_sets c3 (ns_assigns tbl ens)) as [c4|]; [|reflexivity].
    rewrite (run_ns_resolved value validate tbl Hnd Hlower c4 ns).
    destruct (run_sets c4 (ns_assigns tbl ns)) as [c5|]; [|reflexivity].
    unfold final. reflexivity.
  Qed.

  (* a configuration is only ever loaded when every front end succeeded *)
  Lemma loaded_gather inp c u : load inp = Loaded value c u -> exists G, gather inp = Some G.
  Proof.
    unfold Config.load, gather. destruct (negb (in_model inp)); [discriminate|].
    destruct initial_config as [c0|]; [|discriminate].
    destruct (argparse extra tbl (i_argv inp)) as [ns pos| | |]; try discriminate.
    destruct (truthy (ns_get tbl ns n_paste)); [discriminate|].
    destruct (wf_parts _ _ Hwf) as (_ & _ & _ & _ & _ & (idp & Hdp)).
    assert (Hi : exists a0, init_assigns pos = Some a0).
    { unfold init_assigns. destruct pos; [eauto|]. rewrite Hdp. eauto. }
    destruct Hi as (a0 & Hi). rewrite Hi.
    destruct (match pos with a :: _ => set_name value validate tbl c0 n_default_proc_name (RStr a) | [] => Some c0 end) as [c1|];
      [|discriminate].
    destruct (run_dict value validate tbl c1 (i_dict inp)) as [c2|] eqn:Ed; [|discriminate].
    destruct (run_dict_resolve value validate tbl _ _ _ Ed) as (d & Hd & _). rewrite Hd.
    destruct (parse_env extra tbl (i_env inp)) as [[ens epos| | |]|]; try discriminate.
    destruct (select_file tbl inp ns ens); cbn [file_assigns_of]; [eauto|discriminate|eauto].
  Qed.

  Definition default_value (i : nat) : option value :=
    match initial_config with Some c0 => nth_error c0 i | None => None end.

  (* what the most authoritative source that mentions setting i says *)
  Definition winner (S : sources) (i : nat) : option raw :=
    match last_assign i (src_cli S) with
    | Some r => Some r
    | None => match last_assign i (src_env S) with
              | Some r => Some r
              | None => match last_assign i (src_file S) with
                        | Some r => Some r
                        | None => last_assign i (src_fw S)
                        end
              end
    end.

  Lemma winner_last S i : last_assign i (all_assigns S) = winner S i.
  Proof.
    unfold all_assigns, winner. rewrite !last_assign_app.
    destruct (last_assign i (src_cli S)), (last_assign i (src_env S)), (last_assign i (src_file S)); reflexivity.
  Qed.

  Lemma loaded_inv inp c u :
    load inp = Loaded value c u ->
    exists G c0, gather inp = Some G /\ initial_config = Some c0 /\ run_sets c0 (all_assigns (g_src G)) = Some c.
  Proof.
    intros H. destruct (loaded_gather _ _ _ H) as (G & HG). exists G.
    rewrite (load_eq _ _ HG) in H. destruct initial_config as [c0|]; [|discriminate].
    exists c0. destruct (run_sets c0 (all_assigns (g_src G))) as [c'|] eqn:E; [|discriminate].
    split; [exact HG|]. split; [reflexivity|].
    unfold final in H. destruct (g_pos G).
    - destruct (find_idx tbl n_wsgi_app); [|discriminate]. destruct (nth_error c' n); [|discriminate].
      destruct (is_none v); [discriminate|]. inversion H. reflexivity.
    - inversion H. reflexivity.
  Qed.

  (* C16, first clause: the effective value of every setting is the validated value given by the most
     authoritative source that mentions it (command line > GUNICORN_CMD_ARGS > configuration file >
     framework > built-in default) *)
  Theorem most_authoritative_source_wins inp c u :
    load inp = Loaded value c u ->
    exists G, gather inp = Some G /\
      forall i, nth_error c i = match winner (g_src G) i with
                                | Some r => validate i r
                                | None => default_value i
                                end.
  Proof.
    intros H. destruct (loaded_inv _ _ _ H) as (G & c0 & HG & Hc0 & Hr). exists G. split; [exact HG|].
    intros i. rewrite (run_sets_value value validate _ _ _ i Hr), winner_last.
    unfold default_value. rewrite Hc0. reflexivity.
  Qed.

  (* C16, second clause: a source never changes a setting it does not mention *)
  Theorem unmentioned_untouched (c c' : config) (src : assigns) i :
    run_sets c src = Some c' -> ~ In i (map fst src) -> nth_error c' i = nth_error c i.
  Proof.
    intros H Hn. rewrite (run_sets_value value validate _ _ _ i H).
    apply last_assign_none_iff in Hn. rewrite Hn. reflexivity.
  Qed.

  Corollary unmentioned_keeps_default inp c u i :
    load inp = Loaded value c u ->
    (forall G, gather inp = Some G -> ~ In i (map fst (all_assigns (g_src G)))) ->
    nth_error c i = default_value i.
  Proof.
    intros H Hn. destruct (most_authoritative_source_wins _ _ _ H) as (G & HG & Hv).
    rewrite Hv, <- winner_last. specialize (Hn G HG). apply last_assign_none_iff in Hn. rewrite Hn. reflexivity.
  Qed.

  (* C16, third clause: a value some validator rejects stops startup with an error - also when a more
     authoritative source gives the same setting a valid value (nothing is silently replaced) *)
  Theorem invalid_value_stops inp G i r :
    gather inp = Some G -> In (i, r) (all_assigns (g_src G)) -> validate i r = None ->
    load inp = ExitConfig value.
  Proof.
    intros HG Hin Hv. rewrite (load_eq _ _ HG). destruct initial_config as [c0|]; [|reflexivity].
    rewrite (run_sets_invalid value validate c0 _ _ _ Hin Hv). reflexivity.
  Qed.

  (* the built-in defaults go through the validators too *)
  Lemma initial_from_spec k l c0 :
    initial_from value vnone validate k l = Some c0 ->
    length c0 = length l /\
    forall j s, nth_error l j = Some s ->
      nth_error c0 j = if is_rnone (s_default s) then Some vnone else validate (k + j) (s_default s).
  Proof.
    revert k c0; induction l as [|s t IH]; intros k c0 H; cbn in H.
    - inversion H. split; [reflexivity|]. intros j s Hj. destruct j; discriminate.
    - destruct (if is_rnone (s_default s) then Some vnone else validate k (s_default s)) as [v|] eqn:Ev; [|discriminate].
      destruct (initial_from value vnone validate (S k) t) as [c1|] eqn:Ec; [|discriminate].
      inversion H; subst. destruct (IH _ _ Ec) as [Hl Hn]. split; [cbn; congruence|].
      intros [|j] s' Hj; cbn in Hj.
      + inversion Hj; subst. cbn. rewrite Nat.add_0_r.
        destruct (is_rnone (s_default s')); [congruence|]. rewrite Ev. reflexivity.
      + cbn. rewrite (Hn _ _ Hj). replace (S k + j) with (k + S j) by lia. reflexivity.
  Qed.

  Theorem default_value_spec c0 i s :
    initial_config = Some c0 -> nth_error tbl i = Some s ->
    default_value i = if is_rnone (s_default s) then Some vnone else validate i (s_default s).
  Proof.
    intros Hc Hn. unfold default_value. rewrite Hc. unfold Config.initial_config in Hc.
    destruct (initial_from_spec _ _ _ Hc) as [_ H]. exact (H _ _ Hn).
  Qed.

  Theorem invalid_default_stops inp i s :
    in_model inp = true -> nth_error tbl i = Some s -> s_default s <> RNone -> validate i (s_default s) = None ->
    load inp = ExitConfig value.
  Proof.
    intros Hm Hn Hd Hv. unfold Config.load. rewrite Hm. cbn [negb].
    destruct initial_config as [c0|] eqn:Ec; [|reflexivity]. exfalso.
    pose proof (default_value_spec _ _ _ Ec Hn) as Hs. unfold default_value in Hs. rewrite Ec in Hs.
    destruct (s_default s); try congruence; cbn in Hs; rewrite Hv in Hs;
      unfold Config.initial_config in Ec; destruct (initial_from_spec _ _ _ Ec) as [Hl _];
      assert (i < length c0) by (rewrite Hl; apply nth_error_Some; congruence);
      apply nth_error_None in Hs; lia.
  Qed.

  (* completeness: nothing else stops a start - if the front ends succeed, every mentioned value is
     accepted and an application is named, the configuration is loaded *)
  Theorem valid_configuration_loads inp G c0 :
    gather inp = Some G -> initial_config = Some c0 ->
    (forall i r, In (i, r) (all_assigns (g_src G)) -> i < length tbl /\ validate i r <> None) ->
    g_pos G <> [] ->
    exists c u, load inp = Loaded value c u.
  Proof.
    intros HG Hc Hall Hpos. rewrite (load_eq _ _ HG), Hc.
    assert (Hl : length c0 = length tbl).
    { unfold Config.initial_config in Hc. destruct (initial_from_spec _ _ _ Hc) as [Hl _]. exact Hl. }
    destruct (run_sets_total value validate c0 (all_assigns (g_src G))) as (c & Hr).
    { intros i r Hin. rewrite Hl. apply Hall. exact Hin. }
    rewrite Hr. unfold final. destruct (g_pos G) as [|a t]; [congruence|]. eauto.
  Qed.
End LoadProofs.

(* ------------------------------------------------------------------------------------------- *)
(* the command line / GUNICORN_CMD_ARGS: what "mentions" means                                   *)
(* ------------------------------------------------------------------------------------------- *)
Definition occurrences (extra : list str) (tbl : list setting) (argv : list str) : list occ :=
  match classify (optmap extra tbl) argv with
  | Some cl => k_occs (collect tbl (optmap extra tbl) cl PNone)
  | None => []
  end.

Lemma apply_occ_length tbl ns o ns' : apply_occ tbl ns o = OOk ns' -> length ns' = length ns.
Proof.
  destruct o as [[|i] arg]; cbn; [discriminate|].
  destruct (nth_error tbl i) as [s|]; [|discriminate].
  destruct (s_action s), arg as [a|]; try discriminate.
  - destruct (convert (s_type s) a); [|discriminate]. intros H; inversion H. apply upd_length.
  - intros H; inversion H. apply upd_length.
  - destruct (nth i ns RNone); try discriminate; intros H; inversion H; apply upd_length.
Qed.

Lemma apply_occ_other tbl ns o ns' i :
  apply_occ tbl ns o = OOk ns' -> fst o <> TgSet i -> nth i ns' RNone = nth i ns RNone.
Proof.
  destruct o as [[|j] arg]; cbn; [discriminate|]. intros H Hne.
  assert (Hji : j <> i) by congruence.
  destruct (nth_error tbl j) as [s|]; [|discriminate].
  destruct (s_action s), arg as [a|]; try discriminate.
  - destruct (convert (s_type s) a); [|discriminate]. inversion H. apply nth_upd_other. exact Hji.
  - inversion H. apply nth_upd_other. exact Hji.
  - destruct (nth j ns RNone); try discriminate; inversion H; apply nth_upd_other; exact Hji.
Qed.

Lemma convert_not_none t a r : convert t a = Some r -> r <> RNone.
Proof.
  destruct t; cbn.
  - intros H; inversion H. discriminate.
  - destruct (py_int a); cbn; [|discriminate]. intros H; inversion H. discriminate.
  - destruct (auto_int a); cbn; [|discriminate]. intros H; inversion H. discriminate.
Qed.

(* a given option never leaves None behind *)
Lemma apply_occ_same tbl ns arg ns' i :
  (forall s, In s tbl -> s_action s = AStoreConst -> s_const s <> RNone) ->
  i < length ns ->
  apply_occ tbl ns (TgSet i, arg) = OOk ns' -> nth i ns' RNone <> RNone.
Proof.
  intros Hc Hi. cbn. destruct (nth_error tbl i) as [s|] eqn:En; [|discriminate].
  assert (Hin : In s tbl) by (eapply nth_error_In; eauto).
  destruct (s_action s) eqn:Ea, arg as [a|]; try discriminate.
  - destruct (convert (s_type s) a) as [r|] eqn:Ecv; [|discriminate]. intros H; inversion H.
    rewrite nth_upd_same by exact Hi. eapply convert_not_none; eauto.
  - intros H; inversion H. rewrite nth_upd_same by exact Hi. apply Hc; assumption.
  - destruct (nth i ns RNone); try discriminate; intros H; inversion H; rewrite nth_upd_same by exact Hi; discriminate.
Qed.

Lemma run_occs_length tbl ns l ns' : run_occs tbl ns l = OOk ns' -> length ns' = length ns.
Proof.
  revert ns; induction l as [|o t IH]; intros ns H; cbn in H.
  - inversion H. reflexivity.
  - destruct (apply_occ tbl ns o) as [ns1| | |] eqn:E; try discriminate.
    rewrite (IH _ H). eapply apply_occ_length; eauto.
Qed.

Lemma run_occs_untouched tbl ns l ns' i :
  run_occs tbl ns l = OOk ns' -> (forall o, In o l -> fst o <> TgSet i) -> nth i ns' RNone = nth i ns RNone.
Proof.
  revert ns; induction l as [|o t IH]; intros ns H Hn; cbn in H.
  - inversion H. reflexivity.
  - destruct (apply_occ tbl ns o) as [ns1| | |] eqn:E; try discriminate.
    rewrite (IH _ H) by (intros o' Ho'; apply Hn; right; exact Ho').
    eapply apply_occ_other; eauto. apply Hn. left. reflexivity.
Qed.

Definition target_eq_dec (a b : target) : {a = b} + {a <> b}.
Proof. decide equality. apply Nat.eq_dec. Defined.

Lemma classic_occ_in (l : list occ) i :
  (exists o, In o l /\ fst o = TgSet i) \/ (forall o, In o l -> fst o <> TgSet i).
Proof.
  induction l as [|o t IH]; [right; intros o []|].
  destruct (target_eq_dec (fst o) (TgSet i)) as [E|E].
  - left. exists o. split; [left; reflexivity|exact E].
  - destruct IH as [(o' & Hin & Ho')|Hno].
    + left. exists o'. split; [right; exact Hin|exact Ho'].
    + right. intros o' [<-|Hin]; [exact E|apply Hno; exact Hin].
Qed.

Lemma run_occs_mentioned tbl ns l ns' i :
  (forall s, In s tbl -> s_action s = AStoreConst -> s_const s <> RNone) ->
  i < length ns ->
  run_occs tbl ns l = OOk ns' -> (exists o, In o l /\ fst o = TgSet i) -> nth i ns' RNone <> RNone.
Proof.
  intros Hc. revert ns; induction l as [|o t IH]; intros ns Hi H (o' & Hin & Ho'); [destruct Hin|].
  cbn in H. destruct (apply_occ tbl ns o) as [ns1| | |] eqn:E; try discriminate.
  assert (Hl1 : i < length ns1) by (erewrite apply_occ_length; eauto).
  destruct (classic_occ_in t i) as [Hex|Hno].
  - exact (IH ns1 Hl1 H Hex).
  - rewrite (run_occs_untouched _ _ _ _ i H Hno).
    destruct Hin as [<-|Hin]; [|exfalso; exact (Hno o' Hin Ho')].
    destruct o as [tg arg]. cbn in Ho'. subst tg. exact (apply_occ_same tbl ns arg ns1 i Hc Hi E).
Qed.

Lemma nth_error_map' {A B} (f : A -> B) l i : nth_error (map f l) i = option_map f (nth_error l i).
Proof. revert i; induction l as [|h t IH]; intros [|i]; cbn; auto. Qed.

Lemma init_ns_length tbl : length (init_ns tbl) = length tbl.
Proof. apply map_length. Qed.

Lemma init_ns_none tbl i : (forall s, In s tbl -> s_argdefault s = RNone) -> nth i (init_ns tbl) RNone = RNone.
Proof.
  intros H. unfold init_ns.
  destruct (nth_error (map (fun s => if is_nil (s_flags s) then RNone else s_argdefault s) tbl) i) as [r|] eqn:E.
  - rewrite (nth_error_nth _ _ RNone E). rewrite nth_error_map' in E.
    destruct (nth_error tbl i) as [s|] eqn:Es; [|discriminate]. cbn in E. inversion E.
    destruct (is_nil (s_flags s)); [reflexivity|]. apply H. eapply nth_error_In; eauto.
  - apply nth_overflow. apply nth_error_None. exact E.
Qed.

Lemma argparse_inv extra tbl argv ns pos :
  argparse extra tbl argv = POk ns pos ->
  run_occs tbl (init_ns tbl) (occurrences extra tbl argv) = OOk ns.
Proof.
  unfold argparse, occurrences.
  destruct (negb (forallb (forallb printable) argv)); [discriminate|].
  destruct (existsb (str_eqb dashdash) argv); [discriminate|].
  destruct (classify (optmap extra tbl) argv) as [cl|]; [|discriminate].
  destruct (run_occs tbl (init_ns tbl) (k_occs (collect tbl (optmap extra tbl) cl PNone))) as [ns1| | |]; try discriminate.
  destruct (k_err _ || k_extras _)%bool; [discriminate|]. intros H; inversion H. reflexivity.
Qed.

Lemma argparse_length extra tbl argv ns pos : argparse extra tbl argv = POk ns pos -> length ns = length tbl.
Proof. intros H. apply argparse_inv in H. apply run_occs_length in H. rewrite H. apply init_ns_length. Qed.

(* the command line mentions a setting exactly when one of the recognised option occurrences targets it *)
Theorem cli_mentions_iff extra tbl argv ns pos i :
  wf_table extra tbl = true -> argparse extra tbl argv = POk ns pos -> i < length tbl ->
  (nth i ns RNone <> RNone <-> exists o, In o (occurrences extra tbl argv) /\ fst o = TgSet i).
Proof.
  intros Hwf H Hi. destruct (wf_parts _ _ Hwf) as (_ & _ & Hargd & Hconst & _).
  pose proof (argparse_inv _ _ _ _ _ H) as Hr. split.
  - intros Hne. destruct (classic_occ_in (occurrences extra tbl argv) i) as [Hex|Hno]; [exact Hex|].
    exfalso. apply Hne. rewrite (run_occs_untouched _ _ _ _ i Hr Hno). apply init_ns_none. exact Hargd.
  - intros Hex. eapply run_occs_mentioned; eauto. rewrite init_ns_length. exact Hi.
Qed.

(* ---- occurrences only ever target declared option strings --------------------------------------- *)
Definition tgt_ok (om : list (str * target)) (t : target) : Prop := exists f, In (f, t) om.

Lemma assoc_in {B} k (l : list (str * B)) v : assoc k l = Some v -> exists k', In (k', v) l.
Proof.
  induction l as [|[k' v'] t IH]; cbn; [discriminate|].
  destruct (str_eqb k' k).
  - intros H; inversion H; subst. eauto.
  - intros H. destruct (IH H) as (k'' & Hin). eauto.
Qed.

Lemma option_tuples_ok om a f t e : In (f, t, e) (option_tuples om a) -> tgt_ok om t.
Proof.
  unfold option_tuples. destruct a as [|c0 [|c1 rest]]; try (intros []).
  destruct (N.eqb c1 45); intros H; apply in_flat_map in H as ([f' t'] & Hin & H); cbn [fst snd] in H.
  - destruct (starts_with _ f'); [|destruct H]. destruct H as [H|[]]. inversion H; subst. unfold tgt_ok; eauto.
  - destruct (str_eqb f' [c0; c1]); [destruct H as [H|[]]; inversion H; subst; unfold tgt_ok; eauto|].
    destruct (starts_with _ f'); [|destruct H]. destruct H as [H|[]]. inversion H; subst. unfold tgt_ok; eauto.
Qed.

Definition cls_ok (om : list (str * target)) (c : cls) : Prop :=
  match c with COpt (Some t) _ _ => tgt_ok om t | _ => True end.

Lemma tuples_case_ok om a :
  cls_ok om (match option_tuples om a with
             | _ :: _ :: _ => CAmbig
             | [(f, t, e)] => COpt (Some t) f e
             | [] => if is_negative_number a then CPos else if mem_char 32 a then CPos else COpt None a None
             end).
Proof.
  destruct (option_tuples om a) as [|[[f t] e] [|x y]] eqn:E.
  - destruct (is_negative_number a); [exact I|]. destruct (mem_char 32 a); exact I.
  - cbn. apply (option_tuples_ok om a f t e). rewrite E. left. reflexivity.
  - exact I.
Qed.

Lemma parse_optional_ok om a : cls_ok om (parse_optional om a).
Proof.
  unfold parse_optional. destruct a as [|c rest]; [exact I|].
  destruct (negb (N.eqb c 45)); [exact I|].
  destruct (assoc (c :: rest) om) as [t|] eqn:Ea.
  - cbn. eapply assoc_in; eauto.
  - destruct (is_nil rest); [exact I|]. cbv zeta.
    destruct (split_at 61 (c :: rest)) as [[o e]|].
    + destruct (assoc o om) as [t|] eqn:Eo.
      * cbn. eapply assoc_in; eauto.
      * apply tuples_case_ok.
    + apply tuples_case_ok.
Qed.

Lemma classify_ok om argv cl : classify om argv = Some cl -> Forall (fun ac => cls_ok om (snd ac)) cl.
Proof.
  revert cl; induction argv as [|a t IH]; intros cl H; cbn in H.
  - inversion H. constructor.
  - pose proof (parse_optional_ok om a) as Hok.
    destruct (parse_optional om a) as [|tg flag ex|] eqn:Ep; try discriminate;
      (destruct (classify om t) as [r|]; [|discriminate]; inversion H; subst; constructor; [exact Hok|apply IH; reflexivity]).
Qed.

Lemma cluster_ok tbl om e : forall t flag occs tl el,
  tgt_ok om t -> cluster tbl om e t flag = Some (occs, tl, el) ->
  tgt_ok om tl /\ forall o, In o occs -> tgt_ok om (fst o).
Proof.
  induction e as [|c e' IH]; intros t flag occs tl el Ht H.
  - cbn in H. destruct (arity tbl t).
    + destruct flag as [|? [|? ?]]; discriminate.
    + inversion H; subst. split; [exact Ht|intros o []].
  - cbn in H. destruct (arity tbl t).
    + destruct flag as [|f0 [|f1 fr]]; try discriminate.
      destruct (N.eqb f1 45); [discriminate|].
      destruct (assoc [45%N; c] om) as [t'|] eqn:Ea; [|discriminate].
      assert (Ht' : tgt_ok om t') by (eapply assoc_in; eauto).
      destruct e' as [|c2 e2].
      * inversion H; subst. split; [exact Ht'|]. intros o [<-|[]]. exact Ht.
      * destruct (cluster tbl om (c2 :: e2) t' [45%N; c]) as [[[occs' tl'] el']|] eqn:Ec; [|discriminate].
        inversion H; subst. destruct (IH _ _ _ _ _ Ht' Ec) as [H1 H2]. split; [exact H1|].
        intros o [<-|Hin]; [exact Ht|apply H2; exact Hin].
    + inversion H; subst. split; [exact Ht|intros o []].
Qed.

Definition finish_expr tbl om (rest : list (str * cls)) (p' : pos_state) (pre : list occ) (tl : target) (el : option str) : collected :=
  match arity tbl tl, el with
  | 0, None => k_cons (pre ++ [(tl, None)]) (collect tbl om rest p')
  | 0, Some _ => k_fail p'
  | _, Some e => k_cons (pre ++ [(tl, Some e)]) (collect tbl om rest p')
  | _, None =>
      match rest with
      | (b, CPos) :: rest' => k_cons (pre ++ [(tl, Some b)]) (collect tbl om rest' p')
      | _ => k_fail p'
      end
  end.

Lemma collect_opt_eq tbl om a t flag explicit rest p :
  collect tbl om ((a, COpt (Some t) flag explicit) :: rest) p =
  match explicit with
  | None => finish_expr tbl om rest (close_pos p) [] t None
  | Some e => match cluster tbl om e t flag with
              | Some (pre, tl, el) => finish_expr tbl om rest (close_pos p) pre tl el
              | None => k_fail (close_pos p)
              end
  end.
Proof. reflexivity. Qed.

Lemma collect_ok tbl om : forall n l p,
  length l <= n -> Forall (fun ac => cls_ok om (snd ac)) l ->
  forall o, In o (k_occs (collect tbl om l p)) -> tgt_ok om (fst o).
Proof.
  induction n as [|n IH]; intros l p Hlen Hall o Hin.
  - destruct l; [cbn in Hin; destruct Hin | cbn in Hlen; lia].
  - destruct l as [|[a c] rest]; [cbn in Hin; destruct Hin|].
    cbn in Hlen. inversion Hall as [|? ? Hc Hrest]; subst. cbn [snd] in Hc.
    assert (Hr : length rest <= n) by lia.
    destruct c as [|[t|] flag explicit|].
    + cbn in Hin. destruct p; cbn in Hin; exact (IH rest _ Hr Hrest o Hin).
    + rewrite collect_opt_eq in Hin.
      assert (Hfin : forall pre tl el, tgt_ok om tl -> (forall o', In o' pre -> tgt_ok om (fst o')) ->
                     In o (k_occs (finish_expr tbl om rest (close_pos p) pre tl el)) -> tgt_ok om (fst o)).
      { intros pre tl el Htl Hpre Ho. unfold finish_expr in Ho.
        destruct (arity tbl tl), el as [e|]; cbn in Ho.
        - destruct Ho.
        - apply in_app_or in Ho as [Ho|Ho]; [|exact (IH rest _ Hr Hrest o Ho)].
          apply in_app_or in Ho as [Ho|[<-|[]]]; [exact (Hpre _ Ho)|exact Htl].
        - apply in_app_or in Ho as [Ho|Ho]; [|exact (IH rest _ Hr Hrest o Ho)].
          apply in_app_or in Ho as [Ho|[<-|[]]]; [exact (Hpre _ Ho)|exact Htl].
        - destruct rest as [|[b cb] rest']; [destruct Ho|].
          destruct cb; try (destruct Ho).
          cbn in Ho. inversion Hrest as [|? ? _ Hrest']; subst.
          apply in_app_or in Ho as [Ho|Ho]; [|refine (IH rest' _ _ Hrest' o Ho); cbn in Hr; lia].
          apply in_app_or in Ho as [Ho|[<-|[]]]; [exact (Hpre _ Ho)|exact Htl]. }
      destruct explicit as [e|].
      * destruct (cluster tbl om e t flag) as [[[pre tl] el]|] eqn:Ec; [|destruct Hin].
        destruct (cluster_ok _ _ _ _ _ _ _ _ Hc Ec) as [H1 H2]. exact (Hfin pre tl el H1 H2 Hin).
      * exact (Hfin [] t None Hc (fun _ F => match F with end) Hin).
    + cbn in Hin. exact (IH rest _ Hr Hrest o Hin).
    + cbn in Hin. destruct Hin.
Qed.

Lemma optmap_from_sound k tbl f i :
  In (f, TgSet i) (optmap_from k tbl) -> exists s, k <= i /\ nth_error tbl (i - k) = Some s /\ In f (s_flags s).
Proof.
  revert k; induction tbl as [|s t IH]; intros k H; [destruct H|].
  cbn in H. apply in_app_or in H as [H|H].
  - apply in_map_iff in H as (f' & Hf & Hin). inversion Hf; subst. exists s. rewrite Nat.sub_diag. auto.
  - apply IH in H as (s' & Hle & Hn & Hf). exists s'. split; [lia|]. split; [|exact Hf].
    replace (i - k) with (S (i - S k)) by lia. exact Hn.
Qed.

Lemma optmap_sound extra tbl f i :
  In (f, TgSet i) (optmap extra tbl) -> exists s, nth_error tbl i = Some s /\ In f (s_flags s).
Proof.
  unfold optmap. intros H. apply in_app_or in H as [H|H].
  - apply in_map_iff in H as (f' & Hf & _). discriminate.
  - apply optmap_from_sound in H as (s & _ & Hn & Hf). rewrite Nat.sub_0_r in Hn. eauto.
Qed.

(* every recognised occurrence targets a setting through one of that setting's own option strings *)
Theorem occurrences_declared extra tbl argv o i :
  In o (occurrences extra tbl argv) -> fst o = TgSet i ->
  exists s f, nth_error tbl i = Some s /\ In f (s_flags s).
Proof.
  unfold occurrences. destruct (classify (optmap extra tbl) argv) as [cl|] eqn:Ec; [|intros []].
  intros Hin Ho. pose proof (collect_ok tbl (optmap extra tbl) (length cl) cl PNone (le_n _) (classify_ok _ _ _ Ec) o Hin) as (f & Hf).
  rewrite Ho in Hf. apply optmap_sound in Hf as (s & Hn & Hfl). eauto.
Qed.

Lemma raw_none_dec (r : raw) : r = RNone \/ r <> RNone.
Proof. destruct r; [left; reflexivity|right; discriminate..]. Qed.

(* a setting without option strings (wsgi_app, the server hooks, ...) is never mentioned by the command
   line or by GUNICORN_CMD_ARGS *)
Corollary flagless_never_mentioned extra tbl argv ns pos i s :
  wf_table extra tbl = true -> argparse extra tbl argv = POk ns pos ->
  nth_error tbl i = Some s -> s_flags s = [] -> nth i ns RNone = RNone.
Proof.
  intros Hwf H Hn Hf.
  assert (Hi : i < length tbl) by (apply nth_error_Some; congruence).
  destruct (raw_none_dec (nth i ns RNone)) as [E|E]; [exact E|]. exfalso.
  apply (cli_mentions_iff _ _ _ _ _ _ Hwf H Hi) in E as (o & Hin & Ho).
  destruct (occurrences_declared _ _ _ _ _ Hin Ho) as (s' & f & Hn' & Hfl).
  rewrite Hn in Hn'. inversion Hn'; subst. rewrite Hf in Hfl. destruct Hfl.
Qed.

(* ---- a command line without option-like arguments mentions nothing ---------------------------------- *)
Definition looks_like_option (a : str) : bool := match a with c :: _ => N.eqb c 45 | [] => false end.

Lemma parse_optional_pos om a : looks_like_option a = false -> parse_optional om a = CPos.
Proof. destruct a as [|c rest]; cbn; [reflexivity|]. intros ->. reflexivity. Qed.

Lemma collect_all_pos tbl om l : forall p, k_occs (collect tbl om (map (fun a => (a, CPos)) l) p) = [].
Proof. induction l as [|a t IH]; intros p; cbn; [reflexivity|]. destruct p; cbn; apply IH. Qed.

Lemma classify_all_pos om argv :
  forallb (fun a => negb (looks_like_option a)) argv = true -> classify om argv = Some (map (fun a => (a, CPos)) argv).
Proof.
  induction argv as [|a t IH]; cbn; [reflexivity|]. intros H. apply andb_prop in H as [Ha Ht].
  rewrite parse_optional_pos by (destruct (looks_like_option a); [discriminate|reflexivity]).
  rewrite (IH Ht). reflexivity.
Qed.

Theorem plain_arguments_mention_nothing extra tbl argv ns pos i :
  wf_table extra tbl = true -> forallb (fun a => negb (looks_like_option a)) argv = true ->
  argparse extra tbl argv = POk ns pos -> nth i ns RNone = RNone.
Proof.
  intros Hwf Hp H. destruct (wf_parts _ _ Hwf) as (_ & _ & Hargd & _).
  pose proof (argparse_inv _ _ _ _ _ H) as Hr. unfold occurrences in Hr.
  rewrite (classify_all_pos _ _ Hp), collect_all_pos in Hr. cbn in Hr. inversion Hr.
  apply init_ns_none. exact Hargd.
Qed.

Lemma parse_env_length extra tbl e ens epos :
  parse_env extra tbl e = Some (POk ens epos) -> length ens = length tbl.
Proof.
  unfold parse_env. destruct e as [s|].
  - destruct (shlex_split s) as [toks|]; [|discriminate]. intros H.
    assert (H1 : argparse extra tbl toks = POk ens epos) by congruence. exact (argparse_length _ _ _ _ _ H1).
  - intros H. assert (H1 : argparse extra tbl [] = POk ens epos) by congruence. exact (argparse_length _ _ _ _ _ H1).
Qed.

(* ------------------------------------------------------------------------------------------- *)
(* readable instances of the precedence theorem                                                   *)
(* ------------------------------------------------------------------------------------------- *)
Section Instances.
  Variable value : Type.
  Variable vnone : value.
  Variable is_none : value -> bool.
  Variable validate : nat -> raw -> option value.
  Variable extra : list str.
  Variable tbl : list setting.
  Hypothesis Hwf : wf_table extra tbl = true.
  Notation load := (load value vnone is_none validate extra tbl).

  (* what gather returns, spelled out *)
  Lemma gather_spec inp G :
    gather extra tbl inp = Some G ->
    exists ns ens epos a0 d f,
      argparse extra tbl (i_argv inp) = POk ns (g_pos G)
      /\ parse_env extra tbl (i_env inp) = Some (POk ens epos)
      /\ init_assigns tbl (g_pos G) = Some a0 /\ resolve_dict tbl (i_dict inp) = Some d
      /\ file_assigns_of tbl (select_file tbl inp ns ens) = Some f
      /\ g_src G = {| src_fw := a0 ++ d; src_file := f; src_env := ns_assigns tbl ens; src_cli := ns_assigns tbl ns |}.
  Proof.
    unfold gather. destruct (negb (in_model inp)); [discriminate|].
    destruct (argparse extra tbl (i_argv inp)) as [ns pos| | |] eqn:Ea; try discriminate.
    destruct (truthy (ns_get tbl ns n_paste)); [discriminate|].
    destruct (init_assigns tbl pos) as [a0|] eqn:Ei; [|discriminate].
    destruct (resolve_dict tbl (i_dict inp)) as [d|] eqn:Ed; [|discriminate].
    destruct (parse_env extra tbl (i_env inp)) as [[ens epos| | |]|] eqn:Ee; try discriminate.
    destruct (file_assigns_of tbl (select_file tbl inp ns ens)) as [f|] eqn:Ef; [|discriminate].
    intros H; inversion H; subst; cbn. exists ns, ens, epos, a0, d, f. repeat split; assumption.
  Qed.

  (* the command line wins *)
  Theorem command_line_wins inp c u ns pos i :
    load inp = Loaded value c u -> argparse extra tbl (i_argv inp) = POk ns pos -> i < length tbl ->
    nth i ns RNone <> RNone -> nth_error c i = validate i (nth i ns RNone).
  Proof.
    intros H Ha Hi Hne.
    destruct (most_authoritative_source_wins value vnone is_none validate extra tbl Hwf _ _ _ H) as (G & HG & Hv).
    destruct (gather_spec _ _ HG) as (ns' & ens & epos & a0 & d & f & Ha' & _ & _ & _ & _ & Hs).
    rewrite Ha in Ha'. inversion Ha'; subst ns'. rewrite Hv. unfold winner. rewrite Hs. cbn [src_cli].
    rewrite (last_assign_ns tbl i ns Hi (argparse_length _ _ _ _ _ Ha)).
    destruct (is_rnone (nth i ns RNone)) eqn:E; [|reflexivity].
    destruct (nth i ns RNone); try discriminate. congruence.
  Qed.

  (* GUNICORN_CMD_ARGS wins over file, framework and default when the command line is silent *)
  Theorem environment_wins_unless_command_line inp c u ns pos ens epos i :
    load inp = Loaded value c u -> argparse extra tbl (i_argv inp) = POk ns pos ->
    parse_env extra tbl (i_env inp) = Some (POk ens epos) -> i < length tbl ->
    nth i ns RNone = RNone -> nth i ens RNone <> RNone -> nth_error c i = validate i (nth i ens RNone).
  Proof.
    intros H Ha He Hi Hcli Hne.
    destruct (most_authoritative_source_wins value vnone is_none validate extra tbl Hwf _ _ _ H) as (G & HG & Hv).
    destruct (gather_spec _ _ HG) as (ns' & ens' & epos' & a0 & d & f & Ha' & He' & _ & _ & _ & Hs).
    rewrite Ha in Ha'. inversion Ha'; subst ns'. rewrite He in He'. inversion He'; subst ens'.
    rewrite Hv. unfold winner. rewrite Hs. cbn [src_cli src_env].
    rewrite (last_assign_ns tbl i ns Hi (argparse_length _ _ _ _ _ Ha)), Hcli. cbn [is_rnone].
    pose proof (parse_env_length _ _ _ _ _ He) as Hel.
    rewrite (last_assign_ns tbl i ens Hi Hel).
    destruct (is_rnone (nth i ens RNone)) eqn:E; [|reflexivity].
    destruct (nth i ens RNone); try discriminate. congruence.
  Qed.

  (* the configuration file wins over framework and default when command line and environment are silent *)
  Theorem file_wins_unless_env_or_command_line inp c u ns pos ens epos items i r :
    load inp = Loaded value c u -> argparse extra tbl (i_argv inp) = POk ns pos ->
    parse_env extra tbl (i_env inp) = Some (POk ens epos) -> i < length tbl ->
    nth i ns RNone = RNone -> nth i ens RNone = RNone ->
    select_file tbl inp ns ens = FItems items -> last_assign i (resolve_file tbl items) = Some r ->
    nth_error c i = validate i r.
  Proof.
    intros H Ha He Hi Hcli Henv Hsel Hr.
    destruct (most_authoritative_source_wins value vnone is_none validate extra tbl Hwf _ _ _ H) as (G & HG & Hv).
    destruct (gather_spec _ _ HG) as (ns' & ens' & epos' & a0 & d & f & Ha' & He' & _ & _ & Hf & Hs).
    rewrite Ha in Ha'. inversion Ha'; subst ns'. rewrite He in He'. inversion He'; subst ens'.
    rewrite Hsel in Hf. cbn in Hf. inversion Hf; subst f.
    rewrite Hv. unfold winner. rewrite Hs. cbn [src_cli src_env src_file].
    rewrite (last_assign_ns tbl i ns Hi (argparse_length _ _ _ _ _ Ha)), Hcli. cbn [is_rnone].
    pose proof (parse_env_length _ _ _ _ _ He) as Hel.
    rewrite (last_assign_ns tbl i ens Hi Hel), Henv. cbn [is_rnone]. rewrite Hr. reflexivity.
  Qed.
End Instances.
