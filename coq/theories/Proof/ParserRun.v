(* Segmentation independence of a whole connection: request heads (ParserHead), bodies under any read
   program (BodySim over the ideal reader), the drain, and the next request - by induction over the
   requests of the connection.  The chunked reader enters through the hypotheses of the section
   (discharged in Proof/ChunkedReader.v). *)
From Coq Require Import List NArith ZArith Bool Lia Arith.
From GV Require Import Base.Bytes Base.Scan Base.PyStr Model.Parser Spec.IdealBody
     Proof.TakeDrop Proof.BodyIdeal Proof.BodySim Proof.LengthReader Proof.ParserHead.
Import ListNotations.
Local Open Scope N_scope.

Definition chunked_init (p : unreader) : conn :=
  {| c_reader := RChunked {| cg := GStart; cactive := true; cbuf := [] |}; c_unreader := p; c_trailers := [] |}.

Definition final_of (alpha : conn -> bytes * term) (k : conn) : Prop :=
  NE (c_unreader k) /\ exists a tr, alpha k = ([], TEof a tr) /\ u_abs (c_unreader k) = a /\ c_trailers k = tr.

Section Run.
  Variable c : cfg.
  Variable cr_inv : conn -> Prop.
  Variable cr_alpha : conn -> bytes * term.
  Hypothesis cr_inv_chunked : forall k, cr_inv k -> exists r, c_reader k = RChunked r.
  Hypothesis cr_sim : forall n k, cr_inv k -> 0 < n ->
      match reader_read c n k with
      | (inl d, k') => cr_inv k' /\ i_rd n (cr_alpha k) = (inl d, cr_alpha k')
      | (inr e, k') => fst (i_rd n (cr_alpha k)) = inr e
      end.
  Hypothesis cr_fuel_ok : forall k, cr_inv k -> (length (fst (cr_alpha k)) < remaining_upper k)%nat.
  Hypothesis cr_init : forall p, NE p ->
      cr_inv (chunked_init p) /\ cr_alpha (chunked_init p) = cr_alpha (chunked_init (whole (u_abs p))).
  Hypothesis cr_final : forall n k k', cr_inv k -> 0 < n -> reader_read c n k = (inl [], k') -> final_of cr_alpha k'.

  Definition inv (k : conn) : Prop := match c_reader k with RLength _ => lr_inv k | RChunked _ => cr_inv k end.
  Definition alpha (k : conn) : bytes * term := match c_reader k with RLength _ => lr_alpha k | RChunked _ => cr_alpha k end.

  Lemma reader_kind_L n k len : c_reader k = RLength len -> exists len', c_reader (snd (reader_read c n k)) = RLength len'.
  Proof. intros H. unfold reader_read. rewrite H. destruct (lr_read n len (c_unreader k)) as [[d l] p]. cbn. eauto. Qed.
  Lemma reader_kind_C n k r : c_reader k = RChunked r -> exists r', c_reader (snd (reader_read c n k)) = RChunked r'.
  Proof. intros H. unfold reader_read. rewrite H. destruct (cr_read c n r (c_unreader k)) as [[[res r'] p] tr]. cbn. eauto. Qed.

  Lemma sim : forall n k, inv k -> 0 < n ->
      match reader_read c n k with
      | (inl d, k') => inv k' /\ i_rd n (alpha k) = (inl d, alpha k')
      | (inr e, k') => fst (i_rd n (alpha k)) = inr e
      end.
  Proof.
    intros n k Hinv Hn. unfold inv, alpha in *. destruct (c_reader k) as [len|r] eqn:Er.
    - pose proof (lr_sim c n k Hinv Hn) as H. destruct (reader_kind_L n k len Er) as [len' Hk].
      destruct (reader_read c n k) as [[d|e] k']; cbn [snd] in Hk; [rewrite Hk|]; exact H.
    - pose proof (cr_sim n k Hinv Hn) as H. destruct (reader_kind_C n k r Er) as [r' Hk].
      destruct (reader_read c n k) as [[d|e] k']; cbn [snd] in Hk; [rewrite Hk|]; exact H.
  Qed.
  Lemma fuel_ok : forall k, inv k -> (length (fst (alpha k)) < remaining_upper k)%nat.
  Proof. intros k H. unfold inv, alpha in *. destruct (c_reader k); [apply lr_fuel_ok|apply cr_fuel_ok]; exact H. Qed.

  Lemma lr_final : forall n k k', lr_inv k -> 0 < n -> reader_read c n k = (inl [], k') -> final_of lr_alpha k'.
  Proof.
    intros n k k' [[len Hr] Hne] Hn H. unfold reader_read in H. rewrite Hr in H.
    destruct (lr_read n len (c_unreader k)) as [[d len'] p'] eqn:E. injection H as -> <-.
    destruct (lr_read_spec _ _ _ _ _ _ Hne Hn E) as (Hd & Hp & Hl & Hne').
    unfold final_of, lr_alpha. cbn [c_reader c_unreader c_trailers]. split; [exact Hne'|].
    eexists _, _. split; [|split; reflexivity]. unfold u_abs.
    assert (Hz : N.min len n = 0 \/ concat (c_unreader k) = []).
    { symmetry in Hd. apply (f_equal blen) in Hd. rewrite blen_takeN in Hd. change (blen []) with 0 in Hd.
      destruct (N.eq_dec (N.min len n) 0); [auto|right; apply blen_zero; lia]. }
    destruct Hz as [Hz|Hz].
    - assert (len = 0) by lia. subst len. cbn in Hl. subst len'. rewrite takeN_0, dropN_0. reflexivity.
    - rewrite Hp, Hz, dropN_nil, takeN_nil, dropN_nil. reflexivity.
  Qed.
  Lemma final : forall n k k', inv k -> 0 < n -> reader_read c n k = (inl [], k') -> final_of alpha k'.
  Proof.
    intros n k k' Hinv Hn H. unfold inv in Hinv. destruct (c_reader k) as [len|r] eqn:Er.
    - destruct (reader_kind_L n k len Er) as [len' Hk]. rewrite H in Hk. cbn [snd] in Hk.
      pose proof (lr_final n k k' Hinv Hn H) as (H1 & a & tr & H2 & H3 & H4).
      split; [exact H1|]. exists a, tr. unfold alpha. rewrite Hk. auto.
    - destruct (reader_kind_C n k r Er) as [r' Hk]. rewrite H in Hk. cbn [snd] in Hk.
      pose proof (cr_final n k k' Hinv Hn H) as (H1 & a & tr & H2 & H3 & H4).
      split; [exact H1|]. exists a, tr. unfold alpha. rewrite Hk. auto.
  Qed.

  Lemma init_ok : forall r p, NE p ->
      inv (snd (init_conn r p)) /\ alpha (snd (init_conn r p)) = alpha (snd (init_conn r (whole (u_abs p)))).
  Proof.
    intros r p Hne. unfold init_conn, inv, alpha. cbn [snd c_reader]. destruct (r_framing r) as [|n].
    - exact (cr_init p Hne).
    - split; [split; [eexists; reflexivity|exact Hne]|]. unfold lr_alpha. cbn [c_reader c_unreader c_trailers].
      rewrite whole_abs. reflexivity.
  Qed.

  (* the part of run_conn after the head has been parsed, as a function of (r, p1) *)
  Theorem run_conn_indep : forall x fuel n progs p p',
      NE p -> NE p' -> u_abs p = u_abs p' ->
      run_conn c x fuel n progs p = run_conn c x fuel n progs p'.
  Proof.
    intros x. induction fuel as [|fuel IH]; intros n progs p p' Hne Hne' Habs; [reflexivity|]. cbn [run_conn].
    pose proof (parse_request_indep c x n p Hne) as H1. pose proof (parse_request_indep c x n p' Hne') as H2.
    rewrite Habs in H1. rewrite <- H2 in H1. clear H2.
    destruct (parse_request c x n p) as [[r p1]|e] eqn:E1; destruct (parse_request c x n p') as [[r' p1']|e'] eqn:E2;
      cbn [canon_req] in H1; try discriminate; [|congruence].
    injection H1 as <- Hab1.
    pose proof (parse_request_NE _ _ _ _ _ _ Hne E1) as N1. pose proof (parse_request_NE _ _ _ _ _ _ Hne' E2) as N2.
    destruct (init_ok r p1 N1) as [I1 A1]. destruct (init_ok r p1' N2) as [I2 A2].
    rewrite Hab1 in A1. rewrite <- A2 in A1. clear A2.
    set (k1 := snd (init_conn r p1)) in *. set (k2 := snd (init_conn r p1')) in *.
    assert (Hb1 : init_conn r p1 = ([], k1)) by reflexivity. assert (Hb2 : init_conn r p1' = ([], k2)) by reflexivity.
    rewrite Hb1, Hb2.
    pose proof (run_calls_sim conn (reader_read c) remaining_upper alpha inv sim fuel_ok (hd [] progs) [] k1 I1) as R1.
    pose proof (run_calls_sim conn (reader_read c) remaining_upper alpha inv sim fuel_ok (hd [] progs) [] k2 I2) as R2.
    rewrite A1 in R1.
    destruct (run_calls (reader_read c) remaining_upper (hd [] progs) ([], k1)) as [[o1 [b1 s1]] [e1|]];
      destruct (run_calls (reader_read c) remaining_upper (hd [] progs) ([], k2)) as [[o2 [b2 s2]] [e2|]];
      cbn [run_rel] in R1, R2.
    - destruct R1 as [x1 R1]. destruct R2 as [x2 R2]. rewrite R1 in R2. injection R2 as <- _ <-. reflexivity.
    - destruct R1 as [x1 R1]. destruct R2 as [_ R2]. rewrite R1 in R2. discriminate.
    - destruct R1 as [_ R1]. destruct R2 as [x2 R2]. rewrite R1 in R2. discriminate.
    - destruct R1 as [J1 R1]. destruct R2 as [J2 R2]. rewrite R1 in R2. injection R2 as <- <- A12.
      f_equal. f_equal. cbn [fst snd].
      (* the drain *)
      pose proof (drain_sim conn (reader_read c) remaining_upper alpha inv sim fuel_ok (S (length b1 + remaining_upper s1)) b1 s1 J1) as D1.
      pose proof (drain_sim conn (reader_read c) remaining_upper alpha inv sim fuel_ok (S (length b1 + remaining_upper s2)) b1 s2 J2) as D2.
      rewrite <- A12 in D2.
      destruct (alpha s1) as [rem t] eqn:Ea.
      assert (F1 : (length (b1 ++ rem) < S (length b1 + remaining_upper s1))%nat).
      { pose proof (fuel_ok s1 J1) as Hk. rewrite Ea in Hk. cbn [fst] in Hk. rewrite app_length. lia. }
      assert (F2 : (length (b1 ++ rem) < S (length b1 + remaining_upper s2))%nat).
      { pose proof (fuel_ok s2 J2) as Hk. rewrite <- A12 in Hk. cbn [fst] in Hk. rewrite app_length. lia. }
      rewrite (i_drain_fuel _ _ b1 rem t F2 F1) in D2.
      pose proof (drain_final conn (reader_read c) remaining_upper alpha inv sim fuel_ok (final_of alpha) final
                              (S (length b1 + remaining_upper s1)) b1 s1) as Fin1.
      pose proof (drain_final conn (reader_read c) remaining_upper alpha inv sim fuel_ok (final_of alpha) final
                              (S (length b1 + remaining_upper s2)) b1 s2) as Fin2.
      destruct (drain (reader_read c) remaining_upper (S (length b1 + remaining_upper s1)) (b1, s1)) as [[d1 t1] [e1|]];
        destruct (drain (reader_read c) remaining_upper (S (length b1 + remaining_upper s2)) (b1, s2)) as [[d2 t2] [e2|]];
        cbn [drain_rel] in D1, D2.
      + rewrite D1 in D2. injection D2 as <-. reflexivity.
      + destruct D2 as [_ D2]. rewrite D2 in D1. discriminate.
      + destruct D1 as [_ D1]. rewrite D1 in D2. discriminate.
      + destruct D1 as [K1 D1]. destruct D2 as [K2 D2]. rewrite D1 in D2. injection D2 as <- A34.
        destruct (Fin1 d1 t1 J1 eq_refl) as (M1 & a1 & tr1 & Q1 & U1 & T1).
        destruct (Fin2 d1 t2 J2 eq_refl) as (M2 & a2 & tr2 & Q2 & U2 & T2).
        rewrite A34 in Q1. rewrite Q1 in Q2. injection Q2 as <- <-.
        cbn [snd]. rewrite T1, T2, U1, U2. f_equal.
        destruct (should_close r); [reflexivity|]. f_equal.
        apply IH; [exact M1|exact M2|congruence].
  Qed.

  Theorem run_indep : forall x progs p, NE p -> run c x progs p = run c x progs (whole (u_abs p)).
  Proof.
    intros x progs p Hne. unfold run. rewrite whole_abs.
    apply run_conn_indep; [exact Hne|apply NE_whole|rewrite whole_abs; reflexivity].
  Qed.
End Run.
