(* Segmentation independence of the request head (Request.parse + Message.__init__):
   every refill loop is an instance of Base/Scan.scan_canon. *)
From Coq Require Import List NArith ZArith Bool Lia Arith.
From GV Require Import Base.Bytes Base.Scan Base.PyStr Gen.GenParser Model.Parser.
Import ListNotations.

Ltac Zify.zify_post_hook ::= Z.to_euclidean_division_equations.

(* ---- the searches ---------------------------------------------------------------------------- *)
Lemma hdr_find_stable : forall a b i, hdr_find a = Some i -> hdr_find (a ++ b) = Some i.
Proof.
  intros a b i H. unfold hdr_find in *.
  destruct (prefixb CRLF a) eqn:E.
  - rewrite (prefixb_app_true _ _ _ E). exact H.
  - pose proof (find_pat_bound _ _ _ H) as Hb. cbn [length CRLFCRLF] in Hb.
    rewrite (prefixb_app_false _ _ _ E) by (cbn; lia). apply find_pat_stable. exact H.
Qed.
Lemma hdr_find_late : forall a b i, hdr_find a = None -> hdr_find (a ++ b) = Some i -> length a < i + 4.
Proof.
  intros a b i Hn Hs. unfold hdr_find in *.
  destruct (prefixb CRLF a) eqn:E; [discriminate Hn|].
  destruct (prefixb CRLF (a ++ b)) eqn:E2.
  - injection Hs as <-. destruct (le_lt_dec 2 (length a)) as [Hl|Hl]; [|lia].
    rewrite (prefixb_app_false _ _ _ E) in E2 by (cbn; lia). discriminate.
  - pose proof (find_pat_late _ _ _ _ Hn Hs) as H. cbn [length CRLFCRLF] in H. exact H.
Qed.
Lemma hdr_find_bound : forall a i, hdr_find a = Some i -> i + 2 <= length a.
Proof.
  intros a i H. unfold hdr_find in H. destruct (prefixb CRLF a) eqn:E.
  - injection H as <-. apply prefixb_len in E. cbn in E. lia.
  - apply find_pat_bound in H. cbn in H. lia.
Qed.
Lemma crlf_bound : forall a i, find_pat CRLF a = Some i -> i + 2 <= length a.
Proof. intros a i H. apply find_pat_bound in H. exact H. Qed.
Lemma crlf_late : forall a b i, find_pat CRLF a = None -> find_pat CRLF (a ++ b) = Some i -> length a < i + 2.
Proof. intros a b i H1 H2. exact (find_pat_late _ _ _ _ H1 H2). Qed.

(* ---- the caps -------------------------------------------------------------------------------- *)
Lemma rl_over_mono lim : forall n m, n <= m -> rl_over lim n = true -> rl_over lim m = true.
Proof. unfold rl_over. intros n m H H1. apply andb_prop in H1 as [Ha Hb]. rewrite Ha. cbn. apply N.ltb_lt in Hb. apply N.ltb_lt. lia. Qed.
Lemma rl_early lim : forall n i, n < i + 2 -> rl_over lim n = true -> rl_post lim i = true.
Proof. unfold rl_over, rl_post. intros n i H H1. apply andb_prop in H1 as [Ha Hb]. rewrite Ha. cbn. apply N.ltb_lt in Hb. apply N.ltb_lt. lia. Qed.
Lemma cap_over_mono lim : forall n m, n <= m -> cap_over lim n = true -> cap_over lim m = true.
Proof. unfold cap_over. intros n m H H1. apply N.leb_le in H1. apply N.leb_le. lia. Qed.
Lemma cap_early lim w : forall n i, n < i + w -> cap_over lim n = true -> cap_post lim w i = true.
Proof. unfold cap_over, cap_post. intros n i H H1. apply N.leb_le in H1. apply N.ltb_lt. lia. Qed.

(* header block: the cap applies to a CRLFCRLF-terminated block, not to the empty block ("done") *)
Definition hdr_post (lim : N) (i : nat) : bool := negb (Nat.eqb i 0) && cap_post lim 4 i.
Lemma hdr_early lim : (4 <= lim)%N -> forall n i, n < i + 4 -> cap_over lim n = true -> hdr_post lim i = true.
Proof.
  intros Hl n i H H1. unfold hdr_post, cap_over, cap_post in *. apply N.leb_le in H1.
  destruct (Nat.eqb_spec i 0) as [->|Hi]; [lia|]. cbn. apply N.ltb_lt. lia.
Qed.
Lemma max_buffer_headers_ge4 c : (4 <= max_buffer_headers c)%N.
Proof. unfold max_buffer_headers. lia. Qed.

(* ---- read_line --------------------------------------------------------------------------------- *)
Definition canon3 {A} (r : (A * bytes * unreader) + perr) : (A * bytes) + perr :=
  match r with inl (a, rb, p) => inl (a, rb ++ concat p) | inr e => inr e end.

Definition rl_of_cut (k : cut) : (bytes * bytes) + perr :=
  match k with
  | CFound i pre rest => inl (firstn i pre, rest)
  | COver => inr ELimitRequestLine
  | CEof => inr ENoMoreData
  end.
Lemma read_line_cut lim data p :
  canon3 (read_line lim data p) = rl_of_cut (canon 2 (rl_post lim) (scan (find_pat CRLF) (rl_over lim) data p)).
Proof.
  unfold read_line. destruct (scan _ _ data p) as [i d p'| |d]; cbn [canon rl_of_cut canon3]; try reflexivity.
  destruct (rl_post lim i); [reflexivity|]. cbn. rewrite firstn_firstn. replace (Nat.min i (i + 2)) with i by lia. reflexivity.
Qed.
Theorem read_line_indep lim data p :
  canon3 (read_line lim data p) = canon3 (read_line lim (data ++ concat p) []).
Proof.
  rewrite !read_line_cut.
  rewrite !(scan_canon (find_pat CRLF) (rl_over lim) 2 2 (rl_post lim) (find_pat_stable CRLF) crlf_late crlf_bound (rl_over_mono lim) (rl_early lim)).
  cbn [concat]. rewrite app_nil_r. reflexivity.
Qed.
Lemma read_line_NE lim data p l rb p' : NE p -> read_line lim data p = inl (l, rb, p') -> NE p'.
Proof.
  unfold read_line. intros Hne H. destruct (scan _ _ data p) as [i d q| |d] eqn:Es; try discriminate.
  destruct (rl_post lim i); [discriminate|]. injection H as <- <- <-. eapply scan_found_NE; eassumption.
Qed.

(* ---- header block --------------------------------------------------------------------------------- *)
Definition hs_of_cut (c : cfg) (k : cut) : (list header * bool * bytes) + perr :=
  match k with
  | COver => inr ELimitRequestHeaders
  | CEof => inr ENoMoreData
  | CFound i pre rest =>
      if prefixb CRLF pre then inl ([], is_ssl c, rest)
      else match parse_headers c false (is_ssl c) (firstn i pre) with
           | inr e => inr e
           | inl (hs, https) => inl (hs, https, skipn 2 rest)
           end
  end.

Lemma hdr_found_shape d i : hdr_find d = Some i ->
  (prefixb CRLF d = true /\ i = 0) \/ (prefixb CRLF d = false /\ find_pat CRLFCRLF d = Some i /\ i + 4 <= length d).
Proof.
  unfold hdr_find. destruct (prefixb CRLF d) eqn:E; intros H.
  - left. injection H as <-. auto.
  - right. split; [reflexivity|]. split; [exact H|]. apply find_pat_bound in H. exact H.
Qed.

Lemma prefixb_firstn p d n : length p <= n -> prefixb p (firstn n d) = prefixb p d.
Proof.
  revert d n; induction p as [|x p IH]; intros d n H; [reflexivity|].
  destruct n; [cbn in H; lia|]. destruct d as [|y d]; [reflexivity|]. cbn. rewrite IH by (cbn in H; lia). reflexivity.
Qed.

Lemma crlfcrlf_not_at_0 d i : prefixb CRLF d = false -> find_pat CRLFCRLF d = Some i -> i <> 0.
Proof.
  intros E H ->. apply find_pat_sound in H. cbn [skipn] in H.
  apply prefixb_spec in H as [t ->]. cbn in E. discriminate.
Qed.

Definition canonH (r : (list header * bool * unreader) + perr) : (list header * bool * bytes) + perr :=
  match r with inl (a, b, p) => inl (a, b, u_abs p) | inr e => inr e end.

Lemma header_stage_cut c rbuf p :
  canonH (header_stage c rbuf p) =
  hs_of_cut c (canon 2 (hdr_post (max_buffer_headers c)) (scan hdr_find (cap_over (max_buffer_headers c)) rbuf p)).
Proof.
  unfold header_stage. destruct (scan _ _ rbuf p) as [i d p'| |d] eqn:Es; cbn [canon hs_of_cut canonH]; try reflexivity.
  destruct (scan_found_abs _ _ _ _ _ _ _ Es) as [_ Hf].
  destruct (hdr_found_shape _ _ Hf) as [[Hd ->]|(Hd & Hp & Hb)].
  - rewrite Hd. cbn [hdr_post Nat.eqb negb andb hs_of_cut]. cbn [Nat.add].
    rewrite prefixb_firstn by (cbn; lia). rewrite Hd. cbn [canonH]. rewrite u_unread_abs. reflexivity.
  - rewrite Hd. unfold hdr_post. pose proof (crlfcrlf_not_at_0 _ _ Hd Hp) as Hi.
    replace (Nat.eqb i 0) with false by (symmetry; apply Nat.eqb_neq; exact Hi). cbn [negb andb].
    destruct (cap_post (max_buffer_headers c) 4 i); [reflexivity|]. cbn [hs_of_cut].
    rewrite prefixb_firstn by (cbn; lia). rewrite Hd.
    rewrite firstn_firstn. replace (Nat.min i (i + 2)) with i by lia.
    destruct (parse_headers c false (is_ssl c) (firstn i d)) as [[hs https]|e]; [|reflexivity].
    cbn [canonH]. rewrite u_unread_abs. f_equal. f_equal.
    assert (Hl : 2 <= length (skipn (i + 2) d)) by (rewrite skipn_length; lia).
    rewrite skipn_app. replace (2 - length (skipn (i + 2) d)) with 0 by lia.
    rewrite (skipn_skipn 2 (i + 2) d). replace (2 + (i + 2)) with (i + 4) by lia. reflexivity.
Qed.

Theorem header_stage_indep c rbuf p :
  canonH (header_stage c rbuf p) = canonH (header_stage c (rbuf ++ concat p) []).
Proof.
  rewrite !header_stage_cut.
  rewrite !(scan_canon hdr_find (cap_over (max_buffer_headers c)) 4 2 (hdr_post (max_buffer_headers c))
              hdr_find_stable hdr_find_late hdr_find_bound (cap_over_mono _) (hdr_early _ (max_buffer_headers_ge4 c))).
  cbn [concat]. rewrite app_nil_r. reflexivity.
Qed.
Lemma header_stage_NE c rbuf p hs https p' : NE p -> header_stage c rbuf p = inl (hs, https, p') -> NE p'.
Proof.
  unfold header_stage. intros Hne H. destruct (scan _ _ rbuf p) as [i d q| |d] eqn:Es; try discriminate.
  pose proof (scan_found_NE _ _ _ _ _ _ _ Hne Es) as Hq.
  destruct (prefixb CRLF d); [injection H as <- <- <-; apply NE_unread; exact Hq|].
  destruct (cap_post _ 4 i); [discriminate|].
  destruct (parse_headers _ _ _ _) as [[a b]|e]; [|discriminate]. injection H as <- <- <-. apply NE_unread. exact Hq.
Qed.

(* ---- the whole head ------------------------------------------------------------------------------ *)
Definition whole (s : bytes) : unreader := match s with [] => [] | _ => [s] end.
Lemma whole_abs s : u_abs (whole s) = s.
Proof. destruct s; cbn; [reflexivity|]. rewrite app_nil_r. reflexivity. Qed.
Lemma NE_whole s : NE (whole s).
Proof. destruct s; cbn; constructor; [discriminate|constructor]. Qed.

Definition canon_req (r : (request * unreader) + perr) : (request * bytes) + perr :=
  match r with inl (q, p) => inl (q, u_abs p) | inr e => inr e end.

Definition canon4 {A} (r : (A * bytes * bytes * unreader) + perr) : (A * bytes * bytes) + perr :=
  match r with inl (a, l, rb, p) => inl (a, l, rb ++ concat p) | inr e => inr e end.

Lemma proxy_stage_indep c x n line rb p rb' p' :
  rb ++ concat p = rb' ++ concat p' ->
  canon4 (proxy_stage c x n line rb p) = canon4 (proxy_stage c x n line rb' p').
Proof.
  intros H. unfold proxy_stage.
  destruct (proxy_protocol c && (n =? 1)%N && prefixb s_PROXY line); [|cbn; rewrite H; reflexivity].
  destruct (negb (proxy_trusted c)); [reflexivity|].
  destruct (parse_proxy_protocol x line) as [info|e]; [|reflexivity].
  pose proof (read_line_indep (eff_line c) rb p) as H1. pose proof (read_line_indep (eff_line c) rb' p') as H2.
  rewrite H in H1. rewrite <- H2 in H1.
  destruct (read_line (eff_line c) rb p) as [[[l2 r2] p2]|e]; destruct (read_line (eff_line c) rb' p') as [[[l2' r2'] p2']|e'];
    cbn in *; congruence.
Qed.
Lemma proxy_stage_NE c x n line rb p a l rb' p' : NE p -> proxy_stage c x n line rb p = inl (a, l, rb', p') -> NE p'.
Proof.
  unfold proxy_stage. intros Hne H.
  destruct (proxy_protocol c && (n =? 1)%N && prefixb s_PROXY line); [|injection H as <- <- <- <-; exact Hne].
  destruct (negb (proxy_trusted c)); [discriminate|].
  destruct (parse_proxy_protocol x line) as [info|e]; [|discriminate].
  destruct (read_line (eff_line c) rb p) as [[[l2 r2] p2]|e] eqn:E; [|discriminate].
  injection H as <- <- <- <-. eapply read_line_NE; eassumption.
Qed.

(* the part of parse_request after the first read *)
Definition parse_from (c : cfg) (x : ext) (n : N) (data0 : bytes) (p0 : unreader) : (request * unreader) + perr :=
  match read_line (eff_line c) data0 p0 with
  | inr e => inr e
  | inl (line1, rbuf1, p1) =>
    match proxy_stage c x n line1 rbuf1 p1 with
    | inr e => inr e
    | inl (pinfo, line, rbuf, p2) =>
      match parse_request_line c x line with
      | inr e => inr e
      | inl (m, uri, ver) =>
        match header_stage c rbuf p2 with
        | inr e => inr e
        | inl (hs, https, p4) =>
          match set_body_reader hs ver with
          | inr e => inr e
          | inl (fr, mc) =>
              inl ({| r_method := m; r_uri := uri; r_version := ver; r_headers := hs; r_https := https;
                      r_proxy := pinfo; r_framing := fr; r_must_close := mc |}, p4)
          end
        end
      end
    end
  end.

Lemma parse_request_from c x n p :
  parse_request c x n p = match p with [] => inr EStop | [] :: _ => inr EStop | d :: t => parse_from c x n d t end.
Proof. unfold parse_request, parse_from, u_read. destruct p as [|[|b d] t]; reflexivity. Qed.

Lemma parse_from_indep c x n d p d' p' :
  d ++ concat p = d' ++ concat p' ->
  canon_req (parse_from c x n d p) = canon_req (parse_from c x n d' p').
Proof.
  intros H. unfold parse_from.
  pose proof (read_line_indep (eff_line c) d p) as H1. pose proof (read_line_indep (eff_line c) d' p') as H2.
  rewrite H in H1. rewrite <- H2 in H1. clear H2.
  destruct (read_line (eff_line c) d p) as [[[l1 r1] p1]|e]; destruct (read_line (eff_line c) d' p') as [[[l1' r1'] p1']|e'];
    cbn [canon3] in H1; try discriminate; [|congruence].
  injection H1 as -> Hr.
  pose proof (proxy_stage_indep c x n l1' r1 p1 r1' p1' Hr) as H3.
  destruct (proxy_stage c x n l1' r1 p1) as [[[[a l] rb] p2]|e]; destruct (proxy_stage c x n l1' r1' p1') as [[[[a' l'] rb'] p2']|e'];
    cbn [canon4] in H3; try discriminate; [|congruence].
  injection H3 as -> -> Hr2.
  destruct (parse_request_line c x l') as [[[m uri] ver]|e]; [|reflexivity].
  pose proof (header_stage_indep c rb p2) as H4. pose proof (header_stage_indep c rb' p2') as H5.
  rewrite Hr2 in H4. rewrite <- H5 in H4. clear H5.
  destruct (header_stage c rb p2) as [[[hs https] p4]|e]; destruct (header_stage c rb' p2') as [[[hs' https'] p4']|e'];
    cbn [canonH] in H4; try discriminate; [|congruence].
  injection H4 as -> -> Hr3.
  destruct (set_body_reader hs' ver) as [[fr mc]|e]; [|reflexivity].
  cbn [canon_req]. rewrite Hr3. reflexivity.
Qed.

Lemma parse_from_NE c x n d p r p' : NE p -> parse_from c x n d p = inl (r, p') -> NE p'.
Proof.
  unfold parse_from. intros Hne H.
  destruct (read_line (eff_line c) d p) as [[[l1 r1] p1]|e] eqn:E1; [|discriminate].
  pose proof (read_line_NE _ _ _ _ _ _ Hne E1) as N1.
  destruct (proxy_stage c x n l1 r1 p1) as [[[[a l] rb] p2]|e] eqn:E2; [|discriminate].
  pose proof (proxy_stage_NE _ _ _ _ _ _ _ _ _ _ N1 E2) as N2.
  destruct (parse_request_line c x l) as [[[m uri] ver]|e]; [|discriminate].
  destruct (header_stage c rb p2) as [[[hs https] p4]|e] eqn:E3; [|discriminate].
  pose proof (header_stage_NE _ _ _ _ _ _ N2 E3) as N3.
  destruct (set_body_reader hs ver) as [[fr mc]|e]; [|discriminate]. injection H as <- <-. exact N3.
Qed.

(* The request head obtained from any segmentation equals the one obtained from the unsegmented
   stream, with the same bytes left over. *)
Theorem parse_request_indep : forall c x n p, NE p ->
    canon_req (parse_request c x n p) = canon_req (parse_request c x n (whole (u_abs p))).
Proof.
  intros c x n p Hne. rewrite !parse_request_from.
  destruct p as [|d t].
  - reflexivity.
  - inversion Hne as [|? ? Hd Ht]; subst. destruct d as [|b d]; [congruence|].
    cbn [u_abs concat app whole]. apply parse_from_indep. cbn. rewrite app_nil_r. reflexivity.
Qed.
Theorem parse_request_NE : forall c x n p r p', NE p -> parse_request c x n p = inl (r, p') -> NE p'.
Proof.
  intros c x n p r p' Hne H. rewrite parse_request_from in H. destruct p as [|[|b d] t]; try discriminate.
  eapply parse_from_NE; [eapply NE_tl; exact Hne|exact H].
Qed.
