(* Lemmas about Model/Handle.v: which events each function can emit, where exceptions come from,
   and the trace invariants behind C05 / C18 / C19. *)
From Coq Require Import List NArith ZArith Bool Lia.
From GV Require Import Base.Enc Base.Dec Gen.GenErrors Model.Handle.
Import ListNotations.
Local Open Scope N_scope.

(* ---------------------------------------------------------------------------------------------- *)
(* event classes                                                                                    *)
(* ---------------------------------------------------------------------------------------------- *)
Definition is_app (e : ev) : bool := match e with EvApp => true | _ => false end.
Definition is_headev (e : ev) : bool := match e with EvHead => true | _ => false end.
Definition is_reject (e : ev) : bool := match e with EvPRaise _ | EvNone => true | _ => false end.
Definition is_parse (e : ev) : bool := is_headev e || is_reject e.
Definition is_access (e : ev) : bool := match e with EvAccess _ _ => true | _ => false end.
Definition is_err (e : ev) : bool := match e with EvErr _ _ => true | _ => false end.
Definition is_close (e : ev) : bool := match e with EvClose _ => true | _ => false end.
Definition is_keep (e : ev) : bool := match e with EvKeep => true | _ => false end.
(* socket writes that belong to the application's response *)
Definition is_body (e : ev) : bool :=
  match e with EvHdr _ _ _ _ _ | EvData _ _ | EvChunk _ _ | EvRaw _ _ | EvFile _ _ => true | _ => false end.
Definition is_100 (e : ev) : bool := match e with Ev100 _ => true | _ => false end.
Definition is_shutclose (e : ev) : bool := match e with EvShutdown _ | EvClose _ => true | _ => false end.

(* events of one handle_request *)
Definition is_hr (e : ev) : bool := is_100 e || is_app e || is_body e || is_access e || is_shutclose e.
(* events of handle_error / the ladder of handle() *)
Definition is_tail (e : ev) : bool := is_access e || is_err e || is_close e.

Lemma forallb_app_intro {A} (f : A -> bool) l1 l2 :
  forallb f l1 = true -> forallb f l2 = true -> forallb f (l1 ++ l2) = true.
Proof. intros H1 H2. rewrite forallb_app, H1, H2. reflexivity. Qed.

Lemma forallb_impl {A} (f g : A -> bool) l :
  (forall x, f x = true -> g x = true) -> forallb f l = true -> forallb g l = true.
Proof. intros H. induction l as [|x t IH]; cbn; [reflexivity|]. intros E. apply andb_prop in E as [E1 E2].
  rewrite (H _ E1), (IH E2). reflexivity. Qed.

(* ---------------------------------------------------------------------------------------------- *)
(* exceptions raised by the model itself                                                            *)
(* ---------------------------------------------------------------------------------------------- *)
Definition builtin (e : exn) : Prop :=
  e = exn_oserror \/ e = exn_stop \/ e = exn_generic \/ e = exn_nomoredata.

Lemma sockop_spec mk fs x fs' evs :
  sockop mk fs = (x, fs', evs) ->
  evs = [mk (fst (pop fs))] /\ fs' = snd (pop fs) /\
  (x = None /\ fst (pop fs) = FOk \/ x = Some exn_oserror /\ is_ok (fst (pop fs)) = false).
Proof.
  unfold sockop. destruct (pop fs) as [f t] eqn:E. cbn. intros H. injection H as <- <- <-.
  repeat split. destruct f; cbn; [left|right]; split; reflexivity.
Qed.

(* what the body-writing functions have in common *)
Definition body_post (x : option exn) (evs : list ev) : Prop :=
  forallb is_body evs = true /\ (forall e, x = Some e -> e = exn_oserror \/ e = exn_generic).

Lemma send_headers_post h r fs x r1 fs1 e1 :
  send_headers h r fs = (x, r1, fs1, e1) -> body_post x e1.
Proof.
  unfold send_headers. destruct (r_hsent r).
  - intros H. injection H as <- <- <- <-. split; [reflexivity|discriminate].
  - destruct (should_close h r) as [cl|].
    + destruct (sockop _ fs) as [[x0 fs0] ev0] eqn:E. apply sockop_spec in E as (-> & -> & Hx).
      destruct Hx as [[-> _]|[-> _]]; intros H; injection H as <- <- <- <-; (split; [reflexivity|]).
      * discriminate.
      * intros e He. injection He as <-. left. reflexivity.
    + intros H. injection H as <- <- <- <-. split; [reflexivity|]. intros e He. injection He as <-. right. reflexivity.
Qed.

Lemma sockop_body_post mk fs x fs' evs :
  (forall f, is_body (mk f) = true) -> sockop mk fs = (x, fs', evs) -> body_post x evs.
Proof.
  intros Hk E. apply sockop_spec in E as (-> & -> & Hx). split.
  - cbn. rewrite Hk. reflexivity.
  - intros e He. destruct Hx as [[-> _]|[-> _]]; [discriminate|]. injection He as <-. left. reflexivity.
Qed.

Lemma body_post_app x1 e1 x2 e2 : body_post x1 e1 -> body_post x2 e2 -> body_post x2 (e1 ++ e2).
Proof. intros [A _] [B C]. split; [apply forallb_app_intro; assumption|exact C]. Qed.

Lemma resp_write_post h r d fs x r1 fs1 e1 :
  resp_write h r d fs = (x, r1, fs1, e1) -> body_post x e1.
Proof.
  unfold resp_write. destruct (send_headers h r fs) as [[[x0 r0] fs0] ev0] eqn:E0.
  pose proof (send_headers_post _ _ _ _ _ _ _ E0) as P0.
  destruct x0 as [e0|].
  - intros H. injection H as <- <- <- <-. exact P0.
  - assert (G : forall tosend d' x r1 fs1 e1,
        (if r_chunked r0 && (tosend =? 0) then (None, r0, fs0, ev0)
         else let r2 := add_sent r0 tosend in
              let '(x2, fs2, e2) := sockop (if r_chunked r0 then EvChunk d' else EvData d') fs0 in
              (x2, r2, fs2, ev0 ++ e2)) = (x, r1, fs1, e1) -> body_post x e1).
    { intros tosend d' x' r' fs' e'. destruct (r_chunked r0 && (tosend =? 0)).
      - intros H. injection H as <- <- <- <-. exact P0.
      - cbn zeta. destruct (sockop _ fs0) as [[x2 fs2] e2] eqn:E2. intros H. injection H as <- <- <- <-.
        eapply body_post_app; [exact P0|]. eapply sockop_body_post; [|exact E2].
        intros f. destruct (r_chunked r0); reflexivity. }
    destruct (r_clen r0) as [L|].
    + destruct (L <=? r_sent r0).
      * intros H. injection H as <- <- <- <-. exact P0.
      * apply G.
    + apply G.
Qed.

Lemma write_all_post h : forall ds r fs x r1 fs1 e1,
  write_all h r ds fs = (x, r1, fs1, e1) -> body_post x e1.
Proof.
  induction ds as [|d t IH]; intros r fs x r1 fs1 e1; cbn [write_all].
  - intros H. injection H as <- <- <- <-. split; [reflexivity|discriminate].
  - destruct (resp_write h r d fs) as [[[x0 r0] fs0] ev0] eqn:E0.
    pose proof (resp_write_post _ _ _ _ _ _ _ _ E0) as P0. destruct x0.
    + intros H. injection H as <- <- <- <-. exact P0.
    + destruct (write_all h r0 t fs0) as [[[x2 r2] fs2] e2] eqn:E2. intros H. injection H as <- <- <- <-.
      eapply body_post_app; [exact P0|]. eapply IH. exact E2.
Qed.

Lemma body_post_none : body_post None [].
Proof. split; [reflexivity|discriminate]. Qed.

Lemma resp_write_file_post c h r fl fs x r1 fs1 e1 :
  resp_write_file c h r fl fs = (x, r1, fs1, e1) -> body_post x e1.
Proof.
  unfold resp_write_file. destruct (c_sendfile c && f_fileno fl); [|apply write_all_post].
  destruct (send_headers h r fs) as [[[x0 r0] fs0] ev0] eqn:E0.
  pose proof (send_headers_post _ _ _ _ _ _ _ E0) as P0.
  destruct x0.
  { intros H. injection H as <- <- <- <-. exact P0. }
  destruct (_ =? 0).
  { intros H. injection H as <- <- <- <-. exact P0. }
  destruct (is_chunked_opt h (r_status r0) (r_clen r0)) as [ch|].
  2:{ intros H. injection H as <- <- <- <-. destruct P0 as [A _]. split; [exact A|].
      intros e He. injection He as <-. right. reflexivity. }
  set (nb := match r_clen r with Some L => L - r_sent r | None => len (f_avail fl) end).
  assert (Q2 : forall x2 fs2 e2, (if ch then sockop (EvRaw (hex_upper nb ++ CRLF)) fs0 else (None, fs0, [])) = (x2, fs2, e2) -> body_post x2 e2).
  { intros x2 fs2 e2. destruct ch.
    - apply sockop_body_post. reflexivity.
    - intros H. injection H as <- <- <-. apply body_post_none. }
  destruct (if ch then sockop (EvRaw (hex_upper nb ++ CRLF)) fs0 else (None, fs0, [])) as [[x2 fs2] e2] eqn:E2.
  specialize (Q2 _ _ _ eq_refl). destruct x2.
  { intros H. injection H as <- <- <- <-. eapply body_post_app; eassumption. }
  destruct (sockop (EvFile _) fs2) as [[x3 fs3] e3] eqn:E3.
  pose proof (sockop_body_post (EvFile (firstnN nb (f_avail fl))) _ _ _ _ (fun _ => eq_refl) E3) as Q3. destruct x3.
  { intros H. injection H as <- <- <- <-. eapply body_post_app; [exact P0|]. eapply body_post_app; eassumption. }
  assert (Q4 : forall x4 fs4 e4, (if ch then sockop (EvRaw CRLF) fs3 else (None, fs3, [])) = (x4, fs4, e4) -> body_post x4 e4).
  { intros x4 fs4 e4. destruct ch.
    - apply sockop_body_post. reflexivity.
    - intros H. injection H as <- <- <-. apply body_post_none. }
  destruct (if ch then sockop (EvRaw CRLF) fs3 else (None, fs3, [])) as [[x4 fs4] e4] eqn:E4.
  specialize (Q4 _ _ _ eq_refl).
  intros H. injection H as <- <- <- <-.
  eapply body_post_app; [exact P0|]. eapply body_post_app; [exact Q2|]. eapply body_post_app; eassumption.
Qed.

Lemma resp_close_post h r fs x r1 fs1 e1 :
  resp_close h r fs = (x, r1, fs1, e1) -> body_post x e1.
Proof.
  unfold resp_close. destruct (send_headers h r fs) as [[[x0 r0] fs0] ev0] eqn:E0.
  pose proof (send_headers_post _ _ _ _ _ _ _ E0) as P0. destruct x0.
  { intros H. injection H as <- <- <- <-. exact P0. }
  destruct (r_chunked r0).
  - destruct (sockop _ fs0) as [[x2 fs2] e2] eqn:E2. intros H. injection H as <- <- <- <-.
    eapply body_post_app; [exact P0|]. eapply sockop_body_post; [|exact E2]. reflexivity.
  - intros H. injection H as <- <- <- <-. exact P0.
Qed.

(* exceptions of a script *)
Definition act_exns (a : act) : list exn := match a with ARaise e => [e] | _ => [] end.
Definition app_exns (a : app) : list exn := flat_map act_exns (a_acts a).
Definition pout_exns (p : pout) : list exn :=
  match p with
  | PRaise e => [e]
  | PHead h => match h_create_exn h with Some e => [e] | None => [] end
  | PNone => []
  end.

Section Origin.
  Variable P : exn -> Prop.
  Hypothesis P_os : P exn_oserror.
  Hypothesis P_stop : P exn_stop.
  Hypothesis P_gen : P exn_generic.
  Hypothesis P_nmd : P exn_nomoredata.

  Lemma body_post_P x evs e : body_post x evs -> x = Some e -> P e.
  Proof. intros [_ H] Hx. destruct (H _ Hx) as [->| ->]; assumption. Qed.

  Lemma run_call_post h : forall acts r fs p r1 fs1 e1,
    Forall P (flat_map act_exns acts) ->
    run_call h r acts fs = (p, r1, fs1, e1) ->
    forallb is_body e1 = true /\ (forall e, p = PRaised e -> P e)
    /\ (forall t, p = PReturned t -> Forall P (flat_map act_exns t)).
  Proof.
    induction acts as [|a t IH]; intros r fs p r1 fs1 e1 HP; cbn [run_call].
    - intros H. injection H as <- <- <- <-. repeat split; try reflexivity; discriminate.
    - destruct a as [code clen|d|e|].
      + cbn in HP. destruct (start_response h r code clen) as [r0|].
        * apply IH. exact HP.
        * intros H. injection H as <- <- <- <-. repeat split; try reflexivity; try discriminate.
          intros e He. injection He as <-. exact P_gen.
      + cbn in HP. destruct (resp_write h r d fs) as [[[x0 r0] fs0] ev0] eqn:E0.
        pose proof (resp_write_post _ _ _ _ _ _ _ _ E0) as P0. destruct x0 as [e0|].
        * intros H. injection H as <- <- <- <-. repeat split; try (apply P0); try discriminate.
          intros e He. injection He as <-. eapply body_post_P; [exact P0|reflexivity].
        * destruct (run_call h r0 t fs0) as [[[p2 r2] fs2] e2] eqn:E2. intros H. injection H as <- <- <- <-.
          destruct (IH _ _ _ _ _ _ HP E2) as (A & B & C). repeat split; [|exact B|exact C].
          apply forallb_app_intro; [apply P0|exact A].
      + cbn in HP. intros H. injection H as <- <- <- <-. repeat split; try reflexivity; try discriminate.
        intros e' He. injection He as <-. inversion HP; assumption.
      + cbn in HP. intros H. injection H as <- <- <- <-. repeat split; try reflexivity; try discriminate.
        intros t' Ht. injection Ht as <-. exact HP.
  Qed.

  Lemma run_iter_post h : forall acts r fs x r1 fs1 e1,
    Forall P (flat_map act_exns acts) ->
    run_iter h r acts fs = (x, r1, fs1, e1) ->
    forallb is_body e1 = true /\ (forall e, x = Some e -> P e).
  Proof.
    induction acts as [|a t IH]; intros r fs x r1 fs1 e1 HP; cbn [run_iter].
    - intros H. injection H as <- <- <- <-. split; [reflexivity|discriminate].
    - destruct a as [code clen|d|e|].
      + cbn in HP. destruct (start_response h r code clen) as [r0|].
        * apply IH. exact HP.
        * intros H. injection H as <- <- <- <-. split; [reflexivity|]. intros e He. injection He as <-. exact P_gen.
      + cbn in HP. destruct (resp_write h r d fs) as [[[x0 r0] fs0] ev0] eqn:E0.
        pose proof (resp_write_post _ _ _ _ _ _ _ _ E0) as P0. destruct x0 as [e0|].
        * intros H. injection H as <- <- <- <-. split; [apply P0|].
          intros e He. injection He as <-. eapply body_post_P; [exact P0|reflexivity].
        * destruct (run_iter h r0 t fs0) as [[[x2 r2] fs2] e2] eqn:E2. intros H. injection H as <- <- <- <-.
          destruct (IH _ _ _ _ _ _ HP E2) as (A & B). split; [|exact B].
          apply forallb_app_intro; [apply P0|exact A].
      + cbn in HP. destruct (is_stopiter (x_cls e)); intros H; injection H as <- <- <- <-; (split; [reflexivity|]); try discriminate.
        intros e' He. injection He as <-. inversion HP; assumption.
      + cbn in HP. apply IH. exact HP.
  Qed.

  Lemma send_100_post : forall n fs x fs1 e1,
    send_100 n fs = (x, fs1, e1) -> forallb is_100 e1 = true /\ (forall e, x = Some e -> e = exn_oserror).
  Proof.
    induction n as [|k IH]; intros fs x fs1 e1; cbn [send_100].
    - intros H. injection H as <- <- <-. split; [reflexivity|discriminate].
    - destruct (sockop Ev100 fs) as [[x0 fs0] ev0] eqn:E0. apply sockop_spec in E0 as (-> & -> & Hx).
      destruct Hx as [[-> _]|[-> _]].
      + destruct (send_100 k (snd (pop fs))) as [[x2 fs2] e2] eqn:E2. intros H. injection H as <- <- <-.
        destruct (IH _ _ _ _ E2) as [A B]. split; [cbn; exact A|exact B].
      + intros H. injection H as <- <- <-. split; [reflexivity|]. intros e He. injection He as <-. reflexivity.
  Qed.

  Lemma hr_ladder_post w r e fs hr fs1 e1 :
    P e -> hr_ladder w r e fs = (hr, fs1, e1) ->
    forallb is_shutclose e1 = true /\ (exists e', hr = HExn e' /\ P e').
  Proof.
    intros Pe. unfold hr_ladder.
    destruct (match w with WAsync => is_stopiter (x_cls e) | _ => false end).
    { intros H. injection H as <- <- <-. split; [reflexivity|]. exists e. split; [reflexivity|exact Pe]. }
    destruct (is_oserror (x_cls e)).
    { intros H. injection H as <- <- <-. split; [reflexivity|]. exists e. split; [reflexivity|exact Pe]. }
    destruct (is_exception (x_cls e)).
    2:{ intros H. injection H as <- <- <-. split; [reflexivity|]. exists e. split; [reflexivity|exact Pe]. }
    destruct (r_hsent r).
    2:{ intros H. injection H as <- <- <-. split; [reflexivity|]. exists e. split; [reflexivity|exact Pe]. }
    destruct (sockop EvShutdown fs) as [[x0 fs0] ev0] eqn:E0. apply sockop_spec in E0 as (-> & -> & _).
    destruct x0.
    - intros H. injection H as <- <- <-. split; [reflexivity|]. exists exn_stop. split; [reflexivity|exact P_stop].
    - destruct (sockop EvClose _) as [[x2 fs2] e2] eqn:E2. apply sockop_spec in E2 as (-> & -> & _).
      intros H. injection H as <- <- <-. split; [reflexivity|]. exists exn_stop. split; [reflexivity|exact P_stop].
  Qed.

  Definition head_exns (h : head) : list exn := match h_create_exn h with Some e => [e] | None => [] end.

  Lemma serve_post c h r0 a fs logged x r fs1 body :
    Forall P (app_exns a) -> serve c h r0 a fs = (logged, x, r, fs1, body) ->
    forallb is_body body = true /\ (forall e, x = Some e -> P e).
  Proof.
    intros Ha. unfold serve.
    destruct (run_call h r0 (a_acts a) fs) as [[[p r1] fsa] ea] eqn:E1.
    destruct (run_call_post h _ _ _ _ _ _ _ Ha E1) as (A1 & B1 & C1).
    assert (Body : forall rest, Forall P (flat_map act_exns rest) ->
      (let '(x2, r2, fs2, e2) :=
          match a_file a with
          | Some fl => resp_write_file c h r1 fl fsa
          | None => run_iter h r1 rest fsa
          end in
        let '(x3, r3, fs3, e3) :=
          match x2 with
          | Some e => (Some e, r2, fs2, [])
          | None => resp_close h r2 fs2
          end in
        (true, x3, r3, fs3, ea ++ e2 ++ e3)) = (logged, x, r, fs1, body) ->
      forallb is_body body = true /\ (forall e, x = Some e -> P e)).
    { intros rest Hrest.
      assert (S2 : forall x2 r2 fs2 e2,
          match a_file a with
          | Some fl => resp_write_file c h r1 fl fsa
          | None => run_iter h r1 rest fsa
          end = (x2, r2, fs2, e2) -> forallb is_body e2 = true /\ (forall e, x2 = Some e -> P e)).
      { intros x2 r2 fs2 e2. destruct (a_file a) as [fl|].
        - intros E. pose proof (resp_write_file_post _ _ _ _ _ _ _ _ _ E) as Q. split; [apply Q|].
          intros e He. eapply body_post_P; eassumption.
        - apply run_iter_post. exact Hrest. }
      destruct (match a_file a with Some fl => resp_write_file c h r1 fl fsa | None => run_iter h r1 rest fsa end)
        as [[[x2 r2] fs2] e2] eqn:E2.
      destruct (S2 _ _ _ _ eq_refl) as [A2 B2].
      assert (S3 : forall x3 r3 fs3 e3,
          match x2 with Some e => (Some e, r2, fs2, []) | None => resp_close h r2 fs2 end = (x3, r3, fs3, e3) ->
          forallb is_body e3 = true /\ (forall e, x3 = Some e -> P e)).
      { intros x3 r3 fs3 e3. destruct x2 as [e|].
        - intros H. injection H as <- <- <- <-. split; [reflexivity|]. intros e' He. injection He as <-. apply B2. reflexivity.
        - intros E. pose proof (resp_close_post _ _ _ _ _ _ _ E) as Q. split; [apply Q|].
          intros e He. eapply body_post_P; eassumption. }
      destruct (match x2 with Some e => (Some e, r2, fs2, []) | None => resp_close h r2 fs2 end)
        as [[[x3 r3] fs3] e3] eqn:E3.
      destruct (S3 _ _ _ _ eq_refl) as [A3 B3].
      intros H. injection H as <- <- <- <- <-. split; [|exact B3].
      apply forallb_app_intro; [exact A1|]. apply forallb_app_intro; assumption. }
    destruct p as [|rest|e].
    - apply (Body []). constructor.
    - apply (Body rest). apply C1. reflexivity.
    - intros H. injection H as <- <- <- <- <-. split; [exact A1|]. intros e' He. injection He as <-. apply B1. reflexivity.
  Qed.

  Lemma handle_request_post w c st h a fs hr st1 fs1 e1 :
    Forall P (head_exns h) -> Forall P (app_exns a) ->
    handle_request w c st h a fs = (hr, st1, fs1, e1) ->
    forallb is_hr e1 = true /\ (forall e, hr = HExn e -> P e).
  Proof.
    intros Hh Ha. unfold handle_request.
    destruct (send_100 (h_expect h) fs) as [[x0 fs0] ev0] eqn:E0.
    destruct (send_100_post _ _ _ _ _ E0) as [A0 B0].
    assert (A0' : forallb is_hr ev0 = true).
    { eapply forallb_impl; [|exact A0]. intros x Hx. unfold is_hr. rewrite Hx. reflexivity. }
    destruct x0 as [e0|].
    { intros H. injection H as <- <- <- <-. split; [exact A0'|]. intros e He. injection He as <-.
      rewrite (B0 _ eq_refl). exact P_os. }
    unfold head_exns in Hh. destruct (h_create_exn h) as [ce|].
    { intros H. injection H as <- <- <- <-. split; [exact A0'|]. intros e He. injection He as <-. inversion Hh; assumption. }
    destruct (count_request w c st) as [st' force].
    destruct (serve c h (resp_init force) a fs0) as [[[[logged x] r] fsb] body] eqn:E1.
    destruct (serve_post _ _ _ _ _ _ _ _ _ _ Ha E1) as [A1 B1].
    set (acc := if logged then [EvAccess (r_status r) (r_sent r)] else []).
    assert (Apre : forallb is_hr (ev0 ++ EvApp :: body ++ acc) = true).
    { apply forallb_app_intro; [exact A0'|]. cbn [forallb]. change (is_hr EvApp) with true. cbn [andb].
      apply forallb_app_intro.
      { eapply forallb_impl; [|exact A1]. intros y Hy. unfold is_hr. rewrite Hy. rewrite !orb_true_r. reflexivity. }
      unfold acc. destruct logged; reflexivity. }
    assert (Lad : forall e hr st1 fs1 e1, P e ->
        (let '(hr, fs2, e2) := hr_ladder w r e fsb in (hr, st', fs2, (ev0 ++ EvApp :: body ++ acc) ++ e2)) = (hr, st1, fs1, e1) ->
        forallb is_hr e1 = true /\ (forall e', hr = HExn e' -> P e')).
    { intros e hr' st1' fs1' e1' Pe. destruct (hr_ladder w r e fsb) as [[hr2 fs2] e2] eqn:E2.
      intros H. injection H as <- <- <- <-.
      destruct (hr_ladder_post _ _ _ _ _ _ _ Pe E2) as [A [e' [-> Pe']]]. split.
      - apply forallb_app_intro; [exact Apre|].
        eapply forallb_impl; [|exact A]. intros y Hy. unfold is_hr. rewrite Hy. rewrite !orb_true_r. reflexivity.
      - intros e'' He. injection He as <-. exact Pe'. }
    cbn zeta. fold acc. destruct x as [e|].
    - apply Lad. apply B1. reflexivity.
    - destruct (hr_after w h r) as [hr'|] eqn:Eh.
      + intros H. injection H as <- <- <- <-. split; [exact Apre|].
        intros e He. subst hr'. unfold hr_after in Eh. destruct w; try discriminate;
          destruct (should_close h r) as [[|]|]; try discriminate. injection Eh as <-. exact P_stop.
      + apply Lad. exact P_gen.
  Qed.
End Origin.

(* ---------------------------------------------------------------------------------------------- *)
(* accounting: headers_sent, sent, status, faults                                                   *)
(* ---------------------------------------------------------------------------------------------- *)
Definition ok_hdr (e : ev) : bool := match e with EvHdr _ _ _ _ FOk => true | _ => false end.
Definition ev_ok (e : ev) : bool :=
  match e with
  | Ev100 f | EvHdr _ _ _ _ f | EvData _ f | EvChunk _ f | EvRaw _ f | EvFile _ f | EvErr _ f | EvShutdown f => is_ok f
  | _ => true
  end.
(* body bytes counted into resp.sent / body bytes that really went out *)
Definition attempted (e : ev) : N :=
  match e with EvData d _ | EvChunk d _ => len d | EvFile d FOk => len d | _ => 0 end.
Definition delivered (e : ev) : N :=
  match e with EvData d FOk | EvChunk d FOk | EvFile d FOk => len d | _ => 0 end.
Definition sumN (f : ev -> N) (l : list ev) : N := fold_right (fun e a => f e + a) 0 l.
Lemma sumN_app f l1 l2 : sumN f (l1 ++ l2) = sumN f l1 + sumN f l2.
Proof. induction l1 as [|x t IH]; [reflexivity|]. cbn [List.app sumN fold_right]. fold (sumN f (t ++ l2)). fold (sumN f t). rewrite IH. lia. Qed.

Definition hdr_code_ok (st : option N) (e : ev) : Prop :=
  match e with EvHdr code _ _ _ _ => code = None \/ code = st | _ => True end.

Record acct (r r1 : resp) (x : option exn) (e1 : list ev) : Prop := {
  ac_must : r_must_close r1 = r_must_close r;
  ac_hs_mono : r_hsent r = true -> r_hsent r1 = true;
  ac_hs_ev : existsb ok_hdr e1 = true -> r_hsent r1 = true;
  ac_sent : r_sent r1 = r_sent r + sumN attempted e1;
  ac_ok : x = None -> forallb ev_ok e1 = true;
  ac_st_mono : forall c, r_status r = Some c -> r_status r1 = Some c;
  ac_codes : Forall (hdr_code_ok (r_status r1)) e1
}.

Lemma acct_refl r x : acct r r x [].
Proof. constructor; cbn; try tauto; try lia; try discriminate; constructor. Qed.

Lemma hdr_code_ok_mono st st' e :
  (forall c, st = Some c -> st' = Some c) -> hdr_code_ok st e -> hdr_code_ok st' e.
Proof. intros H. destruct e; cbn; try tauto. intros [->| ->]; [left; reflexivity|].
  destruct st as [c|]; [right; symmetry; apply H; reflexivity|left; reflexivity]. Qed.

Lemma acct_trans r r1 r2 x e1 e2 : acct r r1 None e1 -> acct r1 r2 x e2 -> acct r r2 x (e1 ++ e2).
Proof.
  intros A B. constructor.
  - rewrite (ac_must _ _ _ _ B). apply (ac_must _ _ _ _ A).
  - intros H. apply (ac_hs_mono _ _ _ _ B). apply (ac_hs_mono _ _ _ _ A). exact H.
  - rewrite existsb_app. intros H. apply orb_true_iff in H as [H|H].
    + apply (ac_hs_mono _ _ _ _ B). apply (ac_hs_ev _ _ _ _ A). exact H.
    + apply (ac_hs_ev _ _ _ _ B). exact H.
  - rewrite sumN_app, (ac_sent _ _ _ _ B), (ac_sent _ _ _ _ A). lia.
  - intros Hx. rewrite forallb_app. rewrite (ac_ok _ _ _ _ A eq_refl), (ac_ok _ _ _ _ B Hx). reflexivity.
  - intros c H. apply (ac_st_mono _ _ _ _ B). apply (ac_st_mono _ _ _ _ A). exact H.
  - apply Forall_app. split; [|apply (ac_codes _ _ _ _ B)].
    eapply Forall_impl; [|apply (ac_codes _ _ _ _ A)]. intros e. apply hdr_code_ok_mono. apply (ac_st_mono _ _ _ _ B).
Qed.

(* an exception cuts the sequence short: the events so far, no claim about faults *)
Lemma acct_exn r r1 e e1 : acct r r1 None e1 \/ acct r r1 (Some e) e1 -> acct r r1 (Some e) e1.
Proof. intros [A|A]; [|exact A]. destruct A. constructor; try assumption. discriminate. Qed.

Lemma acct_weaken r r1 x e e1 : acct r r1 x e1 -> acct r r1 (Some e) e1.
Proof. intros A. destruct A. constructor; try assumption. discriminate. Qed.

Lemma send_headers_acct h r fs x r1 fs1 e1 :
  send_headers h r fs = (x, r1, fs1, e1) ->
  acct r r1 x e1 /\ (r_status r1 = r_status r /\ r_clen r1 = r_clen r /\ r_chunked r1 = r_chunked r)
  /\ (x = None -> r_hsent r1 = true).
Proof.
  unfold send_headers. destruct (r_hsent r) eqn:Hs.
  - intros H. injection H as <- <- <- <-. split; [apply acct_refl|]. split; [tauto|]. intros _. exact Hs.
  - destruct (should_close h r) as [cl|].
    + destruct (sockop _ fs) as [[x0 fs0] ev0] eqn:E. apply sockop_spec in E as (-> & -> & Hx).
      destruct Hx as [[-> Hf]|[-> Hf]]; intros H; injection H as <- <- <- <-.
      * split; [|split; [cbn; tauto|intros _; reflexivity]].
        constructor.
        -- reflexivity.
        -- intros _. reflexivity.
        -- intros _. reflexivity.
        -- cbn. lia.
        -- intros _. cbn. rewrite Hf. reflexivity.
        -- intros c Hc. exact Hc.
        -- constructor; [right; reflexivity|constructor].
      * split; [|split; [tauto|discriminate]].
        constructor.
        -- reflexivity.
        -- tauto.
        -- cbn. destruct (fst (pop fs)); [discriminate Hf|]. cbn. discriminate.
        -- cbn. lia.
        -- discriminate.
        -- tauto.
        -- constructor; [right; reflexivity|constructor].
    + intros H. injection H as <- <- <- <-. split; [apply acct_refl|]. split; [tauto|discriminate].
Qed.

Definition frame (r r1 : resp) : Prop :=
  r_status r1 = r_status r /\ r_clen r1 = r_clen r /\ r_chunked r1 = r_chunked r.
Lemma frame_refl r : frame r r. Proof. repeat split. Qed.
Lemma frame_trans r r1 r2 : frame r r1 -> frame r1 r2 -> frame r r2.
Proof. intros (A & B & C) (A' & B' & C'). repeat split; congruence. Qed.

Lemma acct_sock_data r n mk fs x fs' evs :
  sockop mk fs = (x, fs', evs) ->
  (forall f, ok_hdr (mk f) = false) -> (forall f, attempted (mk f) = n) -> (forall f, ev_ok (mk f) = is_ok f) ->
  (forall f, hdr_code_ok (r_status r) (mk f)) ->
  acct r (add_sent r n) x evs.
Proof.
  intros E H1 H2 H3 H4. apply sockop_spec in E as (-> & -> & Hx).
  constructor; cbn; try reflexivity; try tauto.
  - rewrite H1. discriminate.
  - rewrite H2. lia.
  - intros ->. destruct Hx as [[_ Hf]|[Hf _]]; [|discriminate]. rewrite H3, Hf. reflexivity.
  - constructor; [apply H4|constructor].
Qed.

Lemma add_sent_0 r : add_sent r 0 = r.
Proof. destruct r. unfold add_sent. cbn. f_equal. lia. Qed.

Lemma len_firstnN n d : n <= len d -> len (firstnN n d) = n.
Proof. unfold len, firstnN. intros H. rewrite firstn_length. lia. Qed.

Lemma resp_write_acct h r d fs x r1 fs1 e1 :
  resp_write h r d fs = (x, r1, fs1, e1) -> acct r r1 x e1 /\ frame r r1.
Proof.
  unfold resp_write. destruct (send_headers h r fs) as [[[x0 r0] fs0] ev0] eqn:E0.
  destruct (send_headers_acct _ _ _ _ _ _ _ E0) as (A0 & F0 & _). change (frame r r0) in F0.
  destruct x0 as [e0|].
  - intros H. injection H as <- <- <- <-. split; [exact A0|exact F0].
  - assert (G : forall tosend d' x r1 fs1 e1, len d' = tosend ->
        (if r_chunked r0 && (tosend =? 0) then (None, r0, fs0, ev0)
         else let r2 := add_sent r0 tosend in
              let '(x2, fs2, e2) := sockop (if r_chunked r0 then EvChunk d' else EvData d') fs0 in
              (x2, r2, fs2, ev0 ++ e2)) = (x, r1, fs1, e1) -> acct r r1 x e1 /\ frame r r1).
    { intros tosend d' x' r' fs' e' Hl. destruct (r_chunked r0 && (tosend =? 0)).
      - intros H. injection H as <- <- <- <-. split; [exact A0|exact F0].
      - cbn zeta. destruct (sockop _ fs0) as [[x2 fs2] e2] eqn:E2. intros H. injection H as <- <- <- <-. split.
        + eapply acct_trans; [exact A0|]. eapply acct_sock_data; [exact E2|..]; intros f; destruct (r_chunked r0); cbn; try reflexivity; try exact Hl; exact I.
        + eapply frame_trans; [exact F0|]. repeat split. }
    destruct (r_clen r0) as [L|].
    + destruct (L <=? r_sent r0) eqn:EL.
      * intros H. injection H as <- <- <- <-. split; [exact A0|exact F0].
      * apply G. apply N.leb_gt in EL.
        destruct (N.min (L - r_sent r0) (len d) <? len d) eqn:Em.
        -- apply len_firstnN. lia.
        -- apply N.ltb_ge in Em. lia.
    + apply G. reflexivity.
Qed.

Lemma write_all_acct h : forall ds r fs x r1 fs1 e1,
  write_all h r ds fs = (x, r1, fs1, e1) -> acct r r1 x e1 /\ frame r r1.
Proof.
  induction ds as [|d t IH]; intros r fs x r1 fs1 e1; cbn [write_all].
  - intros H. injection H as <- <- <- <-. split; [apply acct_refl|apply frame_refl].
  - destruct (resp_write h r d fs) as [[[x0 r0] fs0] ev0] eqn:E0.
    destruct (resp_write_acct _ _ _ _ _ _ _ _ E0) as [A0 F0]. destruct x0.
    + intros H. injection H as <- <- <- <-. split; [exact A0|exact F0].
    + destruct (write_all h r0 t fs0) as [[[x2 r2] fs2] e2] eqn:E2. intros H. injection H as <- <- <- <-.
      destruct (IH _ _ _ _ _ _ E2) as [A2 F2]. split; [eapply acct_trans; eassumption|eapply frame_trans; eassumption].
Qed.

Lemma acct_sock_plain r mk fs x fs' evs :
  sockop mk fs = (x, fs', evs) ->
  (forall f, ok_hdr (mk f) = false) -> (forall f, attempted (mk f) = 0) -> (forall f, ev_ok (mk f) = is_ok f) ->
  (forall f, hdr_code_ok (r_status r) (mk f)) ->
  acct r r x evs.
Proof. intros. rewrite <- (add_sent_0 r) at 2. eapply acct_sock_data; eassumption. Qed.

Lemma resp_write_file_acct c h r fl fs x r1 fs1 e1 :
  resp_write_file c h r fl fs = (x, r1, fs1, e1) -> acct r r1 x e1 /\ frame r r1.
Proof.
  unfold resp_write_file. destruct (c_sendfile c && f_fileno fl); [|apply write_all_acct].
  destruct (send_headers h r fs) as [[[x0 r0] fs0] ev0] eqn:E0.
  destruct (send_headers_acct _ _ _ _ _ _ _ E0) as (A0 & F0 & _). change (frame r r0) in F0.
  destruct x0.
  { intros H. injection H as <- <- <- <-. split; [exact A0|exact F0]. }
  destruct (_ =? 0).
  { intros H. injection H as <- <- <- <-. split; [exact A0|exact F0]. }
  destruct (is_chunked_opt h (r_status r0) (r_clen r0)) as [ch|].
  2:{ intros H. injection H as <- <- <- <-. split; [|exact F0]. eapply acct_weaken. exact A0. }
  set (nb := match r_clen r with Some L => L - r_sent r | None => len (f_avail fl) end).
  assert (Q : forall d fsx x2 fs2 e2, (if ch then sockop (EvRaw d) fsx else (None, fsx, [])) = (x2, fs2, e2) -> acct r0 r0 x2 e2).
  { intros d fsx x2 fs2 e2. destruct ch.
    - intros E. eapply acct_sock_plain; [exact E|..]; intros f; cbn; try reflexivity; exact I.
    - intros H. injection H as <- <- <-. apply acct_refl. }
  destruct (if ch then sockop (EvRaw (hex_upper nb ++ CRLF)) fs0 else (None, fs0, [])) as [[x2 fs2] e2] eqn:E2.
  pose proof (Q _ _ _ _ _ E2) as Q2. destruct x2.
  { intros H. injection H as <- <- <- <-. split; [|exact F0]. eapply acct_trans; eassumption. }
  destruct (sockop (EvFile _) fs2) as [[x3 fs3] e3] eqn:E3.
  pose proof E3 as E3'. apply sockop_spec in E3' as (-> & -> & Hx3). destruct x3.
  { intros H. injection H as <- <- <- <-. split; [|exact F0]. eapply acct_trans; [exact A0|]. eapply acct_trans; [exact Q2|].
    destruct Hx3 as [[Hx _]|[_ Hf]]; [discriminate Hx|].
    constructor; cbn; try reflexivity; try tauto; try discriminate.
    - destruct (fst (pop fs2)); [discriminate Hf|]. cbn. lia.
    - constructor; [exact I|constructor]. }
  destruct Hx3 as [[_ Hf]|[Hx _]]; [|discriminate Hx].
  destruct (if ch then sockop (EvRaw CRLF) (snd (pop fs2)) else (None, snd (pop fs2), [])) as [[x4 fs4] e4] eqn:E4.
  pose proof (Q _ _ _ _ _ E4) as Q4.
  intros H. injection H as <- <- <- <-. split.
  2:{ eapply frame_trans; [exact F0|]. repeat split. }
  eapply acct_trans; [exact A0|]. eapply acct_trans; [exact Q2|].
  apply (acct_trans r0 (add_sent r0 (len (firstnN nb (f_avail fl)))) _ x4 [EvFile (firstnN nb (f_avail fl)) (fst (pop fs2))] e4).
  - rewrite Hf. constructor; cbn; try reflexivity; try tauto; try discriminate; try lia. constructor; [exact I|constructor].
  - destruct Q4. constructor; cbn in *; try assumption. lia.
Qed.

Lemma resp_close_acct h r fs x r1 fs1 e1 :
  resp_close h r fs = (x, r1, fs1, e1) -> acct r r1 x e1 /\ frame r r1 /\ (x = None -> r_hsent r1 = true).
Proof.
  unfold resp_close. destruct (send_headers h r fs) as [[[x0 r0] fs0] ev0] eqn:E0.
  destruct (send_headers_acct _ _ _ _ _ _ _ E0) as (A0 & F0 & Hh). change (frame r r0) in F0.
  destruct x0.
  { intros H. injection H as <- <- <- <-. split; [exact A0|]. split; [exact F0|]. discriminate. }
  destruct (r_chunked r0).
  - destruct (sockop _ fs0) as [[x2 fs2] e2] eqn:E2. intros H. injection H as <- <- <- <-.
    split; [|split; [exact F0|intros _; apply Hh; reflexivity]].
    eapply acct_trans; [exact A0|]. rewrite <- (add_sent_0 r0) at 2.
    eapply acct_sock_data; [exact E2|..]; intros f; cbn; try reflexivity; exact I.
  - intros H. injection H as <- <- <- <-. split; [exact A0|]. split; [exact F0|exact Hh].
Qed.

Lemma start_response_spec h r code clen r1 :
  start_response h r code clen = Some r1 ->
  r_status r = None /\ r_status r1 = Some code /\ r_clen r1 = clen /\ r_must_close r1 = r_must_close r
  /\ r_hsent r1 = r_hsent r /\ r_sent r1 = r_sent r.
Proof.
  unfold start_response. destruct (r_status r); [discriminate|]. intros H. injection H as <-. cbn. repeat split.
Qed.

Lemma acct_start h r code clen r1 x : start_response h r code clen = Some r1 -> acct r r1 x [].
Proof.
  intros H. apply start_response_spec in H as (S0 & S1 & S2 & S3 & S4 & S5).
  constructor; cbn; try assumption; try discriminate; try (intros _; reflexivity).
  - rewrite S4. tauto.
  - rewrite S5. lia.
  - intros c Hc. rewrite S0 in Hc. discriminate.
  - constructor.
Qed.

Lemma run_call_acct h : forall acts r fs p r1 fs1 e1,
  run_call h r acts fs = (p, r1, fs1, e1) ->
  acct r r1 (match p with PRaised e => Some e | _ => None end) e1.
Proof.
  induction acts as [|a t IH]; intros r fs p r1 fs1 e1; cbn [run_call].
  - intros H. injection H as <- <- <- <-. apply acct_refl.
  - destruct a as [code clen|d|e|].
    + destruct (start_response h r code clen) as [r0|] eqn:Es.
      * intros E. apply IH in E. change e1 with ([] ++ e1). eapply acct_trans; [eapply acct_start; exact Es|exact E].
      * intros H. injection H as <- <- <- <-. apply acct_refl.
    + destruct (resp_write h r d fs) as [[[x0 r0] fs0] ev0] eqn:E0.
      destruct (resp_write_acct _ _ _ _ _ _ _ _ E0) as [A0 _]. destruct x0 as [e0|].
      * intros H. injection H as <- <- <- <-. exact A0.
      * destruct (run_call h r0 t fs0) as [[[p2 r2] fs2] e2] eqn:E2. intros H. injection H as <- <- <- <-.
        eapply acct_trans; [exact A0|]. eapply IH. exact E2.
    + intros H. injection H as <- <- <- <-. apply acct_refl.
    + intros H. injection H as <- <- <- <-. apply acct_refl.
Qed.

Lemma run_iter_acct h : forall acts r fs x r1 fs1 e1,
  run_iter h r acts fs = (x, r1, fs1, e1) -> acct r r1 x e1.
Proof.
  induction acts as [|a t IH]; intros r fs x r1 fs1 e1; cbn [run_iter].
  - intros H. injection H as <- <- <- <-. apply acct_refl.
  - destruct a as [code clen|d|e|].
    + destruct (start_response h r code clen) as [r0|] eqn:Es.
      * intros E. apply IH in E. change e1 with ([] ++ e1). eapply acct_trans; [eapply acct_start; exact Es|exact E].
      * intros H. injection H as <- <- <- <-. apply acct_refl.
    + destruct (resp_write h r d fs) as [[[x0 r0] fs0] ev0] eqn:E0.
      destruct (resp_write_acct _ _ _ _ _ _ _ _ E0) as [A0 _]. destruct x0 as [e0|].
      * intros H. injection H as <- <- <- <-. exact A0.
      * destruct (run_iter h r0 t fs0) as [[[x2 r2] fs2] e2] eqn:E2. intros H. injection H as <- <- <- <-.
        eapply acct_trans; [exact A0|]. eapply IH. exact E2.
    + destruct (is_stopiter (x_cls e)); intros H; injection H as <- <- <- <-; apply acct_refl.
    + apply IH.
Qed.

Lemma serve_acct c h r0 a fs logged x r fs1 body :
  serve c h r0 a fs = (logged, x, r, fs1, body) ->
  acct r0 r x body /\ (x = None -> logged = true /\ r_hsent r = true) /\ (logged = false -> x <> None).
Proof.
  unfold serve.
  destruct (run_call h r0 (a_acts a) fs) as [[[p r1] fsa] ea] eqn:E1.
  pose proof (run_call_acct _ _ _ _ _ _ _ _ E1) as A1.
  assert (Body : forall rest, (match p with PRaised e => Some e | _ => None end) = None ->
      (let '(x2, r2, fs2, e2) :=
          match a_file a with
          | Some fl => resp_write_file c h r1 fl fsa
          | None => run_iter h r1 rest fsa
          end in
        let '(x3, r3, fs3, e3) :=
          match x2 with
          | Some e => (Some e, r2, fs2, [])
          | None => resp_close h r2 fs2
          end in
        (true, x3, r3, fs3, ea ++ e2 ++ e3)) = (logged, x, r, fs1, body) ->
      acct r0 r x body /\ (x = None -> logged = true /\ r_hsent r = true) /\ (logged = false -> x <> None)).
  { intros rest Hp. rewrite Hp in A1.
    assert (S2 : forall x2 r2 fs2 e2,
        match a_file a with
        | Some fl => resp_write_file c h r1 fl fsa
        | None => run_iter h r1 rest fsa
        end = (x2, r2, fs2, e2) -> acct r1 r2 x2 e2).
    { intros x2 r2 fs2 e2. destruct (a_file a) as [fl|].
      - intros E. apply (resp_write_file_acct _ _ _ _ _ _ _ _ _ E).
      - apply run_iter_acct. }
    destruct (match a_file a with Some fl => resp_write_file c h r1 fl fsa | None => run_iter h r1 rest fsa end)
      as [[[x2 r2] fs2] e2] eqn:E2.
    pose proof (S2 _ _ _ _ eq_refl) as A2.
    destruct x2 as [e|].
    - intros H. injection H as <- <- <- <- <-. split; [|split; discriminate].
      rewrite app_nil_r. eapply acct_trans; eassumption.
    - destruct (resp_close h r2 fs2) as [[[x3 r3] fs3] e3] eqn:E3.
      destruct (resp_close_acct _ _ _ _ _ _ _ E3) as (A3 & _ & H3).
      intros H. injection H as <- <- <- <- <-. split; [|split].
      + eapply acct_trans; [exact A1|]. eapply acct_trans; eassumption.
      + intros Hx. split; [reflexivity|apply H3; exact Hx].
      + discriminate. }
  destruct p as [|rest|e].
  - apply (Body []). reflexivity.
  - apply (Body rest). reflexivity.
  - intros H. injection H as <- <- <- <- <-. split; [exact A1|]. split; [discriminate|]. intros _. discriminate.
Qed.

(* inversion of handle_request *)
Lemma handle_request_inv w c st h a fs hr st1 fs1 evs :
  handle_request w c st h a fs = (hr, st1, fs1, evs) ->
  (exists e, hr = HExn e /\ st1 = st /\ forallb is_100 evs = true /\ (e = exn_oserror \/ h_create_exn h = Some e))
  \/ (exists e0 fs0 logged x r fsb body lad,
        forallb is_100 e0 = true /\ h_create_exn h = None /\
        st1 = fst (count_request w c st) /\
        serve c h (resp_init (snd (count_request w c st))) a fs0 = (logged, x, r, fsb, body) /\
        evs = e0 ++ EvApp :: body ++ (if logged then [EvAccess (r_status r) (r_sent r)] else []) ++ lad /\
        (match x with
         | Some e => hr_ladder w r e fsb = (hr, fs1, lad)
         | None => match hr_after w h r with
                   | Some hr' => hr = hr' /\ lad = [] /\ fs1 = fsb
                   | None => hr_ladder w r exn_generic fsb = (hr, fs1, lad)
                   end
         end)).
Proof.
  unfold handle_request.
  destruct (send_100 (h_expect h) fs) as [[x0 fs0] ev0] eqn:E0.
  destruct (send_100_post _ _ _ _ _ E0) as [A0 B0].
  destruct x0 as [e0|].
  { intros H. injection H as <- <- <- <-. left. exists e0. repeat split; try assumption. left. apply B0. reflexivity. }
  destruct (h_create_exn h) as [ce|] eqn:Ec.
  { intros H. injection H as <- <- <- <-. left. exists ce. repeat split; try assumption. right. reflexivity. }
  destruct (count_request w c st) as [st' force] eqn:Ecr.
  destruct (serve c h (resp_init force) a fs0) as [[[[logged x] r] fsb] body] eqn:E1.
  cbn zeta. intros H. right.
  assert (Lad : forall e, (let '(hr, fs2, e2) := hr_ladder w r e fsb in
              (hr, st', fs2, (ev0 ++ EvApp :: body ++ (if logged then [EvAccess (r_status r) (r_sent r)] else [])) ++ e2)) = (hr, st1, fs1, evs) ->
      exists lad, st1 = st' /\ hr_ladder w r e fsb = (hr, fs1, lad) /\
                  evs = ev0 ++ EvApp :: body ++ (if logged then [EvAccess (r_status r) (r_sent r)] else []) ++ lad).
  { intros e. destruct (hr_ladder w r e fsb) as [[hr2 fs2] e2]. intros G. injection G as <- <- <- <-.
    exists e2. repeat split. rewrite <- app_assoc. cbn [List.app]. f_equal. f_equal. rewrite <- app_assoc. reflexivity. }
  destruct x as [e|].
  - destruct (Lad _ H) as (lad & -> & HL & ->).
    exists ev0, fs0, logged, (Some e), r, fsb, body, lad. cbn [fst snd]. repeat split; assumption.
  - destruct (hr_after w h r) as [hr'|] eqn:Eh.
    + injection H as <- <- <- <-. exists ev0, fs0, logged, None, r, fsb, body, []. cbn [fst snd]. rewrite Eh.
      repeat split; try assumption. rewrite app_nil_r. reflexivity.
    + destruct (Lad _ H) as (lad & -> & HL & ->).
      exists ev0, fs0, logged, None, r, fsb, body, lad. cbn [fst snd]. rewrite Eh. repeat split; assumption.
Qed.

Lemma hr_ladder_inv w r e fs hr fs1 lad :
  hr_ladder w r e fs = (hr, fs1, lad) ->
  (hr = HExn e /\ lad = [] /\
     ((w = WAsync /\ is_stopiter (x_cls e) = true) \/ is_oserror (x_cls e) = true
      \/ is_exception (x_cls e) = false \/ r_hsent r = false))
  \/ (hr = HExn exn_stop /\ r_hsent r = true /\ is_exception (x_cls e) = true /\ is_oserror (x_cls e) = false
      /\ forallb is_shutclose lad = true).
Proof.
  unfold hr_ladder.
  destruct (match w with WAsync => is_stopiter (x_cls e) | _ => false end) eqn:E1.
  { intros H. injection H as <- <- <-. left. repeat split. left. destruct w; try discriminate. split; [reflexivity|exact E1]. }
  destruct (is_oserror (x_cls e)) eqn:E2.
  { intros H. injection H as <- <- <-. left. repeat split. right. left. reflexivity. }
  destruct (is_exception (x_cls e)) eqn:E3.
  2:{ intros H. injection H as <- <- <-. left. repeat split. right. right. left. reflexivity. }
  destruct (r_hsent r) eqn:E4.
  2:{ intros H. injection H as <- <- <-. left. repeat split. right. right. right. reflexivity. }
  destruct (sockop EvShutdown fs) as [[x0 fs0] ev0] eqn:E0. apply sockop_spec in E0 as (-> & -> & _).
  destruct x0.
  - intros H. injection H as <- <- <-. right. repeat split.
  - destruct (sockop EvClose _) as [[x2 fs2] e2] eqn:E5. apply sockop_spec in E5 as (-> & -> & _).
    intros H. injection H as <- <- <-. right. repeat split.
Qed.

(* facts about the regenerated class table that the ladders rely on *)
Lemma table_facts :
  is_oserror E_OSError = true /\ is_exception E_OSError = true /\ is_stopiter E_OSError = false
  /\ is_sslerror E_OSError = false /\ is_nomoredata E_OSError = false
  /\ is_stopiter E_StopIteration = true /\ is_exception E_StopIteration = true /\ is_nomoredata E_StopIteration = false
  /\ is_exception E_Exception = true /\ is_oserror E_Exception = false /\ is_stopiter E_Exception = false
  /\ is_sslerror E_Exception = false /\ is_nomoredata E_Exception = false
  /\ is_nomoredata E_NoMoreData = true /\ is_exception E_NoMoreData = true.
Proof. repeat split; reflexivity. Qed.

Definition count (f : ev -> bool) (l : list ev) : nat := length (filter f l).
Lemma count_app f l1 l2 : count f (l1 ++ l2) = (count f l1 + count f l2)%nat.
Proof. unfold count. rewrite filter_app, app_length. reflexivity. Qed.
Lemma count_none (f g : ev -> bool) l : forallb g l = true -> (forall e, g e = true -> f e = false) -> count f l = 0%nat.
Proof. intros H K. unfold count. induction l as [|e t IH]; [reflexivity|]. cbn in *. apply andb_prop in H as [H1 H2].
  rewrite (K _ H1). apply IH. exact H2. Qed.
Lemma existsb_none (f g : ev -> bool) l : forallb g l = true -> (forall e, g e = true -> f e = false) -> existsb f l = false.
Proof. intros H K. induction l as [|e t IH]; [reflexivity|]. cbn in *. apply andb_prop in H as [H1 H2].
  rewrite (K _ H1). apply IH. exact H2. Qed.

(* one handle_request: at most one application entry and one record; the counters move iff the application
   was entered; an exception that will reach handle_error leaves no response head on the wire *)
Lemma handle_request_facts w c st h a fs hr st1 fs1 evs :
  handle_request w c st h a fs = (hr, st1, fs1, evs) ->
  forallb is_hr evs = true
  /\ ((count is_app evs = 0%nat /\ st1 = st /\ (exists e, hr = HExn e)) \/ (count is_app evs = 1%nat /\ st1 = fst (count_request w c st)))
  /\ (count is_access evs <= 1)%nat
  /\ (forall e, hr = HExn e -> Forall (fun x => is_exception (x_cls x) = true) (app_exns a) ->
        is_stopiter (x_cls e) = false -> is_oserror (x_cls e) = false -> existsb ok_hdr evs = false).
Proof.
  intros H.
  assert (Hhr : forallb is_hr evs = true).
  { refine (proj1 (handle_request_post (fun _ => True) I I I _ _ _ _ _ _ _ _ _ _ _ _ H)).
    - unfold head_exns. destruct (h_create_exn h); repeat constructor.
    - apply Forall_forall. intros; exact I. }
  split; [exact Hhr|].
  destruct (handle_request_inv _ _ _ _ _ _ _ _ _ _ H) as
      [(e & -> & -> & A & Ho)|(e0 & fs0 & logged & x & r & fsb & body & lad & A0 & Hc & -> & Es & -> & Hl)].
  - assert (N1 : count is_app evs = 0%nat) by (eapply count_none; [exact A|]; intros [] ; cbn; congruence).
    assert (N2 : count is_access evs = 0%nat) by (eapply count_none; [exact A|]; intros [] ; cbn; congruence).
    split; [left; repeat split; [exact N1|eexists; reflexivity]|]. split; [rewrite N2; lia|].
    intros e' He _ _ _. eapply existsb_none; [exact A|]. intros [] ; cbn; congruence.
  - destruct (serve_post (fun _ => True) I I _ _ _ _ _ _ _ _ _ _ (proj2 (Forall_forall _ _) (fun _ _ => I)) Es) as [Ab _].
    destruct (serve_acct _ _ _ _ _ _ _ _ _ _ Es) as (Ac & Hn & Hlg).
    assert (Alad : forallb is_shutclose lad = true).
    { destruct x as [e|].
      - destruct (hr_ladder_inv _ _ _ _ _ _ _ Hl) as [(_ & -> & _)|(_ & _ & _ & _ & K)]; [reflexivity|exact K].
      - destruct (hr_after w h r).
        + destruct Hl as (_ & -> & _). reflexivity.
        + destruct (hr_ladder_inv _ _ _ _ _ _ _ Hl) as [(_ & -> & _)|(_ & _ & _ & _ & K)]; [reflexivity|exact K]. }
    assert (C1 : count is_app e0 = 0%nat) by (eapply count_none; [exact A0|]; intros [] ; cbn; congruence).
    assert (C2 : count is_app body = 0%nat) by (eapply count_none; [exact Ab|]; intros [] ; cbn; congruence).
    assert (C3 : count is_app lad = 0%nat) by (eapply count_none; [exact Alad|]; intros [] ; cbn; congruence).
    assert (D1 : count is_access e0 = 0%nat) by (eapply count_none; [exact A0|]; intros [] ; cbn; congruence).
    assert (D2 : count is_access body = 0%nat) by (eapply count_none; [exact Ab|]; intros [] ; cbn; congruence).
    assert (D3 : count is_access lad = 0%nat) by (eapply count_none; [exact Alad|]; intros [] ; cbn; congruence).
    split; [right; split; [|reflexivity]|split].
    + rewrite count_app. change (EvApp :: ?l) with ([EvApp] ++ l). rewrite !count_app, C1, C2, C3.
      destruct logged; reflexivity.
    + rewrite count_app. change (EvApp :: ?l) with ([EvApp] ++ l). rewrite !count_app, D1, D2, D3.
      destruct logged; cbn; lia.
    + intros e' He Hex Hs Ho.
      assert (H0 : existsb ok_hdr e0 = false) by (eapply existsb_none; [exact A0|]; intros [] ; cbn; congruence).
      assert (Hclean : r_hsent r = false -> lad = [] ->
                existsb ok_hdr (e0 ++ EvApp :: body ++ (if logged then [EvAccess (r_status r) (r_sent r)] else []) ++ lad) = false).
      { intros Hh ->. rewrite existsb_app, H0. cbn [existsb ok_hdr orb]. rewrite !existsb_app.
        destruct (existsb ok_hdr body) eqn:Eb.
        - rewrite (ac_hs_ev _ _ _ _ Ac Eb) in Hh. discriminate.
        - destruct logged; reflexivity. }
      destruct table_facts as (T1 & T2 & T3 & T4 & T5 & T6 & T7 & T8 & T9 & T10 & T11 & T12 & T13 & T14 & T15).
      assert (LadCase : forall e, is_exception (x_cls e) = true -> hr_ladder w r e fsb = (HExn e', fs1, lad) ->
                 existsb ok_hdr (e0 ++ EvApp :: body ++ (if logged then [EvAccess (r_status r) (r_sent r)] else []) ++ lad) = false).
      { intros e Hexc HL. destruct (hr_ladder_inv _ _ _ _ _ _ _ HL) as [(Heq & Hlad & Hcase)|(Heq & _)].
        - injection Heq as <-. destruct Hcase as [[_ K]|[K|[K|K]]]; try congruence. apply Hclean; assumption.
        - injection Heq as Heq. subst e'. cbn in Hs. congruence. }
      subst hr. destruct x as [e|].
      * apply (LadCase e); [|exact Hl].
        destruct (serve_post (fun x => is_exception (x_cls x) = true) T2 T9 _ _ _ _ _ _ _ _ _ _ Hex Es) as [_ K].
        apply K. reflexivity.
      * destruct (hr_after w h r) as [hr'|] eqn:Eh.
        -- destruct Hl as (Heq & _ & _). subst hr'. unfold hr_after in Eh.
           destruct w; try discriminate; destruct (should_close h r) as [[|]|]; try discriminate.
           injection Eh as Eh. subst e'. cbn in Hs. congruence.
        -- apply (LadCase exn_generic); [exact T9|exact Hl].
Qed.
