(* What util.write_chunk puts on the wire for a sequence of non-empty pieces, followed by the terminating
   chunk of Response.close, is read back by the strict chunked reader as exactly the concatenation of the pieces. *)
From Coq Require Import List NArith Bool Lia Arith.
From GV Require Import Base.Enc Base.Dec Gen.GenErrors Model.Handle Spec.ErrResp Spec.Chunked Proof.ErrRespProofs.
Import ListNotations.
Local Open Scope N_scope.

Lemma hexval_digit d : d < 16 -> hexval (hexdigit d) = Some d.
Proof.
  intros H. unfold hexval, hexdigit.
  destruct (d <? 10) eqn:E.
  - apply N.ltb_lt in E. replace ((48 <=? 48 + d) && (48 + d <=? 57)) with true. { f_equal. lia. }
    symmetry. apply andb_true_intro. split; apply N.leb_le; lia.
  - apply N.ltb_ge in E. replace ((48 <=? 55 + d) && (55 + d <=? 57)) with false.
    2:{ symmetry. apply andb_false_intro2. apply N.leb_gt. lia. }
    replace ((65 <=? 55 + d) && (55 + d <=? 70)) with true. { f_equal. lia. }
    symmetry. apply andb_true_intro. split; apply N.leb_le; lia.
Qed.

Lemma size_div16 n : 16 <= n -> (N.to_nat (N.size (n / 16)) < N.to_nat (N.size n))%nat.
Proof.
  intros H. assert (Hs : N.size (n / 16) < N.size n).
  { rewrite (N.size_log2 n) by lia.
    destruct (N.eq_dec (n / 16) 0) as [E|E].
    - rewrite E. cbn. lia.
    - rewrite (N.size_log2 (n / 16)) by exact E. apply -> N.succ_lt_mono.
      change 16 with (2 ^ 4). rewrite <- N.shiftr_div_pow2, N.log2_shiftr.
      assert (4 <= N.log2 n) by (change 4 with (N.log2 16); apply N.log2_le_mono; exact H). lia. }
  lia.
Qed.

Lemma hex_aux_spec : forall fuel n acc a,
    (N.to_nat (N.size n) <= fuel)%nat ->
    exists k, hex_decode_from a (hex_aux fuel n acc) = hex_decode_from (a * 16 ^ k + n) acc.
Proof.
  induction fuel as [|f IH]; intros n acc a Hf.
  - assert (n = 0) by (destruct n; [reflexivity|cbn in Hf; lia]). subst. exists 1. cbn. f_equal; lia.
  - cbn [hex_aux]. destruct (n <? 16) eqn:E.
    + apply N.ltb_lt in E. exists 1. cbn [hex_decode_from]. rewrite hexval_digit by lia. f_equal; lia.
    + apply N.ltb_ge in E. pose proof (size_div16 n E) as Hsz.
      destruct (IH (n / 16) (hexdigit (n mod 16) :: acc) a ltac:(lia)) as [k Hk].
      exists (N.succ k). rewrite Hk. cbn [hex_decode_from].
      assert (Hm : n mod 16 < 16) by (apply N.mod_lt; lia). rewrite hexval_digit by exact Hm.
      f_equal. rewrite N.pow_succ_r'. pose proof (N.div_mod' n 16). nia.
Qed.

Lemma hex_aux_nonempty : forall fuel n acc, hex_aux fuel n acc <> [].
Proof. induction fuel as [|f IH]; intros n acc; cbn; [discriminate|]. destruct (n <? 16); [discriminate|apply IH]. Qed.

Theorem hex_roundtrip n : hex_decode (hex_upper n) = Some n.
Proof.
  unfold hex_decode, hex_upper.
  destruct (hex_aux_spec (N.to_nat (N.size n)) n [] 0 (le_n _)) as [k Hk].
  destruct (hex_aux _ n []) eqn:E; [exfalso; eapply hex_aux_nonempty; exact E|].
  rewrite Hk. cbn. f_equal; lia.
Qed.

Definition not_cr (c : N) : bool := negb (c =? 13).
Lemma hexdigit_not_cr d : d < 16 -> not_cr (hexdigit d) = true.
Proof. intros H. unfold not_cr, hexdigit. destruct (d <? 10); apply negb_true_iff, N.eqb_neq; lia. Qed.

Lemma hex_aux_not_cr : forall fuel n acc, forallb not_cr acc = true -> forallb not_cr (hex_aux fuel n acc) = true.
Proof.
  induction fuel as [|f IH]; intros n acc H; cbn [hex_aux].
  - cbn [forallb]. rewrite H, hexdigit_not_cr; [reflexivity|apply N.mod_lt; lia].
  - destruct (n <? 16) eqn:E.
    + apply N.ltb_lt in E. cbn [forallb]. rewrite H, hexdigit_not_cr; [reflexivity|exact E].
    + apply IH. cbn [forallb]. rewrite H, hexdigit_not_cr; [reflexivity|apply N.mod_lt; lia].
Qed.

Lemma read_size_frame n rest : read_size (hex_upper n ++ CRLF ++ rest) = Some (n, rest).
Proof.
  unfold read_size, CRLF. cbn [List.app].
  rewrite split_on_app by (apply (hex_aux_not_cr _ _ []); reflexivity).
  rewrite hex_roundtrip. reflexivity.
Qed.

Lemma firstn_len d rest : firstn (N.to_nat (len d)) (d ++ rest) = d.
Proof. unfold len. rewrite Nat2N.id. rewrite firstn_app, Nat.sub_diag, firstn_all. cbn. apply app_nil_r. Qed.
Lemma skipn_len d rest : skipn (N.to_nat (len d)) (d ++ rest) = rest.
Proof. unfold len. rewrite Nat2N.id. rewrite skipn_app, Nat.sub_diag, skipn_all. reflexivity. Qed.

Lemma dechunk_frame fuel d rest : d <> [] ->
  dechunk_go (S fuel) (chunk_frame d ++ rest) = match dechunk_go fuel rest with Some b => Some (d ++ b) | None => None end.
Proof.
  intros Hd. unfold chunk_frame. cbn [dechunk_go]. rewrite <- !app_assoc. rewrite read_size_frame.
  assert (len d =? 0 = false) as ->.
  { apply N.eqb_neq. unfold len. destruct d; [contradiction|cbn; lia]. }
  rewrite firstn_len, skipn_len.
  assert (Nat.ltb (length d) (N.to_nat (len d)) = false) as -> by (unfold len; rewrite Nat2N.id; apply Nat.ltb_irrefl).
  reflexivity.
Qed.

Lemma dechunk_last fuel : dechunk_go (S fuel) (chunk_frame []) = Some [].
Proof. reflexivity. Qed.

Lemma dechunk_frames : forall ds fuel, Forall (fun d => d <> []) ds -> (length ds < fuel)%nat ->
  dechunk_go fuel (flat_map chunk_frame ds ++ chunk_frame []) = Some (concat ds).
Proof.
  induction ds as [|d t IH]; intros fuel Hne Hf.
  - destruct fuel; [cbn in Hf; lia|]. apply dechunk_last.
  - destruct fuel; [cbn in Hf; lia|]. inversion Hne as [|? ? Hd Ht]; subst. cbn [flat_map concat]. rewrite <- app_assoc.
    rewrite dechunk_frame by exact Hd. rewrite IH; [reflexivity|exact Ht|cbn in Hf; lia].
Qed.

Lemma chunk_frame_len d : (1 <= length (chunk_frame d))%nat.
Proof. unfold chunk_frame, CRLF. rewrite !app_length. cbn. lia. Qed.

(* the chunked body written for the non-empty pieces ds and closed by Response.close decodes to their
   concatenation, with nothing left over *)
Theorem chunked_wire_decodes ds : Forall (fun d => d <> []) ds ->
  dechunk (flat_map chunk_frame ds ++ chunk_frame []) = Some (concat ds).
Proof.
  intros H. unfold dechunk. apply dechunk_frames; [exact H|].
  rewrite app_length. pose proof (chunk_frame_len []) as L0.
  assert (length ds <= length (flat_map chunk_frame ds))%nat.
  { clear. induction ds as [|d t IH]; [cbn; lia|]. cbn [flat_map length]. rewrite app_length. pose proof (chunk_frame_len d). lia. }
  lia.
Qed.
