(* Connection-level invariants of Model/Handle.v (C05, and the counter facts used by C18/C19). *)
From Coq Require Import List NArith ZArith Bool Lia.
From GV Require Import Base.Enc Base.Dec Gen.GenErrors Model.Handle Proof.HandleProofs.
Import ListNotations.
Local Open Scope N_scope.

(* ---------------------------------------------------------------------------------------------- *)
(* what follows the last parser event: handle_error / the ladder                                    *)
(* ---------------------------------------------------------------------------------------------- *)
Definition tail_shape (evs : list ev) : Prop :=
  exists acc errs, evs = acc ++ errs
    /\ (acc = [] \/ exists st, acc = [EvAccess (Some st) 0])
    /\ (errs = [] \/ (exists f, errs = [EvClose f])
        \/ exists c t page f, errs = [EvErr page f] /\ error_page (he_status c) (he_reason c) t = Some page).

Lemma tail_shape_nil : tail_shape [].
Proof. exists [], []. repeat split; left; reflexivity. Qed.

Lemma handle_error_inv req e fs fs1 evs : handle_error req e fs = (fs1, evs) -> tail_shape evs.
Proof.
  unfold handle_error.
  set (acc := if req || (he_adopts_req (x_cls e) && x_req e) then [EvAccess (Some (he_status (x_cls e))) 0] else []).
  assert (Hacc : acc = [] \/ exists st, acc = [EvAccess (Some st) 0]).
  { unfold acc. destruct (req || _); [right; eexists; reflexivity|left; reflexivity]. }
  destruct (error_page _ _ _) as [page|] eqn:Ep.
  - destruct (sockop (EvErr page) fs) as [[x fs'] ev0] eqn:E. apply sockop_spec in E as (-> & -> & _).
    intros H. injection H as <- <-. exists acc, [EvErr page (fst (pop fs))]. split; [reflexivity|]. split; [exact Hacc|].
    right. right. exists (x_cls e), (error_mesg e), page, (fst (pop fs)). split; [reflexivity|exact Ep].
  - intros H. injection H as <- <-. exists acc, []. split; [rewrite app_nil_r; reflexivity|]. split; [exact Hacc|left; reflexivity].
Qed.

Lemma tail_shape_is_tail evs : tail_shape evs -> forallb is_tail evs = true.
Proof.
  intros (acc & errs & -> & Ha & He). rewrite forallb_app. apply andb_true_intro. split.
  - destruct Ha as [->|[st ->]]; reflexivity.
  - destruct He as [->|[[f ->]|(c & t & page & f & -> & _)]]; reflexivity.
Qed.

Lemma top_ladder_inv w req e fs x fs1 evs :
  top_ladder w req e fs = (x, fs1, evs) ->
  tail_shape evs
  /\ (existsb is_err evs = true ->
        is_stopiter (x_cls e) = false /\ is_nomoredata (x_cls e) = false
        /\ (is_oserror (x_cls e) = false \/ is_sslerror (x_cls e) = true))
  /\ (forall e', x = Some e' ->
        (is_sslerror (x_cls e) = true /\ x_ssl_eof e = true)
        \/ (w = WGthread /\ e' = e /\ is_exception (x_cls e) = false /\ evs = [])).
Proof.
  unfold top_ladder.
  destruct (is_nomoredata (x_cls e)) eqn:E1.
  { intros H. injection H as <- <- <-. split; [apply tail_shape_nil|]. split; [discriminate|discriminate]. }
  destruct (is_stopiter (x_cls e)) eqn:E2.
  { intros H. injection H as <- <- <-. split; [apply tail_shape_nil|]. split; [discriminate|discriminate]. }
  destruct (is_sslerror (x_cls e)) eqn:E3.
  { destruct (x_ssl_eof e) eqn:E4.
    - destruct (sockop EvClose fs) as [[x0 fs0] ev0] eqn:E. apply sockop_spec in E as (-> & -> & _).
      intros H. injection H as <- <- <-. split; [|split].
      + exists [], [EvClose (fst (pop fs))]. repeat split; [left; reflexivity|]. right. left. eexists. reflexivity.
      + discriminate.
      + intros e' _. left. split; reflexivity.
    - destruct (handle_error req e fs) as [fs2 e2] eqn:E. intros H. injection H as <- <- <-.
      split; [eapply handle_error_inv; exact E|]. split; [|discriminate]. intros _. repeat split. right. reflexivity. }
  destruct (is_oserror (x_cls e)) eqn:E5.
  { intros H. injection H as <- <- <-. split; [apply tail_shape_nil|]. split; [discriminate|discriminate]. }
  assert (G : (let '(fs1, e1) := handle_error req e fs in (@None exn, fs1, e1)) = (x, fs1, evs) ->
     tail_shape evs
     /\ (existsb is_err evs = true -> false = false /\ false = false /\ (false = false \/ false = true))
     /\ (forall e', x = Some e' -> (false = true /\ x_ssl_eof e = true)
          \/ (w = WGthread /\ e' = e /\ is_exception (x_cls e) = false /\ evs = []))).
  { destruct (handle_error req e fs) as [fs2 e2] eqn:E. intros H. injection H as <- <- <-.
    split; [eapply handle_error_inv; exact E|]. split; [|discriminate]. intros _. repeat split. left. reflexivity. }
  destruct w; try exact G.
  destruct (is_exception (x_cls e)) eqn:E6; [exact G|].
  intros H. injection H as <- <- <-. split; [apply tail_shape_nil|]. split; [discriminate|].
  intros e' He. injection He as <-. right. repeat split.
Qed.

(* ---------------------------------------------------------------------------------------------- *)
(* trace checkers                                                                                   *)
(* ---------------------------------------------------------------------------------------------- *)
(* dispatch discipline: an application entry needs its own accepted head; after a rejected head (or the
   keep-alive timeout) nothing is parsed or dispatched any more *)
Inductive dstate := DIdle | DPermit | DDead.
Fixpoint disp_ok (s : dstate) (l : list ev) : bool :=
  match l with
  | [] => true
  | e :: t =>
      if is_reject e then match s with DDead => false | _ => disp_ok DDead t end
      else if is_headev e then match s with DDead => false | _ => disp_ok DPermit t end
      else if is_app e then match s with DPermit => disp_ok DIdle t | _ => false end
      else disp_ok s t
  end.

(* an error page is the last thing written, and there is at most one *)
Fixpoint err_ok (seen : bool) (l : list ev) : bool :=
  match l with
  | [] => true
  | e :: t => if seen then is_close e && err_ok true t else err_ok (is_err e) t
  end.

(* an error page is never appended to a response whose head already went out *)
Fixpoint clean_ok (dirty : bool) (l : list ev) : bool :=
  match l with
  | [] => true
  | e :: t =>
      if is_err e then negb dirty && clean_ok dirty t
      else if is_parse e then clean_ok false t
      else clean_ok (dirty || ok_hdr e) t
  end.

Definition neutral (e : ev) : bool := negb (is_app e) && negb (is_parse e).

Lemma disp_neutral s l : forallb neutral l = true -> forall rest, disp_ok s (l ++ rest) = disp_ok s rest.
Proof.
  induction l as [|e t IH]; intros H rest; [reflexivity|]. cbn in H. apply andb_prop in H as [H1 H2].
  unfold neutral, is_parse in H1. apply andb_prop in H1 as [Ha Hp]. apply negb_true_iff in Ha, Hp.
  apply orb_false_iff in Hp as [Hh Hr]. cbn [List.app disp_ok]. rewrite Hr, Hh, Ha. apply IH. exact H2.
Qed.

Lemma disp_neutral_true s l : forallb neutral l = true -> disp_ok s l = true.
Proof. intros H. rewrite <- (app_nil_r l). rewrite disp_neutral by exact H. reflexivity. Qed.

Lemma is_hr_cases e : is_hr e = true -> is_app e = true \/ neutral e = true.
Proof. destruct e; cbn; intros H; try discriminate; auto. Qed.

Lemma is_tail_neutral e : is_tail e = true -> neutral e = true.
Proof. destruct e; cbn; intros H; try discriminate; reflexivity. Qed.

(* the events of one handle_request, started with the permit of its head *)
Lemma disp_hr : forall l rest R,
  forallb is_hr l = true ->
  disp_ok DPermit rest = R -> disp_ok DIdle rest = R ->
  ((count is_app l <= 1)%nat -> disp_ok DPermit (l ++ rest) = R)
  /\ (count is_app l = 0%nat -> disp_ok DIdle (l ++ rest) = R).
Proof.
  induction l as [|e t IH]; intros rest R H HP HI.
  - split; intros _; assumption.
  - cbn in H. apply andb_prop in H as [H1 H2]. destruct (IH rest R H2 HP HI) as [IH1 IH2].
    destruct (is_hr_cases e H1) as [Ha|Hn].
    + destruct e; try discriminate Ha. unfold count. cbn [filter is_app length List.app disp_ok is_reject is_headev].
      split; intros Hc; [|discriminate]. apply IH2. unfold count. lia.
    + unfold neutral, is_parse in Hn. apply andb_prop in Hn as [Ha Hp]. apply negb_true_iff in Ha, Hp.
      apply orb_false_iff in Hp as [Hh Hr]. unfold count. cbn [filter List.app disp_ok]. rewrite Ha, Hr, Hh.
      split; intros Hc; [apply IH1|apply IH2]; exact Hc.
Qed.

Lemma err_ok_noerr b l rest : forallb (fun e => negb (is_err e)) l = true -> b = false ->
  err_ok b (l ++ rest) = err_ok false rest.
Proof.
  intros H ->. induction l as [|e t IH]; [reflexivity|]. cbn in H. apply andb_prop in H as [H1 H2].
  apply negb_true_iff in H1. cbn [List.app err_ok]. rewrite H1. apply IH. exact H2.
Qed.

Lemma err_ok_close b l f : err_ok b l = true -> err_ok b (l ++ [EvClose f]) = true.
Proof.
  revert b. induction l as [|e t IH]; intros b H.
  - cbn. destruct b; reflexivity.
  - cbn [List.app err_ok] in *. destruct b.
    + apply andb_prop in H as [H1 H2]. rewrite H1. cbn. apply IH. exact H2.
    + apply IH. exact H.
Qed.

Lemma tail_err_ok evs : tail_shape evs -> err_ok false evs = true.
Proof.
  intros (acc & errs & -> & Ha & He).
  destruct Ha as [->|[st ->]]; destruct He as [->|[[f ->]|(c & t & page & f & -> & _)]]; reflexivity.
Qed.

Lemma is_hr_noerr l : forallb is_hr l = true -> forallb (fun e => negb (is_err e)) l = true.
Proof. apply forallb_impl. intros []; cbn; congruence. Qed.

Lemma clean_hr : forall l d rest,
  forallb is_hr l = true -> clean_ok d (l ++ rest) = clean_ok (d || existsb ok_hdr l) rest.
Proof.
  induction l as [|e t IH]; intros d rest H.
  - cbn. rewrite orb_false_r. reflexivity.
  - cbn in H. apply andb_prop in H as [H1 H2]. cbn [List.app clean_ok existsb].
    assert (is_err e = false /\ is_parse e = false) as [-> ->] by (destruct e; cbn in *; try discriminate; split; reflexivity).
    rewrite IH by exact H2. rewrite orb_assoc. reflexivity.
Qed.

Lemma clean_tail d evs : tail_shape evs -> (existsb is_err evs = true -> d = false) -> clean_ok d evs = true.
Proof.
  intros (acc & errs & -> & Ha & He) Hd.
  destruct Ha as [->|[st ->]]; destruct He as [->|[[f ->]|(c & t & page & f & -> & _)]]; cbn in *;
    try reflexivity; rewrite Hd by reflexivity; reflexivity.
Qed.

Lemma clean_close d l f : clean_ok d l = true -> clean_ok d (l ++ [EvClose f]) = true.
Proof.
  revert d. induction l as [|e t IH]; intros d H; [reflexivity|]. cbn [List.app clean_ok] in *.
  destruct (is_err e).
  - apply andb_prop in H as [H1 H2]. rewrite H1. cbn. apply IH. exact H2.
  - destruct (is_parse e); apply IH; exact H.
Qed.

Lemma disp_close s l f : disp_ok s l = true -> disp_ok s (l ++ [EvClose f]) = true.
Proof.
  revert s. induction l as [|e t IH]; intros s H; [reflexivity|]. cbn [List.app disp_ok] in *.
  destruct (is_reject e); [destruct s; try discriminate; apply IH; exact H|].
  destruct (is_headev e); [destruct s; try discriminate; apply IH; exact H|].
  destruct (is_app e); [destruct s; try discriminate; apply IH; exact H|].
  apply IH. exact H.
Qed.

(* ---------------------------------------------------------------------------------------------- *)
(* hypotheses on the oracles                                                                        *)
(* ---------------------------------------------------------------------------------------------- *)
(* TLS is not modelled: no oracle exception is an SSLError; for the thread worker, whose ladder ends in
   `except Exception`, every oracle exception is an Exception *)
Definition exn_ok (w : wkind) (e : exn) : Prop :=
  is_sslerror (x_cls e) = false /\ (w = WGthread -> is_exception (x_cls e) = true).
Definition app_exn_ok (e : exn) : Prop := is_exception (x_cls e) = true /\ is_sslerror (x_cls e) = false.

Definition apps_exns (apps : list app) : list exn := flat_map app_exns apps.
Definition pouts_exns (ps : list pout) : list exn := flat_map pout_exns ps.

Lemma builtin_exn_ok w : exn_ok w exn_oserror /\ exn_ok w exn_stop /\ exn_ok w exn_generic /\ exn_ok w exn_nomoredata.
Proof. repeat split; reflexivity. Qed.
Lemma builtin_app_exn_ok : app_exn_ok exn_oserror /\ app_exn_ok exn_stop /\ app_exn_ok exn_generic /\ app_exn_ok exn_nomoredata.
Proof. repeat split; reflexivity. Qed.

(* ---------------------------------------------------------------------------------------------- *)
(* one request, the loop                                                                            *)
(* ---------------------------------------------------------------------------------------------- *)
Definition starts_parse (l : list ev) : Prop := exists p t, l = p :: t /\ is_parse p = true.

Record loop_post (w : wkind) (x : option exn) (evs : list ev) : Prop := {
  lp_start : starts_parse evs;
  lp_disp : disp_ok DIdle evs = true;
  lp_err : err_ok false evs = true;
}.

Lemma disp_start s evs : starts_parse evs -> s <> DDead -> disp_ok s evs = disp_ok DIdle evs.
Proof.
  intros (p & t & -> & Hp) Hs. unfold is_parse in Hp. cbn [disp_ok].
  destruct (is_reject p); [destruct s; try reflexivity; contradiction|].
  destruct (is_headev p); [destruct s; try reflexivity; contradiction|]. discriminate.
Qed.

Lemma clean_start d evs : starts_parse evs -> clean_ok d evs = clean_ok false evs.
Proof.
  intros (p & t & -> & Hp). cbn [clean_ok]. rewrite Hp.
  assert (is_err p = false) as -> by (destruct p; cbn in *; try discriminate; reflexivity). reflexivity.
Qed.

Lemma err_start_false evs : starts_parse evs -> True. Proof. trivial. Qed.

Section Loop.
  Variable w : wkind.
  Variable c : cfg.

  (* a request that ends the connection *)
  Lemma done_head_post st h a fs hr st1 fs1 e1 x fs2 e2 :
    handle_request w c st h a fs = (hr, st1, fs1, e1) ->
    (match hr with
     | HExn e => top_ladder w true e fs1 = (x, fs2, e2)
     | HRet _ => x = None /\ e2 = []
     end) ->
    disp_ok DIdle (EvHead :: e1 ++ e2) = true /\ err_ok false (EvHead :: e1 ++ e2) = true.
  Proof.
    intros H HT. destruct (handle_request_facts _ _ _ _ _ _ _ _ _ _ H) as (Hhr & Hcnt & _ & _).
    assert (T : tail_shape e2).
    { destruct hr as [ka|e]; [destruct HT as [_ ->]; apply tail_shape_nil|]. apply (top_ladder_inv _ _ _ _ _ _ _ HT). }
    pose proof (tail_shape_is_tail _ T) as Tt.
    assert (Tn : forallb neutral e2 = true) by (eapply forallb_impl; [apply is_tail_neutral|exact Tt]).
    split.
    - cbn [disp_ok is_reject is_headev].
      destruct (disp_hr e1 e2 true Hhr (disp_neutral_true _ _ Tn) (disp_neutral_true _ _ Tn)) as [D1 _].
      apply D1. destruct Hcnt as [(-> & _)|(-> & _)]; lia.
    - cbn [err_ok is_err]. rewrite err_ok_noerr; [|apply is_hr_noerr; exact Hhr|reflexivity]. apply tail_err_ok. exact T.
  Qed.

  Lemma one_request_cont st p apps fs st1 apps1 fs1 e1 :
    one_request w c st p apps fs = Cont st1 apps1 fs1 e1 ->
    exists h hrevs k, p = PHead h /\ e1 = EvHead :: hrevs ++ k /\ forallb is_hr hrevs = true
      /\ (count is_app hrevs <= 1)%nat /\ (k = [] \/ k = [EvKeep])
      /\ exists ka, handle_request w c st h (fst (next_app apps)) fs = (HRet ka, st1, fs1, hrevs) /\ apps1 = snd (next_app apps).
  Proof.
    unfold one_request. destruct p as [h|e|].
    - destruct (next_app apps) as [a apps'] eqn:Ea.
      destruct (handle_request w c st h a fs) as [[[hr st'] fs'] ev'] eqn:E.
      destruct (handle_request_facts _ _ _ _ _ _ _ _ _ _ E) as (Hhr & Hcnt & _ & _).
      assert (Hc : (count is_app ev' <= 1)%nat) by (destruct Hcnt as [(-> & _)|(-> & _)]; lia).
      destruct hr as [ka|e].
      + destruct w.
        * discriminate.
        * destruct (ka && w_alive st'); [|discriminate]. intros H. injection H as <- <- <- <-.
          exists h, ev', [EvKeep]. repeat split; try assumption; [right; reflexivity|]. exists ka. split; [exact E|reflexivity].
        * destruct (c_keepalive c); [|discriminate]. intros H. injection H as <- <- <- <-.
          exists h, ev', []. rewrite app_nil_r. repeat split; try assumption; [left; reflexivity|]. exists ka. split; [exact E|reflexivity].
      + destruct (top_ladder w true e fs') as [[x fs2] e2]. discriminate.
    - destruct (top_ladder w false e fs) as [[x fs2] e2]. discriminate.
    - destruct w; [|discriminate|destruct (c_keepalive c); [discriminate|]];
        destruct (top_ladder _ false exn_generic fs) as [[x fs2] e2]; discriminate.
  Qed.

  Lemma one_request_done st p apps fs x st1 fs1 e1 :
    one_request w c st p apps fs = Done x st1 fs1 e1 ->
    starts_parse e1 /\ disp_ok DIdle e1 = true /\ err_ok false e1 = true.
  Proof.
    unfold one_request. destruct p as [h|e|].
    - destruct (next_app apps) as [a apps'] eqn:Ea.
      destruct (handle_request w c st h a fs) as [[[hr st'] fs'] ev'] eqn:E.
      assert (SP : forall l, starts_parse (EvHead :: l)) by (intros l; exists EvHead, l; split; reflexivity).
      destruct hr as [ka|e].
      + assert (G : disp_ok DIdle (EvHead :: ev' ++ []) = true /\ err_ok false (EvHead :: ev' ++ []) = true).
        { eapply (done_head_post _ _ _ _ _ _ _ _ None fs'); [exact E|]. split; reflexivity. }
        rewrite app_nil_r in G.
        destruct w.
        * intros H. injection H as <- <- <- <-. split; [apply SP|exact G].
        * destruct (ka && w_alive st'); [discriminate|]. intros H. injection H as <- <- <- <-. split; [apply SP|exact G].
        * destruct (c_keepalive c); [discriminate|]. intros H. injection H as <- <- <- <-. split; [apply SP|exact G].
      + destruct (top_ladder w true e fs') as [[x2 fs2] e2] eqn:ET. intros H. injection H as <- <- <- <-.
        split; [apply SP|]. eapply done_head_post; [exact E|exact ET].
    - destruct (top_ladder w false e fs) as [[x2 fs2] e2] eqn:ET. intros H. injection H as <- <- <- <-.
      destruct (top_ladder_inv _ _ _ _ _ _ _ ET) as (T & _).
      split; [exists (EvPRaise (x_cls e)), e2; split; reflexivity|].
      pose proof (tail_shape_is_tail _ T) as Tt.
      split.
      * cbn [disp_ok is_reject]. apply disp_neutral_true. eapply forallb_impl; [apply is_tail_neutral|exact Tt].
      * cbn [err_ok is_err]. apply tail_err_ok. exact T.
    - assert (G : forall fsx x2 fs2 e2, top_ladder w false exn_generic fsx = (x2, fs2, e2) ->
            starts_parse (EvNone :: e2) /\ disp_ok DIdle (EvNone :: e2) = true /\ err_ok false (EvNone :: e2) = true).
      { intros fsx x2 fs2 e2 ET. destruct (top_ladder_inv _ _ _ _ _ _ _ ET) as (T & _).
        split; [exists EvNone, e2; split; reflexivity|].
        pose proof (tail_shape_is_tail _ T) as Tt. split.
        * cbn [disp_ok is_reject]. apply disp_neutral_true. eapply forallb_impl; [apply is_tail_neutral|exact Tt].
        * cbn [err_ok is_err]. apply tail_err_ok. exact T. }
      assert (G0 : starts_parse [EvNone] /\ disp_ok DIdle [EvNone] = true /\ err_ok false [EvNone] = true).
      { split; [exists EvNone, []; split; reflexivity|split; reflexivity]. }
      destruct w.
      + destruct (top_ladder WSync false exn_generic fs) as [[x2 fs2] e2] eqn:ET. intros H. injection H as <- <- <- <-.
        eapply G. exact ET.
      + intros H. injection H as <- <- <- <-. exact G0.
      + destruct (c_keepalive c).
        * intros H. injection H as <- <- <- <-. exact G0.
        * destruct (top_ladder WAsync false exn_generic fs) as [[x2 fs2] e2] eqn:ET. intros H. injection H as <- <- <- <-.
          eapply G. exact ET.
  Qed.

  Lemma conn_loop_post : forall ps st apps fs x st1 fs1 evs,
    conn_loop w c st ps apps fs = (x, st1, fs1, evs) ->
    starts_parse evs /\ disp_ok DIdle evs = true /\ err_ok false evs = true.
  Proof.
    induction ps as [|p ps IH]; intros st apps fs x st1 fs1 evs; cbn [conn_loop].
    - destruct (top_ladder w false exn_nomoredata fs) as [[x2 fs2] e2] eqn:ET. intros H. injection H as <- <- <- <-.
      destruct (top_ladder_inv _ _ _ _ _ _ _ ET) as (T & _).
      split; [exists (EvPRaise E_NoMoreData), e2; split; reflexivity|].
      pose proof (tail_shape_is_tail _ T) as Tt. split.
      * cbn [disp_ok is_reject]. apply disp_neutral_true. eapply forallb_impl; [apply is_tail_neutral|exact Tt].
      * cbn [err_ok is_err]. apply tail_err_ok. exact T.
    - destruct (one_request w c st p apps fs) as [x0 st0 fs0 e0|st0 apps0 fs0 e0] eqn:E1.
      + intros H. injection H as <- <- <- <-. eapply one_request_done. exact E1.
      + destruct (conn_loop w c st0 ps apps0 fs0) as [[[x2 st2] fs2] e2] eqn:E2. intros H. injection H as <- <- <- <-.
        destruct (IH _ _ _ _ _ _ _ E2) as (S2 & D2 & R2).
        destruct (one_request_cont _ _ _ _ _ _ _ _ E1) as (h & hrevs & k & -> & -> & Hhr & Hc & Hk & _).
        split; [exists EvHead, ((hrevs ++ k) ++ e2); split; reflexivity|].
        assert (Kn : forallb neutral k = true) by (destruct Hk as [->| ->]; reflexivity).
        split.
        * cbn [List.app disp_ok is_reject is_headev]. rewrite <- app_assoc.
          destruct (disp_hr hrevs (k ++ e2) true Hhr) as [D1 _].
          -- rewrite disp_neutral by exact Kn. rewrite (disp_start DPermit) by (assumption || discriminate). exact D2.
          -- rewrite disp_neutral by exact Kn. exact D2.
          -- apply D1. exact Hc.
        * cbn [List.app err_ok is_err]. rewrite <- app_assoc. rewrite err_ok_noerr; [|apply is_hr_noerr; exact Hhr|reflexivity].
          rewrite err_ok_noerr; [exact R2| |reflexivity]. destruct Hk as [->| ->]; reflexivity.
  Qed.
End Loop.

(* ---------------------------------------------------------------------------------------------- *)
(* records after a rejected head                                                                     *)
(* ---------------------------------------------------------------------------------------------- *)
Fixpoint racc_ok (budget : option nat) (l : list ev) : bool :=
  match l with
  | [] => true
  | e :: t =>
      if is_reject e then racc_ok (Some 1%nat) t
      else if is_access e then
        match budget with None => racc_ok None t | Some O => false | Some (S k) => racc_ok (Some k) t end
      else racc_ok budget t
  end.

Lemma racc_noreject l rest : forallb (fun e => negb (is_reject e)) l = true -> racc_ok None (l ++ rest) = racc_ok None rest.
Proof.
  induction l as [|e t IH]; intros H; [reflexivity|]. cbn in H. apply andb_prop in H as [H1 H2]. apply negb_true_iff in H1.
  cbn [List.app racc_ok]. rewrite H1. destruct (is_access e); apply IH; exact H2.
Qed.

Lemma racc_tail evs : tail_shape evs -> racc_ok (Some 1%nat) evs = true.
Proof.
  intros (acc & errs & -> & Ha & He).
  destruct Ha as [->|[st ->]]; destruct He as [->|[[f ->]|(c & t & page & f & -> & _)]]; reflexivity.
Qed.

Lemma racc_close b l f : racc_ok b l = true -> racc_ok b (l ++ [EvClose f]) = true.
Proof.
  revert b. induction l as [|e t IH]; intros b H; [reflexivity|]. cbn [List.app racc_ok] in *.
  destruct (is_reject e); [apply IH; exact H|]. destruct (is_access e); [|apply IH; exact H].
  destruct b as [[|k]|]; try discriminate; apply IH; exact H.
Qed.

Lemma is_hr_noreject l : forallb is_hr l = true -> forallb (fun e => negb (is_reject e)) l = true.
Proof. apply forallb_impl. intros []; cbn; congruence. Qed.
Lemma is_tail_noreject l : forallb is_tail l = true -> forallb (fun e => negb (is_reject e)) l = true.
Proof. apply forallb_impl. intros []; cbn; congruence. Qed.

(* ---------------------------------------------------------------------------------------------- *)
(* counters                                                                                         *)
(* ---------------------------------------------------------------------------------------------- *)
Definition st_after (c : cfg) (st : wst) (n : N) : wst :=
  if n =? 0 then st
  else {| w_nr := w_nr st + n; w_alive := w_alive st && (w_nr st + n <? c_max c);
          w_keep := w_keep st; w_conns := w_conns st |}.

Lemma count_request_after w c st : fst (count_request w c st) = st_after c st 1.
Proof.
  unfold count_request, st_after. cbn [N.eqb Pos.eqb].
  assert (E : (if c_max c <=? w_nr st + 1 then false else w_alive st) = w_alive st && (w_nr st + 1 <? c_max c)).
  { destruct (c_max c <=? w_nr st + 1) eqn:E1.
    - apply N.leb_le in E1. assert (w_nr st + 1 <? c_max c = false) as -> by (apply N.ltb_ge; lia). rewrite andb_false_r. reflexivity.
    - apply N.leb_gt in E1. assert (w_nr st + 1 <? c_max c = true) as -> by (apply N.ltb_lt; lia). rewrite andb_true_r. reflexivity. }
  destruct w; cbn [fst]; rewrite E; reflexivity.
Qed.

Lemma st_after_0 c st : st_after c st 0 = st. Proof. reflexivity. Qed.

Lemma st_after_add c st a b : st_after c (st_after c st a) b = st_after c st (a + b).
Proof.
  unfold st_after. destruct (a =? 0) eqn:Ea.
  - apply N.eqb_eq in Ea. subst a. rewrite N.add_0_l. reflexivity.
  - apply N.eqb_neq in Ea. destruct (b =? 0) eqn:Eb.
    + apply N.eqb_eq in Eb. subst b. rewrite N.add_0_r. assert (a =? 0 = false) as -> by (apply N.eqb_neq; exact Ea). reflexivity.
    + apply N.eqb_neq in Eb. assert (a + b =? 0 = false) as -> by (apply N.eqb_neq; lia). cbn.
      f_equal; [lia|]. rewrite <- andb_assoc. f_equal. rewrite N.add_assoc.
      destruct (w_nr st + a + b <? c_max c) eqn:E2.
      * apply N.ltb_lt in E2. rewrite andb_true_r. apply N.ltb_lt. lia.
      * rewrite andb_false_r. reflexivity.
Qed.

Definition napps (l : list ev) : N := N.of_nat (count is_app l).
Lemma napps_app l1 l2 : napps (l1 ++ l2) = napps l1 + napps l2.
Proof. unfold napps. rewrite count_app. lia. Qed.

Lemma count_tail_apps evs : tail_shape evs -> count is_app evs = 0%nat.
Proof. intros T. eapply count_none; [apply tail_shape_is_tail; exact T|]. intros []; cbn; congruence. Qed.

Section Loop2.
  Variable w : wkind.
  Variable c : cfg.

  Lemma hr_state st h a fs hr st1 fs1 e1 :
    handle_request w c st h a fs = (hr, st1, fs1, e1) -> st1 = st_after c st (napps e1).
  Proof.
    intros H. destruct (handle_request_facts _ _ _ _ _ _ _ _ _ _ H) as (_ & Hcnt & _ & _).
    unfold napps. destruct Hcnt as [(-> & -> & _)|(-> & ->)]; [reflexivity|apply count_request_after].
  Qed.

  Lemma top_ladder_napps req e fs x fs1 evs : top_ladder w req e fs = (x, fs1, evs) -> napps evs = 0.
  Proof. intros H. destruct (top_ladder_inv _ _ _ _ _ _ _ H) as (T & _). unfold napps. rewrite (count_tail_apps _ T). reflexivity. Qed.

  Lemma one_request_state st p apps fs :
    match one_request w c st p apps fs with
    | Done _ st1 _ e1 | Cont st1 _ _ e1 => st1 = st_after c st (napps e1)
    end.
  Proof.
    unfold one_request. destruct p as [h|e|].
    - destruct (next_app apps) as [a apps'].
      destruct (handle_request w c st h a fs) as [[[hr st'] fs'] ev'] eqn:E.
      pose proof (hr_state _ _ _ _ _ _ _ _ E) as Hs.
      assert (N1 : forall l, napps (EvHead :: l) = napps l) by reflexivity.
      destruct hr as [ka|e].
      + destruct w.
        * rewrite N1. exact Hs.
        * destruct (ka && w_alive st'); rewrite N1; [|exact Hs]. rewrite napps_app. change (napps [EvKeep]) with 0. rewrite N.add_0_r. exact Hs.
        * destruct (c_keepalive c); rewrite N1; exact Hs.
      + destruct (top_ladder w true e fs') as [[x2 fs2] e2] eqn:ET. rewrite N1, napps_app, (top_ladder_napps _ _ _ _ _ _ ET), N.add_0_r. exact Hs.
    - destruct (top_ladder w false e fs) as [[x2 fs2] e2] eqn:ET.
      change (napps (EvPRaise (x_cls e) :: e2)) with (napps e2). rewrite (top_ladder_napps _ _ _ _ _ _ ET). reflexivity.
    - assert (G : forall fsx, match (let '(x, fs1, e1) := top_ladder w false exn_generic fsx in Done x st fs1 (EvNone :: e1)) with
                    | Done _ st1 _ e1 | Cont st1 _ _ e1 => st1 = st_after c st (napps e1) end).
      { intros fsx. destruct (top_ladder w false exn_generic fsx) as [[x2 fs2] e2] eqn:ET.
        change (napps (EvNone :: e2)) with (napps e2). rewrite (top_ladder_napps _ _ _ _ _ _ ET). reflexivity. }
      destruct w; [apply G|reflexivity|]. destruct (c_keepalive c); [reflexivity|apply G].
  Qed.

  Lemma conn_loop_state : forall ps st apps fs x st1 fs1 evs,
    conn_loop w c st ps apps fs = (x, st1, fs1, evs) -> st1 = st_after c st (napps evs).
  Proof.
    induction ps as [|p ps IH]; intros st apps fs x st1 fs1 evs; cbn [conn_loop].
    - destruct (top_ladder w false exn_nomoredata fs) as [[x2 fs2] e2] eqn:ET. intros H. injection H as <- <- <- <-.
      change (napps (EvPRaise E_NoMoreData :: e2)) with (napps e2). rewrite (top_ladder_napps _ _ _ _ _ _ ET). reflexivity.
    - pose proof (one_request_state st p apps fs) as H1.
      destruct (one_request w c st p apps fs) as [x0 st0 fs0 e0|st0 apps0 fs0 e0].
      + intros H. injection H as <- <- <- <-. exact H1.
      + destruct (conn_loop w c st0 ps apps0 fs0) as [[[x2 st2] fs2] e2] eqn:E2. intros H. injection H as <- <- <- <-.
        rewrite (IH _ _ _ _ _ _ _ E2), H1, st_after_add, napps_app. reflexivity.
  Qed.

  (* ---- where exceptions come from, and what escapes ---- *)
  Section P.
    Variable P : exn -> Prop.
    Hypothesis P_os : P exn_oserror.
    Hypothesis P_stop : P exn_stop.
    Hypothesis P_gen : P exn_generic.
    Hypothesis P_nmd : P exn_nomoredata.
    (* an exception with property P handed to the ladder does not escape *)
    Hypothesis P_safe : forall req e fs x fs1 evs, P e -> top_ladder w req e fs = (x, fs1, evs) -> x = None.

    Lemma next_app_P apps : Forall P (apps_exns apps) ->
      Forall P (app_exns (fst (next_app apps))) /\ Forall P (apps_exns (snd (next_app apps))).
    Proof.
      destruct apps as [|a t]; cbn [next_app fst snd].
      - intros _. split; [repeat constructor|constructor].
      - unfold apps_exns. cbn [flat_map]. intros H. apply Forall_app in H. exact H.
    Qed.

    Lemma one_request_escape st p apps fs :
      Forall P (pout_exns p) -> Forall P (apps_exns apps) ->
      match one_request w c st p apps fs with
      | Done x _ _ _ => x = None
      | Cont _ apps1 _ _ => Forall P (apps_exns apps1)
      end.
    Proof.
      intros Hp Ha. unfold one_request. destruct p as [h|e|].
      - destruct (next_app_P _ Ha) as [Ha1 Ha2]. destruct (next_app apps) as [a apps']. cbn [fst snd] in *.
        destruct (handle_request w c st h a fs) as [[[hr st'] fs'] ev'] eqn:E.
        destruct (handle_request_post P P_os P_stop P_gen _ _ _ _ _ _ _ _ _ _ Hp Ha1 E) as [_ HP].
        destruct hr as [ka|e].
        + destruct w; [reflexivity| |]; [destruct (ka && w_alive st')|destruct (c_keepalive c)]; try reflexivity; exact Ha2.
        + destruct (top_ladder w true e fs') as [[x2 fs2] e2] eqn:ET. eapply P_safe; [|exact ET]. apply HP. reflexivity.
      - destruct (top_ladder w false e fs) as [[x2 fs2] e2] eqn:ET. eapply P_safe; [|exact ET]. inversion Hp; assumption.
      - assert (G : forall fsx, match (let '(x, fs1, e1) := top_ladder w false exn_generic fsx in Done x st fs1 (EvNone :: e1)) with
                      | Done x _ _ _ => x = None | Cont _ apps1 _ _ => Forall P (apps_exns apps1) end).
        { intros fsx. destruct (top_ladder w false exn_generic fsx) as [[x2 fs2] e2] eqn:ET. eapply P_safe; [exact P_gen|exact ET]. }
        destruct w; [apply G|reflexivity|]. destruct (c_keepalive c); [reflexivity|apply G].
    Qed.

    Lemma conn_loop_escape : forall ps st apps fs x st1 fs1 evs,
      Forall P (pouts_exns ps) -> Forall P (apps_exns apps) ->
      conn_loop w c st ps apps fs = (x, st1, fs1, evs) -> x = None.
    Proof.
      induction ps as [|p ps IH]; intros st apps fs x st1 fs1 evs Hp Ha; cbn [conn_loop].
      - destruct (top_ladder w false exn_nomoredata fs) as [[x2 fs2] e2] eqn:ET. intros H. injection H as <- <- <- <-.
        eapply P_safe; [exact P_nmd|exact ET].
      - unfold pouts_exns in Hp. cbn [flat_map] in Hp. apply Forall_app in Hp as [Hp1 Hp2].
        pose proof (one_request_escape st p apps fs Hp1 Ha) as H1.
        destruct (one_request w c st p apps fs) as [x0 st0 fs0 e0|st0 apps0 fs0 e0].
        + intros H. injection H as <- <- <- <-. exact H1.
        + destruct (conn_loop w c st0 ps apps0 fs0) as [[[x2 st2] fs2] e2] eqn:E2. intros H. injection H as <- <- <- <-.
          eapply IH; [exact Hp2|exact H1|exact E2].
    Qed.
  End P.

  Lemma exn_ok_safe req e fs x fs1 evs : exn_ok w e -> top_ladder w req e fs = (x, fs1, evs) -> x = None.
  Proof.
    intros [H1 H2] H. destruct (top_ladder_inv _ _ _ _ _ _ _ H) as (_ & _ & K).
    destruct x as [e'|]; [|reflexivity]. destruct (K _ eq_refl) as [[K1 _]|(Kw & _ & K3 & _)]; [congruence|rewrite (H2 Kw) in K3; discriminate].
  Qed.

  (* ---- no error page after a response head, records after a rejection ---- *)
  Definition nonssl (e : exn) : Prop := is_sslerror (x_cls e) = false.

  Lemma done_head_clean st h a fs hr st1 fs1 e1 x fs2 e2 d :
    Forall nonssl (head_exns h) -> Forall app_exn_ok (app_exns a) ->
    handle_request w c st h a fs = (hr, st1, fs1, e1) ->
    (match hr with
     | HExn e => top_ladder w true e fs1 = (x, fs2, e2)
     | HRet _ => x = None /\ e2 = []
     end) ->
    clean_ok d (EvHead :: e1 ++ e2) = true /\ racc_ok None (EvHead :: e1 ++ e2) = true.
  Proof.
    intros Hh Ha H HT. destruct (handle_request_facts _ _ _ _ _ _ _ _ _ _ H) as (Hhr & _ & _ & Hclean).
    assert (Ha1 : Forall nonssl (app_exns a)) by (eapply Forall_impl; [|exact Ha]; intros e0 [_ K]; exact K).
    assert (Ha2 : Forall (fun x => is_exception (x_cls x) = true) (app_exns a)) by (eapply Forall_impl; [|exact Ha]; intros e0 [K _]; exact K).
    destruct (handle_request_post nonssl eq_refl eq_refl eq_refl _ _ _ _ _ _ _ _ _ _ Hh Ha1 H) as [_ HP].
    split.
    - cbn [clean_ok is_err is_parse is_headev orb]. rewrite clean_hr by exact Hhr. cbn [orb].
      destruct hr as [ka|e]; [destruct HT as [_ ->]; reflexivity|].
      destruct (top_ladder_inv _ _ _ _ _ _ _ HT) as (T & Herr & _).
      apply clean_tail; [exact T|]. intros He. destruct (Herr He) as (K1 & _ & K3).
      apply (Hclean e eq_refl Ha2 K1). destruct K3 as [K3|K3]; [exact K3|]. rewrite (HP e eq_refl) in K3. discriminate.
    - change (EvHead :: e1 ++ e2) with (([EvHead] ++ e1) ++ e2). rewrite racc_noreject; [|cbn [List.app forallb is_reject negb andb]; apply is_hr_noreject; exact Hhr].
      assert (T : tail_shape e2).
      { destruct hr as [ka|e]; [destruct HT as [_ ->]; apply tail_shape_nil|]. apply (top_ladder_inv _ _ _ _ _ _ _ HT). }
      rewrite <- (app_nil_r e2). rewrite racc_noreject; [reflexivity|]. apply is_tail_noreject. apply tail_shape_is_tail. exact T.
  Qed.

  Lemma reject_tail_clean p e2 d : is_reject p = true -> tail_shape e2 ->
    clean_ok d (p :: e2) = true /\ racc_ok None (p :: e2) = true.
  Proof.
    intros Hp T. split.
    - cbn [clean_ok]. assert (is_err p = false) as -> by (destruct p; cbn in *; try discriminate; reflexivity).
      unfold is_parse. rewrite Hp, orb_true_r. apply clean_tail; [exact T|reflexivity].
    - cbn [racc_ok]. rewrite Hp. apply racc_tail. exact T.
  Qed.

  Lemma conn_loop_clean : forall ps st apps fs x st1 fs1 evs d,
    Forall nonssl (pouts_exns ps) -> Forall app_exn_ok (apps_exns apps) ->
    conn_loop w c st ps apps fs = (x, st1, fs1, evs) ->
    clean_ok d evs = true /\ racc_ok None evs = true.
  Proof.
    induction ps as [|p ps IH]; intros st apps fs x st1 fs1 evs d Hp Ha; cbn [conn_loop].
    - destruct (top_ladder w false exn_nomoredata fs) as [[x2 fs2] e2] eqn:ET. intros H. injection H as <- <- <- <-.
      apply reject_tail_clean; [reflexivity|apply (top_ladder_inv _ _ _ _ _ _ _ ET)].
    - unfold pouts_exns in Hp. cbn [flat_map] in Hp. apply Forall_app in Hp as [Hp1 Hp2].
      destruct (next_app_P app_exn_ok _ Ha) as [Ha1 Ha2].
      unfold one_request. destruct p as [h|e|].
      + destruct (next_app apps) as [a apps']. cbn [fst snd] in *.
        destruct (handle_request w c st h a fs) as [[[hr st'] fs'] ev'] eqn:E.
        assert (DoneRet : forall ka, hr = HRet ka -> clean_ok d (EvHead :: ev') = true /\ racc_ok None (EvHead :: ev') = true).
        { intros ka ->. rewrite <- (app_nil_r ev'). eapply (done_head_clean _ _ _ _ _ _ _ _ None fs'); [exact Hp1|exact Ha1|exact E|].
          split; reflexivity. }
        assert (ContCase : forall k, (k = [] \/ k = [EvKeep]) -> forall x st1 fs1 evs,
            (let '(x, st2, fs2, e2) := conn_loop w c st' ps apps' fs' in (x, st2, fs2, (EvHead :: ev' ++ k) ++ e2)) = (x, st1, fs1, evs) ->
            clean_ok d evs = true /\ racc_ok None evs = true).
        { intros k Hk x' st1' fs1' evs'. destruct (conn_loop w c st' ps apps' fs') as [[[x2 st2] fs2] e2] eqn:E2.
          intros H. injection H as <- <- <- <-.
          destruct (handle_request_facts _ _ _ _ _ _ _ _ _ _ E) as (Hhr & _).
          destruct (conn_loop_post _ _ _ _ _ _ _ _ _ _ E2) as (S2 & _ & _).
          split.
          - cbn [List.app clean_ok is_err is_parse is_headev orb]. rewrite <- app_assoc. rewrite clean_hr by exact Hhr.
            assert (Kc : forall dd, clean_ok dd (k ++ e2) = clean_ok false e2).
            { intros dd. destruct Hk as [->| ->]; cbn [List.app clean_ok is_err is_parse is_headev is_reject orb ok_hdr]; apply clean_start; exact S2. }
            rewrite Kc. apply (IH _ _ _ _ _ _ _ false Hp2 Ha2 E2).
          - change (EvHead :: (ev' ++ k) ++ e2) with (([EvHead] ++ ev' ++ k) ++ e2). rewrite racc_noreject.
            + apply (IH _ _ _ _ _ _ _ false Hp2 Ha2 E2).
            + cbn [List.app forallb is_reject negb andb]. rewrite forallb_app, (is_hr_noreject _ Hhr). destruct Hk as [->| ->]; reflexivity. }
        destruct hr as [ka|e].
        * destruct w.
          -- intros H. injection H as <- <- <- <-. eapply DoneRet. reflexivity.
          -- destruct (ka && w_alive st').
             ++ apply (ContCase [EvKeep]). right. reflexivity.
             ++ intros H. injection H as <- <- <- <-. eapply DoneRet. reflexivity.
          -- destruct (c_keepalive c).
             ++ intros H. apply (ContCase [] (or_introl eq_refl) x st1 fs1 evs). rewrite app_nil_r. exact H.
             ++ intros H. injection H as <- <- <- <-. eapply DoneRet. reflexivity.
        * destruct (top_ladder w true e fs') as [[x2 fs2] e2] eqn:ET. intros H. injection H as <- <- <- <-.
          eapply done_head_clean; [exact Hp1|exact Ha1|exact E|exact ET].
      + destruct (top_ladder w false e fs) as [[x2 fs2] e2] eqn:ET. intros H. injection H as <- <- <- <-.
        apply reject_tail_clean; [reflexivity|apply (top_ladder_inv _ _ _ _ _ _ _ ET)].
      + assert (G : forall fsx x st1 fs1 evs,
              match (let '(x, fs1, e1) := top_ladder w false exn_generic fsx in Done x st fs1 (EvNone :: e1)) with
              | Done x st1 fs1 e1 => (x, st1, fs1, e1)
              | Cont st1 apps1 fs1 e1 => let '(x, st2, fs2, e2) := conn_loop w c st1 ps apps1 fs1 in (x, st2, fs2, e1 ++ e2)
              end = (x, st1, fs1, evs) -> clean_ok d evs = true /\ racc_ok None evs = true).
        { intros fsx x' st1' fs1' evs'. destruct (top_ladder w false exn_generic fsx) as [[x2 fs2] e2] eqn:ET.
          intros H. injection H as <- <- <- <-. apply reject_tail_clean; [reflexivity|apply (top_ladder_inv _ _ _ _ _ _ _ ET)]. }
        assert (G0 : forall x st1 fs1 evs, (@None exn, st, fs, [EvNone]) = (x, st1, fs1, evs) -> clean_ok d evs = true /\ racc_ok None evs = true).
        { intros x' st1' fs1' evs' H. injection H as <- <- <- <-. split; reflexivity. }
        destruct w; [apply G|apply G0|]. destruct (c_keepalive c); [apply G0|apply G].
  Qed.
End Loop2.

(* ---------------------------------------------------------------------------------------------- *)
(* error pages are produced by write_error from a table row                                          *)
(* ---------------------------------------------------------------------------------------------- *)
Definition err_wf (e : ev) : Prop :=
  match e with
  | EvErr page _ => exists c t, error_page (he_status c) (he_reason c) t = Some page
  | _ => True
  end.

Lemma tail_err_wf evs : tail_shape evs -> Forall err_wf evs.
Proof.
  intros (acc & errs & -> & Ha & He). apply Forall_app. split.
  - destruct Ha as [->|[st ->]]; repeat constructor.
  - destruct He as [->|[[f ->]|(c & t & page & f & -> & Hp)]]; repeat constructor. exists c, t. exact Hp.
Qed.

Lemma hr_err_wf l : forallb is_hr l = true -> Forall err_wf l.
Proof.
  induction l as [|e t IH]; intros H; [constructor|]. cbn in H. apply andb_prop in H as [H1 H2].
  constructor; [destruct e; cbn in *; try exact I; discriminate|apply IH; exact H2].
Qed.

Section Loop3.
  Variable w : wkind.
  Variable c : cfg.

  Lemma conn_loop_errs : forall ps st apps fs x st1 fs1 evs,
    conn_loop w c st ps apps fs = (x, st1, fs1, evs) -> Forall err_wf evs.
  Proof.
    induction ps as [|p ps IH]; intros st apps fs x st1 fs1 evs; cbn [conn_loop].
    - destruct (top_ladder w false exn_nomoredata fs) as [[x2 fs2] e2] eqn:ET. intros H. injection H as <- <- <- <-.
      constructor; [exact I|]. apply tail_err_wf. apply (top_ladder_inv _ _ _ _ _ _ _ ET).
    - unfold one_request. destruct p as [h|e|].
      + destruct (next_app apps) as [a apps'].
        destruct (handle_request w c st h a fs) as [[[hr st'] fs'] ev'] eqn:E.
        destruct (handle_request_facts _ _ _ _ _ _ _ _ _ _ E) as (Hhr & _).
        pose proof (hr_err_wf _ Hhr) as W.
        assert (DoneRet : Forall err_wf (EvHead :: ev')) by (constructor; [exact I|exact W]).
        assert (ContCase : forall k, (k = [] \/ k = [EvKeep]) -> forall x st1 fs1 evs,
            (let '(x, st2, fs2, e2) := conn_loop w c st' ps apps' fs' in (x, st2, fs2, (EvHead :: ev' ++ k) ++ e2)) = (x, st1, fs1, evs) ->
            Forall err_wf evs).
        { intros k Hk x' st1' fs1' evs'. destruct (conn_loop w c st' ps apps' fs') as [[[x2 st2] fs2] e2] eqn:E2.
          intros H. injection H as <- <- <- <-. constructor; [exact I|]. apply Forall_app. split; [|eapply IH; exact E2].
          apply Forall_app. split; [exact W|]. destruct Hk as [->| ->]; repeat constructor. }
        destruct hr as [ka|e].
        * destruct w.
          -- intros H. injection H as <- <- <- <-. exact DoneRet.
          -- destruct (ka && w_alive st').
             ++ apply (ContCase [EvKeep]). right. reflexivity.
             ++ intros H. injection H as <- <- <- <-. exact DoneRet.
          -- destruct (c_keepalive c).
             ++ intros H. apply (ContCase [] (or_introl eq_refl) x st1 fs1 evs). rewrite app_nil_r. exact H.
             ++ intros H. injection H as <- <- <- <-. exact DoneRet.
        * destruct (top_ladder w true e fs') as [[x2 fs2] e2] eqn:ET. intros H. injection H as <- <- <- <-.
          constructor; [exact I|]. apply Forall_app. split; [exact W|]. apply tail_err_wf. apply (top_ladder_inv _ _ _ _ _ _ _ ET).
      + destruct (top_ladder w false e fs) as [[x2 fs2] e2] eqn:ET. intros H. injection H as <- <- <- <-.
        constructor; [exact I|]. apply tail_err_wf. apply (top_ladder_inv _ _ _ _ _ _ _ ET).
      + assert (G : forall fsx x st1 fs1 evs,
              match (let '(x, fs1, e1) := top_ladder w false exn_generic fsx in Done x st fs1 (EvNone :: e1)) with
              | Done x st1 fs1 e1 => (x, st1, fs1, e1)
              | Cont st1 apps1 fs1 e1 => let '(x, st2, fs2, e2) := conn_loop w c st1 ps apps1 fs1 in (x, st2, fs2, e1 ++ e2)
              end = (x, st1, fs1, evs) -> Forall err_wf evs).
        { intros fsx x' st1' fs1' evs'. destruct (top_ladder w false exn_generic fsx) as [[x2 fs2] e2] eqn:ET.
          intros H. injection H as <- <- <- <-. constructor; [exact I|]. apply tail_err_wf. apply (top_ladder_inv _ _ _ _ _ _ _ ET). }
        assert (G0 : forall x st1 fs1 evs, (@None exn, st, fs, [EvNone]) = (x, st1, fs1, evs) -> Forall err_wf evs).
        { intros x' st1' fs1' evs' H. injection H as <- <- <- <-. repeat constructor. }
        destruct w; [apply G|apply G0|]. destruct (c_keepalive c); [apply G0|apply G].
  Qed.
End Loop3.

(* ---------------------------------------------------------------------------------------------- *)
(* the connection                                                                                   *)
(* ---------------------------------------------------------------------------------------------- *)
Definition first1 {A} (l : list A) : list A := match l with [] => [] | p :: _ => [p] end.

Lemma connection_unfold w c st ps apps fs :
  exists w' st0 ps1 x st1 fs1 evs,
    conn_loop w' c st0 ps1 apps fs = (x, st1, fs1, evs) /\ w' = w
    /\ (ps1 = ps \/ ps1 = first1 ps)
    /\ ((w <> WGthread /\ st0 = st /\ connection w c st ps apps fs = finish x st1 fs1 evs)
        \/ (w = WGthread /\ st0 = bump_conns st 1 /\
            ((x = None \/ exists e, x = Some e /\ is_exception (x_cls e) = true) /\
               connection w c st ps apps fs = finish None (bump_conns st1 (-1)) fs1 evs
             \/ (exists e, x = Some e /\ is_exception (x_cls e) = false) /\
               connection w c st ps apps fs = {| o_trace := evs; o_escaped := x; o_st := st1 |}))).
Proof.
  unfold connection. destruct w.
  - destruct (conn_loop WSync c st (match ps with [] => [] | p :: _ => [p] end) apps fs) as [[[x st1] fs1] e1] eqn:E.
    exists WSync, st, (first1 ps), x, st1, fs1, e1. repeat split; try exact E; [right; reflexivity|].
    left. repeat split. discriminate.
  - destruct (conn_loop WGthread c (bump_conns st 1) ps apps fs) as [[[x st1] fs1] e1] eqn:E.
    exists WGthread, (bump_conns st 1), ps, x, st1, fs1, e1. repeat split; try exact E; [left; reflexivity|].
    right. repeat split. destruct x as [e|].
    + destruct (is_exception (x_cls e)) eqn:Ex.
      * left. split; [right; exists e; split; [reflexivity|exact Ex]|reflexivity].
      * right. split; [exists e; split; [reflexivity|exact Ex]|reflexivity].
    + left. split; [left; reflexivity|reflexivity].
  - destruct (conn_loop WAsync c st (if c_keepalive c then ps else match ps with [] => [] | p :: _ => [p] end) apps fs)
      as [[[x st1] fs1] e1] eqn:E.
    exists WAsync, st, (if c_keepalive c then ps else first1 ps), x, st1, fs1, e1. repeat split; try exact E.
    + destruct (c_keepalive c); [left|right]; reflexivity.
    + left. repeat split. discriminate.
Qed.

Lemma first1_exns P ps : Forall P (pouts_exns ps) -> Forall P (pouts_exns (first1 ps)).
Proof.
  destruct ps as [|p t]; [trivial|]. unfold pouts_exns. cbn [first1 flat_map]. rewrite app_nil_r.
  intros H. apply Forall_app in H. apply H.
Qed.

Theorem connection_trace_ok w c st ps apps fs :
  let o := connection w c st ps apps fs in
  disp_ok DIdle (o_trace o) = true /\ err_ok false (o_trace o) = true /\ Forall err_wf (o_trace o).
Proof.
  cbn zeta. destruct (connection_unfold w c st ps apps fs) as (w' & st0 & ps1 & x & st1 & fs1 & evs & E & -> & _ & HC).
  destruct (conn_loop_post _ _ _ _ _ _ _ _ _ _ E) as (_ & D & R).
  pose proof (conn_loop_errs _ _ _ _ _ _ _ _ _ _ E) as W.
  assert (F : forall x st', let o := finish x st' fs1 evs in
              disp_ok DIdle (o_trace o) = true /\ err_ok false (o_trace o) = true /\ Forall err_wf (o_trace o)).
  { intros x' st'. unfold finish, final_close. cbn [o_trace]. destruct (pop fs1) as [f t].
    split; [apply disp_close; exact D|]. split; [apply err_ok_close; exact R|]. apply Forall_app. split; [exact W|repeat constructor]. }
  destruct HC as [(_ & _ & ->)|(_ & _ & [[_ ->]|[_ ->]])]; try apply F.
  cbn [o_trace]. repeat split; assumption.
Qed.

Theorem connection_closed w c st ps apps fs :
  let o := connection w c st ps apps fs in
  (o_escaped o = None \/ exists e, o_escaped o = Some e /\ is_exception (x_cls e) = true) ->
  exists pre f, o_trace o = pre ++ [EvClose f].
Proof.
  cbn zeta. destruct (connection_unfold w c st ps apps fs) as (w' & st0 & ps1 & x & st1 & fs1 & evs & E & -> & _ & HC).
  assert (F : forall x st', exists pre f, o_trace (finish x st' fs1 evs) = pre ++ [EvClose f]).
  { intros x' st'. unfold finish, final_close. cbn [o_trace]. destruct (pop fs1) as [f t]. exists evs, f. reflexivity. }
  destruct HC as [(_ & _ & ->)|(_ & _ & [[_ ->]|[(e & -> & Hx) ->]])]; intros H; try apply F.
  cbn [o_escaped] in H. destruct H as [H|(e' & H & H')]; [discriminate|]. injection H as <-. congruence.
Qed.

Theorem connection_no_escape w c st ps apps fs :
  Forall (exn_ok w) (pouts_exns ps) -> Forall (exn_ok w) (apps_exns apps) ->
  o_escaped (connection w c st ps apps fs) = None.
Proof.
  intros Hp Ha. destruct (connection_unfold w c st ps apps fs) as (w' & st0 & ps1 & x & st1 & fs1 & evs & E & -> & Hps & HC).
  assert (Hp1 : Forall (exn_ok w) (pouts_exns ps1)) by (destruct Hps as [->| ->]; [exact Hp|apply first1_exns; exact Hp]).
  destruct (builtin_exn_ok w) as (B1 & B2 & B3 & B4).
  assert (X : x = None).
  { eapply (conn_loop_escape w c (exn_ok w) B1 B2 B3 B4); [|exact Hp1|exact Ha|exact E].
    intros req e fs0 x0 fs2 evs0. apply exn_ok_safe. }
  subst x. destruct HC as [(_ & _ & ->)|(_ & _ & [[_ ->]|[(e & He & _) _]])]; try reflexivity. discriminate.
Qed.

Theorem connection_clean w c st ps apps fs :
  Forall nonssl (pouts_exns ps) -> Forall app_exn_ok (apps_exns apps) ->
  let o := connection w c st ps apps fs in
  clean_ok false (o_trace o) = true /\ racc_ok None (o_trace o) = true.
Proof.
  intros Hp Ha. cbn zeta.
  destruct (connection_unfold w c st ps apps fs) as (w' & st0 & ps1 & x & st1 & fs1 & evs & E & -> & Hps & HC).
  assert (Hp1 : Forall nonssl (pouts_exns ps1)) by (destruct Hps as [->| ->]; [exact Hp|apply first1_exns; exact Hp]).
  destruct (conn_loop_clean _ _ _ _ _ _ _ _ _ _ false Hp1 Ha E) as [C R].
  assert (F : forall x st', let o := finish x st' fs1 evs in clean_ok false (o_trace o) = true /\ racc_ok None (o_trace o) = true).
  { intros x' st'. unfold finish, final_close. cbn [o_trace]. destruct (pop fs1) as [f t].
    split; [apply clean_close; exact C|apply racc_close; exact R]. }
  destruct HC as [(_ & _ & ->)|(_ & _ & [[_ ->]|[_ ->]])]; try apply F. cbn [o_trace]. split; assumption.
Qed.

Lemma bump_after c st d n : st_after c (bump_conns st d) n = bump_conns (st_after c st n) d.
Proof. unfold st_after. destruct (n =? 0); reflexivity. Qed.
Lemma bump_cancel st : bump_conns (bump_conns st 1) (-1) = st.
Proof. destruct st. unfold bump_conns. cbn. f_equal. lia. Qed.

Lemma napps_close evs f : napps (evs ++ [EvClose f]) = napps evs.
Proof. rewrite napps_app. change (napps [EvClose f]) with 0. lia. Qed.

(* the worker after the connection: only the counters moved, by the number of application entries *)
Theorem connection_state w c st ps apps fs :
  let o := connection w c st ps apps fs in
  (o_escaped o = None \/ exists e, o_escaped o = Some e /\ is_exception (x_cls e) = true) ->
  o_st o = st_after c st (napps (o_trace o)).
Proof.
  cbn zeta. destruct (connection_unfold w c st ps apps fs) as (w' & st0 & ps1 & x & st1 & fs1 & evs & E & -> & _ & HC).
  pose proof (conn_loop_state _ _ _ _ _ _ _ _ _ _ E) as S.
  assert (Fn : forall x st', napps (o_trace (finish x st' fs1 evs)) = napps evs).
  { intros x' st'. unfold finish, final_close. cbn [o_trace]. destruct (pop fs1). apply napps_close. }
  destruct HC as [(_ & -> & ->)|(_ & -> & [[_ ->]|[(e & -> & Hx) ->]])]; intros H.
  - rewrite Fn. exact S.
  - rewrite Fn. unfold finish. cbn [o_st]. rewrite S, bump_after, bump_cancel. reflexivity.
  - cbn [o_escaped] in H. destruct H as [H|(e' & H & H')]; [discriminate|]. injection H as <-. congruence.
Qed.
