(* C12, third sentence, composed: a header block whose fields respect limit_request_fields and
   limit_request_field_size also fits the cap of the whole block (max_buffer_headers), so a request within
   all limits is not rejected for size at ANY of the three places where gunicorn tests a size. *)
From Coq Require Import List NArith ZArith Bool Lia Arith.
From GV Require Import Base.Bytes Base.Scan Base.PyStr Gen.GenParser Model.Parser Proof.ParserHead Proof.Limits.
Import ListNotations.
Local Open Scope N_scope.

(* the bytes of a list of lines, each with its CRLF *)
Definition tot (ls : list bytes) : N := fold_right (fun l a => blen l + 2 + a) 0 ls.
Lemma tot_app a b : tot (a ++ b) = tot a + tot b.
Proof. induction a as [|x a IH]; cbn [app tot fold_right]; [reflexivity|]. fold (tot (a ++ b)) (tot a). rewrite IH. lia. Qed.

(* data.split(b"\r\n") loses nothing but the separators: lines + one CRLF each = the data + one CRLF *)
Lemma split_crlf_aux_tot : forall n l cur, (length l <= n)%nat ->
    tot (split_crlf_aux cur l) = N.of_nat (length cur) + blen l + 2.
Proof.
  induction n as [|n IH]; intros l cur Hn.
  - destruct l; [|cbn in Hn; lia]. cbn. unfold blen. rewrite rev_length. cbn. lia.
  - destruct l as [|x [|y t']].
    + cbn. unfold blen. rewrite rev_length. cbn. lia.
    + cbn. unfold blen. rewrite app_length, rev_length. cbn. lia.
    + change (split_crlf_aux cur (x :: y :: t')) with
        (if (x =? 13) && (y =? 10) then rev cur :: split_crlf_aux [] t' else split_crlf_aux (x :: cur) (y :: t')).
      destruct ((x =? 13) && (y =? 10)).
      * change (tot (rev cur :: split_crlf_aux [] t')) with (blen (rev cur) + 2 + tot (split_crlf_aux [] t')).
        rewrite (IH t' []) by (cbn in Hn; lia).
        unfold blen. rewrite rev_length. cbn [length]. lia.
      * rewrite IH by (cbn in Hn |- *; lia). unfold blen. cbn [length]. lia.
Qed.
Lemma split_crlf_tot data : tot (split_crlf data) = blen data + 2.
Proof. unfold split_crlf. rewrite (split_crlf_aux_tot (length data) data [] (le_n _)). cbn. lia. Qed.

Lemma span_ws_app : forall ls conts rest, span_ws ls = (conts, rest) -> ls = conts ++ rest.
Proof.
  induction ls as [|l t IH]; intros conts rest H; cbn [span_ws] in H; [injection H as <- <-; reflexivity|].
  destruct (starts_ws l); [|injection H as <- <-; reflexivity].
  destruct (span_ws t) as [a b] eqn:E. injection H as <- <-. cbn. f_equal. apply IH. reflexivity.
Qed.
Lemma span_ws_length ls conts rest : span_ws ls = (conts, rest) -> (length rest <= length ls)%nat.
Proof. intros H. apply span_ws_app in H. subst ls. rewrite app_length. lia. Qed.

Lemma field_len_tot curr conts : field_len curr conts = blen curr + 2 + tot conts.
Proof.
  unfold field_len. generalize (blen curr + 2) as a. induction conts as [|l t IH]; intros a; cbn [fold_left tot fold_right]; [lia|].
  fold (tot t). rewrite IH. lia.
Qed.

(* fields within the limits: their lines take at most (fields still allowed) * field size bytes *)
Lemma within_limits_tot c : 0 < eff_field_size c -> forall fuel lines n,
    (length lines < fuel)%nat -> n <= eff_fields c -> within_limits c fuel lines n = true ->
    tot lines <= (eff_fields c - n) * eff_field_size c.
Proof.
  intros Hfs. induction fuel as [|fuel IH]; intros lines n Hf Hn H; [lia|].
  cbn [within_limits] in H. destruct lines as [|curr rest]; [cbn [tot fold_right]; apply N.le_0_l|].
  destruct (span_ws rest) as [conts rest'] eqn:Esp.
  apply andb_prop in H as [H H3]. apply andb_prop in H as [H1 H2]. apply N.ltb_lt in H1.
  pose proof (span_ws_app _ _ _ Esp) as Hsplit. pose proof (span_ws_length _ _ _ Esp) as Hlen.
  cbn [length] in Hf.
  specialize (IH rest' (n + 1) ltac:(lia) ltac:(lia) H3).
  unfold field_too_long in H2. apply negb_true_iff in H2.
  replace (0 <? eff_field_size c) with true in H2 by (symmetry; apply N.ltb_lt; exact Hfs). cbn [andb] in H2.
  apply N.ltb_ge in H2. rewrite field_len_tot in H2.
  cbn [tot fold_right]. fold (tot rest). rewrite Hsplit, tot_app.
  replace (eff_fields c - n) with (eff_fields c - (n + 1) + 1) by lia.
  rewrite N.mul_add_distr_r, N.mul_1_l. lia.
Qed.

(* ... hence the block fits the cap gunicorn puts on the header block as a whole *)
Theorem within_limits_block_fits : forall c block,
    0 < eff_field_size c ->
    within_limits c (S (length (split_crlf block))) (split_crlf block) 0 = true ->
    N.of_nat (length block + 4) <= max_buffer_headers c.
Proof.
  intros c block Hfs H.
  pose proof (within_limits_tot c Hfs _ _ 0 (Nat.lt_succ_diag_r _) ltac:(lia) H) as Ht.
  rewrite split_crlf_tot, N.sub_0_r in Ht. unfold max_buffer_headers.
  replace (eff_field_size c =? 0) with false by (symmetry; apply N.eqb_neq; lia).
  unfold blen in Ht. rewrite Nat2N.inj_add. change (N.of_nat 4) with 4.
  rewrite N.mul_add_distr_l. lia.
Qed.

(* the header stage: a block found in the stream whose fields are within the limits is not refused for size *)
Theorem header_block_within_limits_not_rejected : forall c rbuf p i,
    0 < eff_field_size c ->
    prefixb CRLF (rbuf ++ concat p) = false -> find_pat CRLFCRLF (rbuf ++ concat p) = Some i ->
    within_limits c (S (length (split_crlf (firstn i (rbuf ++ concat p))))) (split_crlf (firstn i (rbuf ++ concat p))) 0 = true ->
    canonH (header_stage c rbuf p) <> inr ELimitRequestHeaders.
Proof.
  intros c rbuf p i Hfs Hd Hf Hw. rewrite header_stage_cut.
  rewrite (scan_canon hdr_find (cap_over (max_buffer_headers c)) 4 2 (hdr_post (max_buffer_headers c))
             hdr_find_stable hdr_find_late hdr_find_bound (cap_over_mono _) (hdr_early _ (max_buffer_headers_ge4 c))).
  set (t := rbuf ++ concat p) in *.
  pose proof (find_pat_bound _ _ _ Hf) as Hb. cbn [length CRLFCRLF] in Hb.
  pose proof (within_limits_block_fits c (firstn i t) Hfs Hw) as Hfit.
  rewrite firstn_length in Hfit. replace (Nat.min i (length t)) with i in Hfit by lia.
  unfold abs_cut, hdr_find. rewrite Hd, Hf. unfold hdr_post, cap_post.
  replace (max_buffer_headers c <? N.of_nat (i + 4)) with false by (symmetry; apply N.ltb_ge; exact Hfit).
  rewrite andb_false_r. cbn [hs_of_cut].
  rewrite prefixb_firstn by (cbn; lia). rewrite Hd.
  rewrite firstn_firstn. replace (Nat.min i (i + 2)) with i by lia.
  pose proof (parse_headers_within_limit c false (is_ssl c) (firstn i t) Hw) as Hp.
  destruct (parse_headers c false (is_ssl c) (firstn i t)) as [[hs h]|e]; [discriminate|congruence].
Qed.

(* ---- the whole request head: within all three limits => rejected for size nowhere ------------------------------ *)
Lemma short_request_line_rest : forall lim data p i,
    find_pat CRLF (data ++ concat p) = Some i -> (lim = 0 \/ N.of_nat i <= lim) ->
    canon3 (read_line lim data p) = inl (firstn i (data ++ concat p), skipn (i + 2) (data ++ concat p)).
Proof.
  intros lim data p i Hf Hi. rewrite read_line_cut.
  rewrite (scan_canon (find_pat CRLF) (rl_over lim) 2 2 (rl_post lim) (find_pat_stable CRLF) crlf_late crlf_bound (rl_over_mono lim) (rl_early lim)).
  unfold abs_cut. rewrite Hf. unfold rl_post.
  replace ((0 <? lim) && (lim <? N.of_nat i)) with false.
  - cbn [rl_of_cut]. rewrite firstn_firstn. replace (Nat.min i (i + 2)) with i by lia. reflexivity.
  - symmetry. destruct Hi as [->|Hi]; [reflexivity|]. apply andb_false_intro2. apply N.ltb_ge. exact Hi.
Qed.

Definition size_error (e : perr) : bool := match e with ELimitRequestLine | ELimitRequestHeaders => true | _ => false end.

Lemma parse_request_line_no_size_error c x line e : parse_request_line c x line = inr e -> size_error e = false.
Proof.
  unfold parse_request_line.
  destruct (splitn 32 2 line) as [|m [|uri [|ver [|? ?]]]]; try (intros [= <-]; reflexivity).
  destruct (_ && _)%bool; [intros [= <-]; reflexivity|]. destruct (negb (is_token m)); [intros [= <-]; reflexivity|].
  destruct uri as [|u0 uri]; [intros [= <-]; reflexivity|].
  destruct (existsb _ _); [intros [= <-]; reflexivity|]. destruct (negb (uri_ok x _)); [intros [= <-]; reflexivity|].
  destruct (parse_version ver) as [[a b]|]; [|intros [= <-]; reflexivity].
  destruct (_ && _)%bool; [intros [= <-]; reflexivity|discriminate].
Qed.
Lemma te_vals_no_size_error : forall vals st e, te_vals st vals = inr e -> size_error e = false.
Proof.
  induction vals as [|v t IH]; intros st e; cbn [te_vals]; [discriminate|].
  destruct (classify v); try (intros [= <-]; reflexivity);
    (destruct (f_chunked st); [intros [= <-]; reflexivity|apply IH]).
Qed.
Lemma scan_headers_no_size_error : forall hs st e, scan_headers st hs = inr e -> size_error e = false.
Proof.
  induction hs as [|[n v] t IH]; intros st e; cbn [scan_headers]; [discriminate|].
  destruct (beq n n_cl).
  - destruct (f_cl st); [intros [= <-]; reflexivity|apply IH].
  - destruct (beq n n_te); [|apply IH].
    destruct (te_vals st (map (strip is_ows) (split_char 44 v))) as [st'|e'] eqn:Et; [apply IH|].
    intros [= <-]. eapply te_vals_no_size_error. exact Et.
Qed.
Lemma set_body_reader_no_size_error hs ver e : set_body_reader hs ver = inr e -> size_error e = false.
Proof.
  unfold set_body_reader.
  destruct (scan_headers _ hs) as [st|e'] eqn:Es; [|intros [= <-]; eapply scan_headers_no_size_error; exact Es].
  destruct (f_chunked st).
  - destruct (_ || _)%bool; [intros [= <-]; reflexivity|]. destruct (f_cl st); [intros [= <-]; reflexivity|discriminate].
  - destruct (f_cl st) as [v|]; [|discriminate]. destruct (_ && _)%bool; [discriminate|intros [= <-]; reflexivity].
Qed.

Lemma parse_headers_loop_no_line_error c ft : forall fuel lines nn seen hh acc,
    parse_headers_loop c ft fuel lines nn seen hh acc <> inr ELimitRequestLine.
Proof.
  induction fuel as [|fuel IH]; intros lines nn seen hh acc; cbn [parse_headers_loop]; [discriminate|].
  destruct lines as [|curr rest]; [discriminate|].
  destruct (eff_fields c <=? nn); [discriminate|].
  destruct (find_char 58 curr) as [[|ii]|]; [discriminate| |discriminate].
  destruct (span_ws rest) as [conts rest'].
  destruct (negb (is_token _)); [discriminate|].
  destruct (_ && negb (permit_obsolete_folding c))%bool; [discriminate|].
  destruct ((0 <? eff_field_size c) && _)%bool.
  { rewrite andb_true_r. destruct (match conts with [] => false | _ => true end); [discriminate|].
    destruct (existsb _ _); discriminate. }
  rewrite andb_false_r.
  destruct (existsb _ _); [discriminate|].
  match goal with |- context [match ?sr with inl _ => _ | inr _ => _ end] => destruct sr as [[seen' https']|e6] eqn:Esr end.
  - destruct (mem 95 _); [destruct (bmem _ _ || bmem _ _)%bool; [apply IH|]; destruct (header_map c =? 2); [apply IH|];
                          destruct (header_map c =? 0); [apply IH|discriminate]|apply IH].
  - intros [= ->]. destruct (if negb ft && fwd_trusted c then assoc _ _ else None); [|discriminate Esr].
    destruct seen; [destruct (Bool.eqb _ _); discriminate Esr|discriminate Esr].
Qed.
Lemma header_stage_no_line_error c rb p : header_stage c rb p <> inr ELimitRequestLine.
Proof.
  unfold header_stage. destruct (scan _ _ rb p) as [k dd q| |dd]; try discriminate.
  destruct (prefixb CRLF dd); [discriminate|]. destruct (cap_post _ 4 k); [discriminate|].
  pose proof (parse_headers_loop_no_line_error c false (S (length (split_crlf (firstn k dd)))) (split_crlf (firstn k dd)) 0 false (is_ssl c) []) as H.
  unfold parse_headers. destruct (parse_headers_loop c false _ _ 0 false (is_ssl c) []) as [[hs h]|e5]; [discriminate|congruence].
Qed.

(* A request whose request line, number of fields and size of every field are within the configured limits is not
   rejected for size - whatever else may be wrong with it, and however the stream is cut into reads. *)
Theorem request_within_limits_not_rejected_for_size : forall c x n d p i j e,
    proxy_protocol c = false -> 0 < eff_field_size c ->
    find_pat CRLF (d ++ concat p) = Some i -> (eff_line c = 0 \/ N.of_nat i <= eff_line c) ->
    prefixb CRLF (skipn (i + 2) (d ++ concat p)) = false ->
    find_pat CRLFCRLF (skipn (i + 2) (d ++ concat p)) = Some j ->
    within_limits c (S (length (split_crlf (firstn j (skipn (i + 2) (d ++ concat p))))))
                  (split_crlf (firstn j (skipn (i + 2) (d ++ concat p)))) 0 = true ->
    parse_from c x n d p = inr e -> size_error e = false.
Proof.
  intros c x n d p i j e Hpp Hfs Hf Hi Hd Hj Hw H.
  pose proof (short_request_line_rest (eff_line c) d p i Hf Hi) as Hl.
  unfold parse_from in H.
  destruct (read_line (eff_line c) d p) as [[[l1 r1] p1]|e1]; cbn [canon3] in Hl; [|discriminate].
  injection Hl as -> Hr.
  unfold proxy_stage in H. rewrite Hpp in H. cbn [andb] in H.
  destruct (parse_request_line c x _) as [[[m uri] ver]|e2] eqn:E2;
    [|injection H as <-; eapply parse_request_line_no_size_error; exact E2].
  pose proof (header_block_within_limits_not_rejected c r1 p1 j Hfs) as Hh. rewrite Hr in Hh.
  specialize (Hh Hd Hj Hw).
  destruct (header_stage c r1 p1) as [[[hs https] p4]|e3] eqn:E3.
  - destruct (set_body_reader hs ver) as [[fr mc]|e4] eqn:E4; [discriminate|].
    injection H as <-. eapply set_body_reader_no_size_error. exact E4.
  - injection H as <-. cbn [canonH] in Hh.
    (* a header-stage error: not ELimitRequestHeaders by Hh; ELimitRequestLine is never its answer *)
    destruct e3; try reflexivity; [exfalso; eapply header_stage_no_line_error; exact E3|exfalso; apply Hh; reflexivity].
Qed.
