(* The chunked reader, part 2: the segmentation-free meaning of a generator state ([decodes]) and the
   soundness of every generator step with respect to it. *)
From Coq Require Import List NArith ZArith Bool Lia Arith.
From GV Require Import Base.Bytes Base.Scan Base.PyStr Gen.GenParser Model.Parser Proof.TakeDrop Proof.ParserHead Proof.ChunkedSteps.
Import ListNotations.
Local Open Scope N_scope.

Inductive astate := AStart (s : bytes) | AData (lft : N) (s : bytes) | ATerm (s : bytes) | ADead (s : bytes).
Inductive dterm := DStop (after : bytes) (tr : option (list header)) | DRaise (e : perr).

Definition zsize (c : cfg) (s : bytes) : csz := canonZ (parse_chunk_size c s []).

(* decodes c a D T : from abstract state a the chunked body still yields the bytes D and then ends with T *)
Inductive decodes (c : cfg) : astate -> bytes -> dterm -> Prop :=
| dec_dead s : decodes c (ADead s) [] (DStop s None)
| dec_start_chunk s n rest D T : zsize c s = ZChunk n rest -> decodes c (AData n rest) D T -> decodes c (AStart s) D T
| dec_start_last s a tr : zsize c s = ZLast a tr -> decodes c (AStart s) [] (DStop a tr)
| dec_start_err s e : zsize c s = ZErr e -> decodes c (AStart s) [] (DRaise e)
| dec_data_eof l : decodes c (AData l []) [] (DRaise ENoMoreData)
| dec_data_short l s : s <> [] -> blen s < l -> decodes c (AData l s) s (DRaise ENoMoreData)
| dec_data l s D T : s <> [] -> l <= blen s -> decodes c (ATerm (dropN l s)) D T -> decodes c (AData l s) (takeN l s ++ D) T
| dec_term_bad s : beq (firstn 2 s) CRLF = false -> decodes c (ATerm s) [] (DRaise EChunkMissingTerminator)
| dec_term_chunk s n rest D T : beq (firstn 2 s) CRLF = true -> zsize c (skipn 2 s) = ZChunk n rest ->
                               decodes c (AData n rest) D T -> decodes c (ATerm s) D T
| dec_term_last s a tr : beq (firstn 2 s) CRLF = true -> zsize c (skipn 2 s) = ZLast a tr -> decodes c (ATerm s) [] (DStop a tr)
| dec_term_err s e : beq (firstn 2 s) CRLF = true -> zsize c (skipn 2 s) = ZErr e -> decodes c (ATerm s) [] (DRaise e).

Ltac dec_conflict :=
  repeat match goal with
  | H1 : zsize ?c ?s = _, H2 : zsize ?c ?s = _ |- _ =>
      rewrite H1 in H2; first [discriminate H2 | injection H2 as ? ?; subst | injection H2 as ?; subst]
  | H1 : beq ?x ?y = true, H2 : beq ?x ?y = false |- _ => rewrite H1 in H2; discriminate H2
  | H : ?x <> ?x |- _ => exfalso; apply H; reflexivity
  | H1 : blen ?s < ?l, H2 : ?l <= blen ?s |- _ => exfalso; lia
  end.

Theorem decodes_fun c : forall a D T, decodes c a D T -> forall D' T', decodes c a D' T' -> D = D' /\ T = T'.
Proof.
  induction 1; intros D' T' H'; inversion H'; subst; dec_conflict; auto;
    match goal with
    | IH : forall D' T', decodes _ ?a D' T' -> _, H : decodes _ ?a _ _ |- _ => destruct (IH _ _ H) as [-> ->]; auto
    end.
Qed.

(* ---- generator states ---------------------------------------------------------------------------- *)
Definition abs_g (g : gstate) (p : unreader) : astate :=
  match g with
  | GStart => AStart (u_abs p)
  | GPartial l => AData l (u_abs p)
  | GAfterLast n rest => ATerm (dropN n rest ++ u_abs p)
  | GDead => ADead (u_abs p)
  end.
Definition ginv (g : gstate) : Prop := match g with GPartial l => 0 < l | _ => True end.
Definition gmeasure (g : gstate) (p : unreader) : nat :=
  (2 * length p + length (u_abs p) + match g with GAfterLast _ rest => length rest | _ => 0 end)%nat.

Lemma chunk_size_pos c data p n rest p' : parse_chunk_size c data p = CSChunk n rest p' -> 0 < n.
Proof.
  unfold parse_chunk_size. destruct (scan _ _ data p) as [i d q| |d]; try discriminate.
  destruct (cap_post _ 2 i); [discriminate|].
  destruct (mem 13 _ || mem 10 _); [discriminate|]. destruct (negb (hexdigits_ok _)); [discriminate|].
  destruct (match find_char 59 (firstn i d) with Some j => _ | None => _ end) as [|z s]; [discriminate|].
  destruct (hex_value (z :: s) =? 0) eqn:E.
  - destruct (parse_trailers c _ q) as [[a b]|e]; discriminate.
  - intros H. injection H as <- _ _. apply N.eqb_neq in E. lia.
Qed.

Lemma gen_enter_sound c n rest p :
  0 < n ->
  match gen_enter n rest p with
  | GYield piece g' p' => p' = p /\ ginv g' /\
      (forall D T, decodes c (abs_g g' p') D T -> decodes c (AData n (rest ++ u_abs p)) (piece ++ D) T) /\
      (gmeasure g' p' <= 2 * length p + length (u_abs p) + length rest)%nat
  | _ => False
  end.
Proof.
  intros Hn. unfold gen_enter. destruct (blen rest <? n) eqn:E.
  - apply N.ltb_lt in E. split; [reflexivity|]. split; [cbn; lia|]. split; [|cbn; lia].
    intros D T H. cbn [abs_g] in H. generalize dependent (u_abs p). intros s H.
    inversion H; subst.
    + (* nothing more comes *)
      rewrite !app_nil_r. destruct rest as [|x rest]; [constructor|]. apply dec_data_short; [discriminate|exact E].
    + apply dec_data_short.
      * intros Hnil. apply app_eq_nil in Hnil as [_ Hnil]. congruence.
      * rewrite blen_app. lia.
    + rewrite app_assoc. rewrite <- (takeN_app_r n rest s) by lia.
      apply dec_data.
      * intros Hnil. apply app_eq_nil in Hnil as [_ Hnil]. congruence.
      * rewrite blen_app. lia.
      * rewrite dropN_app_r by lia. assumption.
  - apply N.ltb_ge in E. split; [reflexivity|]. split; [exact I|]. split; [|cbn; lia].
    intros D T H. cbn [abs_g] in H.
    rewrite <- (takeN_app_l n rest (u_abs p)) by exact E. apply dec_data.
    + intros Hnil. apply app_eq_nil in Hnil as [Hr _]. subst rest. cbn in E. lia.
    + rewrite blen_app. lia.
    + rewrite dropN_app_l by exact E. exact H.
Qed.

Lemma fill2_spec : forall p rest rest' p', NE p -> fill2 rest p = (rest', p') ->
    rest' ++ concat p' = rest ++ concat p /\ NE p' /\ (2 <= blen rest' \/ p' = []) /\ (length p' <= length p)%nat.
Proof.
  induction p as [|ch t IH]; intros rest rest' p' Hne H; cbn [fill2] in H.
  - assert (Hr : rest' = rest /\ p' = []) by (destruct (2 <=? blen rest); injection H as <- <-; auto).
    destruct Hr as [-> ->]. repeat split; auto.
  - destruct (2 <=? blen rest) eqn:E.
    + injection H as <- <-. apply N.leb_le in E. repeat split; auto.
    + apply IH in H; [|eapply NE_tl; exact Hne]. destruct H as (H1 & H2 & H3 & H4). cbn [concat length]. rewrite H1, <- app_assoc.
      repeat split; auto.
Qed.

Lemma firstn_app_enough {A} n (a b : list A) : (n <= length a)%nat \/ b = [] -> firstn n (a ++ b) = firstn n a.
Proof.
  intros [H| ->]; [|rewrite app_nil_r; reflexivity]. rewrite firstn_app. replace (n - length a)%nat with 0%nat by lia.
  cbn. apply app_nil_r.
Qed.

(* the outcome of a size line, related to the abstract state reached *)
Lemma size_outcome_sound c data p :
  NE p ->
  match parse_chunk_size c data p with
  | CSChunk n rest p' =>
      NE p' /\ 0 < n /\ zsize c (data ++ u_abs p) = ZChunk n (rest ++ u_abs p')
      /\ (length p' <= length p)%nat /\ (length rest + length (u_abs p') + 2 <= length data + length (u_abs p))%nat
      /\ (find_pat CRLF data = None -> length p' < length p)%nat
  | CSLast p' tr => NE p' /\ zsize c (data ++ u_abs p) = ZLast (u_abs p') tr
  | CSErr e _ => zsize c (data ++ u_abs p) = ZErr e
  end.
Proof.
  intros Hne. pose proof (parse_chunk_size_indep c data p) as Hi. unfold zsize, u_abs in *. rewrite <- Hi.
  destruct (parse_chunk_size c data p) as [n rest p'|p' tr|e q] eqn:E; cbn [canonZ].
  - destruct (parse_chunk_size_chunk _ _ _ _ _ _ Hne E) as (H1 & H2 & H3 & H4).
    pose proof (chunk_size_pos _ _ _ _ _ _ E). auto 10.
  - split; [|reflexivity]. unfold parse_chunk_size in E.
    destruct (scan _ _ data p) as [i d q| |d] eqn:Es; try discriminate.
    destruct (cap_post _ 2 i); [discriminate|].
    destruct (mem 13 _ || mem 10 _); [discriminate|]. destruct (negb (hexdigits_ok _)); [discriminate|].
    destruct (match find_char 59 (firstn i d) with Some j => _ | None => _ end) as [|z s]; [discriminate|].
    destruct (hex_value (z :: s) =? 0); [|discriminate].
    destruct (parse_trailers c (skipn (i + 2) d) q) as [[a b]|e] eqn:Et; [|discriminate]. injection E as <- <-.
    eapply parse_trailers_NE; [|exact Et]. eapply scan_found_NE; eassumption.
  - reflexivity.
Qed.

Theorem gen_next_sound c g p :
  NE p -> ginv g ->
  match gen_next c g p with
  | GYield piece g' p' =>
      NE p' /\ ginv g' /\ (forall D T, decodes c (abs_g g' p') D T -> decodes c (abs_g g p) (piece ++ D) T)
      /\ (gmeasure g' p' + 2 <= gmeasure g p)%nat
  | GStop p' tr => NE p' /\ decodes c (abs_g g p) [] (DStop (u_abs p') tr)
  | GRaise e _ => decodes c (abs_g g p) [] (DRaise e)
  end.
Proof.
  intros Hne Hg. destruct g as [|l|size rest|]; cbn [gen_next abs_g].
  - (* GStart *)
    pose proof (size_outcome_sound c [] p Hne) as Hs. cbn [app] in Hs.
    destruct (parse_chunk_size c [] p) as [n r p'|p' tr|e q].
    + destruct Hs as (N1 & Hn & Hz & L1 & L2 & L3).
      pose proof (gen_enter_sound c n r p' Hn) as He. destruct (gen_enter n r p') as [piece g' p''| |]; try contradiction.
      destruct He as (-> & G & Hd & Hm). split; [exact N1|]. split; [exact G|]. split.
      * intros D T H. eapply dec_start_chunk; [exact Hz|]. apply Hd. exact H.
      * specialize (L3 eq_refl). unfold gmeasure at 2. cbn [length] in L2. lia.
    + destruct Hs as [N1 Hz]. split; [exact N1|]. apply dec_start_last. exact Hz.
    + apply dec_start_err. exact Hs.
  - (* GPartial *)
    destruct p as [|ch t]; cbn [u_read].
    + constructor.
    + inversion Hne as [|? ? Hch Ht]; subst. destruct ch as [|b ch]; [congruence|].
      pose proof (gen_enter_sound c l (b :: ch) t Hg) as He.
      destruct (gen_enter l (b :: ch) t) as [piece g' p''| |]; try contradiction.
      destruct He as (-> & G & Hd & Hm). split; [exact Ht|]. split; [exact G|]. split.
      * intros D T H. cbn [u_abs concat]. apply Hd. exact H.
      * unfold gmeasure at 2. unfold u_abs in *. cbn [concat]. rewrite app_length. cbn [length] in *. lia.
  - (* GAfterLast *)
    destruct (fill2 (dropN size rest) p) as [rest' p'] eqn:Ef.
    destruct (fill2_spec _ _ _ _ Hne Ef) as (Hab & N1 & H2 & L0). unfold u_abs. rewrite <- Hab.
    assert (Hf2 : firstn 2 (rest' ++ concat p') = firstn 2 rest').
    { apply firstn_app_enough. destruct H2 as [H2|H2]; [left; unfold blen in H2; lia|right; subst p'; reflexivity]. }
    destruct (beq (firstn 2 rest') CRLF) eqn:Eb; cbn [negb].
    + assert (Hl2 : (2 <= length rest')%nat).
      { apply beq_true in Eb. apply (f_equal (@length N)) in Eb. rewrite firstn_length in Eb. change (length CRLF) with 2%nat in Eb. lia. }
      assert (Hsk : skipn 2 (rest' ++ concat p') = skipn 2 rest' ++ concat p').
      { rewrite skipn_app. replace (2 - length rest')%nat with 0%nat by lia. reflexivity. }
      pose proof (size_outcome_sound c (skipn 2 rest') p' N1) as Hs. unfold u_abs in Hs. rewrite <- Hsk in Hs.
      assert (Hlen : (length rest' + length (concat p') <= length rest + length (concat p))%nat).
      { apply (f_equal (@length N)) in Hab. rewrite !app_length in Hab.
        pose proof (blen_dropN size rest) as Hd. unfold blen in Hd. lia. }
      destruct (parse_chunk_size c (skipn 2 rest') p') as [n r q|q tr|e q].
      * destruct Hs as (N2 & Hn & Hz & L1 & L2 & L3).
        pose proof (gen_enter_sound c n r q Hn) as He. destruct (gen_enter n r q) as [piece g' p''| |]; try contradiction.
        destruct He as (-> & G & Hd & Hm). split; [exact N2|]. split; [exact G|]. split.
        -- intros D T H. eapply dec_term_chunk; [rewrite Hf2; exact Eb|exact Hz|]. apply Hd. exact H.
        -- unfold gmeasure at 2. rewrite skipn_length in L2. unfold u_abs in *. lia.
      * destruct Hs as [N2 Hz]. split; [exact N2|]. eapply dec_term_last; [rewrite Hf2; exact Eb|exact Hz].
      * eapply dec_term_err; [rewrite Hf2; exact Eb|exact Hs].
    + apply dec_term_bad. rewrite Hf2. exact Eb.
  - split; [exact Hne|]. constructor.
Qed.
