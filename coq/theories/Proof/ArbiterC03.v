(* C03: reaping, oldest-first retirement, boot-failure halt, and the known refutations. *)
From Coq Require Import List ZArith Bool Lia.
From GV Require Import Gen.GenArbiter Model.Arbiter Proof.ArbiterBase Proof.ArbiterInv.
Import ListNotations.
Local Open Scope Z_scope.
Local Opaque reap_guards_halting.

(* ---- no zombie survives a SIGCHLD step ------------------------------------------------------------ *)
Lemma first_zombie_length : forall l z rest, first_zombie l = Some (z, rest) -> length l = S (length rest).
Proof.
  intros. apply first_zombie_some in H. destruct H as [_ [l1 [l2 [-> [-> _]]]]]. rewrite !app_length. simpl. lia.
Qed.

Lemma reap_none_no_zombie : forall f s s', (length (kids s) < f)%nat -> reap f s = (s', None) ->
  forallb is_running (kids s') = true.
Proof.
  induction f; intros s s' Hf R. lia.
  simpl in R. destruct (first_zombie (kids s)) as [[z rest]|] eqn:F.
  2: { inversion R; subst. apply first_zombie_none. auto. }
  apply first_zombie_length in F.
  destruct (reexec s =? c_pid z).
  - apply IHf in R; auto. simpl. lia.
  - destruct ((Z.shiftr (status_of z) 8 =? worker_boot_error) && raises _); try discriminate.
    destruct ((Z.shiftr (status_of z) 8 =? app_load_error) && raises _); try discriminate.
    apply IHf in R; auto. simpl. lia.
Qed.

(* the handler either raises HaltServer (a worker could not boot) or leaves no zombie behind *)
Theorem no_zombie_survives_chld : forall s,
  master_gone (cur s) = false ->
  match reap (S (length (kids s))) s with
  | (_, Some code) => code = worker_boot_error \/ code = app_load_error
  | (s1, None) => kids (chld s) = kids s1 /\ forallb is_running (kids (chld s)) = true
  end.
Proof.
  intros s Hg. unfold chld. rewrite Hg. destruct (reap (S (length (kids s))) s) as [s1 [code|]] eqn:R.
  - clear Hg. revert R. generalize (S (length (kids s))). intros f. revert s.
    induction f; simpl; intros; try discriminate.
    destruct (first_zombie (kids s)) as [[z rest]|]; try discriminate.
    destruct (reexec s =? c_pid z). eauto.
    destruct ((Z.shiftr (status_of z) 8 =? worker_boot_error) && raises _). inversion R; auto.
    destruct ((Z.shiftr (status_of z) 8 =? app_load_error) && raises _). inversion R; auto. eauto.
  - simpl. split; auto. eapply reap_none_no_zombie; eauto.
Qed.

Lemma firstn_in : forall (A : Type) k (l : list A) x, In x (firstn k l) -> In x l.
Proof. induction k; destruct l; simpl; intros; auto. contradiction. destruct H; auto. Qed.

(* ---- surplus workers are retired oldest first ------------------------------------------------------ *)
Definition victims_of (s : st) : list wk := firstn (Z.to_nat (wlen s - num s)) (sort_by_age (workers s)).

Lemma victims_minimal_any : forall s a b, In a (victims_of s) -> In b (workers s) -> ~ In b (victims_of s) ->
  w_age a <= w_age b.
Proof.
  intros s a b Ha Hb Hn. unfold victims_of in *.
  eapply firstn_sorted_minimal; eauto. apply sort_by_age_sorted.
  apply sort_by_age_in in Hb.
  rewrite <- (firstn_skipn (Z.to_nat (wlen s - num s)) (sort_by_age (workers s))) in Hb.
  apply in_app_iff in Hb. tauto.
Qed.

Theorem surplus_oldest_first : forall s, Inv s -> cur s = PManageSort ->
  (* what manage_workers is about to kill, in this order, with SIGTERM *)
  (master s = manage_kill_next s (pids (victims_of s))) /\
  (* it is the prefix of WORKERS of the right length *)
  victims_of s = firstn (Z.to_nat (wlen s - num s)) (workers s) /\
  length (victims_of s) = Nat.min (Z.to_nat (wlen s - num s)) (length (workers s)) /\
  (* and every victim is strictly older than every worker that is kept *)
  (forall a b, In a (victims_of s) -> In b (workers s) -> ~ In b (victims_of s) -> w_age a < w_age b).
Proof.
  intros s H PC. unfold Inv in H. rewrite PC in H. pose proof (i_ages _ _ H) as Ha. simpl in Ha. rewrite app_nil_r in Ha.
  assert (E : victims_of s = firstn (Z.to_nat (wlen s - num s)) (workers s)).
  { unfold victims_of. rewrite sort_by_age_id; auto. }
  repeat split; auto.
  - unfold master. rewrite PC. reflexivity.
  - rewrite E. apply firstn_length.
  - intros a b Hva Hb Hnb. pose proof (victims_minimal_any s a b Hva Hb Hnb) as Hle.
    assert (w_age a <> w_age b); try lia. intro Heq.
    assert (Hia : In a (workers s)). { rewrite E in Hva. eapply firstn_in; eauto. }
    assert (a = b). 2: { subst. contradiction. }
    clear - Ha Hia Hb Heq. induction (workers s); simpl in *; try contradiction.
    destruct Ha as [H1 H2]. rewrite Forall_forall in H1.
    destruct Hia as [<-|Hia]; destruct Hb as [<-|Hb]; auto.
    + specialize (H1 (w_age b) (in_map _ _ _ Hb)). lia.
    + specialize (H1 (w_age a) (in_map _ _ _ Hia)). lia.
Qed.

(* a PManageKill step sends SIGTERM to the head of the list and goes on with the rest *)
Lemma manage_kill_step : forall s p v, cur s = PManageKill (p :: v) ->
  master s = manage_kill_next (kill_worker s p SIGTERM) v.
Proof. intros. unfold master. rewrite H. reflexivity. Qed.

(* ---- a worker that cannot boot stops the server ---------------------------------------------------- *)
(* [halting x p]: the master is inside a stop() at whose end it exits with status x (or has done so).  The stop(False) of
   handle_int / handle_quit (continuation AHalt: `raise StopIteration` -> halt() -> exit 0) only counts when reap_workers
   does not raise once stop() has begun; without that guard a boot failure reaped there replaces the status.  A master
   that died of an escaped HaltServer is only possible without the guard. *)
Definition after_status (x : Z) (a : after) : Prop :=
  match a with AExit y => y = x | AHalt => x = 0 /\ reap_guards_halting = true end.
Definition kacont_status (x : Z) (k : kacont) : Prop :=
  match k with KALoop => False | KAWait _ a | KADone a => after_status x a end.
Definition halting (x : Z) (p : pc) : Prop :=
  match p with
  | PKillAllSnap _ k | PKillAll _ _ k => kacont_status x k
  | PStopWait _ a | PStopNap _ a => after_status x a
  | PExited y => y = x
  | PCrashed => reap_guards_halting = false
  | _ => False
  end.

Lemma halting_killall_next : forall x s l sg k,
  halting x (PKillAll l sg k) -> halting x (cur (killall_next s l sg k)) /\ forks (killall_next s l sg k) = forks s.
Proof.
  intros. unfold killall_next. destruct l; simpl; auto.
  destruct k; simpl in *; try contradiction; auto.
  destruct a; simpl in *; auto. destruct H as [-> _]. unfold enter_stop. destruct (lopen s); simpl; auto.
Qed.

Lemma forks_kill_worker : forall s p sg, forks (kill_worker s p sg) = forks s.
Proof. intros. unfold kill_worker. destruct (kill_in (kids s) p sg) as [[k d]|]; simpl; auto. destruct d; auto. Qed.
Lemma cur_kill_worker : forall s p sg, cur (kill_worker s p sg) = cur s.
Proof. intros. unfold kill_worker. destruct (kill_in (kids s) p sg) as [[k d]|]; simpl; auto. destruct d; auto. Qed.

Lemma raises_cur : forall a b, cur a = cur b -> raises a = raises b.
Proof. intros a b E. unfold raises, stopping. rewrite E. reflexivity. Qed.

Lemma reap_forks_cur : forall f s s' r, reap f s = (s', r) -> forks s' = forks s /\ cur s' = cur s.
Proof.
  induction f; simpl; intros. inversion H; auto.
  destruct (first_zombie (kids s)) as [[z rest]|]. 2: (inversion H; auto).
  destruct (reexec s =? c_pid z). apply IHf in H. simpl in H. auto.
  destruct ((Z.shiftr (status_of z) 8 =? worker_boot_error) && raises _). inversion H; auto.
  destruct ((Z.shiftr (status_of z) 8 =? app_load_error) && raises _). inversion H; auto.
  apply IHf in H. simpl in H. auto.
Qed.

(* HaltServer is raised only where the tests of reap_workers let it *)
Lemma reap_some_raises : forall f s s' code, reap f s = (s', Some code) -> raises s = true.
Proof.
  induction f; simpl; intros s s' code H. discriminate.
  destruct (first_zombie (kids s)) as [[z rest]|]. 2: discriminate.
  destruct (reexec s =? c_pid z). { apply IHf in H. rewrite <- H. apply raises_cur. reflexivity. }
  destruct (raises (set_kids s rest)) eqn:E. { rewrite <- E. apply raises_cur. reflexivity. }
  rewrite !andb_false_r in H. apply IHf in H. rewrite <- H. apply raises_cur. reflexivity.
Qed.

Lemma raises_in_stop : forall s, raises s = true -> in_stop (cur s) = true -> reap_guards_halting = false.
Proof.
  intros s R I. unfold raises, stopping in R. rewrite I in R.
  destruct reap_guards_halting; [discriminate R|reflexivity].
Qed.

Lemma guarded_not_stopping : forall s, reap_guards_halting = true -> raises s = true -> in_stop (cur s) = false.
Proof. intros s G R. destruct (in_stop (cur s)) eqn:I; [|reflexivity]. pose proof (raises_in_stop s R I). congruence. Qed.

Lemma final_in_stop : forall p, in_final_stop p = true -> in_stop p = true.
Proof. destruct p; simpl; try discriminate; auto; destruct k; auto. Qed.

Lemma halting_in_stop : forall x p, halting x p -> master_gone p = false -> in_stop p = true.
Proof. intros x p H G. destruct p; simpl in *; try contradiction; try discriminate; auto; destruct k; simpl in H; auto; contradiction. Qed.

Lemma halting_in_final_stop : forall x p, halting x p -> master_gone p = false -> reap_guards_halting = false ->
  in_final_stop p = true.
Proof.
  intros x p H G N.
  destruct p; simpl in *; try contradiction; try discriminate; auto;
    try (destruct k; simpl in H; try contradiction); destruct a; simpl in *; auto; destruct H; congruence.
Qed.

Lemma halting_master : forall x s, halting x (cur s) -> halting x (cur (master s)) /\ forks (master s) = forks s.
Proof.
  intros x s H. unfold master. destruct (cur s) as [ | | | | | | | | | | | |sg k|l sg k|limit a|limit a| | | |y| ] eqn:PC;
    simpl in H; try contradiction.
  - apply halting_killall_next. simpl. exact H.
  - destruct l as [|q l]. apply halting_killall_next; auto.
    destruct (halting_killall_next x (kill_worker s q sg) l sg k H) as [H1 H2]. rewrite forks_kill_worker in H2. auto.
  - destruct (negb (wlen s =? 0) && (wall s <? limit)); simpl; auto.
  - simpl. auto.
  - rewrite PC. simpl. auto.
  - rewrite PC. simpl. auto.
Qed.

Lemma halting_step : forall x s l, halting x (cur s) -> halting x (cur (step s l)) /\ forks (step s l) = forks s.
Proof.
  intros x s l H. destruct l; unfold step.
  - apply halting_master; auto.
  - (* Chld *) unfold chld. destruct (master_gone (cur s)) eqn:G; auto.
    destruct (reap (S (length (kids s))) s) as [s1 r] eqn:R. pose proof R as R0. apply reap_forks_cur in R. destruct R as [R1 R2].
    destruct r; simpl.
    + (* HaltServer inside a stop(): the tree has no guard, and this is the stop() of halt() *)
      pose proof (raises_in_stop s (reap_some_raises _ _ _ _ R0) (halting_in_stop _ _ H G)) as N.
      rewrite R2. rewrite (halting_in_final_stop _ _ H G N). simpl. auto.
    + rewrite R2. auto.
  - simpl. auto.
  - destruct (master_gone (cur s)); auto. destruct (zmem sg queued_signals && (Z.of_nat (length (sigq s)) <? sig_queue_max)); auto.
  - destruct (0 <=? dt); auto.
  - unfold notify. destruct (find_kid p (kids s)); auto. destruct (is_running c && negb (c_master c)); auto.
    cbn [cur set_workers]. destruct (cur s) eqn:PC; simpl in H; try contradiction; cbn; rewrite PC; simpl; auto.
  - destruct ((0 <=? w) && (0 <=? t)); auto.
  - simpl. auto.
  - simpl. auto.
  - unfold notify_all. cbv zeta. cbn [cur set_workers].
    destruct (cur s) eqn:PC; simpl in H; try contradiction; cbn; rewrite ?PC; simpl; auto.
  - unfold notify_at. destruct (find_kid p (kids s)); auto. destruct (_ && _); auto.
    cbn [cur set_workers]. destruct (cur s) eqn:PC; simpl in H; try contradiction; cbn; rewrite PC; simpl; auto.
Qed.

Lemma halting_run : forall x ls s, halting x (cur s) -> halting x (cur (run s ls)) /\ forks (run s ls) = forks s.
Proof.
  induction ls; simpl; intros; auto. destruct (halting_step x s a H) as [H1 H2].
  destruct (IHls _ H1) as [H3 H4]. split; auto. congruence.
Qed.

(* what [halting x] promises about the rest of the run, spelled out *)
Lemma halting_outcome : forall x s ls, halting x (cur s) ->
  forks (run s ls) = forks s /\
  (forall y, cur (run s ls) = PExited y -> y = x) /\
  (cur (run s ls) = PCrashed -> reap_guards_halting = false).
Proof.
  intros x s ls H. destruct (halting_run x ls s H) as [H1 H2]. split; auto. split.
  - intros y E. rewrite E in H1. exact H1.
  - intros E. rewrite E in H1. exact H1.
Qed.

(* HaltServer raised by the handler while the master is serving: halt(reason, code) begins *)
Lemma chld_halts : forall s s1 code, master_gone (cur s) = false -> in_final_stop (cur s) = false ->
  reap (S (length (kids s))) s = (s1, Some code) ->
  cur (chld s) = PKillAllSnap SIGTERM (KAWait (wall s1 + graceful s1 * tps) (AExit code)) /\ forks (chld s) = forks s.
Proof.
  intros s s1 code G F R. unfold chld. rewrite G, R. destruct (reap_forks_cur _ _ _ _ R) as [R1 R2].
  rewrite R2, F. unfold enter_stop. simpl. split; destruct (lopen s1); simpl; auto.
Qed.

(* when does the handler raise: some zombie that is not the re-exec'ed master carries a boot-failure code *)
Definition boot_code (c : child) : bool :=
  (Z.shiftr (status_of c) 8 =? worker_boot_error) || (Z.shiftr (status_of c) 8 =? app_load_error).

Lemma reap_none_no_boot_failure : forall f s s', (length (kids s) < f)%nat -> Inv s -> raises s = true -> reap f s = (s', None) ->
  forall z, In z (kids s) -> is_zombie z = true -> boot_code z = true -> c_pid z = reexec s.
Proof.
  induction f; intros s s' Hf HI HR R z Hz Zz Bz. lia.
  simpl in R. destruct (first_zombie (kids s)) as [[z0 rest]|] eqn:F.
  2: { apply first_zombie_none in F. rewrite forallb_forall in F. apply F in Hz. unfold is_running in Hz. rewrite Zz in Hz. discriminate. }
  pose proof (first_zombie_length _ _ _ F) as HL.
  destruct (first_zombie_rest _ _ _ F (i_kids _ _ HI)) as [Hi [Hsub Hz0]].
  assert (H1 : InvAt (cur s) (set_kids s rest)). { apply invat_kids_sub; auto. intros c Hc. apply Hsub. auto. }
  apply first_zombie_some in F. destruct F as [_ [l1 [l2 [E1 [E2 _]]]]].
  assert (Hcase : z = z0 \/ In z rest).
  { rewrite E1 in Hz. rewrite E2. apply in_app_iff in Hz. simpl in Hz. rewrite in_app_iff.
    destruct Hz as [Hz|[Hz|Hz]]; auto. }
  assert (HR1 : raises (set_kids s rest) = true). { rewrite <- HR. apply raises_cur. reflexivity. }
  simpl in R. rewrite HR1, !andb_true_r in R. destruct (reexec s =? c_pid z0) eqn:E.
  - rewrite Z.eqb_eq in E. destruct Hcase as [->|Hin]; auto.
    assert (HI2 : Inv (set_reexec (set_kids s rest) 0)).
    { unfold Inv. simpl. eapply invat_clear_reexec with (z := c_pid z0); eauto. simpl. intros c Hc. apply Hsub. auto. }
    assert (HL2 : (length (kids (set_reexec (set_kids s rest) 0)) < f)%nat) by (simpl; lia).
    assert (HR2 : raises (set_reexec (set_kids s rest) 0) = true). { rewrite <- HR. apply raises_cur. reflexivity. }
    specialize (IHf _ _ HL2 HI2 HR2 R z Hin Zz Bz). simpl in IHf.
    (* pids are positive *)
    pose proof (i_kfresh _ _ HI) as Hp. rewrite Forall_forall in Hp. specialize (Hp (c_pid z) (in_map _ _ _ Hz)). lia.
  - destruct Hcase as [->|Hin].
    + unfold boot_code in Bz. apply orb_true_iff in Bz.
      destruct (Z.shiftr (status_of z0) 8 =? worker_boot_error); try discriminate.
      destruct (Z.shiftr (status_of z0) 8 =? app_load_error); try discriminate. destruct Bz; discriminate.
    + destruct (Z.shiftr (status_of z0) 8 =? worker_boot_error); try discriminate.
      destruct (Z.shiftr (status_of z0) 8 =? app_load_error); try discriminate.
      assert (HI2 : Inv (set_workers (set_kids s rest) (remove_wk (c_pid z0) (workers (set_kids s rest))))).
      { unfold Inv. simpl. apply (invat_remove (cur s) (set_kids s rest)); auto. simpl. intros _ c Hc. apply Hsub. auto. }
      assert (HL2 : (length (kids (set_workers (set_kids s rest) (remove_wk (c_pid z0) (workers (set_kids s rest))))) < f)%nat) by (simpl; lia).
      assert (HR2 : raises (set_workers (set_kids s rest) (remove_wk (c_pid z0) (workers (set_kids s rest)))) = true).
      { rewrite <- HR. apply raises_cur. reflexivity. }
      specialize (IHf _ _ HL2 HI2 HR2 R z Hin Zz Bz). simpl in IHf. auto.
Qed.

(* [raises s]: the tests of reap_workers let a boot failure through - always on a tree without the guard, before stop()
   has been entered on a tree with it.  Then the boot failure of a worker halts the master with the worker's code, for
   every continuation of the schedule: no fork any more, an orderly exit carries that status - also when further boot
   failures or other deaths are reaped while halt() / stop() run - and (with the guard) no exception leaves run(). *)
Theorem boot_failure_halts : forall s z,
  Inv s -> master_gone (cur s) = false -> in_final_stop (cur s) = false -> raises s = true ->
  In z (kids s) -> is_zombie z = true -> boot_code z = true -> c_pid z <> reexec s ->
  exists code, (code = worker_boot_error \/ code = app_load_error) /\
    halting code (cur (chld s)) /\ master_gone (cur (chld s)) = false /\
    forall ls, forks (run (chld s) ls) = forks s /\
               (forall x, cur (run (chld s) ls) = PExited x -> x = code) /\
               (cur (run (chld s) ls) = PCrashed -> reap_guards_halting = false).
Proof.
  intros s z HI G F HR Hz Zz Bz Nz.
  destruct (reap (S (length (kids s))) s) as [s1 [code|]] eqn:R.
  - pose proof (no_zombie_survives_chld s G) as Hc. rewrite R in Hc.
    destruct (chld_halts _ _ _ G F R) as [H1 H2]. exists code. split; auto.
    assert (Hh : halting code (cur (chld s))). { rewrite H1. simpl. reflexivity. }
    split; [exact Hh|]. split; [rewrite H1; reflexivity|].
    intros ls. destruct (halting_outcome code (chld s) ls Hh) as [A [B C]].
    split; [congruence|]. split; assumption.
  - exfalso. apply Nz. eapply reap_none_no_boot_failure; eauto.
Qed.

(* with the guard, "not yet stopping" is all it takes *)
Lemma guarded_boot_failure_pre : forall s, reap_guards_halting = true -> stopping s = false ->
  raises s = true /\ in_final_stop (cur s) = false.
Proof.
  intros s _ N. split. { unfold raises. rewrite N, andb_false_r. reflexivity. }
  destruct (in_final_stop (cur s)) eqn:F; [|reflexivity]. apply final_in_stop in F. unfold stopping in N. congruence.
Qed.

Theorem boot_failure_halts_guarded : reap_guards_halting = true -> forall s z,
  Inv s -> master_gone (cur s) = false -> stopping s = false ->
  In z (kids s) -> is_zombie z = true -> boot_code z = true -> c_pid z <> reexec s ->
  exists code, (code = worker_boot_error \/ code = app_load_error) /\
    halting code (cur (chld s)) /\ master_gone (cur (chld s)) = false /\
    forall ls, forks (run (chld s) ls) = forks s /\
               (forall x, cur (run (chld s) ls) = PExited x -> x = code) /\
               cur (run (chld s) ls) <> PCrashed.
Proof.
  intros Gd s z HI G N Hz Zz Bz Nz. destruct (guarded_boot_failure_pre s Gd N) as [HR F].
  destruct (boot_failure_halts s z HI G F HR Hz Zz Bz Nz) as [code [H1 [H2 [H3 H4]]]].
  exists code. split; [exact H1|]. split; [exact H2|]. split; [exact H3|].
  intros ls. destruct (H4 ls) as [A [B C]]. split; [exact A|]. split; [exact B|].
  intro X. apply C in X. congruence.
Qed.

(* ---- TERM / INT / QUIT: the exit status is 0 whatever is reaped while the master stops ---------------------------- *)
Lemma stop_signals_distinct :
  (SIGTERM =? SIGHUP) = false /\ (SIGINT =? SIGHUP) = false /\ (SIGQUIT =? SIGHUP) = false /\
  (SIGINT =? SIGTERM) = false /\ (SIGQUIT =? SIGTERM) = false.
Proof. vm_compute. repeat split; reflexivity. Qed.

Theorem stop_signal_exits_0 : forall s sg q,
  cur s = PSigq -> sigq s = sg :: q ->
  sg = SIGTERM \/ (reap_guards_halting = true /\ (sg = SIGINT \/ sg = SIGQUIT)) ->
  halting 0 (cur (master s)) /\
  forall ls, forks (run (master s) ls) = forks (master s) /\
             (forall x, cur (run (master s) ls) = PExited x -> x = 0) /\
             (cur (run (master s) ls) = PCrashed -> reap_guards_halting = false).
Proof.
  intros s sg q PC Q Hs. destruct stop_signals_distinct as [D1 [D2 [D3 [D4 D5]]]].
  assert (H : halting 0 (cur (master s))).
  { unfold master. rewrite PC, Q. unfold dispatch. destruct Hs as [->|[G [->| ->]]].
    - rewrite D1, Z.eqb_refl. unfold enter_stop. cbv zeta. destruct (lopen _); simpl; auto.
    - rewrite D2, D4, Z.eqb_refl. cbn [orb]. unfold enter_stop. cbv zeta. destruct (lopen _); simpl; auto.
    - rewrite D3, D5, Z.eqb_refl, orb_true_r. unfold enter_stop. cbv zeta. destruct (lopen _); simpl; auto. }
  split; auto. intros ls. apply halting_outcome. exact H.
Qed.

(* the orderly-exit statuses *)
Theorem exit_status_in_0_3_4 : forall s x, reachable s -> cur s = PExited x ->
  x = 0 \/ x = worker_boot_error \/ x = app_load_error.
Proof.
  intros s x R PC. apply inv_reachable in R. pose proof (i_after _ _ R) as H. rewrite PC in H. simpl in H.
  inversion H; subst. exact H2.
Qed.
