(* From the trace checkers of Proof/ConnProofs.v to statements about positions in a trace. *)
From Coq Require Import List NArith ZArith Bool Lia.
From GV Require Import Base.Enc Base.Dec Gen.GenErrors Model.Handle Proof.HandleProofs Proof.ConnProofs.
Import ListNotations.

(* ---- dispatch discipline ---- *)
Definition dstep (s : dstate) (e : ev) : dstate :=
  if is_reject e then DDead else if is_headev e then DPermit else if is_app e then DIdle else s.

Lemma disp_ok_split : forall pre s l, disp_ok s (pre ++ l) = true -> disp_ok (fold_left dstep pre s) l = true.
Proof.
  induction pre as [|e t IH]; intros s l H; [exact H|]. cbn [List.app disp_ok fold_left] in *. unfold dstep at 2.
  destruct (is_reject e); [destruct s; try discriminate; apply IH; exact H|].
  destruct (is_headev e); [destruct s; try discriminate; apply IH; exact H|].
  destruct (is_app e); [destruct s; try discriminate; apply IH; exact H|].
  apply IH. exact H.
Qed.

Lemma disp_dead l : disp_ok DDead l = true -> forallb neutral l = true.
Proof.
  induction l as [|e t IH]; intros H; [reflexivity|]. cbn [disp_ok] in H. cbn [forallb]. unfold neutral at 1, is_parse.
  destruct (is_reject e); [discriminate|]. destruct (is_headev e); [discriminate|]. destruct (is_app e); [discriminate|].
  cbn. apply IH. exact H.
Qed.

Lemma after_reject l pre e post :
  disp_ok DIdle l = true -> l = pre ++ e :: post -> is_reject e = true -> forallb neutral post = true.
Proof.
  intros H -> He. apply disp_ok_split in H. cbn [disp_ok] in H. rewrite He in H.
  apply disp_dead. destruct (fold_left dstep pre DIdle); try discriminate; exact H.
Qed.

Lemma permit_origin : forall pre s, fold_left dstep pre s = DPermit ->
  (s = DPermit /\ forallb neutral pre = true) \/ (exists a b, pre = a ++ EvHead :: b /\ forallb neutral b = true).
Proof.
  induction pre as [|e t IH] using rev_ind; intros s H.
  - left. split; [exact H|reflexivity].
  - rewrite fold_left_app in H. cbn [fold_left] in H. unfold dstep in H.
    destruct (is_reject e) eqn:Er; [discriminate|]. destruct (is_headev e) eqn:Eh.
    + right. exists t, []. split; [|reflexivity]. destruct e; try discriminate. reflexivity.
    + destruct (is_app e) eqn:Ea; [discriminate|].
      assert (Hn : neutral e = true) by (unfold neutral, is_parse; rewrite Ea, Eh, Er; reflexivity).
      destruct (IH _ H) as [[Hs Hp]|(a & b & -> & Hb)].
      * left. split; [exact Hs|]. rewrite forallb_app, Hp. cbn. rewrite Hn. reflexivity.
      * right. exists a, (b ++ [e]). split; [rewrite <- app_assoc; reflexivity|]. rewrite forallb_app, Hb. cbn. rewrite Hn. reflexivity.
Qed.

Lemma app_has_head l pre post :
  disp_ok DIdle l = true -> l = pre ++ EvApp :: post ->
  exists a b, pre = a ++ EvHead :: b /\ forallb neutral b = true.
Proof.
  intros H ->. apply disp_ok_split in H. cbn [disp_ok is_reject is_headev is_app] in H.
  destruct (fold_left dstep pre DIdle) eqn:E; try discriminate.
  destruct (permit_origin _ _ E) as [[K _]|K]; [discriminate|exact K].
Qed.

(* ---- error page: at most one, and last ---- *)
Lemma err_ok_true_close l : err_ok true l = true -> forallb is_close l = true.
Proof. induction l as [|e t IH]; [reflexivity|]. cbn. intros H. apply andb_prop in H as [H1 H2]. rewrite H1, (IH H2). reflexivity. Qed.

Lemma err_position : forall pre page f post,
  err_ok false (pre ++ EvErr page f :: post) = true ->
  forallb (fun e => negb (is_err e)) pre = true /\ forallb is_close post = true.
Proof.
  induction pre as [|e t IH]; intros page f post H.
  - split; [reflexivity|]. cbn in H. apply err_ok_true_close. exact H.
  - cbn [List.app err_ok] in H. destruct (is_err e) eqn:Ee.
    + apply err_ok_true_close in H. rewrite forallb_app in H. apply andb_prop in H as [_ H]. cbn in H. discriminate.
    + destruct (IH _ _ _ H) as [A B]. split; [cbn; rewrite Ee, A; reflexivity|exact B].
Qed.

(* ---- no error page after a response head ---- *)
(* has a response head gone out since the last parser event? *)
Fixpoint dirty_after (d : bool) (pre : list ev) : bool :=
  match pre with
  | [] => d
  | e :: t => dirty_after (if is_parse e then false else d || ok_hdr e) t
  end.

Lemma clean_position : forall pre d page f post,
  forallb (fun e => negb (is_err e)) pre = true ->
  clean_ok d (pre ++ EvErr page f :: post) = true -> dirty_after d pre = false.
Proof.
  induction pre as [|e t IH]; intros d page f post Hn H.
  - cbn in H. apply andb_prop in H as [H _]. apply negb_true_iff in H. exact H.
  - cbn in Hn. apply andb_prop in Hn as [H1 H2]. apply negb_true_iff in H1. cbn [List.app clean_ok dirty_after] in *.
    rewrite H1 in H. destruct (is_parse e); eapply IH; eassumption.
Qed.

(* ---- records after a rejection ---- *)
Lemma racc_budget : forall l k, forallb (fun e => negb (is_reject e)) l = true -> racc_ok (Some k) l = true ->
  (count is_access l <= k)%nat.
Proof.
  induction l as [|e t IH]; intros k Hn H; [cbn; lia|]. cbn in Hn. apply andb_prop in Hn as [H1 H2]. apply negb_true_iff in H1.
  cbn [racc_ok] in H. rewrite H1 in H. unfold count. cbn [filter]. destruct (is_access e).
  - destruct k as [|k]; [discriminate|]. cbn [length]. specialize (IH _ H2 H). unfold count in IH. lia.
  - apply (IH _ H2 H).
Qed.

Lemma racc_split : forall pre b l, racc_ok b (pre ++ l) = true -> exists b', racc_ok b' l = true.
Proof.
  induction pre as [|e t IH]; intros b l H; [exists b; exact H|]. cbn [List.app racc_ok] in H.
  destruct (is_reject e); [eapply IH; exact H|]. destruct (is_access e); [|eapply IH; exact H].
  destruct b as [[|k]|]; try discriminate; eapply IH; exact H.
Qed.

Lemma neutral_noreject l : forallb neutral l = true -> forallb (fun e => negb (is_reject e)) l = true.
Proof. apply forallb_impl. intros e. unfold neutral, is_parse. destruct (is_reject e); [rewrite orb_true_r, andb_false_r; discriminate|reflexivity]. Qed.

Lemma reject_records l pre e post :
  racc_ok None l = true -> disp_ok DIdle l = true -> l = pre ++ e :: post -> is_reject e = true ->
  (count is_access post <= 1)%nat.
Proof.
  intros R D -> He. pose proof (after_reject _ _ _ _ D eq_refl He) as Hn.
  destruct (racc_split _ _ _ R) as [b' Hb]. cbn [racc_ok] in Hb. rewrite He in Hb.
  apply racc_budget; [apply neutral_noreject; exact Hn|exact Hb].
Qed.
