(* Proofs about Model/GThread.v: invariants over ALL interleavings (induction over label sequences). *)
From Coq Require Import List ZArith Bool Arith Lia.
From GV Require Import Base.Enc Model.GThread.
Import ListNotations.
Local Open Scope Z_scope.

(* ------------------------------------------------------------------------------------------------ *)
(* lists                                                                                            *)
(* ------------------------------------------------------------------------------------------------ *)
Lemma nth_upd_eq : forall A n (f:A->A) (l:list A), nth_error (upd n f l) n = option_map f (nth_error l n).
Proof. induction n; destruct l; simpl; auto. Qed.

Lemma nth_upd_ne : forall A n m (f:A->A) (l:list A), n <> m -> nth_error (upd n f l) m = nth_error l m.
Proof.
  induction n; destruct l; destruct m; simpl; intros; auto; try congruence.
Qed.

Lemma upd_length : forall A n (f:A->A) (l:list A), length (upd n f l) = length l.
Proof. induction n; destruct l; simpl; auto. Qed.

Lemma count_upd : forall A (p:A->bool) n f (l:list A) x, nth_error l n = Some x ->
  count_if p (upd n f l) = count_if p l - (if p x then 1 else 0) + (if p (f x) then 1 else 0).
Proof.
  induction n; destruct l; simpl; intros; try discriminate.
  - inversion H; subst. lia.
  - rewrite (IHn f l x H). lia.
Qed.

Lemma count_app : forall A (p:A->bool) l1 l2, count_if p (l1 ++ l2) = count_if p l1 + count_if p l2.
Proof. induction l1; simpl; intros; auto. rewrite IHl1. lia. Qed.

Lemma count_nonneg : forall A (p:A->bool) l, 0 <= count_if p l.
Proof. induction l; simpl; try lia. destruct (p a); lia. Qed.

Lemma mem_In : forall c l, mem c l = true <-> In c l.
Proof.
  induction l; simpl; split; intros; try discriminate; try contradiction.
  - apply orb_true_iff in H. destruct H. apply Nat.eqb_eq in H. auto. right. apply IHl. auto.
  - apply orb_true_iff. destruct H. left. subst. apply Nat.eqb_refl. right. apply IHl. auto.
Qed.

Lemma mem_false : forall c l, mem c l = false <-> ~ In c l.
Proof.
  intros. split; intros.
  - intro. apply mem_In in H0. congruence.
  - destruct (mem c l) eqn:E; auto. apply mem_In in E. contradiction.
Qed.

Lemma remove1_In : forall c x l, In x (remove1 c l) -> In x l.
Proof.
  induction l; simpl; intros; auto. destruct (Nat.eqb c a). auto. destruct H; auto.
Qed.

Lemma remove1_nodup : forall c l, NoDup l -> NoDup (remove1 c l).
Proof.
  induction l; simpl; intros; auto. inversion H; subst. destruct (Nat.eqb c a); auto.
  constructor; auto. intro. apply H2. eapply remove1_In; eauto.
Qed.

Lemma remove1_notin : forall c l, NoDup l -> ~ In c (remove1 c l).
Proof.
  induction l; simpl; intros. intro; contradiction. inversion H; subst.
  destruct (Nat.eqb_spec c a). subst; auto.
  intros [E|E]. congruence. apply IHl in E; auto.
Qed.

Lemma remove1_other : forall c x l, x <> c -> In x l -> In x (remove1 c l).
Proof.
  induction l; simpl; intros; auto. destruct (Nat.eqb_spec c a).
  - destruct H0; congruence.
  - destruct H0. left; auto. right; auto.
Qed.

Lemma nodup_app1 : forall (c:nat) l, NoDup l -> ~ In c l -> NoDup (l ++ [c]).
Proof.
  induction l; simpl; intros.
  - constructor. intro; contradiction. constructor.
  - inversion H; subst. constructor.
    + intro. apply in_app_or in H1. destruct H1. contradiction. simpl in H1. destruct H1; auto.
    + apply IHl; auto.
Qed.

(* ------------------------------------------------------------------------------------------------ *)
(* the structural invariant, over the components of a state                                         *)
(* ------------------------------------------------------------------------------------------------ *)
Definition stl (cs:list conn) (c:nat) : option cst := option_map st (nth_error cs c).
Definition cnt (cs:list conn) : Z := count_if (fun x => is_counted (st x)) cs.

Definition is_handling (v:cst) : bool :=
  match v with CQueued | CRunning | CDone _ | CTimed => true | _ => false end.

Definition pc_ok (cs:list conn) (kp:list nat) (p:pc) : Prop :=
  match p with
  | MAccReg c _ => stl cs c = Some CNew
  | MPutback c => stl cs c = Some CKeep /\ ~ In c kp
  | MUnreg _ c => stl cs c = Some CExpiring
  | _ => True
  end.

Record InvP (cs:list conn) (bl:list nat) (nr:Z) (kp rg:list nat) (pcl:bool) (p:pc) : Prop := mkInv {
  i_acct : nr = cnt cs;
  i_closes : forall c x, nth_error cs c = Some x -> closes x = match st x with CClosed => 1%nat | _ => 0%nat end;
  i_keep : pcl = false -> forall c, In c kp -> stl cs c = Some CKeep;
  i_keep_nd : pcl = false -> NoDup kp;
  i_backlog : forall c, In c bl -> stl cs c = Some CPending;
  i_backlog_nd : NoDup bl;
  i_regd : forall c, In c rg -> stl cs c = Some CNew \/ stl cs c = Some CKeep \/ stl cs c = Some CExpiring;
  i_regd_nd : NoDup rg;
  i_uninit : forall c x, nth_error cs c = Some x -> inited x = false -> st x = CPending \/ st x = CNew;
  i_exp : forall c, stl cs c = Some CExpiring -> exists now, p = MUnreg now c;
  i_pc : pc_ok cs kp p;
  i_pclosed : pcl = true -> p = MFinal \/ p = MStopped
}.

Definition Inv (s:state) : Prop :=
  InvP (conns s) (backlog s) (nr_conns s) (keep s) (regd s) (pclosed s) (mpc s).

Ltac eqcase a b := destruct (Nat.eqb_spec a b); [subst|].

Lemma stl_upd : forall cs c c' f,
  stl (upd c f cs) c' = if Nat.eqb c c' then option_map (fun x => st (f x)) (nth_error cs c) else stl cs c'.
Proof.
  intros. unfold stl. destruct (Nat.eqb_spec c c').
  - subst. rewrite nth_upd_eq. destruct (nth_error cs c'); auto.
  - rewrite nth_upd_ne; auto.
Qed.

Lemma stl_some : forall cs c x, nth_error cs c = Some x -> stl cs c = Some (st x).
Proof. intros. unfold stl. rewrite H. auto. Qed.

(* the state of another connection is unaffected *)
Lemma stl_other : forall cs c x f c' v, nth_error cs c = Some x -> st x <> v ->
  stl cs c' = Some v -> stl (upd c f cs) c' = Some v.
Proof.
  intros. rewrite stl_upd. destruct (Nat.eqb_spec c c'); auto. subst.
  rewrite (stl_some _ _ _ H) in H1. congruence.
Qed.

Lemma cnt_upd : forall cs c f x, nth_error cs c = Some x ->
  cnt (upd c f cs) = cnt cs - (if is_counted (st x) then 1 else 0) + (if is_counted (st (f x)) then 1 else 0).
Proof. intros. unfold cnt. apply (count_upd _ (fun x => is_counted (st x))). auto. Qed.

(* a connection changes but keeps its state, or moves between the "being handled" states *)
Lemma invp_upd_gen : forall cs bl nr kp rg pcl p c x f, InvP cs bl nr kp rg pcl p -> nth_error cs c = Some x ->
  (st (f x) = st x \/ (is_handling (st x) = true /\ is_handling (st (f x)) = true)) ->
  closes (f x) = closes x -> inited (f x) = inited x ->
  InvP (upd c f cs) bl nr kp rg pcl p.
Proof.
  intros cs bl nr kp rg pcl p c x f [Hacct Hcl Hkeep Hknd Hbl Hblnd Hreg Hregnd Hun Hexp Hpc Hpcl] Hx Hst Hclo Hini.
  assert (Hcnt : is_counted (st (f x)) = is_counted (st x)).
  { destruct Hst as [E|[E1 E2]]. rewrite E; auto. destruct (st x); destruct (st (f x)); simpl in *; congruence. }
  assert (Hany : forall c' v, is_handling v = false -> stl cs c' = Some v -> stl (upd c f cs) c' = Some v).
  { intros. rewrite stl_upd. destruct (Nat.eqb_spec c c'); auto. subst. rewrite Hx. simpl.
    rewrite (stl_some _ _ _ Hx) in H0. inversion H0; subst.
    destruct Hst as [E|[E1 E2]]; congruence. }
  assert (Hback : forall c' v, is_handling v = false -> stl (upd c f cs) c' = Some v -> stl cs c' = Some v).
  { intros c' v Hv. rewrite stl_upd. destruct (Nat.eqb_spec c c'); auto. subst. rewrite Hx. simpl.
    rewrite (stl_some _ _ _ Hx). intro H0. inversion H0; subst.
    destruct Hst as [E|[E1 E2]]; congruence. }
  constructor.
  - rewrite (cnt_upd _ _ _ _ Hx). rewrite Hcnt. rewrite Hacct. destruct (is_counted (st x)); lia.
  - intros c' x' H. eqcase c c'.
    + rewrite nth_upd_eq, Hx in H. simpl in H. inversion H; subst. rewrite Hclo, (Hcl _ _ Hx).
      destruct Hst as [E|[E1 E2]]. rewrite E; auto. destruct (st x); destruct (st (f x)); simpl in *; congruence.
    + rewrite nth_upd_ne in H; eauto.
  - intros. apply Hany; auto.
  - auto.
  - intros. apply Hany; auto.
  - auto.
  - intros c' Hin. destruct (Hreg c' Hin) as [E|[E|E]].
    + left. apply Hany; auto.
    + right; left. apply Hany; auto.
    + right; right. apply Hany; auto.
  - auto.
  - intros c' x' H Hi. eqcase c c'.
    + rewrite nth_upd_eq, Hx in H. simpl in H. inversion H; subst. rewrite Hini in Hi. destruct (Hun _ _ Hx Hi) as [E|E];
        destruct Hst as [E'|[E1 E2]]; try (rewrite E'; auto); rewrite E in E1; discriminate.
    + rewrite nth_upd_ne in H; eauto.
  - intros c' H. apply Hback in H; auto.
  - unfold pc_ok in *. destruct p; auto; try (apply Hany; auto; fail).
    destruct Hpc. split; auto.
  - auto.
Qed.

(* finish_request / cancel: decrement and close a connection that was being handled *)
Lemma invp_close : forall cs bl nr kp rg pcl p c x, InvP cs bl nr kp rg pcl p -> nth_error cs c = Some x ->
  is_handling (st x) = true -> InvP (upd c close_conn cs) bl (nr - 1) kp rg pcl p.
Proof.
  intros cs bl nr kp rg pcl p c x [Hacct Hcl Hkeep Hknd Hbl Hblnd Hreg Hregnd Hun Hexp Hpc Hpcl] Hx Hh.
  assert (Hany : forall c' v, is_handling v = false -> stl cs c' = Some v -> stl (upd c close_conn cs) c' = Some v).
  { intros. eapply stl_other; eauto. intro. subst. congruence. }
  constructor.
  - rewrite (cnt_upd _ _ _ _ Hx). simpl. rewrite Hacct.
    destruct (st x); simpl in *; try discriminate; lia.
  - intros c' x' H. eqcase c c'.
    + rewrite nth_upd_eq, Hx in H. simpl in H. inversion H; subst. simpl. rewrite (Hcl _ _ Hx).
      destruct (st x); simpl in *; try discriminate; auto.
    + rewrite nth_upd_ne in H; eauto.
  - intros. apply Hany; auto.
  - auto.
  - intros. apply Hany; auto.
  - auto.
  - intros c' Hin. destruct (Hreg c' Hin) as [E|[E|E]].
    + left. apply Hany; auto.
    + right; left. apply Hany; auto.
    + right; right. apply Hany; auto.
  - auto.
  - intros c' x' H Hi. eqcase c c'.
    + rewrite nth_upd_eq, Hx in H. simpl in H. inversion H; subst. simpl in Hi.
      destruct (Hun _ _ Hx Hi) as [E|E]; rewrite E in Hh; discriminate.
    + rewrite nth_upd_ne in H; eauto.
  - intros c' H. rewrite stl_upd in H. destruct (Nat.eqb_spec c c'); auto. subst. rewrite Hx in H. simpl in H. discriminate.
  - unfold pc_ok in *. destruct p; auto; try (apply Hany; auto; fail).
    destruct Hpc. split; auto.
  - auto.
Qed.

(* the lock block of finish_request: into _keep and registered *)
Lemma invp_finlock : forall cs bl nr kp rg p c x, InvP cs bl nr kp rg false p -> nth_error cs c = Some x ->
  st x = CTimed -> InvP (upd c (set_st CKeep) cs) bl nr (kp ++ [c]) (rg ++ [c]) false p.
Proof.
  intros cs bl nr kp rg p c x [Hacct Hcl Hkeep Hknd Hbl Hblnd Hreg Hregnd Hun Hexp Hpc Hpcl] Hx Hst.
  assert (Hany : forall c' v, is_handling v = false -> stl cs c' = Some v ->
                 stl (upd c (set_st CKeep) cs) c' = Some v).
  { intros. eapply stl_other; eauto. intro. subst. rewrite Hst in H. discriminate. }
  assert (Hnk : ~ In c kp).
  { intro. apply Hkeep in H; auto. rewrite (stl_some _ _ _ Hx) in H. congruence. }
  assert (Hnr : ~ In c rg).
  { intro. apply Hreg in H. rewrite (stl_some _ _ _ Hx) in H. destruct H as [E|[E|E]]; congruence. }
  assert (Hself : stl (upd c (set_st CKeep) cs) c = Some CKeep).
  { rewrite stl_upd, Nat.eqb_refl, Hx. auto. }
  constructor.
  - rewrite (cnt_upd _ _ _ _ Hx). simpl. rewrite Hst. simpl. lia.
  - intros c' x' H. eqcase c c'.
    + rewrite nth_upd_eq, Hx in H. simpl in H. inversion H; subst. simpl. rewrite (Hcl _ _ Hx). rewrite Hst. auto.
    + rewrite nth_upd_ne in H; eauto.
  - intros _ c' Hin. apply in_app_or in Hin. destruct Hin as [Hin|Hin].
    + apply Hany; auto.
    + simpl in Hin. destruct Hin; try contradiction. subst. apply Hself.
  - intros _. apply nodup_app1; auto.
  - intros. apply Hany; auto.
  - auto.
  - intros c' Hin. apply in_app_or in Hin. destruct Hin as [Hin|Hin].
    + destruct (Hreg c' Hin) as [E|[E|E]].
      * left. apply Hany; auto.
      * right; left. apply Hany; auto.
      * right; right. apply Hany; auto.
    + simpl in Hin. destruct Hin; try contradiction. subst. right; left. apply Hself.
  - apply nodup_app1; auto.
  - intros c' x' H Hi. eqcase c c'.
    + rewrite nth_upd_eq, Hx in H. simpl in H. inversion H; subst. simpl in Hi.
      destruct (Hun _ _ Hx Hi) as [E|E]; congruence.
    + rewrite nth_upd_ne in H; eauto.
  - intros c' H. rewrite stl_upd in H. destruct (Nat.eqb_spec c c'); auto. subst. rewrite Hx in H. simpl in H. discriminate.
  - unfold pc_ok in *. destruct p; auto; try (apply Hany; auto; fail).
    destruct Hpc. split. apply Hany; auto.
    intro Hin. apply in_app_or in Hin. destruct Hin as [Hin|Hin]. contradiction.
    simpl in Hin. destruct Hin; try contradiction. subst.
    rewrite (stl_some _ _ _ Hx) in H. congruence.
  - auto.
Qed.

Lemma invp_pcl_false : forall cs bl nr kp rg pcl p, InvP cs bl nr kp rg pcl p ->
  p <> MFinal -> p <> MStopped -> pcl = false.
Proof. intros. destruct pcl; auto. destruct (i_pclosed _ _ _ _ _ _ _ H eq_refl); contradiction. Qed.

Definition not_unreg (p:pc) : Prop := forall now c, p <> MUnreg now c.

(* the main thread moves on; no connection is in the middle of being reaped *)
Lemma invp_pc : forall cs bl nr kp rg pcl p p', InvP cs bl nr kp rg pcl p -> not_unreg p ->
  pc_ok cs kp p' -> (pcl = true -> p' = MFinal \/ p' = MStopped) -> InvP cs bl nr kp rg pcl p'.
Proof.
  intros cs bl nr kp rg pcl p p' [Hacct Hcl Hkeep Hknd Hbl Hblnd Hreg Hregnd Hun Hexp Hpc Hpcl] Hnu Hok Hp.
  constructor; auto.
  intros c H. destruct (Hexp c H) as [now E]. exfalso. eapply Hnu; eauto.
Qed.

Lemma pc_ok_dispatch : forall cs kp r, pc_ok cs kp (dispatch r).
Proof. intros. destruct r as [|[l|c] r]; simpl; auto. Qed.

Lemma dispatch_plain : forall r, not_unreg (dispatch r) /\ dispatch r <> MFinal /\ dispatch r <> MStopped.
Proof. intros. unfold not_unreg. destruct r as [|[l|c] r]; simpl; repeat split; intros; discriminate. Qed.

(* accept: the first connection of the backlog becomes New and is counted *)
Lemma invp_accept : forall cs bl nr kp rg pcl r0 c r, InvP cs (c :: bl) nr kp rg pcl (MAcc r0) ->
  InvP (upd c (set_st CNew) cs) bl (nr + 1) kp rg pcl (MAccReg c r).
Proof.
  intros cs bl nr kp rg pcl r0 c r H.
  assert (Hpf : pcl = false) by (eapply invp_pcl_false; eauto; discriminate).
  destruct H as [Hacct Hcl Hkeep Hknd Hbl Hblnd Hreg Hregnd Hun Hexp Hpc Hpcl].
  assert (Hc : stl cs c = Some CPending) by (apply Hbl; left; auto).
  unfold stl in Hc. destruct (nth_error cs c) as [x|] eqn:Hx; try discriminate. simpl in Hc. inversion Hc as [Hst].
  assert (Hany : forall c' v, v <> CPending -> stl cs c' = Some v -> stl (upd c (set_st CNew) cs) c' = Some v).
  { intros. eapply stl_other; eauto. congruence. }
  inversion Hblnd; subst.
  constructor.
  - rewrite (cnt_upd _ _ _ _ Hx). simpl. rewrite Hst. simpl. lia.
  - intros c' x' H. eqcase c c'.
    + rewrite nth_upd_eq, Hx in H. simpl in H. inversion H; subst. simpl. rewrite (Hcl _ _ Hx). rewrite Hst. auto.
    + rewrite nth_upd_ne in H; eauto.
  - intros. apply Hany; auto. discriminate.
  - auto.
  - intros c' Hin. rewrite stl_upd. destruct (Nat.eqb_spec c c'). subst; contradiction. apply Hbl. right; auto.
  - auto.
  - intros c' Hin. destruct (Hreg c' Hin) as [E|[E|E]].
    + left. apply Hany; auto. discriminate.
    + right; left. apply Hany; auto. discriminate.
    + right; right. apply Hany; auto. discriminate.
  - auto.
  - intros c' x' H Hi. eqcase c c'.
    + rewrite nth_upd_eq, Hx in H. simpl in H. inversion H; subst. simpl. auto.
    + rewrite nth_upd_ne in H; eauto.
  - intros c' H. rewrite stl_upd in H. destruct (Nat.eqb_spec c c').
    + subst. rewrite Hx in H. simpl in H. discriminate.
    + destruct (Hexp c' H). discriminate.
  - simpl. rewrite stl_upd, Nat.eqb_refl, Hx. auto.
  - intro. congruence.
Qed.

Lemma invp_accreg : forall cs bl nr kp rg pcl c r, InvP cs bl nr kp rg pcl (MAccReg c r) -> ~ In c rg ->
  InvP cs bl nr kp (rg ++ [c]) pcl (dispatch r).
Proof.
  intros cs bl nr kp rg pcl c r H Hn.
  assert (Hpf : pcl = false) by (eapply invp_pcl_false; eauto; discriminate).
  destruct H as [Hacct Hcl Hkeep Hknd Hbl Hblnd Hreg Hregnd Hun Hexp Hpc Hpcl].
  constructor; auto.
  - intros c' Hin. apply in_app_or in Hin. destruct Hin as [Hin|Hin]; auto.
    simpl in Hin. destruct Hin; try contradiction. subst. left. exact Hpc.
  - apply nodup_app1; auto.
  - intros c' H. destruct (Hexp c' H). discriminate.
  - apply pc_ok_dispatch.
  - intro. congruence.
Qed.

(* on_client_socket_readable, "race" return: only the registration goes *)
Lemma invp_rd_return : forall cs bl nr kp rg pcl c r, InvP cs bl nr kp rg pcl (MRd c r) ->
  InvP cs bl nr kp (remove1 c rg) pcl (dispatch r).
Proof.
  intros cs bl nr kp rg pcl c r H.
  assert (Hpf : pcl = false) by (eapply invp_pcl_false; eauto; discriminate).
  destruct H as [Hacct Hcl Hkeep Hknd Hbl Hblnd Hreg Hregnd Hun Hexp Hpc Hpcl].
  constructor; auto.
  - intros c' Hin. apply Hreg. eapply remove1_In; eauto.
  - apply remove1_nodup; auto.
  - intros c' H. destruct (Hexp c' H). discriminate.
  - apply pc_ok_dispatch.
  - intro. congruence.
Qed.

(* on_client_socket_readable + enqueue_req *)
Lemma invp_rd : forall cs bl nr kp rg pcl c r x, InvP cs bl nr kp rg pcl (MRd c r) ->
  In c rg -> nth_error cs c = Some x -> (inited x = true -> In c kp) ->
  InvP (upd c (fun y => set_st CQueued (set_inited y)) cs) bl nr
       (if inited x then remove1 c kp else kp) (remove1 c rg) pcl (dispatch r).
Proof.
  intros cs bl nr kp rg pcl c r x H Hin Hx Hik.
  assert (Hpf : pcl = false) by (eapply invp_pcl_false; eauto; discriminate).
  destruct H as [Hacct Hcl Hkeep Hknd Hbl Hblnd Hreg Hregnd Hun Hexp Hpc Hpcl].
  set (f := fun y => set_st CQueued (set_inited y)).
  assert (Hst : st x = CNew \/ st x = CKeep).
  { destruct (Hreg c Hin) as [E|[E|E]]; rewrite (stl_some _ _ _ Hx) in E; inversion E; auto.
    assert (E' : stl cs c = Some CExpiring) by (rewrite (stl_some _ _ _ Hx); auto).
    destruct (Hexp c E'). discriminate. }
  assert (Hoth : forall c' v, c' <> c -> stl cs c' = Some v -> stl (upd c f cs) c' = Some v).
  { intros. rewrite stl_upd. destruct (Nat.eqb_spec c c'); congruence. }
  assert (Hkp : forall c', In c' (if inited x then remove1 c kp else kp) -> In c' kp /\ c' <> c).
  { intros c' H. destruct (inited x) eqn:Ei.
    - split. eapply remove1_In; eauto. intro Ec; subst c'. exact (remove1_notin c kp (Hknd Hpf) H).
    - split; auto. intro Ec; subst c'. apply Hkeep in H; auto. rewrite (stl_some _ _ _ Hx) in H. inversion H.
      destruct (Hun _ _ Hx Ei); congruence. }
  constructor.
  - rewrite (cnt_upd _ _ _ _ Hx). simpl. rewrite Hacct. destruct Hst as [E|E]; rewrite E; simpl; lia.
  - intros c' x' H. eqcase c c'.
    + rewrite nth_upd_eq, Hx in H. simpl in H. inversion H; subst. simpl. rewrite (Hcl _ _ Hx).
      destruct Hst as [E|E]; rewrite E; auto.
    + rewrite nth_upd_ne in H; eauto.
  - intros _ c' H. apply Hkp in H. destruct H. apply Hoth; auto.
  - intros _. destruct (inited x); auto. apply remove1_nodup; auto.
  - intros c' H. apply Hoth; auto. intro Ec; subst c'. apply Hbl in H. rewrite (stl_some _ _ _ Hx) in H.
    destruct Hst; congruence.
  - auto.
  - intros c' H. assert (c' <> c) by (intro Ec; subst c'; exact (remove1_notin c rg Hregnd H)).
    apply remove1_In in H. destruct (Hreg c' H) as [E|[E|E]]; [left|right;left|right;right]; apply Hoth; auto.
  - apply remove1_nodup; auto.
  - intros c' x' H Hi. eqcase c c'.
    + rewrite nth_upd_eq, Hx in H. simpl in H. inversion H; subst. simpl in Hi. discriminate.
    + rewrite nth_upd_ne in H; eauto.
  - intros c' H. rewrite stl_upd in H. destruct (Nat.eqb_spec c c').
    + subst. rewrite Hx in H. simpl in H. discriminate.
    + destruct (Hexp c' H). discriminate.
  - apply pc_ok_dispatch.
  - intro. congruence.
Qed.

(* murder_keepalived: popleft + compare: expired *)
Lemma invp_pop_expired : forall cs bl nr kp rg pcl now c x, InvP cs bl nr (c :: kp) rg pcl (MPop now) ->
  nth_error cs c = Some x ->
  InvP (upd c (set_st CExpiring) cs) bl (nr - 1) kp rg pcl (MUnreg now c).
Proof.
  intros cs bl nr kp rg pcl now c x H Hx.
  assert (Hpf : pcl = false) by (eapply invp_pcl_false; eauto; discriminate).
  destruct H as [Hacct Hcl Hkeep Hknd Hbl Hblnd Hreg Hregnd Hun Hexp Hpc Hpcl].
  assert (Hst : st x = CKeep).
  { assert (E : stl cs c = Some CKeep) by (apply Hkeep; auto; left; auto).
    rewrite (stl_some _ _ _ Hx) in E. congruence. }
  assert (Hoth : forall c' v, c' <> c -> stl cs c' = Some v -> stl (upd c (set_st CExpiring) cs) c' = Some v).
  { intros. rewrite stl_upd. destruct (Nat.eqb_spec c c'); congruence. }
  assert (Hnd : NoDup (c :: kp)) by auto. inversion Hnd as [|? ? Hnin Hnd']; subst.
  assert (Hself : stl (upd c (set_st CExpiring) cs) c = Some CExpiring).
  { rewrite stl_upd, Nat.eqb_refl, Hx. auto. }
  constructor.
  - rewrite (cnt_upd _ _ _ _ Hx). simpl. rewrite Hst. simpl. lia.
  - intros c' x' H. eqcase c c'.
    + rewrite nth_upd_eq, Hx in H. simpl in H. inversion H; subst. simpl. rewrite (Hcl _ _ Hx). rewrite Hst. auto.
    + rewrite nth_upd_ne in H; eauto.
  - intros _ c' H. apply Hoth. intro Ec; subst c'; contradiction. apply Hkeep; auto. right; auto.
  - auto.
  - intros c' H. apply Hoth; auto. intro Ec; subst c'. apply Hbl in H. rewrite (stl_some _ _ _ Hx) in H. congruence.
  - auto.
  - intros c' H. eqcase c' c. right; right; auto.
    destruct (Hreg c' H) as [E|[E|E]]; [left|right;left|right;right]; apply Hoth; auto.
  - auto.
  - intros c' x' H Hi. eqcase c c'.
    + rewrite nth_upd_eq, Hx in H. simpl in H. inversion H; subst. simpl in Hi.
      destruct (Hun _ _ Hx Hi); congruence.
    + rewrite nth_upd_ne in H; eauto.
  - intros c' H. eqcase c c'. exists now; auto.
    rewrite stl_upd in H. destruct (Nat.eqb_spec c c'); try congruence. destruct (Hexp c' H). discriminate.
  - simpl. auto.
  - intro. congruence.
Qed.

(* ... not expired: the connection is out of the deque until it is put back *)
Lemma invp_pop_keep : forall cs bl nr kp rg pcl now c, InvP cs bl nr (c :: kp) rg pcl (MPop now) ->
  InvP cs bl nr kp rg pcl (MPutback c).
Proof.
  intros cs bl nr kp rg pcl now c H.
  assert (Hpf : pcl = false) by (eapply invp_pcl_false; eauto; discriminate).
  destruct H as [Hacct Hcl Hkeep Hknd Hbl Hblnd Hreg Hregnd Hun Hexp Hpc Hpcl].
  assert (Hnd : NoDup (c :: kp)) by auto. inversion Hnd as [|? ? Hnin Hnd']; subst.
  constructor; auto.
  - intros _ c' H. apply Hkeep; auto. right; auto.
  - intros c' H. destruct (Hexp c' H). discriminate.
  - simpl. split; auto. apply Hkeep; auto. left; auto.
  - intro. congruence.
Qed.

Lemma invp_putback : forall cs bl nr kp rg pcl c p', InvP cs bl nr kp rg pcl (MPutback c) ->
  pc_ok cs (c :: kp) p' -> (pcl = true -> p' = MFinal \/ p' = MStopped) -> not_unreg p' ->
  InvP cs bl nr (c :: kp) rg pcl p'.
Proof.
  intros cs bl nr kp rg pcl c p' H Hok Hp Hnu.
  assert (Hpf : pcl = false) by (eapply invp_pcl_false; eauto; discriminate).
  destruct H as [Hacct Hcl Hkeep Hknd Hbl Hblnd Hreg Hregnd Hun Hexp Hpc Hpcl].
  simpl in Hpc. destruct Hpc as [Hck Hnin].
  constructor; auto.
  - intros _ c' [H|H]. subst; auto. apply Hkeep; auto.
  - intros _. constructor; auto.
  - intros c' H. destruct (Hexp c' H). discriminate.
Qed.

(* murder_keepalived: unregister + close *)
Lemma invp_unreg : forall cs bl nr kp rg pcl now c x, InvP cs bl nr kp rg pcl (MUnreg now c) ->
  nth_error cs c = Some x ->
  InvP (upd c close_conn cs) bl nr kp (remove1 c rg) pcl (MPop now).
Proof.
  intros cs bl nr kp rg pcl now c x H Hx.
  assert (Hpf : pcl = false) by (eapply invp_pcl_false; eauto; discriminate).
  destruct H as [Hacct Hcl Hkeep Hknd Hbl Hblnd Hreg Hregnd Hun Hexp Hpc Hpcl].
  simpl in Hpc. assert (Hst : st x = CExpiring) by (rewrite (stl_some _ _ _ Hx) in Hpc; congruence).
  assert (Hany : forall c' v, v <> CExpiring -> stl cs c' = Some v -> stl (upd c close_conn cs) c' = Some v).
  { intros. eapply stl_other; eauto. congruence. }
  constructor.
  - rewrite (cnt_upd _ _ _ _ Hx). simpl. rewrite Hst. simpl. lia.
  - intros c' x' H. eqcase c c'.
    + rewrite nth_upd_eq, Hx in H. simpl in H. inversion H; subst. simpl. rewrite (Hcl _ _ Hx). rewrite Hst. auto.
    + rewrite nth_upd_ne in H; eauto.
  - intros. apply Hany; auto. discriminate.
  - auto.
  - intros. apply Hany; auto. discriminate.
  - auto.
  - intros c' H. assert (c' <> c) by (intro Ec; subst c'; exact (remove1_notin c rg Hregnd H)).
    apply remove1_In in H. destruct (Hreg c' H) as [E|[E|E]].
    + left. apply Hany; auto. discriminate.
    + right; left. apply Hany; auto. discriminate.
    + destruct (Hexp c' E) as [n' En]. inversion En. congruence.
  - apply remove1_nodup; auto.
  - intros c' x' H Hi. eqcase c c'.
    + rewrite nth_upd_eq, Hx in H. simpl in H. inversion H; subst. simpl in Hi.
      destruct (Hun _ _ Hx Hi); congruence.
    + rewrite nth_upd_ne in H; eauto.
  - intros c' H. rewrite stl_upd in H. destruct (Nat.eqb_spec c c').
    + subst. rewrite Hx in H. simpl in H. discriminate.
    + destruct (Hexp c' H) as [n' En]. inversion En. congruence.
  - simpl. auto.
  - intro. congruence.
Qed.

(* after the loop *)
Lemma invp_exit : forall cs bl nr kp rg pcl p p', InvP cs bl nr kp rg pcl p -> not_unreg p ->
  p' = MFinal \/ p' = MStopped -> InvP cs bl nr kp [] true p'.
Proof.
  intros cs bl nr kp rg pcl p p' [Hacct Hcl Hkeep Hknd Hbl Hblnd Hreg Hregnd Hun Hexp Hpc Hpcl] Hnu Hp.
  constructor; auto; try discriminate.
  - intros c []. 
  - constructor.
  - intros c H. destruct (Hexp c H) as [now E]. exfalso. eapply Hnu; eauto.
  - destruct Hp; subst; simpl; auto.
Qed.

(* a client connects *)
Lemma invp_connect : forall cs bl nr kp rg pcl p, InvP cs bl nr kp rg pcl p ->
  InvP (cs ++ [new_conn]) (bl ++ [length cs]) nr kp rg pcl p.
Proof.
  intros cs bl nr kp rg pcl p [Hacct Hcl Hkeep Hknd Hbl Hblnd Hreg Hregnd Hun Hexp Hpc Hpcl].
  assert (Hold : forall c v, stl cs c = Some v -> stl (cs ++ [new_conn]) c = Some v).
  { unfold stl. intros c v H. destruct (nth_error cs c) eqn:E; try discriminate.
    rewrite nth_error_app1. rewrite E; auto. apply nth_error_Some. congruence. }
  assert (Hnew : forall c x, nth_error (cs ++ [new_conn]) c = Some x -> nth_error cs c = Some x \/ (c = length cs /\ x = new_conn)).
  { intros c x H. destruct (lt_dec c (length cs)).
    - rewrite nth_error_app1 in H; auto.
    - rewrite nth_error_app2 in H by lia. right. destruct (c - length cs)%nat eqn:E; simpl in H.
      + inversion H. split; auto. lia.
      + destruct n0; discriminate. }
  constructor; auto.
  - unfold cnt in *. rewrite count_app. simpl. lia.
  - intros c x H. destruct (Hnew c x H) as [H'|[_ H']]; eauto. subst. auto.
  - intros c Hin. apply in_app_or in Hin. destruct Hin as [Hin|Hin]; auto.
    simpl in Hin. destruct Hin; try contradiction. subst. unfold stl. rewrite nth_error_app2 by lia.
    rewrite Nat.sub_diag. auto.
  - apply nodup_app1; auto. intro Hin. apply Hbl in Hin. unfold stl in Hin.
    destruct (nth_error cs (length cs)) eqn:E; try discriminate.
    assert (length cs < length cs)%nat by (apply nth_error_Some; congruence). lia.
  - intros c Hin. destruct (Hreg c Hin) as [E|[E|E]]; auto.
  - intros c x H Hi. destruct (Hnew c x H) as [H'|[_ H']]; eauto. subst. auto.
  - intros c H. apply Hexp. unfold stl in *. destruct (nth_error (cs ++ [new_conn]) c) eqn:E; try discriminate.
    destruct (Hnew c c0 E) as [H'|[_ H']]. rewrite H'. auto. subst. simpl in H. discriminate.
  - unfold pc_ok in *. destruct p; auto. destruct Hpc; auto.
Qed.

(* ------------------------------------------------------------------------------------------------ *)
(* every step preserves the invariant                                                               *)
(* ------------------------------------------------------------------------------------------------ *)
Ltac inv_some := match goal with H : Some _ = Some _ |- _ => inversion H; subst; clear H end.

Lemma p_start_inv : forall s c s', Inv s -> p_start s c = Some s' -> Inv s'.
Proof.
  unfold p_start, getc. intros s c s' H E. destruct (nth_error (conns s) c) as [x|] eqn:Hx; try discriminate.
  destruct (st x) eqn:Hst; try discriminate. inv_some. unfold Inv in *. simpl.
  eapply invp_upd_gen; eauto. right. rewrite Hst. auto.
Qed.

Lemma p_start_same : forall s c s', p_start s c = Some s' ->
  mpc s' = mpc s /\ pclosed s' = pclosed s /\ nr_conns s' = nr_conns s /\ clock s' = clock s.
Proof.
  unfold p_start. intros s c s' E. destruct (getc s c) as [x|]; try discriminate.
  destruct (st x); try discriminate. inv_some. simpl. auto.
Qed.

Lemma p_handle_inv : forall g s c s', Inv s -> p_handle g s c = Some s' -> Inv s'.
Proof.
  unfold p_handle, getc. intros g s c s' H E. destruct (nth_error (conns s) c) as [x|] eqn:Hx; try discriminate.
  destruct (st x) eqn:Hst; try discriminate.
  destruct (match pbuf x with [] => sockbuf x | _ :: _ => pbuf x end) as [|k rest].
  - destruct (eof x); try discriminate. inv_some. unfold Inv in *. simpl.
    eapply invp_upd_gen; eauto. right. rewrite Hst. auto.
  - destruct k; inv_some; unfold Inv in *; simpl; eapply invp_upd_gen; eauto; right; rewrite Hst; auto.
Qed.

Lemma p_handle_same : forall g s c s', p_handle g s c = Some s' ->
  mpc s' = mpc s /\ pclosed s' = pclosed s /\ nr_conns s' = nr_conns s /\ clock s' = clock s.
Proof.
  unfold p_handle. intros g s c s' E. destruct (getc s c) as [x|]; try discriminate.
  destruct (st x); try discriminate.
  destruct (match pbuf x with [] => sockbuf x | _ :: _ => pbuf x end) as [|k rest].
  - destruct (eof x); try discriminate. inv_some. simpl. auto.
  - destruct k; inv_some; simpl; auto.
Qed.

Lemma p_finish_inv : forall g s c s', Inv s -> p_finish g s c = Some s' -> Inv s'.
Proof.
  unfold p_finish, getc. intros g s c s' H E. destruct (nth_error (conns s) c) as [x|] eqn:Hx; try discriminate.
  destruct (st x) eqn:Hst; try discriminate.
  destruct (ka && alive s); inv_some; unfold Inv in *; simpl.
  - eapply invp_upd_gen; eauto. right. rewrite Hst. auto.
  - eapply invp_close; eauto. rewrite Hst. auto.
Qed.

Lemma p_finish_same : forall g s c s', p_finish g s c = Some s' ->
  mpc s' = mpc s /\ pclosed s' = pclosed s /\ nr_conns s' <= nr_conns s /\ clock s' = clock s.
Proof.
  unfold p_finish. intros g s c s' E. destruct (getc s c) as [x|]; try discriminate.
  destruct (st x); try discriminate.
  destruct (ka && alive s); inv_some; simpl; repeat split; auto; lia.
Qed.

Lemma p_finlock_inv : forall s c s', Inv s -> p_finlock s c = Some s' -> Inv s'.
Proof.
  unfold p_finlock, getc. intros s c s' H E. destruct (nth_error (conns s) c) as [x|] eqn:Hx; try discriminate.
  destruct (st x) eqn:Hst; try discriminate.
  destruct (pclosed s) eqn:Hp; simpl in E.
  - inv_some. unfold Inv in *. simpl. rewrite Hp in *.
    eapply invp_close; eauto; try (rewrite Hst; auto).
    destruct H as [Hacct Hcl Hkeep Hknd Hbl Hblnd Hreg Hregnd Hun Hexp Hpc Hpcl].
    constructor; auto; try (intros; discriminate).
    destruct (Hpcl eq_refl) as [Em|Em]; rewrite Em; simpl; auto.
  - destruct (mem c (regd s)) eqn:Hm.
    + exfalso. apply mem_In in Hm. unfold Inv in H. apply (i_regd _ _ _ _ _ _ _ H) in Hm.
      rewrite (stl_some _ _ _ Hx) in Hm. rewrite Hst in Hm. destruct Hm as [E'|[E'|E']]; discriminate.
    + inv_some. unfold Inv in *. simpl. rewrite Hp in *. eapply invp_finlock; eauto.
Qed.

Lemma p_finlock_same : forall s c s', p_finlock s c = Some s' ->
  mpc s' = mpc s /\ pclosed s' = pclosed s /\ nr_conns s' <= nr_conns s /\ clock s' = clock s.
Proof.
  unfold p_finlock. intros s c s' E. destruct (getc s c) as [x|]; try discriminate.
  destruct (st x); try discriminate.
  destruct (pclosed s || mem c (regd s)); inv_some; simpl; repeat split; auto; lia.
Qed.

Lemma p_cancel_inv : forall s c s', Inv s -> p_cancel s c = Some s' -> Inv s'.
Proof.
  unfold p_cancel, getc. intros s c s' H E. destruct (nth_error (conns s) c) as [x|] eqn:Hx; try discriminate.
  destruct (st x) eqn:Hst; try discriminate. inv_some. unfold Inv in *. simpl.
  eapply invp_close; eauto. rewrite Hst. auto.
Qed.

Lemma head_mpc : forall g p s, head g (set_mpc p s) = head g s.
Proof. intros. destruct s. reflexivity. Qed.

Lemma head_inv : forall g s, Inv s -> not_unreg (mpc s) -> mpc s <> MFinal -> mpc s <> MStopped -> Inv (head g s).
Proof.
  intros g s H Hnu H1 H2. assert (Hpf : pclosed s = false) by (eapply invp_pcl_false; eauto).
  unfold head. destruct (negb (alive s)).
  - unfold Inv, exit_seq in *. simpl. eapply invp_exit; eauto.
  - destruct (nr_conns s <? wconn g); unfold Inv in *; simpl; eapply invp_pc; eauto; simpl; auto; congruence.
Qed.

Lemma nu_simple : forall p, (forall now c, p <> MUnreg now c) -> not_unreg p.
Proof. auto. Qed.

Ltac nu := unfold not_unreg; intros; congruence.

Lemma rd_step_inv : forall g s c r b s', Inv s -> mpc s = MRd c r -> rd_step g s c r b = Some s' -> Inv s'.
Proof.
  unfold rd_step. intros g s c r b s' H Hpc E.
  assert (Hpf : pclosed s = false) by (eapply invp_pcl_false; eauto; congruence).
  destruct (mem c (regd s)) eqn:Hm; simpl in E.
  2:{ inv_some. unfold Inv in *. simpl. eapply invp_pc; eauto. rewrite Hpc; nu. simpl; auto. congruence. }
  apply mem_In in Hm. unfold getc in E. destruct (nth_error (conns s) c) as [x|] eqn:Hx.
  2:{ inv_some. unfold Inv in *. simpl. eapply invp_pc; eauto. rewrite Hpc; nu. simpl; auto. congruence. }
  destruct (inited x && negb (mem c (keep s))) eqn:Hrace.
  - inv_some. unfold Inv in *. simpl. rewrite Hpc in H. eapply invp_rd_return; eauto.
  - assert (Hik : inited x = true -> In c (keep s)).
    { intro Hi. rewrite Hi in Hrace. simpl in Hrace. apply negb_false_iff in Hrace. apply mem_In; auto. }
    assert (Hs4 : Inv (set_mpc (dispatch r)
               (set_futs (futs (if inited x then set_keep (remove1 c (keep (set_regd (remove1 c (regd s)) s))) (set_regd (remove1 c (regd s)) s) else set_regd (remove1 c (regd s)) s) ++ [(c, false)])
                  (updc c (fun y => set_st CQueued (set_inited y))
                     (if inited x then set_keep (remove1 c (keep (set_regd (remove1 c (regd s)) s))) (set_regd (remove1 c (regd s)) s) else set_regd (remove1 c (regd s)) s))))).
    { unfold Inv in *. rewrite Hpc in H. pose proof (invp_rd _ _ _ _ _ _ _ _ _ H Hm Hx Hik) as G.
      destruct (inited x); simpl; exact G. }
    destruct b; [|inv_some; exact Hs4].
    unfold inline_run in E.
    match type of E with obind (p_start ?t c) _ = _ => set (s4 := t) in * end.
    destruct (p_start s4 c) as [s1|] eqn:E1; simpl in E; try discriminate.
    destruct (p_handle g s1 c) as [s2|] eqn:E2; simpl in E; try discriminate.
    destruct (p_finish g s2 c) as [s3|] eqn:E3; simpl in E; try discriminate.
    assert (I1 : Inv s1) by (apply (p_start_inv s4 c s1); [exact Hs4 | exact E1]).
    assert (I2 : Inv s2) by (apply (p_handle_inv g s1 c s2); auto).
    assert (I3 : Inv s3) by (apply (p_finish_inv g s2 c s3); auto).
    assert (M3 : mpc s3 = dispatch r).
    { destruct (p_start_same _ _ _ E1) as [A _]. destruct (p_handle_same _ _ _ _ E2) as [B _].
      destruct (p_finish_same _ _ _ _ E3) as [C _]. rewrite C, B, A. reflexivity. }
    assert (P3 : pclosed s3 = false).
    { destruct (p_start_same _ _ _ E1) as [_ [A _]]. destruct (p_handle_same _ _ _ _ E2) as [_ [B _]].
      destruct (p_finish_same _ _ _ _ E3) as [_ [C _]]. rewrite C, B, A. unfold s4. destruct (inited x); simpl; auto. }
    destruct (getc s3 c) as [x3|]; [destruct (st x3)|]; inv_some; auto.
    unfold Inv in *. simpl. eapply invp_pc; eauto. rewrite M3. apply dispatch_plain. simpl; auto. congruence.
Qed.

Lemma main_step_inv : forall g s evs b s', Inv s -> main_step g s evs b = Some s' -> Inv s'.
Proof.
  unfold main_step. intros g s evs b s' H E. destruct (mpc s) eqn:Hpc.
  - (* MSel *) destruct (evs_ok g s evs); try discriminate. inv_some.
    assert (Hpf : pclosed s = false) by (eapply invp_pcl_false; eauto; congruence).
    unfold Inv in *. simpl. eapply invp_pc; eauto. rewrite Hpc; nu. apply pc_ok_dispatch. congruence.
  - (* MAcc *) assert (Hpf : pclosed s = false) by (eapply invp_pcl_false; eauto; congruence).
    destruct (backlog s) as [|c bl] eqn:Hbl; inv_some; unfold Inv in *; simpl.
    + eapply invp_pc; eauto. rewrite Hpc; nu. apply pc_ok_dispatch. congruence.
    + rewrite Hbl, Hpc in H. eapply invp_accept; eauto.
  - (* MAccReg *) assert (Hpf : pclosed s = false) by (eapply invp_pcl_false; eauto; congruence).
    destruct (mem c (regd s)) eqn:Hm; inv_some; unfold Inv in *; simpl.
    + eapply invp_pc; eauto. rewrite Hpc; nu. simpl; auto. congruence.
    + rewrite Hpc in H. eapply invp_accreg; eauto. apply mem_false; auto.
  - (* MRd *) eapply rd_step_inv; eauto.
  - (* MFin *) destruct (p_finlock s c) as [s1|] eqn:E1; simpl in E; try discriminate. inv_some.
    pose proof (p_finlock_inv _ _ _ H E1) as I1. destruct (p_finlock_same _ _ _ E1) as [A [B _]].
    assert (Hpf : pclosed s = false) by (eapply invp_pcl_false; eauto; congruence).
    unfold Inv in *. simpl. eapply invp_pc; eauto. rewrite A, Hpc; nu. apply pc_ok_dispatch. congruence.
  - (* MWait *) assert (Hpf : pclosed s = false) by (eapply invp_pcl_false; eauto; congruence).
    destruct (orphan s); inv_some; unfold Inv, exit_seq in *; simpl.
    + eapply invp_exit; eauto. rewrite Hpc; nu.
    + eapply invp_pc; eauto. rewrite Hpc; nu. simpl; auto. congruence.
  - (* MPop *) destruct (keep s) as [|c k] eqn:Hk.
    + inv_some. apply head_inv; auto; rewrite Hpc; try nu; congruence.
    + unfold getc in E. destruct (nth_error (conns s) c) as [x|] eqn:Hx.
      * destruct (now <? tmo x); inv_some; unfold Inv in *; simpl; rewrite Hk, Hpc in H.
        -- eapply invp_pop_keep; eauto.
        -- eapply invp_pop_expired; eauto.
      * inv_some. assert (Hpf : pclosed s = false) by (eapply invp_pcl_false; eauto; congruence).
        unfold Inv in *. simpl. eapply invp_pc; eauto. rewrite Hpc; nu. simpl; auto. congruence.
  - (* MPutback *) inv_some.
    assert (Hpf : pclosed s = false) by (eapply invp_pcl_false; eauto; congruence).
    rewrite <- (head_mpc g MWait). apply head_inv; simpl; try nu; try congruence.
    unfold Inv in *. simpl. rewrite Hpc in H. eapply invp_putback; eauto. simpl; auto. congruence. nu.
  - (* MUnreg *) inv_some. unfold Inv in *. simpl. rewrite Hpc in H.
    pose proof (i_pc _ _ _ _ _ _ _ H) as Hc. simpl in Hc. unfold stl in Hc.
    destruct (nth_error (conns s) c) as [x|] eqn:Hx; try discriminate.
    eapply invp_unreg; eauto.
  - (* MFinal *) inv_some. unfold Inv in *. simpl. eapply invp_pc; eauto. rewrite Hpc; nu. simpl; auto.
  - discriminate.
  - discriminate.
Qed.

Lemma inv_same_conn_st : forall s c f x, Inv s -> getc s c = Some x ->
  st (f x) = st x -> closes (f x) = closes x -> inited (f x) = inited x -> Inv (updc c f s).
Proof. intros. unfold Inv in *. simpl. eapply invp_upd_gen; eauto. Qed.

Theorem step_inv : forall g s l s', Inv s -> step g s l = Some s' -> Inv s'.
Proof.
  intros g s l s' H E. destruct l; simpl in E.
  - eapply main_step_inv; eauto.
  - destruct (n_running s <? threads g); try discriminate. eapply p_start_inv; eauto.
  - eapply p_handle_inv; eauto.
  - eapply p_finish_inv; eauto.
  - eapply p_finlock_inv; eauto.
  - eapply p_cancel_inv; eauto.
  - inv_some. unfold Inv in *. simpl. apply invp_connect; auto.
  - destruct (getc s c) as [x|] eqn:Hx; try discriminate. destruct (eof x); try discriminate.
    destruct (st x) eqn:Hst; inv_some; auto; eapply inv_same_conn_st; eauto.
  - destruct (getc s c) as [x|] eqn:Hx; try discriminate. destruct (eof x); try discriminate.
    inv_some. eapply inv_same_conn_st; eauto.
  - inv_some. exact H.
  - inv_some. exact H.
  - inv_some. exact H.
Qed.

Lemma init_inv : forall g, Inv (init g).
Proof.
  intros. unfold init. apply head_inv; simpl; try nu; try congruence.
  unfold Inv. simpl. constructor; simpl; auto; try (intros; try contradiction; try discriminate; fail).
  - intros c x H. destruct c; discriminate.
  - constructor.
  - constructor.
  - constructor.
  - intros c x H. destruct c; discriminate.
  - intros c H. unfold stl in H. destruct c; discriminate.
Qed.

Theorem run_inv : forall g ls s s', Inv s -> run g s ls = Some s' -> Inv s'.
Proof.
  induction ls; simpl; intros. inv_some; auto.
  destruct (step g s a) as [s0|] eqn:E; simpl in H0; try discriminate.
  apply (IHls s0 s'); auto. apply (step_inv g s a s0); auto.
Qed.

Definition reachable (g:cfg) (s:state) : Prop := exists ls, run g (init g) ls = Some s.

Theorem reachable_inv : forall g s, reachable g s -> Inv s.
Proof. intros g s [ls H]. eapply run_inv; eauto. apply init_inv. Qed.
