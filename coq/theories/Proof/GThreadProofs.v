(* Proofs about Model/GThread.v: invariants over ALL interleavings (induction over label sequences). *)
From Coq Require Import List ZArith Bool Arith Lia.
From GV Require Import Base.Enc Model.GThread.
Import ListNotations.
Local Open Scope Z_scope.

(* ------------------------------------------------------------------------------------------------ *)
(* lists                                                                                            *)
(* ------------------------------------------------------------------------------------------------ *)
Lemma nth_upd_eq : forall A n (f:A->A) (l:list A), nth_error (upd n f l) n = option_map f (nth_error l n).
Proof. induction n; destruct l; simpl; auto. Qed.

Lemma nth_upd_ne : forall A n m (f:A->A) (l:list A), n <> m -> nth_error (upd n f l) m = nth_error l m.
Proof.
  induction n; destruct l; destruct m; simpl; intros; auto; try congruence.
Qed.

Lemma upd_length : forall A n (f:A->A) (l:list A), length (upd n f l) = length l.
Proof. induction n; destruct l; simpl; auto. Qed.

Lemma count_upd : forall A (p:A->bool) n f (l:list A) x, nth_error l n = Some x ->
  count_if p (upd n f l) = count_if p l - (if p x then 1 else 0) + (if p (f x) then 1 else 0).
Proof.
  induction n; destruct l; simpl; intros; try discriminate.
  - inversion H; subst. lia.
  - rewrite (IHn f l x H). lia.
Qed.

Lemma count_app : forall A (p:A->bool) l1 l2, count_if p (l1 ++ l2) = count_if p l1 + count_if p l2.
Proof. induction l1; simpl; intros; auto. rewrite IHl1. lia. Qed.

Lemma count_nonneg : forall A (p:A->bool) l, 0 <= count_if p l.
Proof. induction l; simpl; try lia. destruct (p a); lia. Qed.

Lemma mem_In : forall c l, mem c l = true <-> In c l.
Proof.
  induction l; simpl; split; intros; try discriminate; try contradiction.
  - apply orb_true_iff in H. destruct H. apply Nat.eqb_eq in H. auto. right. apply IHl. auto.
  - apply orb_true_iff. destruct H. left. subst. apply Nat.eqb_refl. right. apply IHl. auto.
Qed.

Lemma mem_false : forall c l, mem c l = false <-> ~ In c l.
Proof.
  intros. split; intros.
  - intro. apply mem_In in H0. congruence.
  - destruct (mem c l) eqn:E; auto. apply mem_In in E. contradiction.
Qed.

Lemma remove1_In : forall c x l, In x (remove1 c l) -> In x l.
Proof.
  induction l; simpl; intros; auto. destruct (Nat.eqb c a). auto. destruct H; auto.
Qed.

Lemma remove1_nodup : forall c l, NoDup l -> NoDup (remove1 c l).
Proof.
  induction l; simpl; intros; auto. inversion H; subst. destruct (Nat.eqb c a); auto.
  constructor; auto. intro. apply H2. eapply remove1_In; eauto.
Qed.

Lemma remove1_notin : forall c l, NoDup l -> ~ In c (remove1 c l).
Proof.
  induction l; simpl; intros. intro; contradiction. inversion H; subst.
  destruct (Nat.eqb_spec c a). subst; auto.
  intros [E|E]. congruence. apply IHl in E; auto.
Qed.

Lemma remove1_other : forall c x l, x <> c -> In x l -> In x (remove1 c l).
Proof.
  induction l; simpl; intros; auto. destruct (Nat.eqb_spec c a).
  - destruct H0; congruence.
  - destruct H0. left; auto. right; auto.
Qed.

Lemma nodup_app1 : forall (c:nat) l, NoDup l -> ~ In c l -> NoDup (l ++ [c]).
Proof.
  induction l; simpl; intros.
  - constructor. intro; contradiction. constructor.
  - inversion H; subst. constructor.
    + intro. apply in_app_or in H1. destruct H1. contradiction. simpl in H1. destruct H1; auto.
    + apply IHl; auto.
Qed.

(* ------------------------------------------------------------------------------------------------ *)
(* the structural invariant, over the components of a state                                         *)
(* ------------------------------------------------------------------------------------------------ *)
Definition stl (cs:list conn) (c:nat) : option cst := option_map st (nth_error cs c).
Definition cnt (cs:list conn) : Z := count_if (fun x => is_counted (st x)) cs.

Definition is_handling (v:cst) : bool :=
  match v with CQueued | CRunning | CDone _ | CTimed => true | _ => false end.

Definition pc_ok (cs:list conn) (kp:list nat) (p:pc) : Prop :=
  match p with
  | MAccReg c _ => stl cs c = Some CNew
  | MPutback c => stl cs c = Some CKeep /\ ~ In c kp
  | MUnreg _ c => stl cs c = Some CExpiring
  | _ => True
  end.

Definition timedish (v:cst) : bool := match v with CTimed | CKeep | CExpiring => true | _ => false end.

Record InvP (ka:Z) (cs:list conn) (bl:list nat) (nr:Z) (kp rg:list nat) (pcl:bool) (p:pc) : Prop := mkInv {
  i_acct : nr = cnt cs;
  i_closes : forall c x, nth_error cs c = Some x -> closes x = match st x with CClosed => 1%nat | _ => 0%nat end;
  i_keep : pcl = false -> forall c, In c kp -> stl cs c = Some CKeep;
  i_keep_nd : pcl = false -> NoDup kp;
  i_backlog : forall c, In c bl -> stl cs c = Some CPending;
  i_backlog_nd : NoDup bl;
  i_regd : forall c, In c rg -> stl cs c = Some CNew \/ stl cs c = Some CKeep \/ stl cs c = Some CExpiring;
  i_regd_nd : NoDup rg;
  i_uninit : forall c x, nth_error cs c = Some x -> inited x = false -> st x = CPending \/ st x = CNew;
  i_exp : forall c, stl cs c = Some CExpiring -> exists now, p = MUnreg now c;
  i_pc : pc_ok cs kp p;
  i_pclosed : pcl = true -> p = MFinal \/ p = MStopped;
  i_tmo : forall c x, nth_error cs c = Some x -> timedish (st x) = true -> tmo x = since x + ka
}.

Definition Inv (g:cfg) (s:state) : Prop :=
  InvP (keepalive g) (conns s) (backlog s) (nr_conns s) (keep s) (regd s) (pclosed s) (mpc s).

Ltac eqcase a b := destruct (Nat.eqb_spec a b); [subst|].

Lemma stl_upd : forall cs c c' f,
  stl (upd c f cs) c' = if Nat.eqb c c' then option_map (fun x => st (f x)) (nth_error cs c) else stl cs c'.
Proof.
  intros. unfold stl. destruct (Nat.eqb_spec c c').
  - subst. rewrite nth_upd_eq. destruct (nth_error cs c'); auto.
  - rewrite nth_upd_ne; auto.
Qed.

Lemma stl_some : forall cs c x, nth_error cs c = Some x -> stl cs c = Some (st x).
Proof. intros. unfold stl. rewrite H. auto. Qed.

(* the state of another connection is unaffected *)
Lemma stl_other : forall cs c x f c' v, nth_error cs c = Some x -> st x <> v ->
  stl cs c' = Some v -> stl (upd c f cs) c' = Some v.
Proof.
  intros. rewrite stl_upd. destruct (Nat.eqb_spec c c'); auto. subst.
  rewrite (stl_some _ _ _ H) in H1. congruence.
Qed.

Lemma cnt_upd : forall cs c f x, nth_error cs c = Some x ->
  cnt (upd c f cs) = cnt cs - (if is_counted (st x) then 1 else 0) + (if is_counted (st (f x)) then 1 else 0).
Proof. intros. unfold cnt. apply (count_upd _ (fun x => is_counted (st x))). auto. Qed.

(* a connection changes but keeps its state, or moves between the "being handled" states *)
Lemma invp_upd_gen : forall ka cs bl nr kp rg pcl p c x f, InvP ka cs bl nr kp rg pcl p -> nth_error cs c = Some x ->
  (st (f x) = st x \/ (is_handling (st x) = true /\ is_handling (st (f x)) = true)) ->
  closes (f x) = closes x -> inited (f x) = inited x ->
  (timedish (st (f x)) = false \/ tmo (f x) = since (f x) + ka \/
   (tmo (f x) = tmo x /\ since (f x) = since x /\ st (f x) = st x)) ->
  InvP ka (upd c f cs) bl nr kp rg pcl p.
Proof.
  intros ka cs bl nr kp rg pcl p c x f [Hacct Hcl Hkeep Hknd Hbl Hblnd Hreg Hregnd Hun Hexp Hpc Hpcl Htm] Hx Hst Hclo Hini Hnt.
  assert (Hcnt : is_counted (st (f x)) = is_counted (st x)).
  { destruct Hst as [E|[E1 E2]]. rewrite E; auto. destruct (st x); destruct (st (f x)); simpl in *; congruence. }
  assert (Hany : forall c' v, is_handling v = false -> stl cs c' = Some v -> stl (upd c f cs) c' = Some v).
  { intros. rewrite stl_upd. destruct (Nat.eqb_spec c c'); auto. subst. rewrite Hx. simpl.
    rewrite (stl_some _ _ _ Hx) in H0. inversion H0; subst.
    destruct Hst as [E|[E1 E2]]; congruence. }
  assert (Hback : forall c' v, is_handling v = false -> stl (upd c f cs) c' = Some v -> stl cs c' = Some v).
  { intros c' v Hv. rewrite stl_upd. destruct (Nat.eqb_spec c c'); auto. subst. rewrite Hx. simpl.
    rewrite (stl_some _ _ _ Hx). intro H0. inversion H0; subst.
    destruct Hst as [E|[E1 E2]]; congruence. }
  constructor.
  - rewrite (cnt_upd _ _ _ _ Hx). rewrite Hcnt. rewrite Hacct. destruct (is_counted (st x)); lia.
  - intros c' x' H. eqcase c c'.
    + rewrite nth_upd_eq, Hx in H. simpl in H. inversion H; subst. rewrite Hclo, (Hcl _ _ Hx).
      destruct Hst as [E|[E1 E2]]. rewrite E; auto. destruct (st x); destruct (st (f x)); simpl in *; congruence.
    + rewrite nth_upd_ne in H; eauto.
  - intros. apply Hany; auto.
  - auto.
  - intros. apply Hany; auto.
  - auto.
  - intros c' Hin. destruct (Hreg c' Hin) as [E|[E|E]].
    + left. apply Hany; auto.
    + right; left. apply Hany; auto.
    + right; right. apply Hany; auto.
  - auto.
  - intros c' x' H Hi. eqcase c c'.
    + rewrite nth_upd_eq, Hx in H. simpl in H. inversion H; subst. rewrite Hini in Hi. destruct (Hun _ _ Hx Hi) as [E|E];
        destruct Hst as [E'|[E1 E2]]; try (rewrite E'; auto); rewrite E in E1; discriminate.
    + rewrite nth_upd_ne in H; eauto.
  - intros c' H. apply Hback in H; auto.
  - unfold pc_ok in *. destruct p; auto; try (apply Hany; auto; fail).
    destruct Hpc. split; auto.
  - auto.
  - intros c' x' H Ht. eqcase c c'.
    + rewrite nth_upd_eq, Hx in H. simpl in H. inversion H; subst.
      destruct Hnt as [E|[E|[E1 [E2 E3]]]]; try congruence. rewrite E1, E2. apply (Htm _ _ Hx). congruence.
    + rewrite nth_upd_ne in H; eauto.
Qed.

(* finish_request / cancel: decrement and close a connection that was being handled *)
Lemma invp_close : forall ka cs bl nr kp rg pcl p c x, InvP ka cs bl nr kp rg pcl p -> nth_error cs c = Some x ->
  is_handling (st x) = true -> InvP ka (upd c close_conn cs) bl (nr - 1) kp rg pcl p.
Proof.
  intros ka cs bl nr kp rg pcl p c x [Hacct Hcl Hkeep Hknd Hbl Hblnd Hreg Hregnd Hun Hexp Hpc Hpcl Htm] Hx Hh.
  assert (Hany : forall c' v, is_handling v = false -> stl cs c' = Some v -> stl (upd c close_conn cs) c' = Some v).
  { intros. eapply stl_other; eauto. intro. subst. congruence. }
  constructor.
  - rewrite (cnt_upd _ _ _ _ Hx). simpl. rewrite Hacct.
    destruct (st x); simpl in *; try discriminate; lia.
  - intros c' x' H. eqcase c c'.
    + rewrite nth_upd_eq, Hx in H. simpl in H. inversion H; subst. simpl. rewrite (Hcl _ _ Hx).
      destruct (st x); simpl in *; try discriminate; auto.
    + rewrite nth_upd_ne in H; eauto.
  - intros. apply Hany; auto.
  - auto.
  - intros. apply Hany; auto.
  - auto.
  - intros c' Hin. destruct (Hreg c' Hin) as [E|[E|E]].
    + left. apply Hany; auto.
    + right; left. apply Hany; auto.
    + right; right. apply Hany; auto.
  - auto.
  - intros c' x' H Hi. eqcase c c'.
    + rewrite nth_upd_eq, Hx in H. simpl in H. inversion H; subst. simpl in Hi.
      destruct (Hun _ _ Hx Hi) as [E|E]; rewrite E in Hh; discriminate.
    + rewrite nth_upd_ne in H; eauto.
  - intros c' H. rewrite stl_upd in H. destruct (Nat.eqb_spec c c'); auto. subst. rewrite Hx in H. simpl in H. discriminate.
  - unfold pc_ok in *. destruct p; auto; try (apply Hany; auto; fail).
    destruct Hpc. split; auto.
  - auto.
  - intros c' x' H Ht. eqcase c c'.
    + rewrite nth_upd_eq, Hx in H. simpl in H. inversion H; subst. simpl in Ht. try discriminate.
    + rewrite nth_upd_ne in H; eauto.
Qed.

(* the lock block of finish_request: into _keep and registered *)
Lemma invp_finlock : forall ka cs bl nr kp rg p c x, InvP ka cs bl nr kp rg false p -> nth_error cs c = Some x ->
  st x = CTimed -> InvP ka (upd c (set_st CKeep) cs) bl nr (kp ++ [c]) (rg ++ [c]) false p.
Proof.
  intros ka cs bl nr kp rg p c x [Hacct Hcl Hkeep Hknd Hbl Hblnd Hreg Hregnd Hun Hexp Hpc Hpcl Htm] Hx Hst.
  assert (Hany : forall c' v, is_handling v = false -> stl cs c' = Some v ->
                 stl (upd c (set_st CKeep) cs) c' = Some v).
  { intros. eapply stl_other; eauto. intro. subst. rewrite Hst in H. discriminate. }
  assert (Hnk : ~ In c kp).
  { intro. apply Hkeep in H; auto. rewrite (stl_some _ _ _ Hx) in H. congruence. }
  assert (Hnr : ~ In c rg).
  { intro. apply Hreg in H. rewrite (stl_some _ _ _ Hx) in H. destruct H as [E|[E|E]]; congruence. }
  assert (Hself : stl (upd c (set_st CKeep) cs) c = Some CKeep).
  { rewrite stl_upd, Nat.eqb_refl, Hx. auto. }
  constructor.
  - rewrite (cnt_upd _ _ _ _ Hx). simpl. rewrite Hst. simpl. lia.
  - intros c' x' H. eqcase c c'.
    + rewrite nth_upd_eq, Hx in H. simpl in H. inversion H; subst. simpl. rewrite (Hcl _ _ Hx). rewrite Hst. auto.
    + rewrite nth_upd_ne in H; eauto.
  - intros _ c' Hin. apply in_app_or in Hin. destruct Hin as [Hin|Hin].
    + apply Hany; auto.
    + simpl in Hin. destruct Hin; try contradiction. subst. apply Hself.
  - intros _. apply nodup_app1; auto.
  - intros. apply Hany; auto.
  - auto.
  - intros c' Hin. apply in_app_or in Hin. destruct Hin as [Hin|Hin].
    + destruct (Hreg c' Hin) as [E|[E|E]].
      * left. apply Hany; auto.
      * right; left. apply Hany; auto.
      * right; right. apply Hany; auto.
    + simpl in Hin. destruct Hin; try contradiction. subst. right; left. apply Hself.
  - apply nodup_app1; auto.
  - intros c' x' H Hi. eqcase c c'.
    + rewrite nth_upd_eq, Hx in H. simpl in H. inversion H; subst. simpl in Hi.
      destruct (Hun _ _ Hx Hi) as [E|E]; congruence.
    + rewrite nth_upd_ne in H; eauto.
  - intros c' H. rewrite stl_upd in H. destruct (Nat.eqb_spec c c'); auto. subst. rewrite Hx in H. simpl in H. discriminate.
  - unfold pc_ok in *. destruct p; auto; try (apply Hany; auto; fail).
    destruct Hpc. split. apply Hany; auto.
    intro Hin. apply in_app_or in Hin. destruct Hin as [Hin|Hin]. contradiction.
    simpl in Hin. destruct Hin; try contradiction. subst.
    rewrite (stl_some _ _ _ Hx) in H. congruence.
  - auto.
  - intros c' x' H Ht. eqcase c c'.
    + rewrite nth_upd_eq, Hx in H. simpl in H. inversion H; subst. simpl. apply (Htm _ _ Hx). rewrite Hst. auto.
    + rewrite nth_upd_ne in H; eauto.
Qed.

Lemma invp_pcl_false : forall ka cs bl nr kp rg pcl p, InvP ka cs bl nr kp rg pcl p ->
  p <> MFinal -> p <> MStopped -> pcl = false.
Proof. intros. destruct pcl; auto. destruct (i_pclosed _ _ _ _ _ _ _ _ H eq_refl); contradiction. Qed.

Definition not_unreg (p:pc) : Prop := forall now c, p <> MUnreg now c.

(* the main thread moves on; no connection is in the middle of being reaped *)
Lemma invp_pc : forall ka cs bl nr kp rg pcl p p', InvP ka cs bl nr kp rg pcl p -> not_unreg p ->
  pc_ok cs kp p' -> (pcl = true -> p' = MFinal \/ p' = MStopped) -> InvP ka cs bl nr kp rg pcl p'.
Proof.
  intros ka cs bl nr kp rg pcl p p' [Hacct Hcl Hkeep Hknd Hbl Hblnd Hreg Hregnd Hun Hexp Hpc Hpcl Htm] Hnu Hok Hp.
  constructor; auto.
  intros c H. destruct (Hexp c H) as [now E]. exfalso. eapply Hnu; eauto.
Qed.

Lemma pc_ok_dispatch : forall cs kp r, pc_ok cs kp (dispatch r).
Proof. intros. destruct r as [|[l|c] r]; simpl; auto. Qed.

Lemma dispatch_plain : forall r, not_unreg (dispatch r) /\ dispatch r <> MFinal /\ dispatch r <> MStopped.
Proof. intros. unfold not_unreg. destruct r as [|[l|c] r]; simpl; repeat split; intros; discriminate. Qed.

(* accept: the first connection of the backlog becomes New and is counted *)
Lemma invp_accept : forall ka cs bl nr kp rg pcl r0 c r, InvP ka cs (c :: bl) nr kp rg pcl (MAcc r0) ->
  InvP ka (upd c (set_st CNew) cs) bl (nr + 1) kp rg pcl (MAccReg c r).
Proof.
  intros ka cs bl nr kp rg pcl r0 c r H.
  assert (Hpf : pcl = false) by (eapply invp_pcl_false; eauto; discriminate).
  destruct H as [Hacct Hcl Hkeep Hknd Hbl Hblnd Hreg Hregnd Hun Hexp Hpc Hpcl Htm].
  assert (Hc : stl cs c = Some CPending) by (apply Hbl; left; auto).
  unfold stl in Hc. destruct (nth_error cs c) as [x|] eqn:Hx; try discriminate. simpl in Hc. inversion Hc as [Hst].
  assert (Hany : forall c' v, v <> CPending -> stl cs c' = Some v -> stl (upd c (set_st CNew) cs) c' = Some v).
  { intros. eapply stl_other; eauto. congruence. }
  inversion Hblnd; subst.
  constructor.
  - rewrite (cnt_upd _ _ _ _ Hx). simpl. rewrite Hst. simpl. lia.
  - intros c' x' H. eqcase c c'.
    + rewrite nth_upd_eq, Hx in H. simpl in H. inversion H; subst. simpl. rewrite (Hcl _ _ Hx). rewrite Hst. auto.
    + rewrite nth_upd_ne in H; eauto.
  - intros. apply Hany; auto. discriminate.
  - auto.
  - intros c' Hin. rewrite stl_upd. destruct (Nat.eqb_spec c c'). subst; contradiction. apply Hbl. right; auto.
  - auto.
  - intros c' Hin. destruct (Hreg c' Hin) as [E|[E|E]].
    + left. apply Hany; auto. discriminate.
    + right; left. apply Hany; auto. discriminate.
    + right; right. apply Hany; auto. discriminate.
  - auto.
  - intros c' x' H Hi. eqcase c c'.
    + rewrite nth_upd_eq, Hx in H. simpl in H. inversion H; subst. simpl. auto.
    + rewrite nth_upd_ne in H; eauto.
  - intros c' H. rewrite stl_upd in H. destruct (Nat.eqb_spec c c').
    + subst. rewrite Hx in H. simpl in H. discriminate.
    + destruct (Hexp c' H). discriminate.
  - simpl. rewrite stl_upd, Nat.eqb_refl, Hx. auto.
  - intro. congruence.
  - intros c' x' H Ht. eqcase c c'.
    + rewrite nth_upd_eq, Hx in H. simpl in H. inversion H; subst. simpl in Ht. try discriminate.
    + rewrite nth_upd_ne in H; eauto.
Qed.

Lemma invp_accreg : forall ka cs bl nr kp rg pcl c r, InvP ka cs bl nr kp rg pcl (MAccReg c r) -> ~ In c rg ->
  InvP ka cs bl nr kp (rg ++ [c]) pcl (dispatch r).
Proof.
  intros ka cs bl nr kp rg pcl c r H Hn.
  assert (Hpf : pcl = false) by (eapply invp_pcl_false; eauto; discriminate).
  destruct H as [Hacct Hcl Hkeep Hknd Hbl Hblnd Hreg Hregnd Hun Hexp Hpc Hpcl Htm].
  constructor; auto.
  - intros c' Hin. apply in_app_or in Hin. destruct Hin as [Hin|Hin]; auto.
    simpl in Hin. destruct Hin; try contradiction. subst. left. exact Hpc.
  - apply nodup_app1; auto.
  - intros c' H. destruct (Hexp c' H). discriminate.
  - apply pc_ok_dispatch.
  - intro. congruence.
Qed.

(* on_client_socket_readable, "race" return: only the registration goes *)
Lemma invp_rd_return : forall ka cs bl nr kp rg pcl c r, InvP ka cs bl nr kp rg pcl (MRd c r) ->
  InvP ka cs bl nr kp (remove1 c rg) pcl (dispatch r).
Proof.
  intros ka cs bl nr kp rg pcl c r H.
  assert (Hpf : pcl = false) by (eapply invp_pcl_false; eauto; discriminate).
  destruct H as [Hacct Hcl Hkeep Hknd Hbl Hblnd Hreg Hregnd Hun Hexp Hpc Hpcl Htm].
  constructor; auto.
  - intros c' Hin. apply Hreg. eapply remove1_In; eauto.
  - apply remove1_nodup; auto.
  - intros c' H. destruct (Hexp c' H). discriminate.
  - apply pc_ok_dispatch.
  - intro. congruence.
Qed.

(* on_client_socket_readable + enqueue_req *)
Lemma invp_rd : forall ka cs bl nr kp rg pcl c r x, InvP ka cs bl nr kp rg pcl (MRd c r) ->
  In c rg -> nth_error cs c = Some x -> (inited x = true -> In c kp) ->
  InvP ka (upd c (fun y => set_st CQueued (set_inited y)) cs) bl nr
       (if inited x then remove1 c kp else kp) (remove1 c rg) pcl (dispatch r).
Proof.
  intros ka cs bl nr kp rg pcl c r x H Hin Hx Hik.
  assert (Hpf : pcl = false) by (eapply invp_pcl_false; eauto; discriminate).
  destruct H as [Hacct Hcl Hkeep Hknd Hbl Hblnd Hreg Hregnd Hun Hexp Hpc Hpcl Htm].
  set (f := fun y => set_st CQueued (set_inited y)).
  assert (Hst : st x = CNew \/ st x = CKeep).
  { destruct (Hreg c Hin) as [E|[E|E]]; rewrite (stl_some _ _ _ Hx) in E; inversion E; auto.
    assert (E' : stl cs c = Some CExpiring) by (rewrite (stl_some _ _ _ Hx); auto).
    destruct (Hexp c E'). discriminate. }
  assert (Hoth : forall c' v, c' <> c -> stl cs c' = Some v -> stl (upd c f cs) c' = Some v).
  { intros. rewrite stl_upd. destruct (Nat.eqb_spec c c'); congruence. }
  assert (Hkp : forall c', In c' (if inited x then remove1 c kp else kp) -> In c' kp /\ c' <> c).
  { intros c' H. destruct (inited x) eqn:Ei.
    - split. eapply remove1_In; eauto. intro Ec; subst c'. exact (remove1_notin c kp (Hknd Hpf) H).
    - split; auto. intro Ec; subst c'. apply Hkeep in H; auto. rewrite (stl_some _ _ _ Hx) in H. inversion H.
      destruct (Hun _ _ Hx Ei); congruence. }
  constructor.
  - rewrite (cnt_upd _ _ _ _ Hx). simpl. rewrite Hacct. destruct Hst as [E|E]; rewrite E; simpl; lia.
  - intros c' x' H. eqcase c c'.
    + rewrite nth_upd_eq, Hx in H. simpl in H. inversion H; subst. simpl. rewrite (Hcl _ _ Hx).
      destruct Hst as [E|E]; rewrite E; auto.
    + rewrite nth_upd_ne in H; eauto.
  - intros _ c' H. apply Hkp in H. destruct H. apply Hoth; auto.
  - intros _. destruct (inited x); auto. apply remove1_nodup; auto.
  - intros c' H. apply Hoth; auto. intro Ec; subst c'. apply Hbl in H. rewrite (stl_some _ _ _ Hx) in H.
    destruct Hst; congruence.
  - auto.
  - intros c' H. assert (c' <> c) by (intro Ec; subst c'; exact (remove1_notin c rg Hregnd H)).
    apply remove1_In in H. destruct (Hreg c' H) as [E|[E|E]]; [left|right;left|right;right]; apply Hoth; auto.
  - apply remove1_nodup; auto.
  - intros c' x' H Hi. eqcase c c'.
    + rewrite nth_upd_eq, Hx in H. simpl in H. inversion H; subst. simpl in Hi. discriminate.
    + rewrite nth_upd_ne in H; eauto.
  - intros c' H. rewrite stl_upd in H. destruct (Nat.eqb_spec c c').
    + subst. rewrite Hx in H. simpl in H. discriminate.
    + destruct (Hexp c' H). discriminate.
  - apply pc_ok_dispatch.
  - intro. congruence.
  - intros c' x' H Ht. eqcase c c'.
    + rewrite nth_upd_eq, Hx in H. simpl in H. inversion H; subst. simpl in Ht. try discriminate.
    + rewrite nth_upd_ne in H; eauto.
Qed.

(* murder_keepalived: popleft + compare: expired *)
Lemma invp_pop_expired : forall ka cs bl nr kp rg pcl now c x, InvP ka cs bl nr (c :: kp) rg pcl (MPop now) ->
  nth_error cs c = Some x ->
  InvP ka (upd c (set_st CExpiring) cs) bl (nr - 1) kp rg pcl (MUnreg now c).
Proof.
  intros ka cs bl nr kp rg pcl now c x H Hx.
  assert (Hpf : pcl = false) by (eapply invp_pcl_false; eauto; discriminate).
  destruct H as [Hacct Hcl Hkeep Hknd Hbl Hblnd Hreg Hregnd Hun Hexp Hpc Hpcl Htm].
  assert (Hst : st x = CKeep).
  { assert (E : stl cs c = Some CKeep) by (apply Hkeep; auto; left; auto).
    rewrite (stl_some _ _ _ Hx) in E. congruence. }
  assert (Hoth : forall c' v, c' <> c -> stl cs c' = Some v -> stl (upd c (set_st CExpiring) cs) c' = Some v).
  { intros. rewrite stl_upd. destruct (Nat.eqb_spec c c'); congruence. }
  assert (Hnd : NoDup (c :: kp)) by auto. inversion Hnd as [|? ? Hnin Hnd']; subst.
  assert (Hself : stl (upd c (set_st CExpiring) cs) c = Some CExpiring).
  { rewrite stl_upd, Nat.eqb_refl, Hx. auto. }
  constructor.
  - rewrite (cnt_upd _ _ _ _ Hx). simpl. rewrite Hst. simpl. lia.
  - intros c' x' H. eqcase c c'.
    + rewrite nth_upd_eq, Hx in H. simpl in H. inversion H; subst. simpl. rewrite (Hcl _ _ Hx). rewrite Hst. auto.
    + rewrite nth_upd_ne in H; eauto.
  - intros _ c' H. apply Hoth. intro Ec; subst c'; contradiction. apply Hkeep; auto. right; auto.
  - auto.
  - intros c' H. apply Hoth; auto. intro Ec; subst c'. apply Hbl in H. rewrite (stl_some _ _ _ Hx) in H. congruence.
  - auto.
  - intros c' H. eqcase c' c. right; right; auto.
    destruct (Hreg c' H) as [E|[E|E]]; [left|right;left|right;right]; apply Hoth; auto.
  - auto.
  - intros c' x' H Hi. eqcase c c'.
    + rewrite nth_upd_eq, Hx in H. simpl in H. inversion H; subst. simpl in Hi.
      destruct (Hun _ _ Hx Hi); congruence.
    + rewrite nth_upd_ne in H; eauto.
  - intros c' H. eqcase c c'. exists now; auto.
    rewrite stl_upd in H. destruct (Nat.eqb_spec c c'); try congruence. destruct (Hexp c' H). discriminate.
  - simpl. auto.
  - intro. congruence.
  - intros c' x' H Ht. eqcase c c'.
    + rewrite nth_upd_eq, Hx in H. simpl in H. inversion H; subst. simpl. apply (Htm _ _ Hx). rewrite Hst. auto.
    + rewrite nth_upd_ne in H; eauto.
Qed.

(* ... not expired: the connection is out of the deque until it is put back *)
Lemma invp_pop_keep : forall ka cs bl nr kp rg pcl now c, InvP ka cs bl nr (c :: kp) rg pcl (MPop now) ->
  InvP ka cs bl nr kp rg pcl (MPutback c).
Proof.
  intros ka cs bl nr kp rg pcl now c H.
  assert (Hpf : pcl = false) by (eapply invp_pcl_false; eauto; discriminate).
  destruct H as [Hacct Hcl Hkeep Hknd Hbl Hblnd Hreg Hregnd Hun Hexp Hpc Hpcl Htm].
  assert (Hnd : NoDup (c :: kp)) by auto. inversion Hnd as [|? ? Hnin Hnd']; subst.
  constructor; auto.
  - intros _ c' H. apply Hkeep; auto. right; auto.
  - intros c' H. destruct (Hexp c' H). discriminate.
  - simpl. split; auto. apply Hkeep; auto. left; auto.
  - intro. congruence.
Qed.

Lemma invp_putback : forall ka cs bl nr kp rg pcl c p', InvP ka cs bl nr kp rg pcl (MPutback c) ->
  pc_ok cs (c :: kp) p' -> (pcl = true -> p' = MFinal \/ p' = MStopped) -> not_unreg p' ->
  InvP ka cs bl nr (c :: kp) rg pcl p'.
Proof.
  intros ka cs bl nr kp rg pcl c p' H Hok Hp Hnu.
  assert (Hpf : pcl = false) by (eapply invp_pcl_false; eauto; discriminate).
  destruct H as [Hacct Hcl Hkeep Hknd Hbl Hblnd Hreg Hregnd Hun Hexp Hpc Hpcl Htm].
  simpl in Hpc. destruct Hpc as [Hck Hnin].
  constructor; auto.
  - intros _ c' [H|H]. subst; auto. apply Hkeep; auto.
  - intros _. constructor; auto.
  - intros c' H. destruct (Hexp c' H). discriminate.
Qed.

(* murder_keepalived: unregister + close *)
Lemma invp_unreg : forall ka cs bl nr kp rg pcl now c x, InvP ka cs bl nr kp rg pcl (MUnreg now c) ->
  nth_error cs c = Some x ->
  InvP ka (upd c close_conn cs) bl nr kp (remove1 c rg) pcl (MPop now).
Proof.
  intros ka cs bl nr kp rg pcl now c x H Hx.
  assert (Hpf : pcl = false) by (eapply invp_pcl_false; eauto; discriminate).
  destruct H as [Hacct Hcl Hkeep Hknd Hbl Hblnd Hreg Hregnd Hun Hexp Hpc Hpcl Htm].
  simpl in Hpc. assert (Hst : st x = CExpiring) by (rewrite (stl_some _ _ _ Hx) in Hpc; congruence).
  assert (Hany : forall c' v, v <> CExpiring -> stl cs c' = Some v -> stl (upd c close_conn cs) c' = Some v).
  { intros. eapply stl_other; eauto. congruence. }
  constructor.
  - rewrite (cnt_upd _ _ _ _ Hx). simpl. rewrite Hst. simpl. lia.
  - intros c' x' H. eqcase c c'.
    + rewrite nth_upd_eq, Hx in H. simpl in H. inversion H; subst. simpl. rewrite (Hcl _ _ Hx). rewrite Hst. auto.
    + rewrite nth_upd_ne in H; eauto.
  - intros. apply Hany; auto. discriminate.
  - auto.
  - intros. apply Hany; auto. discriminate.
  - auto.
  - intros c' H. assert (c' <> c) by (intro Ec; subst c'; exact (remove1_notin c rg Hregnd H)).
    apply remove1_In in H. destruct (Hreg c' H) as [E|[E|E]].
    + left. apply Hany; auto. discriminate.
    + right; left. apply Hany; auto. discriminate.
    + destruct (Hexp c' E) as [n' En]. inversion En. congruence.
  - apply remove1_nodup; auto.
  - intros c' x' H Hi. eqcase c c'.
    + rewrite nth_upd_eq, Hx in H. simpl in H. inversion H; subst. simpl in Hi.
      destruct (Hun _ _ Hx Hi); congruence.
    + rewrite nth_upd_ne in H; eauto.
  - intros c' H. rewrite stl_upd in H. destruct (Nat.eqb_spec c c').
    + subst. rewrite Hx in H. simpl in H. discriminate.
    + destruct (Hexp c' H) as [n' En]. inversion En. congruence.
  - simpl. auto.
  - intro. congruence.
  - intros c' x' H Ht. eqcase c c'.
    + rewrite nth_upd_eq, Hx in H. simpl in H. inversion H; subst. simpl in Ht. try discriminate.
    + rewrite nth_upd_ne in H; eauto.
Qed.

(* after the loop *)
Lemma invp_exit : forall ka cs bl nr kp rg pcl p p', InvP ka cs bl nr kp rg pcl p -> not_unreg p ->
  p' = MFinal \/ p' = MStopped -> InvP ka cs bl nr kp [] true p'.
Proof.
  intros ka cs bl nr kp rg pcl p p' [Hacct Hcl Hkeep Hknd Hbl Hblnd Hreg Hregnd Hun Hexp Hpc Hpcl Htm] Hnu Hp.
  constructor; auto; try discriminate.
  - intros c []. 
  - constructor.
  - intros c H. destruct (Hexp c H) as [now E]. exfalso. eapply Hnu; eauto.
  - destruct Hp; subst; simpl; auto.
Qed.

(* a client connects *)
Lemma invp_connect : forall ka cs bl nr kp rg pcl p, InvP ka cs bl nr kp rg pcl p ->
  InvP ka (cs ++ [new_conn]) (bl ++ [length cs]) nr kp rg pcl p.
Proof.
  intros ka cs bl nr kp rg pcl p [Hacct Hcl Hkeep Hknd Hbl Hblnd Hreg Hregnd Hun Hexp Hpc Hpcl Htm].
  assert (Hold : forall c v, stl cs c = Some v -> stl (cs ++ [new_conn]) c = Some v).
  { unfold stl. intros c v H. destruct (nth_error cs c) eqn:E; try discriminate.
    rewrite nth_error_app1. rewrite E; auto. apply nth_error_Some. congruence. }
  assert (Hnew : forall c x, nth_error (cs ++ [new_conn]) c = Some x -> nth_error cs c = Some x \/ (c = length cs /\ x = new_conn)).
  { intros c x H. destruct (lt_dec c (length cs)).
    - rewrite nth_error_app1 in H; auto.
    - rewrite nth_error_app2 in H by lia. right. destruct (c - length cs)%nat eqn:E; simpl in H.
      + inversion H. split; auto. lia.
      + destruct n0; discriminate. }
  constructor; auto.
  - unfold cnt in *. rewrite count_app. simpl. lia.
  - intros c x H. destruct (Hnew c x H) as [H'|[_ H']]; eauto. subst. auto.
  - intros c Hin. apply in_app_or in Hin. destruct Hin as [Hin|Hin]; auto.
    simpl in Hin. destruct Hin; try contradiction. subst. unfold stl. rewrite nth_error_app2 by lia.
    rewrite Nat.sub_diag. auto.
  - apply nodup_app1; auto. intro Hin. apply Hbl in Hin. unfold stl in Hin.
    destruct (nth_error cs (length cs)) eqn:E; try discriminate.
    assert (length cs < length cs)%nat by (apply nth_error_Some; congruence). lia.
  - intros c Hin. destruct (Hreg c Hin) as [E|[E|E]]; auto.
  - intros c x H Hi. destruct (Hnew c x H) as [H'|[_ H']]; eauto. subst. auto.
  - intros c H. apply Hexp. unfold stl in *. destruct (nth_error (cs ++ [new_conn]) c) eqn:E; try discriminate.
    destruct (Hnew c c0 E) as [H'|[_ H']]. rewrite H'. auto. subst. simpl in H. discriminate.
  - unfold pc_ok in *. destruct p; auto. destruct Hpc; auto.
  - intros c x H Ht. destruct (Hnew c x H) as [H'|[_ H']]; eauto. subst. discriminate.
Qed.

(* ------------------------------------------------------------------------------------------------ *)
(* every step preserves the invariant                                                               *)
(* ------------------------------------------------------------------------------------------------ *)
Ltac inv_some := match goal with H : Some _ = Some _ |- _ => inversion H; subst; clear H end.

Lemma p_start_inv : forall g s c s', Inv g s -> p_start s c = Some s' -> Inv g s'.
Proof.
  unfold p_start, getc. intros g s c s' H E. destruct (nth_error (conns s) c) as [x|] eqn:Hx; try discriminate.
  destruct (st x) eqn:Hst; try discriminate. inv_some. unfold Inv in *. simpl.
  eapply invp_upd_gen; eauto. right. rewrite Hst. auto.
Qed.

Lemma p_start_same : forall s c s', p_start s c = Some s' ->
  mpc s' = mpc s /\ pclosed s' = pclosed s /\ nr_conns s' = nr_conns s /\ clock s' = clock s.
Proof.
  unfold p_start. intros s c s' E. destruct (getc s c) as [x|]; try discriminate.
  destruct (st x); try discriminate. inv_some. simpl. auto.
Qed.

Lemma p_handle_inv : forall g s c s', Inv g s -> p_handle g s c = Some s' -> Inv g s'.
Proof.
  unfold p_handle, getc. intros g s c s' H E. destruct (nth_error (conns s) c) as [x|] eqn:Hx; try discriminate.
  destruct (st x) eqn:Hst; try discriminate.
  destruct (match pbuf x with [] => sockbuf x | _ :: _ => pbuf x end) as [|k rest].
  - destruct (eof x); try discriminate. inv_some. unfold Inv in *. simpl.
    eapply invp_upd_gen; eauto. right. rewrite Hst. auto.
  - destruct k; inv_some; unfold Inv in *; simpl; eapply invp_upd_gen; eauto; right; rewrite Hst; auto.
Qed.

Lemma p_handle_same : forall g s c s', p_handle g s c = Some s' ->
  mpc s' = mpc s /\ pclosed s' = pclosed s /\ nr_conns s' = nr_conns s /\ clock s' = clock s.
Proof.
  unfold p_handle. intros g s c s' E. destruct (getc s c) as [x|]; try discriminate.
  destruct (st x); try discriminate.
  destruct (match pbuf x with [] => sockbuf x | _ :: _ => pbuf x end) as [|k rest].
  - destruct (eof x); try discriminate. inv_some. simpl. auto.
  - destruct k; inv_some; simpl; auto.
Qed.

Lemma p_finish_inv : forall g s c s', Inv g s -> p_finish g s c = Some s' -> Inv g s'.
Proof.
  unfold p_finish, getc. intros g s c s' H E. destruct (nth_error (conns s) c) as [x|] eqn:Hx; try discriminate.
  destruct (st x) eqn:Hst; try discriminate.
  destruct (ka && alive s); inv_some; unfold Inv in *; simpl.
  - eapply invp_upd_gen; eauto. right. rewrite Hst. auto.
  - eapply invp_close; eauto. rewrite Hst. auto.
Qed.

Lemma p_finish_same : forall g s c s', p_finish g s c = Some s' ->
  mpc s' = mpc s /\ pclosed s' = pclosed s /\ nr_conns s' <= nr_conns s /\ clock s' = clock s.
Proof.
  unfold p_finish. intros g s c s' E. destruct (getc s c) as [x|]; try discriminate.
  destruct (st x); try discriminate.
  destruct (ka && alive s); inv_some; simpl; repeat split; auto; lia.
Qed.

Lemma p_finlock_inv : forall g s c s', Inv g s -> p_finlock s c = Some s' -> Inv g s'.
Proof.
  unfold p_finlock, getc. intros g s c s' H E. destruct (nth_error (conns s) c) as [x|] eqn:Hx; try discriminate.
  destruct (st x) eqn:Hst; try discriminate.
  destruct (pclosed s) eqn:Hp; simpl in E.
  - inv_some. unfold Inv in *. simpl. rewrite Hp in *.
    eapply invp_close; eauto; try (rewrite Hst; auto).
    destruct H as [Hacct Hcl Hkeep Hknd Hbl Hblnd Hreg Hregnd Hun Hexp Hpc Hpcl Htm].
    constructor; auto; try (intros; discriminate).
    destruct (Hpcl eq_refl) as [Em|Em]; rewrite Em; simpl; auto.
  - destruct (mem c (regd s)) eqn:Hm.
    + exfalso. apply mem_In in Hm. unfold Inv in H. apply (i_regd _ _ _ _ _ _ _ _ H) in Hm.
      rewrite (stl_some _ _ _ Hx) in Hm. rewrite Hst in Hm. destruct Hm as [E'|[E'|E']]; discriminate.
    + inv_some. unfold Inv in *. simpl. rewrite Hp in *. eapply invp_finlock; eauto.
Qed.

Lemma p_finlock_same : forall s c s', p_finlock s c = Some s' ->
  mpc s' = mpc s /\ pclosed s' = pclosed s /\ nr_conns s' <= nr_conns s /\ clock s' = clock s.
Proof.
  unfold p_finlock. intros s c s' E. destruct (getc s c) as [x|]; try discriminate.
  destruct (st x); try discriminate.
  destruct (pclosed s || mem c (regd s)); inv_some; simpl; repeat split; auto; lia.
Qed.

Lemma p_cancel_inv : forall g s c s', Inv g s -> p_cancel s c = Some s' -> Inv g s'.
Proof.
  unfold p_cancel, getc. intros g s c s' H E. destruct (nth_error (conns s) c) as [x|] eqn:Hx; try discriminate.
  destruct (st x) eqn:Hst; try discriminate. inv_some. unfold Inv in *. simpl.
  eapply invp_close; eauto. rewrite Hst. auto.
Qed.

Lemma head_mpc : forall g p s, head g (set_mpc p s) = head g s.
Proof. intros. destruct s. reflexivity. Qed.

Lemma head_inv : forall g s, Inv g s -> not_unreg (mpc s) -> mpc s <> MFinal -> mpc s <> MStopped -> Inv g (head g s).
Proof.
  intros g s H Hnu H1 H2. assert (Hpf : pclosed s = false) by (eapply invp_pcl_false; eauto).
  unfold head. destruct (negb (alive s)).
  - unfold Inv, exit_seq in *. simpl. eapply invp_exit; eauto.
  - destruct (nr_conns s <? wconn g); unfold Inv in *; simpl; eapply invp_pc; eauto; simpl; auto; congruence.
Qed.

Lemma nu_simple : forall p, (forall now c, p <> MUnreg now c) -> not_unreg p.
Proof. auto. Qed.

Ltac nu := unfold not_unreg; intros; congruence.

Lemma rd_step_inv : forall g s c r b s', Inv g s -> mpc s = MRd c r -> rd_step g s c r b = Some s' -> Inv g s'.
Proof.
  unfold rd_step. intros g s c r b s' H Hpc E.
  assert (Hpf : pclosed s = false) by (eapply invp_pcl_false; eauto; congruence).
  destruct (mem c (regd s)) eqn:Hm; simpl in E.
  2:{ inv_some. unfold Inv in *. simpl. eapply invp_pc; eauto. rewrite Hpc; nu. simpl; auto. congruence. }
  apply mem_In in Hm. unfold getc in E. destruct (nth_error (conns s) c) as [x|] eqn:Hx.
  2:{ inv_some. unfold Inv in *. simpl. eapply invp_pc; eauto. rewrite Hpc; nu. simpl; auto. congruence. }
  destruct (inited x && negb (mem c (keep s))) eqn:Hrace.
  - inv_some. unfold Inv in *. simpl. rewrite Hpc in H. eapply invp_rd_return; eauto.
  - assert (Hik : inited x = true -> In c (keep s)).
    { intro Hi. rewrite Hi in Hrace. simpl in Hrace. apply negb_false_iff in Hrace. apply mem_In; auto. }
    assert (Hs4 : Inv g (set_mpc (dispatch r)
               (set_futs (futs (if inited x then set_keep (remove1 c (keep (set_regd (remove1 c (regd s)) s))) (set_regd (remove1 c (regd s)) s) else set_regd (remove1 c (regd s)) s) ++ [(c, false)])
                  (updc c (fun y => set_st CQueued (set_inited y))
                     (if inited x then set_keep (remove1 c (keep (set_regd (remove1 c (regd s)) s))) (set_regd (remove1 c (regd s)) s) else set_regd (remove1 c (regd s)) s))))).
    { unfold Inv in *. rewrite Hpc in H. pose proof (invp_rd _ _ _ _ _ _ _ _ _ _ H Hm Hx Hik) as G.
      destruct (inited x); simpl; exact G. }
    destruct b; [|inv_some; exact Hs4].
    unfold inline_run in E.
    match type of E with obind (p_start ?t c) _ = _ => set (s4 := t) in * end.
    destruct (p_start s4 c) as [s1|] eqn:E1; simpl in E; try discriminate.
    destruct (p_handle g s1 c) as [s2|] eqn:E2; simpl in E; try discriminate.
    destruct (p_finish g s2 c) as [s3|] eqn:E3; simpl in E; try discriminate.
    assert (I1 : Inv g s1) by (apply (p_start_inv g s4 c s1); [exact Hs4 | exact E1]).
    assert (I2 : Inv g s2) by (apply (p_handle_inv g s1 c s2); auto).
    assert (I3 : Inv g s3) by (apply (p_finish_inv g s2 c s3); auto).
    assert (M3 : mpc s3 = dispatch r).
    { destruct (p_start_same _ _ _ E1) as [A _]. destruct (p_handle_same _ _ _ _ E2) as [B _].
      destruct (p_finish_same _ _ _ _ E3) as [C _]. rewrite C, B, A. reflexivity. }
    assert (P3 : pclosed s3 = false).
    { destruct (p_start_same _ _ _ E1) as [_ [A _]]. destruct (p_handle_same _ _ _ _ E2) as [_ [B _]].
      destruct (p_finish_same _ _ _ _ E3) as [_ [C _]]. rewrite C, B, A. unfold s4. destruct (inited x); simpl; auto. }
    destruct (getc s3 c) as [x3|]; [destruct (st x3)|]; inv_some; auto.
    unfold Inv in *. simpl. eapply invp_pc; eauto. rewrite M3. apply dispatch_plain. simpl; auto. congruence.
Qed.

Lemma main_step_inv : forall g s evs b s', Inv g s -> main_step g s evs b = Some s' -> Inv g s'.
Proof.
  unfold main_step. intros g s evs b s' H E. destruct (mpc s) eqn:Hpc.
  - (* MSel *) destruct (evs_ok g s evs); try discriminate. inv_some.
    assert (Hpf : pclosed s = false) by (eapply invp_pcl_false; eauto; congruence).
    unfold Inv in *. simpl. eapply invp_pc; eauto. rewrite Hpc; nu. apply pc_ok_dispatch. congruence.
  - (* MAcc *) assert (Hpf : pclosed s = false) by (eapply invp_pcl_false; eauto; congruence).
    destruct (backlog s) as [|c bl] eqn:Hbl; inv_some; unfold Inv in *; simpl.
    + eapply invp_pc; eauto. rewrite Hpc; nu. apply pc_ok_dispatch. congruence.
    + rewrite Hbl, Hpc in H. eapply invp_accept; eauto.
  - (* MAccReg *) assert (Hpf : pclosed s = false) by (eapply invp_pcl_false; eauto; congruence).
    destruct (mem c (regd s)) eqn:Hm; inv_some; unfold Inv in *; simpl.
    + eapply invp_pc; eauto. rewrite Hpc; nu. simpl; auto. congruence.
    + rewrite Hpc in H. eapply invp_accreg; eauto. apply mem_false; auto.
  - (* MRd *) eapply rd_step_inv; eauto.
  - (* MFin *) destruct (p_finlock s c) as [s1|] eqn:E1; simpl in E; try discriminate. inv_some.
    pose proof (p_finlock_inv _ _ _ _ H E1) as I1. destruct (p_finlock_same _ _ _ E1) as [A [B _]].
    assert (Hpf : pclosed s = false) by (eapply invp_pcl_false; eauto; congruence).
    unfold Inv in *. simpl. eapply invp_pc; eauto. rewrite A, Hpc; nu. apply pc_ok_dispatch. congruence.
  - (* MWait *) assert (Hpf : pclosed s = false) by (eapply invp_pcl_false; eauto; congruence).
    destruct (orphan s); inv_some; unfold Inv, exit_seq in *; simpl.
    + eapply invp_exit; eauto. rewrite Hpc; nu.
    + eapply invp_pc; eauto. rewrite Hpc; nu. simpl; auto. congruence.
  - (* MPop *) destruct (keep s) as [|c k] eqn:Hk.
    + inv_some. apply head_inv; auto; rewrite Hpc; try nu; congruence.
    + unfold getc in E. destruct (nth_error (conns s) c) as [x|] eqn:Hx.
      * destruct (now <? tmo x); inv_some; unfold Inv in *; simpl; rewrite Hk, Hpc in H.
        -- eapply invp_pop_keep; eauto.
        -- eapply invp_pop_expired; eauto.
      * inv_some. assert (Hpf : pclosed s = false) by (eapply invp_pcl_false; eauto; congruence).
        unfold Inv in *. simpl. eapply invp_pc; eauto. rewrite Hpc; nu. simpl; auto. congruence.
  - (* MPutback *) inv_some.
    assert (Hpf : pclosed s = false) by (eapply invp_pcl_false; eauto; congruence).
    rewrite <- (head_mpc g MWait). apply head_inv; simpl; try nu; try congruence.
    unfold Inv in *. simpl. rewrite Hpc in H. eapply invp_putback; eauto. simpl; auto. congruence. nu.
  - (* MUnreg *) inv_some. unfold Inv in *. simpl. rewrite Hpc in H.
    pose proof (i_pc _ _ _ _ _ _ _ _ H) as Hc. simpl in Hc. unfold stl in Hc.
    destruct (nth_error (conns s) c) as [x|] eqn:Hx; try discriminate.
    eapply invp_unreg; eauto.
  - (* MFinal *) inv_some. unfold Inv in *. simpl. eapply invp_pc; eauto. rewrite Hpc; nu. simpl; auto.
  - discriminate.
  - discriminate.
Qed.

Lemma inv_same_conn_st : forall g s c f x, Inv g s -> getc s c = Some x ->
  st (f x) = st x -> closes (f x) = closes x -> inited (f x) = inited x ->
  tmo (f x) = tmo x -> since (f x) = since x -> Inv g (updc c f s).
Proof.
  intros. unfold Inv in *. simpl. apply (invp_upd_gen _ _ _ _ _ _ _ _ _ x); auto.
Qed.

Theorem step_inv : forall g s l s', Inv g s -> step g s l = Some s' -> Inv g s'.
Proof.
  intros g s l s' H E. destruct l; simpl in E.
  - eapply main_step_inv; eauto.
  - destruct (pool_busy s <? threads g); try discriminate. eapply p_start_inv; eauto.
  - eapply p_handle_inv; eauto.
  - eapply p_finish_inv; eauto.
  - destruct (fin_by_main s c); try discriminate. eapply p_finlock_inv; eauto.
  - eapply p_cancel_inv; eauto.
  - inv_some. unfold Inv in *. simpl. apply invp_connect; auto.
  - destruct (getc s c) as [x|] eqn:Hx; try discriminate. destruct (eof x); try discriminate.
    destruct (st x) eqn:Hst; inv_some; auto; eapply inv_same_conn_st; eauto.
  - destruct (getc s c) as [x|] eqn:Hx; try discriminate. destruct (eof x); try discriminate.
    inv_some. eapply inv_same_conn_st; eauto.
  - inv_some. exact H.
  - inv_some. exact H.
  - inv_some. exact H.
Qed.

Lemma init_inv : forall g, Inv g (init g).
Proof.
  intros. unfold init. apply head_inv; simpl; try nu; try congruence.
  unfold Inv. simpl. constructor; simpl; auto; try (intros; try contradiction; try discriminate; fail).
  - intros c x H. destruct c; discriminate.
  - constructor.
  - constructor.
  - constructor.
  - intros c x H. destruct c; discriminate.
  - intros c H. unfold stl in H. destruct c; discriminate.
  - intros c x H. destruct c; discriminate.
Qed.

Theorem run_inv : forall g ls s s', Inv g s -> run g s ls = Some s' -> Inv g s'.
Proof.
  induction ls; simpl; intros. inv_some; auto.
  destruct (step g s a) as [s0|] eqn:E; simpl in H0; try discriminate.
  apply (IHls s0 s'); auto. apply (step_inv g s a s0); auto.
Qed.

Definition reachable (g:cfg) (s:state) : Prop := exists ls, run g (init g) ls = Some s.

Theorem reachable_inv : forall g s, reachable g s -> Inv g s.
Proof. intros g s [ls H]. eapply run_inv; eauto. apply init_inv. Qed.

(* ------------------------------------------------------------------------------------------------ *)
(* consequences: accounting, closes                                                                 *)
(* ------------------------------------------------------------------------------------------------ *)
Theorem accounting : forall g s, reachable g s ->
  nr_conns s = n_counted s
  /\ (forall c x, getc s c = Some x -> closes x = match st x with CClosed => 1%nat | _ => 0%nat end).
Proof.
  intros g s R. apply reachable_inv in R. split. apply (i_acct _ _ _ _ _ _ _ _ R).
  intros. apply (i_closes _ _ _ _ _ _ _ _ R c). auto.
Qed.

(* a socket that the worker has closed belongs to a connection in state Closed: in particular never to one
   whose request is queued, running or finishing *)
Theorem never_closed_while_handled : forall g s c x, reachable g s -> getc s c = Some x ->
  st x <> CClosed -> closes x = 0%nat.
Proof.
  intros g s c x R Hx Hn. destruct (accounting g s R) as [_ H]. rewrite (H c x Hx). destruct (st x); congruence.
Qed.

Theorem no_double_close : forall g s c x, reachable g s -> getc s c = Some x -> (closes x <= 1)%nat.
Proof.
  intros g s c x R Hx. destruct (accounting g s R) as [_ H]. rewrite (H c x Hx). destruct (st x); lia.
Qed.

Lemma reachable_step : forall g s l s', reachable g s -> step g s l = Some s' -> reachable g s'.
Proof.
  intros g s l s' [ls H] E. exists (ls ++ [l]).
  assert (G : forall ls s0, run g s0 ls = Some s -> run g s0 (ls ++ [l]) = Some s').
  { induction ls0; simpl; intros. inv_some. rewrite E. auto.
    destruct (step g s0 a); simpl in *; try discriminate. auto. }
  auto.
Qed.

Lemma run_app : forall g l1 l2 s, run g s (l1 ++ l2) = obind (run g s l1) (fun s1 => run g s1 l2).
Proof. induction l1; simpl; intros; auto. destruct (step g s a); simpl; auto. Qed.

Lemma reachable_run : forall g s ls s', reachable g s -> run g s ls = Some s' -> reachable g s'.
Proof. intros g s ls s' [l0 H] E. exists (l0 ++ ls). rewrite run_app, H. auto. Qed.

(* ---- what a single (non-inline) step does to one connection ---- *)
Ltac upd_cases Hx' c :=
  repeat match type of Hx' with
  | context [nth_error (upd ?c0 ?f ?l) c] =>
      destruct (Nat.eqb_spec c0 c); [subst; rewrite nth_upd_eq in Hx' | rewrite nth_upd_ne in Hx' by auto]
  end.

Ltac same_conn Hx Hx' :=
  rewrite Hx in Hx'; simpl in Hx'; inversion Hx'; subst; clear Hx'.

(* A close of connection c (its state becomes Closed) happens only from: handle returned (finish_request),
   finish_request at its lock with the poller already closed, a cancelled queued future, or an expired
   keep-alive connection popped by the reaper.  Never from Running, never from a live Keep/New. *)
Theorem close_requires : forall g s l s' c x x', reachable g s -> step g s l = Some s' ->
  (forall evs, l <> LMain evs true) ->
  getc s c = Some x -> getc s' c = Some x' -> st x <> CClosed -> st x' = CClosed ->
  (exists ka, st x = CDone ka /\ l = LFinish c) \/ (st x = CTimed /\ l = LFinLock c)
  \/ (st x = CQueued /\ l = LCancel c) \/ (st x = CExpiring /\ exists now, mpc s = MUnreg now c).
Proof.
  intros g s l s' c x x' R E Hni Hx Hx' Hn Hc. apply reachable_inv in R. unfold getc in *.
  destruct l; simpl in E.
  - (* main *)
    destruct inl_. exfalso; eapply Hni; eauto. clear Hni.
    unfold main_step in E. destruct (mpc s) eqn:Hpc.
    + destruct (evs_ok g s evs); try discriminate. inv_some. simpl in Hx'. congruence.
    + destruct (backlog s) as [|c0 bl]; inv_some; simpl in Hx'. congruence.
      upd_cases Hx' c. same_conn Hx Hx'. discriminate. congruence.
    + destruct (mem c0 (regd s)); inv_some; simpl in Hx'; congruence.
    + unfold rd_step in E. destruct (negb (mem c0 (regd s))). inv_some; simpl in Hx'; congruence.
      unfold getc in E. destruct (nth_error (conns s) c0) as [x0|]. 2:{ inv_some; simpl in Hx'; congruence. }
      destruct (inited x0 && negb (mem c0 (keep s))). inv_some; simpl in Hx'; congruence.
      inv_some. destruct (inited x0); simpl in Hx'; upd_cases Hx' c; try congruence; same_conn Hx Hx'; discriminate.
    + destruct (p_finlock s c0) as [s1|] eqn:E1; simpl in E; try discriminate. inv_some. simpl in Hx'.
      unfold p_finlock, getc in E1. destruct (nth_error (conns s) c0) as [x0|] eqn:Hx0; try discriminate.
      destruct (st x0) eqn:Hst0; try discriminate.
      exfalso. unfold Inv in R. rewrite Hpc in R.
      destruct (pclosed s) eqn:Hp. destruct (i_pclosed _ _ _ _ _ _ _ _ R eq_refl); discriminate.
      destruct (mem c0 (regd s)) eqn:Hm.
      * apply mem_In in Hm. apply (i_regd _ _ _ _ _ _ _ _ R) in Hm. rewrite (stl_some _ _ _ Hx0), Hst0 in Hm.
        destruct Hm as [?|[?|?]]; discriminate.
      * simpl in E1. inv_some. simpl in Hx'. upd_cases Hx' c; try congruence. same_conn Hx Hx'. discriminate.
    + destruct (orphan s); inv_some; simpl in Hx'; congruence.
    + destruct (keep s) as [|c0 k].
      * inv_some. unfold head in Hx'. destruct (negb (alive s)); [|destruct (nr_conns s <? wconn g)]; simpl in Hx'; congruence.
      * unfold getc in E. destruct (nth_error (conns s) c0) as [x0|]. 2:{ inv_some; simpl in Hx'; congruence. }
        destruct (now <? tmo x0); inv_some; simpl in Hx'. congruence.
        upd_cases Hx' c; try congruence. same_conn Hx Hx'. discriminate.
    + inv_some. unfold head in Hx'. simpl in Hx'.
      destruct (negb (alive s)); [|destruct (nr_conns s <? wconn g)]; simpl in Hx'; congruence.
    + inv_some. simpl in Hx'. upd_cases Hx' c; try congruence. same_conn Hx Hx'.
      right; right; right. unfold Inv in R. rewrite Hpc in R. pose proof (i_pc _ _ _ _ _ _ _ _ R) as Hp. simpl in Hp.
      rewrite (stl_some _ _ _ Hx) in Hp. inversion Hp. split; eauto.
    + inv_some. simpl in Hx'. congruence.
    + discriminate.
    + discriminate.
  - destruct (pool_busy s <? threads g); try discriminate. unfold p_start, getc in E.
    destruct (nth_error (conns s) c0) as [x0|] eqn:Hx0; try discriminate. destruct (st x0); try discriminate.
    inv_some. simpl in Hx'. upd_cases Hx' c; try congruence. same_conn Hx Hx'. discriminate.
  - unfold p_handle, getc in E.
    destruct (nth_error (conns s) c0) as [x0|] eqn:Hx0; try discriminate. destruct (st x0); try discriminate.
    destruct (match pbuf x0 with [] => sockbuf x0 | _ :: _ => pbuf x0 end) as [|k rest].
    + destruct (eof x0); try discriminate. inv_some. simpl in Hx'. upd_cases Hx' c; try congruence. same_conn Hx Hx'. discriminate.
    + destruct k; inv_some; simpl in Hx'; upd_cases Hx' c; try congruence; same_conn Hx Hx'; discriminate.
  - unfold p_finish, getc in E.
    destruct (nth_error (conns s) c0) as [x0|] eqn:Hx0; try discriminate. destruct (st x0) eqn:Hst0; try discriminate.
    destruct (ka && alive s); inv_some; simpl in Hx'; upd_cases Hx' c; try congruence; same_conn Hx Hx'.
    discriminate. left. exists ka. rewrite Hx0 in Hx. inversion Hx; subst. auto.
  - destruct (fin_by_main s c0); try discriminate. unfold p_finlock, getc in E.
    destruct (nth_error (conns s) c0) as [x0|] eqn:Hx0; try discriminate. destruct (st x0) eqn:Hst0; try discriminate.
    destruct (pclosed s || mem c0 (regd s)); inv_some; simpl in Hx'; upd_cases Hx' c; try congruence; same_conn Hx Hx'.
    right; left. rewrite Hx0 in Hx. inversion Hx; subst. auto. discriminate.
  - unfold p_cancel, getc in E.
    destruct (nth_error (conns s) c0) as [x0|] eqn:Hx0; try discriminate. destruct (st x0) eqn:Hst0; try discriminate.
    inv_some. simpl in Hx'. upd_cases Hx' c; try congruence. same_conn Hx Hx'.
    right; right; left. rewrite Hx0 in Hx. inversion Hx; subst. auto.
  - inv_some. simpl in Hx'. rewrite nth_error_app1 in Hx' by (apply nth_error_Some; congruence). congruence.
  - unfold getc in E. destruct (nth_error (conns s) c0) as [x0|] eqn:Hx0; try discriminate. destruct (eof x0); try discriminate.
    destruct (st x0); inv_some; try congruence; simpl in Hx'; upd_cases Hx' c; try congruence; same_conn Hx Hx'; simpl in *; congruence.
  - unfold getc in E. destruct (nth_error (conns s) c0) as [x0|] eqn:Hx0; try discriminate. destruct (eof x0); try discriminate.
    inv_some. simpl in Hx'. upd_cases Hx' c; try congruence. same_conn Hx Hx'. simpl in *. congruence.
  - inv_some. simpl in Hx'. congruence.
  - inv_some. simpl in Hx'. congruence.
  - inv_some. simpl in Hx'. congruence.
Qed.

(* ---- connections persist; their close and response counters never decrease ---- *)
Definition Rm (x x':conn) : Prop := (closes x <= closes x')%nat /\ (resp x <= resp x')%nat.
Definition ext (cs cs':list conn) : Prop :=
  forall c x, nth_error cs c = Some x -> exists x', nth_error cs' c = Some x' /\ Rm x x'.

Lemma ext_refl : forall cs, ext cs cs.
Proof. intros cs c x H. exists x. unfold Rm. split; auto. Qed.

Lemma ext_trans : forall a b c, ext a b -> ext b c -> ext a c.
Proof.
  intros a b c H1 H2 k x H. destruct (H1 k x H) as [y [Hy [A1 A2]]]. destruct (H2 k y Hy) as [z [Hz [B1 B2]]].
  exists z. unfold Rm. split; auto. split; lia.
Qed.

Lemma ext_upd : forall cs c f, (forall x, Rm x (f x)) -> ext cs (upd c f cs).
Proof.
  intros cs c f Hf k x H. destruct (Nat.eqb_spec c k).
  - subst. rewrite nth_upd_eq, H. simpl. eauto.
  - rewrite nth_upd_ne by auto. exists x. unfold Rm. split; auto.
Qed.

Lemma ext_app : forall cs l, ext cs (cs ++ l).
Proof.
  intros cs l k x H. exists x. unfold Rm. split; auto. rewrite nth_error_app1; auto. apply nth_error_Some. congruence.
Qed.

Ltac ext_one := first [ apply ext_refl | apply ext_upd; intro; unfold Rm; simpl; lia ].

Lemma p_start_ext : forall s c s', p_start s c = Some s' -> ext (conns s) (conns s').
Proof.
  unfold p_start. intros s c s' E. destruct (getc s c) as [x|]; try discriminate.
  destruct (st x); try discriminate. inv_some. simpl. ext_one.
Qed.

Lemma p_handle_ext : forall g s c s', p_handle g s c = Some s' -> ext (conns s) (conns s').
Proof.
  unfold p_handle. intros g s c s' E. destruct (getc s c) as [x|]; try discriminate.
  destruct (st x); try discriminate.
  destruct (match pbuf x with [] => sockbuf x | _ :: _ => pbuf x end) as [|k rest].
  - destruct (eof x); try discriminate. inv_some. simpl. ext_one.
  - destruct k; inv_some; simpl; ext_one.
Qed.

Lemma p_finish_ext : forall g s c s', p_finish g s c = Some s' -> ext (conns s) (conns s').
Proof.
  unfold p_finish. intros g s c s' E. destruct (getc s c) as [x|]; try discriminate.
  destruct (st x); try discriminate. destruct (ka && alive s); inv_some; simpl; ext_one.
Qed.

Lemma p_finlock_ext : forall s c s', p_finlock s c = Some s' -> ext (conns s) (conns s').
Proof.
  unfold p_finlock. intros s c s' E. destruct (getc s c) as [x|]; try discriminate.
  destruct (st x); try discriminate. destruct (pclosed s || mem c (regd s)); inv_some; simpl; ext_one.
Qed.

Lemma p_cancel_ext : forall s c s', p_cancel s c = Some s' -> ext (conns s) (conns s').
Proof.
  unfold p_cancel. intros s c s' E. destruct (getc s c) as [x|]; try discriminate.
  destruct (st x); try discriminate. inv_some; simpl; ext_one.
Qed.

Lemma head_conns : forall g s, conns (head g s) = conns s.
Proof. intros. unfold head. destruct (negb (alive s)); [|destruct (nr_conns s <? wconn g)]; reflexivity. Qed.

Lemma main_step_ext : forall g s evs b s', main_step g s evs b = Some s' -> ext (conns s) (conns s').
Proof.
  unfold main_step. intros g s evs b s' E. destruct (mpc s).
  - destruct (evs_ok g s evs); try discriminate. inv_some. simpl. ext_one.
  - destruct (backlog s); inv_some; simpl; ext_one.
  - destruct (mem c (regd s)); inv_some; simpl; ext_one.
  - unfold rd_step in E. destruct (negb (mem c (regd s))). inv_some; simpl; ext_one.
    destruct (getc s c) as [x|]. 2:{ inv_some; simpl; ext_one. }
    destruct (inited x && negb (mem c (keep s))). inv_some; simpl; ext_one.
    match type of E with (if b then inline_run g ?t c r else _) = _ => set (s4 := t) in * end.
    assert (H4 : ext (conns s) (conns s4)) by (unfold s4; destruct (inited x); simpl; ext_one).
    destruct b; [|inv_some; auto].
    unfold inline_run in E.
    destruct (p_start s4 c) as [s1|] eqn:E1; simpl in E; try discriminate.
    destruct (p_handle g s1 c) as [s2|] eqn:E2; simpl in E; try discriminate.
    destruct (p_finish g s2 c) as [s3|] eqn:E3; simpl in E; try discriminate.
    assert (H3 : ext (conns s) (conns s3)).
    { eapply ext_trans. apply H4. eapply ext_trans. eapply p_start_ext; eauto.
      eapply ext_trans. eapply p_handle_ext; eauto. eapply p_finish_ext; eauto. }
    destruct (getc s3 c) as [x3|]; [destruct (st x3)|]; inv_some; auto.
  - destruct (p_finlock s c) as [s1|] eqn:E1; simpl in E; try discriminate. inv_some. simpl.
    eapply p_finlock_ext; eauto.
  - destruct (orphan s); inv_some; simpl; ext_one.
  - destruct (keep s) as [|c k]. inv_some. rewrite head_conns. ext_one.
    destruct (getc s c) as [x|]. 2:{ inv_some; simpl; ext_one. }
    destruct (now <? tmo x); inv_some; simpl; ext_one.
  - inv_some. rewrite head_conns. simpl. ext_one.
  - inv_some. simpl. ext_one.
  - inv_some. simpl. ext_one.
  - discriminate.
  - discriminate.
Qed.

Theorem step_ext : forall g s l s', step g s l = Some s' -> ext (conns s) (conns s').
Proof.
  intros g s l s' E. destruct l; simpl in E.
  - eapply main_step_ext; eauto.
  - destruct (pool_busy s <? threads g); try discriminate. eapply p_start_ext; eauto.
  - eapply p_handle_ext; eauto.
  - eapply p_finish_ext; eauto.
  - destruct (fin_by_main s c); try discriminate. eapply p_finlock_ext; eauto.
  - eapply p_cancel_ext; eauto.
  - inv_some. simpl. apply ext_app.
  - destruct (getc s c) as [x|]; try discriminate. destruct (eof x); try discriminate.
    destruct (st x); inv_some; simpl; ext_one.
  - destruct (getc s c) as [x|]; try discriminate. destruct (eof x); try discriminate. inv_some. simpl. ext_one.
  - inv_some. simpl. ext_one.
  - inv_some. simpl. ext_one.
  - inv_some. simpl. ext_one.
Qed.

(* Closed is absorbing *)
Theorem closed_absorbing : forall g s l s' c x, reachable g s -> step g s l = Some s' ->
  getc s c = Some x -> st x = CClosed -> exists x', getc s' c = Some x' /\ st x' = CClosed.
Proof.
  intros g s l s' c x R E Hx Hst. destruct (step_ext _ _ _ _ E c x Hx) as [x' [Hx' [Hle _]]].
  exists x'. split; auto.
  pose proof (reachable_step _ _ _ _ R E) as R'. destruct (accounting g s' R') as [_ A'].
  destruct (accounting g s R) as [_ A]. rewrite (A' c x' Hx'), (A c x Hx), Hst in Hle.
  destruct (st x'); auto; lia.
Qed.

(* ------------------------------------------------------------------------------------------------ *)
(* the connection bound                                                                             *)
(* ------------------------------------------------------------------------------------------------ *)
Fixpoint nacc (r:list ev) : Z := match r with [] => 0 | EvAcc _ :: t => 1 + nacc t | EvRd _ :: t => nacc t end.
Fixpoint acc_ids (r:list ev) : list nat := match r with [] => [] | EvAcc l :: t => l :: acc_ids t | EvRd _ :: t => acc_ids t end.

Lemma nacc_len : forall r, nacc r = Z.of_nat (length (acc_ids r)).
Proof.
  induction r as [|[l|c] r].
  - reflexivity.
  - change (1 + nacc r = Z.of_nat (S (length (acc_ids r)))). rewrite IHr, Nat2Z.inj_succ. lia.
  - exact IHr.
Qed.

Lemma nacc_nonneg : forall r, 0 <= nacc r.
Proof. intros. rewrite nacc_len. lia. Qed.

Lemma ev_mem_acc : forall l r, In l (acc_ids r) -> ev_mem (EvAcc l) r = true.
Proof.
  induction r as [|[l'|c] r]; simpl; intros; try contradiction; auto.
  destruct H. subst. rewrite Nat.eqb_refl. auto. rewrite IHr; auto. apply orb_true_r.
Qed.

Lemma acc_ids_nodup : forall r, ev_nodup r = true -> NoDup (acc_ids r).
Proof.
  induction r as [|[l|c] r]; simpl; intros. constructor.
  - apply andb_true_iff in H. destruct H. constructor; auto. intro Hin. apply ev_mem_acc in Hin. rewrite Hin in H. discriminate.
  - apply andb_true_iff in H. destruct H. auto.
Qed.

Lemma nacc_bound : forall g s evs, evs_ok g s evs = true -> nacc evs <= Z.of_nat (nlisten g).
Proof.
  intros g s evs H. unfold evs_ok in H. apply andb_true_iff in H. destruct H as [Hall Hnd].
  rewrite nacc_len. apply inj_le. rewrite <- (seq_length (nlisten g) 0).
  apply NoDup_incl_length. apply acc_ids_nodup; auto.
  intros l Hin. apply in_seq. split. lia. simpl.
  clear Hnd. induction evs as [|[l'|c] r]; simpl in *; try contradiction.
  - apply andb_true_iff in Hall. destruct Hall as [A B]. destruct Hin. subst. apply Nat.ltb_lt; auto. auto.
  - apply andb_true_iff in Hall. destruct Hall as [A B]. auto.
Qed.

Definition budget (g:cfg) (p:pc) : Z :=
  match p with
  | MSel => Z.of_nat (nlisten g)
  | MAcc r => 1 + nacc r
  | MAccReg _ r | MRd _ r | MFin _ r => nacc r
  | _ => 0
  end.

Lemma budget_dispatch : forall g r, budget g (dispatch r) = nacc r.
Proof. intros. destruct r as [|[l|c] r]; simpl; auto. Qed.

Lemma budget_nonneg : forall g p, 0 <= budget g p.
Proof. intros. destruct p; unfold budget; try lia; try (pose proof (nacc_nonneg r); lia). Qed.

Definition Bnd (g:cfg) (s:state) : Prop := nr_conns s + budget g (mpc s) <= wconn g + Z.of_nat (nlisten g) - 1.

Lemma p_cancel_same : forall s c s', p_cancel s c = Some s' ->
  mpc s' = mpc s /\ pclosed s' = pclosed s /\ nr_conns s' <= nr_conns s /\ clock s' = clock s.
Proof.
  unfold p_cancel. intros s c s' E. destruct (getc s c) as [x|]; try discriminate.
  destruct (st x); try discriminate. inv_some; simpl; repeat split; auto; lia.
Qed.

Ltac sred := cbn [conns backlog nr_conns keep futs regd alive orphan clock nrq pclosed mpc
                  set_conns set_backlog set_nr set_keep set_futs set_regd set_alive set_orphan set_clock set_nrq
                  set_pclosed set_mpc updc exit_seq do_close budget].

Lemma head_bnd : forall g s, nr_conns s <= wconn g + Z.of_nat (nlisten g) - 1 -> Bnd g (head g s).
Proof.
  intros. unfold Bnd, head. destruct (negb (alive s)). sred. lia.
  destruct (nr_conns s <? wconn g) eqn:E; sred. apply Z.ltb_lt in E. lia. lia.
Qed.

Lemma main_step_bnd : forall g s evs b s', Bnd g s -> main_step g s evs b = Some s' -> Bnd g s'.
Proof.
  unfold main_step, Bnd. intros g s evs b s' H E. destruct (mpc s) eqn:Hpc; unfold budget in H.
  - destruct (evs_ok g s evs) eqn:Ok; try discriminate. inv_some. sred. rewrite budget_dispatch.
    pose proof (nacc_bound _ _ _ Ok). lia.
  - destruct (backlog s); inv_some; sred. rewrite budget_dispatch. lia. lia.
  - destruct (mem c (regd s)); inv_some; sred. pose proof (nacc_nonneg r). lia. rewrite budget_dispatch. lia.
  - unfold rd_step in E. pose proof (nacc_nonneg r) as Hr.
    destruct (negb (mem c (regd s))). inv_some; sred; lia.
    destruct (getc s c) as [x|]. 2:{ inv_some; sred; lia. }
    destruct (inited x && negb (mem c (keep s))). inv_some; sred; rewrite budget_dispatch; lia.
    match type of E with (if b then inline_run g ?t c r else _) = _ => set (s4 := t) in * end.
    assert (H4 : nr_conns s4 = nr_conns s /\ mpc s4 = dispatch r) by (unfold s4; destruct (inited x); sred; auto).
    destruct H4 as [N4 M4].
    destruct b; [|inv_some; rewrite N4, M4, budget_dispatch; lia].
    unfold inline_run in E.
    destruct (p_start s4 c) as [s1|] eqn:E1; simpl in E; try discriminate.
    destruct (p_handle g s1 c) as [s2|] eqn:E2; simpl in E; try discriminate.
    destruct (p_finish g s2 c) as [s3|] eqn:E3; simpl in E; try discriminate.
    destruct (p_start_same _ _ _ E1) as [A1 [_ [A2 _]]]. destruct (p_handle_same _ _ _ _ E2) as [B1 [_ [B2 _]]].
    destruct (p_finish_same _ _ _ _ E3) as [C1 [_ [C2 _]]].
    assert (N3 : nr_conns s3 <= nr_conns s) by lia.
    assert (M3 : mpc s3 = dispatch r) by congruence.
    destruct (getc s3 c) as [x3|]; [destruct (st x3)|]; inv_some; sred; try (rewrite M3, budget_dispatch); lia.
  - destruct (p_finlock s c) as [s1|] eqn:E1; simpl in E; try discriminate. inv_some. sred.
    destruct (p_finlock_same _ _ _ E1) as [_ [_ [A _]]]. rewrite budget_dispatch. lia.
  - destruct (orphan s); inv_some; sred; lia.
  - destruct (keep s) as [|c k]. inv_some. apply head_bnd. lia.
    destruct (getc s c) as [x|]. 2:{ inv_some; sred; lia. }
    destruct (now <? tmo x); inv_some; sred; lia.
  - inv_some. apply head_bnd. sred. lia.
  - inv_some. sred. lia.
  - inv_some. sred. lia.
  - discriminate.
  - discriminate.
Qed.

Theorem step_bnd : forall g s l s', Bnd g s -> step g s l = Some s' -> Bnd g s'.
Proof.
  intros g s l s' H E. destruct l; simpl in E.
  - eapply main_step_bnd; eauto.
  - destruct (pool_busy s <? threads g); try discriminate. destruct (p_start_same _ _ _ E) as [A [_ [B _]]].
    unfold Bnd in *. rewrite A, B. auto.
  - destruct (p_handle_same _ _ _ _ E) as [A [_ [B _]]]. unfold Bnd in *. rewrite A, B. auto.
  - destruct (p_finish_same _ _ _ _ E) as [A [_ [B _]]]. unfold Bnd in *. rewrite A. lia.
  - destruct (fin_by_main s c); try discriminate. destruct (p_finlock_same _ _ _ E) as [A [_ [B _]]]. unfold Bnd in *. rewrite A. lia.
  - destruct (p_cancel_same _ _ _ E) as [A [_ [B _]]]. unfold Bnd in *. rewrite A. lia.
  - inv_some. exact H.
  - destruct (getc s c) as [x|]; try discriminate. destruct (eof x); try discriminate.
    destruct (st x); inv_some; exact H.
  - destruct (getc s c) as [x|]; try discriminate. destruct (eof x); try discriminate. inv_some. exact H.
  - inv_some. exact H.
  - inv_some. exact H.
  - inv_some. exact H.
Qed.

Definition cfg_ok (g:cfg) : Prop := 1 <= wconn g /\ (1 <= nlisten g)%nat.

Theorem bounded_general : forall g s, cfg_ok g -> reachable g s ->
  nr_conns s <= wconn g + Z.of_nat (nlisten g) - 1.
Proof.
  intros g s [Hw Hl] [ls H].
  assert (B0 : Bnd g (init g)). { unfold init. apply head_bnd. simpl. lia. }
  assert (G : forall ls s0, Bnd g s0 -> run g s0 ls = Some s -> Bnd g s).
  { induction ls0; simpl; intros. inv_some; auto.
    destruct (step g s0 a) as [s1|] eqn:E; simpl in *; try discriminate. apply (IHls0 s1); auto. eapply step_bnd; eauto. }
  pose proof (G _ _ B0 H) as B. unfold Bnd in B. pose proof (budget_nonneg g (mpc s)). lia.
Qed.

Theorem bounded : forall g s, 1 <= wconn g -> nlisten g = 1%nat -> reachable g s -> nr_conns s <= wconn g.
Proof.
  intros g s Hw Hl R. pose proof (bounded_general g s) as B. unfold cfg_ok in B. rewrite Hl in B.
  simpl in B. assert (nr_conns s <= wconn g + 1 - 1) by (apply B; auto; lia). lia.
Qed.

(* ------------------------------------------------------------------------------------------------ *)
(* time: the reaper compares with a clock value that is not in the future                           *)
(* ------------------------------------------------------------------------------------------------ *)
Definition Tm (s:state) : Prop :=
  match mpc s with MPop now | MUnreg now _ => now <= clock s | _ => True end.

Lemma head_tm : forall g s, Tm (head g s).
Proof. intros. unfold Tm, head. destruct (negb (alive s)); [|destruct (nr_conns s <? wconn g)]; simpl; auto. Qed.

Lemma tm_dispatch : forall s r, Tm (set_mpc (dispatch r) s).
Proof. intros. unfold Tm. destruct r as [|[l|c] r]; simpl; auto. Qed.

Lemma main_step_tm : forall g s evs b s', Tm s -> main_step g s evs b = Some s' -> Tm s'.
Proof.
  unfold main_step. intros g s evs b s' H E. unfold Tm in H. destruct (mpc s) eqn:Hpc.
  - destruct (evs_ok g s evs); try discriminate. inv_some. apply tm_dispatch.
  - destruct (backlog s); inv_some. apply tm_dispatch. unfold Tm; simpl; auto.
  - destruct (mem c (regd s)); inv_some. unfold Tm; simpl; auto. apply tm_dispatch.
  - unfold rd_step in E.
    destruct (negb (mem c (regd s))). inv_some; unfold Tm; simpl; auto.
    destruct (getc s c) as [x|]. 2:{ inv_some; unfold Tm; simpl; auto. }
    destruct (inited x && negb (mem c (keep s))). inv_some; apply tm_dispatch.
    destruct b; [|inv_some; apply tm_dispatch].
    unfold inline_run in E.
    match type of E with obind (p_start ?t c) _ = _ => set (s4 := t) in * end.
    assert (M4 : mpc s4 = dispatch r) by reflexivity.
    destruct (p_start s4 c) as [s1|] eqn:E1; simpl in E; try discriminate.
    destruct (p_handle g s1 c) as [s2|] eqn:E2; simpl in E; try discriminate.
    destruct (p_finish g s2 c) as [s3|] eqn:E3; simpl in E; try discriminate.
    destruct (p_start_same _ _ _ E1) as [A1 _]. destruct (p_handle_same _ _ _ _ E2) as [B1 _].
    destruct (p_finish_same _ _ _ _ E3) as [C1 _].
    assert (M3 : mpc s3 = dispatch r) by congruence.
    assert (T3 : Tm s3). { unfold Tm. rewrite M3. destruct r as [|[l|c'] r]; simpl; auto. }
    destruct (getc s3 c) as [x3|]; [destruct (st x3)|]; inv_some; auto; unfold Tm; simpl; auto.
  - destruct (p_finlock s c) as [s1|] eqn:E1; simpl in E; try discriminate. inv_some. apply tm_dispatch.
  - destruct (orphan s); inv_some; unfold Tm; simpl; auto. lia.
  - destruct (keep s) as [|c k]. inv_some. apply head_tm.
    destruct (getc s c) as [x|]. 2:{ inv_some; unfold Tm; simpl; auto. }
    destruct (now <? tmo x); inv_some; unfold Tm; simpl; auto.
  - inv_some. apply head_tm.
  - inv_some. unfold Tm; simpl; auto.
  - inv_some. unfold Tm; simpl; auto.
  - discriminate.
  - discriminate.
Qed.

Theorem step_tm : forall g s l s', Tm s -> step g s l = Some s' -> Tm s'.
Proof.
  intros g s l s' H E. destruct l; simpl in E.
  - eapply main_step_tm; eauto.
  - destruct (pool_busy s <? threads g); try discriminate. destruct (p_start_same _ _ _ E) as [A [_ [_ B]]].
    unfold Tm in *. rewrite A, B. auto.
  - destruct (p_handle_same _ _ _ _ E) as [A [_ [_ B]]]. unfold Tm in *. rewrite A, B. auto.
  - destruct (p_finish_same _ _ _ _ E) as [A [_ [_ B]]]. unfold Tm in *. rewrite A, B. auto.
  - destruct (fin_by_main s c); try discriminate. destruct (p_finlock_same _ _ _ E) as [A [_ [_ B]]]. unfold Tm in *. rewrite A, B. auto.
  - destruct (p_cancel_same _ _ _ E) as [A [_ [_ B]]]. unfold Tm in *. rewrite A, B. auto.
  - inv_some. exact H.
  - destruct (getc s c) as [x|]; try discriminate. destruct (eof x); try discriminate.
    destruct (st x); inv_some; exact H.
  - destruct (getc s c) as [x|]; try discriminate. destruct (eof x); try discriminate. inv_some. exact H.
  - inv_some. exact H.
  - inv_some. unfold Tm in *. simpl. destruct (mpc s); auto; lia.
  - inv_some. exact H.
Qed.

Lemma reachable_tm : forall g s, reachable g s -> Tm s.
Proof.
  intros g s [ls H].
  assert (G : forall ls s0, Tm s0 -> run g s0 ls = Some s -> Tm s).
  { induction ls0; simpl; intros. inv_some; auto.
    destruct (step g s0 a) as [s1|] eqn:E; simpl in *; try discriminate. apply (IHls0 s1); auto. eapply step_tm; eauto. }
  apply (G ls (init g)); auto. unfold init. apply head_tm.
Qed.

(* An idle keep-alive connection is taken by the reaper (Keep -> Expiring, then closed) only when its deadline
   has passed, and the deadline is the moment finish_request made it idle plus the keep-alive time. *)
Theorem keepalive_not_before : forall g s l s' c x x', reachable g s -> step g s l = Some s' ->
  (forall evs, l <> LMain evs true) ->
  getc s c = Some x -> getc s' c = Some x' -> st x = CKeep -> st x' = CExpiring ->
  tmo x <= clock s /\ tmo x = since x + keepalive g.
Proof.
  intros g s l s' c x x' R E Hni Hx Hx' Hk Hc. pose proof (reachable_tm _ _ R) as T. apply reachable_inv in R.
  unfold getc in *.
  assert (Hts : tmo x = since x + keepalive g).
  { apply (i_tmo _ _ _ _ _ _ _ _ R c x Hx). rewrite Hk. auto. }
  split; auto.
  destruct l; simpl in E.
  - destruct inl_. exfalso; eapply Hni; eauto. clear Hni.
    unfold main_step in E. unfold Tm in T. destruct (mpc s) eqn:Hpc.
    + destruct (evs_ok g s evs); try discriminate. inv_some. simpl in Hx'. congruence.
    + destruct (backlog s) as [|c0 bl]; inv_some; simpl in Hx'. congruence.
      upd_cases Hx' c. same_conn Hx Hx'. discriminate. congruence.
    + destruct (mem c0 (regd s)); inv_some; simpl in Hx'; congruence.
    + unfold rd_step in E. destruct (negb (mem c0 (regd s))). inv_some; simpl in Hx'; congruence.
      unfold getc in E. destruct (nth_error (conns s) c0) as [x0|]. 2:{ inv_some; simpl in Hx'; congruence. }
      destruct (inited x0 && negb (mem c0 (keep s))). inv_some; simpl in Hx'; congruence.
      inv_some. destruct (inited x0); simpl in Hx'; upd_cases Hx' c; try congruence; same_conn Hx Hx'; discriminate.
    + destruct (p_finlock s c0) as [s1|] eqn:E1; simpl in E; try discriminate. inv_some. simpl in Hx'.
      unfold p_finlock, getc in E1. destruct (nth_error (conns s) c0) as [x0|] eqn:Hx0; try discriminate.
      destruct (st x0) eqn:Hst0; try discriminate.
      destruct (pclosed s || mem c0 (regd s)); inv_some; simpl in Hx'; upd_cases Hx' c; try congruence;
        same_conn Hx Hx'; discriminate.
    + destruct (orphan s); inv_some; simpl in Hx'; congruence.
    + destruct (keep s) as [|c0 k].
      * inv_some. rewrite head_conns in Hx'. congruence.
      * unfold getc in E. destruct (nth_error (conns s) c0) as [x0|] eqn:Hx0. 2:{ inv_some; simpl in Hx'; congruence. }
        destruct (now <? tmo x0) eqn:Hlt; inv_some; simpl in Hx'. congruence.
        upd_cases Hx' c; try congruence. rewrite Hx in Hx0. inversion Hx0; subst x0.
        apply Z.ltb_ge in Hlt. lia.
    + inv_some. rewrite head_conns in Hx'. simpl in Hx'. congruence.
    + inv_some. simpl in Hx'. upd_cases Hx' c; try congruence; same_conn Hx Hx'; discriminate.
    + inv_some. simpl in Hx'. congruence.
    + discriminate.
    + discriminate.
  - destruct (pool_busy s <? threads g); try discriminate. unfold p_start, getc in E.
    destruct (nth_error (conns s) c0) as [x0|] eqn:Hx0; try discriminate. destruct (st x0); try discriminate.
    inv_some. simpl in Hx'. upd_cases Hx' c; try congruence; same_conn Hx Hx'; discriminate.
  - unfold p_handle, getc in E.
    destruct (nth_error (conns s) c0) as [x0|] eqn:Hx0; try discriminate. destruct (st x0); try discriminate.
    destruct (match pbuf x0 with [] => sockbuf x0 | _ :: _ => pbuf x0 end) as [|k rest].
    + destruct (eof x0); try discriminate. inv_some. simpl in Hx'. upd_cases Hx' c; try congruence; same_conn Hx Hx'; discriminate.
    + destruct k; inv_some; simpl in Hx'; upd_cases Hx' c; try congruence; same_conn Hx Hx'; discriminate.
  - unfold p_finish, getc in E.
    destruct (nth_error (conns s) c0) as [x0|] eqn:Hx0; try discriminate. destruct (st x0) eqn:Hst0; try discriminate.
    destruct (ka && alive s); inv_some; simpl in Hx'; upd_cases Hx' c; try congruence; same_conn Hx Hx'; discriminate.
  - destruct (fin_by_main s c0); try discriminate. unfold p_finlock, getc in E.
    destruct (nth_error (conns s) c0) as [x0|] eqn:Hx0; try discriminate. destruct (st x0) eqn:Hst0; try discriminate.
    destruct (pclosed s || mem c0 (regd s)); inv_some; simpl in Hx'; upd_cases Hx' c; try congruence; same_conn Hx Hx'; discriminate.
  - unfold p_cancel, getc in E.
    destruct (nth_error (conns s) c0) as [x0|] eqn:Hx0; try discriminate. destruct (st x0) eqn:Hst0; try discriminate.
    inv_some. simpl in Hx'. upd_cases Hx' c; try congruence; same_conn Hx Hx'; discriminate.
  - inv_some. simpl in Hx'. rewrite nth_error_app1 in Hx' by (apply nth_error_Some; congruence). congruence.
  - unfold getc in E. destruct (nth_error (conns s) c0) as [x0|] eqn:Hx0; try discriminate. destruct (eof x0); try discriminate.
    destruct (st x0); inv_some; try congruence; simpl in Hx'; upd_cases Hx' c; try congruence; same_conn Hx Hx'; simpl in *; congruence.
  - unfold getc in E. destruct (nth_error (conns s) c0) as [x0|] eqn:Hx0; try discriminate. destruct (eof x0); try discriminate.
    inv_some. simpl in Hx'. upd_cases Hx' c; try congruence; same_conn Hx Hx'; simpl in *; congruence.
  - inv_some. simpl in Hx'. congruence.
  - inv_some. simpl in Hx'. congruence.
  - inv_some. simpl in Hx'. congruence.
Qed.

(* ------------------------------------------------------------------------------------------------ *)
(* D20: the capacity stall                                                                          *)
(* ------------------------------------------------------------------------------------------------ *)
(* The loop is in its wait branch, all slots are taken by connections that are not being handled and not
   waiting to expire: New (registered, idle) ones.  Nothing but TERM / loss of the parent changes that. *)
Lemma getc_updc : forall c c' f s,
  getc (updc c f s) c' = if Nat.eqb c c' then option_map f (getc s c) else getc s c'.
Proof.
  intros. unfold getc, updc. simpl. destruct (Nat.eqb_spec c c'). subst. apply nth_upd_eq. apply nth_upd_ne. auto.
Qed.

Definition quiet_st (v:cst) : bool := match v with CPending | CNew | CClosed => true | _ => false end.

Definition stalled (g:cfg) (s:state) : Prop :=
  alive s = true /\ orphan s = false /\ wconn g <= nr_conns s /\ keep s = [] /\
  (forall c x, getc s c = Some x -> quiet_st (st x) = true) /\
  (mpc s = MWait \/ exists now, mpc s = MPop now).

Definition same_service (s s':state) : Prop :=
  forall c x, getc s c = Some x -> exists x', getc s' c = Some x' /\ resp x' = resp x /\ st x' = st x.

Lemma same_service_refl : forall s, same_service s s.
Proof. intros s c x H. eauto. Qed.

Lemma same_service_conns : forall s s', conns s' = conns s -> same_service s s'.
Proof. intros s s' E c x H. exists x. unfold getc in *. rewrite E. auto. Qed.

Lemma same_service_trans : forall a b c, same_service a b -> same_service b c -> same_service a c.
Proof.
  intros a b c H1 H2 k x H. destruct (H1 k x H) as [y [Hy [A1 A2]]]. destruct (H2 k y Hy) as [z [Hz [B1 B2]]].
  exists z. split; auto. split; congruence.
Qed.

Definition benign (l:label) : Prop := l <> LTerm /\ l <> LOrphan.

Lemma not_quiet_none : forall s c x, (forall c x, getc s c = Some x -> quiet_st (st x) = true) ->
  getc s c = Some x -> is_handling (st x) = true -> False.
Proof. intros. apply H in H0. destruct (st x); simpl in *; discriminate. Qed.

Lemma stalled_step : forall g s l s', stalled g s -> benign l -> step g s l = Some s' ->
  stalled g s' /\ same_service s s' /\ nr_conns s' = nr_conns s.
Proof.
  intros g s l s' [Hal [Hor [Hnr [Hk [Hq Hpc]]]]] [Hb1 Hb2] E.
  destruct l; simpl in E; try congruence.
  - (* main *) unfold main_step in E. destruct Hpc as [Hpc|[now Hpc]]; rewrite Hpc in E.
    + rewrite Hor in E. inv_some. split; [|split; [apply same_service_conns; reflexivity|reflexivity]].
      unfold stalled. simpl. repeat split; auto. right. eauto.
    + rewrite Hk in E. inv_some. unfold head. rewrite Hal. simpl.
      assert (Hlt : (nr_conns s <? wconn g) = false) by (apply Z.ltb_ge; lia). rewrite Hlt.
      split; [|split; [apply same_service_conns; reflexivity|reflexivity]].
      unfold stalled. simpl. repeat split; auto.
  - destruct (pool_busy s <? threads g); try discriminate. unfold p_start in E.
    destruct (getc s c) as [x|] eqn:Hx; try discriminate. destruct (st x) eqn:Hst; try discriminate.
    exfalso. eapply not_quiet_none; eauto. rewrite Hst. auto.
  - unfold p_handle in E. destruct (getc s c) as [x|] eqn:Hx; try discriminate. destruct (st x) eqn:Hst; try discriminate.
    exfalso. eapply not_quiet_none; eauto. rewrite Hst. auto.
  - unfold p_finish in E. destruct (getc s c) as [x|] eqn:Hx; try discriminate. destruct (st x) eqn:Hst; try discriminate.
    exfalso. eapply not_quiet_none; eauto. rewrite Hst. auto.
  - destruct (fin_by_main s c); try discriminate. unfold p_finlock in E. destruct (getc s c) as [x|] eqn:Hx; try discriminate. destruct (st x) eqn:Hst; try discriminate.
    exfalso. eapply not_quiet_none; eauto. rewrite Hst. auto.
  - unfold p_cancel in E. destruct (getc s c) as [x|] eqn:Hx; try discriminate. destruct (st x) eqn:Hst; try discriminate.
    exfalso. eapply not_quiet_none; eauto. rewrite Hst. auto.
  - inv_some. split; [|split; [|reflexivity]].
    + unfold stalled. simpl. repeat split; auto. intros c x H. unfold getc in *. simpl in H.
      destruct (lt_dec c (length (conns s))).
      * rewrite nth_error_app1 in H by auto. eauto.
      * rewrite nth_error_app2 in H by lia. destruct (c - length (conns s))%nat; simpl in H.
        inversion H. auto. destruct n0; discriminate.
    + intros c x H. exists x. split; auto. unfold getc in *. simpl. rewrite nth_error_app1; auto.
      apply nth_error_Some. congruence.
  - destruct (getc s c) as [x|] eqn:Hx; try discriminate. destruct (eof x); try discriminate.
    assert (G : forall f, (forall y, st (f y) = st y /\ resp (f y) = resp y) ->
                stalled g (updc c f s) /\ same_service s (updc c f s) /\ nr_conns (updc c f s) = nr_conns s).
    { intros f Hf. split; [|split; [|reflexivity]].
      - unfold stalled. simpl. repeat split; auto. intros c' x' H. rewrite getc_updc in H.
        destruct (Nat.eqb_spec c c'). subst. rewrite Hx in H. simpl in H. inversion H. destruct (Hf x) as [A _]. rewrite A. eauto.
        eauto.
      - intros c' x' H. rewrite getc_updc. destruct (Nat.eqb_spec c c'). subst. rewrite Hx. simpl.
        rewrite Hx in H. inversion H; subst. destruct (Hf x') as [A B]. eauto. eauto. }
    destruct (st x); inv_some; try (apply G; intro; simpl; auto; fail);
      (split; [unfold stalled; repeat split; auto | split; [apply same_service_conns; reflexivity | reflexivity]]).
  - destruct (getc s c) as [x|] eqn:Hx; try discriminate. destruct (eof x); try discriminate. inv_some.
    split; [|split; [|reflexivity]].
    + unfold stalled. simpl. repeat split; auto. intros c' x' H. rewrite getc_updc in H.
      destruct (Nat.eqb_spec c c'). subst. rewrite Hx in H. simpl in H. inversion H. simpl. eauto. eauto.
    + intros c' x' H. rewrite getc_updc. destruct (Nat.eqb_spec c c'). subst. rewrite Hx. simpl.
      rewrite Hx in H. inversion H; subst. eauto. eauto.
  - inv_some. split; [|split; [apply same_service_conns; reflexivity|reflexivity]]. unfold stalled. simpl. repeat split; auto.
Qed.

(* no sequence of client actions, clock ticks, loop iterations ever gets a request on these connections served,
   notices a client that left, or frees a slot *)
Theorem capacity_stall_forever : forall g ls s s', stalled g s -> Forall benign ls -> run g s ls = Some s' ->
  stalled g s' /\ same_service s s' /\ nr_conns s' = nr_conns s.
Proof.
  induction ls; simpl; intros s s' H F E.
  - inv_some. split; auto. split. apply same_service_refl. auto.
  - inversion F; subst. destruct (step g s a) as [s1|] eqn:E1; simpl in E; try discriminate.
    destruct (stalled_step _ _ _ _ H H2 E1) as [A [B C]].
    destruct (IHls _ _ A H3 E) as [A' [B' C']]. split; auto. split. eapply same_service_trans; eauto. lia.
Qed.

(* ---- witnesses ---- *)
Definition g20 : cfg := mkCfg 1 1 2 0 1.
Definition ls20 : list label :=
  [LConnect; LMain [EvAcc 0%nat] false; LMain [] false; LMain [] false; LMain [] false; LMain [] false].
Definition the (o:option state) (d:state) : state := match o with Some s => s | None => d end.
Definition s20 : state := the (run g20 (init g20) ls20) (init g20).
Definition s20a : state := the (step g20 s20 (LSend 0%nat [KA])) s20.       (* a request arrives *)
Definition s20b : state := the (step g20 s20 (LCClose 0%nat)) s20.          (* or the client leaves *)

Lemma s20_run : run g20 (init g20) ls20 = Some s20.
Proof. vm_compute. reflexivity. Qed.

Lemma s20_stalled : stalled g20 s20.
Proof.
  unfold stalled. repeat split; try (vm_compute; reflexivity); try (vm_compute; discriminate).
  - intros c x H. destruct c as [|[|c]]; vm_compute in H; try discriminate. inversion H. reflexivity.
  - left. vm_compute. reflexivity.
Qed.

Lemma s20a_stalled : stalled g20 s20a.
Proof.
  unfold stalled. repeat split; try (vm_compute; reflexivity); try (vm_compute; discriminate).
  - intros c x H. destruct c as [|[|c]]; vm_compute in H; try discriminate. inversion H. reflexivity.
  - left. vm_compute. reflexivity.
Qed.

Lemma s20b_stalled : stalled g20 s20b.
Proof.
  unfold stalled. repeat split; try (vm_compute; reflexivity); try (vm_compute; discriminate).
  - intros c x H. destruct c as [|[|c]]; vm_compute in H; try discriminate. inversion H. reflexivity.
  - left. vm_compute. reflexivity.
Qed.

Lemma s20a_reach : reachable g20 s20a.
Proof. exists (ls20 ++ [LSend 0%nat [KA]]). vm_compute. reflexivity. Qed.

Lemma s20b_reach : reachable g20 s20b.
Proof. exists (ls20 ++ [LCClose 0%nat]). vm_compute. reflexivity. Qed.

Theorem served_if_thread_free_refuted : exists g s c x,
  reachable g s /\ getc s c = Some x /\ st x = CNew /\ In c (regd s) /\ sockbuf x = [KA] /\ n_running s < threads g
  /\ forall ls s', Forall benign ls -> run g s ls = Some s' ->
       exists x', getc s' c = Some x' /\ resp x' = 0%nat /\ st x' = CNew.
Proof.
  exists g20, s20a, 0%nat. eexists. split. apply s20a_reach.
  split. vm_compute. reflexivity. split. reflexivity. split. vm_compute. auto. split. reflexivity.
  split. vm_compute. reflexivity.
  intros ls s' F E. destruct (capacity_stall_forever _ _ _ _ s20a_stalled F E) as [_ [S _]].
  destruct (S 0%nat _ eq_refl) as [x' [Hx' [A B]]]. exists x'. split; auto.
Qed.

Theorem returns_to_zero_refuted : exists g s,
  reachable g s /\ (forall c x, getc s c = Some x -> eof x = true) /\ n_running s = 0
  /\ forall ls s', Forall benign ls -> run g s ls = Some s' -> nr_conns s' = 1.
Proof.
  exists g20, s20b. split. apply s20b_reach. split.
  - intros c x H. destruct c as [|[|c]]; vm_compute in H; try discriminate. inversion H. reflexivity.
  - split. vm_compute. reflexivity.
    intros ls s' F E. destruct (capacity_stall_forever _ _ _ _ s20b_stalled F E) as [_ [_ N]]. rewrite N. reflexivity.
Qed.

Definition g21 : cfg := mkCfg 1 2 1 0 1.
Definition m0 : label := LMain [] false.
Definition ls21 : list label :=
  [LConnect; LMain [EvAcc 0%nat] false; m0; m0; m0; m0; LSend 0%nat [KA; KA];
   LMain [EvRd 0%nat] false; m0; m0; m0; LStart 0%nat; LHandle 0%nat; LFinish 0%nat; LFinLock 0%nat;
   LMain [] false; m0; m0; LTick; LTick; LMain [] false; m0; m0; m0; m0].

Theorem pipelined_request_dropped : exists g ls s x,
  runr g (init g) ls = Some s /\ getc s 0%nat = Some x
  /\ st x = CClosed /\ resp x = 1%nat /\ pbuf x = [KA] /\ eof x = false.
Proof.
  exists g21, ls21. eexists. eexists. split. vm_compute. reflexivity.
  split. vm_compute. reflexivity. repeat split.
Qed.

(* after the first response the connection is idle in _keep, its second request sits in the parser and the
   selector does not report it *)
Example pipelined_invisible :
  let s := the (runr g21 (init g21) (firstn 15 ls21)) (init g21) in
  exists x, getc s 0%nat = Some x /\ st x = CKeep /\ pbuf x = [KA] /\ resp x = 1%nat
            /\ ev_ready s (EvRd 0%nat) = false /\ n_running s = 0.
Proof. vm_compute. eexists. repeat split. Qed.

(* ------------------------------------------------------------------------------------------------ *)
(* liveness-flavoured statements: what ONE loop period of the main thread achieves                  *)
(* ------------------------------------------------------------------------------------------------ *)
Definition m_ : label := LMain [] false.

Theorem all_closed_zero : forall g s, reachable g s ->
  (forall c x, getc s c = Some x -> st x = CClosed \/ st x = CPending) -> nr_conns s = 0.
Proof.
  intros g s R H. destruct (accounting g s R) as [A _]. rewrite A. unfold n_counted, getc in *.
  revert H. generalize (conns s). induction l; simpl; intros; auto.
  rewrite IHl. destruct (H 0%nat a eq_refl) as [E|E]; rewrite E; reflexivity.
  intros c x Hc. apply (H (S c) x). auto.
Qed.

Lemma run_m : forall g s ls, run g s (m_ :: ls) = obind (main_step g s [] false) (fun s' => run g s' ls).
Proof. reflexivity. Qed.

Lemma pop_expired_step : forall g s now h k x, mpc s = MPop now -> keep s = h :: k -> getc s h = Some x ->
  tmo x <= now ->
  main_step g s [] false = Some (set_mpc (MUnreg now h) (set_nr (nr_conns s - 1) (updc h (set_st CExpiring) (set_keep k s)))).
Proof.
  intros. unfold main_step. rewrite H, H0, H1. assert (E : (now <? tmo x) = false) by (apply Z.ltb_ge; lia).
  rewrite E. reflexivity.
Qed.

Lemma unreg_step : forall g s now h, mpc s = MUnreg now h ->
  main_step g s [] false = Some (set_mpc (MPop now) (updc h close_conn (set_regd (remove1 h (regd s)) s))).
Proof. intros. unfold main_step. rewrite H. reflexivity. Qed.

Lemma run_two : forall g s s1 s2 ls, main_step g s [] false = Some s1 -> main_step g s1 [] false = Some s2 ->
  run g s (m_ :: m_ :: ls) = run g s2 ls.
Proof.
  intros. change (run g s (m_ :: m_ :: ls)) with
    (obind (main_step g s [] false) (fun s' => obind (main_step g s' [] false) (fun s'' => run g s'' ls))).
  rewrite H. simpl. rewrite H0. reflexivity.
Qed.

(* the reaper, started with clock value [now], closes every connection of an expired prefix of _keep *)
Lemma reap_prefix : forall g now c pre rest s, mpc s = MPop now -> keep s = pre ++ c :: rest ->
  (forall k, In k (pre ++ [c]) -> exists x, getc s k = Some x /\ tmo x <= now) ->
  exists s', run g s (repeat m_ (2 * (length pre + 1))) = Some s' /\ mpc s' = MPop now /\ keep s' = rest
             /\ exists x, getc s' c = Some x /\ st x = CClosed.
Proof.
  induction pre as [|h pre IH]; intros rest s Hpc Hk Hall.
  - simpl in Hk. destruct (Hall c) as [x [Hx Ht]]. simpl; auto.
    change (repeat m_ (2 * (length (@nil nat) + 1))) with [m_; m_].
    pose proof (pop_expired_step g s now c rest x Hpc Hk Hx Ht) as S1.
    pose proof (unreg_step g _ now c (eq_refl : mpc (set_mpc (MUnreg now c) (set_nr (nr_conns s - 1) (updc c (set_st CExpiring) (set_keep rest s)))) = MUnreg now c)) as S2.
    eexists. split. rewrite (run_two _ _ _ _ _ S1 S2). reflexivity.
    split. reflexivity. split. reflexivity.
    unfold getc in *. simpl. rewrite nth_upd_eq, nth_upd_eq, Hx. simpl. eauto.
  - simpl in Hk. destruct (Hall h) as [x [Hx Ht]]. simpl; auto.
    replace (2 * (length (h :: pre) + 1))%nat with (S (S (2 * (length pre + 1)))) by (simpl; lia).
    change (repeat m_ (S (S (2 * (length pre + 1))))) with (m_ :: m_ :: repeat m_ (2 * (length pre + 1))).
    pose proof (pop_expired_step g s now h (pre ++ c :: rest) x Hpc Hk Hx Ht) as S1.
    pose proof (unreg_step g _ now h (eq_refl : mpc (set_mpc (MUnreg now h) (set_nr (nr_conns s - 1) (updc h (set_st CExpiring) (set_keep (pre ++ c :: rest) s)))) = MUnreg now h)) as S2.
    rewrite (run_two _ _ _ _ _ S1 S2).
    apply IH.
    + reflexivity.
    + reflexivity.
    + intros k Hin. destruct (Hall k) as [y [Hy Hty]]. simpl. right; auto.
      unfold getc in *. simpl. destruct (Nat.eqb_spec h k).
      * subst. rewrite nth_upd_eq, nth_upd_eq, Hy. simpl. eauto.
      * rewrite nth_upd_ne, nth_upd_ne by auto. eauto.
Qed.

(* keep-alive expiry happens within one loop period: from the loop's wait point, the main thread alone closes
   every connection of the expired prefix of _keep (1 + 2 per connection of its atomic blocks) *)
Theorem keepalive_expires : forall g s c pre rest, mpc s = MWait -> orphan s = false ->
  keep s = pre ++ c :: rest ->
  (forall k, In k (pre ++ [c]) -> exists x, getc s k = Some x /\ tmo x <= clock s) ->
  exists s', run g s (repeat m_ (1 + 2 * (length pre + 1))) = Some s'
             /\ exists x, getc s' c = Some x /\ st x = CClosed.
Proof.
  intros g s c pre rest Hpc Hor Hk Hall.
  change (repeat m_ (1 + 2 * (length pre + 1))) with (m_ :: repeat m_ (2 * (length pre + 1))).
  assert (S1 : main_step g s [] false = Some (set_mpc (MPop (clock s)) (set_futs (filter (fun f => negb (snd f)) (futs s)) s))).
  { unfold main_step. rewrite Hpc, Hor. reflexivity. }
  rewrite run_m, S1. unfold obind at 1.
  destruct (reap_prefix g (clock s) c pre rest
             (set_mpc (MPop (clock s)) (set_futs (filter (fun f => negb (snd f)) (futs s)) s)))
    as [s' [R [_ [_ X]]]]; auto.
  exists s'. split; auto.
Qed.

(* ---- a request that the selector reports is dispatched within the same loop period ---- *)
Definition dispatchable (s:state) (c:nat) : Prop :=
  exists x, getc s c = Some x /\ In c (regd s) /\ (inited x = false \/ In c (keep s)).

Definition queued (s:state) (c:nat) : Prop :=
  (exists x, getc s c = Some x /\ st x = CQueued) /\ In (c, false) (futs s).

Lemma ev_mem_rd : forall c r, In (EvRd c) r -> ev_mem (EvRd c) r = true.
Proof.
  induction r as [|[l|c'] r]; simpl; intros; try contradiction.
  - destruct H. discriminate. auto.
  - destruct H. inversion H. rewrite Nat.eqb_refl. auto. rewrite IHr; auto. apply orb_true_r.
Qed.

Lemma process_events : forall g c evs s, Inv g s -> mpc s = dispatch evs -> ev_nodup evs = true ->
  In (EvRd c) evs -> (forall c', In (EvRd c') evs -> In c' (regd s)) -> dispatchable s c ->
  exists n s', run g s (repeat m_ n) = Some s' /\ queued s' c.
Proof.
  induction evs as [|e r IH]; intros s HI Hpc Hnd Hin Hreg [x [Hx [Hr Hk]]]. contradiction.
  simpl in Hnd. apply andb_true_iff in Hnd. destruct Hnd as [Hnm Hnd]. apply negb_true_iff in Hnm.
  destruct e as [l|c'].
  - (* an accept event first *)
    simpl in Hpc. destruct Hin as [Hin|Hin]; try discriminate.
    assert (Hreg' : forall c', In (EvRd c') r -> In c' (regd s)) by (intros; apply Hreg; right; auto).
    destruct (backlog s) as [|h b] eqn:Hb.
    + assert (S1 : main_step g s [] false = Some (set_mpc (dispatch r) s)).
      { unfold main_step. rewrite Hpc, Hb. reflexivity. }
      destruct (IH (set_mpc (dispatch r) s)) as [n [s' [R Q]]]; auto.
      * apply (step_inv g s m_). auto. exact S1.
      * exists x. auto.
      * exists (S n), s'. split; auto. change (repeat m_ (S n)) with (m_ :: repeat m_ n). rewrite run_m, S1. exact R.
    + assert (Hh : stl (conns s) h = Some CPending).
      { unfold Inv in HI. apply (i_backlog _ _ _ _ _ _ _ _ HI). rewrite Hb. left; auto. }
      assert (Hhc : h <> c).
      { intro; subst h. unfold Inv in HI. apply (i_regd _ _ _ _ _ _ _ _ HI) in Hr. rewrite Hh in Hr.
        destruct Hr as [?|[?|?]]; discriminate. }
      assert (Hhr : mem h (regd s) = false).
      { apply mem_false. intro Hm. unfold Inv in HI. apply (i_regd _ _ _ _ _ _ _ _ HI) in Hm. rewrite Hh in Hm.
        destruct Hm as [?|[?|?]]; discriminate. }
      set (s1 := set_mpc (MAccReg h r) (set_nr (nr_conns s + 1) (set_backlog b (updc h (set_st CNew) s)))).
      assert (S1 : main_step g s [] false = Some s1).
      { unfold main_step. rewrite Hpc, Hb. reflexivity. }
      set (s2 := set_mpc (dispatch r) (set_regd (regd s1 ++ [h]) s1)).
      assert (S2 : main_step g s1 [] false = Some s2).
      { unfold main_step. simpl mpc. cbv iota. simpl regd. rewrite Hhr. reflexivity. }
      assert (I1 : Inv g s1) by (apply (step_inv g s m_); auto).
      assert (I2 : Inv g s2) by (apply (step_inv g s1 m_); auto).
      destruct (IH s2) as [n [s' [R Q]]]; auto.
      * simpl. intros c' H'. apply in_or_app. left. auto.
      * exists x. split. unfold getc in *. simpl. rewrite nth_upd_ne; auto.
        split. simpl. apply in_or_app. left; auto. simpl. auto.
      * exists (S (S n)), s'. split; auto.
        change (repeat m_ (S (S n))) with (m_ :: m_ :: repeat m_ n). rewrite (run_two _ _ _ _ _ S1 S2). exact R.
  - simpl in Hpc. destruct (Nat.eqb_spec c' c).
    + (* our connection *) subst c'. exists 1%nat.
      assert (Hm : mem c (regd s) = true) by (apply mem_In; auto).
      assert (Hrace : inited x && negb (mem c (keep s)) = false).
      { destruct Hk as [E|E]. rewrite E. auto. apply mem_In in E. rewrite E. simpl. apply andb_false_r. }
      eexists. split.
      * simpl. unfold main_step. rewrite Hpc. unfold rd_step. rewrite Hm. simpl negb. cbv iota.
        rewrite Hx, Hrace. reflexivity.
      * split.
        -- unfold getc. destruct (inited x); simpl; rewrite nth_upd_eq; unfold getc in Hx; rewrite Hx; simpl; eauto.
        -- destruct (inited x); simpl; apply in_or_app; right; left; auto.
    + (* another connection is dispatched first *)
      destruct Hin as [Hin|Hin]. inversion Hin; congruence.
      assert (Hr' : In c' (regd s)) by (apply Hreg; left; auto).
      assert (Hm : mem c' (regd s) = true) by (apply mem_In; auto).
      destruct (main_step g s [] false) as [s1|] eqn:S1.
      2:{ exfalso. unfold main_step in S1. rewrite Hpc in S1. unfold rd_step in S1. rewrite Hm in S1. simpl in S1.
          destruct (getc s c'); try discriminate. destruct (inited c0 && negb (mem c' (keep s))); discriminate. }
      assert (I1 : Inv g s1) by (apply (step_inv g s m_); auto).
      assert (P1 : mpc s1 = dispatch r /\ getc s1 c = Some x /\ In c (regd s1) /\ (In c (keep s) -> In c (keep s1))
                   /\ (forall k, k <> c' -> In k (regd s) -> In k (regd s1))).
      { unfold main_step in S1. rewrite Hpc in S1. unfold rd_step in S1. rewrite Hm in S1. simpl negb in S1. cbv iota in S1.
        assert (Hx' : getc s c' <> None).
        { unfold Inv in HI. apply (i_regd _ _ _ _ _ _ _ _ HI) in Hr'. unfold stl, getc in *.
          destruct (nth_error (conns s) c'); try congruence. destruct Hr' as [?|[?|?]]; discriminate. }
        destruct (getc s c') as [x1|] eqn:Hx1; try congruence.
        destruct (inited x1 && negb (mem c' (keep s))).
        - inv_some. simpl. repeat split; auto. apply remove1_other; auto. intros; apply remove1_other; auto.
        - inv_some. unfold getc in *. destruct (inited x1); simpl; rewrite nth_upd_ne by auto; repeat split; auto;
            try (apply remove1_other; auto); try (intros; apply remove1_other; auto). }
      destruct P1 as [M1 [G1 [R1 [K1 RR]]]].
      destruct (IH s1) as [k [s' [R Q]]]; auto.
      * intros k Hk'. apply RR. intro; subst k. apply ev_mem_rd in Hk'. congruence. apply Hreg. right; auto.
      * exists x. split; auto. split; auto. destruct Hk; auto.
      * exists (S k), s'. split; auto. change (repeat m_ (S k)) with (m_ :: repeat m_ k). rewrite run_m, S1. exact R.
Qed.

(* While the loop is polling (which is what D20 takes away) a request that is visible to the selector (which is
   what D21 takes away) is dispatched in the same loop period by the main thread alone, and a free pool thread can
   then start it. *)
Theorem served_if_thread_free : forall g s evs c, reachable g s -> mpc s = MSel -> evs_ok g s evs = true ->
  In (EvRd c) evs -> dispatchable s c ->
  exists n s', run g s (LMain evs false :: repeat m_ n) = Some s' /\ queued s' c
               /\ (pool_busy s' < threads g -> exists s'', step g s' (LStart c) = Some s'').
Proof.
  intros g s evs c R Hpc Hok Hin Hd. pose proof (reachable_inv _ _ R) as HI.
  assert (S0 : step g s (LMain evs false) = Some (set_mpc (dispatch evs) s)).
  { simpl. unfold main_step. rewrite Hpc, Hok. reflexivity. }
  pose proof Hok as Hok'. unfold evs_ok in Hok'. apply andb_true_iff in Hok'. destruct Hok' as [Hall Hnd].
  destruct (process_events g c evs (set_mpc (dispatch evs) s)) as [n [s' [Rn Q]]]; auto.
  - apply (step_inv g s (LMain evs false)); auto.
  - intros c' H'. rewrite forallb_forall in Hall. apply Hall in H'. simpl in H'. apply mem_In. auto.
  - exists n, s'. split. simpl run. simpl in S0. rewrite S0. exact Rn. split; auto.
    intros Hb. destruct Q as [[x' [Hx' Hq]] _]. simpl. apply Z.ltb_lt in Hb. rewrite Hb.
    unfold p_start. rewrite Hx', Hq. eauto.
Qed.

(* ------------------------------------------------------------------------------------------------ *)
(* D21: a request buffered in the parser of an idle keep-alive connection is never served           *)
(* ------------------------------------------------------------------------------------------------ *)
Definition pc_noev (c:nat) (p:pc) : Prop :=
  match p with
  | MAcc r | MAccReg _ r => ~ In (EvRd c) r
  | MRd c' r | MFin c' r => c' <> c /\ ~ In (EvRd c) r
  | _ => True
  end.

Lemma pc_noev_dispatch : forall c r, ~ In (EvRd c) r -> pc_noev c (dispatch r).
Proof.
  intros c r H. destruct r as [|[l|c'] r]; simpl in *; auto.
  split. intro; subst; apply H; auto. auto.
Qed.

(* the connection waits with its buffered request: nothing to read on the socket, client still there *)
Definition waiting (n0:nat) (s:state) (c:nat) : Prop :=
  exists x, getc s c = Some x /\ resp x = n0 /\ sockbuf x = [] /\ eof x = false
            /\ (st x = CKeep \/ st x = CExpiring \/ st x = CClosed).

Definition J (g:cfg) (n0:nat) (c:nat) (s:state) : Prop := Inv g s /\ pc_noev c (mpc s) /\ waiting n0 s c.

Definition client_silent (c:nat) (l:label) : Prop :=
  match l with LSend c' _ | LCClose c' => c' <> c | _ => True end.

Lemma waiting_frame : forall n0 s s' c, waiting n0 s c -> getc s' c = getc s c -> waiting n0 s' c.
Proof. intros n0 s s' c [x H] E. exists x. rewrite E. auto. Qed.

Lemma getc_updc_other : forall c c0 f s, c0 <> c -> getc (updc c0 f s) c = getc s c.
Proof. intros. rewrite getc_updc. destruct (Nat.eqb_spec c0 c); congruence. Qed.

Lemma waiting_not_handling : forall n0 s c x, waiting n0 s c -> getc s c = Some x -> is_handling (st x) = false.
Proof. intros n0 s c x [y [Hy [_ [_ [_ H]]]]] Hx. rewrite Hx in Hy. inversion Hy; subst. destruct H as [E|[E|E]]; rewrite E; auto. Qed.

Ltac not_me W Hx0 Hst0 :=
  let E := fresh in intro E; subst;
  pose proof (waiting_not_handling _ _ _ _ W Hx0) as E; rewrite Hst0 in E; discriminate.

Lemma p_start_other : forall n0 s c0 s' c, waiting n0 s c -> p_start s c0 = Some s' -> getc s' c = getc s c.
Proof.
  unfold p_start. intros n0 s c0 s' c W E. destruct (getc s c0) as [x0|] eqn:Hx0; try discriminate.
  destruct (st x0) eqn:Hst0; try discriminate. inv_some. apply getc_updc_other. not_me W Hx0 Hst0.
Qed.

Lemma p_handle_other : forall g n0 s c0 s' c, waiting n0 s c -> p_handle g s c0 = Some s' -> getc s' c = getc s c.
Proof.
  unfold p_handle. intros g n0 s c0 s' c W E. destruct (getc s c0) as [x0|] eqn:Hx0; try discriminate.
  destruct (st x0) eqn:Hst0; try discriminate.
  assert (N : c0 <> c) by (not_me W Hx0 Hst0).
  destruct (match pbuf x0 with [] => sockbuf x0 | _ :: _ => pbuf x0 end) as [|k rest].
  - destruct (eof x0); try discriminate. inv_some. unfold getc; simpl; apply nth_upd_ne; auto.
  - destruct k; inv_some; simpl; (unfold getc; simpl; apply nth_upd_ne; auto).
Qed.

Lemma p_finish_other : forall g n0 s c0 s' c, waiting n0 s c -> p_finish g s c0 = Some s' -> getc s' c = getc s c.
Proof.
  unfold p_finish. intros g n0 s c0 s' c W E. destruct (getc s c0) as [x0|] eqn:Hx0; try discriminate.
  destruct (st x0) eqn:Hst0; try discriminate.
  assert (N : c0 <> c) by (not_me W Hx0 Hst0).
  destruct (ka && alive s); inv_some; simpl; (unfold getc; simpl; apply nth_upd_ne; auto).
Qed.

Lemma p_finlock_other : forall n0 s c0 s' c, waiting n0 s c -> p_finlock s c0 = Some s' -> getc s' c = getc s c.
Proof.
  unfold p_finlock. intros n0 s c0 s' c W E. destruct (getc s c0) as [x0|] eqn:Hx0; try discriminate.
  destruct (st x0) eqn:Hst0; try discriminate.
  assert (N : c0 <> c) by (not_me W Hx0 Hst0).
  destruct (pclosed s || mem c0 (regd s)); inv_some; simpl; (unfold getc; simpl; apply nth_upd_ne; auto).
Qed.

Lemma p_cancel_other : forall n0 s c0 s' c, waiting n0 s c -> p_cancel s c0 = Some s' -> getc s' c = getc s c.
Proof.
  unfold p_cancel. intros n0 s c0 s' c W E. destruct (getc s c0) as [x0|] eqn:Hx0; try discriminate.
  destruct (st x0) eqn:Hst0; try discriminate.
  assert (N : c0 <> c) by (not_me W Hx0 Hst0). inv_some. simpl. (unfold getc; simpl; apply nth_upd_ne; auto).
Qed.

Lemma head_getc : forall g s c, getc (head g s) c = getc s c.
Proof. intros. unfold getc. rewrite head_conns. auto. Qed.

Lemma head_noev : forall g s c, pc_noev c (mpc (head g s)).
Proof. intros. unfold head. destruct (negb (alive s)); [|destruct (nr_conns s <? wconn g)]; simpl; auto. Qed.

Lemma main_step_J : forall g n0 c s evs b s', J g n0 c s ->
  (mpc s = MSel -> forallb (ev_ready s) evs = true) ->
  main_step g s evs b = Some s' -> pc_noev c (mpc s') /\ waiting n0 s' c.
Proof.
  intros g n0 c s evs b s' [HI [Hnv W]] Hrdy E. unfold main_step in E. destruct (mpc s) eqn:Hpc.
  - destruct (evs_ok g s evs); try discriminate. inv_some. split.
    + simpl. apply pc_noev_dispatch. intro Hin. pose proof (Hrdy eq_refl) as Hr. rewrite forallb_forall in Hr.
      apply Hr in Hin. simpl in Hin. destruct W as [x [Hx [_ [Hs [He _]]]]]. rewrite Hx, Hs, He in Hin. discriminate.
    + eapply waiting_frame; eauto.
  - simpl in Hnv. destruct (backlog s) as [|h bl] eqn:Hb; inv_some.
    + split. simpl. apply pc_noev_dispatch; auto. eapply waiting_frame; eauto.
    + split. simpl. auto. eapply waiting_frame; eauto. simpl. apply (getc_updc_other c h).
      intro; subst h. unfold Inv in HI. assert (Hp : stl (conns s) c = Some CPending).
      { apply (i_backlog _ _ _ _ _ _ _ _ HI). rewrite Hb. left; auto. }
      destruct W as [x [Hx [_ [_ [_ Hst]]]]]. unfold getc in Hx. rewrite (stl_some _ _ _ Hx) in Hp.
      destruct Hst as [E|[E|E]]; rewrite E in Hp; discriminate.
  - simpl in Hnv. destruct (mem c0 (regd s)); inv_some; split; simpl; auto; try (apply pc_noev_dispatch; auto);
      eapply waiting_frame; eauto.
  - simpl in Hnv. destruct Hnv as [Hne Hnr]. unfold rd_step in E.
    destruct (negb (mem c0 (regd s))). inv_some. split; simpl; auto; try (eapply waiting_frame; eauto; fail).
    destruct (getc s c0) as [x0|] eqn:Hx0. 2:{ inv_some. split; simpl; auto; try (eapply waiting_frame; eauto; fail). }
    destruct (inited x0 && negb (mem c0 (keep s))).
    { inv_some. split. simpl. apply pc_noev_dispatch; auto. eapply waiting_frame; eauto. }
    match type of E with (if b then inline_run g ?t c0 r else _) = _ => set (s4 := t) in * end.
    assert (G4 : getc s4 c = getc s c).
    { unfold s4. destruct (inited x0); simpl; (unfold getc; simpl; apply nth_upd_ne; auto). }
    assert (W4 : waiting n0 s4 c) by (eapply waiting_frame; eauto).
    assert (M4 : mpc s4 = dispatch r) by reflexivity.
    destruct b; [|inv_some; split; [rewrite M4; apply pc_noev_dispatch; auto | auto]].
    unfold inline_run in E.
    destruct (p_start s4 c0) as [s1|] eqn:E1; simpl in E; try discriminate.
    destruct (p_handle g s1 c0) as [s2|] eqn:E2; simpl in E; try discriminate.
    destruct (p_finish g s2 c0) as [s3|] eqn:E3; simpl in E; try discriminate.
    assert (W1 : waiting n0 s1 c) by (eapply waiting_frame; eauto; eapply p_start_other; eauto).
    assert (W2 : waiting n0 s2 c) by (eapply waiting_frame; eauto; eapply p_handle_other; eauto).
    assert (W3 : waiting n0 s3 c) by (eapply waiting_frame; eauto; eapply p_finish_other; eauto).
    destruct (p_start_same _ _ _ E1) as [A1 _]. destruct (p_handle_same _ _ _ _ E2) as [B1 _].
    destruct (p_finish_same _ _ _ _ E3) as [C1 _].
    assert (M3 : mpc s3 = dispatch r) by congruence.
    destruct (getc s3 c0) as [x3|]; [destruct (st x3)|]; inv_some;
      try (split; [rewrite M3; apply pc_noev_dispatch; auto | auto]; fail).
    split. simpl. auto. eapply waiting_frame; eauto.
  - simpl in Hnv. destruct Hnv as [Hne Hnr].
    destruct (p_finlock s c0) as [s1|] eqn:E1; simpl in E; try discriminate. inv_some.
    split. simpl. apply pc_noev_dispatch; auto.
    apply (waiting_frame n0 s1 _ c). apply (waiting_frame n0 s s1 c W). eapply p_finlock_other; eauto. reflexivity.
  - destruct (orphan s); inv_some; split; simpl; auto; eapply waiting_frame; eauto.
  - destruct (keep s) as [|h k] eqn:Hk.
    + inv_some. split. apply head_noev. eapply waiting_frame; eauto. apply head_getc.
    + destruct (getc s h) as [x0|] eqn:Hx0. 2:{ inv_some. split; simpl; auto; try (eapply waiting_frame; eauto; fail). }
      destruct (now <? tmo x0); inv_some; split; simpl; auto.
      destruct (Nat.eqb_spec h c).
      * subst h. destruct W as [x [Hx [H1 [H2 [H3 H4]]]]]. exists (set_st CExpiring x).
        split. unfold getc in *. simpl. rewrite nth_upd_eq, Hx. reflexivity.
        simpl. repeat split; auto.
      * eapply waiting_frame; eauto. (unfold getc; simpl; apply nth_upd_ne; auto).
  - inv_some. split. apply head_noev. eapply waiting_frame; eauto. rewrite head_getc. reflexivity.
  - inv_some. split. simpl. auto. destruct (Nat.eqb_spec c0 c).
    + subst c0. destruct W as [x [Hx [H1 [H2 [H3 H4]]]]]. exists (close_conn x).
      split. unfold getc in *. simpl. rewrite nth_upd_eq, Hx. reflexivity. simpl. repeat split; auto.
    + eapply waiting_frame; eauto. (unfold getc; simpl; apply nth_upd_ne; auto).
  - inv_some. split. simpl; auto. eapply waiting_frame; eauto.
  - discriminate.
  - discriminate.
Qed.

Lemma step_J : forall g n0 c s l s', J g n0 c s -> client_silent c l -> label_ready s l = true ->
  step g s l = Some s' -> J g n0 c s'.
Proof.
  intros g n0 c s l s' HJ Hsil Hrdy E. pose proof HJ as [HI [Hnv W]].
  split. eapply step_inv; eauto.
  destruct l; simpl in E.
  - eapply main_step_J; eauto. intro Hm. simpl in Hrdy. rewrite Hm in Hrdy. auto.
  - destruct (pool_busy s <? threads g); try discriminate. destruct (p_start_same _ _ _ E) as [A _].
    rewrite A. split; auto. eapply waiting_frame; eauto. eapply p_start_other; eauto.
  - destruct (p_handle_same _ _ _ _ E) as [A _].
    rewrite A. split; auto. eapply waiting_frame; eauto. eapply p_handle_other; eauto.
  - destruct (p_finish_same _ _ _ _ E) as [A _].
    rewrite A. split; auto. eapply waiting_frame; eauto. eapply p_finish_other; eauto.
  - destruct (fin_by_main s c0); try discriminate. destruct (p_finlock_same _ _ _ E) as [A _].
    rewrite A. split; auto. eapply waiting_frame; eauto. eapply p_finlock_other; eauto.
  - destruct (p_cancel_same _ _ _ E) as [A _].
    rewrite A. split; auto. eapply waiting_frame; eauto. eapply p_cancel_other; eauto.
  - inv_some. split; auto. destruct W as [x [Hx R]]. exists x. split; auto. unfold getc in *. simpl.
    rewrite nth_error_app1; auto. apply nth_error_Some. congruence.
  - simpl in Hsil. destruct (getc s c0) as [x0|] eqn:Hx0; try discriminate. destruct (eof x0); try discriminate.
    destruct (st x0); inv_some; split; auto; eapply waiting_frame; eauto; (unfold getc; simpl; apply nth_upd_ne; auto).
  - simpl in Hsil. destruct (getc s c0) as [x0|] eqn:Hx0; try discriminate. destruct (eof x0); try discriminate.
    inv_some. split; auto. eapply waiting_frame; eauto. (unfold getc; simpl; apply nth_upd_ne; auto).
  - inv_some. split; auto.
  - inv_some. split; auto.
  - inv_some. split; auto.
Qed.

(* However long the client waits for the answer to its pipelined request, whatever else happens: with a selector
   that reports what is readable the request is never answered; the connection can only expire. *)
Theorem buffered_request_never_served : forall g n0 c ls s s', J g n0 c s -> Forall (client_silent c) ls ->
  runr g s ls = Some s' -> waiting n0 s' c.
Proof.
  induction ls; simpl; intros s s' HJ F E.
  - inv_some. destruct HJ as [_ [_ W]]. auto.
  - inversion F; subst. destruct (label_ready s a) eqn:Hr; try discriminate.
    destruct (step g s a) as [s1|] eqn:E1; simpl in E; try discriminate.
    apply (IHls s1); auto. eapply step_J; eauto.
Qed.

Definition s21k : state := the (run g21 (init g21) (firstn 15 ls21)) (init g21).

Lemma s21k_J : J g21 1 0 s21k.
Proof.
  split. apply reachable_inv. exists (firstn 15 ls21). vm_compute. reflexivity.
  split. vm_compute. auto. eexists. split. vm_compute. reflexivity. repeat split. left. reflexivity.
Qed.
