(* Proofs about Model/Creds.v (property C20). *)
From Coq Require Import List NArith ZArith Bool Lia Arith.
From GV Require Import Base.Enc Model.Creds.
Import ListNotations.
Local Open Scope Z_scope.

(* ------------------------------------------------------------------------------------------ *)
(* set_owner_process                                                                          *)
(* ------------------------------------------------------------------------------------------ *)

(* the master the property talks about: root, started normally (real = effective user id 0, one
   group id in all three slots).  The saved uid and the supplementary groups are arbitrary. *)
Definition root_master (c : creds) : Prop :=
  ruid c = 0 /\ euid c = 0 /\ rgid c = egid c /\ egid c = sgid c.

(* what the worker must look like *)
Definition target (db : userdb) (uid gid : Z) (ig : bool) (c0 : creds) : creds :=
  mk uid uid uid gid gid gid
     (if ig then match pw_uid_name db uid with
                 | Some n => getgrouplist db n gid
                 | None => [gid]
                 end
      else groups c0).

Lemma truthy_true z : z <> 0 -> truthy z = true.
Proof. intros H. unfold truthy. apply negb_true_iff, Z.eqb_neq, H. Qed.

(* any group id, 0 included *)
Lemma worker_identity : forall db c0 uid gid ig,
    root_master c0 -> uid <> 0 ->
    set_owner_process db uid gid ig c0 = Done (target db uid gid ig c0).
Proof.
  intros db c0 uid gid ig (Hr & He & Hg1 & Hg2) Hu.
  destruct c0 as [ru eu su rg eg sg gs]. cbn in Hr, He, Hg1, Hg2. subst ru eu eg sg.
  unfold set_owner_process, target, os_initgroups, getgrouplist, k_setgroups, k_setgid, k_setuid, privileged, mk.
  rewrite (truthy_true uid Hu).
  assert (Hu0 : (uid =? 0) = false) by (apply Z.eqb_neq; exact Hu).
  destruct ig; [destruct (pw_uid_name db uid) as [n|]|]; cbn;
    destruct (gid =? rg) eqn:E; cbn; rewrite ?Hu0; cbn;
    try (apply Z.eqb_eq in E; subst rg); reflexivity.
Qed.

(* only a group configured: the worker stays root, takes the group, and with initgroups root's groups *)
Lemma group_only : forall db c0 gid ig,
    root_master c0 ->
    set_owner_process db 0 gid ig c0 =
    Done (with_gids (if ig then with_groups c0 (match pw_uid_name db 0 with
                                                | Some n => getgrouplist db n gid
                                                | None => [gid] end)
                     else c0) gid gid gid).
Proof.
  intros db c0 gid ig (Hr & He & Hg1 & Hg2).
  destruct c0 as [ru eu su rg eg sg gs]. cbn in *. subst ru eu eg sg.
  unfold set_owner_process, os_initgroups, getgrouplist, k_setgroups, k_setgid, privileged.
  destruct ig; [destruct (pw_uid_name db 0) as [n|]|]; cbn;
    destruct (gid =? rg) eqn:E; cbn; try (apply Z.eqb_eq in E; subst rg); reflexivity.
Qed.

(* a launcher that is only effectively root (real uid = the configured uid) is NOT dropped *)
Lemma setuid_launcher_keeps_root : forall db uid gid c0,
    uid <> 0 -> ruid c0 = uid -> euid c0 = 0 ->
    forall c, set_owner_process db uid gid false c0 = Done c -> euid c = 0.
Proof.
  intros db uid gid c0 Hu Hr He c.
  destruct c0 as [ru eu su rg eg sg gs]. cbn in Hr, He. subst ru eu.
  unfold set_owner_process. rewrite (truthy_true uid Hu). cbn.
  destruct (gid =? rg); cbn; rewrite Z.eqb_refl; cbn; intros H; inversion H; reflexivity.
Qed.

(* the group phase never touches the user ids *)
Lemma sop_result_uids : forall db uid gid ig c0 c,
    set_owner_process db uid gid ig c0 = Done c -> euid c0 = 0 -> ruid c0 = 0 ->
    (uid = 0 /\ euid c = 0) \/ (uid <> 0 /\ euid c = uid).
Proof.
  intros db uid gid ig c0 c H He Hr.
  unfold set_owner_process in H.
  match type of H with bind ?X _ = _ => destruct X as [c1|e c1] eqn:E1 end; cbn in H; [|discriminate].
  assert (ruid c1 = 0 /\ euid c1 = 0) as [R1 E1'].
  { destruct ig.
    - unfold os_initgroups, k_setgroups, privileged in E1. rewrite He in E1.
      destruct (pw_uid_name db uid); cbn in E1; inversion E1; subst; cbn; auto.
    - inversion E1; subst; auto. }
  match type of H with bind ?X _ = _ => destruct X as [c2|e c2] eqn:E2 end; cbn in H; [|discriminate].
  assert (ruid c2 = 0 /\ euid c2 = 0) as [R2 E2'].
  { destruct (gid =? rgid c1).
    - inversion E2; subst; auto.
    - unfold k_setgid, privileged in E2. rewrite E1' in E2. cbn in E2. inversion E2; subst; cbn; auto. }
  destruct (Z.eq_dec uid 0) as [U|U].
  - left. subst uid. cbn in H. inversion H; subst. auto.
  - right. rewrite (truthy_true uid U), R2 in H.
    assert (Hu0 : (uid =? 0) = false) by (apply Z.eqb_neq; exact U).
    rewrite Hu0 in H. cbn in H. unfold k_setuid, privileged in H. rewrite E2' in H. cbn in H.
    inversion H; subst; cbn; auto.
Qed.

(* ------------------------------------------------------------------------------------------ *)
(* heartbeat file and unix socket                                                             *)
(* ------------------------------------------------------------------------------------------ *)

Lemma workertmp_owner : forall c0 uid gid umask,
    euid c0 = 0 ->
    exists tmp, workertmp_create c0 uid gid umask = Some tmp /\ (uid <> 0 -> f_uid tmp = uid) /\
                (uid = 0 -> f_uid tmp = 0).
Proof.
  intros c0 uid gid umask He. unfold workertmp_create, k_chown, privileged, created_by. rewrite He. cbn.
  destruct (negb (uid =? 0) || negb (gid =? egid c0)) eqn:E.
  - eexists; split; [reflexivity|]. cbn. split; auto.
  - eexists; split; [reflexivity|]. cbn. apply orb_false_iff in E. destruct E as [E _].
    apply negb_false_iff, Z.eqb_eq in E. split; [intros; contradiction|auto].
Qed.

Lemma heartbeat_touchable : forall db c0 uid gid ig umask c,
    euid c0 = 0 -> ruid c0 = 0 ->
    set_owner_process db uid gid ig c0 = Done c ->
    exists tmp, workertmp_create c0 uid gid umask = Some tmp /\ can_utime c tmp = true.
Proof.
  intros db c0 uid gid ig umask c He Hr H.
  destruct (workertmp_owner c0 uid gid umask He) as (tmp & Ht & Hn & Hz).
  exists tmp. split; [exact Ht|]. unfold can_utime, privileged.
  destruct (sop_result_uids _ _ _ _ _ _ H He Hr) as [[U E]|[U E]].
  - rewrite E. reflexivity.
  - rewrite E, (Hn U), Z.eqb_refl. apply orb_true_r.
Qed.

Lemma socket_owned : forall c0 uid gid umask,
    euid c0 = 0 ->
    unixsocket_bind c0 uid gid umask = Some {| f_uid := uid; f_gid := gid; f_mode := Z.ldiff 511 umask |}.
Proof. intros c0 uid gid umask He. unfold unixsocket_bind, k_chown, privileged. rewrite He. reflexivity. Qed.

Lemma socket_usable_by_worker : forall db c0 uid gid ig umask c,
    euid c0 = 0 -> ruid c0 = 0 -> Z.testbit umask 7 = false ->
    set_owner_process db uid gid ig c0 = Done c ->
    exists f, unixsocket_bind c0 uid gid umask = Some f /\ f_uid f = uid /\ f_gid f = gid /\ can_write c f = true.
Proof.
  intros db c0 uid gid ig umask c He Hr Hm H. eexists. split; [apply socket_owned; exact He|].
  cbn [f_uid f_gid]. repeat split. unfold can_write, privileged. cbn [f_uid f_gid f_mode].
  destruct (sop_result_uids _ _ _ _ _ _ H He Hr) as [[U E]|[U E]].
  - rewrite E. reflexivity.
  - rewrite E, Z.eqb_refl. destruct (uid =? 0); [reflexivity|].
    rewrite Z.ldiff_spec by lia. rewrite Hm. reflexivity.
Qed.

(* ------------------------------------------------------------------------------------------ *)
(* init_process: application code only after the drop                                         *)
(* ------------------------------------------------------------------------------------------ *)

Definition quiet_step (st : wstep) : bool :=
  match st with StSetOwner | StLoadWsgi | StRun => false | _ => true end.
Definition not_owner (st : wstep) : bool := match st with StSetOwner => false | _ => true end.

Definition no_app (l : list wevent) : Prop := forall c, ~ In (EvApp c) l.

Lemma exec_quiet : forall db uid gid ig tmp pre rest w,
    forallb quiet_step pre = true -> w_dead w = false ->
    exec_steps db uid gid ig tmp (pre ++ rest) w = exec_steps db uid gid ig tmp rest w.
Proof.
  induction pre as [|st pre IH]; intros rest w Hq Hd; [reflexivity|].
  cbn in Hq. apply andb_true_iff in Hq. destruct Hq as [Hs Hq].
  cbn [app exec_steps]. rewrite Hd. destruct st; try discriminate; apply IH; assumption.
Qed.

(* once the credentials are final every further step keeps them, and only logs them *)
Lemma exec_after_owner : forall db uid gid ig tmp post w,
    forallb not_owner post = true ->
    (forall c, In (EvApp c) (w_log w) -> c = w_creds w) ->
    let w' := exec_steps db uid gid ig tmp post w in
    w_creds w' = w_creds w /\ (forall c, In (EvApp c) (w_log w') -> c = w_creds w).
Proof.
  induction post as [|st post IH]; intros w Hn Hl; cbn zeta.
  - cbn. auto.
  - cbn in Hn. apply andb_true_iff in Hn. destruct Hn as [Hs Hn]. cbn [exec_steps].
    destruct (w_dead w) eqn:Hd; [auto|].
    destruct st; try discriminate; try (apply IH; assumption).
    + (* StLoadWsgi *)
      specialize (IH {| w_creds := w_creds w; w_log := w_log w ++ [EvApp (w_creds w)]; w_dead := false |} Hn).
      cbn in IH. apply IH. intros c Hc. apply in_app_or in Hc. destruct Hc as [Hc|[Hc|[]]]; [auto|].
      inversion Hc; reflexivity.
    + (* StRun *)
      destruct (can_utime (w_creds w) tmp).
      * specialize (IH {| w_creds := w_creds w; w_log := w_log w ++ [EvNotify true; EvApp (w_creds w)]; w_dead := false |} Hn).
        cbn in IH. apply IH. intros c Hc. apply in_app_or in Hc. destruct Hc as [Hc|[Hc|[Hc|[]]]]; [auto|discriminate|].
        inversion Hc; reflexivity.
      * cbn. split; [reflexivity|]. intros c Hc. apply in_app_or in Hc. destruct Hc as [Hc|[Hc|[]]]; [auto|discriminate].
Qed.

(* any step list of the shape  quiet* ; set_owner_process ; (anything but set_owner_process)*  *)
Lemma app_code_after_drop_generic : forall db uid gid ig tmp pre post c0,
    forallb quiet_step pre = true -> forallb not_owner post = true ->
    let w := exec_steps db uid gid ig tmp (pre ++ StSetOwner :: post) {| w_creds := c0; w_log := []; w_dead := false |} in
    forall c, In (EvApp c) (w_log w) ->
              set_owner_process db uid gid ig c0 = Done c /\ w_creds w = c.
Proof.
  intros db uid gid ig tmp pre post c0 Hq Hn. cbn zeta.
  rewrite exec_quiet by (auto). cbn [exec_steps w_dead w_creds w_log].
  destruct (set_owner_process db uid gid ig c0) as [c'|e c'] eqn:E.
  - intros c Hc.
    pose proof (exec_after_owner db uid gid ig tmp post
                  {| w_creds := c'; w_log := [] ++ [EvOwner]; w_dead := false |} Hn) as X.
    cbn zeta in X. destruct X as [X1 X2].
    { cbn. intros c1 [H|[]]. discriminate. }
    specialize (X2 c Hc). cbn in X2, X1. subst c. split; [reflexivity|exact X1].
  - cbn. intros c [H|[]]. discriminate.
Qed.

Lemma init_process_shape : forall reload,
    exists pre post, init_process_steps reload = pre ++ StSetOwner :: post /\
                     forallb quiet_step pre = true /\ forallb not_owner post = true.
Proof.
  intros reload. exists [StEnv].
  exists ([StSeed; StPipe; StCloexec; StSignals] ++ (if reload then [StReloader] else []) ++ [StLoadWsgi; StPostInit; StRun]).
  destruct reload; repeat split; reflexivity.
Qed.

Lemma app_code_after_drop : forall db uid gid ig reload tmp c0 c,
    In (EvApp c) (w_log (init_process db uid gid ig reload tmp c0)) ->
    set_owner_process db uid gid ig c0 = Done c /\ w_creds (init_process db uid gid ig reload tmp c0) = c.
Proof.
  intros db uid gid ig reload tmp c0 c H. unfold init_process in *.
  destruct (init_process_shape reload) as (pre & post & E & Hq & Hn). rewrite E in *.
  exact (app_code_after_drop_generic db uid gid ig tmp pre post c0 Hq Hn c H).
Qed.

(* ... and a worker whose identity change fails never reaches application code *)
Lemma failed_drop_runs_no_app : forall db uid gid ig reload tmp c0 e c',
    set_owner_process db uid gid ig c0 = Raised e c' ->
    no_app (w_log (init_process db uid gid ig reload tmp c0)) /\
    w_dead (init_process db uid gid ig reload tmp c0) = true.
Proof.
  intros db uid gid ig reload tmp c0 e c' H. split.
  - intros c Hc. apply app_code_after_drop in Hc. destruct Hc as [Hc _]. congruence.
  - unfold init_process. destruct reload; cbn; rewrite H; reflexivity.
Qed.

(* a worker that gets through init_process alive has touched its heartbeat file *)
Lemma alive_worker_heartbeat : forall db uid gid ig reload tmp c0,
    w_dead (init_process db uid gid ig reload tmp c0) = false ->
    In (EvNotify true) (w_log (init_process db uid gid ig reload tmp c0)).
Proof.
  intros db uid gid ig reload tmp c0. unfold init_process.
  destruct reload; cbn; destruct (set_owner_process db uid gid ig c0); cbn; try discriminate;
    destruct (can_utime c tmp); cbn; try discriminate; intros _; auto 10.
Qed.

(* ------------------------------------------------------------------------------------------ *)
(* the arbiter: every generation goes through spawn_worker                                     *)
(* ------------------------------------------------------------------------------------------ *)

Section Arbiter.
Variable db : userdb.
Variable c0 : creds.                 (* identity the first master was started with *)
Variable G : cfg -> Prop.            (* a property of configurations, stable under TTIN/TTOU *)
Hypothesis G_workers : forall k n, G k -> G (set_workers k n).

Definition proc_ok (p : proc) : Prop :=
  G (p_cfg p) /\
  match p_role p with
  | Master => p_creds p = c0
  | Worker => forall c, In (EvApp c) (p_log p) ->
                set_owner_process db (c_uid (p_cfg p)) (c_gid (p_cfg p)) (c_ig (p_cfg p)) c0 = Done c
                /\ p_creds p = c
  end.

Definition ev_ok (e : sevent) : Prop := match e with SHup _ k | SUsr2 _ k => G k | _ => True end.

Lemma kill_ok p : proc_ok p -> proc_ok (kill_proc p).
Proof. unfold proc_ok. destruct p; cbn. auto. Qed.

Lemma in_firstn_l {A} : forall n (l : list A) x, In x (firstn n l) -> In x l.
Proof. intros n l x H. rewrite <- (firstn_skipn n l). apply in_or_app. left. exact H. Qed.
Lemma in_skipn_l {A} : forall n (l : list A) x, In x (skipn n l) -> In x l.
Proof. intros n l x H. rewrite <- (firstn_skipn n l). apply in_or_app. right. exact H. Qed.

Lemma set_nth_ok : forall i x s, Forall proc_ok s -> proc_ok x -> Forall proc_ok (set_nth i x s).
Proof.
  intros i x s Hs Hx. unfold set_nth. rewrite Forall_forall in Hs. apply Forall_app. split.
  - apply Forall_forall. intros y Hy. apply Hs. eapply in_firstn_l; eauto.
  - constructor; [exact Hx|]. apply Forall_forall. intros y Hy. apply Hs. eapply in_skipn_l; eauto.
Qed.

Lemma live_master_inv : forall s m, live_master s m = true ->
    exists mp, nth_error s m = Some mp /\ p_role mp = Master /\ p_alive mp = true.
Proof.
  intros s m H. unfold live_master in H. destruct (nth_error s m) as [mp|]; [|discriminate].
  exists mp. apply andb_true_iff in H. destruct H as [H1 H2]. unfold is_master in H1.
  destruct (p_role mp); [auto|discriminate].
Qed.

Lemma live_master_app : forall s t m, live_master s m = true -> live_master (s ++ t) m = true.
Proof.
  intros s t m H. unfold live_master in *. destruct (nth_error s m) eqn:E; [|discriminate].
  rewrite nth_error_app1 by (apply nth_error_Some; congruence). rewrite E. exact H.
Qed.

Lemma spawn_worker_ok : forall s m, Forall proc_ok s -> live_master s m = true ->
    Forall proc_ok (spawn_worker db s m) /\ live_master (spawn_worker db s m) m = true.
Proof.
  intros s m Hs Hm. destruct (live_master_inv s m Hm) as (mp & E & Hr & Ha).
  unfold spawn_worker. rewrite E.
  assert (Hmp : proc_ok mp) by (rewrite Forall_forall in Hs; apply Hs; eapply nth_error_In; eauto).
  destruct Hmp as [HG Hc]. rewrite Hr in Hc.
  destruct (workertmp_create (p_creds mp) (c_uid (p_cfg mp)) (c_gid (p_cfg mp)) (c_umask (p_cfg mp))) as [tmp|]; [|auto].
  split; [|apply live_master_app; exact Hm].
  apply Forall_app. split; [exact Hs|]. constructor; [|constructor].
  split; cbn; [exact HG|]. intros c Hin. rewrite Hc in Hin. apply app_code_after_drop in Hin.
  rewrite Hc. exact Hin.
Qed.

Lemma spawn_n_ok : forall n s m, Forall proc_ok s -> live_master s m = true ->
    Forall proc_ok (spawn_n db n s m) /\ live_master (spawn_n db n s m) m = true.
Proof.
  induction n as [|n IH]; intros s m Hs Hm; cbn; [auto|].
  destruct (spawn_worker_ok s m Hs Hm) as [H1 H2]. apply IH; assumption.
Qed.

Lemma kill_oldest_ok : forall s n m, Forall proc_ok s -> Forall proc_ok (kill_oldest n m s).
Proof.
  induction s as [|p t IH]; intros n m Hs; cbn; [constructor|].
  inversion Hs; subst. destruct n; [exact Hs|].
  destruct (live_worker_of m p); constructor; auto using kill_ok.
Qed.

Lemma manage_ok : forall s m, Forall proc_ok s -> live_master s m = true -> Forall proc_ok (manage db s m).
Proof.
  intros s m Hs Hm. unfold manage. destruct (nth_error s m); [|exact Hs].
  destruct (Nat.ltb _ _); [apply spawn_n_ok; assumption|apply kill_oldest_ok; exact Hs].
Qed.

Lemma live_master_set_nth : forall s m mp x, nth_error s m = Some mp ->
    is_master x = true -> p_alive x = true -> live_master (set_nth m x s) m = true.
Proof.
  intros s m mp x E Hx Ha. unfold live_master, set_nth.
  assert (Hl : (m < length s)%nat) by (apply nth_error_Some; congruence).
  rewrite nth_error_app2 by (rewrite firstn_length; lia).
  rewrite firstn_length, Nat.min_l by lia. rewrite Nat.sub_diag. cbn. rewrite Hx, Ha. reflexivity.
Qed.

Lemma master_set_cfg_ok : forall mp k, proc_ok mp -> p_role mp = Master -> G k -> proc_ok (set_cfg mp k).
Proof. intros mp k [HG H] Hr Hk. unfold proc_ok in *. destruct mp; cbn in *. subst. auto. Qed.

Lemma step_ok : forall s e, Forall proc_ok s -> ev_ok e -> Forall proc_ok (step db s e).
Proof.
  intros s e Hs He. destruct e as [i|m k|m k|m|m|m]; cbn [step].
  - destruct (nth_error s i) as [p|] eqn:E; [|exact Hs].
    destruct (negb (is_master p) && p_alive p); [|exact Hs].
    assert (Hp : proc_ok p) by (rewrite Forall_forall in Hs; apply Hs; eapply nth_error_In; eauto).
    assert (H1 : Forall proc_ok (set_nth i (kill_proc p) s)) by (apply set_nth_ok; auto using kill_ok).
    destruct (live_master _ _) eqn:Hm; [apply manage_ok; assumption|exact H1].
  - destruct (nth_error s m) as [mp|] eqn:E; [|exact Hs].
    destruct (live_master s m) eqn:Hm; [|exact Hs].
    destruct (live_master_inv s m Hm) as (mp' & E' & Hr & Ha). rewrite E in E'. inversion E'; subst mp'.
    assert (Hp : proc_ok mp) by (rewrite Forall_forall in Hs; apply Hs; eapply nth_error_In; eauto).
    assert (H1 : Forall proc_ok (set_nth m (set_cfg mp k) s)).
    { apply set_nth_ok; [exact Hs|]. apply master_set_cfg_ok; assumption. }
    assert (L1 : live_master (set_nth m (set_cfg mp k) s) m = true).
    { eapply live_master_set_nth; eauto; destruct mp; cbn in *; subst; auto. }
    destruct (spawn_n_ok (c_workers k) _ m H1 L1) as [H2 L2]. apply manage_ok; assumption.
  - destruct (nth_error s m) as [mp|] eqn:E; [|exact Hs].
    destruct (live_master s m && _) eqn:Hm; [|exact Hs].
    apply andb_true_iff in Hm. destruct Hm as [Hm _].
    destruct (live_master_inv s m Hm) as (mp' & E' & Hr & Ha). rewrite E in E'. inversion E'; subst mp'.
    assert (Hp : proc_ok mp) by (rewrite Forall_forall in Hs; apply Hs; eapply nth_error_In; eauto).
    apply spawn_n_ok.
    + apply Forall_app. split; [exact Hs|]. constructor; [|constructor].
      destruct Hp as [HG Hc]. rewrite Hr in Hc. split; cbn; [exact He|exact Hc].
    + unfold live_master. rewrite nth_error_app2 by lia. rewrite Nat.sub_diag. reflexivity.
  - destruct (nth_error s m) as [mp|] eqn:E; [|exact Hs].
    destruct (live_master s m) eqn:Hm; [|exact Hs].
    destruct (live_master_inv s m Hm) as (mp' & E' & Hr & Ha). rewrite E in E'. inversion E'; subst mp'.
    assert (Hp : proc_ok mp) by (rewrite Forall_forall in Hs; apply Hs; eapply nth_error_In; eauto).
    apply manage_ok.
    + apply set_nth_ok; [exact Hs|]. apply master_set_cfg_ok; auto. apply G_workers. apply Hp.
    + eapply live_master_set_nth; eauto; destruct mp; cbn in *; subst; auto.
  - destruct (nth_error s m) as [mp|] eqn:E; [|exact Hs].
    destruct (live_master s m && _) eqn:Hm0; [|exact Hs].
    apply andb_true_iff in Hm0. destruct Hm0 as [Hm _].
    destruct (live_master_inv s m Hm) as (mp' & E' & Hr & Ha). rewrite E in E'. inversion E'; subst mp'.
    assert (Hp : proc_ok mp) by (rewrite Forall_forall in Hs; apply Hs; eapply nth_error_In; eauto).
    apply manage_ok.
    + apply set_nth_ok; [exact Hs|]. apply master_set_cfg_ok; auto. apply G_workers. apply Hp.
    + eapply live_master_set_nth; eauto; destruct mp; cbn in *; subst; auto.
  - destruct (live_master s m); [|exact Hs].
    apply Forall_forall. intros x Hx. apply in_map_iff in Hx. destruct Hx as ([i p] & Hx & Hin).
    apply in_combine_r in Hin. rewrite Forall_forall in Hs. specialize (Hs p Hin).
    destruct (Nat.eqb i m || live_worker_of m p); subst x; auto using kill_ok.
Qed.

Lemma boot_ok : forall k, G k -> Forall proc_ok (boot db c0 k).
Proof.
  intros k Hk. unfold boot. apply spawn_n_ok.
  - constructor; [|constructor]. split; cbn; auto.
  - reflexivity.
Qed.

Lemma run_ok : forall evs s, Forall proc_ok s -> Forall ev_ok evs -> Forall proc_ok (run db s evs).
Proof.
  induction evs as [|e evs IH]; intros s Hs He; cbn; [exact Hs|].
  inversion He; subst. apply IH; [apply step_ok; assumption|assumption].
Qed.

Theorem every_generation : forall k evs, G k -> Forall ev_ok evs ->
    Forall proc_ok (run db (boot db c0 k) evs).
Proof. intros k evs Hk He. apply run_ok; [apply boot_ok; exact Hk|exact He]. Qed.

End Arbiter.

(* ------------------------------------------------------------------------------------------ *)
(* the property, assembled                                                                    *)
(* ------------------------------------------------------------------------------------------ *)

Definition good_cfg (k : cfg) : Prop := c_uid k <> 0.
Definition good_ev (e : sevent) : Prop := match e with SHup _ k | SUsr2 _ k => good_cfg k | _ => True end.

Theorem every_worker_generation_identity : forall db c0 k evs,
    root_master c0 -> good_cfg k -> Forall good_ev evs ->
    forall p, In p (run db (boot db c0 k) evs) ->
      match p_role p with
      | Master => p_creds p = c0
      | Worker => forall c, In (EvApp c) (p_log p) ->
                    c = target db (c_uid (p_cfg p)) (c_gid (p_cfg p)) (c_ig (p_cfg p)) c0 /\ p_creds p = c
      end.
Proof.
  intros db c0 k evs Hroot Hk He p Hp.
  pose proof (every_generation db c0 good_cfg (fun k n H => H) k evs Hk He) as H.
  rewrite Forall_forall in H. specialize (H p Hp). destruct H as [Hu H].
  destruct (p_role p); [exact H|].
  intros c Hc. destruct (H c Hc) as [H1 H2]. split; [|exact H2].
  rewrite (worker_identity db c0 _ (c_gid (p_cfg p)) (c_ig (p_cfg p)) Hroot Hu) in H1. inversion H1. reflexivity.
Qed.

Theorem every_generation_same_path : forall db c0 k evs,
    Forall (proc_ok db c0 (fun _ => True)) (run db (boot db c0 k) evs).
Proof.
  intros db c0 k evs. apply every_generation; [auto|exact I|].
  apply Forall_forall. intros e _. destruct e; exact I.
Qed.

(* spellings: a name, the digits of its id and the int all configure the same id *)
Lemma spelling_agree_user : forall db m n u,
    validate_user db m (SpName n) = Some u ->
    validate_user db m (SpDigits u) = Some u /\ validate_user db m (SpInt u) = Some u.
Proof. intros. split; reflexivity. Qed.
Lemma spelling_agree_group : forall db m n g,
    validate_group db m (SpName n) = Some g ->
    validate_group db m (SpDigits g) = Some g /\ validate_group db m (SpInt g) = Some g.
Proof. intros. split; reflexivity. Qed.

(* insert/norm produce the set of the input *)
Lemma insert_in : forall x y l, In y (insert x l) <-> y = x \/ In y l.
Proof.
  induction l as [|z t IH]; cbn.
  - intuition.
  - destruct (x <? z); [cbn; intuition|].
    destruct (x =? z) eqn:E.
    + apply Z.eqb_eq in E. subst. cbn. intuition.
    + cbn. rewrite IH. intuition.
Qed.
Lemma norm_in : forall y l, In y (norm l) <-> In y l.
Proof. induction l as [|x t IH]; cbn; [tauto|]. rewrite insert_in, IH. intuition. Qed.

Lemma getgrouplist_exact : forall db n g y,
    In y (getgrouplist db n g) <-> y = g \/ In y (memberships db n).
Proof. intros. unfold getgrouplist. rewrite norm_in. cbn. intuition. Qed.
