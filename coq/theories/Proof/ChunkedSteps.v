(* The chunked reader, part 1: parse_chunk_size / parse_trailers depend on the concatenated stream
   only, and the reference (segmentation-free) meaning of a generator state. *)
From Coq Require Import List NArith ZArith Bool Lia Arith.
From GV Require Import Base.Bytes Base.Scan Base.PyStr Gen.GenParser Model.Parser Proof.TakeDrop Proof.ParserHead.
Import ListNotations.
Local Open Scope N_scope.

(* ---- parse_trailers -------------------------------------------------------------------------- *)
Definition canonT (r : (unreader * option (list header)) + perr) : (bytes * option (list header)) + perr :=
  match r with inl (p, t) => inl (u_abs p, t) | inr e => inr e end.

Definition tr_of_cut (c : cfg) (k : cut) : (bytes * option (list header)) + perr :=
  match k with
  | COver => inr ELimitRequestHeaders
  | CEof => inl ([], None)
  | CFound i pre rest =>
      if prefixb CRLF pre then inl (rest, None)
      else match parse_headers c true false (firstn i pre) with
           | inr e => inr e
           | inl (hs, _) => inl (skipn 2 rest, Some hs)
           end
  end.

Lemma parse_trailers_cut c data p :
  canonT (parse_trailers c data p) =
  tr_of_cut c (canon 2 (hdr_post (max_buffer_headers c)) (scan hdr_find (cap_over (max_buffer_headers c)) data p)).
Proof.
  unfold parse_trailers. destruct (scan _ _ data p) as [i d p'| |d] eqn:Es; cbn [canon tr_of_cut canonT]; try reflexivity.
  destruct (scan_found_abs _ _ _ _ _ _ _ Es) as [_ Hf].
  destruct (hdr_found_shape _ _ Hf) as [[Hd ->]|(Hd & Hp & Hb)].
  - rewrite Hd. cbn [hdr_post Nat.eqb negb andb tr_of_cut]. cbn [Nat.add].
    rewrite prefixb_firstn by (cbn; lia). rewrite Hd. cbn [canonT]. rewrite u_unread_abs. reflexivity.
  - rewrite Hd. unfold hdr_post. pose proof (crlfcrlf_not_at_0 _ _ Hd Hp) as Hi.
    replace (Nat.eqb i 0) with false by (symmetry; apply Nat.eqb_neq; exact Hi). cbn [negb andb].
    destruct (cap_post (max_buffer_headers c) 4 i); [reflexivity|]. cbn [tr_of_cut].
    rewrite prefixb_firstn by (cbn; lia). rewrite Hd.
    rewrite firstn_firstn. replace (Nat.min i (i + 2)) with i by lia.
    destruct (parse_headers c true false (firstn i d)) as [[hs https]|e]; [|reflexivity].
    cbn [canonT]. rewrite u_unread_abs. f_equal. f_equal.
    assert (Hl : (2 <= length (skipn (i + 2) d))%nat) by (rewrite skipn_length; lia).
    rewrite skipn_app. replace (2 - length (skipn (i + 2) d))%nat with 0%nat by lia.
    rewrite (skipn_skipn 2 (i + 2) d). replace (2 + (i + 2))%nat with (i + 4)%nat by lia. reflexivity.
Qed.

Theorem parse_trailers_indep c data p :
  canonT (parse_trailers c data p) = canonT (parse_trailers c (data ++ concat p) []).
Proof.
  rewrite !parse_trailers_cut.
  rewrite !(scan_canon hdr_find (cap_over (max_buffer_headers c)) 4 2 (hdr_post (max_buffer_headers c))
              hdr_find_stable hdr_find_late hdr_find_bound (cap_over_mono _) (hdr_early _ (max_buffer_headers_ge4 c))).
  cbn [concat]. rewrite app_nil_r. reflexivity.
Qed.
Lemma parse_trailers_NE c data p p' t : NE p -> parse_trailers c data p = inl (p', t) -> NE p'.
Proof.
  unfold parse_trailers. intros Hne H. destruct (scan _ _ data p) as [i d q| |d] eqn:Es; try discriminate.
  - pose proof (scan_found_NE _ _ _ _ _ _ _ Hne Es) as Hq.
    destruct (prefixb CRLF d); [injection H as <- <-; apply NE_unread; exact Hq|].
    destruct (cap_post _ 4 i); [discriminate|].
    destruct (parse_headers _ _ _ _) as [[a b]|e]; [|discriminate]. injection H as <- <-. apply NE_unread. exact Hq.
  - injection H as <- <-. constructor.
Qed.

(* ---- parse_chunk_size ------------------------------------------------------------------------ *)
Inductive csz := ZChunk (n : N) (rest : bytes) | ZLast (after : bytes) (tr : option (list header)) | ZErr (e : perr).
Definition canonZ (r : csize) : csz :=
  match r with
  | CSChunk n rest p => ZChunk n (rest ++ concat p)
  | CSLast p tr => ZLast (u_abs p) tr
  | CSErr e _ => ZErr e
  end.

(* what parse_chunk_size does with the scan result, on canonical data *)
Definition zs_line (c : cfg) (line : bytes) (rest : bytes) (k : bytes -> (bytes * option (list header)) + perr) : csz :=
  if mem 13 line || mem 10 line then ZErr EInvalidChunkSize else
  let sz := match find_char 59 line with Some j => rstrip is_ows (firstn j line) | None => line end in
  if negb (hexdigits_ok sz) then ZErr EInvalidChunkSize
  else match sz with
       | [] => ZErr EInvalidChunkSize
       | _ => let n := hex_value sz in
              if n =? 0 then match k rest with inl (a, tr) => ZLast a tr | inr e => ZErr e end
              else ZChunk n rest
       end.

Definition zs_of_cut (c : cfg) (k : cut) : csz :=
  match k with
  | COver => ZErr EInvalidChunkSize
  | CEof => ZErr ENoMoreData
  | CFound i pre rest => zs_line c (firstn i pre) rest (fun r => canonT (parse_trailers c r []))
  end.

Lemma parse_chunk_size_cut c data p :
  canonZ (parse_chunk_size c data p) =
  zs_of_cut c (canon 2 (cap_post (max_buffer_headers c) 2) (scan (find_pat CRLF) (cap_over (max_buffer_headers c)) data p)).
Proof.
  unfold parse_chunk_size. destruct (scan _ _ data p) as [i d p'| |d] eqn:Es; cbn [canon zs_of_cut canonZ]; try reflexivity.
  destruct (cap_post (max_buffer_headers c) 2 i); [reflexivity|]. cbn [zs_of_cut]. unfold zs_line.
  rewrite firstn_firstn. replace (Nat.min i (i + 2)) with i by lia.
  destruct (mem 13 (firstn i d) || mem 10 (firstn i d)); [reflexivity|].
  set (sz := match find_char 59 (firstn i d) with Some j => rstrip is_ows (firstn j (firstn i d)) | None => firstn i d end).
  destruct (negb (hexdigits_ok sz)); [reflexivity|].
  destruct sz as [|z sz']; [reflexivity|].
  destruct (hex_value (z :: sz') =? 0); [|reflexivity].
  pose proof (parse_trailers_indep c (skipn (i + 2) d) p') as Ht.
  destruct (parse_trailers c (skipn (i + 2) d) p') as [[q t]|e]; destruct (parse_trailers c (skipn (i + 2) d ++ concat p') []) as [[q' t']|e'];
    cbn [canonT] in *; try discriminate; [injection Ht as <- <-; reflexivity|injection Ht as <-; reflexivity].
Qed.

Theorem parse_chunk_size_indep c data p :
  canonZ (parse_chunk_size c data p) = canonZ (parse_chunk_size c (data ++ concat p) []).
Proof.
  rewrite !parse_chunk_size_cut.
  rewrite !(scan_canon (find_pat CRLF) (cap_over (max_buffer_headers c)) 2 2 (cap_post (max_buffer_headers c) 2)
              (find_pat_stable CRLF) crlf_late crlf_bound (cap_over_mono _) (cap_early _ 2)).
  cbn [concat]. rewrite app_nil_r. reflexivity.
Qed.

(* sizes: what a successful size line leaves is shorter by at least the CRLF, and pending reads only shrink *)
Lemma scan_found_lengths find over : forall p data i d p',
    scan find over data p = SFound i d p' -> (length p' <= length p)%nat /\ (data <> d -> length p' < length p)%nat.
Proof.
  induction p as [|ch t IH]; intros data i d p' H; cbn [scan] in H.
  - destruct (find data); [injection H as <- <- <-; split; [lia|congruence]|]. destruct (over _); discriminate.
  - destruct (find data); [injection H as <- <- <-; split; [lia|congruence]|]. destruct (over _); [discriminate|].
    apply IH in H as [H1 _]. cbn [length]. split; lia.
Qed.

Lemma parse_chunk_size_chunk c data p n rest p' :
  NE p -> parse_chunk_size c data p = CSChunk n rest p' ->
  NE p' /\ (length p' <= length p)%nat /\ (length rest + length (concat p') + 2 <= length data + length (concat p))%nat
  /\ (find_pat CRLF data = None -> length p' < length p)%nat.
Proof.
  unfold parse_chunk_size. intros Hne H. destruct (scan _ _ data p) as [i d q| |d] eqn:Es; try discriminate.
  destruct (cap_post _ 2 i); [discriminate|].
  destruct (mem 13 (firstn i d) || mem 10 (firstn i d)); [discriminate|].
  destruct (negb (hexdigits_ok _)); [discriminate|].
  destruct (match find_char 59 (firstn i d) with Some j => rstrip is_ows (firstn j (firstn i d)) | None => firstn i d end) as [|z s]; [discriminate|].
  destruct (hex_value (z :: s) =? 0).
  - destruct (parse_trailers c (skipn (i + 2) d) q) as [[a b]|e]; discriminate.
  - injection H as <- <- <-.
    destruct (scan_found_abs _ _ _ _ _ _ _ Es) as [Hd Hf]. pose proof (crlf_bound _ _ Hf) as Hb.
    destruct (scan_found_lengths _ _ _ _ _ _ _ Es) as [Hl1 Hl2].
    split; [eapply scan_found_NE; eassumption|]. split; [exact Hl1|]. split.
    + apply (f_equal (@length N)) in Hd. rewrite !app_length in Hd. rewrite skipn_length. lia.
    + intros Hn. apply Hl2. intros ->. congruence.
Qed.
