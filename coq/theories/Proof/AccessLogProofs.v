(* C19: a rendered access record contains no control character that the format string does not contain itself:
   every client-controlled string reaches it through SafeAtoms' escaping. *)
From Coq Require Import List NArith ZArith Bool Lia.
From GV Require Import Base.Enc Base.Dec Gen.GenAccessLog Model.AccessLog.
Import ListNotations.
Local Open Scope N_scope.

(* C0 controls except HTAB, and DEL *)
Definition is_ctl (c : N) : bool := ((c <? 32) && negb (c =? 9)) || (c =? 127).
Definition clean (s : str) : bool := forallb (fun c => negb (is_ctl c)) s.
Definition one_line (s : str) : bool := forallb (fun c => negb (c =? 10) && negb (c =? 13)) s.

Lemma clean_one_line s : clean s = true -> one_line s = true.
Proof.
  unfold clean, one_line. induction s as [|c t IH]; [reflexivity|]. cbn. intros H. apply andb_prop in H as [H1 H2].
  rewrite (IH H2), andb_true_r. unfold is_ctl in H1. apply negb_true_iff in H1. apply orb_false_iff in H1 as [H1 _].
  destruct (c =? 10) eqn:E1; [apply N.eqb_eq in E1; subst; discriminate|].
  destruct (c =? 13) eqn:E2; [apply N.eqb_eq in E2; subst; discriminate|]. reflexivity.
Qed.

Lemma clean_app a b : clean (a ++ b) = clean a && clean b.
Proof. unfold clean. apply forallb_app. Qed.

(* ---- the regenerated escaping table ---- *)
Lemma esc_table_clean : forallb (fun n => clean (nth n esc_table [])) (seq 0 256) = true /\ length esc_table = 256%nat.
Proof. split; vm_compute; reflexivity. Qed.

Lemma esc_high_clean : forallb (fun kv => clean (snd kv)) esc_high = true.
Proof. vm_compute. reflexivity. Qed.

Lemma assocN_in {A} k (d : list (N * A)) v : assocN k d = Some v -> In (k, v) d.
Proof. induction d as [|[k' v'] t IH]; cbn; [discriminate|]. destruct (k =? k') eqn:E.
  - intros H. injection H as <-. apply N.eqb_eq in E. subst. left. reflexivity.
  - intros H. right. apply IH. exact H. Qed.

Lemma esc_char_clean c : clean (esc_char c) = true.
Proof.
  unfold esc_char. destruct (c <? 256) eqn:E.
  - apply N.ltb_lt in E. destruct esc_table_clean as [H L]. rewrite forallb_forall in H.
    assert (Hi : In (N.to_nat c) (seq 0 256)) by (apply in_seq; lia).
    specialize (H _ Hi). rewrite (nth_indep esc_table [c] []) by (rewrite L; lia). exact H.
  - apply N.ltb_ge in E. destruct (assocN c esc_high) as [v|] eqn:Ea.
    + apply assocN_in in Ea. pose proof esc_high_clean as H. rewrite forallb_forall in H. apply (H _ Ea).
    + cbn. unfold is_ctl. assert (c <? 32 = false) as -> by (apply N.ltb_ge; lia).
      assert (c =? 127 = false) as -> by (apply N.eqb_neq; lia). reflexivity.
Qed.

Lemma escape_clean s : clean (escape s) = true.
Proof. unfold escape. induction s as [|c t IH]; [reflexivity|]. cbn [flat_map]. rewrite clean_app, esc_char_clean, IH. reflexivity. Qed.

Lemma digits_clean l : forallb is_digit l = true -> clean l = true.
Proof.
  unfold clean. induction l as [|c t IH]; [reflexivity|]. cbn. intros H. apply andb_prop in H as [H1 H2]. rewrite (IH H2), andb_true_r.
  unfold is_digit in H1. apply andb_prop in H1 as [A B]. apply N.leb_le in A, B. unfold is_ctl.
  assert (c <? 32 = false) as -> by (apply N.ltb_ge; lia). assert (c =? 127 = false) as -> by (apply N.eqb_neq; lia). reflexivity.
Qed.

Lemma dec_clean n : clean (dec n) = true.
Proof. apply digits_clean, dec_all_digits. Qed.

Lemma dec_Z_clean z : clean (dec_Z z) = true.
Proof. unfold dec_Z. rewrite clean_app, dec_clean. destruct (z <? 0)%Z; reflexivity. Qed.

(* values that are not strings are rendered by str(): assumed free of control characters for server objects *)
Definition opaque_ok (v : aval) : Prop := match v with VOpaque t => clean t = true | _ => True end.

Lemma show_safe_clean v : opaque_ok v -> clean (show (safe v)) = true.
Proof. destruct v as [s|z| |t]; cbn; intros H; [apply escape_clean|apply dec_Z_clean|reflexivity|exact H]. Qed.

Lemma assoc_in {A} k (d : list (str * A)) v : assoc k d = Some v -> exists k', In (k', v) d.
Proof. induction d as [|[k' v'] t IH]; cbn; [discriminate|]. destruct (str_eqb k k').
  - intros H. injection H as <-. exists k'. left. reflexivity.
  - intros H. destruct (IH H) as [k'' Hk]. exists k''. right. exact Hk. Qed.

Lemma safe_lookup_clean d k : Forall (fun kv => opaque_ok (snd kv)) d -> clean (safe_lookup d k) = true.
Proof.
  intros H. unfold safe_lookup. destruct (assoc _ d) as [v|] eqn:E; [|reflexivity].
  destruct (assoc_in _ _ _ E) as [k' Hk]. rewrite Forall_forall in H. apply show_safe_clean. apply (H _ Hk).
Qed.

(* ---- interpolation ---- *)
Lemma render_go_clean look : (forall k, clean (look k) = true) ->
  forall fmt st out, clean fmt = true -> render_go look st fmt = Some out -> clean out = true.
Proof.
  intros Hl. induction fmt as [|c t IH]; intros st out Hc.
  - destruct st; cbn; try discriminate. intros H. injection H as <-. reflexivity.
  - cbn in Hc. apply andb_prop in Hc as [Hc1 Hc2]. cbn [render_go]. destruct st as [| |depth acc|key].
    + destruct (c =? 37); [apply IH; exact Hc2|].
      destruct (render_go look RText t) as [r|] eqn:E; [|discriminate]. cbn. intros H. injection H as <-.
      cbn. rewrite Hc1. apply (IH _ _ Hc2 E).
    + destruct (c =? 37).
      * destruct (render_go look RText t) as [r|] eqn:E; [|discriminate]. cbn. intros H. injection H as <-.
        cbn. apply (IH _ _ Hc2 E).
      * destruct (c =? 40); [apply IH; exact Hc2|discriminate].
    + destruct (c =? 41).
      * destruct depth as [|[|d]]; [discriminate|apply IH; exact Hc2|apply IH; exact Hc2].
      * destruct (c =? 40); apply IH; exact Hc2.
    + destruct (c =? 115); [|discriminate].
      destruct (render_go look RText t) as [r|] eqn:E; [|discriminate]. cbn. intros H. injection H as <-.
      rewrite clean_app, Hl. apply (IH _ _ Hc2 E).
Qed.

(* the record is one line, for ANY dictionary of atoms: whatever the request target, the header values, the
   decoded basic-auth user name ... contain *)
Theorem record_clean fmt d out :
  clean fmt = true -> Forall (fun kv => opaque_ok (snd kv)) d ->
  render fmt (safe_lookup d) = Some out -> clean out = true.
Proof.
  intros Hf Hd H. unfold render in H. eapply render_go_clean; [|exact Hf|exact H].
  intros k. apply safe_lookup_clean. exact Hd.
Qed.

Theorem record_is_one_line fmt d out :
  clean fmt = true -> Forall (fun kv => opaque_ok (snd kv)) d ->
  render fmt (safe_lookup d) = Some out -> one_line out = true.
Proof. intros. apply clean_one_line. eapply record_clean; eassumption. Qed.

(* ---- the dictionary built by Logger.atoms only holds strings, numbers, None and environ values ---- *)
Lemma get_or_ok d k dflt : Forall (fun kv => opaque_ok (snd kv)) d -> opaque_ok dflt -> opaque_ok (get_or d k dflt).
Proof.
  intros H Hd. unfold get_or. destruct (assoc k d) as [v|] eqn:E; [|exact Hd].
  destruct (assoc_in _ _ _ E) as [k' Hk]. rewrite Forall_forall in H. apply (H _ Hk).
Qed.

Lemma atoms_opaque a d : Forall (fun kv => opaque_ok (snd kv)) (i_environ a) -> opaque_ok (i_status a) ->
  atoms a = Some d -> Forall (fun kv => opaque_ok (snd kv)) d.
Proof.
  intros He Hs. unfold atoms.
  assert (Hel : Forall (fun kv => opaque_ok (snd kv)) (rev (i_environ a))) by (apply Forall_rev; exact He).
  destruct (match i_status a with VStr s => option_map VStr (first_token s) | v => Some v end) as [st|] eqn:Est; [|discriminate].
  destruct (assoc k_request_method (rev (i_environ a))) as [m|]; [|discriminate].
  destruct (assoc k_raw_uri (rev (i_environ a))) as [u|]; [|discriminate].
  destruct (assoc k_server_protocol (rev (i_environ a))) as [p|]; [|discriminate].
  intros H. injection H as <-.
  assert (Hst : opaque_ok st).
  { destruct (i_status a) as [s|z| |t]; cbn in Est.
    - destruct (first_token s); [injection Est as <-; exact I|discriminate].
    - injection Est as <-. exact I.
    - injection Est as <-. exact I.
    - injection Est as <-. exact Hs. }
  apply Forall_app. split.
  { apply Forall_rev. apply Forall_map. cbn. eapply Forall_impl; [|exact He]. intros [k v] H. exact H. }
  apply Forall_app. split.
  { apply Forall_rev. apply Forall_map. cbn. apply Forall_forall. intros; exact I. }
  apply Forall_app. split.
  { apply Forall_rev. apply Forall_map. cbn. apply Forall_forall. intros; exact I. }
  repeat (apply Forall_cons; [cbn; try exact I; try exact Hst; try (apply get_or_ok; [exact Hel|exact I])|]).
  - destruct (i_user a) as [[|c t]|]; exact I.
  - destruct (i_sent a); exact I.
  - destruct (i_sent a); exact I.
  - constructor.
Qed.

Theorem access_line_is_one_line fmt a out :
  clean fmt = true -> Forall (fun kv => opaque_ok (snd kv)) (i_environ a) -> opaque_ok (i_status a) ->
  access_line fmt a = Some out -> one_line out = true.
Proof.
  intros Hf He Hs. unfold access_line. destruct (atoms a) as [d|] eqn:Ea; [|discriminate].
  apply record_is_one_line; [exact Hf|]. eapply atoms_opaque; eassumption.
Qed.

(* ---- what the record says: status and bytes ---- *)
Definition brace_keys (l : list (str * aval)) : Prop := Forall (fun kv => exists t, fst kv = 123 :: t) l.

Lemma assoc_skip_braces (k : str) l1 l2 : brace_keys l1 -> (forall t, k <> 123 :: t) -> assoc k (l1 ++ l2) = assoc k l2.
Proof.
  intros H Hk. induction l1 as [|[k' v] t IH]; [reflexivity|]. inversion H as [|? ? [t' Ht] H']; subst. cbn in Ht. subst k'.
  cbn [List.app assoc]. destruct k as [|c ks]; [cbn; apply IH; exact H'|]. cbn [str_eqb].
  destruct (c =? 123) eqn:E; [apply N.eqb_eq in E; subst; exfalso; eapply Hk; reflexivity|]. cbn. apply IH. exact H'.
Qed.

Lemma wrapped_brace {A B} (f : A -> str) (g : A -> B) sfx (l : list A) :
  Forall (fun kv : str * B => exists t, fst kv = 123 :: t) (rev (map (fun x => (wrap_key (f x) sfx, g x)) l)).
Proof. apply Forall_rev. apply Forall_map. apply Forall_forall. intros x _. cbn. eexists. reflexivity. Qed.

(* %(s)s is the first word of resp.status, %(B)s / %(b)s are resp.sent *)
Theorem record_fields a d :
  atoms a = Some d ->
  (forall n, i_sent a = Some n -> safe_lookup d [66] = dec n /\ safe_lookup d [98] = dec n)
  /\ (forall s w, i_status a = VStr s -> first_token s = Some w -> safe_lookup d [115] = escape w).
Proof.
  unfold atoms.
  destruct (match i_status a with VStr s => option_map VStr (first_token s) | v => Some v end) as [st|] eqn:Est; [|discriminate].
  destruct (assoc k_request_method (rev (i_environ a))) as [m|]; [|discriminate].
  destruct (assoc k_raw_uri (rev (i_environ a))) as [u|]; [|discriminate].
  destruct (assoc k_server_protocol (rev (i_environ a))) as [p|]; [|discriminate].
  intros H. injection H as <-.
  assert (Sk : forall k, (forall t, k <> 123 :: t) -> forall base,
     assoc k (rev (map (fun kv => (wrap_key (fst kv) 101, snd kv)) (i_environ a)) ++
              rev (map (fun kv => (wrap_key (fst kv) 111, VStr (snd kv))) (i_resp_headers a)) ++
              rev (map (fun kv => (wrap_key (fst kv) 105, VStr (snd kv))) (i_req_headers a)) ++ base) = assoc k base).
  { intros k Hk base. rewrite assoc_skip_braces; [|apply (wrapped_brace fst snd)|exact Hk].
    rewrite assoc_skip_braces; [|apply (wrapped_brace fst (fun kv => VStr (snd kv)))|exact Hk].
    rewrite assoc_skip_braces; [|apply (wrapped_brace fst (fun kv => VStr (snd kv)))|exact Hk]. reflexivity. }
  split.
  - intros n Hn. unfold safe_lookup. rewrite !Sk by (intros t; discriminate). rewrite Hn. cbn.
    split; [unfold dec_Z|].
    + assert ((Z.of_N n <? 0)%Z = false) as -> by (apply Z.ltb_ge; lia). cbn. rewrite Z.abs_eq by lia. rewrite N2Z.id. reflexivity.
    + (* dec n consists of digits: escaping leaves them alone *)
      clear. pose proof (dec_all_digits n) as Hd. induction (dec n) as [|c t IH]; [reflexivity|].
      cbn in Hd. apply andb_prop in Hd as [H1 H2]. cbn [escape flat_map]. fold (escape t). rewrite (IH H2).
      unfold is_digit in H1. apply andb_prop in H1 as [A B]. apply N.leb_le in A, B.
      assert (E : esc_char c = [c]).
      { assert (Hc : In c [48;49;50;51;52;53;54;55;56;57]) by (cbn; lia).
        cbn in Hc. repeat (destruct Hc as [<-|Hc]; [reflexivity|]). contradiction. }
      rewrite E. reflexivity.
  - intros s w Hs Hw. unfold safe_lookup. rewrite Sk by (intros t; discriminate). rewrite Hs in Est. rewrite Hw in Est.
    cbn in Est. injection Est as <-. cbn. reflexivity.
Qed.
