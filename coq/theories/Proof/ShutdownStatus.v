(* C04 - exit status and "no exception leaves run()" for both readings of reap_workers (Gen/GenArbiter.v
   reap_guards_halting): with the `not self._stopping` test a boot failure reaped once stop() has begun is an ordinary
   death; without it HaltServer is raised again and escapes from halt(). *)
From Coq Require Import List ZArith Bool Lia.
From GV Require Import Gen.GenArbiter Gen.GenShutdown Model.Shutdown Proof.ShutdownBase Proof.ShutdownMaster Proof.ShutdownTerm.
Import ListNotations.
Local Open Scope Z_scope.
Local Opaque reap_guards_halting.

(* ---- the repaired reading: once stop() has begun the handler never raises -------------------------------------- *)
Lemma raises_cur : forall a b, cur a = cur b -> raises a = raises b.
Proof. intros a b E. unfold raises, stopping. rewrite E. reflexivity. Qed.

Lemma reap_quiet : forall fuel s s' r, raises s = false -> reap fuel s = (s', r) -> r = None.
Proof.
  induction fuel; simpl; intros s s' r Q H; [inversion H; auto|].
  destruct (first_zombie (kids s)) as [[z rest]|]; [|inversion H; auto].
  simpl in H. destruct (reexec s =? k_pid z).
  - eapply IHfuel; [|exact H]. rewrite <- Q. apply raises_cur. reflexivity.
  - assert (Q1 : raises (set_kids s rest) = false) by (rewrite <- Q; apply raises_cur; reflexivity).
    rewrite Q1, !andb_false_r in H. eapply IHfuel; [|exact H]. rewrite <- Q. apply raises_cur. reflexivity.
Qed.

Lemma reap_some_raises : forall fuel s s' code, reap fuel s = (s', Some code) -> raises s = true.
Proof.
  intros fuel s s' code H. destruct (raises s) eqn:Q; [reflexivity|]. apply (reap_quiet _ _ _ _ Q) in H. discriminate H.
Qed.

(* the master is inside a stop() whose exit status will be 0, or has exited with 0 *)
Definition stop_ok (p : pc) : Prop := match p with PDispatch _ => False | _ => pc_status p end.

Lemma stop_ok_in_stop : forall p, stop_ok p -> master_gone p = false -> in_stop p = true.
Proof. destruct p; simpl; intros H G; try contradiction; try discriminate; auto. Qed.

Lemma enter_stop_ok : forall c s g a, aok a -> stop_ok (cur (enter_stop c s g a)).
Proof. intros. unfold enter_stop. simpl. exact H. Qed.

Lemma kill_next_ok : forall c s l sg k, aok (kcont_after k) -> stop_ok (cur (kill_next c s l sg k)).
Proof.
  intros c s l sg k A. unfold kill_next. destruct l; [|exact A].
  destruct k; simpl in *; [exact A|].
  destruct A as [A|A]; subst a; simpl.
  - unfold aok. auto.
  - destruct (pidconf c); simpl; reflexivity.
Qed.

Lemma master_stop_ok : forall c s, stop_ok (cur s) -> stop_ok (cur (master c s)).
Proof.
  intros c s H. unfold master. destruct (cur s) eqn:E; simpl in H; try contradiction.
  - apply kill_next_ok; exact H.
  - destruct todo; apply kill_next_ok; exact H.
  - destruct (negb (Nat.eqb (length (ws s)) 0) && (wall s <? limit)); simpl; [exact H|]. exact H.
  - simpl. exact H.
  - rewrite E. simpl. exact H.
Qed.

Lemma dispatch_stop_ok : forall c s sg, cur s = PDispatch sg -> stop_signal sg = true -> stop_ok (cur (master c s)).
Proof.
  intros c s sg E S. unfold master. rewrite E. unfold stop_signal in S.
  destruct (sg =? SIGTERM). { apply enter_stop_ok. unfold aok. auto. }
  simpl in S. rewrite S. apply enter_stop_ok. unfold aok. auto.
Qed.

Lemma chld_stop_ok : reap_guards_halting = true -> forall c s, stop_ok (cur s) -> stop_ok (cur (chld c s)).
Proof.
  intros G c s H. unfold chld. destruct (master_gone (cur s)) eqn:MG; [exact H|].
  destruct (reap (S (length (kids s))) s) as [s1 r] eqn:R.
  assert (Q : raises s = false). { unfold raises, stopping. rewrite G, (stop_ok_in_stop _ H MG). reflexivity. }
  rewrite (reap_quiet _ _ _ _ Q R). rewrite (reap_cur _ _ _ _ R). exact H.
Qed.

Lemma step_stop_ok : reap_guards_halting = true -> forall c s l, stop_ok (cur s) -> stop_ok (cur (step c s l)).
Proof.
  intros G c s l H. destruct l; simpl.
  - apply master_stop_ok; exact H.
  - apply chld_stop_ok; assumption.
  - exact H.
  - destruct (0 <=? dt); exact H.
Qed.

Lemma run_stop_ok : reap_guards_halting = true -> forall c ls s, stop_ok (cur s) -> stop_ok (cur (run c s ls)).
Proof. intros G c. induction ls; simpl; intros s H; [exact H|]. apply IHls. apply step_stop_ok; assumption. Qed.

(* once the signal has been dispatched: status 0 and no escaping exception, whatever dies and is reaped afterwards *)
Theorem dispatched_exit_status : reap_guards_halting = true -> forall c s0 sg ls,
  cur s0 = PDispatch sg -> stop_signal sg = true ->
  let s := run c s0 (Master :: ls) in
  cur s <> PCrashed /\ (forall status, cur s = PExited status -> status = 0).
Proof.
  intros G c s0 sg ls E S s. pose proof (run_stop_ok G c ls _ (dispatch_stop_ok c s0 sg E S)) as H.
  change (run c (master c s0) ls) with s in H. split.
  - intro Q. rewrite Q in H. exact H.
  - intros status Q. rewrite Q in H. exact H.
Qed.

(* ---- before the dispatch -------------------------------------------------------------------------------------------- *)
Lemma pre_dispatch_split : forall ls,
  exists rest, ls = pre_dispatch ls ++ rest /\ (rest = [] \/ exists t, rest = Master :: t).
Proof.
  induction ls as [|l t IH]; [exists []; auto|].
  destruct IH as [rest [A B]].
  destruct l; simpl; try (exists rest; split; [f_equal; exact A|exact B]).
  exists (Master :: t). split; [reflexivity|right; exists t; reflexivity].
Qed.

Lemma pre_dispatch_no_master : forall ls, Forall (fun l => is_master l = false) (pre_dispatch ls).
Proof. induction ls as [|l t IH]; simpl; [constructor|]. destruct l; try (constructor; [reflexivity|exact IH]). constructor. Qed.

Lemma run_app : forall c a b s, run c s (a ++ b) = run c (run c s a) b.
Proof. intros. unfold run. apply fold_left_app. Qed.

(* without a boot failure and without a master step the master stays where it is *)
Lemma idle_cur : forall c ls s, Inv3 s -> (forall p status, In (Exit p status) ls -> boot_code status = false) ->
  Forall (fun l => is_master l = false) ls -> cur (run c s ls) = cur s.
Proof.
  induction ls as [|l t IH]; simpl; intros s I H NM; [reflexivity|].
  inversion NM; subst.
  assert (I1 : Inv3 (step c s l)).
  { apply (exit_status_zero c [l] s I). intros p status [Q|[]]. apply (H p status). left. exact Q. }
  rewrite IH; auto.
  - destruct l; simpl in *; try discriminate; auto.
    + unfold chld. destruct (master_gone (cur s)); [reflexivity|].
      destruct (reap (S (length (kids s))) s) as [s1 r] eqn:R. destruct I as [K _].
      destruct (reap_no_boot _ _ _ _ K R) as [Rn _]. subst r. apply (reap_cur _ _ _ _ R).
    + destruct (0 <=? dt); reflexivity.
  - intros p status Q. apply (H p status). right. exact Q.
Qed.

(* the corollary used by Props/C04.v, for the reading that describes the tree: no boot failure inside [boot_scope] *)
Corollary shutdown_exit_status : forall c s0 sg ls,
  cur s0 = PDispatch sg -> stop_signal sg = true -> no_boot_failure s0 (boot_scope ls) ->
  cur (run c s0 ls) <> PCrashed /\ (forall status, cur (run c s0 ls) = PExited status -> status = 0).
Proof.
  intros c s0 sg ls E S B. unfold boot_scope in B. destruct reap_guards_halting eqn:G.
  - destruct B as [K H]. destruct (pre_dispatch_split ls) as [rest [A R]].
    assert (I0 : Inv3 s0). { split; [exact K|]. rewrite E. exact I. }
    pose proof (idle_cur c (pre_dispatch ls) s0 I0 H (pre_dispatch_no_master ls)) as C.
    rewrite A, run_app. destruct R as [->|[t ->]].
    + simpl. rewrite C, E. split; [discriminate|]. intros status Q. discriminate.
    + assert (E1 : cur (run c s0 (pre_dispatch ls)) = PDispatch sg) by (rewrite C; exact E).
      exact (dispatched_exit_status G c _ sg t E1 S).
  - exact (graceful_exit_status c s0 sg ls E B).
Qed.

(* ---- no exception leaves run() (repaired reading), the crash (reading before the repair) -------------------------------- *)
Lemma final_in_stop : forall p, in_final_stop p = true -> in_stop p = true.
Proof. destruct p; simpl; intros; try discriminate; reflexivity. Qed.

Lemma master_never_crashes : forall c s, cur s <> PCrashed -> cur (master c s) <> PCrashed.
Proof.
  intros c s NC. unfold master. destruct (cur s) eqn:E; try (rewrite E; exact NC).
  - destruct (sg =? SIGTERM); [unfold enter_stop; simpl; discriminate|].
    destruct ((sg =? SIGINT) || (sg =? SIGQUIT)); [unfold enter_stop; simpl; discriminate|]. rewrite E. discriminate.
  - unfold kill_next. destruct (ws s); [|simpl; discriminate]. destruct k; [simpl; discriminate|].
    destruct a; simpl; [unfold enter_stop; simpl; discriminate|]. destruct (pidconf c); simpl; discriminate.
  - assert (X : forall s' l, cur (kill_next c s' l sg k) <> PCrashed).
    { intros s' l. unfold kill_next. destruct l; [|simpl; discriminate]. destruct k; [simpl; discriminate|].
      destruct a; simpl; [unfold enter_stop; simpl; discriminate|]. destruct (pidconf c); simpl; discriminate. }
    destruct todo; apply X.
  - destruct (negb (Nat.eqb (length (ws s)) 0) && (wall s <? limit)); simpl; discriminate.
  - simpl. discriminate.
Qed.

Theorem crash_only_without_guard : forall c s l, cur s <> PCrashed -> cur (step c s l) = PCrashed ->
  l = Chld /\ in_final_stop (cur s) = true /\ reap_guards_halting = false.
Proof.
  intros c s l NC C. destruct l; simpl in C.
  - exfalso. exact (master_never_crashes c s NC C).
  - split; [reflexivity|]. unfold chld in C. destruct (master_gone (cur s)); [contradiction|].
    destruct (reap (S (length (kids s))) s) as [s1 [code|]] eqn:R.
    + rewrite (reap_cur _ _ _ _ R) in C. destruct (in_final_stop (cur s)) eqn:F.
      * split; [reflexivity|]. pose proof (reap_some_raises _ _ _ _ R) as Q. unfold raises, stopping in Q.
        rewrite (final_in_stop _ F), andb_true_r in Q. destruct reap_guards_halting; [discriminate Q|reflexivity].
      * exfalso. unfold enter_stop in C. simpl in C. discriminate.
    + rewrite (reap_cur _ _ _ _ R) in C. contradiction.
  - contradiction.
  - destruct (0 <=? dt); contradiction.
Qed.

Theorem never_crashes : reap_guards_halting = true -> forall c ls s, cur s <> PCrashed -> cur (run c s ls) <> PCrashed.
Proof.
  intros G c. induction ls as [|l t IH]; simpl; intros s NC; [exact NC|].
  apply IH. intro C. destruct (crash_only_without_guard c s l NC C) as [_ [_ N]]. congruence.
Qed.

(* TERM, then a tracked worker exits with code 3 while stop() waits *)
Definition w_cfg : cfg := mkCfg 256 false false true.
Definition w_s0 : st :=
  mkSt [100; 101] [mkLsn 0 true] 0 0 (PDispatch SIGTERM) [mkKid 100 false 0 [] false; mkKid 101 false 0 [] false] 512 [0] true [] 0 0 0.
Definition w_ls : list label := [Master; Master; Master; Master; Exit 100 768; Chld].

Lemma w_outcome :
  let s := run w_cfg w_s0 w_ls in
  if reap_guards_halting
  then ws s = [101] /\ cur (run w_cfg s (repeat Master 30)) = PExited 0 /\ pidfs (run w_cfg s (repeat Master 30)) = false
  else cur s = PCrashed /\ pidfs s = true.
Proof. vm_compute. repeat split. Qed.

(* the statement of Props/C04.v: the reading that describes the tree under test *)
Theorem halt_reentry :
  if reap_guards_halting
  then forall c ls s, cur s <> PCrashed -> cur (run c s ls) <> PCrashed
  else cur w_s0 = PDispatch SIGTERM /\ cur (run w_cfg w_s0 w_ls) = PCrashed /\ pidfs (run w_cfg w_s0 w_ls) = true.
Proof.
  pose proof never_crashes as A. pose proof w_outcome as B. cbv zeta in B.
  destruct reap_guards_halting; [exact (A eq_refl)|]. destruct B as [B1 B2]. split; [reflexivity|]. split; assumption.
Qed.
