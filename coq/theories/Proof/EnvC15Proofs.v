(* Proofs for C15: the environ built by the model equals the reference mapping of Spec/EnvSpec.v. *)
From Coq Require Import List NArith ZArith Bool Lia Arith.
From GV Require Import Base.Enc Base.Dec Gen.GenEnv Model.EnvStr Model.Environ Spec.EnvSpec Proof.EnvStrProofs Proof.EnvC08Proofs.
Import ListNotations.
Local Open Scope N_scope.

(* ---- urlsplit on a clean target ------------------------------------------------------------------------------ *)
(* table lemmas: everything urlsplit strips or deletes is refused in a request-target *)
Lemma lstripped_are_bad : forallb (fun c => nmem c target_badchars) urlsplit_lstripped = true.
Proof. vm_compute. reflexivity. Qed.
Lemma removed_are_bad : forallb (fun c => nmem c target_badchars) urlsplit_removed = true.
Proof. vm_compute. reflexivity. Qed.

Definition clean (u : bytes) : Prop := existsb (fun ch => nmem ch target_badchars) u = false.

Lemma clean_cons x u : clean (x :: u) -> nmem x target_badchars = false /\ clean u.
Proof. unfold clean. cbn [existsb]. intros H. apply orb_false_iff in H. exact H. Qed.

Lemma not_bad_not_in x t :
  forallb (fun c => nmem c target_badchars) t = true -> nmem x target_badchars = false -> nmem x t = false.
Proof.
  intros Ht Hx. destruct (nmem x t) eqn:E; [|reflexivity].
  apply nmem_In in E. rewrite forallb_forall in Ht. rewrite (Ht _ E) in Hx. discriminate.
Qed.

Lemma lstrip_clean u : clean u -> lstrip (fun c => nmem c urlsplit_lstripped) u = u.
Proof.
  destruct u as [|x u]; [reflexivity|]. intros H. apply clean_cons in H as [H _]. cbn [lstrip].
  rewrite (not_bad_not_in x _ lstripped_are_bad H). reflexivity.
Qed.
Lemma filter_clean u : clean u -> filter (fun c => negb (nmem c urlsplit_removed)) u = u.
Proof.
  induction u as [|x u IH]; [reflexivity|]. intros H. apply clean_cons in H as [H1 H2]. cbn [filter].
  rewrite (not_bad_not_in x _ removed_are_bad H1). cbn [negb]. f_equal. apply IH. exact H2.
Qed.

(* the scheme test of urlsplit against the grammar  ALPHA *( ALPHA / DIGIT / "+" / "-" / "." ) ":" *)
Definition stopf (c : N) : bool := negb (sp_scheme_char c).

Lemma span_before : forall before after,
  nmem 58 before = false ->
  let (s, r) := span stopf (before ++ 58 :: after) in
  if forallb (fun ch => nmem ch scheme_chars) before then s = before /\ r = 58 :: after
  else exists c r', r = c :: r' /\ (c =? 58) = false.
Proof.
  induction before as [|x b IH]; intros after H.
  - cbn. split; reflexivity.
  - unfold nmem in H. cbn [existsb] in H. apply orb_false_iff in H as [H1 H2].
    cbn [app span forallb]. unfold stopf at 1. rewrite <- scheme_chars_tab.
    destruct (nmem x scheme_chars) eqn:Ex; cbn [negb andb].
    + specialize (IH after H2). destruct (span stopf (b ++ 58 :: after)) as [s r].
      destruct (forallb (fun ch => nmem ch scheme_chars) b).
      * destruct IH as [-> ->]. split; reflexivity.
      * exact IH.
    + exists x, (b ++ 58 :: after). split; [reflexivity|]. rewrite N.eqb_sym. exact H1.
Qed.

Lemma span_no_colon : forall u, nmem 58 u = false ->
  match snd (span stopf u) with c :: _ => (c =? 58) = false | [] => True end.
Proof.
  induction u as [|x u IH]; intros H; [exact I|].
  unfold nmem in H. cbn [existsb] in H. apply orb_false_iff in H as [H1 H2]. cbn [span].
  destruct (stopf x).
  - cbn. rewrite N.eqb_sym. exact H1.
  - specialize (IH H2). destruct (span stopf u) as [s r]. exact IH.
Qed.

(* what urlsplit's scheme step leaves of the url *)
Definition after_scheme (url : bytes) : bytes :=
  match cut1 58 url with
  | (c0 :: before, Some after) =>
      if is_ascii_alpha c0 && forallb (fun ch => nmem ch scheme_chars) (c0 :: before) then after else url
  | _ => url
  end.

Lemma after_scheme_spec url :
  after_scheme url = match sp_scheme url with Some (_, r) => r | None => url end.
Proof.
  unfold after_scheme, sp_scheme. fold stopf.
  pose proof (cut1_span 58 url) as Hc.
  destruct (cut1 58 url) as [before [after|]].
  - destruct Hc as (_ & Hu & Hn). subst url.
    pose proof (span_before before after Hn) as Hs.
    destruct (span stopf (before ++ 58 :: after)) as [s r].
    destruct before as [|c0 b].
    + cbn in Hs. destruct Hs as [-> ->]. reflexivity.
    + destruct (forallb (fun ch => nmem ch scheme_chars) (c0 :: b)) eqn:Ef.
      * destruct Hs as [-> ->]. unfold is_ascii_alpha. rewrite is_ascii_alpha_tab, andb_true_r.
        rewrite N.eqb_refl, andb_true_r. destruct (sp_alpha c0); reflexivity.
      * rewrite andb_false_r. destruct Hs as (c & r' & -> & Hc58).
        destruct s; [reflexivity|]. rewrite Hc58, andb_false_r. reflexivity.
  - destruct Hc as (_ & Hu & Hn). subst before.
    pose proof (span_no_colon url Hn) as Hs.
    destruct (span stopf url) as [s r]. cbn in Hs.
    destruct s as [|c0 s']; [destruct url as [|u0 url']; reflexivity|].
    destruct r as [|c r']; [destruct url as [|u0 [|u1 url']]; reflexivity|].
    rewrite Hs, andb_false_r. destruct url as [|u0 [|u1 url']]; reflexivity.
Qed.

(* _splitnetloc(url, 2) is the scan for the first "/", "?" or "#" *)
Definition upd3 (i : nat) (body : bytes) (n : nat) : nat :=
  let upd (d : nat) (c : N) := match find_from c body i with Some w => Nat.min d w | None => d end in
  upd (upd (upd n 47) 63) 35.

Lemma find_from_ge : forall c l i w, find_from c l i = Some w -> (i <= w)%nat.
Proof.
  induction l as [|x t IH]; intros i w H; cbn in H; [discriminate|].
  destruct (x =? c); [inversion H; lia|]. apply IH in H. lia.
Qed.

Lemma upd3_ge i body n : (i <= n)%nat -> (i <= upd3 i body n)%nat.
Proof.
  intros H. unfold upd3.
  destruct (find_from 47 body i) eqn:E1; destruct (find_from 63 body i) eqn:E2; destruct (find_from 35 body i) eqn:E3;
    try apply find_from_ge in E1; try apply find_from_ge in E2; try apply find_from_ge in E3; lia.
Qed.

Lemma upd3_span : forall body i n,
  n = (i + length body)%nat -> upd3 i body n = (i + length (fst (span sp_delim body)))%nat.
Proof.
  induction body as [|x t IH]; intros i n Hn.
  - cbn. subst. reflexivity.
  - cbn [span]. destruct (sp_delim x) eqn:Ed.
    + cbn [fst length]. unfold upd3. cbn [find_from].
      assert (Hle : (i <= n)%nat) by lia.
      unfold sp_delim in Ed.
      destruct (x =? 47) eqn:E47; [|destruct (x =? 63) eqn:E63; [|destruct (x =? 35) eqn:E35; [|discriminate]]].
      * apply N.eqb_eq in E47. subst x. change (47 =? 63) with false. change (47 =? 35) with false. cbv iota.
        destruct (find_from 63 t (S i)) eqn:F2; destruct (find_from 35 t (S i)) eqn:F3;
          try apply find_from_ge in F2; try apply find_from_ge in F3; lia.
      * apply N.eqb_eq in E63. subst x. change (63 =? 35) with false. cbv iota.
        destruct (find_from 47 t (S i)) eqn:F1; destruct (find_from 35 t (S i)) eqn:F3;
          try apply find_from_ge in F1; try apply find_from_ge in F3; lia.
      * apply N.eqb_eq in E35. subst x. cbv iota.
        destruct (find_from 47 t (S i)) eqn:F1; destruct (find_from 63 t (S i)) eqn:F2;
          try apply find_from_ge in F1; try apply find_from_ge in F2; lia.
    + unfold sp_delim in Ed. apply orb_false_iff in Ed as [Ed E35]. apply orb_false_iff in Ed as [E47 E63].
      specialize (IH (S i) n ltac:(cbn in Hn; lia)).
      destruct (span sp_delim t) as [a b] eqn:Es. cbn [fst length] in *.
      unfold upd3 in *. cbn [find_from]. rewrite E47, E63, E35. rewrite IH. lia.
Qed.

Lemma splitnetloc_span url :
  starts_with [47; 47] url = true -> splitnetloc url = span sp_delim (skipn 2 url).
Proof.
  intros H. apply starts_with_app in H. cbn in H.
  destruct url as [|a [|b body]]; try discriminate. cbn [skipn] in *.
  assert (Hu : splitnetloc (a :: b :: body) =
               (firstn (upd3 2 body (S (S (length body))) - 2) body,
                skipn (upd3 2 body (S (S (length body)))) (a :: b :: body))) by reflexivity.
  rewrite Hu. clear Hu.
  rewrite (upd3_span body 2 (S (S (length body)))) by reflexivity.
  set (k := length (fst (span sp_delim body))).
  replace (2 + k - 2)%nat with k by lia. cbn [Nat.add skipn].
  symmetry. apply span_firstn_skipn.
Qed.

(* the netloc / path / query / fragment that urlsplit computes once the scheme is gone *)
Lemma sp_pqf_cons c r :
  (c =? 63) = false -> (c =? 35) = false ->
  sp_pqf (c :: r) = let '(p, q, f) := sp_pqf r in (c :: p, q, f).
Proof.
  intros H1 H2. unfold sp_pqf. cbn [span]. rewrite H1, H2. cbn [orb].
  destruct (span (fun c0 => (c0 =? 63) || (c0 =? 35)) r) as [p r1].
  destruct (match r1 with [] => ([], []) | c0 :: q => if c0 =? 63 then span (N.eqb 35) q else ([], r1) end) as [q r2].
  reflexivity.
Qed.

Section World.
Variables (inet4_ok inet6_ok : bytes -> inet_res) (netloc_ok : bytes -> bool).
Notation urlsplit := (urlsplit netloc_ok).
Notation split_request_uri := (split_request_uri netloc_ok).
Notation parse_request_line := (parse_request_line netloc_ok).
Notation parse_request := (parse_request inet4_ok inet6_ok netloc_ok).
Notation parse_after_line := (parse_after_line netloc_ok).

Lemma urlsplit_clean url r :
  clean url -> urlsplit url = Some r ->
  let url3 := after_scheme url in
  let '(netloc, url4) := if starts_with [47; 47] url3 then span sp_delim (skipn 2 url3) else ([], url3) in
  u_netloc r = netloc /\ (u_path r, u_query r, u_fragment r) = sp_pqf url4.
Proof.
  intros Hc. unfold urlsplit. rewrite (lstrip_clean url Hc), (filter_clean url Hc).
  assert (Hs : snd (scheme_split url) = after_scheme url).
  { unfold scheme_split, after_scheme. destruct (cut1 58 url) as [[|c0 before] [after|]]; try reflexivity.
    destruct (is_ascii_alpha c0 && forallb (fun ch => nmem ch scheme_chars) (c0 :: before)); reflexivity. }
  destruct (scheme_split url) as [scheme url3]. cbn in Hs. subst url3.
  set (url3 := after_scheme url). unfold netloc_split.
  destruct (starts_with [47; 47] url3) eqn:E.
  - rewrite (splitnetloc_span url3 E).
    destruct (span sp_delim (skipn 2 url3)) as [netloc url4].
    pose proof (pqf_equiv url4) as Hp.
    destruct (cut_or_all 35 url4) as [u5 f]. destruct (cut_or_all 63 u5) as [u6 q].
    destruct (match netloc with [] => true | _ :: _ => netloc_ok netloc end); [|discriminate].
    intros H. inversion H. subst r. cbn. split; [reflexivity|]. symmetry. exact Hp.
  - pose proof (pqf_equiv url3) as Hp.
    destruct (cut_or_all 35 url3) as [u5 f]. destruct (cut_or_all 63 u5) as [u6 q].
    intros H. inversion H. subst r. cbn. split; [reflexivity|]. symmetry. exact Hp.
Qed.

Lemma sp_scheme_dot uri : sp_scheme (46 :: uri) = None.
Proof.
  unfold sp_scheme. cbn [span]. change (negb (sp_scheme_char 46)) with false. cbv iota.
  destruct (span (fun c => negb (sp_scheme_char c)) uri) as [a b]. destruct b; reflexivity.
Qed.

Lemma split_request_uri_spec uri parts :
  clean uri -> split_request_uri uri = Some parts ->
  u_path parts = t_path (sp_target uri) /\ u_query parts = t_query (sp_target uri) /\
  u_fragment parts = t_fragment (sp_target uri) /\
  u_netloc parts = match t_authority (sp_target uri) with Some a => a | None => [] end.
Proof.
  intros Hc. unfold Environ.split_request_uri, sp_target.
  destruct (starts_with [47; 47] uri) eqn:Ess.
  - destruct (urlsplit (46 :: uri)) as [r|] eqn:Eu; [|discriminate].
    intros H. inversion H. subst parts. cbn [u_path u_query u_fragment u_netloc].
    assert (Hc' : clean (46 :: uri)).
    { unfold clean in *. cbn [existsb]. rewrite Hc. reflexivity. }
    pose proof (urlsplit_clean _ _ Hc' Eu) as Hk. cbv zeta in Hk.
    rewrite after_scheme_spec, sp_scheme_dot in Hk.
    change (starts_with [47; 47] (46 :: uri)) with false in Hk. cbv iota in Hk.
    destruct Hk as [Hn Hp]. rewrite sp_pqf_cons in Hp by reflexivity.
    destruct (sp_pqf uri) as [[p q] f]. inversion Hp as [[H1 H2 H3]]. rewrite H1. cbn.
    repeat split; try reflexivity. exact Hn.
  - intros Eu. pose proof (urlsplit_clean _ _ Hc Eu) as Hk. cbv zeta in Hk.
    rewrite after_scheme_spec in Hk.
    destruct (sp_scheme uri) as [[s r]|].
    + destruct (starts_with [47; 47] r).
      * destruct (span sp_delim (skipn 2 r)) as [a r2]. destruct Hk as [Hn Hp].
        destruct (sp_pqf r2) as [[p q] f]. inversion Hp. cbn. repeat split; try reflexivity. exact Hn.
      * destruct Hk as [Hn Hp]. destruct (sp_pqf r) as [[p q] f]. inversion Hp. cbn. repeat split; try reflexivity. exact Hn.
    + rewrite Ess in Hk. destruct Hk as [Hn Hp]. destruct (sp_pqf uri) as [[p q] f]. inversion Hp. cbn.
      repeat split; try reflexivity. exact Hn.
Qed.

(* ---- the request line ------------------------------------------------------------------------------------------ *)
Lemma version_digit_dec : forallb (fun a => beq (dec (a - 48)) [a]) version_digits = true.
Proof. vm_compute. reflexivity. Qed.

Lemma parse_version_text c v ver : parse_version c v = Some ver -> protocol_text ver = v.
Proof.
  unfold parse_version. destruct (starts_with s_HTTPslash v) eqn:E; [|discriminate].
  apply starts_with_app in E. change (length s_HTTPslash) with 5%nat in E.
  destruct (skipn 5 v) as [|a [|dot [|b [|x t]]]]; try discriminate.
  destruct (nmem a version_digits && (dot =? 46) && nmem b version_digits) eqn:Ed; [|discriminate].
  apply andb_prop in Ed as [Ed Hb]. apply andb_prop in Ed as [Ha Hd].
  destruct ((fst (a - 48, b - 48) =? 1) || permit_unconventional_http_version c); [|discriminate].
  intros H. inversion H. subst ver. unfold protocol_text. cbn [fst snd].
  pose proof version_digit_dec as T. rewrite forallb_forall in T.
  apply nmem_In in Ha, Hb. apply T in Ha, Hb. apply beq_eq in Ha, Hb. rewrite Ha, Hb.
  apply N.eqb_eq in Hd. subst dot. rewrite E. reflexivity.
Qed.

Lemma parse_request_line_spec c line q :
  casefold_http_method c = false ->
  parse_request_line c line = inr q ->
  sp_request_line line = Some (q_method q, q_uri q, protocol_text (q_version q)) /\
  split_request_uri (q_uri q) = Some (q_parts q) /\ clean (q_uri q).
Proof.
  intros Hcf. unfold Environ.parse_request_line, sp_request_line.
  pose proof (cut1_span 32 line) as H1. destruct (cut1 32 line) as [m [r1|]]; [|discriminate].
  destruct H1 as (H1 & _ & _). rewrite H1.
  pose proof (cut1_span 32 r1) as H2. destruct (cut1 32 r1) as [u [v|]]; [|discriminate].
  destruct H2 as (H2 & _ & _). rewrite H2.
  destruct (negb (permit_unconventional_http_method c) && existsb (fun ch => nmem ch method_badchars) m); [discriminate|].
  destruct (negb (permit_unconventional_http_method c) && negb ((3 <=? blen m) && (blen m <=? 20))); [discriminate|].
  destruct (negb (is_token m)); [discriminate|]. rewrite Hcf.
  destruct u as [|u0 u']; [discriminate|].
  destruct (existsb (fun ch => nmem ch target_badchars) (u0 :: u')) eqn:Eb; [discriminate|].
  destruct (split_request_uri (u0 :: u')) as [parts|] eqn:Es; [|discriminate].
  destruct (parse_version c v) as [ver|] eqn:Ev; [|discriminate].
  intros H. inversion H. subst q. cbn [q_method q_uri q_version q_parts]. rewrite (parse_version_text c v ver Ev).
  repeat split; try assumption.
Qed.

End World.

(* ---- header fields ----------------------------------------------------------------------------------------------- *)
Definition kept (c : cfg) (fwd : list bytes) (un : bytes) : bool :=
  match underscore_policy c fwd un with Keep => true | _ => false end.
Definition fwd_in_force (c : cfg) (p : peer) : list bytes := if trusted_fwd c p then forwarder_headers c else [].
Definition stored (c : cfg) (fwd : list bytes) (fs : list (bytes * bytes)) : list (bytes * bytes) :=
  map (fun f => (sp_upper (fst f), snd f)) (filter (fun f => kept c fwd (sp_upper (fst f))) fs).

Lemma is_token_chars s : is_token s = true -> forallb (fun ch => nmem ch token_chars) s = true.
Proof. destruct s; [discriminate|]. exact (fun H => H). Qed.

Lemma parse_groups_spec c sec fwd lf fsz :
  strip_header_spaces c = false -> permit_obsolete_folding c = false ->
  forall gs nf sh https hs h,
  parse_groups c sec fwd lf fsz gs nf sh https = HOk hs h ->
  Forall (fun g => snd g = []) gs /\
  exists fs, sp_fields (map fst gs) = Some fs /\ hs = stored c fwd fs.
Proof.
  intros Hs Hf. induction gs as [|[curr conts] rest IH]; intros nf sh https hs h H.
  - cbn in H. inversion H. split; [constructor|]. exists []. split; reflexivity.
  - apply parse_groups_cons in H as (v0 & sh' & https' & Hv & Hn & Htok & Hc & _ & _ & Hr).
    assert (conts = []).
    { destruct conts; [reflexivity|]. rewrite Hc in Hf by discriminate. discriminate. }
    subst conts. unfold g_name, g_value in Hr. rewrite Hs, Hv in *. cbn [map join] in Hr.
    pose proof (cut1_span 58 curr) as Hsp. destruct (cut1 58 curr) as [name0 o]. cbn [fst snd] in *. subst o.
    destruct Hsp as (Hsp & _ & _).
    rewrite (upper_token name0 (is_token_chars _ Htok)) in Hr.
    assert (Hfield : sp_field curr = Some (name0, strip is_sp_tab v0)).
    { unfold sp_field. rewrite Hsp. reflexivity. }
    destruct Hr as [[Hk (hs' & -> & Hr)]|[Hk Hr]]; apply IH in Hr as (Hall & fs & Hfs & ->).
    + split; [constructor; [reflexivity|exact Hall]|].
      exists ((name0, strip is_sp_tab v0) :: fs). cbn [map fst sp_fields]. rewrite Hfield, Hfs.
      split; [reflexivity|]. unfold stored. cbn [filter fst snd].
      replace (kept c fwd (sp_upper name0)) with true by (unfold kept; rewrite Hk; reflexivity). reflexivity.
    + split; [constructor; [reflexivity|exact Hall]|].
      exists ((name0, strip is_sp_tab v0) :: fs). cbn [map fst sp_fields]. rewrite Hfield, Hfs.
      split; [reflexivity|]. unfold stored. cbn [filter fst snd].
      replace (kept c fwd (sp_upper name0)) with false by (unfold kept; rewrite Hk; reflexivity). reflexivity.
Qed.

Lemma grp_flat : forall lines,
  let (c, gs) := grp lines in lines = c ++ concat (map (fun g => fst g :: snd g) gs).
Proof.
  induction lines as [|l rest IH]; [reflexivity|]. cbn [grp].
  destruct (grp rest) as [c gs]. destruct (starts_ws l).
  - cbn. rewrite IH. reflexivity.
  - cbn. rewrite IH. reflexivity.
Qed.

Lemma concat_singletons (gs : list (bytes * list bytes)) :
  Forall (fun g => snd g = []) gs -> concat (map (fun g => fst g :: snd g) gs) = map fst gs.
Proof.
  induction 1 as [|[a b] gs Hb _ IH]; [reflexivity|]. cbn in *. subst b. rewrite IH. reflexivity.
Qed.

Lemma groups_single lines :
  Forall (fun g => snd g = []) (groups lines) -> map fst (groups lines) = lines.
Proof.
  unfold groups. destruct lines as [|l rest]; [reflexivity|].
  pose proof (grp_flat rest) as Hf. destruct (grp rest) as [c gs].
  intros H. inversion H as [|x y Hc Hg Hxy]. cbn in Hc. rewrite Hc in Hf. cbn [app] in Hf.
  cbn [map fst]. rewrite <- (concat_singletons gs Hg). rewrite <- Hf. reflexivity.
Qed.

Lemma parse_headers_spec c p lines hs h :
  strip_header_spaces c = false -> permit_obsolete_folding c = false ->
  parse_headers c p lines = HOk hs h ->
  exists fs, sp_fields lines = Some fs /\ hs = stored c (fwd_in_force c p) fs.
Proof.
  intros Hs Hf H. unfold parse_headers in H.
  apply (parse_groups_spec c _ _ _ _ Hs Hf) in H as (Hall & fs & Hfs & ->).
  rewrite (groups_single lines Hall) in Hfs. exists fs. split; [exact Hfs|reflexivity].
Qed.

(* ---- the header loop of wsgi.create ------------------------------------------------------------------------------ *)
Definition vals (k : bytes) (hs : list (bytes * bytes)) : list bytes :=
  map snd (filter (fun h => beq (env_key (fst h)) k) hs).

(* repeated assignment `environ[key] = "%s,%s" % (environ[key], value)` *)
Fixpoint acc_join (o : option bytes) (vs : list bytes) : option bytes :=
  match vs with
  | [] => o
  | v :: t => acc_join (Some (match o with Some old => old ++ [44] ++ v | None => v end)) t
  end.
(* repeated assignment `environ[key] = value` *)
Fixpoint acc_set (o : option bytes) (vs : list bytes) : option bytes :=
  match vs with [] => o | v :: t => acc_set (Some v) t end.

Lemma acc_join_some : forall vs old, acc_join (Some old) vs = Some (join [44] (old :: vs)).
Proof.
  induction vs as [|v t IH]; intros old; [reflexivity|]. cbn [acc_join]. rewrite IH.
  f_equal. destruct t as [|x t'].
  - reflexivity.
  - rewrite (join_cons [44] (old ++ [44] ++ v)) by discriminate.
    rewrite (join_cons [44] old) by discriminate. rewrite (join_cons [44] v) by discriminate.
    rewrite <- !app_assoc. reflexivity.
Qed.
Lemma acc_join_none vs : acc_join None vs = match vs with [] => None | _ => Some (join [44] vs) end.
Proof. destruct vs as [|v t]; [reflexivity|]. cbn [acc_join]. apply acc_join_some. Qed.

Lemma http_key_prefix n : starts_with s_HTTP_ (http_key n) = true.
Proof. apply starts_with_prefix. Qed.

Lemma env_key_ct n : beq (env_key n) s_CONTENT_TYPE = beq n s_CONTENT_TYPE_h.
Proof.
  unfold env_key. destruct (beq n s_CONTENT_TYPE_h); [reflexivity|].
  destruct (beq n s_CONTENT_LENGTH_h); [reflexivity|].
  apply (starts_with_neq s_HTTP_); [apply http_key_prefix|reflexivity].
Qed.
Lemma env_key_cl n : beq (env_key n) s_CONTENT_LENGTH = beq n s_CONTENT_LENGTH_h.
Proof.
  unfold env_key. destruct (beq n s_CONTENT_TYPE_h) eqn:E.
  - apply beq_eq in E. subst. reflexivity.
  - destruct (beq n s_CONTENT_LENGTH_h); [reflexivity|].
    apply (starts_with_neq s_HTTP_); [apply http_key_prefix|reflexivity].
Qed.
Lemma env_key_http n k :
  starts_with s_HTTP_ k = true -> beq (env_key n) k = true ->
  beq n s_CONTENT_TYPE_h = false /\ beq n s_CONTENT_LENGTH_h = false /\ k = http_key n.
Proof.
  intros Hk H. apply beq_eq in H. subst k. unfold env_key in *.
  destruct (beq n s_CONTENT_TYPE_h); [discriminate|]. destruct (beq n s_CONTENT_LENGTH_h); [discriminate|].
  repeat split.
Qed.

Lemma hdr_step_get hon k e sn n v :
  env_get k (fst (hdr_step hon (e, sn) (n, v))) =
  if beq (env_key n) k
  then Some (if beq n s_CONTENT_LENGTH_h || (beq n s_CONTENT_TYPE_h && negb content_type_joins) then v
             else match env_get k e with Some old => old ++ [44] ++ v | None => v end)
  else env_get k e.
Proof.
  unfold hdr_step, env_key.
  destruct (beq n s_CONTENT_TYPE_h) eqn:Ect.
  - cbn [fst]. rewrite env_get_set, beq_sym.
    destruct (beq s_CONTENT_TYPE k) eqn:E; [|reflexivity]. apply beq_eq in E. subst k.
    apply beq_eq in Ect. subst n. change (beq s_CONTENT_TYPE_h s_CONTENT_LENGTH_h) with false.
    cbn [orb andb]. destruct content_type_joins; reflexivity.
  - destruct (beq n s_CONTENT_LENGTH_h); [cbn [fst orb]; rewrite env_get_set, beq_sym; reflexivity|].
    cbn [fst orb andb]. rewrite env_get_set, beq_sym.
    destruct (beq (http_key n) k) eqn:E; [|reflexivity]. apply beq_eq in E. subst k. reflexivity.
Qed.

Lemma fold_get_http hon : forall hs e sn k,
  starts_with s_HTTP_ k = true ->
  env_get k (fst (fold_left (hdr_step hon) hs (e, sn))) = acc_join (env_get k e) (vals k hs).
Proof.
  induction hs as [|[n v] hs IH]; intros e sn k Hk; [reflexivity|].
  cbn [fold_left]. pose proof (hdr_step_get hon k e sn n v) as G.
  destruct (hdr_step hon (e, sn) (n, v)) as [e' sn']. cbn [fst] in G. rewrite (IH e' sn' k Hk), G.
  unfold vals. cbn [filter fst]. destruct (beq (env_key n) k) eqn:Ek; [|reflexivity].
  destruct (env_key_http n k Hk Ek) as (-> & -> & _). reflexivity.
Qed.

Lemma fold_get_ct hon : forall hs e sn,
  env_get s_CONTENT_TYPE (fst (fold_left (hdr_step hon) hs (e, sn))) =
  (if content_type_joins then acc_join else acc_set) (env_get s_CONTENT_TYPE e) (vals s_CONTENT_TYPE hs).
Proof.
  induction hs as [|[n v] hs IH]; intros e sn; [destruct content_type_joins; reflexivity|].
  cbn [fold_left]. pose proof (hdr_step_get hon s_CONTENT_TYPE e sn n v) as G.
  destruct (hdr_step hon (e, sn) (n, v)) as [e' sn']. cbn [fst] in G. rewrite (IH e' sn'), G.
  unfold vals. cbn [filter fst]. destruct (beq (env_key n) s_CONTENT_TYPE) eqn:Ek; [|reflexivity].
  rewrite env_key_ct in Ek. rewrite Ek. apply beq_eq in Ek. subst n.
  change (beq s_CONTENT_TYPE_h s_CONTENT_LENGTH_h) with false. cbn [orb andb map snd].
  destruct content_type_joins; reflexivity.
Qed.
Lemma fold_get_cl hon : forall hs e sn,
  env_get s_CONTENT_LENGTH (fst (fold_left (hdr_step hon) hs (e, sn))) =
  acc_set (env_get s_CONTENT_LENGTH e) (vals s_CONTENT_LENGTH hs).
Proof.
  induction hs as [|[n v] hs IH]; intros e sn; [reflexivity|].
  cbn [fold_left]. pose proof (hdr_step_get hon s_CONTENT_LENGTH e sn n v) as G.
  destruct (hdr_step hon (e, sn) (n, v)) as [e' sn']. cbn [fst] in G. rewrite (IH e' sn'), G.
  unfold vals. cbn [filter fst]. destruct (beq (env_key n) s_CONTENT_LENGTH) eqn:Ek; [|reflexivity].
  rewrite env_key_cl in Ek. rewrite Ek. reflexivity.
Qed.

(* keys the loop never writes *)
Lemma fold_get_other hon : forall hs e sn k,
  starts_with s_HTTP_ k = false -> beq k s_CONTENT_TYPE = false -> beq k s_CONTENT_LENGTH = false ->
  env_get k (fst (fold_left (hdr_step hon) hs (e, sn))) = env_get k e.
Proof.
  induction hs as [|[n v] hs IH]; intros e sn k H1 H2 H3; [reflexivity|].
  cbn [fold_left]. pose proof (hdr_step_get hon k e sn n v) as G.
  destruct (hdr_step hon (e, sn) (n, v)) as [e' sn']. cbn [fst] in G. rewrite (IH e' sn' k H1 H2 H3), G.
  destruct (beq (env_key n) k) eqn:Ek; [|reflexivity]. exfalso.
  apply beq_eq in Ek. subst k. unfold env_key in *.
  destruct (beq n s_CONTENT_TYPE_h); [discriminate|]. destruct (beq n s_CONTENT_LENGTH_h); [discriminate|].
  rewrite http_key_prefix in H1. discriminate.
Qed.

Lemma acc_set_some : forall vs x,
  acc_set (Some x) vs = Some (match acc_set None vs with Some y => y | None => x end).
Proof.
  induction vs as [|y t IHt]; intros x; [reflexivity|]. cbn [acc_set]. rewrite !(IHt y). reflexivity.
Qed.

(* the script name after the loop: the last SCRIPT_NAME header, else the configured one *)
Lemma fold_script hon : forall hs e sn,
  snd (fold_left (hdr_step hon) hs (e, sn)) =
  if hon then match acc_set None (map snd (filter (fun h => beq (fst h) s_SCRIPT_NAME) hs)) with Some v => v | None => sn end
  else sn.
Proof.
  induction hs as [|[n v] hs IH]; intros e sn; [destruct hon; reflexivity|].
  cbn [fold_left filter fst].
  assert (Hs : snd (hdr_step hon (e, sn) (n, v)) = if beq n s_SCRIPT_NAME && hon then v else sn).
  { unfold hdr_step. destruct (beq n s_CONTENT_TYPE_h) eqn:E1.
    - apply beq_eq in E1. subst n. reflexivity.
    - destruct (beq n s_CONTENT_LENGTH_h) eqn:E2; [apply beq_eq in E2; subst n; reflexivity|]. reflexivity. }
  destruct (hdr_step hon (e, sn) (n, v)) as [e' sn']. cbn [snd] in Hs. subst sn'. rewrite IH.
  destruct hon; [|rewrite andb_false_r; reflexivity]. rewrite andb_true_r.
  destruct (beq n s_SCRIPT_NAME); cbn [map snd acc_set].
  - rewrite acc_set_some. destruct (acc_set None _); reflexivity.
  - reflexivity.
Qed.

(* the stored headers of an accepted head, read through the reference mapping *)
Lemma env_key_upper n : env_key (sp_upper n) = sp_env_key n.
Proof. reflexivity. Qed.

Lemma vals_stored c fwd fs k : vals k (stored c fwd fs) = sp_values (kept c fwd) fs k.
Proof.
  unfold vals, stored, sp_values. induction fs as [|[n v] fs IH]; [reflexivity|].
  cbn [filter fst snd]. destruct (kept c fwd (sp_upper n)); cbn [andb map filter fst snd].
  - rewrite env_key_upper. destruct (beq (sp_env_key n) k); cbn [map snd]; rewrite IH; reflexivity.
  - exact IH.
Qed.

(* Content-Length occurs at most once among the stored headers of an accepted request *)
Lemma body_scan_cl : forall hs ch cl mc res,
  body_scan hs ch cl mc = inr res ->
  (length (vals s_CONTENT_LENGTH hs) + (match cl with Some _ => 1 | None => 0 end) <= 1)%nat.
Proof.
  induction hs as [|[n v] hs IH]; intros ch cl mc res H.
  - cbn. destruct cl; lia.
  - cbn [body_scan] in H. unfold vals. cbn [filter fst]. rewrite env_key_cl.
    destruct (beq n s_CONTENT_LENGTH_h).
    + destruct cl; [discriminate|]. apply IH in H. cbn [map length]. unfold vals in H. lia.
    + destruct (beq n s_TRANSFER_ENCODING).
      * destruct (te_scan (split_c 44 v) ch mc) as [e|[ch' mc']]; [discriminate|]. apply IH in H. exact H.
      * apply IH in H. exact H.
Qed.

Lemma acc_set_le1 vs : (length vs <= 1)%nat -> acc_set None vs = match vs with [] => None | _ => Some (join [44] vs) end.
Proof. destruct vs as [|v [|w t]]; cbn; try reflexivity. lia. Qed.

(* ---- C15: the environ of an accepted request is the reference mapping of its bytes ---------------------------- *)
Definition safe_cfg (c : cfg) : bool :=
  negb (strip_header_spaces c) && negb (permit_obsolete_folding c) && negb (casefold_http_method c).

Lemma stored_no_script c fwd fs :
  (forall f, In f fs -> kept c fwd (sp_upper (fst f)) = true -> sp_upper (fst f) <> s_SCRIPT_NAME) ->
  filter (fun h => beq (fst h) s_SCRIPT_NAME) (stored c fwd fs) = [].
Proof.
  unfold stored. induction fs as [|[n v] fs IH]; intros H; [reflexivity|].
  cbn [filter fst]. destruct (kept c fwd (sp_upper n)) eqn:Ek.
  - cbn [map filter fst snd]. replace (beq (sp_upper n) s_SCRIPT_NAME) with false.
    + apply IH. intros f Hf. apply H. right. exact Hf.
    + symmetry. apply beq_neq. apply (H (n, v)); [left; reflexivity|exact Ek].
  - apply IH. intros f Hf. apply H. right. exact Hf.
Qed.

Section Final.
Variables (inet4_ok inet6_ok : bytes -> inet_res) (netloc_ok : bytes -> bool).
Notation parse_request := (parse_request inet4_ok inet6_ok netloc_ok).

Theorem environ_faithful_proof : forall c p reqno data r rest i e,
  safe_cfg c = true ->
  parse_request c p reqno data = PAccept r rest ->
  wsgi_create c (set_ppi r i) p = inr e ->
  exists rq,
    sp_request (http_part c reqno data) = Some rq /\
    let present := kept c (fwd_in_force c p) in
    let tg := sp_target (s_target rq) in
    env_get s_REQUEST_METHOD e = Some (s_method rq) /\
    env_get s_RAW_URI e = Some (s_target rq) /\
    env_get s_SERVER_PROTOCOL e = Some (s_protocol rq) /\
    env_get s_QUERY_STRING e = Some (t_query tg) /\
    (forall k, starts_with s_HTTP_ k = true -> env_get k e = sp_var present (s_fields rq) k) /\
    env_get s_CONTENT_LENGTH e = sp_var present (s_fields rq) s_CONTENT_LENGTH /\
    (content_type_joins = true \/ (length (sp_values present (s_fields rq) s_CONTENT_TYPE) <= 1)%nat ->
       env_get s_CONTENT_TYPE e = sp_var present (s_fields rq) s_CONTENT_TYPE) /\
    exists sn pinfo,
      env_get s_SCRIPT_NAME e = Some sn /\ env_get s_PATH_INFO e = Some pinfo /\
      ((forall f, In f (s_fields rq) -> present (sp_upper (fst f)) = true -> sp_upper (fst f) <> s_SCRIPT_NAME) ->
         sn = os_script_name c) /\
      (nmem 37 sn = false -> sn ++ pinfo = pct_decode (t_path tg)).
Proof.
  intros c p reqno data r rest i e Hsafe Hp Hw.
  unfold safe_cfg in Hsafe. apply andb_prop in Hsafe as [Hsafe Hcf]. apply andb_prop in Hsafe as [Hss Hof].
  apply negb_true_iff in Hcf, Hss, Hof.
  apply parse_request_inv in Hp as (line & rbuf & Hl & Ha & _ & _).
  apply parse_after_line_inv in Ha as (q & lines & Hq & Hhl & Hm & Hu & Hpath & Hquery & Hver & _ & Hh & (bk & mc & Hbody & _ & _)).
  destruct (parse_request_line_spec netloc_ok c line q Hcf Hq) as (Hrl & Hsplit & Hclean).
  destruct (split_request_uri_spec netloc_ok _ _ Hclean Hsplit) as (Tp & Tq & _ & _).
  assert (Hfs : exists fs, sp_fields lines = Some fs /\ r_headers r = stored c (fwd_in_force c p) fs).
  { destruct Hh as [(-> & -> & _)|(_ & Hh)].
    - exists []. split; reflexivity.
    - apply (parse_headers_spec c p lines _ _ Hss Hof) in Hh. exact Hh. }
  destruct Hfs as (fs & Hfs & Hst).
  exists {| s_method := q_method q; s_target := q_uri q; s_protocol := protocol_text (q_version q); s_fields := fs |}.
  split.
  { unfold sp_request. rewrite Hl, Hrl. unfold header_lines in Hhl.
    destruct (starts_with [13; 10] rbuf).
    - inversion Hhl. subst lines. cbn in Hfs. inversion Hfs. reflexivity.
    - destruct (cut_crlf2 rbuf) as [[block rest']|]; [|discriminate].
      inversion Hhl. subst lines. rewrite Hfs. reflexivity. }
  cbn [s_method s_target s_protocol s_fields]. cbv zeta.
  apply wsgi_create_tail in Hw as (env1 & sn & pi & Hf & Hpa & _ & Hsn & Hpi & _ & _ & Hother).
  cbn [set_ppi r_headers r_https r_path r_method r_query r_uri r_version] in *.
  assert (He1 : env1 = fst (fold_left (hdr_step (honours_script_name c p)) (r_headers r)
            ([(s_REQUEST_METHOD, r_method r); (s_QUERY_STRING, r_query r); (s_RAW_URI, r_uri r);
              (s_SERVER_PROTOCOL, protocol_text (r_version r))], os_script_name c))) by (rewrite Hf; reflexivity).
  assert (Hsn1 : sn = snd (fold_left (hdr_step (honours_script_name c p)) (r_headers r)
            ([(s_REQUEST_METHOD, r_method r); (s_QUERY_STRING, r_query r); (s_RAW_URI, r_uri r);
              (s_SERVER_PROTOCOL, protocol_text (r_version r))], os_script_name c))) by (rewrite Hf; reflexivity).
  assert (Hinit : forall k, beq k s_url_scheme = false -> beq k s_REMOTE_ADDR = false -> beq k s_REMOTE_PORT = false ->
            beq k s_PATH_INFO = false -> beq k s_SCRIPT_NAME = false -> beq k s_PROXY_PROTOCOL = false ->
            beq k s_PROXY_ADDR = false -> beq k s_PROXY_PORT = false ->
            starts_with s_HTTP_ k = false -> beq k s_CONTENT_TYPE = false -> beq k s_CONTENT_LENGTH = false ->
            env_get k e = env_get k [(s_REQUEST_METHOD, r_method r); (s_QUERY_STRING, r_query r); (s_RAW_URI, r_uri r);
                                     (s_SERVER_PROTOCOL, protocol_text (r_version r))]).
  { intros k K1 K2 K3 K4 K5 K6 K7 K8 K9 K10 K11. rewrite (Hother k K1 K2 K3 K4 K5 K6 K7 K8), He1.
    apply fold_get_other; assumption. }
  split; [rewrite Hinit by reflexivity; cbn; rewrite Hm; reflexivity|].
  split; [rewrite Hinit by reflexivity; cbn; rewrite Hu; reflexivity|].
  split; [rewrite Hinit by reflexivity; cbn; rewrite Hver; reflexivity|].
  split; [rewrite Hinit by reflexivity; cbn; rewrite Hquery, Tq; reflexivity|].
  assert (Hnone : forall k, starts_with s_HTTP_ k = true \/ k = s_CONTENT_LENGTH \/ k = s_CONTENT_TYPE ->
            env_get k [(s_REQUEST_METHOD, r_method r); (s_QUERY_STRING, r_query r); (s_RAW_URI, r_uri r);
                       (s_SERVER_PROTOCOL, protocol_text (r_version r))] = None).
  { intros k [Hk|[->| ->]]; [|reflexivity|reflexivity].
    unfold env_get. cbn [assoc_b].
    rewrite (starts_with_neq s_HTTP_ k s_REQUEST_METHOD Hk eq_refl), (starts_with_neq s_HTTP_ k s_QUERY_STRING Hk eq_refl),
            (starts_with_neq s_HTTP_ k s_RAW_URI Hk eq_refl), (starts_with_neq s_HTTP_ k s_SERVER_PROTOCOL Hk eq_refl).
    reflexivity. }
  split.
  { intros k Hk.
    rewrite (Hother k) by (apply (starts_with_neq s_HTTP_ k _ Hk); reflexivity).
    rewrite He1, (fold_get_http _ _ _ _ k Hk), (Hnone k (or_introl Hk)), Hst, vals_stored, acc_join_none.
    unfold sp_var. destruct (sp_values _ fs k); reflexivity. }
  assert (Hcl : (length (vals s_CONTENT_LENGTH (r_headers r)) <= 1)%nat).
  { unfold set_body_reader in Hbody.
    destruct (body_scan (r_headers r) false None false) as [ex|res] eqn:Eb; [discriminate|].
    apply body_scan_cl in Eb. lia. }
  split.
  { rewrite (Hother s_CONTENT_LENGTH) by reflexivity.
    rewrite He1, fold_get_cl, (Hnone s_CONTENT_LENGTH) by auto. rewrite acc_set_le1 by exact Hcl.
    rewrite Hst, vals_stored. unfold sp_var. destruct (sp_values _ fs s_CONTENT_LENGTH); reflexivity. }
  split.
  { intros Hct. rewrite (Hother s_CONTENT_TYPE) by reflexivity.
    rewrite He1, fold_get_ct, (Hnone s_CONTENT_TYPE) by auto. rewrite Hst, vals_stored.
    destruct content_type_joins.
    - rewrite acc_join_none. unfold sp_var. destruct (sp_values _ fs s_CONTENT_TYPE); reflexivity.
    - destruct Hct as [Hct|Hct]; [discriminate|].
      rewrite acc_set_le1 by exact Hct. unfold sp_var. destruct (sp_values _ fs s_CONTENT_TYPE); reflexivity. }
  exists sn, (unquote pi). split; [exact Hsn|]. split; [exact Hpi|]. split.
  - intros Hno. rewrite Hsn1, fold_script, Hst, (stored_no_script _ _ _ Hno). destruct (honours_script_name c p); reflexivity.
  - intros H37. rewrite unquote_is_pct_decode, <- Tp, <- Hpath, Hpa. symmetry. apply pct_decode_app_nopct. exact H37.
Qed.

End Final.
