(* Lemmas about the text primitives of Model/RespStr.v and the line / field / number readers of
   Spec/RespSpec.v: equality tests, strip, first_word, int() on digit strings, "%X" round trip,
   reading back a formatted line / field / header block / chunked body. *)
From Coq Require Import List NArith ZArith Bool Lia Arith.
From GV Require Import Base.Enc Base.Dec Model.RespStr Spec.RespSpec.
Import ListNotations.
Local Open Scope N_scope.

(* ---- list equality --------------------------------------------------------------------------- *)
Lemma list_eqb_eq a b : list_eqb a b = true <-> a = b.
Proof.
  revert b. induction a as [|x a IH]; destruct b as [|y b]; cbn.
  - tauto.
  - split; discriminate.
  - split; discriminate.
  - rewrite andb_true_iff, N.eqb_eq, IH. split; [intros [-> ->]; reflexivity|intros H; inversion H; auto].
Qed.
Lemma list_eqb_refl a : list_eqb a a = true.
Proof. apply list_eqb_eq. reflexivity. Qed.
Lemma list_eqb_neq a b : list_eqb a b = false <-> a <> b.
Proof. rewrite <- list_eqb_eq. destruct (list_eqb a b); split; congruence. Qed.
Lemma beq_is_list_eqb a b : beq a b = list_eqb a b.
Proof. reflexivity. Qed.
Lemma beq_eq a b : beq a b = true <-> a = b.
Proof. rewrite beq_is_list_eqb. apply list_eqb_eq. Qed.

Lemma memN_In c l : memN c l = true <-> In c l.
Proof.
  unfold memN. rewrite existsb_exists. split.
  - intros [x [Hx He]]. apply N.eqb_eq in He. subst. exact Hx.
  - intros H. exists c. split; [exact H|apply N.eqb_refl].
Qed.
Lemma mem_str_In s l : mem_str s l = true <-> In s l.
Proof.
  unfold mem_str. rewrite existsb_exists. split.
  - intros [x [Hx He]]. apply list_eqb_eq in He. subst. exact Hx.
  - intros H. exists s. split; [exact H|apply list_eqb_refl].
Qed.

(* ---- the two lower-casing / stripping functions coincide -------------------------------------------- *)
Lemma lower_c_same c : RespSpec.lower_c c = RespStr.lower_c c.
Proof. reflexivity. Qed.
Lemma lower_same s : map RespSpec.lower_c s = lower s.
Proof. reflexivity. Qed.
Lemma is_ows_same c : is_ows c = is_sp_tab c.
Proof. reflexivity. Qed.
Lemma lstrip_same l : lstrip_ows l = lstrip_by is_sp_tab l.
Proof. induction l as [|c t IH]; cbn; [reflexivity|]. rewrite IH. reflexivity. Qed.
Lemma strip_same l : strip_ows l = strip_sp_tab l.
Proof. unfold strip_ows, strip_sp_tab, strip_by. rewrite !lstrip_same. reflexivity. Qed.

(* ---- strip ----------------------------------------------------------------------------------------- *)
Lemma lstrip_by_spec f l : exists p, l = p ++ lstrip_by f l /\ forallb f p = true /\
    (match lstrip_by f l with c :: _ => f c = false | [] => True end).
Proof.
  induction l as [|c t [p [H1 [H2 H3]]]]; cbn.
  - exists []. auto.
  - destruct (f c) eqn:E.
    + exists (c :: p). cbn. rewrite E, H2. split; [f_equal; exact H1|auto].
    + exists []. cbn. rewrite E. auto.
Qed.

Definition no_edge (f : N -> bool) (l : str) : Prop :=
  (match l with c :: _ => f c = false | [] => True end) /\ (match rev l with c :: _ => f c = false | [] => True end).

Lemma lstrip_by_id f l : (match l with c :: _ => f c = false | [] => True end) -> lstrip_by f l = l.
Proof. destruct l as [|c t]; cbn; [reflexivity|]. intros ->. reflexivity. Qed.

Lemma strip_by_id f l : no_edge f l -> strip_by f l = l.
Proof.
  intros [H1 H2]. unfold strip_by. rewrite (lstrip_by_id f l H1), (lstrip_by_id f (rev l) H2). apply rev_involutive.
Qed.

Lemma strip_by_no_edge f l : no_edge f (strip_by f l).
Proof.
  unfold strip_by.
  destruct (lstrip_by_spec f l) as [p [H1 [H2 H3]]].
  set (m := lstrip_by f l) in *.
  destruct (lstrip_by_spec f (rev m)) as [q [G1 [G2 G3]]].
  set (k := lstrip_by f (rev m)) in *.
  split.
  - (* first element of rev k: the last of k ... k is a suffix of rev m, so rev k is a prefix of m *)
    assert (Hm : m = rev k ++ rev q).
    { rewrite <- rev_app_distr, <- G1, rev_involutive. reflexivity. }
    destruct (rev k) as [|c t] eqn:E; [exact I|].
    rewrite Hm in H3. cbn in H3. exact H3.
  - rewrite rev_involutive. exact G3.
Qed.

Lemma strip_by_idem f l : strip_by f (strip_by f l) = strip_by f l.
Proof. apply strip_by_id, strip_by_no_edge. Qed.

Lemma lstrip_by_forallb (g : N -> bool) f l : forallb g l = true -> forallb g (lstrip_by f l) = true.
Proof.
  induction l as [|c t IH]; cbn; [auto|]. intros H. apply andb_prop in H as [Hc Ht].
  destruct (f c); [apply IH; exact Ht|]. cbn. rewrite Hc, Ht. reflexivity.
Qed.
Lemma forallb_rev' {A} (g : A -> bool) l : forallb g (rev l) = forallb g l.
Proof. induction l as [|x t IH]; cbn; [reflexivity|]. rewrite forallb_app, IH. cbn. rewrite andb_true_r. apply andb_comm. Qed.
Lemma strip_by_forallb (g : N -> bool) f l : forallb g l = true -> forallb g (strip_by f l) = true.
Proof.
  intros H. unfold strip_by. rewrite forallb_rev'. apply lstrip_by_forallb. rewrite forallb_rev'.
  apply lstrip_by_forallb. exact H.
Qed.

(* " " ++ v, read back by the field parser, is v when v has no leading / trailing SP, HTAB *)
Lemma strip_ows_sp v : no_edge is_sp_tab v -> strip_ows (32 :: v) = v.
Proof.
  intros Hv. rewrite strip_same. unfold strip_sp_tab, strip_by. cbn [lstrip_by].
  change (is_sp_tab 32) with true. cbn iota.
  fold (strip_by is_sp_tab v). apply strip_by_id. exact Hv.
Qed.

(* ---- digits ------------------------------------------------------------------------------------------ *)
Lemma is_digit_same c : RespSpec.is_digit c = Dec.is_digit c.
Proof. reflexivity. Qed.

Lemma dec_value_digits_from : forall l a, forallb Dec.is_digit l = true -> dec_value a l = digits_from a l.
Proof.
  induction l as [|c t IH]; intros a H; cbn in *; [reflexivity|].
  apply andb_prop in H as [Hc Ht]. rewrite is_digit_same, Hc. unfold digit_val. apply IH. exact Ht.
Qed.

Lemma digit_not_py_space c : Dec.is_digit c = true -> py_space c = false.
Proof.
  unfold Dec.is_digit, py_space. intros H. apply andb_prop in H as [H1 H2]. apply N.leb_le in H1, H2.
  repeat (apply orb_false_intro); try (apply andb_false_iff; (left; apply N.leb_gt; lia) || (right; apply N.leb_gt; lia));
    apply N.eqb_neq; lia.
Qed.

Lemma digits_no_edge l : forallb Dec.is_digit l = true -> no_edge py_space l.
Proof.
  intros H. split.
  - destruct l as [|c t]; [exact I|]. cbn in H. apply andb_prop in H as [Hc _]. apply digit_not_py_space. exact Hc.
  - rewrite <- forallb_rev' in H. destruct (rev l) as [|c t]; [exact I|]. cbn in H. apply andb_prop in H as [Hc _].
    apply digit_not_py_space. exact Hc.
Qed.

(* int("ddd") on a non-empty all-digit string *)
Lemma py_int_digits l : l <> [] -> forallb Dec.is_digit l = true ->
  py_int l = Some (Z.of_N (match digits_from 0 l with Some n => n | None => 0 end)) /\ digits_from 0 l <> None.
Proof.
  intros Hne Hd. unfold py_int. rewrite (strip_by_id py_space l (digits_no_edge l Hd)).
  destruct l as [|c t]; [congruence|].
  pose proof Hd as Hd'. cbn [forallb] in Hd'. apply andb_prop in Hd' as [Hc Ht].
  assert (c =? 43 = false /\ c =? 45 = false) as [-> ->].
  { unfold Dec.is_digit in Hc. apply andb_prop in Hc as [H1 H2]. apply N.leb_le in H1, H2. split; apply N.eqb_neq; lia. }
  unfold py_nat. rewrite Hc. rewrite digits_us_digits by exact Hd.
  assert (Hsome : exists n, digits_from 0 (c :: t) = Some n).
  { clear Hne Hc Ht. generalize 0. revert Hd. generalize (c :: t). induction l as [|x l IH]; intros Hd a; cbn; [eauto|].
    cbn in Hd. apply andb_prop in Hd as [Hx Hl]. rewrite Hx. apply IH. exact Hl. }
  destruct Hsome as [n Hn]. rewrite Hn. cbn. split; [reflexivity|discriminate].
Qed.

Lemma parse_dec_digits l : l <> [] -> forallb Dec.is_digit l = true -> parse_dec l = digits_from 0 l.
Proof. intros Hne Hd. unfold parse_dec. destruct l; [congruence|]. apply dec_value_digits_from. exact Hd. Qed.

(* ---- first_word ------------------------------------------------------------------------------------------ *)
Lemma first_word_3digits d1 d2 d3 rest :
  Dec.is_digit d1 = true -> Dec.is_digit d2 = true -> Dec.is_digit d3 = true ->
  first_word (d1 :: d2 :: d3 :: 32 :: rest) = Some [d1; d2; d3].
Proof.
  intros H1 H2 H3. unfold first_word. cbn [lstrip_by]. rewrite (digit_not_py_space d1 H1).
  cbn [take_word]. rewrite (digit_not_py_space d1 H1), (digit_not_py_space d2 H2), (digit_not_py_space d3 H3).
  change (py_space 32) with true. reflexivity.
Qed.

(* ---- "%X" round trip (DESIGN.md Appendix B.4) ------------------------------------------------------------ *)
Lemma hexval_digit d : d < 16 -> hexval (hexdigit d) = Some d.
Proof.
  intros H. unfold hexval, hexdigit.
  destruct (d <? 10) eqn:E.
  - apply N.ltb_lt in E.
    replace ((48 <=? 48 + d) && (48 + d <=? 57)) with true.
    + f_equal. lia.
    + symmetry. apply andb_true_intro. split; apply N.leb_le; lia.
  - apply N.ltb_ge in E.
    replace ((48 <=? 55 + d) && (55 + d <=? 57)) with false.
    + replace ((65 <=? 55 + d) && (55 + d <=? 70)) with true.
      * f_equal. lia.
      * symmetry. apply andb_true_intro. split; apply N.leb_le; lia.
    + symmetry. apply andb_false_iff. right. apply N.leb_gt. lia.
Qed.

Lemma size_div16 n : 16 <= n -> (N.to_nat (N.size (n / 16)) < N.to_nat (N.size n))%nat.
Proof.
  intros H. assert (Hs : N.size (n / 16) < N.size n).
  { rewrite (N.size_log2 n) by lia.
    destruct (N.eq_dec (n / 16) 0) as [E|E].
    - rewrite E. cbn. lia.
    - rewrite (N.size_log2 (n / 16)) by exact E. apply -> N.succ_lt_mono.
      change 16 with (2 ^ 4). rewrite <- N.shiftr_div_pow2, N.log2_shiftr.
      assert (4 <= N.log2 n) by (change 4 with (N.log2 16); apply N.log2_le_mono; exact H). lia. }
  lia.
Qed.

Lemma hex_aux_spec : forall fuel n acc a,
    (N.to_nat (N.size n) <= fuel)%nat ->
    exists k, hex_value a (hex_aux fuel n acc) = hex_value (a * 16 ^ k + n) acc.
Proof.
  induction fuel as [|f IH]; intros n acc a Hf.
  - assert (n = 0) by (destruct n; [reflexivity|cbn in Hf; lia]). subst. exists 1. cbn. f_equal; lia.
  - cbn [hex_aux]. destruct (n <? 16) eqn:E.
    + apply N.ltb_lt in E. exists 1. cbn [hex_value]. rewrite hexval_digit by lia. f_equal; lia.
    + apply N.ltb_ge in E. pose proof (size_div16 n E) as Hsz.
      destruct (IH (n / 16) (hexdigit (n mod 16) :: acc) a ltac:(lia)) as [k Hk].
      exists (N.succ k). rewrite Hk. cbn [hex_value].
      assert (Hm : n mod 16 < 16) by (apply N.mod_lt; lia). rewrite hexval_digit by exact Hm.
      f_equal. rewrite N.pow_succ_r'. pose proof (N.div_mod' n 16). nia.
Qed.

Lemma hex_aux_nonempty : forall fuel n acc, hex_aux fuel n acc <> [].
Proof.
  induction fuel as [|f IH]; intros n acc; cbn; [discriminate|]. destruct (n <? 16); [discriminate|apply IH].
Qed.

Theorem hex_roundtrip : forall n, parse_hex (hex_upper n) = Some n.
Proof.
  intros n. unfold parse_hex, hex_upper.
  destruct (hex_aux_spec (N.to_nat (N.size n)) n [] 0 (le_n _)) as [k Hk].
  destruct (hex_aux _ n []) eqn:E.
  - exfalso. eapply hex_aux_nonempty. exact E.
  - rewrite Hk. cbn. f_equal; lia.
Qed.

(* the hexadecimal text contains no CR, LF, NUL *)
Definition line_char (c : N) : bool := negb (c =? 13) && negb (c =? 10) && negb (c =? 0).

Lemma hexdigit_line_char d : d < 16 -> line_char (hexdigit d) = true.
Proof.
  intros H. unfold line_char, hexdigit. destruct (d <? 10) eqn:E; [apply N.ltb_lt in E|apply N.ltb_ge in E];
    repeat (apply andb_true_intro; split); apply negb_true_iff, N.eqb_neq; lia.
Qed.
Lemma hex_aux_line_char : forall fuel n acc, forallb line_char acc = true -> forallb line_char (hex_aux fuel n acc) = true.
Proof.
  induction fuel as [|f IH]; intros n acc H; cbn [hex_aux].
  - cbn [forallb]. rewrite H, hexdigit_line_char; [reflexivity|apply N.mod_lt; lia].
  - destruct (n <? 16) eqn:E.
    + apply N.ltb_lt in E. cbn [forallb]. rewrite H, hexdigit_line_char by exact E. reflexivity.
    + apply IH. cbn [forallb]. rewrite H, hexdigit_line_char; [reflexivity|apply N.mod_lt; lia].
Qed.
Lemma hex_upper_line_char n : forallb line_char (hex_upper n) = true.
Proof. apply hex_aux_line_char. reflexivity. Qed.

(* ---- reading back a line ------------------------------------------------------------------------------------ *)
Lemma read_line_app l rest : forallb line_char l = true -> read_line (l ++ 13 :: 10 :: rest) = Some (l, rest).
Proof.
  induction l as [|c t IH]; intros H.
  - reflexivity.
  - cbn [forallb] in H. apply andb_prop in H as [Hc Ht]. unfold line_char in Hc.
    apply andb_prop in Hc as [Hc H0]. apply andb_prop in Hc as [H13 H10].
    apply negb_true_iff in H13, H10, H0.
    cbn [app read_line]. rewrite H13, H10, H0. cbn. rewrite (IH Ht). reflexivity.
Qed.

Lemma read_line_crlf rest : read_line (13 :: 10 :: rest) = Some ([], rest).
Proof. reflexivity. Qed.

(* ---- reading back a field line --------------------------------------------------------------------------------- *)
Lemma tchar_not_colon c : is_tchar c = true -> c =? 58 = false.
Proof.
  intros H. destruct (c =? 58) eqn:E; [|reflexivity]. apply N.eqb_eq in E. subst. discriminate H.
Qed.

Lemma split_colon_app name rest : forallb is_tchar name = true -> split_colon (name ++ 58 :: rest) = Some (name, rest).
Proof.
  induction name as [|c t IH]; intros H; [reflexivity|].
  cbn [forallb] in H. apply andb_prop in H as [Hc Ht]. cbn [app split_colon].
  rewrite (tchar_not_colon c Hc), (IH Ht). reflexivity.
Qed.

Definition good_field (f : bytes * bytes) : Prop :=
  fst f <> [] /\ forallb is_tchar (fst f) = true /\ forallb is_field_char (snd f) = true /\ no_edge is_sp_tab (snd f).

Definition field_line (f : bytes * bytes) : bytes := fst f ++ [58; 32] ++ snd f.

Lemma parse_field_line f : good_field f -> parse_field (field_line f) = Some f.
Proof.
  destruct f as [n v]. intros [Hne [Ht [Hv He]]]. cbn [fst snd] in *. unfold parse_field, field_line. cbn [fst snd app].
  change (n ++ 58 :: 32 :: v) with (n ++ 58 :: (32 :: v)). rewrite (split_colon_app n (32 :: v) Ht).
  destruct n as [|c t]; [congruence|]. rewrite Ht. cbn [forallb]. change (is_field_char 32) with true. rewrite Hv. cbn [andb].
  rewrite (strip_ows_sp v He). reflexivity.
Qed.

Lemma tchar_line_char c : is_tchar c = true -> line_char c = true.
Proof.
  intros H. unfold line_char. repeat (apply andb_true_intro; split); apply negb_true_iff;
    (destruct (c =? _) eqn:E; [apply N.eqb_eq in E; subst; discriminate H|reflexivity]).
Qed.
Lemma field_char_line_char c : is_field_char c = true -> line_char c = true.
Proof.
  intros H. unfold line_char. repeat (apply andb_true_intro; split); apply negb_true_iff;
    (destruct (c =? _) eqn:E; [apply N.eqb_eq in E; subst; discriminate H|reflexivity]).
Qed.
Lemma forallb_impl {A} (f g : A -> bool) l : (forall x, f x = true -> g x = true) -> forallb f l = true -> forallb g l = true.
Proof. intros Hi. induction l as [|x t IH]; cbn; [auto|]. intros H. apply andb_prop in H as [Hx Ht]. rewrite (Hi x Hx), (IH Ht). reflexivity. Qed.

Lemma field_line_chars f : good_field f -> forallb line_char (field_line f) = true.
Proof.
  destruct f as [n v]. intros [_ [Ht [Hv _]]]. cbn [fst snd] in *. unfold field_line. cbn [fst snd].
  rewrite !forallb_app. rewrite (forallb_impl _ _ _ tchar_line_char Ht). cbn [forallb].
  rewrite (forallb_impl _ _ _ field_char_line_char Hv). reflexivity.
Qed.

Lemma field_line_nonempty f : good_field f -> field_line f <> [].
Proof. destruct f as [n v]. intros [Hne _]. cbn in *. unfold field_line. cbn. destruct n; [congruence|discriminate]. Qed.

(* the whole header block: field lines, then the empty line *)
Definition fields_bytes (flds : list (bytes * bytes)) : bytes := concat (map (fun f => field_line f ++ [13; 10]) flds).

Lemma read_fields_block : forall flds fuel rest, Forall good_field flds -> (length flds < fuel)%nat ->
  read_fields fuel (fields_bytes flds ++ 13 :: 10 :: rest) = Some (flds, rest).
Proof.
  induction flds as [|f t IH]; intros fuel rest HF Hfuel.
  - destruct fuel; [cbn in Hfuel; lia|]. reflexivity.
  - destruct fuel as [|fuel]; [cbn in Hfuel; lia|]. inversion HF as [|? ? Hf Ht]; subst.
    unfold fields_bytes. cbn [map concat]. rewrite <- !app_assoc. cbn [read_fields].
    change ([13; 10] ++ ?x) with (13 :: 10 :: x).
    rewrite read_line_app by (apply field_line_chars; exact Hf).
    pose proof (field_line_nonempty f Hf) as Hne.
    destruct (field_line f) as [|c l] eqn:E; [congruence|]. rewrite <- E. rewrite (parse_field_line f Hf).
    fold (fields_bytes t). rewrite IH; [reflexivity|exact Ht|cbn in Hfuel; lia].
Qed.

(* ---- take_exact ---------------------------------------------------------------------------------------------------- *)
Lemma take_exact_app data rest : take_exact (N.of_nat (length data)) (data ++ rest) = Some (data, rest).
Proof.
  unfold take_exact. rewrite Nat2N.id. rewrite app_length.
  replace (Nat.leb (length data) (length data + length rest)) with true by (symmetry; apply Nat.leb_le; lia).
  rewrite firstn_app, Nat.sub_diag, firstn_all, skipn_app, Nat.sub_diag, skipn_all. cbn. rewrite app_nil_r. reflexivity.
Qed.

(* ---- chunked body ---------------------------------------------------------------------------------------------------- *)
Definition chunk_enc (data : bytes) : bytes := hex_upper (N.of_nat (length data)) ++ [13; 10] ++ data ++ [13; 10].
Definition last_chunk : bytes := [48; 13; 10; 13; 10].

Lemma read_chunks_enc : forall cs fuel rest, Forall (fun c => c <> []) cs -> (length cs < fuel)%nat ->
  read_chunks fuel (concat (map chunk_enc cs) ++ last_chunk ++ rest) = Some (concat cs, rest).
Proof.
  induction cs as [|c t IH]; intros fuel rest HF Hfuel.
  - destruct fuel; [cbn in Hfuel; lia|]. reflexivity.
  - destruct fuel as [|fuel]; [cbn in Hfuel; lia|]. inversion HF as [|? ? Hc Ht]; subst.
    cbn [map concat]. unfold chunk_enc at 1. rewrite <- !app_assoc. cbn [read_chunks].
    change ([13; 10] ++ ?x) with (13 :: 10 :: x).
    rewrite read_line_app by apply hex_upper_line_char. rewrite hex_roundtrip.
    assert (Hnz : N.of_nat (length c) =? 0 = false). { apply N.eqb_neq. destruct c; [congruence|cbn; lia]. }
    rewrite Hnz. rewrite take_exact_app. cbn [app]. change ((13 =? 13) && (10 =? 10)) with true. cbn iota.
    rewrite IH; [reflexivity|exact Ht|cbn in Hfuel; lia].
Qed.

(* ---- raw head lines ---------------------------------------------------------------------------------------------------- *)
Lemma head_lines_block : forall lines fuel rest,
  Forall (fun l => l <> [] /\ forallb line_char l = true) lines -> (length lines < fuel)%nat ->
  head_lines fuel (concat (map (fun l => l ++ [13; 10]) lines) ++ 13 :: 10 :: rest) = Some (lines, rest).
Proof.
  induction lines as [|l t IH]; intros fuel rest HF Hfuel.
  - destruct fuel; [cbn in Hfuel; lia|]. reflexivity.
  - destruct fuel as [|fuel]; [cbn in Hfuel; lia|]. inversion HF as [|? ? [Hne Hl] Ht]; subst.
    cbn [map concat]. rewrite <- !app_assoc. cbn [head_lines].
    change ([13; 10] ++ ?x) with (13 :: 10 :: x).
    rewrite read_line_app by exact Hl.
    destruct l as [|c l']; [congruence|].
    rewrite IH; [reflexivity|exact Ht|cbn in Hfuel; lia].
Qed.
