(* The loops of Model/Parser.v run on explicit fuel.  This file shows that the fuel never decides anything:
   no Body operation, no drain and no request head answers EOutOfFuel, and the result of a whole connection
   does not depend on the fuel given to run_conn once it exceeds the number of bytes of the stream.  So the
   theorems about [run] (C06, C07, C01) are never true "because the model gave up". *)
From Coq Require Import List NArith ZArith Bool Lia Arith.
From GV Require Import Base.Bytes Base.Scan Base.PyStr Gen.GenParser Model.Parser Spec.IdealBody Spec.Rfc9112
     Proof.TakeDrop Proof.BodyIdeal Proof.BodySim Proof.LengthReader Proof.ParserHead Proof.ChunkedSteps
     Proof.ChunkedDecode Proof.ChunkedGrammar Proof.ParserRun Proof.ChunkedReader Proof.BodyFileThm
     Proof.HeadGrammar Proof.HeadSound Proof.EndToEnd.
Import ListNotations.
Local Open Scope N_scope.

(* ---- 1. over the ideal reader an operation can only raise the error the stream ends with ------------------ *)
Lemma takeN_cons_ne n l x d : takeN n l = x :: d -> l <> [].
Proof. intros H ->. rewrite takeN_nil in H. discriminate. Qed.

Lemma i_fill_err : forall fuel blk size buf rem t bb ss e,
    0 < blk -> (length rem < fuel)%nat ->
    body_fill i_rd blk fuel size buf (rem, t) = ((bb, ss), Some e) -> t = TErr e.
Proof.
  induction fuel as [|fuel IH]; intros blk size buf rem t bb ss e Hb Hf H; [lia|].
  cbn [body_fill] in H. destruct (size <=? blen buf); [discriminate|].
  unfold i_rd in H. cbn [fst snd] in H.
  assert (Hstep : forall dd, dd = takeN blk rem ->
            match dd with [] => ((buf, (dropN blk rem, t)), None)
                        | _ => body_fill i_rd blk fuel size (buf ++ dd) (dropN blk rem, t) end = ((bb, ss), Some e) -> t = TErr e).
  { intros dd Hdd Hm. destruct dd as [|x dd]; [discriminate|].
    symmetry in Hdd. pose proof (takeN_cons_ne _ _ _ _ Hdd) as Hne.
    pose proof (length_dropN_lt blk rem Hb Hne). eapply IH; [exact Hb| |exact Hm]. lia. }
  destruct t as [a tr|e0].
  - eapply Hstep; [reflexivity|exact H].
  - destruct (blk <=? blen rem); [eapply Hstep; [reflexivity|exact H]|]. congruence.
Qed.

Lemma i_rl_err : forall fuel blk size data acc rem t o bb e,
    0 < blk -> 0 < size -> (length rem < fuel)%nat ->
    readline_loop i_rd blk fuel size data acc (rem, t) = ((o, bb), Some e) -> t = TErr e.
Proof.
  induction fuel as [|fuel IH]; intros blk size data acc rem t o bb e Hb Hs Hf H; [lia|].
  cbn [readline_loop] in H. destruct (nl_cut size data) eqn:Ec; [|discriminate].
  assert (Hsz : blen data < size).
  { unfold nl_cut in Ec. destruct (find_char 10 (takeN size data)); [discriminate|].
    destruct (size <=? blen data) eqn:El; [apply N.leb_le in El; lia|apply N.leb_gt in El; exact El]. }
  set (m := N.min blk (size - blen data)) in *.
  assert (Hm : 0 < m) by (unfold m; lia).
  unfold i_rd in H. cbn [fst snd] in H.
  assert (Hstep : forall dd, dd = takeN m rem ->
            match dd with [] => ((acc ++ data, ([], (dropN m rem, t))), None)
                        | _ => readline_loop i_rd blk fuel (size - blen data) dd (acc ++ data) (dropN m rem, t) end = ((o, bb), Some e) -> t = TErr e).
  { intros dd Hdd Hr. destruct dd as [|x dd]; [discriminate|].
    symmetry in Hdd. pose proof (takeN_cons_ne _ _ _ _ Hdd) as Hne.
    pose proof (length_dropN_lt m rem Hm Hne). eapply IH; [exact Hb| | |exact Hr]; lia. }
  destruct t as [a tr|e0].
  - eapply Hstep; [reflexivity|exact H].
  - destruct (m <=? blen rem); [eapply Hstep; [reflexivity|exact H]|]. congruence.
Qed.

Lemma i_read_err blk size buf rem t e x : 0 < blk ->
    body_read_blk i_rd i_fuel blk size (buf, (rem, t)) = (inr e, x) -> t = TErr e.
Proof.
  intros Hb H. unfold body_read_blk in H. cbn [fst snd] in H.
  destruct (getsize size =? 0); [discriminate|]. destruct (getsize size <? blen buf); [discriminate|].
  destruct (body_fill i_rd blk (i_fuel (rem, t)) (getsize size) buf (rem, t)) as [[bb ss] [e'|]] eqn:Ef; [|discriminate].
  injection H as <- _. eapply i_fill_err; [exact Hb| |exact Ef]. unfold i_fuel. cbn. lia.
Qed.
Lemma i_readline_err blk size buf rem t e x : 0 < blk ->
    body_readline_blk i_rd i_fuel blk size (buf, (rem, t)) = (inr e, x) -> t = TErr e.
Proof.
  intros Hb H. unfold body_readline_blk in H. cbn [fst snd] in H.
  destruct (getsize size =? 0) eqn:E0; [discriminate|]. apply N.eqb_neq in E0.
  destruct (readline_loop i_rd blk (i_fuel (rem, t)) (getsize size) buf [] (rem, t)) as [[o bb] [e'|]] eqn:Ef; [|discriminate].
  injection H as <- _. eapply i_rl_err; [exact Hb| | |exact Ef]; [lia|unfold i_fuel; cbn; lia].
Qed.

Lemma i_do_call_err cl buf rem t e : fst (do_call i_rd i_fuel cl (buf, (rem, t))) = RExc e -> t = TErr e.
Proof.
  intros H. destruct cl as [sz|sz| |]; cbn [do_call] in H; unfold body_read, body_readline in H.
  - destruct (body_read_blk i_rd i_fuel 1024 sz (buf, (rem, t))) as [[d|e'] x] eqn:E; cbn [fst] in H; [discriminate|].
    injection H as ->. eapply i_read_err; [|exact E]. lia.
  - destruct (body_readline_blk i_rd i_fuel 1024 sz (buf, (rem, t))) as [[d|e'] x] eqn:E; cbn [fst] in H; [discriminate|].
    injection H as ->. eapply i_readline_err; [|exact E]. lia.
  - destruct (body_read_blk i_rd i_fuel 1024 None (buf, (rem, t))) as [[d|e'] x] eqn:E; cbn [fst] in H; [discriminate|].
    injection H as ->. eapply i_read_err; [|exact E]. lia.
  - destruct (body_readline_blk i_rd i_fuel 1024 None (buf, (rem, t))) as [[d|e'] x] eqn:E; cbn [fst] in H.
    + destruct d; discriminate.
    + injection H as ->. eapply i_readline_err; [|exact E]. lia.
Qed.

Lemma i_drain_err : forall fuel buf rem t e,
    (length (buf ++ rem) < fuel)%nat -> snd (drain i_rd i_fuel fuel (buf, (rem, t))) = Some e -> t = TErr e.
Proof.
  induction fuel as [|fuel IH]; intros buf rem t e Hf H; [lia|]. cbn [drain] in H. unfold body_read in H.
  destruct (body_read_blk i_rd i_fuel 1024 (Some 8192%Z) (buf, (rem, t))) as [[d|e'] [b' [r' t']]] eqn:E.
  - destruct d as [|x d]; [discriminate|].
    destruct (i_read_shrinks 1024 _ _ _ _ _ _ _ _ ltac:(lia) E) as [-> Hs].
    eapply IH; [|exact H].
    assert (length (b' ++ r') < length (buf ++ rem))%nat; [|lia].
    rewrite <- Hs. rewrite (app_length (x :: d)). cbn [length]. lia.
  - cbn [snd] in H. injection H as ->. eapply i_read_err; [|exact E]. lia.
Qed.


(* the ideal reader never changes what the stream ends with *)
Lemma i_rd_term n s : snd (snd (i_rd n s)) = snd s.
Proof. destruct s as [rem t]. unfold i_rd. cbn [fst snd]. destruct t; [reflexivity|]. destruct (n <=? blen rem); reflexivity. Qed.
Lemma i_fill_term : forall fuel blk size buf s, snd (snd (fst (body_fill i_rd blk fuel size buf s))) = snd s.
Proof.
  induction fuel as [|fuel IH]; intros blk size buf s; cbn [body_fill]; [reflexivity|].
  destruct (size <=? blen buf); [reflexivity|].
  pose proof (i_rd_term blk s) as H. destruct (i_rd blk s) as [[d|e] s1]; cbn [snd] in H; [|exact H].
  destruct d as [|x d]; [exact H|]. rewrite IH. exact H.
Qed.
Lemma i_rl_term : forall fuel blk size data acc s, snd (snd (snd (fst (readline_loop i_rd blk fuel size data acc s)))) = snd s.
Proof.
  induction fuel as [|fuel IH]; intros blk size data acc s; cbn [readline_loop]; [reflexivity|].
  destruct (nl_cut size data); [|reflexivity].
  pose proof (i_rd_term (N.min blk (size - blen data)) s) as H.
  destruct (i_rd (N.min blk (size - blen data)) s) as [[d|e] s1]; cbn [snd] in H; [|exact H].
  destruct d as [|x d]; [exact H|]. rewrite IH. exact H.
Qed.
Lemma i_read_term blk size b s : snd (snd (snd (body_read_blk i_rd i_fuel blk size (b, s)))) = snd s.
Proof.
  unfold body_read_blk. cbn [fst snd]. destruct (getsize size =? 0); [reflexivity|].
  destruct (getsize size <? blen b); [reflexivity|].
  pose proof (i_fill_term (i_fuel s) blk (getsize size) b s) as H.
  destruct (body_fill i_rd blk (i_fuel s) (getsize size) b s) as [[bb ss] [e|]]; exact H.
Qed.
Lemma i_readline_term blk size b s : snd (snd (snd (body_readline_blk i_rd i_fuel blk size (b, s)))) = snd s.
Proof.
  unfold body_readline_blk. cbn [fst snd]. destruct (getsize size =? 0); [reflexivity|].
  pose proof (i_rl_term (i_fuel s) blk (getsize size) b [] s) as H.
  destruct (readline_loop i_rd blk (i_fuel s) (getsize size) b [] s) as [[o [bb ss]] [e|]]; exact H.
Qed.
Lemma i_do_call_term cl b s : snd (snd (snd (do_call i_rd i_fuel cl (b, s)))) = snd s.
Proof.
  destruct cl as [sz|sz| |]; cbn [do_call]; unfold body_read, body_readline.
  - pose proof (i_read_term 1024 sz b s) as H. destruct (body_read_blk i_rd i_fuel 1024 sz (b, s)) as [[d|e] x]; exact H.
  - pose proof (i_readline_term 1024 sz b s) as H. destruct (body_readline_blk i_rd i_fuel 1024 sz (b, s)) as [[d|e] x]; exact H.
  - pose proof (i_read_term 1024 None b s) as H. destruct (body_read_blk i_rd i_fuel 1024 None (b, s)) as [[d|e] x]; exact H.
  - pose proof (i_readline_term 1024 None b s) as H. destruct (body_readline_blk i_rd i_fuel 1024 None (b, s)) as [[[|y d]|e] x]; exact H.
Qed.
Lemma i_run_calls_term : forall prog b s, snd (snd (snd (fst (run_calls i_rd i_fuel prog (b, s))))) = snd s.
Proof.
  induction prog as [|cl t IH]; intros b s; cbn [run_calls]; [reflexivity|].
  pose proof (i_do_call_term cl b s) as H. destruct (do_call i_rd i_fuel cl (b, s)) as [r [b1 s1]]. cbn [snd] in H.
  destruct r as [d|l| |e]; try exact H;
    (specialize (IH b1 s1); destruct (run_calls i_rd i_fuel t (b1, s1)) as [[o bk] err]; cbn [fst snd] in *; congruence).
Qed.
Lemma i_drain_term : forall fuel b s, snd (snd (fst (drain i_rd i_fuel fuel (b, s)))) = snd s.
Proof.
  induction fuel as [|fuel IH]; intros b s; cbn [drain]; [reflexivity|]. unfold body_read.
  pose proof (i_read_term 1024 (Some 8192%Z) b s) as H.
  destruct (body_read_blk i_rd i_fuel 1024 (Some 8192%Z) (b, s)) as [[d|e] [b1 s1]]; cbn [snd] in H; [|exact H].
  destruct d as [|x d]; [exact H|]. rewrite IH. exact H.
Qed.

(* ---- 2. the stream behind a real reader never ends with EOutOfFuel ------------------------------------------ *)
Lemma alpha_no_oof c k : inv_c c k -> snd (alpha_c c k) <> TErr EOutOfFuel.
Proof.
  unfold inv_c, alpha_c, inv, alpha. destruct (c_reader k) as [len|r] eqn:Er; intros Hinv.
  - unfold lr_alpha. rewrite Er. discriminate.
  - destruct Hinv as (r0 & Hr0 & Hne & Hg). rewrite Er in Hr0. injection Hr0 as <-.
    unfold cr_alpha. rewrite Er. destruct (cactive r); [|discriminate].
    destruct (gen_run_total c (cg r) (c_unreader k) Hne Hg) as (D & T & HF). rewrite HF. cbn [snd].
    destruct T as [p' tr'|e]; cbn [tconv]; [discriminate|].
    intros [= ->]. eapply gen_run_no_oof. exact HF.
Qed.

(* ---- 3. hence no operation on the real wsgi.input answers EOutOfFuel ---------------------------------------- *)
Theorem do_call_never_out_of_fuel c cl b k : inv_c c k ->
    fst (do_call (reader_read c) remaining_upper cl (b, k)) <> RExc EOutOfFuel.
Proof.
  intros Hinv H.
  pose proof (do_call_sim conn (reader_read c) remaining_upper (alpha_c c) (inv_c c) (sim_c c) (fuel_ok_c c) cl b k Hinv) as Hs.
  destruct (do_call (reader_read c) remaining_upper cl (b, k)) as [r [b1 s1]]. cbn [fst] in H. subst r.
  cbn [call_rel] in Hs. destruct (alpha_c c k) as [rem t] eqn:Ea.
  apply i_do_call_err in Hs. apply (alpha_no_oof c k Hinv). rewrite Ea. exact Hs.
Qed.

Theorem run_calls_never_out_of_fuel c : forall prog b k, inv_c c k ->
    let '(o, bk, err) := run_calls (reader_read c) remaining_upper prog (b, k) in
    err <> Some EOutOfFuel /\ (err = None -> inv_c c (snd bk)).
Proof.
  induction prog as [|cl t IH]; intros b k Hinv; cbn [run_calls]; [split; [discriminate|auto]|].
  pose proof (do_call_never_out_of_fuel c cl b k Hinv) as Hno.
  pose proof (do_call_sim conn (reader_read c) remaining_upper (alpha_c c) (inv_c c) (sim_c c) (fuel_ok_c c) cl b k Hinv) as Hs.
  destruct (do_call (reader_read c) remaining_upper cl (b, k)) as [r [b1 s1]]. cbn [fst] in Hno.
  destruct r as [d|l| |e]; cbn [call_rel] in Hs;
    try (destruct Hs as [Hi _]; specialize (IH b1 s1 Hi);
         destruct (run_calls (reader_read c) remaining_upper t (b1, s1)) as [[o bk] err]; exact IH).
  split; [congruence|discriminate].
Qed.

Theorem drain_never_out_of_fuel c b k : inv_c c k ->
    snd (drain (reader_read c) remaining_upper (S (length b + remaining_upper k)) (b, k)) <> Some EOutOfFuel.
Proof.
  intros Hinv H.
  pose proof (drain_sim conn (reader_read c) remaining_upper (alpha_c c) (inv_c c) (sim_c c) (fuel_ok_c c)
                        (S (length b + remaining_upper k)) b k Hinv) as Hs.
  destruct (drain (reader_read c) remaining_upper (S (length b + remaining_upper k)) (b, k)) as [[b1 s1] [e|]];
    cbn [snd] in H; [|discriminate]. injection H as ->. cbn [drain_rel] in Hs.
  destruct (alpha_c c k) as [rem t] eqn:Ea.
  apply i_drain_err in Hs.
  - apply (alpha_no_oof c k Hinv). rewrite Ea. exact Hs.
  - pose proof (fuel_ok_c c k Hinv) as Hk. rewrite Ea in Hk. cbn [fst] in Hk. rewrite app_length. lia.
Qed.

(* ---- 4. a request head never answers EOutOfFuel -------------------------------------------------------------- *)
Lemma header_stage_no_oof c rb p : header_stage c rb p <> inr EOutOfFuel.
Proof.
  unfold header_stage.
  destruct (scan _ _ rb p) as [i d q| |d]; try discriminate.
  repeat match goal with
         | |- context [if ?b then _ else _] => destruct b; try discriminate
         end.
  all: try (pose proof (parse_headers_never_out_of_fuel c false (is_ssl c) (firstn i d)) as H;
            destruct (parse_headers c false (is_ssl c) (firstn i d)) as [[hs h]|e]; [discriminate|congruence]).
Qed.

Lemma read_line_no_oof lim d p : read_line lim d p <> inr EOutOfFuel.
Proof. unfold read_line. destruct (scan _ _ d p); try discriminate. destruct (rl_post lim i); discriminate. Qed.

Lemma parse_proxy_protocol_no_oof x line : parse_proxy_protocol x line <> inr EOutOfFuel.
Proof.
  unfold parse_proxy_protocol.
  destruct (split_char 32 line) as [|a [|proto [|sa [|da [|sp [|dp [|? ?]]]]]]]; try discriminate.
  destruct (negb _); [discriminate|]. destruct (negb _); [discriminate|].
  destruct (py_int_l1 sp); [|discriminate]. destruct (py_int_l1 dp); [|discriminate].
  destruct (_ && _)%bool; discriminate.
Qed.

Lemma proxy_stage_no_oof c x n l rb p : proxy_stage c x n l rb p <> inr EOutOfFuel.
Proof.
  unfold proxy_stage. destruct (_ && _ && _)%bool; [|discriminate].
  destruct (negb (proxy_trusted c)); [discriminate|].
  pose proof (parse_proxy_protocol_no_oof x l) as H1.
  destruct (parse_proxy_protocol x l) as [info|e]; [|congruence].
  pose proof (read_line_no_oof (eff_line c) rb p) as H2.
  destruct (read_line (eff_line c) rb p) as [[[l2 r2] p2]|e]; [discriminate|congruence].
Qed.

Lemma parse_request_line_no_oof c x line : parse_request_line c x line <> inr EOutOfFuel.
Proof.
  unfold parse_request_line.
  destruct (splitn 32 2 line) as [|m [|uri [|ver [|? ?]]]]; try discriminate.
  destruct (_ && _)%bool; [discriminate|]. destruct (negb (is_token m)); [discriminate|].
  destruct uri as [|u0 uri]; [discriminate|].
  destruct (existsb _ _); [discriminate|]. destruct (negb (uri_ok x _)); [discriminate|].
  destruct (parse_version ver) as [[a b]|]; [|discriminate].
  destruct (_ && _)%bool; discriminate.
Qed.

Lemma te_vals_no_oof : forall vals st, te_vals st vals <> inr EOutOfFuel.
Proof.
  induction vals as [|v t IH]; intros st; cbn [te_vals]; [discriminate|].
  destruct (classify v); try discriminate; destruct (f_chunked st); try discriminate; apply IH.
Qed.
Lemma scan_headers_no_oof : forall hs st, scan_headers st hs <> inr EOutOfFuel.
Proof.
  induction hs as [|[n v] t IH]; intros st; cbn [scan_headers]; [discriminate|].
  destruct (beq n n_cl).
  - destruct (f_cl st); [discriminate|apply IH].
  - destruct (beq n n_te); [|apply IH].
    pose proof (te_vals_no_oof (map (strip is_ows) (split_char 44 v)) st) as H.
    destruct (te_vals st _) as [st'|e]; [apply IH|congruence].
Qed.
Lemma set_body_reader_no_oof hs ver : set_body_reader hs ver <> inr EOutOfFuel.
Proof.
  unfold set_body_reader. pose proof (scan_headers_no_oof hs {| f_chunked := false; f_cl := None; f_must_close := false |}) as H.
  destruct (scan_headers _ hs) as [st|e]; [|congruence].
  destruct (f_chunked st).
  - destruct (_ || _)%bool; [discriminate|]. destruct (f_cl st); discriminate.
  - destruct (f_cl st) as [v|]; [|discriminate]. destruct (_ && _)%bool; discriminate.
Qed.

Theorem parse_request_never_out_of_fuel c x n p : parse_request c x n p <> inr EOutOfFuel.
Proof.
  unfold parse_request. destruct (u_read p) as [[|b0 data0] p0]; [discriminate|].
  pose proof (read_line_no_oof (eff_line c) (b0 :: data0) p0) as H1.
  destruct (read_line (eff_line c) (b0 :: data0) p0) as [[[line1 rbuf1] p1]|e]; [|congruence].
  pose proof (proxy_stage_no_oof c x n line1 rbuf1 p1) as H2.
  destruct (proxy_stage c x n line1 rbuf1 p1) as [[[[pinfo line] rbuf] p2]|e]; [|congruence].
  pose proof (parse_request_line_no_oof c x line) as H3.
  destruct (parse_request_line c x line) as [[[m uri] ver]|e]; [|congruence].
  pose proof (header_stage_no_oof c rbuf p2) as H4.
  destruct (header_stage c rbuf p2) as [[[hs https] p4]|e]; [|congruence].
  pose proof (set_body_reader_no_oof hs ver) as H5.
  destruct (set_body_reader hs ver) as [[fr mc]|e]; [discriminate|congruence].
Qed.

(* ---- 5. the fuel of run_conn (one unit per request) never runs out: every request consumes bytes -------------- *)
Lemma strict_head_consumes c s r after : strict_head c s r after -> (length after < length s)%nat.
Proof.
  intros (line & _ & _ & _ & [[-> _]|(block & -> & _)]); rewrite !app_length; cbn; lia.
Qed.

(* where the unreader stands after the drain: not beyond where it stood after the head *)
Lemma body_end_within c r p1 rem after tr : NE p1 ->
    alpha_c c (snd (init_conn r p1)) = (rem, TEof after tr) -> (length after <= length (u_abs p1))%nat.
Proof.
  intros Hne Ha. destruct (r_framing r) as [|len] eqn:Ef.
  - rewrite (init_conn_chunked r p1 Ef) in Ha.
    destruct (gen_run_total c GStart p1 Hne I) as (D & T & HF).
    destruct (gen_run_sound c _ GStart p1 D T Hne I HF) as [Hd _]. cbn [abs_g] in Hd.
    destruct T as [q tr'|e]; cbn [dconv] in Hd.
    + destruct (alpha_chunked c p1 D (u_abs q) tr' Hne Hd) as [_ Ha']. rewrite Ha in Ha'. injection Ha' as _ -> _.
      destruct (chunked_body_is_rfc c _ _ _ _ Hd) as [Hr| ->]; [exact (rfc_chunked_length _ _ _ Hr)|cbn; lia].
    + rewrite (alpha_chunked_err c p1 D e Hne Hd) in Ha. discriminate.
  - rewrite (init_conn_length r p1 len Ef) in Ha.
    destruct (alpha_length c len p1 [] Hne) as [_ Ha']. rewrite Ha in Ha'. injection Ha' as _ -> _.
    pose proof (blen_dropN len (u_abs p1)) as H. unfold blen in H. lia.
Qed.

(* more fuel never changes what a connection yields: S (length of the stream) units are always enough *)
Theorem run_conn_fuel_irrelevant : forall c x, safe_cfg c -> forall f1 f2 n progs p,
    NE p -> (length (u_abs p) < f1)%nat -> (length (u_abs p) < f2)%nat ->
    run_conn c x f1 n progs p = run_conn c x f2 n progs p.
Proof.
  intros c x Hsafe. induction f1 as [|f1 IH]; intros f2 n progs p Hne H1 H2; [lia|].
  destruct f2 as [|f2]; [lia|]. cbn [run_conn].
  destruct (parse_request c x n p) as [[r p1]|e] eqn:Ep; [|reflexivity].
  pose proof (parse_request_NE _ _ _ _ _ _ Hne Ep) as N1.
  destruct (accepted_request_end_to_end c x n p r p1 Hne Hsafe Ep) as (Hhead & Hinv & _).
  apply strict_head_consumes in Hhead.
  set (k := snd (init_conn r p1)) in *.
  assert (Hb : init_conn r p1 = ([], k)) by reflexivity. rewrite Hb.
  pose proof (run_calls_sim conn (reader_read c) remaining_upper (alpha_c c) (inv_c c) (sim_c c) (fuel_ok_c c) (hd [] progs) [] k Hinv) as Rs.
  destruct (run_calls (reader_read c) remaining_upper (hd [] progs) ([], k)) as [[o [b1 s1]] [e1|]] eqn:Er; [reflexivity|].
  cbn [run_rel] in Rs. destruct Rs as [J1 Rs]. f_equal. f_equal. cbn [fst snd].
  destruct (drain (reader_read c) remaining_upper (S (length b1 + remaining_upper s1)) (b1, s1)) as [[d1 t1] [e2|]] eqn:Ed; [reflexivity|].
  f_equal. destruct (should_close r); [reflexivity|]. f_equal.
  (* where the unreader stands now *)
  pose proof (drain_sim conn (reader_read c) remaining_upper (alpha_c c) (inv_c c) (sim_c c) (fuel_ok_c c)
                        (S (length b1 + remaining_upper s1)) b1 s1 J1) as Ds.
  rewrite Ed in Ds. cbn [drain_rel] in Ds. destruct Ds as [K1 Ds].
  pose proof (drain_final conn (reader_read c) remaining_upper (alpha_c c) (inv_c c) (sim_c c) (fuel_ok_c c)
                          (final_of (alpha_c c)) (final_c c) (S (length b1 + remaining_upper s1)) b1 s1 d1 t1 J1 Ed)
    as (M1 & a1 & tr1 & Q1 & U1 & T1).
  cbn [snd]. 
  assert (Hle : (length (u_abs (c_unreader t1)) <= length (u_abs p1))%nat).
  { (* the terminal of the ideal stream is the same before the calls, after them and after the drain *)
    assert (Ht : snd (alpha_c c t1) = snd (alpha_c c k)).
    { pose proof (i_run_calls_term (hd [] progs) [] (alpha_c c k)) as Hc. rewrite Rs in Hc. cbn [fst snd] in Hc.
      pose proof (i_drain_term (S (length b1 + remaining_upper s1)) b1 (alpha_c c s1)) as Hd. rewrite Ds in Hd. cbn [fst snd] in Hd.
      congruence. }
    rewrite Q1 in Ht. cbn [snd] in Ht.
    destruct (alpha_c c k) as [rem0 t0] eqn:Ea0. cbn [snd] in Ht. subst t0. rewrite U1.
    eapply body_end_within; [exact N1|exact Ea0]. }
  apply IH; [exact M1|lia|lia].
Qed.

Corollary run_fuel_sufficient c x progs p f : safe_cfg c -> NE p -> (length (u_abs p) < f)%nat ->
    run c x progs p = run_conn c x f 1 progs p.
Proof. intros Hs Hne Hf. unfold run. apply run_conn_fuel_irrelevant; [exact Hs|exact Hne|lia|exact Hf]. Qed.
