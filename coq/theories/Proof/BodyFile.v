(* Body.read / Body.readline / drain over ANY exact reader are the operations of a binary file over
   [Body.buf ++ what the reader still has]  (C07 core; also the engine of C06 for bodies). *)
From Coq Require Import List NArith ZArith Bool Lia Arith.
From GV Require Import Base.Bytes Base.Scan Base.PyStr Gen.GenParser Model.Parser.
Import ListNotations.
Local Open Scope N_scope.

(* ---- takeN / dropN ---------------------------------------------------------------------------- *)
Lemma blen_app a b : blen (a ++ b) = blen a + blen b.
Proof. unfold blen. rewrite app_length. lia. Qed.
Lemma blen_nil : blen [] = 0. Proof. reflexivity. Qed.
Lemma blen_zero l : blen l = 0 -> l = [].
Proof. unfold blen. destruct l; [reflexivity|cbn; lia]. Qed.
Lemma takeN_dropN n l : takeN n l ++ dropN n l = l.
Proof. unfold takeN, dropN. apply firstn_skipn. Qed.
Lemma takeN_all n l : blen l <= n -> takeN n l = l.
Proof. intros H. unfold takeN. replace (N.min n (blen l)) with (blen l) by lia. unfold blen. rewrite Nat2N.id. apply firstn_all. Qed.
Lemma dropN_all n l : blen l <= n -> dropN n l = [].
Proof. intros H. unfold dropN. replace (N.min n (blen l)) with (blen l) by lia. unfold blen. rewrite Nat2N.id. apply skipn_all. Qed.
Lemma blen_takeN n l : blen (takeN n l) = N.min n (blen l).
Proof. unfold takeN, blen. rewrite firstn_length. lia. Qed.
Lemma blen_dropN n l : blen (dropN n l) = blen l - n.
Proof. unfold dropN, blen. rewrite skipn_length. lia. Qed.
Lemma takeN_app_l n a b : n <= blen a -> takeN n (a ++ b) = takeN n a.
Proof.
  intros H. unfold takeN. rewrite blen_app. replace (N.min n (blen a + blen b)) with n by lia.
  replace (N.min n (blen a)) with n by lia. rewrite firstn_app.
  replace (N.to_nat n - length a)%nat with 0%nat by (unfold blen in H; lia). cbn. apply app_nil_r.
Qed.
Lemma dropN_app_l n a b : n <= blen a -> dropN n (a ++ b) = dropN n a ++ b.
Proof.
  intros H. unfold dropN. rewrite blen_app. replace (N.min n (blen a + blen b)) with n by lia.
  replace (N.min n (blen a)) with n by lia. rewrite skipn_app.
  replace (N.to_nat n - length a)%nat with 0%nat by (unfold blen in H; lia). reflexivity.
Qed.
Lemma takeN_app_r n a b : blen a <= n -> takeN n (a ++ b) = a ++ takeN (n - blen a) b.
Proof.
  intros H. unfold takeN. rewrite blen_app. rewrite firstn_app.
  rewrite firstn_all2 by (unfold blen in *; lia). f_equal. f_equal. unfold blen in *. lia.
Qed.
Lemma dropN_app_r n a b : blen a <= n -> dropN n (a ++ b) = dropN (n - blen a) b.
Proof.
  intros H. unfold dropN. rewrite blen_app. rewrite skipn_app.
  rewrite skipn_all2 by (unfold blen in *; lia). cbn [app]. f_equal. unfold blen in *. lia.
Qed.
Lemma takeN_takeN n m l : takeN n (takeN m l) = takeN (N.min n m) l.
Proof. unfold takeN at 1. rewrite blen_takeN. unfold takeN. rewrite firstn_firstn. f_equal. lia. Qed.
Lemma dropN_dropN n m l : dropN n (dropN m l) = dropN (n + m) l.
Proof.
  unfold dropN at 1. rewrite blen_dropN. unfold dropN. rewrite skipn_skipn. f_equal. lia.
Qed.
Lemma takeN_nil n : takeN n [] = []. Proof. unfold takeN. cbn. rewrite N.min_0_r. reflexivity. Qed.
Lemma dropN_nil n : dropN n [] = []. Proof. unfold dropN. cbn. rewrite N.min_0_r. reflexivity. Qed.
Lemma takeN_dropN_comm n m l : takeN n (dropN m l) ++ dropN (n + m) l = dropN m l.
Proof. rewrite <- dropN_dropN. apply takeN_dropN. Qed.
Lemma takeN_0 l : takeN 0 l = []. Proof. unfold takeN. rewrite N.min_0_l. reflexivity. Qed.
Lemma dropN_0 l : dropN 0 l = l. Proof. unfold dropN. rewrite N.min_0_l. reflexivity. Qed.

(* ---- the interface: an exact reader behind a Body -------------------------------------------- *)
Inductive term :=
| TEof (after : bytes) (trailers : list header)    (* clean end: then what the next request is parsed from *)
| TErr (e : perr).                                  (* a read that needs more raises e *)

Definition same_bbuf (k k' : conn) : Prop := bbuf (c_body k') = bbuf (c_body k).

Section OverExact.
  Variable c : cfg.
  Variable Inv : conn -> Prop.                      (* reader-specific invariant *)
  Variable view : conn -> bytes * term.

  Hypothesis Inv_bbuf : forall k b, Inv k -> Inv (set_bbuf k b).
  Hypothesis view_bbuf : forall k b, view (set_bbuf k b) = view k.
  Hypothesis rd_bbuf : forall n k b, reader_read c n (set_bbuf k b) =
                                    (fst (reader_read c n k), set_bbuf (snd (reader_read c n k)) b).
  Hypothesis rd_ok : forall n k, Inv k -> 0 < n ->
      match reader_read c n k with
      | (inl d, k') => Inv k' /\ same_bbuf k k' /\
                       (n <= blen (fst (view k)) \/ exists a t, snd (view k) = TEof a t) /\
                       d = takeN n (fst (view k)) /\ view k' = (dropN n (fst (view k)), snd (view k))
      | (inr e, k') => blen (fst (view k)) < n /\ snd (view k) = TErr e /\ e <> EOutOfFuel
      end.
  Hypothesis fuel_ok : forall k, Inv k -> (length (fst (view k)) < remaining_upper k)%nat.

  Definition file (k : conn) : bytes := bbuf (c_body k) ++ fst (view k).

  (* -- body_fill -- *)
  Lemma body_fill_spec : forall fuel blk size buf k,
      Inv k -> 0 < blk -> (length (fst (view k)) < fuel)%nat ->
      match body_fill c blk fuel size buf k with
      | ((buf', k'), None) =>
          Inv k' /\ same_bbuf k k' /\ snd (view k') = snd (view k) /\ buf' ++ fst (view k') = buf ++ fst (view k) /\
          (size <= blen buf' \/ (fst (view k') = [] /\ exists a t, snd (view k) = TEof a t))
      | ((buf', k'), Some e) => e <> EOutOfFuel /\ snd (view k) = TErr e /\ blen (buf ++ fst (view k)) < size
      end.
  Proof.
    induction fuel as [|fuel IH]; intros blk size buf k Hinv Hblk Hf; [lia|]. cbn [body_fill].
    destruct (size <=? blen buf) eqn:Es.
    - apply N.leb_le in Es. repeat split; auto. 
    - apply N.leb_gt in Es.
      pose proof (rd_ok blk k Hinv Hblk) as Hr. destruct (reader_read c blk k) as [[d|e] k1].
      + destruct Hr as (Hinv1 & Hsb & Hav & Hd & Hv).
        destruct d as [|x d].
        * (* reader returned b"": nothing left *)
          assert (Hrem : fst (view k) = []).
          { assert (Hd' : N.min blk (blen (fst (view k))) = 0) by (rewrite <- blen_takeN, <- Hd; reflexivity). apply blen_zero. lia. }
          assert (Ht : exists a t, snd (view k) = TEof a t).
          { destruct Hav as [Hav|Hav]; [rewrite Hrem in Hav; cbn in Hav; lia|exact Hav]. }
          rewrite Hv. cbn [fst snd]. rewrite Hrem, dropN_nil. repeat split; auto.
        * specialize (IH blk size (buf ++ x :: d) k1 Hinv1 Hblk).
          assert (Hlen : (length (fst (view k1)) < fuel)%nat).
          { rewrite Hv. cbn [fst]. pose proof (blen_dropN blk (fst (view k))) as Hl.
            assert (Hpos : 0 < N.min blk (blen (fst (view k)))) by (rewrite <- blen_takeN, <- Hd; cbn; lia).
            unfold blen in *. lia. }
          specialize (IH Hlen).
          destruct (body_fill c blk fuel size (buf ++ x :: d) k1) as [[buf' k'] [e|]].
          -- destruct IH as (Hne & Ht & Hlt). rewrite Hv in Ht, Hlt. cbn [fst snd] in *.
             split; [exact Hne|]. split; [exact Ht|].
             rewrite <- app_assoc, Hd, takeN_dropN in Hlt. exact Hlt.
          -- destruct IH as (Hinv' & Hsb' & Hsv & Habs & Hdone). rewrite Hv in Hsv, Habs, Hdone. cbn [fst snd] in *.
             split; [exact Hinv'|]. split; [unfold same_bbuf in *; congruence|]. split; [exact Hsv|].
             split; [rewrite Habs, <- app_assoc, Hd, takeN_dropN; reflexivity|exact Hdone].
      + destruct Hr as (Hlt & Ht & Hne). split; [exact Hne|]. split; [exact Ht|rewrite blen_app; lia].
  Qed.
End OverExact.
