(* C18, "the request that reaches the limit is answered in full": what handle_request writes for a request
   does not depend on the worker counters, except for the Connection option of the response head. *)
From Coq Require Import List NArith ZArith Bool Lia.
From GV Require Import Base.Enc Base.Dec Gen.GenErrors Model.Handle Proof.HandleProofs.
Import ListNotations.
Local Open Scope N_scope.

(* forget the Connection: close / keep-alive choice of a response head *)
Definition erase (e : ev) : ev :=
  match e with EvHdr code _ ch clen f => EvHdr code false ch clen f | _ => e end.

(* two response objects that differ at most in must_close *)
Definition sim (r r' : resp) : Prop :=
  r_status r = r_status r' /\ r_clen r = r_clen r' /\ r_chunked r = r_chunked r' /\ r_hsent r = r_hsent r' /\ r_sent r = r_sent r'.

Definition R4 (a b : option exn * resp * list fault * list ev) : Prop :=
  let '(x, r1, fs1, e1) := a in let '(x', r1', fs1', e1') := b in
  x = x' /\ sim r1 r1' /\ fs1 = fs1' /\ map erase e1 = map erase e1'.

Lemma sim_refl r : sim r r. Proof. repeat split. Qed.

Lemma should_close_some h r c : r_status r = Some c -> exists b, should_close h r = Some b.
Proof.
  intros H. unfold should_close. rewrite H.
  destruct (r_must_close r || h_close h); [eexists; reflexivity|].
  destruct (is_some (r_clen r) || r_chunked r); [eexists; reflexivity|].
  destruct (h_head h); eexists; reflexivity.
Qed.

Lemma send_headers_sim h r r' fs c : sim r r' -> r_status r = Some c ->
  R4 (send_headers h r fs) (send_headers h r' fs).
Proof.
  intros S Hc. pose proof S as (S1 & S2 & S3 & S4 & S5). assert (Hc' : r_status r' = Some c) by congruence.
  unfold send_headers. rewrite <- S4. destruct (r_hsent r) eqn:Eh.
  - split; [reflexivity|]. split; [exact S|]. split; reflexivity.
  - destruct (should_close_some h r c Hc) as [b ->]. destruct (should_close_some h r' c Hc') as [b' ->].
    unfold sockop. destruct (pop fs) as [f t]. destruct (is_ok f); cbn.
    + split; [reflexivity|]. split; [repeat split; cbn; assumption|]. split; [reflexivity|]. rewrite S1, S2, S3. reflexivity.
    + split; [reflexivity|]. split; [exact S|]. split; [reflexivity|]. rewrite S1, S2, S3. reflexivity.
Qed.

Lemma add_sent_sim r r' n : sim r r' -> sim (add_sent r n) (add_sent r' n).
Proof. intros (S1 & S2 & S3 & S4 & S5). repeat split; cbn; congruence. Qed.

Lemma send_headers_status h r fs x r1 fs1 e1 : send_headers h r fs = (x, r1, fs1, e1) -> r_status r1 = r_status r.
Proof. intros H. apply send_headers_acct in H. apply H. Qed.

Lemma R4_intro x r1 fs1 e1 r1' e1' : sim r1 r1' -> map erase e1 = map erase e1' -> R4 (x, r1, fs1, e1) (x, r1', fs1, e1').
Proof. intros A B. unfold R4. split; [reflexivity|]. split; [exact A|]. split; [reflexivity|exact B]. Qed.

Lemma R4_app x r1 fs1 e1 x' r1' e1' e0 e0' :
  map erase e0 = map erase e0' -> R4 (x, r1, fs1, e1) (x', r1', fs1, e1') -> R4 (x, r1, fs1, e0 ++ e1) (x', r1', fs1, e0' ++ e1').
Proof. unfold R4. intros H (A & B & C & D). split; [exact A|]. split; [exact B|]. split; [exact C|]. rewrite !map_app, H, D. reflexivity. Qed.

Lemma resp_write_sim h r r' d fs c : sim r r' -> r_status r = Some c ->
  R4 (resp_write h r d fs) (resp_write h r' d fs).
Proof.
  intros S Hc. pose proof (send_headers_sim h r r' fs c S Hc) as H0. unfold resp_write.
  destruct (send_headers h r fs) as [[[x0 r0] fs0] ev0]. destruct (send_headers h r' fs) as [[[x0' r0'] fs0'] ev0'].
  destruct H0 as (-> & S0 & -> & E0). destruct x0' as [e|]; [apply R4_intro; assumption|].
  pose proof S0 as (T1 & T2 & T3 & T4 & T5). rewrite <- T2, <- T3, <- T5.
  assert (G : forall tosend d',
     R4 (if r_chunked r0 && (tosend =? 0) then (None, r0, fs0', ev0)
         else let r2 := add_sent r0 tosend in
              let '(x2, fs2, e2) := sockop (if r_chunked r0 then EvChunk d' else EvData d') fs0' in (x2, r2, fs2, ev0 ++ e2))
        (if r_chunked r0 && (tosend =? 0) then (None, r0', fs0', ev0')
         else let r2 := add_sent r0' tosend in
              let '(x2, fs2, e2) := sockop (if r_chunked r0 then EvChunk d' else EvData d') fs0' in (x2, r2, fs2, ev0' ++ e2))).
  { intros tosend d'. destruct (r_chunked r0 && (tosend =? 0)); [apply R4_intro; assumption|]. cbn zeta.
    destruct (sockop _ fs0') as [[x2 fs2] e2]. apply R4_intro; [apply add_sent_sim; exact S0|]. rewrite !map_app, E0. reflexivity. }
  destruct (r_clen r0) as [L|].
  - destruct (L <=? r_sent r0); [apply R4_intro; assumption|apply G].
  - apply G.
Qed.

Lemma resp_write_status h r d fs x r1 fs1 e1 : resp_write h r d fs = (x, r1, fs1, e1) -> r_status r1 = r_status r.
Proof. intros H. apply resp_write_acct in H. apply H. Qed.

Lemma write_all_sim h : forall ds r r' fs c, sim r r' -> r_status r = Some c ->
  R4 (write_all h r ds fs) (write_all h r' ds fs).
Proof.
  induction ds as [|d t IH]; intros r r' fs c S Hc; cbn [write_all].
  - apply R4_intro; [exact S|reflexivity].
  - pose proof (resp_write_sim h r r' d fs c S Hc) as H0.
    destruct (resp_write h r d fs) as [[[x0 r0] fs0] ev0] eqn:E1. destruct (resp_write h r' d fs) as [[[x0' r0'] fs0'] ev0'].
    destruct H0 as (-> & S0 & -> & E0). destruct x0' as [e|]; [apply R4_intro; assumption|].
    assert (Hc0 : r_status r0 = Some c) by (rewrite (resp_write_status _ _ _ _ _ _ _ _ E1); exact Hc).
    specialize (IH r0 r0' fs0' c S0 Hc0).
    destruct (write_all h r0 t fs0') as [[[x2 r2] fs2] e2]. destruct (write_all h r0' t fs0') as [[[x2' r2'] fs2'] e2'].
    destruct IH as (-> & S2 & -> & E2). apply R4_intro; [exact S2|]. rewrite !map_app, E0, E2. reflexivity.
Qed.

Lemma resp_close_sim h r r' fs c : sim r r' -> r_status r = Some c ->
  R4 (resp_close h r fs) (resp_close h r' fs).
Proof.
  intros S Hc. pose proof (send_headers_sim h r r' fs c S Hc) as H0. unfold resp_close.
  destruct (send_headers h r fs) as [[[x0 r0] fs0] ev0]. destruct (send_headers h r' fs) as [[[x0' r0'] fs0'] ev0'].
  destruct H0 as (-> & S0 & -> & E0). destruct x0' as [e|]; [apply R4_intro; assumption|].
  pose proof S0 as (T1 & T2 & T3 & T4 & T5). rewrite <- T3.
  destruct (r_chunked r0).
  - destruct (sockop _ fs0') as [[x2 fs2] e2]. apply R4_intro; [exact S0|]. rewrite !map_app, E0. reflexivity.
  - apply R4_intro; assumption.
Qed.

Lemma resp_write_file_sim cf h r r' fl fs c : sim r r' -> r_status r = Some c ->
  R4 (resp_write_file cf h r fl fs) (resp_write_file cf h r' fl fs).
Proof.
  intros S Hc. unfold resp_write_file. destruct (c_sendfile cf && f_fileno fl); [|eapply write_all_sim; eassumption].
  pose proof (send_headers_sim h r r' fs c S Hc) as H0.
  pose proof S as (U1 & U2 & U3 & U4 & U5). rewrite <- U2, <- U5.
  destruct (send_headers h r fs) as [[[x0 r0] fs0] ev0]. destruct (send_headers h r' fs) as [[[x0' r0'] fs0'] ev0'].
  destruct H0 as (-> & S0 & -> & E0). destruct x0' as [e|]; [apply R4_intro; assumption|].
  destruct (_ =? 0); [apply R4_intro; assumption|].
  pose proof S0 as (T1 & T2 & T3 & T4 & T5). rewrite <- T1, <- T2.
  destruct (is_chunked_opt h (r_status r0) (r_clen r0)) as [ch|]; [|apply R4_intro; assumption].
  set (nb := match r_clen r with Some L => L - r_sent r | None => len (f_avail fl) end).
  destruct (if ch then sockop (EvRaw (hex_upper nb ++ CRLF)) fs0' else (None, fs0', [])) as [[x2 fs2] e2].
  destruct x2; [apply R4_intro; [exact S0|rewrite !map_app, E0; reflexivity]|].
  destruct (sockop (EvFile _) fs2) as [[x3 fs3] e3].
  destruct x3; [apply R4_intro; [exact S0|rewrite !map_app, E0; reflexivity]|].
  destruct (if ch then sockop (EvRaw CRLF) fs3 else (None, fs3, [])) as [[x4 fs4] e4].
  apply R4_intro; [apply add_sent_sim; exact S0|]. rewrite !map_app, E0. reflexivity.
Qed.

Definition P4 (a b : phase_end * resp * list fault * list ev) : Prop :=
  let '(p, r1, fs1, e1) := a in let '(p', r1', fs1', e1') := b in
  p = p' /\ sim r1 r1' /\ fs1 = fs1' /\ map erase e1 = map erase e1'.
Lemma P4_intro p r1 fs1 e1 r1' e1' : sim r1 r1' -> map erase e1 = map erase e1' -> P4 (p, r1, fs1, e1) (p, r1', fs1, e1').
Proof. intros A B. unfold P4. split; [reflexivity|]. split; [exact A|]. split; [reflexivity|exact B]. Qed.

(* once start_response has run (status set), the two runs stay in step *)
Lemma run_call_sim_started h : forall acts r r' fs c, sim r r' -> r_status r = Some c ->
  P4 (run_call h r acts fs) (run_call h r' acts fs)
  /\ (forall p r1 fs1 e1, run_call h r acts fs = (p, r1, fs1, e1) -> r_status r1 = Some c).
Proof.
  induction acts as [|a t IH]; intros r r' fs c S Hc; cbn [run_call].
  - split; [apply P4_intro; [exact S|reflexivity]|]. intros p r1 fs1 e1 H. injection H as <- <- <- <-. exact Hc.
  - destruct a as [code clen|d|e|].
    + pose proof S as (S1 & _). unfold start_response. rewrite <- S1, Hc.
      split; [apply P4_intro; [exact S|reflexivity]|]. intros p r1 fs1 e1 H. injection H as <- <- <- <-. exact Hc.
    + pose proof (resp_write_sim h r r' d fs c S Hc) as H0.
      destruct (resp_write h r d fs) as [[[x0 r0] fs0] ev0] eqn:E1. destruct (resp_write h r' d fs) as [[[x0' r0'] fs0'] ev0'].
      destruct H0 as (-> & S0 & -> & E0).
      assert (Hc0 : r_status r0 = Some c) by (rewrite (resp_write_status _ _ _ _ _ _ _ _ E1); exact Hc).
      destruct x0' as [e|].
      * split; [apply P4_intro; assumption|]. intros p r1 fs1 e1 H. injection H as <- <- <- <-. exact Hc0.
      * destruct (IH r0 r0' fs0' c S0 Hc0) as [IH1 IH2].
        destruct (run_call h r0 t fs0') as [[[p2 r2] fs2] e2] eqn:E2. destruct (run_call h r0' t fs0') as [[[p2' r2'] fs2'] e2'].
        destruct IH1 as (-> & S2 & -> & E3). split.
        -- apply P4_intro; [exact S2|]. rewrite !map_app, E0, E3. reflexivity.
        -- intros p r1 fs1 e1 H. injection H as <- <- <- <-. eapply IH2. reflexivity.
    + split; [apply P4_intro; [exact S|reflexivity]|]. intros p r1 fs1 e1 H. injection H as <- <- <- <-. exact Hc.
    + split; [apply P4_intro; [exact S|reflexivity]|]. intros p r1 fs1 e1 H. injection H as <- <- <- <-. exact Hc.
Qed.

Lemma run_iter_sim_started h : forall acts r r' fs c, sim r r' -> r_status r = Some c ->
  R4 (run_iter h r acts fs) (run_iter h r' acts fs).
Proof.
  induction acts as [|a t IH]; intros r r' fs c S Hc; cbn [run_iter].
  - apply R4_intro; [exact S|reflexivity].
  - destruct a as [code clen|d|e|].
    + pose proof S as (S1 & _). unfold start_response. rewrite <- S1, Hc. apply R4_intro; [exact S|reflexivity].
    + pose proof (resp_write_sim h r r' d fs c S Hc) as H0.
      destruct (resp_write h r d fs) as [[[x0 r0] fs0] ev0] eqn:E1. destruct (resp_write h r' d fs) as [[[x0' r0'] fs0'] ev0'].
      destruct H0 as (-> & S0 & -> & E0). destruct x0' as [e|]; [apply R4_intro; assumption|].
      assert (Hc0 : r_status r0 = Some c) by (rewrite (resp_write_status _ _ _ _ _ _ _ _ E1); exact Hc).
      specialize (IH r0 r0' fs0' c S0 Hc0).
      destruct (run_iter h r0 t fs0') as [[[x2 r2] fs2] e2]. destruct (run_iter h r0' t fs0') as [[[x2' r2'] fs2'] e2'].
      destruct IH as (-> & S2 & -> & E2). apply R4_intro; [exact S2|]. rewrite !map_app, E0, E2. reflexivity.
    + destruct (is_stopiter (x_cls e)); apply R4_intro; try exact S; reflexivity.
    + eapply IH; eassumption.
Qed.

(* the application calls start_response before it produces any output *)
Definition starts_first (acts : list act) : bool :=
  match acts with
  | AStart _ _ :: _ => true
  | _ => false
  end.

Definition S5 (a b : bool * option exn * resp * list fault * list ev) : Prop :=
  let '(lg, x, r1, fs1, e1) := a in let '(lg', x', r1', fs1', e1') := b in
  lg = lg' /\ x = x' /\ sim r1 r1' /\ fs1 = fs1' /\ map erase e1 = map erase e1'.

Lemma S5_intro lg x r1 fs1 e1 r1' e1' : sim r1 r1' -> map erase e1 = map erase e1' -> S5 (lg, x, r1, fs1, e1) (lg, x, r1', fs1, e1').
Proof. intros A B. unfold S5. split; [reflexivity|]. split; [reflexivity|]. split; [exact A|]. split; [reflexivity|exact B]. Qed.

Lemma serve_sim c h a fs b b' : starts_first (a_acts a) = true ->
  S5 (serve c h (resp_init b) a fs) (serve c h (resp_init b') a fs).
Proof.
  intros Hs. unfold serve. destruct (a_acts a) as [|[code clen|d|e|] t]; try discriminate. cbn [run_call].
  unfold start_response, resp_init. cbn [r_status r_must_close r_hsent r_sent].
  set (ch := match is_chunked_opt h (Some code) clen with Some b0 => b0 | None => false end).
  set (r0 := {| r_status := Some code; r_clen := clen; r_chunked := ch; r_must_close := b; r_hsent := false; r_sent := 0 |}).
  set (r0' := {| r_status := Some code; r_clen := clen; r_chunked := ch; r_must_close := b'; r_hsent := false; r_sent := 0 |}).
  assert (S0 : sim r0 r0') by (repeat split).
  assert (Hc : r_status r0 = Some code) by reflexivity.
  destruct (run_call_sim_started h t r0 r0' fs code S0 Hc) as [H1 H2].
  destruct (run_call h r0 t fs) as [[[p r1] fs1] e1] eqn:E1. destruct (run_call h r0' t fs) as [[[p' r1'] fs1'] e1'].
  destruct H1 as (-> & S1 & -> & Ee1). pose proof (H2 _ _ _ _ eq_refl) as Hc1.
  destruct p' as [|rest|e].
  - (* returned an empty iterable / file *)
    assert (B : R4 (match a_file a with Some fl => resp_write_file c h r1 fl fs1' | None => run_iter h r1 [] fs1' end)
                   (match a_file a with Some fl => resp_write_file c h r1' fl fs1' | None => run_iter h r1' [] fs1' end)).
    { destruct (a_file a); [eapply resp_write_file_sim|eapply run_iter_sim_started]; eassumption. }
    destruct (match a_file a with Some fl => resp_write_file c h r1 fl fs1' | None => run_iter h r1 [] fs1' end) as [[[x2 r2] fs2] e2] eqn:E2.
    destruct (match a_file a with Some fl => resp_write_file c h r1' fl fs1' | None => run_iter h r1' [] fs1' end) as [[[x2' r2'] fs2'] e2'].
    destruct B as (-> & S2 & -> & Ee2).
    destruct x2' as [e|].
    + apply S5_intro; [exact S2|]. rewrite !map_app, Ee1, Ee2. reflexivity.
    + assert (Hc2 : r_status r2 = Some code).
      { destruct (a_file a).
        - destruct (resp_write_file_acct _ _ _ _ _ _ _ _ _ E2) as [_ (F1 & _)]. congruence.
        - pose proof (run_iter_acct _ _ _ _ _ _ _ _ E2) as A. apply (ac_st_mono _ _ _ _ A). exact Hc1. }
      pose proof (resp_close_sim h r2 r2' fs2' code S2 Hc2) as H3.
      destruct (resp_close h r2 fs2') as [[[x3 r3] fs3] e3]. destruct (resp_close h r2' fs2') as [[[x3' r3'] fs3'] e3'].
      destruct H3 as (-> & S3 & -> & Ee3).
      apply S5_intro; [exact S3|]. rewrite !map_app, Ee1, Ee2, Ee3. reflexivity.
  - assert (B : R4 (match a_file a with Some fl => resp_write_file c h r1 fl fs1' | None => run_iter h r1 rest fs1' end)
                   (match a_file a with Some fl => resp_write_file c h r1' fl fs1' | None => run_iter h r1' rest fs1' end)).
    { destruct (a_file a); [eapply resp_write_file_sim|eapply run_iter_sim_started]; eassumption. }
    destruct (match a_file a with Some fl => resp_write_file c h r1 fl fs1' | None => run_iter h r1 rest fs1' end) as [[[x2 r2] fs2] e2] eqn:E2.
    destruct (match a_file a with Some fl => resp_write_file c h r1' fl fs1' | None => run_iter h r1' rest fs1' end) as [[[x2' r2'] fs2'] e2'].
    destruct B as (-> & S2 & -> & Ee2).
    destruct x2' as [e|].
    + apply S5_intro; [exact S2|]. rewrite !map_app, Ee1, Ee2. reflexivity.
    + assert (Hc2 : r_status r2 = Some code).
      { destruct (a_file a).
        - destruct (resp_write_file_acct _ _ _ _ _ _ _ _ _ E2) as [_ (F1 & _)]. congruence.
        - pose proof (run_iter_acct _ _ _ _ _ _ _ _ E2) as A. apply (ac_st_mono _ _ _ _ A). exact Hc1. }
      pose proof (resp_close_sim h r2 r2' fs2' code S2 Hc2) as H3.
      destruct (resp_close h r2 fs2') as [[[x3 r3] fs3] e3]. destruct (resp_close h r2' fs2') as [[[x3' r3'] fs3'] e3'].
      destruct H3 as (-> & S3 & -> & Ee3).
      apply S5_intro; [exact S3|]. rewrite !map_app, Ee1, Ee2, Ee3. reflexivity.
  - apply S5_intro; [exact S1|exact Ee1].
Qed.

Lemma serve_started c h b code clen t fl fs :
  serve c h (resp_init b) {| a_acts := AStart code clen :: t; a_file := fl |} fs
  = serve c h {| r_status := Some code; r_clen := clen;
                 r_chunked := match is_chunked_opt h (Some code) clen with Some b0 => b0 | None => false end;
                 r_must_close := b; r_hsent := false; r_sent := 0 |} {| a_acts := t; a_file := fl |} fs.
Proof. reflexivity. Qed.

Lemma hr_ladder_sim w r r' e fs : sim r r' -> hr_ladder w r e fs = hr_ladder w r' e fs.
Proof. intros (_ & _ & _ & S4 & _). unfold hr_ladder. rewrite S4. reflexivity. Qed.

Lemma hr_after_some w h r c : r_status r = Some c -> exists hr, hr_after w h r = Some hr.
Proof.
  intros H. unfold hr_after. destruct (should_close_some h r c H) as [b ->].
  destruct w; [eexists; reflexivity| |]; destruct b; eexists; reflexivity.
Qed.

(* What is written for a request does not depend on the worker's counters (nr, alive, max_requests), except
   for the Connection option in the response head: in particular the request that reaches max_requests, and
   requests handled after that on connections already open, get the same status, headers and body as any
   other request.  (For the sync worker even the Connection option is the same: it always closes.) *)
Theorem response_independent_of_counters w c c' st st' h a fs :
  starts_first (a_acts a) = true ->
  c_sendfile c = c_sendfile c' ->
  let '(hr, _, fs1, evs) := handle_request w c st h a fs in
  let '(hr', _, fs1', evs') := handle_request w c' st' h a fs in
  map erase evs = map erase evs' /\ fs1 = fs1' /\ count is_app evs = count is_app evs'.
Proof.
  intros Hs Hsf. unfold handle_request.
  destruct (send_100 (h_expect h) fs) as [[x0 fs0] ev0].
  destruct x0 as [e|]; [repeat split|].
  destruct (h_create_exn h) as [e|]; [repeat split|].
  destruct (count_request w c st) as [st1 b]. destruct (count_request w c' st') as [st1' b'].
  assert (SV : S5 (serve c h (resp_init b) a fs0) (serve c' h (resp_init b') a fs0)).
  { assert (E : serve c' h (resp_init b') a fs0 = serve c h (resp_init b') a fs0).
    { unfold serve. destruct (run_call h (resp_init b') (a_acts a) fs0) as [[[p r1] fs1] e1]. destruct p; try reflexivity;
        unfold resp_write_file; rewrite Hsf; reflexivity. }
    rewrite E. apply serve_sim. exact Hs. }
  destruct (serve c h (resp_init b) a fs0) as [[[[lg x] r] fsb] body] eqn:E1.
  destruct (serve c' h (resp_init b') a fs0) as [[[[lg' x'] r'] fsb'] body'] eqn:E2.
  destruct SV as (-> & -> & S & -> & Eb). pose proof S as (S1 & S2 & S3 & S4 & S5').
  cbn zeta. rewrite <- S1, <- S5'.
  set (acc := if lg' then [EvAccess (r_status r) (r_sent r)] else []).
  assert (Epre : map erase (ev0 ++ EvApp :: body ++ acc) = map erase (ev0 ++ EvApp :: body' ++ acc)).
  { rewrite !map_app. cbn [map]. rewrite !map_app, Eb. reflexivity. }
  assert (Cpre : count is_app (ev0 ++ EvApp :: body ++ acc) = count is_app (ev0 ++ EvApp :: body' ++ acc)).
  { destruct (serve_post (fun _ => True) I I _ _ _ _ _ _ _ _ _ _ (proj2 (Forall_forall _ _) (fun _ _ => I)) E1) as [Ab _].
    destruct (serve_post (fun _ => True) I I _ _ _ _ _ _ _ _ _ _ (proj2 (Forall_forall _ _) (fun _ _ => I)) E2) as [Ab' _].
    rewrite !count_app. change (EvApp :: ?l) with ([EvApp] ++ l). rewrite !count_app.
    rewrite (count_none is_app is_body body Ab), (count_none is_app is_body body' Ab'); [reflexivity| |]; intros []; cbn; congruence. }
  assert (Lad : forall e,
    let '(hr, _, fs1, evs) := (let '(hr, fs2, e2) := hr_ladder w r e fsb' in (hr, st1, fs2, (ev0 ++ EvApp :: body ++ acc) ++ e2)) in
    let '(hr', _, fs1', evs') := (let '(hr, fs2, e2) := hr_ladder w r' e fsb' in (hr, st1', fs2, (ev0 ++ EvApp :: body' ++ acc) ++ e2)) in
    map erase evs = map erase evs' /\ fs1 = fs1' /\ count is_app evs = count is_app evs').
  { intros e. rewrite <- (hr_ladder_sim w r r' e fsb' S). destruct (hr_ladder w r e fsb') as [[hr2 fs2] e2].
    split; [rewrite (map_app erase (ev0 ++ EvApp :: body ++ acc) e2), (map_app erase (ev0 ++ EvApp :: body' ++ acc) e2), Epre; reflexivity|].
    split; [reflexivity|]. rewrite (count_app is_app (ev0 ++ EvApp :: body ++ acc) e2), (count_app is_app (ev0 ++ EvApp :: body' ++ acc) e2), Cpre. reflexivity. }
  destruct x' as [e|]; [apply Lad|].
  assert (Hst : exists c0, r_status r = Some c0).
  { destruct a as [acts fl]. cbn [a_acts] in Hs. destruct acts as [|[code clen|? |? |] t]; try discriminate.
    exists code. rewrite (serve_started c h b code clen t fl fs0) in E1.
    destruct (serve_acct _ _ _ _ _ _ _ _ _ _ E1) as (A & _). apply (ac_st_mono _ _ _ _ A). reflexivity. }
  destruct Hst as [c0 Hc0]. assert (Hc0' : r_status r' = Some c0) by congruence.
  destruct (hr_after_some w h r c0 Hc0) as [hr1 ->]. destruct (hr_after_some w h r' c0 Hc0') as [hr1' ->].
  split; [exact Epre|]. split; [reflexivity|exact Cpre].
Qed.
