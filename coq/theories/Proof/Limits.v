(* C12: the request-head limits are enforced, requests within the limits are not rejected for size,
   and every refill loop of the parser holds a bounded amount of not-yet-parsed data. *)
From Coq Require Import List NArith ZArith Bool Lia Arith.
From GV Require Import Base.Bytes Base.Scan Base.PyStr Gen.GenParser Model.Parser Proof.TakeDrop Proof.ParserHead Proof.ChunkedSteps.
Import ListNotations.
Local Open Scope N_scope.

(* ---- bounded buffering: the peak size of the buffer of a refill loop ---------------------------- *)
Section Peak.
  Variable find : bytes -> option nat.
  Variable over : nat -> bool.
  Fixpoint scan_peak (data : bytes) (p : unreader) : nat :=
    match find data with
    | Some _ => length data
    | None => if over (length data) then length data else
              match p with
              | [] => length data
              | ch :: t => Nat.max (length data) (scan_peak (data ++ ch) t)
              end
    end.
  Variable cap : nat.
  Hypothesis over_cap : forall n, (cap <= n)%nat -> over n = true.
  (* whatever the client sends, in reads of at most M bytes, the loop never holds more than cap + M *)
  Theorem scan_peak_bounded : forall M p data,
      Forall (fun ch => length ch <= M)%nat p -> (length data <= cap + M)%nat -> (scan_peak data p <= cap + M)%nat.
  Proof.
    intros M. induction p as [|ch t IH]; intros data Hp Hd; cbn [scan_peak].
    - destruct (find data); [exact Hd|]. destruct (over (length data)); exact Hd.
    - destruct (find data); [exact Hd|]. destruct (over (length data)) eqn:Eo; [exact Hd|].
      inversion Hp as [|? ? Hch Ht]; subst.
      assert (Hlt : (length data < cap)%nat).
      { destruct (le_lt_dec cap (length data)) as [Hge|Hlt]; [rewrite (over_cap _ Hge) in Eo; discriminate|exact Hlt]. }
      apply Nat.max_lub; [exact Hd|]. apply IH; [exact Ht|]. rewrite app_length. lia.
  Qed.
End Peak.

Lemma cap_over_cap lim : forall n, (N.to_nat lim <= n)%nat -> cap_over lim n = true.
Proof. intros n H. unfold cap_over. apply N.leb_le. lia. Qed.
Lemma rl_over_cap lim : 0 < lim -> forall n, (N.to_nat lim + 3 <= n)%nat -> rl_over lim n = true.
Proof. intros Hl n H. unfold rl_over. apply andb_true_intro. split; [apply N.ltb_lt; exact Hl|apply N.ltb_lt; lia]. Qed.

(* the four loops: request line, header block, chunk-size line, trailer block *)
Theorem request_line_buffer_bounded : forall c M data p, 0 < eff_line c ->
    Forall (fun ch => length ch <= M)%nat p -> (length data <= N.to_nat (eff_line c) + 3 + M)%nat ->
    (scan_peak (find_pat CRLF) (rl_over (eff_line c)) data p <= N.to_nat (eff_line c) + 3 + M)%nat.
Proof. intros c M data p Hl. apply scan_peak_bounded. apply rl_over_cap. exact Hl. Qed.
Theorem header_block_buffer_bounded : forall c M data p,
    Forall (fun ch => length ch <= M)%nat p -> (length data <= N.to_nat (max_buffer_headers c) + M)%nat ->
    (scan_peak hdr_find (cap_over (max_buffer_headers c)) data p <= N.to_nat (max_buffer_headers c) + M)%nat.
Proof. intros c M data p. apply scan_peak_bounded. apply cap_over_cap. Qed.
Theorem chunk_size_line_buffer_bounded : forall c M data p,
    Forall (fun ch => length ch <= M)%nat p -> (length data <= N.to_nat (max_buffer_headers c) + M)%nat ->
    (scan_peak (find_pat CRLF) (cap_over (max_buffer_headers c)) data p <= N.to_nat (max_buffer_headers c) + M)%nat.
Proof. intros c M data p. apply scan_peak_bounded. apply cap_over_cap. Qed.

(* scan_peak really is the peak of scan: the buffer scan ends with is never larger *)
Lemma scan_result_le_peak find over : forall p data,
    match scan find over data p with
    | SFound _ d _ => (length d <= scan_peak find over data p)%nat
    | SEof d => (length d <= scan_peak find over data p)%nat
    | SOver => True
    end.
Proof.
  induction p as [|ch t IH]; intros data; cbn [scan scan_peak].
  - destruct (find data); [lia|]. destruct (over (length data)); [exact I|lia].
  - destruct (find data); [lia|]. destruct (over (length data)); [exact I|].
    specialize (IH (data ++ ch)). destruct (scan find over (data ++ ch) t); try exact I; lia.
Qed.

(* ---- the request line limit ------------------------------------------------------------------- *)
(* first CRLF of the stream beyond the limit, or no CRLF within limit + 2 bytes: rejected *)
Theorem long_request_line_rejected : forall lim data p i,
    0 < lim -> find_pat CRLF (data ++ concat p) = Some i -> lim < N.of_nat i ->
    canon3 (read_line lim data p) = inr ELimitRequestLine.
Proof.
  intros lim data p i Hl Hf Hi. rewrite read_line_cut.
  rewrite (scan_canon (find_pat CRLF) (rl_over lim) 2 2 (rl_post lim) (find_pat_stable CRLF) crlf_late crlf_bound (rl_over_mono lim) (rl_early lim)).
  unfold abs_cut. rewrite Hf. unfold rl_post. replace (0 <? lim) with true by (symmetry; apply N.ltb_lt; exact Hl).
  replace (lim <? N.of_nat i) with true by (symmetry; apply N.ltb_lt; exact Hi). reflexivity.
Qed.
Theorem endless_request_line_rejected : forall lim data p,
    0 < lim -> find_pat CRLF (data ++ concat p) = None -> lim + 2 < blen (data ++ concat p) ->
    canon3 (read_line lim data p) = inr ELimitRequestLine.
Proof.
  intros lim data p Hl Hf Hi. rewrite read_line_cut.
  rewrite (scan_canon (find_pat CRLF) (rl_over lim) 2 2 (rl_post lim) (find_pat_stable CRLF) crlf_late crlf_bound (rl_over_mono lim) (rl_early lim)).
  unfold abs_cut. rewrite Hf. unfold rl_over. replace (0 <? lim) with true by (symmetry; apply N.ltb_lt; exact Hl).
  unfold blen in Hi. replace (lim <? N.of_nat (length (data ++ concat p)) - 2) with true by (symmetry; apply N.ltb_lt; lia). reflexivity.
Qed.
(* a request line within the limit (or with the limit switched off) is not rejected for its size *)
Theorem short_request_line_accepted : forall lim data p i,
    find_pat CRLF (data ++ concat p) = Some i -> (lim = 0 \/ N.of_nat i <= lim) ->
    exists line rest, canon3 (read_line lim data p) = inl (line, rest) /\ line = firstn i (data ++ concat p).
Proof.
  intros lim data p i Hf Hi. rewrite read_line_cut.
  rewrite (scan_canon (find_pat CRLF) (rl_over lim) 2 2 (rl_post lim) (find_pat_stable CRLF) crlf_late crlf_bound (rl_over_mono lim) (rl_early lim)).
  unfold abs_cut. rewrite Hf. unfold rl_post.
  replace ((0 <? lim) && (lim <? N.of_nat i)) with false.
  - cbn [rl_of_cut]. eexists _, _. split; [reflexivity|]. rewrite firstn_firstn. f_equal. lia.
  - symmetry. destruct Hi as [->|Hi]; [reflexivity|]. apply andb_false_intro2. apply N.ltb_ge. exact Hi.
Qed.

(* ---- the header block --------------------------------------------------------------------------- *)
Theorem oversized_header_block_rejected : forall c rbuf p i,
    prefixb CRLF (rbuf ++ concat p) = false -> find_pat CRLFCRLF (rbuf ++ concat p) = Some i ->
    max_buffer_headers c < N.of_nat (i + 4) ->
    canonH (header_stage c rbuf p) = inr ELimitRequestHeaders.
Proof.
  intros c rbuf p i Hd Hf Hi. rewrite header_stage_cut.
  rewrite (scan_canon hdr_find (cap_over (max_buffer_headers c)) 4 2 (hdr_post (max_buffer_headers c))
             hdr_find_stable hdr_find_late hdr_find_bound (cap_over_mono _) (hdr_early _ (max_buffer_headers_ge4 c))).
  unfold abs_cut, hdr_find. rewrite Hd, Hf. unfold hdr_post, cap_post.
  pose proof (crlfcrlf_not_at_0 _ _ Hd Hf) as Hn0.
  replace (Nat.eqb i 0) with false by (symmetry; apply Nat.eqb_neq; exact Hn0).
  replace (max_buffer_headers c <? N.of_nat (i + 4)) with true by (symmetry; apply N.ltb_lt; exact Hi). reflexivity.
Qed.
Theorem endless_header_block_rejected : forall c rbuf p,
    hdr_find (rbuf ++ concat p) = None -> max_buffer_headers c <= blen (rbuf ++ concat p) ->
    canonH (header_stage c rbuf p) = inr ELimitRequestHeaders.
Proof.
  intros c rbuf p Hf Hi. rewrite header_stage_cut.
  rewrite (scan_canon hdr_find (cap_over (max_buffer_headers c)) 4 2 (hdr_post (max_buffer_headers c))
             hdr_find_stable hdr_find_late hdr_find_bound (cap_over_mono _) (hdr_early _ (max_buffer_headers_ge4 c))).
  unfold abs_cut. rewrite Hf. unfold cap_over. unfold blen in Hi.
  replace (max_buffer_headers c <=? N.of_nat (length (rbuf ++ concat p))) with true by (symmetry; apply N.leb_le; exact Hi). reflexivity.
Qed.

(* ---- field count and field size (Message.parse_headers) -------------------------------------- *)
Definition field_len (curr : bytes) (conts : list bytes) : N := fold_left (fun a l => a + blen l + 2) conts (blen curr + 2).
Definition field_too_long (c : cfg) (curr : bytes) (conts : list bytes) : bool :=
  (0 <? eff_field_size c) && (eff_field_size c <? field_len curr conts).

(* the limit logic of the loop, and nothing else: field lines are grouped with their continuation
   lines; every group counts as one field; its size is the sum of its lines, each with its CRLF *)
Fixpoint within_limits (c : cfg) (fuel : nat) (lines : list bytes) (n : N) : bool :=
  match fuel with
  | O => true
  | S f => match lines with
           | [] => true
           | curr :: rest =>
               let '(conts, rest') := span_ws rest in
               (n <? eff_fields c) && negb (field_too_long c curr conts) && within_limits c f rest' (n + 1)
           end
  end.

(* over any limit: rejected, never handed over (whatever else is wrong with the block) *)
Theorem over_limit_headers_rejected : forall c ft fuel lines n seen https acc,
    within_limits c fuel lines n = false ->
    exists e, parse_headers_loop c ft fuel lines n seen https acc = inr e.
Proof.
  intros c ft. induction fuel as [|fuel IH]; intros lines n seen https acc H; [discriminate H|].
  cbn [within_limits parse_headers_loop] in *. destruct lines as [|curr rest]; [discriminate H|].
  destruct (span_ws rest) as [conts rest'] eqn:Esp.
  destruct (eff_fields c <=? n) eqn:En; [eauto|]. apply N.leb_gt in En.
  replace (n <? eff_fields c) with true in H by (symmetry; apply N.ltb_lt; exact En). cbn [andb] in H.
  destruct (find_char 58 curr) as [[|i]|]; [eauto| |eauto].
  destruct (negb (is_token _)); [eauto|].
  destruct ((match conts with [] => false | _ :: _ => true end) && negb (permit_obsolete_folding c)); [eauto|].
  fold (field_len curr conts). unfold field_too_long in H.
  destruct ((0 <? eff_field_size c) && (eff_field_size c <? field_len curr conts)) eqn:Etl.
  - (* this field is too long: one of the two size tests fires unless an earlier error does *)
    destruct ((match conts with [] => false | _ :: _ => true end) && true); [eauto|].
    destruct (existsb _ _); eauto.
  - cbn [negb andb] in H. rewrite andb_false_r. 
    destruct (existsb _ _); [eauto|].
    match goal with |- context [match ?sr with inl _ => _ | inr _ => _ end] => destruct sr as [[seen' https']|e] end; [|eauto].
    destruct (mem 95 _); [destruct (bmem _ _ || bmem _ _); [apply IH; exact H|]; destruct (header_map c =? 2); [apply IH; exact H|];
                          destruct (header_map c =? 0); [apply IH; exact H|eauto]|apply IH; exact H].
Qed.

(* within the limits: never rejected for size *)
Theorem within_limits_not_rejected_for_size : forall c ft fuel lines n seen https acc,
    within_limits c fuel lines n = true ->
    parse_headers_loop c ft fuel lines n seen https acc <> inr ELimitRequestHeaders.
Proof.
  intros c ft. induction fuel as [|fuel IH]; intros lines n seen https acc H; [cbn; discriminate|].
  cbn [within_limits parse_headers_loop] in *. destruct lines as [|curr rest]; [discriminate|].
  destruct (span_ws rest) as [conts rest'] eqn:Esp.
  apply andb_prop in H as [H H3]. apply andb_prop in H as [H1 H2]. apply N.ltb_lt in H1.
  replace (eff_fields c <=? n) with false by (symmetry; apply N.leb_gt; exact H1).
  destruct (find_char 58 curr) as [[|i]|]; [discriminate| |discriminate].
  destruct (negb (is_token _)); [discriminate|].
  destruct ((match conts with [] => false | _ :: _ => true end) && negb (permit_obsolete_folding c)); [discriminate|].
  fold (field_len curr conts). unfold field_too_long in H2. apply negb_true_iff in H2. rewrite H2. rewrite andb_false_r.
  destruct (existsb _ _); [discriminate|].
  match goal with |- context [match ?sr with inl _ => _ | inr _ => _ end] => destruct sr as [[seen' https']|e] eqn:Esr end.
  - destruct (mem 95 _); [destruct (bmem _ _ || bmem _ _); [apply IH; exact H3|]; destruct (header_map c =? 2); [apply IH; exact H3|];
                          destruct (header_map c =? 0); [apply IH; exact H3|discriminate]|apply IH; exact H3].
  - destruct (if negb ft && fwd_trusted c then assoc _ _ else None); [|discriminate Esr].
    destruct seen; [destruct (Bool.eqb _ _); [discriminate Esr|injection Esr as <-; discriminate]|discriminate Esr].
Qed.

(* a request whose request line is over the limit never reaches the application: no request is produced *)
Theorem long_request_line_never_handed : forall c x n d p i,
    0 < eff_line c -> find_pat CRLF (d ++ concat p) = Some i -> eff_line c < N.of_nat i ->
    parse_from c x n d p = inr ELimitRequestLine.
Proof.
  intros c x n d p i Hl Hf Hi. pose proof (long_request_line_rejected (eff_line c) d p i Hl Hf Hi) as H.
  unfold parse_from. destruct (read_line (eff_line c) d p) as [[[l r] q]|e]; cbn [canon3] in H; [discriminate|].
  injection H as ->. reflexivity.
Qed.

Lemma parse_headers_over_limit c ft https data :
  within_limits c (S (length (split_crlf data))) (split_crlf data) 0 = false ->
  exists e, parse_headers c ft https data = inr e.
Proof. intros H. unfold parse_headers. apply over_limit_headers_rejected. exact H. Qed.
Lemma parse_headers_within_limit c ft https data :
  within_limits c (S (length (split_crlf data))) (split_crlf data) 0 = true ->
  parse_headers c ft https data <> inr ELimitRequestHeaders.
Proof. intros H. unfold parse_headers. apply within_limits_not_rejected_for_size. exact H. Qed.

Lemma limits_clamped : forall c, eff_line c <= max_request_line /\ 0 < eff_fields c /\ eff_fields c <= max_headers /\ 4 <= max_buffer_headers c.
Proof.
  intros c. unfold eff_line, eff_fields, max_buffer_headers.
  destruct ((limit_request_line c <? 0)%Z || (Z.of_N max_request_line <=? limit_request_line c)%Z) eqn:E1;
  destruct ((limit_request_fields c <=? 0)%Z || (Z.of_N max_headers <? limit_request_fields c)%Z) eqn:E2;
  repeat split; try (vm_compute; congruence); try lia;
  try (apply orb_false_elim in E1 as [A B]; apply Z.ltb_ge in A; apply Z.leb_gt in B; lia);
  try (apply orb_false_elim in E2 as [A B]; apply Z.leb_gt in A; apply Z.ltb_ge in B; lia).
Qed.
