(* C02 side of the response model: for a well-behaved application (Spec/RespWB.v) the bytes on the wire are
   computed in closed form - head, then the body in one of three framings - and read back by the independent
   strict reader Spec/RespSpec.decode; the keep-alive decision of the three worker wrappers is related to the
   framing, to the client's Connection options and to the announced Connection field. *)
From Coq Require Import List NArith ZArith Bool Lia Arith ZifyBool.
From GV Require Import Base.Enc Base.Dec Model.RespStr Gen.GenResponse Model.Response Spec.RespSpec Spec.RespWB Proof.RespStrProofs Proof.RespTables Proof.ResponseHead.
Import ListNotations.
Local Open Scope N_scope.

Lemma rstate_ext a b :
  r_status a = r_status b -> r_code a = r_code b -> r_headers a = r_headers b -> r_headers_sent a = r_headers_sent b ->
  r_chunked a = r_chunked b -> r_must_close a = r_must_close b -> r_length a = r_length b -> r_sent a = r_sent b ->
  r_upgrade a = r_upgrade b -> r_wire a = r_wire b -> a = b.
Proof. destruct a, b; cbn; intros; subst; reflexivity. Qed.

(* ---- well-behaved headers ---------------------------------------------------------------------------------- *)
Lemma wb_header_parts h : wb_header h = true ->
  fst h <> [] /\ forallb is_tchar (fst h) = true /\ forallb is_field_char (snd h) = true
  /\ (beq (hname_lower h) n_connection && beq (map RespSpec.lower_c (hvalue h)) v_upgrade = false)
  /\ (is_cl h = true -> hvalue h <> [] /\ forallb RespSpec.is_digit (hvalue h) = true).
Proof.
  unfold wb_header. intros H.
  apply andb_prop in H as [H H5]. apply andb_prop in H as [H H4]. apply andb_prop in H as [H H3]. apply andb_prop in H as [H1 H2].
  split; [destruct (fst h); [discriminate|discriminate]|].
  split; [exact H2|]. split; [exact H3|]. split; [apply negb_true_iff; exact H4|].
  intros Hc. rewrite Hc in H5. apply andb_prop in H5 as [H6 H7]. split; [destruct (hvalue h); [discriminate|discriminate]|exact H7].
Qed.

Lemma wb_header_valid h : wb_header h = true -> valid_hdr h.
Proof.
  intros H. destruct (wb_header_parts h H) as [Hne [Ht [Hv _]]]. split.
  - rewrite is_token_spec. destruct (fst h); [congruence|exact Ht].
  - rewrite is_value_spec. exact Hv.
Qed.

Lemma wb_headers_valid hs : forallb wb_header hs = true -> Forall valid_hdr hs.
Proof. rewrite forallb_forall, Forall_forall. intros H x Hx. apply wb_header_valid, H, Hx. Qed.

(* response_length after process_headers *)
Definition cl_value (h : str * str) : option Z := option_map Z.of_N (parse_dec (hvalue h)).
Fixpoint cl_after (l : option Z) (hs : list (str * str)) : option Z :=
  match hs with
  | [] => l
  | h :: t => cl_after (if is_cl h then cl_value h else l) t
  end.

Lemma is_cl_model h : is_cl h = list_eqb (lower (fst h)) s_content_length.
Proof. unfold is_cl, hname_lower. rewrite beq_is_list_eqb. reflexivity. Qed.

Lemma wb_cl_int h : wb_header h = true -> is_cl h = true ->
  exists n, parse_dec (hvalue h) = Some n /\ py_int (strip_sp_tab (snd h)) = Some (Z.of_N n).
Proof.
  intros Hw Hc. destruct (wb_header_parts h Hw) as [_ [_ [_ [_ Hd]]]]. destruct (Hd Hc) as [Hne Hdig].
  unfold hvalue in *. rewrite strip_same in *.
  destruct (py_int_digits _ Hne Hdig) as [Hp Hs]. rewrite (parse_dec_digits _ Hne Hdig).
  destruct (digits_from 0 (strip_sp_tab (snd h))) as [n|]; [|congruence]. exists n. auto.
Qed.

Lemma process_headers_wb : forall hs st, forallb wb_header hs = true ->
  exists st', process_headers st hs = (st', None) /\ r_length st' = cl_after (r_length st) hs /\ r_upgrade st' = r_upgrade st.
Proof.
  induction hs as [|[n v] t IH]; intros st H; [exists st; auto|].
  cbn [forallb] in H. apply andb_prop in H as [Hh Ht].
  destruct (wb_header_valid _ Hh) as [Hn Hv]. cbn [fst snd] in Hn, Hv.
  cbn [process_headers cl_after]. rewrite Hn, Hv. cbn [negb].
  rewrite is_cl_model. cbn [fst].
  destruct (list_eqb (lower n) s_content_length) eqn:Ecl.
  - assert (Hc : is_cl (n, v) = true) by (rewrite is_cl_model; exact Ecl).
    destruct (wb_cl_int (n, v) Hh Hc) as [k [Hk Hp]]. cbn [snd] in Hp. rewrite Hp.
    match goal with |- context[process_headers ?s t] => destruct (IH s Ht) as [st' [E [El Eu]]] end.
    exists st'. split; [exact E|]. split; [|exact Eu]. rewrite El. cbn. unfold cl_value. rewrite Hk. reflexivity.
  - destruct (is_hoppish n).
    + destruct (list_eqb (lower n) s_connection) eqn:Ec.
      * destruct (wb_header_parts _ Hh) as [_ [_ [_ [Hup _]]]].
        unfold hname_lower, hvalue in Hup. cbn [fst snd] in Hup. rewrite !beq_is_list_eqb, strip_same in Hup.
        change (map RespSpec.lower_c n) with (lower n) in Hup. change n_connection with s_connection in Hup. rewrite Ec in Hup.
        cbn [andb] in Hup. change (map RespSpec.lower_c (strip_sp_tab v)) with (lower (strip_sp_tab v)) in Hup.
        change v_upgrade with s_upgrade in Hup. rewrite beq_is_list_eqb in Hup. rewrite Hup. apply IH. exact Ht.
      * destruct (list_eqb (lower n) s_upgrade).
        -- destruct (list_eqb (lower (strip_sp_tab v)) s_websocket).
           ++ match goal with |- context[process_headers ?s t] => destruct (IH s Ht) as [st' [E [El Eu]]] end.
              exists st'. auto.
           ++ apply IH. exact Ht.
        -- apply IH. exact Ht.
    + match goal with |- context[process_headers ?s t] => destruct (IH s Ht) as [st' [E [El Eu]]] end.
      exists st'. auto.
Qed.

Lemma cl_after_none : forall hs l, filter is_cl hs = [] -> cl_after l hs = l.
Proof.
  induction hs as [|h t IH]; intros l H; [reflexivity|]. cbn [filter] in H. cbn [cl_after].
  destruct (is_cl h); [discriminate|apply IH; exact H].
Qed.

Lemma cl_after_declared hs : Nat.leb (length (filter is_cl hs)) 1 = true ->
  cl_after None hs = option_map Z.of_N (declared_length hs).
Proof.
  unfold declared_length. induction hs as [|h t IH]; intros H; [reflexivity|].
  cbn [filter cl_after] in *. destruct (is_cl h) eqn:E.
  - cbn [length] in H. destruct (filter is_cl t) eqn:Ef; [|cbn in H; discriminate].
    rewrite cl_after_none by exact Ef. reflexivity.
  - apply IH. exact H.
Qed.

(* ---- well-behaved status ----------------------------------------------------------------------------------------- *)
Lemma wb_status_parts s code reason : wb_status s = Some (code, reason) ->
  exists d1 d2 d3, s = d1 :: d2 :: d3 :: 32 :: reason
    /\ RespSpec.is_digit d1 = true /\ RespSpec.is_digit d2 = true /\ RespSpec.is_digit d3 = true
    /\ forallb is_field_char reason = true
    /\ code = 100 * digit_val d1 + 10 * digit_val d2 + digit_val d3 /\ 200 <= code.
Proof.
  unfold wb_status. destruct s as [|d1 [|d2 [|d3 [|sp r]]]]; try discriminate.
  destruct (RespSpec.is_digit d1 && RespSpec.is_digit d2 && RespSpec.is_digit d3 && (sp =? 32) && forallb is_field_char r) eqn:E; [|discriminate].
  destruct (200 <=? 100 * digit_val d1 + 10 * digit_val d2 + digit_val d3) eqn:E2; [|discriminate].
  intros H. inversion H; subst. clear H.
  apply andb_prop in E as [E E5]. apply andb_prop in E as [E E4]. apply andb_prop in E as [E E3]. apply andb_prop in E as [E1 E2'].
  apply N.eqb_eq in E4. subst sp. apply N.leb_le in E2.
  exists d1, d2, d3. repeat split; auto.
Qed.

Lemma digit_field_char d : RespSpec.is_digit d = true -> is_field_char d = true.
Proof. unfold RespSpec.is_digit, is_field_char. lia. Qed.

Lemma wb_status_value s code reason : wb_status s = Some (code, reason) -> is_value s = true.
Proof.
  intros H. destruct (wb_status_parts _ _ _ H) as [d1 [d2 [d3 [-> [H1 [H2 [H3 [Hr _]]]]]]]].
  rewrite is_value_spec. cbn [forallb]. rewrite (digit_field_char _ H1), (digit_field_char _ H2), (digit_field_char _ H3), Hr. reflexivity.
Qed.

Lemma wb_status_code s code reason : wb_status s = Some (code, reason) ->
  exists w, first_word s = Some w /\ py_int w = Some (Z.of_N code).
Proof.
  intros H. destruct (wb_status_parts _ _ _ H) as [d1 [d2 [d3 [-> [H1 [H2 [H3 [Hr [Hc _]]]]]]]]].
  exists [d1; d2; d3]. split; [apply first_word_3digits; assumption|].
  assert (Hd : forallb Dec.is_digit [d1; d2; d3] = true) by (cbn [forallb]; change Dec.is_digit with RespSpec.is_digit; rewrite H1, H2, H3; reflexivity).
  destruct (py_int_digits [d1; d2; d3] ltac:(discriminate) Hd) as [Hp _]. rewrite Hp. f_equal. f_equal.
  cbn [digits_from]. change Dec.is_digit with RespSpec.is_digit. rewrite H1, H2, H3. subst code. unfold digit_val. lia.
Qed.

(* ---- closed forms --------------------------------------------------------------------------------------------------- *)
Section Framed.
  Variable rq : reqinfo.
  Variable date : str.
  Hypothesis Hrq : wf_req rq.
  Hypothesis Hdate : date_ok date.
  Variables (s : str) (code : N) (reason : bytes) (h : list (str * str)).
  Hypothesis Hs : wb_status s = Some (code, reason).
  Hypothesis Hh : wb_headers h = true.

  Definition dl : option N := declared_length h.
  Definition is_head : bool := list_eqb (rq_method rq) s_HEAD.
  Definition code_204_304 : bool := (code =? 204) || (code =? 304).
  Definition chunked_of : bool :=
    match dl with Some _ => false | None => negb (ver_le_10 rq) && negb is_head && negb code_204_304 end.

  (* the Response after the effective start_response call *)
  Definition ST (mc sent : bool) (k : Z) (w : bytes) : rstate :=
    {| r_status := Some s; r_code := SCInt (Z.of_N code); r_headers := forwarded h; r_headers_sent := sent;
       r_chunked := chunked_of; r_must_close := mc; r_length := option_map Z.of_N dl; r_sent := k;
       r_upgrade := false; r_wire := w |}.

  Lemma Hh1 : forallb wb_header h = true.
  Proof. unfold wb_headers in Hh. apply andb_prop in Hh as [H _]. exact H. Qed.
  Lemma Hh2 : Nat.leb (length (filter is_cl h)) 1 = true.
  Proof. unfold wb_headers in Hh. apply andb_prop in Hh as [_ H]. exact H. Qed.

  Lemma sr_body_wb st0 : r_headers st0 = [] -> r_length st0 = None -> r_upgrade st0 = false ->
    start_response_body rq st0 s h = (ST (r_must_close st0) (r_headers_sent st0) (r_sent st0) (r_wire st0), None).
  Proof.
    intros E1 E2 E3. unfold start_response_body. rewrite (wb_status_value _ _ _ Hs). cbn [negb].
    destruct (wb_status_code _ _ _ Hs) as [w [Hw Hp]]. rewrite Hw, Hp.
    match goal with |- context[process_headers ?x h] => set (st1 := x) end.
    destruct (process_headers_wb h st1 Hh1) as [st2 [Ep [El Eu]]].
    pose proof (process_headers_io h st1) as [Io1 [Io2 [Io3 Io4]]].
    pose proof (process_headers_status h st1) as [Ps1 [Ps2 Ps3]].
    pose proof (process_headers_ok h st1 st2 Ep) as [_ Ph].
    rewrite Ep in *. cbn [fst] in *.
    assert (Elen : r_length st2 = option_map Z.of_N dl).
    { rewrite El. subst st1. cbn. rewrite E2. apply cl_after_declared. exact Hh2. }
    assert (Ech : is_chunked rq st2 = inl chunked_of).
    { unfold is_chunked, chunked_of. rewrite Elen. fold dl. destruct dl; [reflexivity|]. cbn [option_map].
      destruct (ver_le_10 rq); [reflexivity|]. fold is_head. destruct is_head; [reflexivity|]. cbn [negb andb].
      rewrite Ps2. subst st1. cbn. unfold code_204_304.
      replace ((Z.of_N code =? 204)%Z || (Z.of_N code =? 304)%Z) with ((code =? 204) || (code =? 304)) by lia.
      destruct ((code =? 204) || (code =? 304)); reflexivity. }
    rewrite Ech. f_equal. apply rstate_ext; cbn; subst st1; cbn in *; try congruence.
    rewrite Ph, E1. reflexivity.
  Qed.

  Lemma sr_first mc : start_response rq (set_must_close init_resp mc) s h false = (ST mc false 0%Z [], None).
  Proof. unfold start_response. cbn [r_status set_must_close init_resp]. rewrite sr_body_wb; reflexivity. Qed.

  (* ---- the connection decision and the head ---- *)
  Definition close_of (mc : bool) : bool :=
    mc || req_should_close rq
    || (match dl with Some _ => false | None => negb chunked_of && negb is_head && negb code_204_304 end).
  Definition conn_tok (mc : bool) : str := if close_of mc then s_close else s_keep_alive.
  Definition HEADB (mc : bool) : bytes := head_bytes rq date (conn_tok mc) chunked_of (Some s) (forwarded h).

  Lemma code_ge_200 : 200 <= code.
  Proof. destruct (wb_status_parts _ _ _ Hs) as [d1 [d2 [d3 [_ [_ [_ [_ [_ [_ H]]]]]]]]]. exact H. Qed.

  Lemma should_close_ST mc b k w : should_close rq (ST mc b k w) = inl (close_of mc).
  Proof.
    unfold should_close, close_of. cbn [ST r_must_close r_length r_chunked r_code].
    destruct (mc || req_should_close rq); [reflexivity|]. cbn [orb].
    destruct dl; cbn [option_map]; [reflexivity|]. cbn [orb].
    destruct chunked_of; [reflexivity|]. cbn [negb andb]. fold is_head. destruct is_head; [reflexivity|]. cbn [negb andb].
    pose proof code_ge_200. unfold code_204_304.
    replace ((Z.of_N code <? 200)%Z || (Z.of_N code =? 204)%Z || (Z.of_N code =? 304)%Z) with ((code =? 204) || (code =? 304)) by lia.
    destruct ((code =? 204) || (code =? 304)); reflexivity.
  Qed.

  Lemma is_chunked_ST mc b k w : is_chunked rq (ST mc b k w) = inl chunked_of.
  Proof.
    unfold is_chunked, chunked_of. cbn [ST r_length r_code]. destruct dl; [reflexivity|]. cbn [option_map].
    destruct (ver_le_10 rq); [reflexivity|]. fold is_head. destruct is_head; [reflexivity|]. cbn [negb andb].
    unfold code_in_204_304, code_204_304.
    replace ((Z.of_N code =? 204)%Z || (Z.of_N code =? 304)%Z) with ((code =? 204) || (code =? 304)) by lia.
    destruct ((code =? 204) || (code =? 304)); reflexivity.
  Qed.

  Lemma conn_tok_in mc : In (conn_tok mc) conn_tokens.
  Proof. unfold conn_tok, conn_tokens. destruct (close_of mc); cbn; auto. Qed.

  Lemma eff_clean : Forall good_field (forwarded h) /\ is_value s = true.
  Proof. split; [apply forwarded_good, wb_headers_valid, Hh1|exact (wb_status_value _ _ _ Hs)]. Qed.

  Lemma all_fields_good mc : Forall good_field (head_fields date (conn_tok mc) chunked_of (forwarded h)).
  Proof. apply head_fields_good; [exact Hdate|apply conn_tok_in|apply eff_clean]. Qed.

  Lemma good_field_latin1 f : good_field f -> forallb (fun c => c <? 256) (field_line f ++ [13; 10]) = true.
  Proof.
    destruct f as [n v]. intros [_ [Ht [Hv _]]]. cbn [fst snd] in *. unfold field_line. cbn [fst snd].
    rewrite !forallb_app. rewrite (forallb_impl _ _ _ tchar_lt256 Ht), (forallb_impl _ _ _ field_char_lt256 Hv). reflexivity.
  Qed.

  Lemma fields_latin1 flds : Forall good_field flds -> forallb (fun c => c <? 256) (fields_bytes flds) = true.
  Proof.
    unfold fields_bytes. induction 1 as [|f t Hf Ht IH]; [reflexivity|]. cbn [map concat]. rewrite forallb_app, IH, (good_field_latin1 f Hf). reflexivity.
  Qed.

  Lemma dec_latin1 n : forallb (fun c => c <? 256) (dec n) = true.
  Proof. eapply forallb_impl; [|apply dec_all_digits]. intros c. unfold Dec.is_digit. lia. Qed.

  Lemma head_latin1 mc : latin1_ok (HEADB mc) = true.
  Proof.
    unfold latin1_ok, HEADB, head_bytes, status_line_text. rewrite !forallb_app, !dec_latin1.
    rewrite (fields_latin1 _ (all_fields_good mc)). cbn [status_text].
    destruct eff_clean as [_ Hv]. rewrite is_value_spec in Hv. rewrite (forallb_impl _ _ _ field_char_lt256 Hv). reflexivity.
  Qed.

  Lemma send_ST mc k w : send_headers rq date (ST mc false k w) = (ST mc true k (w ++ HEADB mc), None).
  Proof.
    unfold send_headers. cbn [ST r_headers_sent]. unfold default_headers. cbn [ST r_upgrade].
    rewrite should_close_ST.
    assert (E : forall c, (if close_of mc then @inl str exn s_close else inl s_keep_alive) = inl c -> c = conn_tok mc).
    { intros c. unfold conn_tok. destruct (close_of mc); intros H; inversion H; reflexivity. }
    destruct (close_of mc) eqn:Ec.
    - cbn [r_status r_chunked r_headers ST]. rewrite head_form. fold (ST mc false k w).
      replace s_close with (conn_tok mc) by (unfold conn_tok; rewrite Ec; reflexivity).
      fold (HEADB mc). rewrite head_latin1. reflexivity.
    - cbn [r_status r_chunked r_headers ST]. rewrite head_form.
      replace s_keep_alive with (conn_tok mc) by (unfold conn_tok; rewrite Ec; reflexivity).
      fold (HEADB mc). rewrite head_latin1. reflexivity.
  Qed.

  Lemma send_sent mc k w : send_headers rq date (ST mc true k w) = (ST mc true k w, None).
  Proof. reflexivity. Qed.

  (* ---- Response.write once the head is out: three framings ---- *)
  Lemma chunked_cl n : dl = Some n -> chunked_of = false.
  Proof. unfold chunked_of. intros ->. reflexivity. Qed.
  Lemma chunked_nolen : chunked_of = true -> dl = None.
  Proof. unfold chunked_of. destruct dl; [discriminate|reflexivity]. Qed.

  Lemma ST_eq mc b k k' w w' : k = k' -> w = w' -> ST mc b k w = ST mc b k' w'.
  Proof. intros -> ->. reflexivity. Qed.

  Lemma write_cl mc n k w x : dl = Some n -> (k <= N.to_nat n)%nat ->
    resp_write rq date (ST mc true (Z.of_nat k) w) x
    = (ST mc true (Z.of_nat (Nat.min (N.to_nat n) (k + length x))) (w ++ firstn (N.to_nat n - k) x), None).
  Proof.
    intros Hd Hk. unfold resp_write. rewrite send_sent. cbn [ST r_length r_sent r_chunked]. rewrite Hd, (chunked_cl n Hd).
    cbn [option_map andb].
    destruct (Z.of_N n <=? Z.of_nat k)%Z eqn:E.
    - f_equal. apply ST_eq; [lia|]. replace (N.to_nat n - k)%nat with 0%nat by lia. cbn. rewrite app_nil_r. reflexivity.
    - unfold util_write, sock_send, set_sent. cbn. f_equal. apply ST_eq; [lia|]. f_equal.
      destruct (Z.min (Z.of_N n - Z.of_nat k) (Z.of_nat (length x)) <? Z.of_nat (length x))%Z eqn:E2.
      + f_equal. lia.
      + symmetry. apply firstn_all2. lia.
  Qed.

  Lemma write_all_cl mc n : dl = Some n -> forall cs k w, (k <= N.to_nat n)%nat ->
    write_all rq date (ST mc true (Z.of_nat k) w) cs
    = (ST mc true (Z.of_nat (Nat.min (N.to_nat n) (k + length (concat cs)))) (w ++ firstn (N.to_nat n - k) (concat cs)), None).
  Proof.
    intros Hd. induction cs as [|x t IH]; intros k w Hk.
    - cbn [write_all concat length]. f_equal. apply ST_eq; [lia|]. rewrite firstn_nil, app_nil_r. reflexivity.
    - cbn [write_all concat]. rewrite (write_cl mc n k w x Hd Hk). rewrite IH by lia.
      f_equal. apply ST_eq.
      + rewrite app_length. lia.
      + rewrite <- app_assoc. f_equal. rewrite firstn_app. f_equal. f_equal. lia.
  Qed.

  Lemma write_chunked mc k w x : chunked_of = true ->
    resp_write rq date (ST mc true k w) x
    = (ST mc true (k + Z.of_nat (length x))%Z (w ++ match x with [] => [] | _ => chunk_bytes x end), None).
  Proof.
    intros Hc. unfold resp_write. rewrite send_sent. cbn [ST r_length r_sent r_chunked]. rewrite (chunked_nolen Hc), Hc.
    cbn [option_map andb]. destruct x as [|c t].
    - cbn. f_equal. apply ST_eq; [lia|]. rewrite app_nil_r. reflexivity.
    - replace (Z.of_nat (length (c :: t)) =? 0)%Z with false by (cbn [length]; lia).
      unfold util_write, sock_send, set_sent. cbn [ST r_status r_code r_headers r_headers_sent r_chunked r_must_close r_length r_sent r_upgrade r_wire].
      unfold ST. rewrite ?Hc. reflexivity.
  Qed.

  Definition nonempty_chunks (cs : list bytes) : list bytes := filter (fun c => nonempty c) cs.

  Lemma write_all_chunked mc : chunked_of = true -> forall cs k w,
    write_all rq date (ST mc true k w) cs
    = (ST mc true (k + Z.of_nat (length (concat cs)))%Z (w ++ concat (map chunk_bytes (nonempty_chunks cs))), None).
  Proof.
    intros Hc. induction cs as [|x t IH]; intros k w.
    - cbn. f_equal. apply ST_eq; [lia|]. rewrite app_nil_r. reflexivity.
    - cbn [write_all]. rewrite (write_chunked mc k w x Hc), IH. f_equal. apply ST_eq.
      + cbn [concat]. rewrite app_length. lia.
      + rewrite <- app_assoc. f_equal. unfold nonempty_chunks. cbn [filter]. destruct x; reflexivity.
  Qed.

  Lemma write_raw mc k w x : chunked_of = false -> dl = None ->
    resp_write rq date (ST mc true k w) x = (ST mc true (k + Z.of_nat (length x))%Z (w ++ x), None).
  Proof.
    intros Hc Hd. unfold resp_write. rewrite send_sent. cbn [ST r_length r_sent r_chunked]. rewrite Hd, Hc. cbn [option_map andb].
    unfold util_write, sock_send, set_sent. cbn [ST r_status r_code r_headers r_headers_sent r_chunked r_must_close r_length r_sent r_upgrade r_wire].
    unfold ST. rewrite ?Hc. reflexivity.
  Qed.

  Lemma write_all_raw mc : chunked_of = false -> dl = None -> forall cs k w,
    write_all rq date (ST mc true k w) cs = (ST mc true (k + Z.of_nat (length (concat cs)))%Z (w ++ concat cs), None).
  Proof.
    intros Hc Hd. induction cs as [|x t IH]; intros k w.
    - cbn. f_equal. apply ST_eq; [lia|]. rewrite app_nil_r. reflexivity.
    - cbn [write_all]. rewrite (write_raw mc k w x Hc Hd), IH. f_equal. apply ST_eq.
      + cbn [concat]. rewrite app_length. lia.
      + cbn [concat]. rewrite app_assoc. reflexivity.
  Qed.

  (* ---- the file wrapper ---- *)
  Lemma blocks_aux_spec : forall fuel blk l, (0 < blk)%nat -> (length l <= fuel)%nat ->
    concat (blocks_aux fuel blk l) = l /\ Forall (fun b => b <> []) (blocks_aux fuel blk l).
  Proof.
    induction fuel as [|f IH]; intros blk l Hb Hl.
    - destruct l; [split; [reflexivity|constructor]|cbn in Hl; lia].
    - cbn [blocks_aux]. destruct l as [|c t]; [split; [reflexivity|constructor]|].
      assert (Hlen : (length (skipn blk (c :: t)) <= f)%nat) by (rewrite skipn_length; cbn [length] in *; lia).
      destruct (IH blk (skipn blk (c :: t)) Hb Hlen) as [Hc Hn]. split.
      + cbn [concat]. rewrite Hc. apply firstn_skipn.
      + constructor; [|exact Hn]. destruct blk; [lia|]. cbn. discriminate.
  Qed.

  Lemma file_blocks_spec f : 0 < f_blksize f ->
    concat (file_blocks f) = file_rest f /\ Forall (fun b => b <> []) (file_blocks f).
  Proof.
    intros Hb. unfold file_blocks, file_rest. destruct (N.to_nat (f_blksize f)) as [|b] eqn:E; [lia|].
    apply blocks_aux_spec; lia.
  Qed.

  Lemma sock_send_ST mc b k w d : sock_send (ST mc b k w) d = ST mc b k (w ++ d).
  Proof. reflexivity. Qed.
  Lemma set_sent_ST mc b k w z : set_sent (ST mc b k w) z = ST mc b z w.
  Proof. reflexivity. Qed.

  Lemma file_rest_length f : length (file_rest f) = (length (f_content f) - N.to_nat (f_offset f))%nat.
  Proof. unfold file_rest. apply skipn_length. Qed.

  Lemma sendfile_cl mc n k w f : dl = Some n -> (k <= N.to_nat n)%nat -> f_has_fileno f = true ->
    resp_sendfile rq date true (ST mc true (Z.of_nat k) w) f
    = (ST mc true (Z.of_nat (Nat.min (N.to_nat n) (k + length (file_rest f)))) (w ++ firstn (N.to_nat n - k) (file_rest f)), inl true).
  Proof.
    intros Hd Hk Hf. unfold resp_sendfile. rewrite Hf. cbn [negb]. rewrite send_sent.
    cbn [ST r_length r_sent]. rewrite Hd. cbn [option_map]. fold (ST mc true (Z.of_nat k) w).
    destruct (0 <? Z.of_N n - Z.of_nat k)%Z eqn:E.
    - rewrite is_chunked_ST, (chunked_cl n Hd). fold (file_rest f). rewrite sock_send_ST, set_sent_ST.
      cbn [ST r_sent]. fold (ST mc true (Z.of_nat k + Z.of_nat (length (firstn (Z.to_nat (Z.of_N n - Z.of_nat k)) (file_rest f))))%Z
                                 (w ++ firstn (Z.to_nat (Z.of_N n - Z.of_nat k)) (file_rest f))).
      rewrite is_chunked_ST, (chunked_cl n Hd). f_equal.
      replace (Z.to_nat (Z.of_N n - Z.of_nat k)) with (N.to_nat n - k)%nat by lia.
      apply ST_eq; [|reflexivity]. rewrite firstn_length. lia.
    - f_equal. apply ST_eq; [lia|]. replace (N.to_nat n - k)%nat with 0%nat by lia. cbn. rewrite app_nil_r. reflexivity.
  Qed.

  Lemma sendfile_nolen mc k w f : dl = None -> f_has_fileno f = true ->
    resp_sendfile rq date true (ST mc true k w) f
    = (ST mc true (k + Z.of_nat (length (file_rest f)))%Z
          (w ++ if chunked_of then match file_rest f with [] => [] | _ => chunk_bytes (file_rest f) end else file_rest f), inl true).
  Proof.
    intros Hd Hf. unfold resp_sendfile. rewrite Hf. cbn [negb]. rewrite send_sent.
    cbn [ST r_length r_sent]. rewrite Hd. cbn [option_map]. fold (ST mc true k w).
    pose proof (file_rest_length f) as Hl.
    destruct (0 <? Z.of_nat (length (f_content f)) - Z.of_N (f_offset f))%Z eqn:E.
    - rewrite is_chunked_ST. fold (file_rest f).
      assert (Hfn : firstn (Z.to_nat (Z.of_nat (length (f_content f)) - Z.of_N (f_offset f))) (file_rest f) = file_rest f)
        by (apply firstn_all2; lia).
      rewrite Hfn. destruct chunked_of eqn:Ec.
      + rewrite !sock_send_ST, set_sent_ST. cbn [ST r_sent]. rewrite sock_send_ST.
        fold (ST mc true (k + Z.of_nat (length (file_rest f)))%Z ((w ++ hex_upper (Z.to_N (Z.of_nat (length (f_content f)) - Z.of_N (f_offset f))) ++ crlf) ++ file_rest f)).
        rewrite is_chunked_ST, Ec. rewrite ?sock_send_ST. f_equal. apply ST_eq; [reflexivity|].
        replace (Z.to_N (Z.of_nat (length (f_content f)) - Z.of_N (f_offset f))) with (N.of_nat (length (file_rest f))) by lia.
        destruct (file_rest f) as [|c t] eqn:Er; [cbn [length] in Hl; lia|].
        unfold chunk_bytes. rewrite <- !app_assoc. reflexivity.
      + rewrite sock_send_ST, set_sent_ST. cbn [ST r_sent].
        fold (ST mc true (k + Z.of_nat (length (file_rest f)))%Z (w ++ file_rest f)). rewrite is_chunked_ST, Ec. reflexivity.
    - assert (Hr : file_rest f = []) by (destruct (file_rest f); [reflexivity|cbn [length] in Hl; lia]).
      rewrite Hr. f_equal. apply ST_eq; [cbn; lia|]. destruct chunked_of; rewrite app_nil_r; reflexivity.
  Qed.

  Lemma close_ST mc k w : resp_close rq date (ST mc true k w) = (ST mc true k (w ++ if chunked_of then last_chunk else []), None).
  Proof.
    unfold resp_close. rewrite send_sent. cbn [ST r_chunked]. destruct chunked_of eqn:Ec.
    - fold (ST mc true k w). rewrite sock_send_ST. unfold ST. rewrite ?Ec. reflexivity.
    - rewrite app_nil_r. unfold ST. rewrite ?Ec. reflexivity.
  Qed.

  (* ---- the head may leave at the first body operation: it makes no difference ---- *)
  Lemma presend_write mc k w x : resp_write rq date (ST mc false k w) x = resp_write rq date (ST mc true k (w ++ HEADB mc)) x.
  Proof. unfold resp_write. rewrite send_ST, send_sent. reflexivity. Qed.
  Lemma presend_close mc k w : resp_close rq date (ST mc false k w) = resp_close rq date (ST mc true k (w ++ HEADB mc)).
  Proof. unfold resp_close. rewrite send_ST, send_sent. reflexivity. Qed.
  Lemma presend_sendfile mc k w f : f_has_fileno f = true ->
    resp_sendfile rq date true (ST mc false k w) f = resp_sendfile rq date true (ST mc true k (w ++ HEADB mc)) f.
  Proof. intros Hf. unfold resp_sendfile. rewrite Hf. cbn [negb]. rewrite send_ST, send_sent. reflexivity. Qed.
  Lemma presend_write_all mc k w cs : cs <> [] ->
    write_all rq date (ST mc false k w) cs = write_all rq date (ST mc true k (w ++ HEADB mc)) cs.
  Proof. destruct cs as [|x t]; [congruence|]. intros _. cbn [write_all]. rewrite presend_write. reflexivity. Qed.

  Definition pipeline (sf : bool) (st : rstate) (ws : list bytes) (en : ending) : rstate * option exn :=
    match write_all rq date st ws with
    | (st', Some e) => (st', Some e)
    | (st', None) =>
      match en with
      | EndRaise => (st', Some EApp)
      | EndDone => resp_close rq date st'
      | EndFile f => match resp_write_file rq date sf st' f with
                     | (st'', Some e) => (st'', Some e)
                     | (st'', None) => resp_close rq date st''
                     end
      end
    end.

  Lemma sendfile_skipped sf st f : sf && f_has_fileno f = false -> resp_sendfile rq date sf st f = (st, inl false).
  Proof. unfold resp_sendfile. destruct sf; cbn; [|reflexivity]. intros ->. reflexivity. Qed.

  Lemma presend_pipeline sf mc ws en : en <> EndRaise ->
    pipeline sf (ST mc false 0%Z []) ws en = pipeline sf (ST mc true 0%Z (HEADB mc)) ws en.
  Proof.
    intros Hen. unfold pipeline. destruct ws as [|x t].
    - cbn [write_all]. destruct en as [|f|]; [apply (presend_close mc 0%Z [])| |congruence].
      unfold resp_write_file. destruct (sf && f_has_fileno f) eqn:Esf.
      + apply andb_prop in Esf as [-> Hf]. rewrite (presend_sendfile mc 0%Z [] f Hf). reflexivity.
      + rewrite !sendfile_skipped by exact Esf. destruct (file_blocks f) as [|b bs] eqn:Eb.
        * cbn [write_all]. apply (presend_close mc 0%Z []).
        * rewrite (presend_write_all mc 0%Z [] (b :: bs)) by discriminate. reflexivity.
    - rewrite (presend_write_all mc 0%Z [] (x :: t)) by discriminate. reflexivity.
  Qed.

  (* ---- write_file, both paths ---- *)
  Lemma write_file_cl sf mc n k w f : dl = Some n -> (k <= N.to_nat n)%nat -> 0 < f_blksize f ->
    resp_write_file rq date sf (ST mc true (Z.of_nat k) w) f
    = (ST mc true (Z.of_nat (Nat.min (N.to_nat n) (k + length (file_rest f)))) (w ++ firstn (N.to_nat n - k) (file_rest f)), None).
  Proof.
    intros Hd Hk Hb. unfold resp_write_file. destruct (sf && f_has_fileno f) eqn:Esf.
    - apply andb_prop in Esf as [-> Hf]. rewrite (sendfile_cl mc n k w f Hd Hk Hf). reflexivity.
    - rewrite sendfile_skipped by exact Esf. destruct (file_blocks_spec f Hb) as [Hc _].
      rewrite (write_all_cl mc n Hd (file_blocks f) k w Hk), Hc. reflexivity.
  Qed.

  Lemma chunk_bytes_enc x : chunk_bytes x = chunk_enc x.
  Proof. reflexivity. Qed.

  Lemma nonempty_chunks_id cs : Forall (fun b : bytes => b <> []) cs -> nonempty_chunks cs = cs.
  Proof.
    unfold nonempty_chunks. induction 1 as [|x t Hx Ht IH]; [reflexivity|]. cbn [filter]. destruct x; [congruence|]. cbn. rewrite IH. reflexivity.
  Qed.
  Lemma nonempty_chunks_spec cs : Forall (fun b : bytes => b <> []) (nonempty_chunks cs) /\ concat (nonempty_chunks cs) = concat cs.
  Proof.
    unfold nonempty_chunks. induction cs as [|x t [IH1 IH2]]; [split; [constructor|reflexivity]|].
    cbn [filter]. destruct x as [|c r]; cbn [nonempty]; [split; [exact IH1|exact IH2]|].
    split; [constructor; [discriminate|exact IH1]|cbn [concat]; rewrite IH2; reflexivity].
  Qed.

  Lemma write_file_chunked sf mc k w f : chunked_of = true -> 0 < f_blksize f ->
    exists pieces, Forall (fun b : bytes => b <> []) pieces /\ concat pieces = file_rest f /\
      resp_write_file rq date sf (ST mc true k w) f
      = (ST mc true (k + Z.of_nat (length (file_rest f)))%Z (w ++ concat (map chunk_enc pieces)), None).
  Proof.
    intros Hc Hb. unfold resp_write_file. destruct (sf && f_has_fileno f) eqn:Esf.
    - apply andb_prop in Esf as [-> Hf]. rewrite (sendfile_nolen mc k w f (chunked_nolen Hc) Hf), Hc.
      destruct (file_rest f) as [|c t] eqn:Er.
      + exists []. split; [constructor|]. split; [reflexivity|]. reflexivity.
      + exists [c :: t]. split; [constructor; [discriminate|constructor]|]. split; [cbn; rewrite app_nil_r; reflexivity|].
        cbn [map concat]. rewrite app_nil_r. reflexivity.
    - rewrite sendfile_skipped by exact Esf. destruct (file_blocks_spec f Hb) as [Hcc Hne].
      exists (file_blocks f). split; [exact Hne|]. split; [exact Hcc|].
      rewrite (write_all_chunked mc Hc), (nonempty_chunks_id _ Hne), Hcc. reflexivity.
  Qed.

  Lemma write_file_raw sf mc k w f : chunked_of = false -> dl = None -> 0 < f_blksize f ->
    resp_write_file rq date sf (ST mc true k w) f = (ST mc true (k + Z.of_nat (length (file_rest f)))%Z (w ++ file_rest f), None).
  Proof.
    intros Hc Hd Hb. unfold resp_write_file. destruct (sf && f_has_fileno f) eqn:Esf.
    - apply andb_prop in Esf as [-> Hf]. rewrite (sendfile_nolen mc k w f Hd Hf), Hc. reflexivity.
    - rewrite sendfile_skipped by exact Esf. destruct (file_blocks_spec f Hb) as [Hcc _].
      rewrite (write_all_raw mc Hc Hd), Hcc. reflexivity.
  Qed.

  (* ---- the body as framed on the wire ---- *)
  Definition framed_body (out enc : bytes) : Prop :=
    match dl with
    | Some n => enc = firstn (N.to_nat n) out
    | None =>
      if chunked_of
      then exists pieces, Forall (fun b : bytes => b <> []) pieces /\ concat pieces = out /\ enc = concat (map chunk_enc pieces) ++ last_chunk
      else enc = out
    end.

  Lemma pipeline_sent sf mc ws en out : app_output ws en = Some out ->
    exists kf enc, pipeline sf (ST mc true 0%Z (HEADB mc)) ws en = (ST mc true kf (HEADB mc ++ enc), None) /\ framed_body out enc.
  Proof.
    intros Hout. unfold pipeline, framed_body. destruct dl as [n|] eqn:Hd.
    - (* Content-Length *)
      change (ST mc true 0%Z (HEADB mc)) with (ST mc true (Z.of_nat 0) (HEADB mc)).
      rewrite (write_all_cl mc n Hd ws 0 (HEADB mc) ltac:(lia)).
      destruct en as [|f|]; cbn [app_output] in Hout; [| |discriminate].
      + inversion Hout; subst. rewrite close_ST, (chunked_cl n Hd), app_nil_r. rewrite Nat.sub_0_r. eauto.
      + destruct (0 <? f_blksize f) eqn:Eb; [|discriminate]. apply N.ltb_lt in Eb. inversion Hout; subst.
        rewrite (write_file_cl sf mc n (Nat.min (N.to_nat n) (0 + length (concat ws))) _ f Hd ltac:(lia) Eb). rewrite close_ST, (chunked_cl n Hd), app_nil_r.
        rewrite <- app_assoc. eexists. eexists. split; [reflexivity|]. rewrite Nat.sub_0_r, firstn_app. f_equal. f_equal. lia.
    - destruct chunked_of eqn:Hc.
      + (* chunked *)
        rewrite (write_all_chunked mc Hc). destruct (nonempty_chunks_spec ws) as [Hne Hcc].
        destruct en as [|f|]; cbn [app_output] in Hout; [| |discriminate].
        * inversion Hout; subst. rewrite close_ST, Hc. eexists. eexists. split; [rewrite <- app_assoc; reflexivity|].
          exists (nonempty_chunks ws). split; [exact Hne|]. split; [exact Hcc|reflexivity].
        * destruct (0 <? f_blksize f) eqn:Eb; [|discriminate]. apply N.ltb_lt in Eb. inversion Hout; subst.
          destruct (write_file_chunked sf mc (0 + Z.of_nat (length (concat ws)))%Z
                      (HEADB mc ++ concat (map chunk_bytes (nonempty_chunks ws))) f Hc Eb) as [pieces [Hp1 [Hp2 Hp3]]].
          rewrite Hp3, close_ST, Hc. eexists. eexists. split; [rewrite <- !app_assoc; reflexivity|].
          exists (nonempty_chunks ws ++ pieces). split; [apply Forall_app; auto|]. split; [rewrite concat_app, Hcc, Hp2; reflexivity|].
          rewrite map_app, concat_app, <- app_assoc. reflexivity.
      + (* delimited by close, or no body at all *)
        rewrite (write_all_raw mc Hc Hd).
        destruct en as [|f|]; cbn [app_output] in Hout; [| |discriminate].
        * inversion Hout; subst. rewrite close_ST, Hc, app_nil_r. eauto.
        * destruct (0 <? f_blksize f) eqn:Eb; [|discriminate]. apply N.ltb_lt in Eb. inversion Hout; subst.
          rewrite (write_file_raw sf mc _ _ f Hc Hd Eb), close_ST, Hc, app_nil_r. rewrite <- app_assoc. eauto.
  Qed.

  (* ---- reading the head back ---- *)
  Lemma dec_single n : n < 10 -> dec n = [48 + n].
  Proof.
    intros H. unfold dec. destruct (N.to_nat (N.size n)) eqn:E; cbn [dec_aux].
    - assert (n = 0) by (destruct n; [reflexivity|cbn in E; lia]). subst. reflexivity.
    - replace (n <? 10) with true by lia. reflexivity.
  Qed.

  Lemma status_line_parsed : parse_status_line (status_line_text rq (Some s)) = Some (rq_major rq, rq_minor rq, code, reason).
  Proof.
    destruct Hrq as [Hma Hmi]. destruct (wb_status_parts _ _ _ Hs) as [d1 [d2 [d3 [Es [H1 [H2 [H3 [Hr [Hc _]]]]]]]]].
    unfold status_line_text. rewrite (dec_single _ Hma), (dec_single _ Hmi). cbn [status_text]. rewrite Es.
    cbn [List.app s_HTTP parse_status_line].
    replace (RespSpec.is_digit (48 + rq_major rq)) with true by (unfold RespSpec.is_digit; lia).
    replace (RespSpec.is_digit (48 + rq_minor rq)) with true by (unfold RespSpec.is_digit; lia).
    rewrite H1, H2, H3, Hr. cbn [andb N.eqb Pos.eqb]. unfold digit_val. rewrite Hc. unfold digit_val.
    f_equal. f_equal. f_equal. f_equal; lia.
  Qed.

  Definition FIELDS (mc : bool) : list (bytes * bytes) := head_fields date (conn_tok mc) chunked_of (forwarded h).

  Lemma decode_head mc rest :
    read_line (HEADB mc ++ rest) = Some (status_line_text rq (Some s), fields_bytes (FIELDS mc) ++ 13 :: 10 :: rest)
    /\ forall fuel, (length (FIELDS mc) < fuel)%nat -> read_fields fuel (fields_bytes (FIELDS mc) ++ 13 :: 10 :: rest) = Some (FIELDS mc, rest).
  Proof.
    split.
    - unfold HEADB, head_bytes. rewrite <- !app_assoc. change ([13; 10] ++ ?x) with (13 :: 10 :: x).
      rewrite read_line_app; [reflexivity|]. apply status_line_clean. exact (proj2 eff_clean).
    - intros fuel Hf. apply read_fields_block; [apply all_fields_good|exact Hf].
  Qed.

  Lemma fields_fuel mc (rest : bytes) : (length (FIELDS mc) < S (length (fields_bytes (FIELDS mc) ++ 13%N :: 10%N :: rest)))%nat.
  Proof.
    rewrite app_length. unfold fields_bytes.
    assert (forall (l : list (bytes * bytes)), (length l <= length (concat (map (fun f => field_line f ++ [13%N; 10%N]) l)))%nat).
    { induction l as [|x t IH]; cbn; [lia|]. rewrite !app_length. cbn. lia. }
    specialize (H (FIELDS mc)). lia.
  Qed.

  (* ---- which framing fields the head carries ---- *)
  Lemma field_values_app X a b : field_values X (a ++ b) = field_values X a ++ field_values X b.
  Proof. unfold field_values. rewrite filter_app, map_app. reflexivity. Qed.

  Lemma filter_filter_imp {A} (p q : A -> bool) l : (forall x, In x l -> p x = true -> q x = true) -> filter p (filter q l) = filter p l.
  Proof.
    induction l as [|x t IH]; intros H; [reflexivity|]. cbn [filter].
    destruct (q x) eqn:Eq.
    - cbn [filter]. rewrite IH; [reflexivity|]. intros y Hy. apply H. right. exact Hy.
    - destruct (p x) eqn:Ep; [rewrite (H x (or_introl eq_refl) Ep) in Eq; discriminate|].
      apply IH. intros y Hy. apply H. right. exact Hy.
  Qed.
  Lemma filter_none {A} (p : A -> bool) l : (forall x, In x l -> p x = false) -> filter p l = [].
  Proof. induction l as [|x t IH]; intros H; [reflexivity|]. cbn. rewrite (H x (or_introl eq_refl)). apply IH. intros y Hy. apply H. right. exact Hy. Qed.

  Definition name_is (X : bytes) (x : str * str) : bool := beq (map RespSpec.lower_c (fst x)) X.

  Lemma fwd_values X : field_values X (forwarded h) = map hvalue (filter (name_is X) (filter keeps h)).
  Proof.
    rewrite (forwarded_filter h (wb_headers_valid h Hh1)). unfold field_values.
    induction (filter keeps h) as [|x t IH]; [reflexivity|]. cbn [map filter fst]. unfold name_is at 1.
    destruct (beq (map RespSpec.lower_c (fst x)) X); cbn [map snd]; rewrite IH; [unfold hvalue; rewrite strip_same|]; reflexivity.
  Qed.

  Lemma hop_name_dropped X : mem_str X hop_headers = true -> list_eqb X s_upgrade = false ->
    field_values X (forwarded h) = [].
  Proof.
    intros Hm Hu. rewrite fwd_values. rewrite (filter_none (name_is X)); [reflexivity|].
    intros x Hx. apply filter_In in Hx as [Hin Hk]. unfold name_is. destruct (beq (map RespSpec.lower_c (fst x)) X) eqn:E; [|reflexivity].
    apply beq_eq in E. exfalso. unfold keeps in Hk.
    assert (Ht : is_token (fst x) = true).
    { pose proof (wb_headers_valid h Hh1) as HF. rewrite Forall_forall in HF. apply HF. exact Hin. }
    change (map RespSpec.lower_c (fst x)) with (lower (fst x)) in E.
    unfold is_hoppish in Hk. rewrite (lower_token_strip _ Ht), E, Hm, Hu in Hk. discriminate.
  Qed.

  Lemma cl_values : field_values n_content_length (forwarded h) = map hvalue (filter is_cl h).
  Proof.
    rewrite fwd_values. f_equal. change (filter is_cl h) with (filter (name_is n_content_length) h).
    apply filter_filter_imp. intros x Hin Hc. unfold name_is in Hc.
    apply beq_eq in Hc. change (map RespSpec.lower_c (fst x)) with (lower (fst x)) in Hc. unfold keeps.
    assert (Ht : is_token (fst x) = true).
    { pose proof (wb_headers_valid h Hh1) as HF. rewrite Forall_forall in HF. apply HF. exact Hin. }
    unfold is_hoppish. rewrite (lower_token_strip _ Ht), Hc. change n_content_length with s_content_length.
    rewrite content_length_not_hop. reflexivity.
  Qed.

  Lemma te_values mc : field_values n_transfer_encoding (FIELDS mc) = if chunked_of then [s_chunked] else [].
  Proof.
    unfold FIELDS, head_fields. rewrite !field_values_app.
    rewrite (hop_name_dropped n_transfer_encoding) by (vm_compute; reflexivity).
    destruct chunked_of; reflexivity.
  Qed.

  Lemma conn_values mc : field_values n_connection (FIELDS mc) = [conn_tok mc].
  Proof.
    unfold FIELDS, head_fields. rewrite !field_values_app.
    rewrite (hop_name_dropped n_connection) by (vm_compute; reflexivity).
    destruct chunked_of; reflexivity.
  Qed.

  Lemma cl_field_values mc : field_values n_content_length (FIELDS mc) = map hvalue (filter is_cl h).
  Proof.
    unfold FIELDS, head_fields. rewrite !field_values_app, cl_values. destruct chunked_of; reflexivity.
  Qed.

  (* with at most one Content-Length whose value is 1*DIGIT: the declared length is None exactly when there is none *)
  Lemma declared_cases :
    (filter is_cl h = [] /\ dl = None)
    \/ (exists x n, filter is_cl h = [x] /\ dl = Some n /\ parse_dec (hvalue x) = Some n).
  Proof.
    unfold dl, declared_length. pose proof Hh2 as H2. destruct (filter is_cl h) as [|x [|y t]] eqn:E; [left; auto| |cbn in H2; discriminate].
    right. assert (Hin : In x (filter is_cl h)) by (rewrite E; left; reflexivity). apply filter_In in Hin as [Hin Hc].
    pose proof Hh1 as H1. rewrite forallb_forall in H1. destruct (wb_cl_int x (H1 x Hin) Hc) as [n [Hn _]].
    exists x, n. auto.
  Qed.

  (* ---- the strict reader on the whole response ---- *)
  Definition nobody : bool := no_body (rq_method rq) code.

  Lemma nobody_eq : nobody = is_head || code_204_304.
  Proof.
    unfold nobody, no_body, is_head, code_204_304. rewrite beq_is_list_eqb. change m_HEAD with s_HEAD.
    pose proof code_ge_200. replace (code <? 200) with false by lia. rewrite orb_false_r, orb_assoc. reflexivity.
  Qed.

  Lemma nobody_not_chunked : nobody = true -> chunked_of = false.
  Proof.
    rewrite nobody_eq. unfold chunked_of. destruct dl; [reflexivity|]. intros H.
    destruct is_head; [rewrite andb_false_r; reflexivity|]. cbn in H. rewrite H. apply andb_false_r.
  Qed.

  Definition self_delim : bool := nobody || chunked_of || (match dl with Some _ => true | None => false end).
  Definition exp_body (out : bytes) : bytes :=
    if nobody then [] else match dl with Some n => firstn (N.to_nat n) out | None => out end.
  Definition RESP (mc : bool) (out lft : bytes) (sd : bool) : response :=
    {| p_major := rq_major rq; p_minor := rq_minor rq; p_code := code; p_reason := reason; p_fields := FIELDS mc;
       p_body := exp_body out; p_leftover := lft; p_self_delimiting := sd |}.

  Lemma pieces_len (pieces : list bytes) : (length pieces <= length (concat (map chunk_enc pieces)))%nat.
  Proof.
    induction pieces as [|x t IH]; cbn [map concat length]; [lia|]. rewrite app_length. unfold chunk_enc at 1. rewrite !app_length. cbn [length]. lia.
  Qed.

  Lemma decode_prefix mc rest :
    decode (rq_method rq) (HEADB mc ++ rest) =
    (let mk body lft sd := Some {| p_major := rq_major rq; p_minor := rq_minor rq; p_code := code; p_reason := reason;
                                   p_fields := FIELDS mc; p_body := body; p_leftover := lft; p_self_delimiting := sd |} in
     if nobody then mk [] rest true
     else match field_values n_transfer_encoding (FIELDS mc), field_values n_content_length (FIELDS mc) with
          | [], [] => mk rest [] false
          | [], [v] => match parse_dec v with
                       | None => None
                       | Some n => match take_exact n rest with Some (body, lft) => mk body lft true | None => None end
                       end
          | [te], [] =>
            if beq (map RespSpec.lower_c te) v_chunked && negb ((rq_major rq =? 0) || ((rq_major rq =? 1) && (rq_minor rq =? 0)))
            then match read_chunks (S (length rest)) rest with Some (body, lft) => mk body lft true | None => None end
            else None
          | _, _ => None
          end).
  Proof.
    unfold decode. destruct (decode_head mc rest) as [H1 H2]. rewrite H1, status_line_parsed.
    rewrite (H2 _ (fields_fuel mc rest)). reflexivity.
  Qed.

  Theorem decode_framed mc out enc : framed_body out enc -> (nobody = true -> out = []) ->
    (nobody = false -> forall n, dl = Some n -> (N.to_nat n <= length out)%nat) ->
    (self_delim = true -> forall more, decode (rq_method rq) (HEADB mc ++ enc ++ more) = Some (RESP mc out more true))
    /\ (self_delim = false -> decode (rq_method rq) (HEADB mc ++ enc) = Some (RESP mc out [] false)).
  Proof.
    intros Hf Hnb Hlen. unfold self_delim, RESP, exp_body. unfold framed_body in Hf.
    destruct nobody eqn:Enb.
    - (* HEAD / 204 / 304: no body at all *)
      rewrite (Hnb eq_refl) in Hf. rewrite (nobody_not_chunked Enb) in Hf.
      assert (enc = []) by (destruct dl; [rewrite firstn_nil in Hf; exact Hf|exact Hf]). subst enc.
      split; [|discriminate]. intros _ more. rewrite decode_prefix, Enb. reflexivity.
    - cbn [orb]. destruct declared_cases as [[Hnone Hd]|[x [n [Hone [Hd Hp]]]]]; rewrite Hd in *.
      + destruct chunked_of eqn:Hc.
        * (* chunked *)
          destruct Hf as [pieces [Hne [Hcc ->]]]. split; [|discriminate]. intros _ more.
          rewrite <- app_assoc. rewrite decode_prefix, Enb, te_values, Hc, cl_field_values, Hnone. cbn [map].
          change (beq (map RespSpec.lower_c s_chunked) v_chunked) with true. cbn [andb].
          assert (Hv : negb ((rq_major rq =? 0) || (rq_major rq =? 1) && (rq_minor rq =? 0)) = true).
          { unfold chunked_of in Hc. rewrite Hd in Hc. apply andb_prop in Hc as [Hc _]. apply andb_prop in Hc as [Hc _].
            unfold ver_le_10 in Hc. clear - Hc. destruct (rq_major rq =? 0) eqn:E0, (rq_major rq <? 1) eqn:E1; cbn in *; try lia; try assumption. }
          rewrite Hv. rewrite read_chunks_enc; [rewrite Hcc; reflexivity|exact Hne|].
          rewrite !app_length. pose proof (pieces_len pieces). apply Nat.lt_succ_r. eapply Nat.le_trans; [exact H|apply Nat.le_add_r].
        * (* delimited by connection close *)
          subst enc. split; [discriminate|]. intros _.
          rewrite decode_prefix, Enb, te_values, Hc, cl_field_values, Hnone. reflexivity.
      + (* Content-Length *)
        subst enc. split; [|rewrite orb_true_r; discriminate]. intros _ more.
        rewrite decode_prefix, Enb, te_values, (chunked_cl n Hd), cl_field_values, Hone. cbn [map]. rewrite Hp.
        specialize (Hlen eq_refl n eq_refl).
        assert (Hl : N.of_nat (length (firstn (N.to_nat n) out)) = n) by (rewrite firstn_length; lia).
        rewrite <- Hl at 1. rewrite take_exact_app. reflexivity.
  Qed.
End Framed.

(* ---- from the program to the pipeline --------------------------------------------------------------------------- *)
Definition code_of (s : str) : N := match wb_status s with Some (c, _) => c | None => 0 end.
Definition STof (rq : reqinfo) (c : str * list (str * str)) := ST rq (fst c) (code_of (fst c)) (snd c).

Lemma wb_call_parts s h : wb_call s h = true ->
  exists reason, wb_status s = Some (code_of s, reason) /\ wb_headers h = true.
Proof.
  unfold wb_call, code_of. intros H. apply andb_prop in H as [H1 H2].
  destruct (wb_status s) as [[c r]|]; [|discriminate]. exists r. auto.
Qed.

Lemma writes_run rq date : forall acts ws st, writes_of acts = Some ws -> run_acts rq date st acts = write_all rq date st ws.
Proof.
  induction acts as [|a t IH]; intros ws st H; cbn [writes_of] in H.
  - inversion H; subst. reflexivity.
  - destruct a as [s h e|d]; [discriminate|]. destruct (writes_of t) as [ws'|] eqn:E; [|discriminate].
    inversion H; subst. cbn [run_acts write_all]. destruct (resp_write rq date st d) as [st1 [ex|]]; [reflexivity|]. apply IH. reflexivity.
Qed.

Lemma wb_prog_run rq date mc : forall acts cur res ws, wb_call (fst cur) (snd cur) = true -> wb_prog acts cur = Some (res, ws) ->
  wb_call (fst res) (snd res) = true
  /\ run_acts rq date (STof rq cur mc false 0%Z []) acts = write_all rq date (STof rq res mc false 0%Z []) ws.
Proof.
  induction acts as [|a t IH]; intros cur res ws Hc H.
  - cbn in H. inversion H; subst. auto.
  - destruct a as [s h [|]|d].
    + cbn [wb_prog] in H. destruct (wb_call s h) eqn:Ec; [|discriminate].
      destruct (IH (s, h) res ws Ec H) as [Hr Hrun]. split; [exact Hr|].
      cbn [run_acts]. destruct (wb_call_parts s h Ec) as [reason [Hs Hh]].
      assert (Esr : start_response rq (STof rq cur mc false 0%Z []) s h true = (STof rq (s, h) mc false 0%Z [], None)).
      { unfold start_response, STof. cbn [ST r_status r_headers_sent status_truthy]. rewrite andb_false_r.
        rewrite (sr_body_wb rq s (code_of s) reason h Hs Hh); reflexivity. }
      rewrite Esr. exact Hrun.
    + cbn [wb_prog] in H. cbn [writes_of] in H. discriminate.
    + cbn [wb_prog] in H. destruct (writes_of (Write d :: t)) as [ws'|] eqn:E; [|discriminate]. inversion H; subst.
      split; [exact Hc|]. apply writes_run. exact E.
Qed.

Lemma run_app_pipeline rq date sf mc a v : view a = Some v ->
  wb_call (v_status v) (v_headers v) = true /\ app_output (v_writes v) (a_end a) = Some (v_output v)
  /\ wb_status (v_status v) = Some (v_code v, v_reason v)
  /\ run_app rq date sf (set_must_close init_resp mc) a
     = pipeline rq date sf (STof rq (v_status v, v_headers v) mc false 0%Z []) (v_writes v) (a_end a).
Proof.
  unfold view. intros H. destruct (wb_acts (a_acts a)) as [[[s h] ws]|] eqn:Ea; [|discriminate].
  destruct (wb_status s) as [[c r]|] eqn:Es; [|discriminate]. destruct (app_output ws (a_end a)) as [out|] eqn:Eo; [|discriminate].
  inversion H; subst. clear H. cbn [v_status v_headers v_writes v_output v_code v_reason].
  unfold wb_acts in Ea. destruct (a_acts a) as [|[s0 h0 [|]|d] t] eqn:Eacts; try discriminate.
  destruct (wb_call s0 h0) eqn:Ec0; [|discriminate].
  destruct (wb_prog_run rq date mc t (s0, h0) (s, h) ws Ec0 Ea) as [Hc Hrun]. cbn [fst snd] in Hc.
  split; [exact Hc|]. split; [exact Eo|]. split; [exact Es|].
  unfold run_app, pipeline. rewrite Eacts. cbn [run_acts].
  destruct (wb_call_parts s0 h0 Ec0) as [r0 [Hs0 Hh0]].
  rewrite (sr_first rq s0 (code_of s0) r0 h0 Hs0 Hh0 mc). change (ST rq s0 (code_of s0) h0) with (STof rq (s0, h0)). rewrite Hrun.
  destruct (write_all rq date (STof rq (s, h) mc false 0%Z []) ws) as [st1 [ex|]]; reflexivity.
Qed.

(* ---- the client's Connection options: model vs specification ------------------------------------------------------------ *)
Lemma split_same l : split_commas l = split_comma l.
Proof. reflexivity. Qed.

Definition opts_have (o : str) (v : str) : bool := mem_str o (conn_options v).

Lemma has_option_existsb o vals : has_option o vals = existsb (opts_have o) vals.
Proof.
  unfold has_option, options_of. induction vals as [|v t IH]; [reflexivity|]. cbn [flat_map existsb]. rewrite existsb_app, IH. f_equal.
  unfold opts_have, conn_options, mem_str. rewrite split_same. change (map RespSpec.lower_c v) with (lower v).
  induction (split_comma (lower v)) as [|x r IHr]; [reflexivity|]. cbn [map existsb]. rewrite IHr, strip_same, beq_is_list_eqb. reflexivity.
Qed.

Lemma conn_scan_spec : forall vals ka,
  conn_scan vals ka = if existsb (opts_have s_close) vals then Some true
                      else if ka || existsb (opts_have s_keep_alive) vals then Some false else None.
Proof.
  induction vals as [|v t IH]; intros ka; cbn [conn_scan existsb].
  - rewrite orb_false_r. reflexivity.
  - fold (opts_have s_close v). fold (opts_have s_keep_alive v). destruct (opts_have s_close v); [reflexivity|]. cbn [orb].
    rewrite IH. destruct (existsb (opts_have s_close) t); [reflexivity|]. rewrite orb_assoc. reflexivity.
Qed.

Lemma no_close_requested rq : req_should_close rq = false -> client_wants_close (rq_major rq) (rq_minor rq) (rq_conn rq) = false.
Proof.
  unfold req_should_close, client_wants_close. destruct (rq_must_close rq); [discriminate|].
  rewrite conn_scan_spec, !has_option_existsb. change v_close with s_close. change v_keep_alive with s_keep_alive.
  destruct (existsb (opts_have s_close) (rq_conn rq)); [discriminate|]. cbn [orb].
  destruct (existsb (opts_have s_keep_alive) (rq_conn rq)); [intros _; apply andb_false_r|].
  unfold ver_le_10. intros H. rewrite andb_true_r. lia.
Qed.

(* ---- one request on one of the three workers ------------------------------------------------------------------------------------ *)
Lemma wb_facts rq a v : view a = Some v -> well_behaved rq a = true ->
  (nobody rq (v_code v) = true -> v_output v = [])
  /\ (nobody rq (v_code v) = false -> forall n, dl (v_headers v) = Some n -> (N.to_nat n <= length (v_output v))%nat).
Proof.
  unfold well_behaved. intros -> H. unfold nobody, dl. destruct (no_body (rq_method rq) (v_code v)).
  - split; [|discriminate]. intros _. apply Nat.eqb_eq in H. destruct (v_output v); [reflexivity|discriminate].
  - split; [discriminate|]. intros _ n Hn. rewrite Hn in H. apply Nat.leb_le in H. exact H.
Qed.

Theorem serve_framed w ws date rq a v : wf_req rq -> date_ok date -> view a = Some v -> well_behaved rq a = true ->
  let o := fst (serve w ws date rq a) in
  let mc := forced_close w (bump ws) in
  let sd := self_delim rq (v_code v) (v_headers v) in
  let R := RESP rq date (v_code v) (v_reason v) (v_headers v) mc (v_output v) in
  exists kept, o_ended o = Completed kept
    /\ (sd = true -> forall more, decode (rq_method rq) (o_wire o ++ more) = Some (R more true))
    /\ (sd = false -> decode (rq_method rq) (o_wire o) = Some (R [] false))
    /\ (kept = true -> sd = true /\ client_wants_close (rq_major rq) (rq_minor rq) (rq_conn rq) = false
                       /\ announces_keepalive (R [] true) = true)
    /\ (kept = true -> w <> WSync).
Proof.
  intros Hrq Hd Hv Hwb o mc sd R.
  destruct (run_app_pipeline rq date (w_sendfile (bump ws)) mc a v Hv) as [Hc [Hout [Hs Hrun]]].
  destruct (wb_call_parts _ _ Hc) as [reason [Hs' Hh]]. rewrite Hs in Hs'. inversion Hs' as [[Hcode Hreason]].
  assert (Hen : a_end a <> EndRaise) by (intros E; rewrite E in Hout; discriminate).
  unfold STof in Hrun. cbn [fst snd] in Hrun. rewrite <- Hcode in Hrun.
  rewrite (presend_pipeline rq date Hd _ _ _ _ Hs Hh _ mc _ _ Hen) in Hrun.
  destruct (pipeline_sent rq date (v_status v) (v_code v) (v_headers v) Hh (w_sendfile (bump ws)) mc _ _ _ Hout) as [kf [enc [Hp Hf]]].
  rewrite Hp in Hrun.
  destruct (wb_facts rq a v Hv Hwb) as [Hnb Hlen].
  destruct (decode_framed rq date Hrq Hd _ _ _ _ Hs Hh mc _ _ Hf Hnb Hlen) as [D1 D2].
  pose proof (should_close_ST rq _ _ _ _ Hs Hh mc true kf (HEADB rq date (v_status v) (v_code v) (v_headers v) mc ++ enc)) as Hsc.
  assert (Hwire : o_wire o = HEADB rq date (v_status v) (v_code v) (v_headers v) mc ++ enc
                  /\ o_ended o = Completed (match w with WSync => false | _ => negb (close_of rq (v_code v) (v_headers v) mc) end)).
  { subst o. unfold serve. fold mc. rewrite Hrun. destruct w; cbn [fst]; try rewrite Hsc; cbn; auto. }
  destruct Hwire as [Hw He]. rewrite Hw.
  eexists. split; [exact He|]. split; [intros Hsd more; rewrite <- app_assoc; apply D1; exact Hsd|]. split; [exact D2|].
  split.
  - intros Hk. assert (Hcl : close_of rq (v_code v) (v_headers v) mc = false).
    { destruct w; [discriminate| |]; apply negb_true_iff in Hk; exact Hk. }
    unfold close_of in Hcl. apply orb_false_iff in Hcl as [Hcl H3]. apply orb_false_iff in Hcl as [H1 H2].
    split; [|split].
    + unfold sd, self_delim. rewrite (nobody_eq rq (v_status v) (v_code v) (v_reason v) (v_headers v) Hs Hh). fold (dl (v_headers v)). destruct (dl (v_headers v)); [apply orb_true_r|].
      rewrite orb_false_r. destruct (chunked_of rq (v_code v) (v_headers v)); [apply orb_true_r|]. cbn in H3.
      destruct (is_head rq); [reflexivity|]. cbn in H3 |- *. apply negb_false_iff in H3. rewrite H3. reflexivity.
    + apply no_close_requested. exact H2.
    + unfold announces_keepalive, R, RESP. cbn [p_fields]. rewrite (conn_values rq date _ _ Hh mc).
      unfold conn_tok, close_of. rewrite H1, H2, H3. reflexivity.
  - intros Hk Ew. subst w. discriminate.
Qed.

(* ---- a whole keep-alive connection ---------------------------------------------------------------------------------------------- *)
(* what the strict reader must report for one (request, well-behaved application) pair *)
Definition reads_as (date : str) (rq : reqinfo) (a : app) (r : response) : Prop :=
  exists v c te, view a = Some v /\ In c conn_tokens
    /\ p_major r = rq_major rq /\ p_minor r = rq_minor rq
    /\ p_code r = v_code v /\ p_reason r = v_reason v
    /\ p_fields r = head_fields date c te (forwarded (v_headers v))
    /\ p_body r = expected_body rq v.

Lemma RESP_reads_as date rq a v mc lft sd : view a = Some v ->
  reads_as date rq a (RESP rq date (v_code v) (v_reason v) (v_headers v) mc (v_output v) lft sd).
Proof.
  intros Hv. exists v, (conn_tok rq (v_code v) (v_headers v) mc), (chunked_of rq (v_code v) (v_headers v)).
  split; [exact Hv|]. split; [apply conn_tok_in|]. repeat split.
Qed.

Definition wb_pair (p : reqinfo * app) : Prop := wf_req (fst p) /\ well_behaved (fst p) (snd p) = true.

Lemma wb_has_view rq a : well_behaved rq a = true -> exists v, view a = Some v.
Proof. unfold well_behaved. destruct (view a) as [v|]; [eauto|discriminate]. Qed.

Theorem conn_framed : forall l w ws date, date_ok date -> Forall wb_pair l ->
  let os := serve_conn w ws date l in
  let served := firstn (length os) l in
  exists rs, decode_stream (map (fun p => rq_method (fst p)) served) (conn_wire os) = Some rs
    /\ Forall2 (fun r p => reads_as date (fst p) (snd p) r) rs served
    /\ Forall (fun o => exists k, o_ended o = Completed k) os.
Proof.
  induction l as [|[rq a] t IH]; intros w ws date Hd HF.
  - exists []. cbn. repeat split; constructor.
  - inversion HF as [|? ? [Hrq Hwb] Ht]; subst. cbn [fst snd] in Hrq, Hwb.
    destruct (wb_has_view rq a Hwb) as [v Hv].
    pose proof (serve_framed w ws date rq a v Hrq Hd Hv Hwb) as Hs. cbn zeta in Hs.
    destruct Hs as [kept [He [D1 [D2 [Hk _]]]]].
    cbn [serve_conn]. destruct (serve w ws date rq a) as [o ws'] eqn:Es. cbn [fst] in *. rewrite He.
    destruct kept.
    + destruct (Hk eq_refl) as [Hsd _].
      specialize (IH w ws' date Hd Ht). cbn zeta in IH. destruct IH as [rs [Hdec [Hall Hend]]].
      cbn [length firstn map fst conn_wire concat]. unfold conn_wire in Hdec.
      exists (RESP rq date (v_code v) (v_reason v) (v_headers v) (forced_close w (bump ws)) (v_output v) (concat (map o_wire (serve_conn w ws' date t))) true :: rs).
      split; [|split].
      * cbn [decode_stream]. rewrite (D1 Hsd). cbn [p_leftover RESP]. rewrite Hdec. reflexivity.
      * constructor; [apply RESP_reads_as; exact Hv|exact Hall].
      * constructor; [eauto|exact Hend].
    + cbn [length firstn map fst conn_wire concat]. rewrite app_nil_r.
      destruct (self_delim rq (v_code v) (v_headers v)) eqn:Esd.
      * exists [RESP rq date (v_code v) (v_reason v) (v_headers v) (forced_close w (bump ws)) (v_output v) [] true].
        split; [|split].
        -- cbn [decode_stream]. specialize (D1 eq_refl []). rewrite app_nil_r in D1. rewrite D1. reflexivity.
        -- constructor; [apply RESP_reads_as; exact Hv|constructor].
        -- constructor; [eauto|constructor].
      * exists [RESP rq date (v_code v) (v_reason v) (v_headers v) (forced_close w (bump ws)) (v_output v) [] false].
        split; [|split].
        -- cbn [decode_stream]. rewrite (D2 eq_refl). reflexivity.
        -- constructor; [apply RESP_reads_as; exact Hv|constructor].
        -- constructor; [eauto|constructor].
Qed.

(* whatever the application does: the connection is never kept open against the client's wish *)
Theorem never_kept_open_against_client w ws date rq a :
  o_ended (fst (serve w ws date rq a)) = Completed true ->
  client_wants_close (rq_major rq) (rq_minor rq) (rq_conn rq) = false /\ w <> WSync.
Proof.
  unfold serve. destruct (run_app rq date (w_sendfile (bump ws)) (set_must_close init_resp (forced_close w (bump ws))) a) as [st [e|]] eqn:Er.
  - cbn. destruct (r_headers_sent st); discriminate.
  - destruct w; cbn [fst o_ended]; [discriminate| |];
      (destruct (should_close rq st) as [[|]|e] eqn:Esc; cbn [fst o_ended negb]; try discriminate; intros _;
       unfold should_close in Esc;
       destruct (r_must_close st || req_should_close rq) eqn:Em; [discriminate|];
       apply orb_false_iff in Em as [Hm Hr]; split; [apply no_close_requested; exact Hr|discriminate]).
Qed.
