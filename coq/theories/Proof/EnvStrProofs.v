(* Lemmas about the byte-string primitives of Model/EnvStr.v and the scans of Spec/EnvSpec.v. *)
From Coq Require Import List NArith ZArith Bool Lia Arith.
From GV Require Import Base.Enc Base.Dec Gen.GenEnv Model.EnvStr Model.Environ Spec.EnvSpec.
Import ListNotations.
Local Open Scope N_scope.

Lemma beq_refl a : beq a a = true.
Proof. induction a as [|x a IH]; cbn; [reflexivity|]. rewrite N.eqb_refl, IH. reflexivity. Qed.

Lemma beq_eq a b : beq a b = true <-> a = b.
Proof.
  split; [|intros ->; apply beq_refl].
  revert b. induction a as [|x a IH]; intros [|y b]; cbn; try discriminate; [reflexivity|].
  intros H. apply andb_prop in H as [H1 H2]. apply N.eqb_eq in H1. subst. f_equal. apply IH. exact H2.
Qed.

Lemma beq_neq a b : beq a b = false <-> a <> b.
Proof.
  split.
  - intros H E. subst. rewrite beq_refl in H. discriminate.
  - intros H. destruct (beq a b) eqn:E; [|reflexivity]. apply beq_eq in E. contradiction.
Qed.

Lemma beq_sym a b : beq a b = beq b a.
Proof.
  destruct (beq a b) eqn:E.
  - apply beq_eq in E. subst. symmetry. apply beq_refl.
  - symmetry. apply beq_neq. apply beq_neq in E. congruence.
Qed.

Lemma bmem_In x l : bmem x l = true <-> In x l.
Proof.
  unfold bmem. rewrite existsb_exists. split.
  - intros [y [Hy E]]. apply beq_eq in E. subst. exact Hy.
  - intros H. exists x. split; [exact H|apply beq_refl].
Qed.

Lemma bmem_nil x : bmem x [] = false.
Proof. reflexivity. Qed.

Lemma nmem_In c l : nmem c l = true <-> In c l.
Proof.
  unfold nmem. rewrite existsb_exists. split.
  - intros [y [Hy E]]. apply N.eqb_eq in E. subst. exact Hy.
  - intros H. exists c. split; [exact H|apply N.eqb_refl].
Qed.

Lemma nmem_app c a b : nmem c (a ++ b) = nmem c a || nmem c b.
Proof. unfold nmem. apply existsb_app. Qed.

(* ---- starts_with ---------------------------------------------------------------------------------- *)
Lemma starts_with_app p l : starts_with p l = true -> l = p ++ skipn (length p) l.
Proof.
  revert l. induction p as [|x p IH]; intros l H; [reflexivity|].
  destruct l as [|y l]; [discriminate|]. cbn in H. apply andb_prop in H as [H1 H2].
  apply N.eqb_eq in H1. subst. cbn. f_equal. apply IH. exact H2.
Qed.

Lemma starts_with_prefix p r : starts_with p (p ++ r) = true.
Proof. induction p as [|x p IH]; cbn; [reflexivity|]. rewrite N.eqb_refl. exact IH. Qed.

Lemma starts_with_neq p k k' :
  starts_with p k = true -> starts_with p k' = false -> beq k k' = false.
Proof.
  intros H1 H2. apply beq_neq. intros E. subst. rewrite H1 in H2. discriminate.
Qed.

(* ---- cut1 / span ------------------------------------------------------------------------------------ *)
Lemma cut1_span c l :
  match cut1 c l with
  | (a, Some b) => span (N.eqb c) l = (a, c :: b) /\ l = a ++ c :: b /\ nmem c a = false
  | (a, None) => span (N.eqb c) l = (a, []) /\ l = a /\ nmem c a = false
  end.
Proof.
  induction l as [|x t IH]; cbn; [auto|].
  rewrite (N.eqb_sym c x).
  destruct (x =? c) eqn:E.
  - apply N.eqb_eq in E. subst. auto.
  - destruct (cut1 c t) as [a [b|]]; destruct IH as [IH1 [IH2 IH3]]; rewrite IH1; cbn;
      rewrite (N.eqb_sym c x), E; cbn; repeat split; try congruence; exact IH3.
Qed.

Lemma span_app stop a r :
  forallb (fun c => negb (stop c)) a = true ->
  span stop (a ++ r) = (a ++ fst (span stop r), snd (span stop r)).
Proof.
  induction a as [|x a IH]; intros H; cbn.
  - destruct (span stop r); reflexivity.
  - cbn in H. apply andb_prop in H as [H1 H2]. apply negb_true_iff in H1. rewrite H1.
    rewrite (IH H2). reflexivity.
Qed.

Lemma span_spec stop l :
  let (a, b) := span stop l in
  l = a ++ b /\ forallb (fun c => negb (stop c)) a = true /\ match b with c :: _ => stop c = true | [] => True end.
Proof.
  induction l as [|x t IH]; cbn; [auto|].
  destruct (stop x) eqn:E.
  - cbn. auto.
  - destruct (span stop t) as [a b]. destruct IH as [IH1 [IH2 IH3]]. cbn. rewrite E. cbn.
    repeat split; [congruence|exact IH2|exact IH3].
Qed.

Lemma span_ext f g l : (forall c, f c = g c) -> span f l = span g l.
Proof. intros H. induction l as [|x t IH]; cbn; [reflexivity|]. rewrite H, IH. reflexivity. Qed.

Lemma span_firstn_skipn stop l :
  span stop l = (firstn (length (fst (span stop l))) l, skipn (length (fst (span stop l))) l).
Proof.
  induction l as [|x t IH]; cbn; [reflexivity|].
  destruct (stop x); cbn; [reflexivity|].
  destruct (span stop t) as [a b] eqn:E. cbn in *. injection IH as Ha Hb.
  rewrite <- Ha, <- Hb. reflexivity.
Qed.

(* ---- CRLF cuts: lengths ------------------------------------------------------------------------------ *)
Lemma cut_crlf_eq x y t :
  cut_crlf (x :: y :: t) =
  if (x =? 13) && (y =? 10) then Some ([], t)
  else match cut_crlf (y :: t) with Some (a, b) => Some (x :: a, b) | None => None end.
Proof. reflexivity. Qed.

Lemma cut_crlf_len : forall l a b, cut_crlf l = Some (a, b) -> (length l = length a + 2 + length b)%nat.
Proof.
  induction l as [|x t IH]; intros a b H; [discriminate|].
  destruct t as [|y t']; [discriminate|]. rewrite cut_crlf_eq in H.
  destruct ((x =? 13) && (y =? 10)).
  - inversion H. subst. cbn. reflexivity.
  - destruct (cut_crlf (y :: t')) as [[a' b']|] eqn:E; [|discriminate].
    inversion H. subst. pose proof (IH _ _ eq_refl) as E'. cbn in *. lia.
Qed.

Lemma split_crlf_eq x y t :
  split_crlf (x :: y :: t) =
  if (x =? 13) && (y =? 10) then [] :: split_crlf t else cons_hd x (split_crlf (y :: t)).
Proof. reflexivity. Qed.

Lemma cons_hd_nonempty x ls : cons_hd x ls <> [].
Proof. destruct ls; discriminate. Qed.

Lemma split_crlf_nonempty l : split_crlf l <> [].
Proof.
  destruct l as [|x [|y t]]; try discriminate. rewrite split_crlf_eq.
  destruct ((x =? 13) && (y =? 10)); [discriminate|apply cons_hd_nonempty].
Qed.

Lemma skipn_length_le {A} n (l : list A) : (length (skipn n l) <= length l)%nat.
Proof. rewrite skipn_length. lia. Qed.

Lemma cut_crlf2_len : forall l a b, cut_crlf2 l = Some (a, b) -> (length b + 4 + length a = length l)%nat.
Proof.
  induction l as [|x t IH]; intros a b H; [discriminate|].
  cbn [cut_crlf2] in H.
  destruct (starts_with crlf2 (x :: t)) eqn:E.
  - inversion H. subst. apply starts_with_app in E. cbn in E.
    destruct t as [|t1 [|t2 [|t3 t]]]; try discriminate E. cbn. lia.
  - destruct (cut_crlf2 t) as [[a' b']|] eqn:E2; [|discriminate].
    inversion H. subst. specialize (IH _ _ eq_refl). cbn. lia.
Qed.

(* ---- join ----------------------------------------------------------------------------------------------- *)
Lemma join_cons sep x t : t <> [] -> join sep (x :: t) = x ++ sep ++ join sep t.
Proof. destruct t; [congruence|reflexivity]. Qed.
Lemma join_single sep x : join sep [x] = x.
Proof. reflexivity. Qed.

(* ---- finite tables: a predicate on characters given as a list of members < 256 -------------------------- *)
Lemma nmem_big t c : forallb (fun x => x <? 256) t = true -> 256 <= c -> nmem c t = false.
Proof.
  intros Ht Hc. destruct (nmem c t) eqn:E; [|reflexivity].
  apply nmem_In in E. rewrite forallb_forall in Ht. apply Ht in E. apply N.ltb_lt in E. lia.
Qed.

Definition all256 (f : N -> bool) : bool := forallb f (map N.of_nat (seq 0 256)).
Lemma all256_spec f : all256 f = true -> forall c, c < 256 -> f c = true.
Proof.
  unfold all256. rewrite forallb_forall. intros H c Hc. apply H.
  apply in_map_iff. exists (N.to_nat c). split; [apply N2Nat.id|].
  apply in_seq. lia.
Qed.

Lemma table_pred t (g : N -> bool) :
  forallb (fun x => x <? 256) t = true ->
  all256 (fun c => Bool.eqb (nmem c t) (g c)) = true ->
  (forall c, 256 <= c -> g c = false) ->
  forall c, nmem c t = g c.
Proof.
  intros Ht Ha Hg c. destruct (N.lt_ge_cases c 256) as [Hc|Hc].
  - apply eqb_prop. exact (all256_spec _ Ha c Hc).
  - rewrite (nmem_big t c Ht Hc), (Hg c Hc). reflexivity.
Qed.

Lemma is_ascii_alpha_tab : forall c, nmem c ascii_alpha = sp_alpha c.
Proof.
  apply table_pred; [vm_compute; reflexivity|vm_compute; reflexivity|].
  intros c Hc. unfold sp_alpha.
  replace (c <=? 90) with false by (symmetry; apply N.leb_gt; lia).
  replace (c <=? 122) with false by (symmetry; apply N.leb_gt; lia).
  rewrite !andb_false_r. reflexivity.
Qed.

Lemma scheme_chars_tab : forall c, nmem c scheme_chars = sp_scheme_char c.
Proof.
  apply table_pred; [vm_compute; reflexivity|vm_compute; reflexivity|].
  intros c Hc. unfold sp_scheme_char, sp_alpha, sp_digit.
  replace (c <=? 90) with false by (symmetry; apply N.leb_gt; lia).
  replace (c <=? 122) with false by (symmetry; apply N.leb_gt; lia).
  replace (c <=? 57) with false by (symmetry; apply N.leb_gt; lia).
  replace (c =? 43) with false by (symmetry; apply N.eqb_neq; lia).
  replace (c =? 45) with false by (symmetry; apply N.eqb_neq; lia).
  replace (c =? 46) with false by (symmetry; apply N.eqb_neq; lia).
  rewrite !andb_false_r. reflexivity.
Qed.

Definition opt_eqb (a b : option N) : bool :=
  match a, b with Some x, Some y => x =? y | None, None => true | _, _ => false end.
Lemma opt_eqb_eq a b : opt_eqb a b = true -> a = b.
Proof. destruct a, b; cbn; try discriminate; try reflexivity. intros H. apply N.eqb_eq in H. congruence. Qed.

Lemma assoc_n_big t c : forallb (fun kv => fst kv <? 256) t = true -> 256 <= c -> assoc_n c t = None.
Proof.
  induction t as [|[k v] t IH]; cbn; [reflexivity|]. intros H Hc. apply andb_prop in H as [H1 H2].
  apply N.ltb_lt in H1. replace (c =? k) with false by (symmetry; apply N.eqb_neq; lia). apply IH; assumption.
Qed.

Lemma hexval_tab : forall c, assoc_n c hexdig_tab = sp_hex c.
Proof.
  intros c. destruct (N.lt_ge_cases c 256) as [Hc|Hc].
  - apply opt_eqb_eq.
    exact (all256_spec (fun c => opt_eqb (assoc_n c hexdig_tab) (sp_hex c)) ltac:(vm_compute; reflexivity) c Hc).
  - rewrite assoc_n_big by (try (vm_compute; reflexivity); exact Hc).
    unfold sp_hex, sp_digit.
    replace (c <=? 57) with false by (symmetry; apply N.leb_gt; lia).
    replace (c <=? 70) with false by (symmetry; apply N.leb_gt; lia).
    replace (c <=? 102) with false by (symmetry; apply N.leb_gt; lia).
    rewrite !andb_false_r. reflexivity.
Qed.

(* str.upper() agrees with ASCII upper-casing on every token character *)
Lemma upper_token_tab : forallb (fun c => upper_c c =? sp_upper_c c) token_chars = true.
Proof. vm_compute. reflexivity. Qed.

Lemma upper_token s : forallb (fun ch => nmem ch token_chars) s = true -> upper s = sp_upper s.
Proof.
  unfold upper, sp_upper.
  induction s as [|c s IH]; cbn [map forallb]; [reflexivity|]. intros H. apply andb_prop in H as [H1 H2].
  rewrite (IH H2). f_equal. apply nmem_In in H1.
  pose proof upper_token_tab as T. rewrite forallb_forall in T. apply N.eqb_eq. apply T. exact H1.
Qed.

(* ---- percent-decoding: urllib's split-on-% algorithm is the left-to-right scan ---------------------------- *)
Lemma split_c_nonempty c l : split_c c l <> [].
Proof.
  induction l as [|x t IH]; cbn; [discriminate|].
  destruct (x =? c); [discriminate|]. destruct (split_c c t); cbn; discriminate.
Qed.

Lemma sp_hex_37 : sp_hex 37 = None.
Proof. reflexivity. Qed.

Lemma sp_hex_not37 a x : sp_hex a = Some x -> (a =? 37) = false.
Proof. intros H. apply N.eqb_neq. intros E. subst. discriminate. Qed.

Lemma pct_hex a b t x y :
  sp_hex a = Some x -> sp_hex b = Some y -> pct_decode (37 :: a :: b :: t) = (x * 16 + y) :: pct_decode t.
Proof. intros Ha Hb. cbn [pct_decode]. rewrite Ha, Hb. reflexivity. Qed.
Lemma pct_nohex2 a b t :
  sp_hex a = None \/ sp_hex b = None -> pct_decode (37 :: a :: b :: t) = 37 :: pct_decode (a :: b :: t).
Proof.
  intros H. change (pct_decode (37 :: a :: b :: t)) with
    (match sp_hex a, sp_hex b with Some x, Some y => (x * 16 + y) :: pct_decode t | _, _ => 37 :: pct_decode (a :: b :: t) end).
  destruct H as [-> | ->]; [reflexivity|]. destruct (sp_hex a); reflexivity.
Qed.
Lemma pct_short1 a : pct_decode [37; a] = 37 :: pct_decode [a].
Proof. reflexivity. Qed.
Lemma pct_other c t : (c =? 37) = false -> pct_decode (c :: t) = c :: pct_decode t.
Proof. intros H. cbn [pct_decode]. rewrite H. reflexivity. Qed.

(* unquote in terms of the head item and the other items *)
Definition uq_items (t : bytes) : bytes :=
  match split_c 37 t with [] => [] | h :: items => unquote_item h ++ flat_map unquote_item items end.
Lemma unquote_pct_cons t : unquote (37 :: t) = uq_items t.
Proof. unfold unquote, uq_items. cbn [split_c]. rewrite N.eqb_refl. cbn [app]. destruct (split_c 37 t); reflexivity. Qed.
Lemma unquote_other x t : (x =? 37) = false -> unquote (x :: t) = x :: unquote t.
Proof.
  intros H. unfold unquote. cbn [split_c]. rewrite H.
  destruct (split_c 37 t) as [|h items] eqn:Es; [exfalso; eapply split_c_nonempty; exact Es|]. reflexivity.
Qed.
Lemma uq_items_pct t : uq_items (37 :: t) = 37 :: uq_items t.
Proof. unfold uq_items. cbn [split_c]. rewrite N.eqb_refl. destruct (split_c 37 t); reflexivity. Qed.
Lemma uq_items_one a : (a =? 37) = false -> uq_items [a] = [37; a].
Proof. intros H. unfold uq_items. cbn [split_c]. rewrite H. reflexivity. Qed.
Lemma uq_items_nil : uq_items [] = [37].
Proof. reflexivity. Qed.
Lemma uq_items_a_pct a t : (a =? 37) = false -> uq_items (a :: 37 :: t) = 37 :: a :: uq_items t.
Proof. intros H. unfold uq_items. cbn [split_c]. rewrite H, N.eqb_refl. destruct (split_c 37 t); reflexivity. Qed.
Lemma uq_items_ab a b t :
  (a =? 37) = false -> (b =? 37) = false ->
  uq_items (a :: b :: t) =
  match sp_hex a, sp_hex b with
  | Some x, Some y => (x * 16 + y) :: unquote t
  | _, _ => 37 :: a :: b :: unquote t
  end.
Proof.
  intros Ha Hb. unfold uq_items, unquote. cbn [split_c]. rewrite Ha, Hb.
  destruct (split_c 37 t) as [|h items] eqn:Es; [exfalso; eapply split_c_nonempty; exact Es|].
  cbn [cons_hd unquote_item]. unfold hexval. rewrite !hexval_tab.
  destruct (sp_hex a); [destruct (sp_hex b)|]; reflexivity.
Qed.

Lemma unquote_pct_aux : forall n l, (length l <= n)%nat -> unquote l = pct_decode l.
Proof.
  induction n as [|n IH]; intros l Hl.
  - destruct l; [reflexivity|cbn in Hl; lia].
  - destruct l as [|x t]; [reflexivity|]. cbn [length] in Hl.
    destruct (x =? 37) eqn:Ex.
    + apply N.eqb_eq in Ex. subst x. rewrite unquote_pct_cons.
      destruct t as [|a t1].
      { reflexivity. }
      destruct (a =? 37) eqn:Ea.
      { apply N.eqb_eq in Ea. subst a. rewrite uq_items_pct.
        rewrite <- unquote_pct_cons. rewrite (IH (37 :: t1)) by (cbn [length] in *; lia).
        destruct t1 as [|b t2]; [reflexivity|]. rewrite pct_nohex2 by (left; reflexivity). reflexivity. }
      destruct t1 as [|b t2].
      { rewrite uq_items_one by exact Ea. rewrite pct_short1, (pct_other a) by exact Ea. reflexivity. }
      destruct (b =? 37) eqn:Eb.
      { apply N.eqb_eq in Eb. subst b. rewrite uq_items_a_pct by exact Ea.
        rewrite <- unquote_pct_cons. rewrite (IH (37 :: t2)) by (cbn [length] in *; lia).
        rewrite pct_nohex2 by (right; reflexivity). rewrite (pct_other a) by exact Ea. reflexivity. }
      rewrite uq_items_ab by assumption. rewrite (IH t2) by (cbn [length] in *; lia).
      destruct (sp_hex a) as [xa|] eqn:Ha; [destruct (sp_hex b) as [xb|] eqn:Hb|].
      * rewrite (pct_hex a b t2 xa xb Ha Hb). reflexivity.
      * rewrite pct_nohex2 by (right; exact Hb). rewrite (pct_other a), (pct_other b) by assumption. reflexivity.
      * rewrite pct_nohex2 by (left; exact Ha). rewrite (pct_other a), (pct_other b) by assumption. reflexivity.
    + rewrite unquote_other by exact Ex. rewrite pct_other by exact Ex. rewrite (IH t) by lia. reflexivity.
Qed.

Theorem unquote_is_pct_decode l : unquote l = pct_decode l.
Proof. apply (unquote_pct_aux (length l)). apply le_n. Qed.

Lemma pct_decode_app_nopct a b : nmem 37 a = false -> pct_decode (a ++ b) = a ++ pct_decode b.
Proof.
  induction a as [|x a IH]; intros H; [reflexivity|].
  unfold nmem in H. cbn [existsb] in H. apply orb_false_iff in H as [H1 H2]. cbn [app].
  rewrite N.eqb_sym in H1. rewrite pct_other by exact H1. f_equal. apply IH. exact H2.
Qed.

(* ---- path ? query # fragment: split('#', 1) then split('?', 1) is the single scan --------------------------- *)
Lemma pqf_equiv : forall r,
  let (u5, f) := cut_or_all 35 r in
  let (u6, q) := cut_or_all 63 u5 in
  sp_pqf r = (u6, q, f).
Proof.
  unfold cut_or_all, sp_pqf.
  induction r as [|x t IH]; [reflexivity|].
  cbn [cut1 span].
  destruct (x =? 35) eqn:E35.
  - apply N.eqb_eq in E35. subst x. cbn. reflexivity.
  - destruct (x =? 63) eqn:E63.
    + apply N.eqb_eq in E63. subst x. cbn.
      pose proof (cut1_span 35 t) as H. destruct (cut1 35 t) as [a [b|]].
      * destruct H as [H1 _]. cbn. rewrite H1. reflexivity.
      * destruct H as [H1 _]. cbn. rewrite H1. reflexivity.
    + cbn [orb].
      destruct (span (fun c => (c =? 63) || (c =? 35)) t) as [p r1] eqn:Es.
      destruct (cut1 35 t) as [a [b|]] eqn:Ec; cbn [cut1] in *; rewrite E63;
        destruct (cut1 63 a) as [a2 [b2|]] eqn:Ec2;
        match type of IH with context[let (_, _) := ?X in _] => destruct X as [query r2] end;
        injection IH as E1 E2 E3; rewrite E1, E2, E3; reflexivity.
Qed.
