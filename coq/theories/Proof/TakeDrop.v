(* takeN / dropN: slicing with sizes in N (data[:n], data[n:]) *)
From Coq Require Import List NArith ZArith Bool Lia Arith.
From GV Require Import Base.Bytes Base.Scan Base.PyStr Gen.GenParser Model.Parser.
Import ListNotations.
Local Open Scope N_scope.

(* ---- takeN / dropN ---------------------------------------------------------------------------- *)
Lemma blen_app a b : blen (a ++ b) = blen a + blen b.
Proof. unfold blen. rewrite app_length. lia. Qed.
Lemma blen_nil : blen [] = 0. Proof. reflexivity. Qed.
Lemma blen_zero l : blen l = 0 -> l = [].
Proof. unfold blen. destruct l; [reflexivity|cbn; lia]. Qed.
Lemma takeN_dropN n l : takeN n l ++ dropN n l = l.
Proof. unfold takeN, dropN. apply firstn_skipn. Qed.
Lemma takeN_all n l : blen l <= n -> takeN n l = l.
Proof. intros H. unfold takeN. replace (N.min n (blen l)) with (blen l) by lia. unfold blen. rewrite Nat2N.id. apply firstn_all. Qed.
Lemma dropN_all n l : blen l <= n -> dropN n l = [].
Proof. intros H. unfold dropN. replace (N.min n (blen l)) with (blen l) by lia. unfold blen. rewrite Nat2N.id. apply skipn_all. Qed.
Lemma blen_takeN n l : blen (takeN n l) = N.min n (blen l).
Proof. unfold takeN, blen. rewrite firstn_length. lia. Qed.
Lemma blen_dropN n l : blen (dropN n l) = blen l - n.
Proof. unfold dropN, blen. rewrite skipn_length. lia. Qed.
Lemma takeN_app_l n a b : n <= blen a -> takeN n (a ++ b) = takeN n a.
Proof.
  intros H. unfold takeN. rewrite blen_app. replace (N.min n (blen a + blen b)) with n by lia.
  replace (N.min n (blen a)) with n by lia. rewrite firstn_app.
  replace (N.to_nat n - length a)%nat with 0%nat by (unfold blen in H; lia). cbn. apply app_nil_r.
Qed.
Lemma dropN_app_l n a b : n <= blen a -> dropN n (a ++ b) = dropN n a ++ b.
Proof.
  intros H. unfold dropN. rewrite blen_app. replace (N.min n (blen a + blen b)) with n by lia.
  replace (N.min n (blen a)) with n by lia. rewrite skipn_app.
  replace (N.to_nat n - length a)%nat with 0%nat by (unfold blen in H; lia). reflexivity.
Qed.
Lemma takeN_app_r n a b : blen a <= n -> takeN n (a ++ b) = a ++ takeN (n - blen a) b.
Proof.
  intros H. unfold takeN. rewrite blen_app. rewrite firstn_app.
  rewrite firstn_all2 by (unfold blen in *; lia). f_equal. f_equal. unfold blen in *. lia.
Qed.
Lemma dropN_app_r n a b : blen a <= n -> dropN n (a ++ b) = dropN (n - blen a) b.
Proof.
  intros H. unfold dropN. rewrite blen_app. rewrite skipn_app.
  rewrite skipn_all2 by (unfold blen in *; lia). cbn [app]. f_equal. unfold blen in *. lia.
Qed.
Lemma takeN_takeN n m l : takeN n (takeN m l) = takeN (N.min n m) l.
Proof. unfold takeN at 1. rewrite blen_takeN. unfold takeN. rewrite firstn_firstn. f_equal. lia. Qed.
Lemma dropN_dropN n m l : dropN n (dropN m l) = dropN (n + m) l.
Proof.
  unfold dropN at 1. rewrite blen_dropN. unfold dropN. rewrite skipn_skipn. f_equal. lia.
Qed.
Lemma takeN_nil n : takeN n [] = []. Proof. unfold takeN. cbn. rewrite N.min_0_r. reflexivity. Qed.
Lemma dropN_nil n : dropN n [] = []. Proof. unfold dropN. cbn. rewrite N.min_0_r. reflexivity. Qed.
Lemma takeN_dropN_comm n m l : takeN n (dropN m l) ++ dropN (n + m) l = dropN m l.
Proof. rewrite <- dropN_dropN. apply takeN_dropN. Qed.
Lemma takeN_0 l : takeN 0 l = []. Proof. unfold takeN. rewrite N.min_0_l. reflexivity. Qed.
Lemma dropN_0 l : dropN 0 l = l. Proof. unfold dropN. rewrite N.min_0_l. reflexivity. Qed.

